(* C09 - same input, same output, byte for byte: no result depends on the
   iteration order of a HashMap / HashSet.

   Model of "all per-process hash seeds": a loop over a hash container is a
   fold over an ARBITRARY permutation of its keys (Model/HashSites.v,
   Model/Costs.v take the order as a list).  For every place of the code where
   such a loop reaches standard output or a file (inventory:
   lib/hash_sites.json, regenerated from the source by lib/hashscan.py on every
   run) one of the theorems below applies:
     sorted-before-use / fixed-sorted : the keys are sorted first
         -> C09_sorted_iteration_perm and its instances (any arithmetic);
     keyed-rebuild : one entry per key, touching only that key
         -> C09_keyed_rebuild_perm (any arithmetic);
   and for the running decimal sums that USED to be computed in hash order:
     exact arithmetic: order-independent (C09_sum_exact_perm,
         C09_gains_exact_perm, C09_carry_forward_exact_any_order);
     rust_decimal: order-independent while every partial sum fits 96 bits at
         the common scale (C09_sum_dec_perm_when_fits), not in general
         (C09_sum_dec_unsorted_refuted) - which is why the code now sorts.
   Proofs: Proofs/SortPerm.v, Proofs/HashOrder.v, Proofs/CostsProps.v. *)
From Coq Require Import List NArith ZArith QArith Qcanon Bool Permutation Lia.
From ACB Require Import Base.Outcome Base.QcExtra Base.Fit Base.Arith Model.Tx Model.Costs
     Model.HashSites Spec.MaxCost Proofs.SortPerm Proofs.HashOrder Proofs.CostsProps.
Import ListNotations.
Local Open Scope Z_scope.

(* ---- sorting removes the iteration order ---- *)
Theorem C09_sorted_iteration_perm :
  (forall l l' : list Z, Permutation l l' -> zsort l = zsort l') /\
  (forall l l' : list N, Permutation l l' -> nsort l = nsort l') /\
  (forall (V : Type) (l l' : list (N * V)), NoDup (map fst l) -> Permutation l l' -> ksort l = ksort l').
Proof.
  split; [exact SortPerm.zsort_perm_eq|]. split; [exact SortPerm.nsort_perm_eq|].
  intros V. exact (@SortPerm.ksort_perm_eq V).
Qed.
Check C09_sorted_iteration_perm :
  (forall l l' : list Z, Permutation l l' -> zsort l = zsort l') /\
  (forall l l' : list N, Permutation l l' -> nsort l = nsort l') /\
  (forall (V : Type) (l l' : list (N * V)), NoDup (map fst l) -> Permutation l l' -> ksort l = ksort l').
Print Assumptions C09_sorted_iteration_perm.

(* ---- running sums ---- *)
(* exact arithmetic: a commutative-monoid fold *)
Theorem C09_sum_exact_perm : forall l l',
  Permutation l l' -> sum_in_order exact l = sum_in_order exact l'.
Proof. exact HashOrder.sum_exact_perm. Qed.
Check C09_sum_exact_perm : forall l l',
  Permutation l l' -> sum_in_order exact l = sum_in_order exact l'.
Print Assumptions C09_sum_exact_perm.

(* rust_decimal returns a representable result unchanged *)
Theorem C09_fit_exact : forall (s : nat) (m : Z),
  (s <= 28)%nat -> Z.abs m <= max_mant -> fit (at_scale s m) = Some (at_scale s m).
Proof. exact HashOrder.fit_exact. Qed.
Check C09_fit_exact : forall (s : nat) (m : Z),
  (s <= 28)%nat -> Z.abs m <= max_mant -> fit (at_scale s m) = Some (at_scale s m).
Print Assumptions C09_fit_exact.

(* rust_decimal: addends m_i / 10^s; when every partial sum of the mantissas,
   in both orders, stays within 96 bits the two orders give the same (exact)
   result *)
Theorem C09_sum_dec_perm_when_fits : forall s ms ms',
  (s <= 28)%nat -> prefixes_fit 0 ms -> prefixes_fit 0 ms' -> Permutation ms ms' ->
  sum_in_order dec (map (at_scale s) ms) = sum_in_order dec (map (at_scale s) ms').
Proof. exact HashOrder.sum_dec_perm_when_fits. Qed.
Check C09_sum_dec_perm_when_fits : forall s ms ms',
  (s <= 28)%nat -> prefixes_fit 0 ms -> prefixes_fit 0 ms' -> Permutation ms ms' ->
  sum_in_order dec (map (at_scale s) ms) = sum_in_order dec (map (at_scale s) ms').
Print Assumptions C09_sum_dec_perm_when_fits.

(* ... in particular when the sum of the absolute mantissas fits *)
Theorem C09_sum_dec_perm_when_abs_fits : forall s ms ms',
  (s <= 28)%nat -> zsum_abs ms <= max_mant -> Permutation ms ms' ->
  sum_in_order dec (map (at_scale s) ms) = sum_in_order dec (map (at_scale s) ms').
Proof. exact HashOrder.sum_dec_perm_when_abs_fits. Qed.
Check C09_sum_dec_perm_when_abs_fits : forall s ms ms',
  (s <= 28)%nat -> zsum_abs ms <= max_mant -> Permutation ms ms' ->
  sum_in_order dec (map (at_scale s) ms) = sum_in_order dec (map (at_scale s) ms').
Print Assumptions C09_sum_dec_perm_when_abs_fits.

(* ... and not otherwise: three addends of 28 digits *)
Theorem C09_sum_dec_unsorted_refuted :
  exists l l', Permutation l l' /\ sum_in_order dec l <> sum_in_order dec l'.
Proof. exact HashOrder.sum_dec_unsorted_refuted. Qed.
Check C09_sum_dec_unsorted_refuted :
  exists l l', Permutation l l' /\ sum_in_order dec l <> sum_in_order dec l'.
Print Assumptions C09_sum_dec_unsorted_refuted.

(* ---- the sites, as the code is now (any arithmetic A) ---- *)
(* cumulative_gains.rs calc_cumulative_capital_gains over sec_gains *)
Theorem C09_gains_sorted_perm : forall A m m',
  NoDup (map fst m) -> Permutation m m' -> gains_now A m = gains_now A m'.
Proof. exact HashOrder.gains_sorted_perm. Qed.
Check C09_gains_sorted_perm : forall A m m',
  NoDup (map fst m) -> Permutation m m' -> gains_now A m = gains_now A m'.
Print Assumptions C09_gains_sorted_perm.

(* superficial_loss.rs buying_affiliate_split_adjusted_shares_at_eop_total *)
Theorem C09_buyers_total_sorted_perm : forall A m m',
  NoDup (map fst m) -> Permutation m m' -> buyers_total_now A m = buyers_total_now A m'.
Proof. exact HashOrder.buyers_total_sorted_perm. Qed.
Check C09_buyers_total_sorted_perm : forall A m m',
  NoDup (map fst m) -> Permutation m m' -> buyers_total_now A m = buyers_total_now A m'.
Print Assumptions C09_buyers_total_sorted_perm.

(* splits.rs replace_global_security_splits *)
Theorem C09_split_expansion_sorted_perm : forall (T : Type) (mk : N -> T) afs afs',
  Permutation afs afs' -> expand_split_now mk afs = expand_split_now mk afs'.
Proof. intros T. exact (@HashOrder.split_expansion_sorted_perm T). Qed.
Check C09_split_expansion_sorted_perm : forall (T : Type) (mk : N -> T) afs afs',
  Permutation afs afs' -> expand_split_now mk afs = expand_split_now mk afs'.
Print Assumptions C09_split_expansion_sorted_perm.

(* approot.rs run_acb_app_to_render_model: order of the notes / of all_deltas *)
Theorem C09_notes_sorted_perm : forall m m',
  NoDup (map fst m) -> Permutation m m' -> notes_now m = notes_now m'.
Proof. exact HashOrder.notes_sorted_perm. Qed.
Check C09_notes_sorted_perm : forall m m',
  NoDup (map fst m) -> Permutation m m' -> notes_now m = notes_now m'.
Print Assumptions C09_notes_sorted_perm.

Theorem C09_all_deltas_sorted_perm : forall m m',
  NoDup (map fst m) -> Permutation m m' -> all_deltas m = all_deltas m'.
Proof. exact HashOrder.all_deltas_sorted_perm. Qed.
Check C09_all_deltas_sorted_perm : forall m m',
  NoDup (map fst m) -> Permutation m m' -> all_deltas m = all_deltas m'.
Print Assumptions C09_all_deltas_sorted_perm.

(* costs.rs: security set in the carry-forward loop, day map in the yearly
   maximum - whatever order the containers yield, the tables are the same *)
Theorem C09_costs_hash_order_independent : forall A cm (so : list N -> list N) (dor : list Z -> list Z) ds,
  (forall l, Permutation (so l) l) -> (forall l, Permutation (dor l) l) ->
  costs_with A cm (fun l => nsort (so l)) (fun l => zsort (dor l)) ds = costs_with A cm nsort zsort ds.
Proof. exact HashOrder.costs_hash_order_independent. Qed.
Check C09_costs_hash_order_independent : forall A cm (so : list N -> list N) (dor : list Z -> list Z) ds,
  (forall l, Permutation (so l) l) -> (forall l, Permutation (dor l) l) ->
  costs_with A cm (fun l => nsort (so l)) (fun l => zsort (dor l)) ds = costs_with A cm nsort zsort ds.
Print Assumptions C09_costs_hash_order_independent.

(* costs.rs calc_yearly_max_cost_day on its own *)
Theorem C09_yearly_choice_sorted_perm : forall t t',
  NoDup (map fst t) -> Permutation t t' -> yearly_choice_now t = yearly_choice_now t'.
Proof. exact HashOrder.yearly_choice_sorted_perm. Qed.
Check C09_yearly_choice_sorted_perm : forall t t',
  NoDup (map fst t) -> Permutation t t' -> yearly_choice_now t = yearly_choice_now t'.
Print Assumptions C09_yearly_choice_sorted_perm.

(* costs.rs carry-forward loop under exact arithmetic: even without the sort,
   the dated rows, columns and notes do not depend on the order in which the
   security set is walked (the day total is a sum) *)
Theorem C09_carry_forward_exact_any_order : forall (sec_order : list N -> list N) ds,
  (forall l, Permutation (sec_order l) l) ->
  Forall valid_delta ds -> Forall faithful_delta ds -> chronological ds ->
  forall t t', costs_with exact CarryClosing sec_order zsort ds = Ok t -> costs exact ds = Ok t' ->
  ct_secs t = ct_secs t' /\ ct_total t = ct_total t' /\ ct_notes t = ct_notes t'.
Proof. exact CostsProps.costs_exact_any_sec_order. Qed.
Check C09_carry_forward_exact_any_order : forall (sec_order : list N -> list N) ds,
  (forall l, Permutation (sec_order l) l) ->
  Forall valid_delta ds -> Forall faithful_delta ds -> chronological ds ->
  forall t t', costs_with exact CarryClosing sec_order zsort ds = Ok t -> costs exact ds = Ok t' ->
  ct_secs t = ct_secs t' /\ ct_total t = ct_total t' /\ ct_notes t = ct_notes t'.
Print Assumptions C09_carry_forward_exact_any_order.

(* cumulative_gains.rs under exact arithmetic: even without the sort, the
   printed total and per-year totals do not depend on the order in which the
   securities are visited (grouped commutative sums) *)
Theorem C09_gains_exact_perm : forall m m',
  Permutation m m' -> gains_out exact m = gains_out exact m'.
Proof. exact HashOrder.gains_exact_perm. Qed.
Check C09_gains_exact_perm : forall m m',
  Permutation m m' -> gains_out exact m = gains_out exact m'.
Print Assumptions C09_gains_exact_perm.

(* ---- keyed rebuilds: loops that move one entry per key into another map
   (approot.rs get_cumulative_capital_gains / run_acb_app_to_delta_models /
   run_acb_app_summary_to_model, costs.rs max_cost_day_for_year,
   superficial_loss.rs calc_superficial_loss_ratio, the per-year accumulation
   of cumulative_gains.rs).  The step for key k reads the old entry of k and
   the element only (g); for distinct keys the result is the same map for every
   order, or every order stops. ---- *)
Theorem C09_keyed_rebuild_perm : forall (V X : Type) (g : option V -> X -> res V) l l',
  Permutation l l' -> NoDup (map fst l) ->
  forall a b, zequiv a b -> res_rel (mfold (kstep g) l a) (mfold (kstep g) l' b).
Proof. intros V X. exact (@HashOrder.keyed_rebuild_perm V X). Qed.
Check C09_keyed_rebuild_perm : forall (V X : Type) (g : option V -> X -> res V) l l',
  Permutation l l' -> NoDup (map fst l) ->
  forall a b, zequiv a b -> res_rel (mfold (kstep g) l a) (mfold (kstep g) l' b).
Print Assumptions C09_keyed_rebuild_perm.

(* instance: the per-year totals of calc_cumulative_capital_gains, as printed *)
Theorem C09_year_acc_perm : forall A ys ys' acc,
  NoDup (map fst ys) -> Permutation ys ys' -> NoDup (map fst acc) ->
  match mfold (year_acc A) ys acc, mfold (year_acc A) ys' acc with
  | Ok r, Ok r' => zview r = zview r'
  | Ok _, _ | _, Ok _ => False
  | _, _ => True
  end.
Proof. exact HashOrder.year_acc_perm. Qed.
Check C09_year_acc_perm : forall A ys ys' acc,
  NoDup (map fst ys) -> Permutation ys ys' -> NoDup (map fst acc) ->
  match mfold (year_acc A) ys acc, mfold (year_acc A) ys' acc with
  | Ok r, Ok r' => zview r = zview r'
  | Ok _, _ | _, Ok _ => False
  | _, _ => True
  end.
Print Assumptions C09_year_acc_perm.

(* ---- the same loops over the raw hash order ARE order-dependent: the code
   before commits 6cc8f20, e68f2a5, 2c6afef (two-element witnesses; the check
   runs inputs of these shapes repeatedly against the real binary) ---- *)
Theorem C09_split_expansion_unsorted_refuted :
  exists order order' : list N, Permutation order order' /\
    expand_split (fun a => a) order <> expand_split (fun a => a) order'.
Proof. exact HashOrder.split_expansion_unsorted_refuted. Qed.
Check C09_split_expansion_unsorted_refuted :
  exists order order' : list N, Permutation order order' /\
    expand_split (fun a => a) order <> expand_split (fun a => a) order'.
Print Assumptions C09_split_expansion_unsorted_refuted.

Theorem C09_yearly_tie_unsorted_refuted :
  exists order order' totals,
    Permutation order order' /\ yearly_choice order totals <> yearly_choice order' totals.
Proof. exact HashOrder.yearly_tie_unsorted_refuted. Qed.
Check C09_yearly_tie_unsorted_refuted :
  exists order order' totals,
    Permutation order order' /\ yearly_choice order totals <> yearly_choice order' totals.
Print Assumptions C09_yearly_tie_unsorted_refuted.

Theorem C09_notes_unsorted_refuted :
  exists order order' m, Permutation order order' /\ notes_in_order order m <> notes_in_order order' m.
Proof. exact HashOrder.notes_unsorted_refuted. Qed.
Check C09_notes_unsorted_refuted :
  exists order order' m, Permutation order order' /\ notes_in_order order m <> notes_in_order order' m.
Print Assumptions C09_notes_unsorted_refuted.

(* ---- non-vacuity ---- *)
(* the hypotheses of the rounding theorem are satisfiable, and its conclusion
   is about a non-trivial sum: 123.45 + 6.78 + 0.09 at scale 2 in two orders *)
Example C09_nonvacuous :
  prefixes_fit 0 [12345; 678; 9] /\ prefixes_fit 0 [9; 12345; 678] /\
  Permutation [12345; 678; 9] [9; 12345; 678] /\
  sum_in_order dec (map (at_scale 2) [12345; 678; 9]) = Ok (at_scale 2 13032) /\
  (* two hash orders of the same per-security map give the same deltas *)
  all_deltas [(1%N, [mkd 1 738218 0 5]); (0%N, [mkd 0 738217 0 100])]
  = all_deltas [(0%N, [mkd 0 738217 0 100]); (1%N, [mkd 1 738218 0 5])].
Proof.
  split; [cbn; unfold max_mant; lia|]. split; [cbn; unfold max_mant; lia|].
  split; [apply Permutation_sym; apply (Permutation_cons_append [12345; 678] 9)|].
  split; [apply HashOrder.sum_dec_value; [lia|cbn; unfold max_mant; lia]|].
  reflexivity.
Qed.

(* ==== The report writers (Model/Output.v write_render_result) ================
   The map of security tables (HashMap<Security, RenderTable>) is iterated in
   sorted key order: whatever writer is plugged in (CSV directory, CSV stream,
   text), the run - every file, every section, the closing list, the failure
   if any - is the same for every order of the map's entries. *)
From ACB Require Import Model.CsvFields Model.Render Model.Output Proofs.OutputProps.

(* any writer, any starting state *)
Theorem C09_output_order : forall (W : Type) (print : W -> out_type -> bytes -> rtable -> W * option fail) w0 r r',
  NoDup (map fst (ar_secs r)) -> Permutation (ar_secs r) (ar_secs r') ->
  ar_agg r = ar_agg r' -> ar_costs r = ar_costs r' ->
  write_render_result print w0 r = write_render_result print w0 r' .
Proof. exact OutputProps.output_order_independent. Qed.
Check C09_output_order : forall (W : Type) (print : W -> out_type -> bytes -> rtable -> W * option fail) w0 r r',
  NoDup (map fst (ar_secs r)) -> Permutation (ar_secs r) (ar_secs r') ->
  ar_agg r = ar_agg r' -> ar_costs r = ar_costs r' ->
  write_render_result print w0 r = write_render_result print w0 r' .
Print Assumptions C09_output_order.

(* the three modes of the application: the directory, the sequence of File::create calls, standard output *)
Theorem C09_output_order_modes : forall r r' d0,
  NoDup (map fst (ar_secs r)) -> Permutation (ar_secs r) (ar_secs r') ->
  ar_agg r = ar_agg r' -> ar_costs r = ar_costs r' ->
  csv_dir_output d0 r = csv_dir_output d0 r' /\ csv_dir_stdout d0 r = csv_dir_stdout d0 r' /\
  write_log r = write_log r' /\ text_output r = text_output r' /\ text_stdout r = text_stdout r' /\
  csv_stream_output r = csv_stream_output r' .
Proof. 
  intros r r' d0 Hn Hp Ha Hc.
  assert (H1 : csv_dir_output d0 r = csv_dir_output d0 r') by (apply OutputProps.output_order_independent; assumption).
  assert (H2 : text_output r = text_output r') by (apply OutputProps.output_order_independent; assumption).
  unfold csv_dir_stdout, text_stdout. rewrite H1, H2.
  repeat split; try reflexivity; [apply OutputProps.write_log_perm; assumption | apply OutputProps.output_order_independent; assumption].
 Qed.
Check C09_output_order_modes : forall r r' d0,
  NoDup (map fst (ar_secs r)) -> Permutation (ar_secs r) (ar_secs r') ->
  ar_agg r = ar_agg r' -> ar_costs r = ar_costs r' ->
  csv_dir_output d0 r = csv_dir_output d0 r' /\ csv_dir_stdout d0 r = csv_dir_stdout d0 r' /\
  write_log r = write_log r' /\ text_output r = text_output r' /\ text_stdout r = text_stdout r' /\
  csv_stream_output r = csv_stream_output r' .
Print Assumptions C09_output_order_modes.

Definition w_tab (rows : list record) (errs : list text) : rtable :=
  {| rt_header := [lit [72%N]; lit [73%N]]; rt_rows := rows; rt_footer := []; rt_notes := []; rt_errors := errs |}.
Definition w_secs : list (bytes * rtable) :=
  [([98%N], w_tab [] [lit [101%N]]); ([66%N], w_tab [[lit [49%N]; lit [50%N]]] []); ([97%N], w_tab [] [lit [102%N]])].
Definition w_app (l : list (bytes * rtable)) : app_result := {| ar_secs := l; ar_agg := w_tab [] []; ar_costs := None |}.
Example C09_output_order_nonvacuous :
  NoDup (map fst w_secs) /\ Permutation w_secs (rev w_secs) /\
  text_stdout (w_app w_secs) = text_stdout (w_app (rev w_secs)) /\
  ro_errsecs (csv_dir_output [] (w_app w_secs)) = [[97%N]; [98%N]] /\
  write_log (w_app (rev w_secs)) = [[66%N] ++ s_dot_csv; [97%N] ++ s_dot_csv; [98%N] ++ s_dot_csv; s_aggregate_gains_csv].
Proof.
  split; [repeat constructor; cbn; intuition discriminate|].
  split; [apply Permutation_rev|]. vm_compute. repeat split.
Qed.
