(* C14 - An interrupted cache write cannot corrupt exchange rates.
   Obligations of the property; proofs live in Proofs/CrashProps.v.

   Model/CrashFs.v: the cache directory has a live file (rates-<year>.csv)
   and a temporary file; a write procedure is a list of steps; after a crash
   following ANY number of steps, a file holds its synced part plus ANY prefix
   of what was written to it since ([post_crash]); rename is atomic.
   [pubval x] is what a correct cache holds for day x (the published rate, or
   the zero placeholder); [consistent pubval rows] says a year of rows agrees
   with it; [wf_row]: years 0..9999, mantissa within 96 bits, scale <= 28
   (what rust_decimal / the time crate can print).  The reader is the
   row-skipping parser [parse_csv] followed by the year map look-up [mget]
   (a cached year is accepted for a date iff the date is in it). *)
From Coq Require Import List NArith ZArith QArith Qcanon Bool.
From ACB Require Import Base.Outcome Base.QcExtra Base.Fit Base.Arith Model.Rates Model.RatesCache
     Model.CrashFs Spec.RateRule Proofs.RatesProps Proofs.CacheProps Proofs.CrashProps Proofs.CrashSeq.
Import ListNotations.
Local Open Scope Z_scope.

(* The procedure the code follows since 1bcf18f (write rates-<year>.csv.tmp,
   flush, sync, rename over rates-<year>.csv) is safe: for every old year
   (or none), every new year content, every stale temporary file, every crash
   point and every persisted prefix, every rate a later run can read from the
   live file is identical to the published one. *)
Theorem C14_safe_rename : forall (pubval : Z -> Qc) old tmp0 new live tmp,
  Forall wf_row new -> consistent pubval new ->
  match old with Some rs => Forall wf_row rs /\ consistent pubval rs | None => True end ->
  post_crash (rename_proc new) (fs_of old tmp0) live tmp ->
  forall b x v, live = Some b -> mget x (parse_csv b) = Some v -> v = pubval x.
Proof. exact CrashProps.rename_safe. Qed.
Check C14_safe_rename : forall (pubval : Z -> Qc) old tmp0 new live tmp,
  Forall wf_row new -> consistent pubval new ->
  match old with Some rs => Forall wf_row rs /\ consistent pubval rs | None => True end ->
  post_crash (rename_proc new) (fs_of old tmp0) live tmp ->
  forall b x v, live = Some b -> mget x (parse_csv b) = Some v -> v = pubval x.
Print Assumptions C14_safe_rename.

(* The property as stated, composed with C13: whatever the crash point of an
   interrupted write (of the year a run with (tn, an) was writing, over the
   year an earlier run with (to, ao) wrote, or over nothing), ANY later
   history of runs over the directory the crash left behind answers every
   look-up exactly like a loader without a cache (re-downloading when the
   cached year does not cover a date), and downloads no year twice in a run. *)
Theorem C14_later_runs_unaffected :
  forall (truth : calendar) y old tmp0 new live tmp t0 a0 tn an runs params,
    file_of_run truth y new tn an -> tn <= t0 -> an <= a0 -> tn <= an <= tn + 1 ->
    match old with
    | Some rs => exists to ao, file_of_run truth y rs to ao /\ to <= t0 /\ ao <= a0 /\ to <= ao <= to + 1
    | None => True
    end ->
    post_crash (rename_proc new) (fs_of old tmp0) live tmp ->
    runs_ok truth t0 a0 runs params ->
    exists s' outs,
      history true {| s_years := []; s_fresh := []; s_cache := cache_of_live y live; s_dl := [] |} runs
        = Ok (s', outs) /\
      map fst outs = ref_answers truth runs params /\
      Forall (fun o => NoDup (snd o)) outs.
Proof. exact CrashProps.later_runs_unaffected. Qed.
Check C14_later_runs_unaffected :
  forall (truth : calendar) y old tmp0 new live tmp t0 a0 tn an runs params,
    file_of_run truth y new tn an -> tn <= t0 -> an <= a0 -> tn <= an <= tn + 1 ->
    match old with
    | Some rs => exists to ao, file_of_run truth y rs to ao /\ to <= t0 /\ ao <= a0 /\ to <= ao <= to + 1
    | None => True
    end ->
    post_crash (rename_proc new) (fs_of old tmp0) live tmp ->
    runs_ok truth t0 a0 runs params ->
    exists s' outs,
      history true {| s_years := []; s_fresh := []; s_cache := cache_of_live y live; s_dl := [] |} runs
        = Ok (s', outs) /\
      map fst outs = ref_answers truth runs params /\
      Forall (fun o => NoDup (snd o)) outs.
Print Assumptions C14_later_runs_unaffected.

(* atomicity, by induction over the step list: at every crash point the live
   file is the complete old content (or still absent) or the complete new one *)
Theorem C14_rename_atomic : forall old tmp0 new live tmp,
  post_crash (rename_proc new) (fs_of old tmp0) live tmp ->
  live = option_map render_rows old \/ live = Some (render_rows new).
Proof. exact CrashProps.rename_atomic. Qed.
Check C14_rename_atomic : forall old tmp0 new live tmp,
  post_crash (rename_proc new) (fs_of old tmp0) live tmp ->
  live = option_map render_rows old \/ live = Some (render_rows new).
Print Assumptions C14_rename_atomic.

(* the reader gives back exactly the rows of a completely written file: the
   CSV cache is the in-memory cache of C13 *)
Theorem C14_read_back : forall rows,
  Forall wf_row rows -> parse_csv (render_rows rows) = map row_value rows.
Proof. exact CrashProps.parse_render_rows. Qed.
Check C14_read_back : forall rows,
  Forall wf_row rows -> parse_csv (render_rows rows) = map row_value rows.
Print Assumptions C14_read_back.

(* The procedure before the fix (File::create on the live file, rows streamed
   into it) is NOT safe: writing "2022-01-05,1.2345" and crashing after 14
   bytes leaves "2022-01-05,1.2", which the reader accepts as the rate 1.2 of
   5 January.  (Found on the real code by the check before the fix - there
   with "2016-01-06,1." read as 1 - and kept as a theorem about the model of
   the old procedure.) *)
Theorem C14_inplace_refuted :
  exists (pubval : Z -> Qc) old new live tmp x v,
    Forall wf_row new /\ consistent pubval new /\
    Forall wf_row old /\ consistent pubval old /\
    post_crash (inplace_proc new) (fs_of (Some old) None) (Some live) tmp /\
    mget x (parse_csv live) = Some v /\ v <> pubval x.
Proof. exact CrashProps.inplace_refuted. Qed.
Check C14_inplace_refuted :
  exists (pubval : Z -> Qc) old new live tmp x v,
    Forall wf_row new /\ consistent pubval new /\
    Forall wf_row old /\ consistent pubval old /\
    post_crash (inplace_proc new) (fs_of (Some old) None) (Some live) tmp /\
    mget x (parse_csv live) = Some v /\ v <> pubval x.
Print Assumptions C14_inplace_refuted.

(* Non-vacuity: the same content and the same crash point (14 bytes written)
   under the fixed procedure: the live file is still the complete old year,
   the 14 bytes sit in the temporary file, and the rate read is the published
   one. *)
Example C14_nonvacuous :
  Forall wf_row ex_new /\ consistent ex_pubval ex_new /\
  exists live tmp,
    post_crash (rename_proc ex_new) (fs_of (Some ex_new) None) (Some live) (Some tmp) /\
    live = render_rows ex_new /\
    tmp = map Z.to_N [50; 48; 50; 50; 45; 48; 49; 45; 48; 53; 44; 49; 46; 50] /\
    mget 18997 (parse_csv live) = Some (ex_pubval 18997).
Proof. exact CrashProps.c14_example. Qed.

(* ---- any number of writes in a row, each killed at any point or completed ----
   [after_writes old0 tmp0 ws cur tmp] (Proofs/CrashSeq.v): the directory after
   writing the years ws one after the other, every write starting from what the
   one before left behind - temporary file included - and stopping at ANY of its
   crash points (the last of which is its normal end).  cur is the year whose
   complete content the live file holds. *)

(* nothing is lost by that description: whatever a write leaves behind is a
   directory of that form again *)
Theorem C14_write_continues : forall cur tmp new live' tmp',
  post_crash (rename_proc new) (fs_of cur tmp) live' tmp' ->
  exists cur', live' = option_map render_rows cur' /\ (cur' = cur \/ cur' = Some new).
Proof. exact CrashSeq.write_continues. Qed.
Check C14_write_continues : forall cur tmp new live' tmp',
  post_crash (rename_proc new) (fs_of cur tmp) live' tmp' ->
  exists cur', live' = option_map render_rows cur' /\ (cur' = cur \/ cur' = Some new).
Print Assumptions C14_write_continues.

(* at all times the live file is the complete initial year or a complete year
   written so far *)
Theorem C14_live_is_a_complete_year : forall old0 tmp0 ws cur tmp,
  after_writes old0 tmp0 ws cur tmp ->
  cur = old0 \/ exists new, In new ws /\ cur = Some new.
Proof. exact CrashSeq.after_writes_live. Qed.
Check C14_live_is_a_complete_year : forall old0 tmp0 ws cur tmp,
  after_writes old0 tmp0 ws cur tmp ->
  cur = old0 \/ exists new, In new ws /\ cur = Some new.
Print Assumptions C14_live_is_a_complete_year.

(* hence, after ANY number of interrupted writes of correct years, every rate a
   later run can read from the live file is the published one *)
Theorem C14_any_number_of_interrupted_writes : forall (pubval : Z -> Qc) old0 tmp0 ws cur tmp,
  match old0 with Some rs => Forall wf_row rs /\ consistent pubval rs | None => True end ->
  Forall (fun new => Forall wf_row new /\ consistent pubval new) ws ->
  after_writes old0 tmp0 ws cur tmp ->
  forall b x v, option_map render_rows cur = Some b -> mget x (parse_csv b) = Some v -> v = pubval x.
Proof. exact CrashSeq.any_number_of_interrupted_writes. Qed.
Check C14_any_number_of_interrupted_writes : forall (pubval : Z -> Qc) old0 tmp0 ws cur tmp,
  match old0 with Some rs => Forall wf_row rs /\ consistent pubval rs | None => True end ->
  Forall (fun new => Forall wf_row new /\ consistent pubval new) ws ->
  after_writes old0 tmp0 ws cur tmp ->
  forall b x v, option_map render_rows cur = Some b -> mget x (parse_csv b) = Some v -> v = pubval x.
Print Assumptions C14_any_number_of_interrupted_writes.

(* Non-vacuity: a write killed after 14 bytes (they stay in the temporary
   file), then a second write that completes: the live file is the second year *)
Example C14_sequence_nonvacuous :
  exists tmp1 tmp2,
    after_writes (Some ex_new) None [ex_new; seq_new2] (Some seq_new2) tmp2 /\
    after_writes (Some ex_new) None [ex_new] (Some ex_new) (Some tmp1) /\
    length tmp1 = 14%nat /\
    mget 18998 (parse_csv (render_rows seq_new2)) = Some (ex_pubval 18998).
Proof. exact CrashSeq.seq_example. Qed.
