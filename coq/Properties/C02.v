(* C02 - Superficial-loss rule: 30-day window, min(sold, acquired, held) ratio. *)
From Coq Require Import List NArith ZArith QArith Qcanon Bool.
From ACB Require Import Base.Outcome Base.QcExtra Base.Fit Base.Arith Model.Tx Model.Ledger Model.Sfl
     Model.DeltaList Spec.SflRule Proofs.C02Scan.
Import ListNotations.

(* The two window scans of the code (forward with early exit and running
   per-affiliate split adjustment; backward likewise) compute exactly the
   declarative rule, for ALL settlement dates in Z - every offset ..., -31,
   -30, ..., 30, 31, ... and every same-day order is an instance - and all
   share quantities: acquired = adjusted purchases settling within 30 days
   before or after the sale (by any affiliate, registered or not), held =
   shares of all affiliates after the last row of the window, in the split
   period of the sale; superficial iff both are positive. *)
Theorem C02_scan_eq_rule : forall bef t sold aft st r,
  sd_sorted aft -> sd_sorted_desc bef ->
  sfl_info exact bef t sold aft st = Ok r ->
  match r with
  | Some s =>
      sc_acq s = rule_acquired bef t aft /\
      sc_eop s = rule_held_end (all_after_sale st sold) t aft /\
      rule_superficial bef t aft (all_after_sale st sold)
  | None => ~ rule_superficial bef t aft (all_after_sale st sold)
  end.
Proof. exact C02Scan.sfl_info_rule. Qed.
Check C02_scan_eq_rule : forall bef t sold aft st r,
  sd_sorted aft -> sd_sorted_desc bef ->
  sfl_info exact bef t sold aft st = Ok r ->
  match r with
  | Some s =>
      sc_acq s = rule_acquired bef t aft /\
      sc_eop s = rule_held_end (all_after_sale st sold) t aft /\
      rule_superficial bef t aft (all_after_sale st sold)
  | None => ~ rule_superficial bef t aft (all_after_sale st sold)
  end.
Print Assumptions C02_scan_eq_rule.

(* Without a user-supplied value: the ratio is min(sold, acquired, held)/sold
   and the denied amount is the loss times that ratio (snapped to the cent
   when within 1e-10 of one: eff_cent_val).  The sale carries a superficial
   loss exactly when the rule says so AND that denied amount is not zero
   (since the fix "treat a superficial loss that rounds to zero effective
   cents as no superficial loss": before it, such a run ended in a panic and
   the None case read [~ rule_superficial bef t aft all0]). *)
Theorem C02_denied_amount : forall bef t sold aft st loss r,
  sd_sorted aft -> sd_sorted_desc bef ->
  delta_sfl exact bef t sold None aft st loss = Ok r ->
  let all0 := all_after_sale st sold in
  match r with
  | Some (info, inj) =>
      rule_superficial bef t aft all0 /\
      sf_num info = Qcmin sold (Qcmin (rule_acquired bef t aft) (rule_held_end all0 t aft)) /\
      sf_den info = sold /\
      sf_amount info = eff_cent_val (loss * (sf_num info / sold)) /\
      (sf_amount info < 0)%Qc
  | None =>
      rule_superficial bef t aft all0 ->
      eff_cent_val (loss * rule_ratio sold (rule_acquired bef t aft) (rule_held_end all0 t aft)) = 0%Qc
  end.
Proof. exact C02Scan.delta_sfl_auto_rule. Qed.
Check C02_denied_amount : forall bef t sold aft st loss r,
  sd_sorted aft -> sd_sorted_desc bef ->
  delta_sfl exact bef t sold None aft st loss = Ok r ->
  let all0 := all_after_sale st sold in
  match r with
  | Some (info, inj) =>
      rule_superficial bef t aft all0 /\
      sf_num info = Qcmin sold (Qcmin (rule_acquired bef t aft) (rule_held_end all0 t aft)) /\
      sf_den info = sold /\
      sf_amount info = eff_cent_val (loss * (sf_num info / sold)) /\
      (sf_amount info < 0)%Qc
  | None =>
      rule_superficial bef t aft all0 ->
      eff_cent_val (loss * rule_ratio sold (rule_acquired bef t aft) (rule_held_end all0 t aft)) = 0%Qc
  end.
Print Assumptions C02_denied_amount.

(* "held by all affiliates at the end of the window, in the split period of
   the sale" is the sum over the affiliates of their share-ledger balance
   after the window times the inverse split factors in between. *)
Theorem C02_held_end_is_ledger_sum : forall ids (bal : N -> Qc) w,
  NoDup ids -> Forall (fun x => In (af_id (t_af x)) ids) w -> Forall split_pos w ->
  sum_over ids (fun id => shares_after id (bal id) w * fadj id w)%Qc
  = (sum_over ids bal + acq_after [] w - sold_after [] w)%Qc.
Proof. exact C02Scan.held_end_is_ledger_sum. Qed.
Check C02_held_end_is_ledger_sum : forall ids (bal : N -> Qc) w,
  NoDup ids -> Forall (fun x => In (af_id (t_af x)) ids) w -> Forall split_pos w ->
  sum_over ids (fun id => shares_after id (bal id) w * fadj id w)%Qc
  = (sum_over ids bal + acq_after [] w - sold_after [] w)%Qc.
Print Assumptions C02_held_end_is_ledger_sum.

(* A user-supplied superficial loss replaces the computed one and suppresses
   automatic adjustments ... *)
Theorem C02_supplied_replaces : forall bef t sold aft st loss sv force r,
  delta_sfl exact bef t sold (Some (sv, force)) aft st loss = Ok r ->
  match r with
  | Some (info, inj) => sf_amount info = sv /\ inj = [] /\ (sv < 0)%Qc /\ sf_over info = false
  | None => ~ (sv < 0)%Qc
  end.
Proof. exact C02Scan.delta_sfl_supplied. Qed.
Check C02_supplied_replaces : forall bef t sold aft st loss sv force r,
  delta_sfl exact bef t sold (Some (sv, force)) aft st loss = Ok r ->
  match r with
  | Some (info, inj) => sf_amount info = sv /\ inj = [] /\ (sv < 0)%Qc /\ sf_over info = false
  | None => ~ (sv < 0)%Qc
  end.
Print Assumptions C02_supplied_replaces.

(* ... and is rejected when it differs from the computed value by more than
   0.001 unless marked forced. *)
Theorem C02_supplied_checked : forall bef t sold aft st loss sv calc,
  computed_sfl bef t sold aft st loss = Ok calc ->
  ((Qcfrac 1 1000 < Qcabs (calc - sv))%Qc ->
   delta_sfl exact bef t sold (Some (sv, false)) aft st loss = Rej RejSflMismatch) /\
  (forall r, delta_sfl exact bef t sold (Some (sv, false)) aft st loss = Ok r ->
             (Qcabs (calc - sv) <= Qcfrac 1 1000)%Qc) /\
  (forall force, is_ok (delta_sfl exact bef t sold (Some (sv, force)) aft st loss) = true ->
                 force = true \/ (Qcabs (calc - sv) <= Qcfrac 1 1000)%Qc).
Proof. exact C02Scan.delta_sfl_supplied_check. Qed.
Check C02_supplied_checked : forall bef t sold aft st loss sv calc,
  computed_sfl bef t sold aft st loss = Ok calc ->
  ((Qcfrac 1 1000 < Qcabs (calc - sv))%Qc ->
   delta_sfl exact bef t sold (Some (sv, false)) aft st loss = Rej RejSflMismatch) /\
  (forall r, delta_sfl exact bef t sold (Some (sv, false)) aft st loss = Ok r ->
             (Qcabs (calc - sv) <= Qcfrac 1 1000)%Qc) /\
  (forall force, is_ok (delta_sfl exact bef t sold (Some (sv, force)) aft st loss) = true ->
                 force = true \/ (Qcabs (calc - sv) <= Qcfrac 1 1000)%Qc).
Print Assumptions C02_supplied_checked.

(* A superficial loss declared on a sale with no loss is rejected. *)
Theorem C02_supplied_no_loss : forall bef t aft st n price com rate crate sv force c g,
  t_act t = Sell n price com rate crate (Some (sv, force)) ->
  sanity_check (next_pre_status st (t_af t)) (t_af t) = Ok tt ->
  sell_core exact (next_pre_status st (t_af t)) n price com rate crate = Ok c ->
  sc_gain c = Some g -> ~ (g < 0)%Qc ->
  delta_for_tx exact bef t aft st = Rej RejSflNoLoss.
Proof. exact C02Scan.supplied_no_loss_rejected. Qed.
Check C02_supplied_no_loss : forall bef t aft st n price com rate crate sv force c g,
  t_act t = Sell n price com rate crate (Some (sv, force)) ->
  sanity_check (next_pre_status st (t_af t)) (t_af t) = Ok tt ->
  sell_core exact (next_pre_status st (t_af t)) n price com rate crate = Ok c ->
  sc_gain c = Some g -> ~ (g < 0)%Qc ->
  delta_for_tx exact bef t aft st = Rej RejSflNoLoss.
Print Assumptions C02_supplied_no_loss.

(* Non-vacuity: around a loss sale settling on day 100 (10 of 20 shares sold),
   a purchase of 4 shares settling on day 130 (offset +30) makes the loss
   superficial with ratio 4/10, the same purchase on day 131 does not; a
   purchase on day 70 (offset -30) does, on day 69 does not. *)
Local Open Scope Z_scope.
Definition q (n : Z) (d : positive) := Qcfrac n d.
Definition mk sd a :=
  {| t_sec := 0; t_td := sd; t_sd := sd; t_act := a; t_af := default_aff; t_glob := false; t_ri := 0 |}.
Definition buy sd n p := mk sd (Buy (q n 1) (q p 1) (q 0 1) (q 1 1) (q 1 1)).
Definition sell sd n p := mk sd (Sell (q n 1) (q p 1) (q 0 1) (q 1 1) (q 1 1) None).
Definition hist (extra : tx) (before : bool) : list tx :=
  if before then [buy 10 20 10; extra; sell 100 10 5] else [buy 10 20 10; sell 100 10 5; extra].
Definition sfl_of (l : list tx) : list (option (Z * positive * (Z * positive))) :=
  map (fun d => match d_sfl d with
                | Some i => Some ((Qnum (this (sf_amount i)), Qden (this (sf_amount i))),
                                  (Qnum (this (sf_num i)), Qden (this (sf_num i))))
                | None => None end) (fst (run exact None l)).
Example C02_nonvacuous :
  nth 1 (sfl_of (hist (buy 130 4 6) false)) None = Some ((-20, 1%positive), (4, 1%positive)) /\
  nth 1 (sfl_of (hist (buy 131 4 6) false)) None = None /\
  nth 2 (sfl_of (hist (buy 70 4 6) true)) None = Some ((-52, 3%positive), (4, 1%positive)) /\
  nth 2 (sfl_of (hist (buy 69 4 6) true)) None = None.
Proof. vm_compute. repeat split. Qed.

(* Non-vacuity of the None case of C02_denied_amount that is new with the fix
   "treat a superficial loss that rounds to zero effective cents as no
   superficial loss": 2 shares bought at 1.0000000001 on day 100, half a share
   sold at 1 on day 110 (loss 0.00000000005, all of it superficial by the
   rule: ratio 1).  The run is ACCEPTED, two rows are reported, the sale
   carries no superficial loss and no adjustment row follows; the same history
   with a purchase price of 1.1 (loss 0.05) reports the superficial loss
   -0.05 and one adjustment row. *)
Definition tiny_hist (price : Z * positive) : list tx :=
  [mk 100 (Buy (q 2 1) (q (fst price) (snd price)) (q 0 1) (q 1 1) (q 1 1));
   mk 110 (Sell (q 1 2) (q 1 1) (q 0 1) (q 1 1) (q 1 1) None)].
Example C02_rounds_to_zero_nonvacuous :
  snd (run exact None (tiny_hist (10000000001, 10000000000%positive))) = None /\
  sfl_of (tiny_hist (10000000001, 10000000000%positive)) = [None; None] /\
  snd (run dec None (tiny_hist (10000000001, 10000000000%positive))) = None /\
  map (fun d => is_none (d_sfl d)) (fst (run dec None (tiny_hist (10000000001, 10000000000%positive)))) = [true; true] /\
  snd (run exact None (tiny_hist (11, 10%positive))) = None /\
  sfl_of (tiny_hist (11, 10%positive)) = [None; Some ((-1, 20%positive), (1, 2%positive)); None].
Proof. vm_compute. repeat split. Qed.

(* ======================================================================
   Scans without rounding (Proofs/DecScan.v, on the transfer principle of
   Proofs/DecTransfer.v).  [scan_inputs_small bef t sold aft st] is the
   executable conjunction of: the sold quantity, the all-affiliate balance and
   every affiliate balance of the state the scan starts from are decimals with
   at most 10 places and magnitude below 10^12 ([small]); so is the share
   count of every Buy / Sell among the rows the forward scan visits
   ([fwd_window]: up to the first row settling more than 30 days after the
   sale) and of every Buy among the rows the backward scan visits
   ([bwd_window]); no Split row is among them (all adjustments are 1); the two
   windows have at most 10^6 rows together.  Then the scans under rust_decimal
   rounding return EXACTLY what they return in exact arithmetic: rounding can
   not flip "superficial or not" nor change acquired / held / the buyers'
   balances - only the ratio division and the denied amount round. *)
From ACB Require Import Proofs.DecTransfer Proofs.DecScan Proofs.DecCorollaries.
Local Close Scope Z_scope.

Theorem C02_dec_scan_exact_without_splits : forall bef t sold aft st,
  scan_inputs_small bef t sold aft st = true ->
  sfl_info dec bef t sold aft st = sfl_info exact bef t sold aft st.
Proof. exact DecScan.dec_scan_exact_without_splits. Qed.
Check C02_dec_scan_exact_without_splits : forall bef t sold aft st,
  scan_inputs_small bef t sold aft st = true ->
  sfl_info dec bef t sold aft st = sfl_info exact bef t sold aft st.
Print Assumptions C02_dec_scan_exact_without_splits.

(* hence C02_scan_eq_rule reads verbatim for the ROUNDED scans there *)
Theorem C02_dec_scan_eq_rule_without_splits : forall bef t sold aft st r,
  scan_inputs_small bef t sold aft st = true ->
  sd_sorted aft -> sd_sorted_desc bef ->
  sfl_info dec bef t sold aft st = Ok r ->
  match r with
  | Some s =>
      sc_acq s = rule_acquired bef t aft /\
      sc_eop s = rule_held_end (all_after_sale st sold) t aft /\
      rule_superficial bef t aft (all_after_sale st sold)
  | None => ~ rule_superficial bef t aft (all_after_sale st sold)
  end.
Proof. exact DecCorollaries.dec_scan_eq_rule_without_splits. Qed.
Check C02_dec_scan_eq_rule_without_splits : forall bef t sold aft st r,
  scan_inputs_small bef t sold aft st = true ->
  sd_sorted aft -> sd_sorted_desc bef ->
  sfl_info dec bef t sold aft st = Ok r ->
  match r with
  | Some s =>
      sc_acq s = rule_acquired bef t aft /\
      sc_eop s = rule_held_end (all_after_sale st sold) t aft /\
      rule_superficial bef t aft (all_after_sale st sold)
  | None => ~ rule_superficial bef t aft (all_after_sale st sold)
  end.
Print Assumptions C02_dec_scan_eq_rule_without_splits.

(* the predicate [small] means what the text says *)
Theorem C02_small_is_ten_place_decimal : forall x : Qc,
  small x = true ->
  exists m : Z, (Z.abs m <= 10000000000000000000000)%Z /\ (this x == m # 10000000000)%Q.
Proof. exact DecScan.small_is_ten_place_decimal. Qed.
Check C02_small_is_ten_place_decimal : forall x : Qc,
  small x = true ->
  exists m : Z, (Z.abs m <= 10000000000000000000000)%Z /\ (this x == m # 10000000000)%Q.
Print Assumptions C02_small_is_ten_place_decimal.

(* Non-vacuity: 12.3456789012 shares held (two affiliates), 4.5 sold at a loss
   on day 100; before it a purchase on day 95 (and one on day 50, outside the
   window, with a share count that is NOT small: not read), after it a sale
   by the other affiliate, a return of capital and a purchase of 2.0000000001
   on day 128, then a Split on day 140 (outside the window: not read).  The
   hypotheses hold and the rounded scan finds acquired = 5.5000000001 and
   held = 8.8456789013. *)
Local Open Scope Z_scope.
Definition sp2 := {| af_id := 1003; af_reg := false; af_dflt := false |}.
Definition mk2 sd a := {| t_sec := 0; t_td := sd; t_sd := sd; t_act := a; t_af := sp2; t_glob := false; t_ri := 0 |}.
Definition dsc_st : pstate :=
  {| ps_map := [(1000%N, {| s_sh := q 73456789012 10000000000; s_all := q 123456789012 10000000000; s_acb := Some (q 500 1) |});
                (1003%N, {| s_sh := q 5 1; s_all := q 5 1; s_acb := Some (q 10 1) |})];
     ps_all := q 123456789012 10000000000; ps_latest := default_aff |}.
Definition dsc_sale := sell 100 9 1.
Definition dsc_bef : list tx :=
  [mk 95 (Buy (q 7 2) (q 3 1) (q 0 1) (q 1 1) (q 1 1)); mk 50 (Buy (q 1 3) (q 3 1) (q 0 1) (q 1 1) (q 1 1))].
Definition dsc_aft : list tx :=
  [mk2 105 (Sell (q 1 1) (q 3 1) (q 0 1) (q 1 1) (q 1 1) None); mk 110 (Roc (q 1 10) (q 1 1));
   mk 128 (Buy (q 20000000001 10000000000) (q 3 1) (q 0 1) (q 1 1) (q 1 1));
   mk 140 (Split (q 1 1) (q 3 1) false)].
Example C02_dec_scan_nonvacuous :
  scan_inputs_small dsc_bef dsc_sale (q 9 2) dsc_aft dsc_st = true /\
  match sfl_info dec dsc_bef dsc_sale (q 9 2) dsc_aft dsc_st with
  | Ok (Some s) => this (sc_acq s) = (55000000001 # 10000000000)%Q /\
                   this (sc_eop s) = (88456789013 # 10000000000)%Q
  | _ => False
  end.
Proof. vm_compute. repeat split. Qed.

(* The no-Split hypothesis is needed: with a 1-for-3 split inside the window
   the later share counts are divided by the ROUNDED factor
   0.3333333333333333333333333333, and the rounded scan sees 1 share bought
   as 3.0000000000000000000000000003 acquired instead of 3. *)
Definition dsc_aft_split : list tx :=
  [mk 105 (Split (q 1 1) (q 3 1) false); mk 110 (Buy (q 1 1) (q 3 1) (q 0 1) (q 1 1) (q 1 1))].
Example C02_dec_scan_rounds_with_split :
  scan_inputs_small [] dsc_sale (q 9 2) dsc_aft_split dsc_st = false /\
  sfl_info dec [] dsc_sale (q 9 2) dsc_aft_split dsc_st <> sfl_info exact [] dsc_sale (q 9 2) dsc_aft_split dsc_st.
Proof.
  split; [vm_compute; reflexivity|]. intros H.
  apply (f_equal (fun r => match r with Ok (Some s) => Some (this (sc_acq s)) | _ => None end)) in H.
  vm_compute in H. discriminate H.
Qed.
