(* C13 - The exchange-rate cache never changes an answer.  Obligations of the
   property; proofs live in Proofs/CacheProps.v.

   [truth : calendar] is everything the Bank of Canada ever publishes.  A run
   has its own today and sees the truth published before [avail]
   (today <= avail <= today + 1: today's rate may or may not be out yet);
   [run_ok truth today avail e] says that environment [e] is such a run.
   [runs_ok truth t0 a0 runs params] says that the runs happen on successive
   days: today and avail never go back.  [history true] is the model of the
   code as it is after the fix ce46aed (a cached year is re-validated when a
   requested date is missing from it); [history false] is the code before. *)
From Coq Require Import List NArith ZArith QArith Qcanon Bool.
From ACB Require Import Base.Outcome Base.QcExtra Base.Fit Base.Arith
     Model.Rates Model.RatesCache Spec.RateRule Proofs.RatesProps Proofs.CacheProps.
Import ListNotations.
Local Open Scope Z_scope.

(* Transparency and "at most one download per year per run", for EVERY
   history: any number of runs, any force flags, any look-up sequence inside
   each run, starting from any cache state earlier runs can have left behind
   ([CacheOk]: every cached year is what some earlier run wrote).  The history
   never fails, every answer equals what the same look-up gives without any
   cache or loader state ([effective_ref], which C12 shows to be the rule),
   and the download log of every run has no year twice. *)
Theorem C13_transparent_and_download_once :
  forall (truth : calendar) runs params t0 a0 s0,
    runs_ok truth t0 a0 runs params ->
    CacheOk truth t0 a0 (s_cache s0) ->
    exists s' outs,
      history true s0 runs = Ok (s', outs) /\
      map fst outs = ref_answers truth runs params /\
      Forall (fun o => NoDup (snd o)) outs.
Proof. exact CacheProps.history_transparent. Qed.
Check C13_transparent_and_download_once :
  forall (truth : calendar) runs params t0 a0 s0,
    runs_ok truth t0 a0 runs params ->
    CacheOk truth t0 a0 (s_cache s0) ->
    exists s' outs,
      history true s0 runs = Ok (s', outs) /\
      map fst outs = ref_answers truth runs params /\
      Forall (fun o => NoDup (snd o)) outs.
Print Assumptions C13_transparent_and_download_once.

(* the empty cache is a legal starting point, and so is the cache any run leaves *)
Theorem C13_cache_states : forall (truth : calendar) t a,
  CacheOk truth t a [] /\
  forall e s ds s' answers,
    run_ok truth t a e -> Inv truth t a s ->
    lookups true e s ds = Ok (s', answers) ->
    CacheOk truth t a (s_cache s').
Proof. exact CacheProps.cache_states. Qed.
Check C13_cache_states : forall (truth : calendar) t a,
  CacheOk truth t a [] /\
  forall e s ds s' answers,
    run_ok truth t a e -> Inv truth t a s ->
    lookups true e s ds = Ok (s', answers) ->
    CacheOk truth t a (s_cache s').
Print Assumptions C13_cache_states.

(* Unless a download is forced, none happens when the cached year covers the
   requested date: one get_exact step whose date is in the cached year, and a
   whole look-up whose date and 7 look-back days are in the cached years,
   leave the download log (and the cache) unchanged -- from any reachable
   loader state. *)
Theorem C13_no_download_when_covered :
  forall (truth : calendar) today avail e s d s',
    run_ok truth today avail e -> Inv truth today avail s -> e_force e = false ->
    (forall r, cache_has s d -> exact true e s d = Ok (s', r) ->
               s_dl s' = s_dl s /\ s_cache s' = s_cache s) /\
    (forall r, (forall x, d - 7 <= x <= d -> cache_has s x) ->
               effective true e s d = Ok (s', r) -> s_dl s' = s_dl s).
Proof. exact CacheProps.no_download_when_covered. Qed.
Check C13_no_download_when_covered :
  forall (truth : calendar) today avail e s d s',
    run_ok truth today avail e -> Inv truth today avail s -> e_force e = false ->
    (forall r, cache_has s d -> exact true e s d = Ok (s', r) ->
               s_dl s' = s_dl s /\ s_cache s' = s_cache s) /\
    (forall r, (forall x, d - 7 <= x <= d -> cache_has s x) ->
               effective true e s d = Ok (s', r) -> s_dl s' = s_dl s).
Print Assumptions C13_no_download_when_covered.

(* The code BEFORE the fix (validation only on the first access of a year in a
   process) does not have the property: first run on 2022-01-11 asks for
   5 January; second run on 2022-01-20 asks for 5 January, then 14 January.
   The second look-up is answered with the rate of 10 January, with no
   download, where a loader without cache answers with the rate of 14 January.
   (Replayed on the real code by the check before the fix; kept as a theorem
   about the model of the old code.) *)
Theorem C13_unfixed_stale_within_run_refuted :
  exists (truth : calendar) runs params,
    runs_ok truth 0 0 runs params /\
    exists s outs,
      history false empty_st runs = Ok (s, outs) /\
      map fst outs <> ref_answers truth runs params.
Proof. exact CacheProps.unfixed_stale_refuted. Qed.
Check C13_unfixed_stale_within_run_refuted :
  exists (truth : calendar) runs params,
    runs_ok truth 0 0 runs params /\
    exists s outs,
      history false empty_st runs = Ok (s, outs) /\
      map fst outs <> ref_answers truth runs params.
Print Assumptions C13_unfixed_stale_within_run_refuted.

(* Non-vacuity: that very history satisfies the hypotheses of the main
   theorem; with the fixed code both runs answer like the reference and each
   downloads 2022 exactly once. *)
Example C13_nonvacuous :
  runs_ok ex_truth 0 0 ex_runs ex_params /\
  CacheOk ex_truth 0 0 (s_cache empty_st) /\
  exists s outs,
    history true empty_st ex_runs = Ok (s, outs) /\
    map fst outs = ref_answers ex_truth ex_runs ex_params /\
    map snd outs = [[2022]; [2022]].
Proof. exact CacheProps.c13_example. Qed.

(* ======================================================================
   Failure paths (Model/RatesFail.v, Proofs/RatesFailProps.v): every cache
   read, every cache write and every remote request of a run has a scripted
   outcome ([fe_rd], [fe_wr], [fe_rq]: functions of the operation's number
   within the run, so any script is an instance); a cache read may fail,
   find nothing, or lose rows ([RdKeep mask]); cache files may lose rows
   between runs ([fr_damage]). *)
From ACB Require Import Model.CrashFs Model.RatesFail Proofs.CrashProps Proofs.RatesFailProps.

(* The remote never fails, but EVERY cache read and write may fail in any
   way, in every run: the history never fails, every answer still equals the
   stateless no-cache reference, and no run requests a year twice ([fo_log]:
   all requests of the run).  [CacheRows]: every cached year holds only rows
   some earlier run wrote for it -- what [CacheOk] caches and caches that lost
   rows satisfy (C13_cache_rows_states). *)
Theorem C13_cache_failures_transparent :
  forall (truth : calendar) runs params t0 a0 s0,
    runsF_ok truth t0 a0 runs params ->
    (forall r n, In r runs -> fe_rq (fr_env r) n = RqOk) ->
    CacheRows truth t0 a0 (s_cache (f_s s0)) ->
    exists s' outs,
      historyF s0 runs = Ok (s', outs) /\
      map (fun o => map fst (fo_answers o)) outs
        = map (map (@lift_ans drate)) (ref_answers truth (plain_runs runs) params) /\
      Forall (fun o => NoDup (map fst (fo_log o))) outs.
Proof. exact RatesFailProps.cache_failures_transparent. Qed.
Check C13_cache_failures_transparent :
  forall (truth : calendar) runs params t0 a0 s0,
    runsF_ok truth t0 a0 runs params ->
    (forall r n, In r runs -> fe_rq (fr_env r) n = RqOk) ->
    CacheRows truth t0 a0 (s_cache (f_s s0)) ->
    exists s' outs,
      historyF s0 runs = Ok (s', outs) /\
      map (fun o => map fst (fo_answers o)) outs
        = map (map (@lift_ans drate)) (ref_answers truth (plain_runs runs) params) /\
      Forall (fun o => NoDup (map fst (fo_log o))) outs.
Print Assumptions C13_cache_failures_transparent.

(* legal starting caches: the empty cache, every [CacheOk] cache (what the
   runs of C13_transparent_and_download_once leave), and any of those after
   rows were lost *)
Theorem C13_cache_rows_states : forall (truth : calendar) t a,
  CacheRows truth t a [] /\
  (forall c, CacheOk truth t a c -> CacheRows truth t a c) /\
  (forall dm c, CacheRows truth t a c -> CacheRows truth t a (damage_cache dm c)).
Proof.
  intros truth t a. split; [intros y rates E; discriminate | ].
  split; [exact (RatesFailProps.CacheOk_CacheRows truth t a) | ].
  intros dm c. exact (RatesFailProps.CacheRows_damage truth t a dm c).
Qed.
Check C13_cache_rows_states : forall (truth : calendar) t a,
  CacheRows truth t a [] /\
  (forall c, CacheOk truth t a c -> CacheRows truth t a c) /\
  (forall dm c, CacheRows truth t a c -> CacheRows truth t a (damage_cache dm c)).
Print Assumptions C13_cache_rows_states.

(* Malformed rows in a cache file.  The reader (get_rates_from_csv =
   [parse_csv], Model/CrashFs.v) SKIPS a row it can not parse and keeps the
   rest (a first line with another field count makes it skip every row of the
   written shape: the year then reads as empty, it is not dropped).  For a
   file in which any rows were replaced by lines the reader rejects
   ([junk_line]: cut-off dates, missing or unparsable rates, extra fields,
   blank lines, garbage) what is read is the written rows minus some: never a
   row that was not written, never a changed rate -- with C14_read_back
   ([parse_csv (render_rows rows) = map row_value rows]) as the undamaged
   case.  Rows lost this way are exactly [RdKeep] / [fr_damage] of
   C13_cache_failures_transparent: the missing dates are downloaded again.
   (A damaged line that still parses as date,decimal -- `2022-01-06,1.` -- is
   not malformed for the reader; that is the subject of C14.) *)
Theorem C13_corrupt_cache_rows :
  (forall l, Forall dmg_ok l ->
     exists mask, parse_csv (render_damaged l) = keep_rows mask (map row_value (map fst l))) /\
  (forall mask l x, In x (keep_rows mask l) -> In x l).
Proof. split; [exact RatesFailProps.damaged_file_loses_rows_only | exact RatesFailProps.keep_rows_In]. Qed.
Check C13_corrupt_cache_rows :
  (forall l, Forall dmg_ok l ->
     exists mask, parse_csv (render_damaged l) = keep_rows mask (map row_value (map fst l))) /\
  (forall mask l x, In x (keep_rows mask l) -> In x l).
Print Assumptions C13_corrupt_cache_rows.

(* Non-vacuity: three runs over January 2022 -- in the first two every cache
   read fails and the cache write fails (each downloads 2022 once, nothing is
   cached), the third finds nothing / loses rows / fails on its reads and its
   write works: all answers are the reference answers, one request per run;
   and a damaged file (a row cut to `2022-01-06,`, a blank line, a comment)
   reads as the two undamaged rows. *)
Example C13_failures_nonvacuous :
  (runsF_ok ex_truth 0 0 exF_runs exF_params /\
   (forall r n, In r exF_runs -> fe_rq (fr_env r) n = RqOk) /\
   CacheRows ex_truth 0 0 (s_cache (f_s (fstate_of empty_st))) /\
   exists s outs,
     historyF (fstate_of empty_st) exF_runs = Ok (s, outs) /\
     map (fun o => map fst (fo_answers o)) outs
       = map (map (@lift_ans drate)) (ref_answers ex_truth (plain_runs exF_runs) exF_params) /\
     map fo_log outs = [[(2022, true)]; [(2022, true)]; [(2022, true)]] /\
     map fo_nwr outs = [1%nat; 1%nat; 1%nat] /\
     s_cache (f_s s) <> []) /\
  (Forall dmg_ok ex_damaged /\
   parse_csv (render_damaged ex_damaged) = [(18997, Qcfrac 12345 10000); (19001, Qcfrac 12377 10000)]).
Proof. split; [exact RatesFailProps.cache_failures_example | exact RatesFailProps.damaged_example]. Qed.

(* The failure-path machine generalises the machine of the theorems above:
   with the environment in which no operation fails ([no_fail e]: every read
   undisturbed, every write and request succeeding) and no damage,
   [historyF] and [history true] have the same outcome, the same final loader
   state and cache, and the same answers (errors embedded by [lift_ans]). *)
Theorem C13_no_failure_is_plain_model : forall runs fs,
  match history true (f_s fs) runs, historyF fs (map no_fail_run runs) with
  | Ok (s, outs), Ok (fs', fouts) =>
      f_s fs' = s /\
      map (fun o => map fst (fo_answers o)) fouts = map (fun o => map (@lift_ans drate) (fst o)) outs
  | Rej r, Rej r' => r = r'
  | Panic p, Panic p' => p = p'
  | _, _ => False
  end.
Proof. exact RatesFailProps.no_fail_history. Qed.
Check C13_no_failure_is_plain_model : forall runs fs,
  match history true (f_s fs) runs, historyF fs (map no_fail_run runs) with
  | Ok (s, outs), Ok (fs', fouts) =>
      f_s fs' = s /\
      map (fun o => map fst (fo_answers o)) fouts = map (fun o => map (@lift_ans drate) (fst o)) outs
  | Rej r, Rej r' => r = r'
  | Panic p, Panic p' => p = p'
  | _, _ => False
  end.
Print Assumptions C13_no_failure_is_plain_model.
