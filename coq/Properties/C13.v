(* C13 - The exchange-rate cache never changes an answer.  Obligations of the
   property; proofs live in Proofs/CacheProps.v.

   [truth : calendar] is everything the Bank of Canada ever publishes.  A run
   has its own today and sees the truth published before [avail]
   (today <= avail <= today + 1: today's rate may or may not be out yet);
   [run_ok truth today avail e] says that environment [e] is such a run.
   [runs_ok truth t0 a0 runs params] says that the runs happen on successive
   days: today and avail never go back.  [history true] is the model of the
   code as it is after the fix ce46aed (a cached year is re-validated when a
   requested date is missing from it); [history false] is the code before. *)
From Coq Require Import List NArith ZArith QArith Qcanon Bool.
From ACB Require Import Base.Outcome Base.QcExtra Base.Fit Base.Arith
     Model.Rates Model.RatesCache Spec.RateRule Proofs.RatesProps Proofs.CacheProps.
Import ListNotations.
Local Open Scope Z_scope.

(* Transparency and "at most one download per year per run", for EVERY
   history: any number of runs, any force flags, any look-up sequence inside
   each run, starting from any cache state earlier runs can have left behind
   ([CacheOk]: every cached year is what some earlier run wrote).  The history
   never fails, every answer equals what the same look-up gives without any
   cache or loader state ([effective_ref], which C12 shows to be the rule),
   and the download log of every run has no year twice. *)
Theorem C13_transparent_and_download_once :
  forall (truth : calendar) runs params t0 a0 s0,
    runs_ok truth t0 a0 runs params ->
    CacheOk truth t0 a0 (s_cache s0) ->
    exists s' outs,
      history true s0 runs = Ok (s', outs) /\
      map fst outs = ref_answers truth runs params /\
      Forall (fun o => NoDup (snd o)) outs.
Proof. exact CacheProps.history_transparent. Qed.
Check C13_transparent_and_download_once :
  forall (truth : calendar) runs params t0 a0 s0,
    runs_ok truth t0 a0 runs params ->
    CacheOk truth t0 a0 (s_cache s0) ->
    exists s' outs,
      history true s0 runs = Ok (s', outs) /\
      map fst outs = ref_answers truth runs params /\
      Forall (fun o => NoDup (snd o)) outs.
Print Assumptions C13_transparent_and_download_once.

(* the empty cache is a legal starting point, and so is the cache any run leaves *)
Theorem C13_cache_states : forall (truth : calendar) t a,
  CacheOk truth t a [] /\
  forall e s ds s' answers,
    run_ok truth t a e -> Inv truth t a s ->
    lookups true e s ds = Ok (s', answers) ->
    CacheOk truth t a (s_cache s').
Proof. exact CacheProps.cache_states. Qed.
Check C13_cache_states : forall (truth : calendar) t a,
  CacheOk truth t a [] /\
  forall e s ds s' answers,
    run_ok truth t a e -> Inv truth t a s ->
    lookups true e s ds = Ok (s', answers) ->
    CacheOk truth t a (s_cache s').
Print Assumptions C13_cache_states.

(* Unless a download is forced, none happens when the cached year covers the
   requested date: one get_exact step whose date is in the cached year, and a
   whole look-up whose date and 7 look-back days are in the cached years,
   leave the download log (and the cache) unchanged -- from any reachable
   loader state. *)
Theorem C13_no_download_when_covered :
  forall (truth : calendar) today avail e s d s',
    run_ok truth today avail e -> Inv truth today avail s -> e_force e = false ->
    (forall r, cache_has s d -> exact true e s d = Ok (s', r) ->
               s_dl s' = s_dl s /\ s_cache s' = s_cache s) /\
    (forall r, (forall x, d - 7 <= x <= d -> cache_has s x) ->
               effective true e s d = Ok (s', r) -> s_dl s' = s_dl s).
Proof. exact CacheProps.no_download_when_covered. Qed.
Check C13_no_download_when_covered :
  forall (truth : calendar) today avail e s d s',
    run_ok truth today avail e -> Inv truth today avail s -> e_force e = false ->
    (forall r, cache_has s d -> exact true e s d = Ok (s', r) ->
               s_dl s' = s_dl s /\ s_cache s' = s_cache s) /\
    (forall r, (forall x, d - 7 <= x <= d -> cache_has s x) ->
               effective true e s d = Ok (s', r) -> s_dl s' = s_dl s).
Print Assumptions C13_no_download_when_covered.

(* The code BEFORE the fix (validation only on the first access of a year in a
   process) does not have the property: first run on 2022-01-11 asks for
   5 January; second run on 2022-01-20 asks for 5 January, then 14 January.
   The second look-up is answered with the rate of 10 January, with no
   download, where a loader without cache answers with the rate of 14 January.
   (Replayed on the real code by the check before the fix; kept as a theorem
   about the model of the old code.) *)
Theorem C13_unfixed_stale_within_run_refuted :
  exists (truth : calendar) runs params,
    runs_ok truth 0 0 runs params /\
    exists s outs,
      history false empty_st runs = Ok (s, outs) /\
      map fst outs <> ref_answers truth runs params.
Proof. exact CacheProps.unfixed_stale_refuted. Qed.
Check C13_unfixed_stale_within_run_refuted :
  exists (truth : calendar) runs params,
    runs_ok truth 0 0 runs params /\
    exists s outs,
      history false empty_st runs = Ok (s, outs) /\
      map fst outs <> ref_answers truth runs params.
Print Assumptions C13_unfixed_stale_within_run_refuted.

(* Non-vacuity: that very history satisfies the hypotheses of the main
   theorem; with the fixed code both runs answer like the reference and each
   downloads 2022 exactly once. *)
Example C13_nonvacuous :
  runs_ok ex_truth 0 0 ex_runs ex_params /\
  CacheOk ex_truth 0 0 (s_cache empty_st) /\
  exists s outs,
    history true empty_st ex_runs = Ok (s, outs) /\
    map fst outs = ref_answers ex_truth ex_runs ex_params /\
    map snd outs = [[2022]; [2022]].
Proof. exact CacheProps.c13_example. Qed.
