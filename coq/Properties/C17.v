(* C17 - total-cost tables show the true maximum cost held.
   Obligations of the property; proofs live in Proofs/CostsProps.v.

   Model: Model/Costs.v (costs.rs + render_total_costs + the concatenation of
   the securities' deltas); [costs exact ds] is the code as it is now run in
   exact arithmetic on the list of deltas ds.  Specification: Spec/MaxCost.v.
   Preconditions (established by construction of delta lists and checked on
   every generated case by the correspondence check):
     valid_delta     cost bases are >= 0 and present on counted rows,
     faithful_delta  the code's is_default() flag singles out the default affiliate,
     chronological   the counted rows of one security are in settlement order. *)
From Coq Require Import List NArith ZArith QArith Qcanon Bool Sorting.Sorted.
From ACB Require Import Base.Outcome Base.QcExtra Base.Arith Model.Tx Model.Costs Spec.MaxCost
     Proofs.CostsProps.
Import ListNotations.
Local Open Scope Z_scope.

(* Full strength: for EVERY list of deltas (any number of securities, any
   number of settlements per day, same-day round trips, gaps, years without
   rows, other affiliates) the model runs to completion and its four outputs
   are those of the specification: security columns, dated rows (per-security
   figure and total), notes, and yearly rows satisfying the arg-max relation. *)
Theorem C17_tables_refine_spec : forall ds,
  Forall valid_delta ds -> Forall faithful_delta ds -> chronological ds ->
  exists t, costs exact ds = Ok t /\
            ct_secs t = spec_secs ds /\ ct_total t = spec_table ds /\
            ct_notes t = spec_notes ds /\ yearly_ok ds (ct_yearly t).
Proof. exact CostsProps.costs_refines_spec. Qed.
Check C17_tables_refine_spec : forall ds,
  Forall valid_delta ds -> Forall faithful_delta ds -> chronological ds ->
  exists t, costs exact ds = Ok t /\
            ct_secs t = spec_secs ds /\ ct_total t = spec_table ds /\
            ct_notes t = spec_notes ds /\ yearly_ok ds (ct_yearly t).
Print Assumptions C17_tables_refine_spec.

(* The daily figure: each dated row shows, per security, spec_cost. *)
Theorem C17_daily : forall ds t,
  Forall valid_delta ds -> Forall faithful_delta ds -> chronological ds -> costs exact ds = Ok t ->
  ct_secs t = spec_secs ds /\
  ct_total t = map (fun d => (d, spec_total ds d, map (spec_cost ds d) (spec_secs ds))) (spec_days ds).
Proof. exact CostsProps.costs_daily. Qed.
Check C17_daily : forall ds t,
  Forall valid_delta ds -> Forall faithful_delta ds -> chronological ds -> costs exact ds = Ok t ->
  ct_secs t = spec_secs ds /\
  ct_total t = map (fun d => (d, spec_total ds d, map (spec_cost ds d) (spec_secs ds))) (spec_days ds).
Print Assumptions C17_daily.

(* ... where spec_cost is: the greatest cost base after any counted row of the
   security settling that day; else the cost base after the latest earlier
   counted row; else the opening cost base. *)
Theorem C17_daily_figure_meaning : forall ds d s,
  chronological ds ->
  let rows := rows_of ds s in
  let today := filter (fun c => cd_day c =? d) rows in
  let earlier := filter (fun c => cd_day c <? d) rows in
  (today <> [] ->
     (exists c, In c today /\ spec_cost ds d s = post_of c) /\
     (forall c, In c today -> (post_of c <= spec_cost ds d s)%Qc)) /\
  (today = [] -> earlier <> [] ->
     exists c, In c earlier /\ spec_cost ds d s = post_of c /\
               last_opt earlier = Some c /\ forall c', In c' earlier -> cd_day c' <= cd_day c) /\
  (today = [] -> earlier = [] ->
     spec_cost ds d s = match rows with c :: _ => pre_of c | [] => 0%Qc end).
Proof. exact CostsProps.spec_cost_meaning. Qed.
Check C17_daily_figure_meaning : forall ds d s,
  chronological ds ->
  let rows := rows_of ds s in
  let today := filter (fun c => cd_day c =? d) rows in
  let earlier := filter (fun c => cd_day c <? d) rows in
  (today <> [] ->
     (exists c, In c today /\ spec_cost ds d s = post_of c) /\
     (forall c, In c today -> (post_of c <= spec_cost ds d s)%Qc)) /\
  (today = [] -> earlier <> [] ->
     exists c, In c earlier /\ spec_cost ds d s = post_of c /\
               last_opt earlier = Some c /\ forall c', In c' earlier -> cd_day c' <= cd_day c) /\
  (today = [] -> earlier = [] ->
     spec_cost ds d s = match rows with c :: _ => pre_of c | [] => 0%Qc end).
Print Assumptions C17_daily_figure_meaning.

(* the dated rows are the days with a counted row, ascending; the columns the
   securities with a counted row, ascending *)
Theorem C17_rows_and_columns : forall ds,
  (StronglySorted Z.lt (spec_days ds) /\
   forall d, In d (spec_days ds) <-> exists c, In c ds /\ counted c = true /\ cd_day c = d) /\
  (StronglySorted N.lt (spec_secs ds) /\
   forall s, In s (spec_secs ds) <-> exists c, In c ds /\ counted c = true /\ cd_sec c = s).
Proof. intros ds. split; [exact (CostsProps.spec_days_meaning ds)|exact (CostsProps.spec_secs_meaning ds)]. Qed.
Check C17_rows_and_columns : forall ds,
  (StronglySorted Z.lt (spec_days ds) /\
   forall d, In d (spec_days ds) <-> exists c, In c ds /\ counted c = true /\ cd_day c = d) /\
  (StronglySorted N.lt (spec_secs ds) /\
   forall s, In s (spec_secs ds) <-> exists c, In c ds /\ counted c = true /\ cd_sec c = s).
Print Assumptions C17_rows_and_columns.

(* The row total is the sum of the row's figures. *)
Theorem C17_total_is_sum : forall ds t,
  Forall valid_delta ds -> Forall faithful_delta ds -> chronological ds -> costs exact ds = Ok t ->
  Forall (fun r : trow => snd (fst r) = qsum (snd r)) (ct_total t).
Proof. exact CostsProps.costs_total_is_sum. Qed.
Check C17_total_is_sum : forall ds t,
  Forall valid_delta ds -> Forall faithful_delta ds -> chronological ds -> costs exact ds = Ok t ->
  Forall (fun r : trow => snd (fst r) = qsum (snd r)) (ct_total t).
Print Assumptions C17_total_is_sum.

(* The yearly table: one row per year with a dated row; it is the dated row of
   a day of that year, and every other day of the year has a lower total, or
   the same total and is not earlier. *)
Theorem C17_yearly_is_argmax : forall ds t,
  Forall valid_delta ds -> Forall faithful_delta ds -> chronological ds -> costs exact ds = Ok t ->
  yearly_ok ds (ct_yearly t).
Proof. exact CostsProps.costs_yearly_is_argmax. Qed.
Check C17_yearly_is_argmax : forall ds t,
  Forall valid_delta ds -> Forall faithful_delta ds -> chronological ds -> costs exact ds = Ok t ->
  yearly_ok ds (ct_yearly t).
Print Assumptions C17_yearly_is_argmax.

(* Every other delta is listed as ignored, in order. *)
Theorem C17_others_listed_ignored : forall ds t,
  Forall valid_delta ds -> Forall faithful_delta ds -> chronological ds -> costs exact ds = Ok t ->
  ct_notes t = map note_of (filter (fun d => negb (counted d)) ds).
Proof. exact CostsProps.costs_others_ignored. Qed.
Check C17_others_listed_ignored : forall ds t,
  Forall valid_delta ds -> Forall faithful_delta ds -> chronological ds -> costs exact ds = Ok t ->
  ct_notes t = map note_of (filter (fun d => negb (counted d)) ds).
Print Assumptions C17_others_listed_ignored.

(* The code before commit cf90861 ("carry the closing cost forward"), i.e. the
   same model with the day's maximum carried forward, does NOT satisfy the
   specification: a security bought and fully sold on one day keeps its peak
   cost on the next dated row.  (The witness is replayed by the check against
   the real code on every run: it must now show 0.) *)
Theorem C17_carry_forward_max_refuted :
  exists ds, Forall valid_delta ds /\ Forall faithful_delta ds /\ chronological ds /\
             exists t, costs_with exact CarryMax nsort zsort ds = Ok t /\ ct_total t <> spec_table ds.
Proof. exact CostsProps.carry_max_refuted. Qed.
Check C17_carry_forward_max_refuted :
  exists ds, Forall valid_delta ds /\ Forall faithful_delta ds /\ chronological ds /\
             exists t, costs_with exact CarryMax nsort zsort ds = Ok t /\ ct_total t <> spec_table ds.
Print Assumptions C17_carry_forward_max_refuted.

(* Non-vacuity: the witness satisfies the preconditions, and the code as it is
   now shows AAA = 100 on 2022-03-03, AAA = 0 / BBB = 5 on 2022-03-04 and the
   yearly maximum of 2022 on 2022-03-03. *)
Example C17_nonvacuous :
  (Forall valid_delta carry_witness /\ Forall faithful_delta carry_witness /\ chronological carry_witness) /\
  match costs exact carry_witness with
  | Ok t => map trow_nums (ct_total t) = [(738217, 100, [100; 0]); (738218, 5, [0; 5])]
            /\ map (fun r : yrow => (fst (fst (fst r)), snd (fst (fst r)))) (ct_yearly t) = [(2022, 738217)]
  | _ => False
  end.
Proof. split; [exact CostsProps.carry_witness_pre|exact CostsProps.carry_witness_now]. Qed.
