(* C11 - Writing transactions to CSV and reading them back is the identity.
   Obligations of the property; models in Model/CsvFields.v and
   Model/CsvTable.v, proofs in Proofs/Csv*.v. *)
From Coq Require Import List NArith ZArith Bool Arith.
From ACB Require Import Base.Outcome Model.CsvFields Model.CsvTable
     Proofs.CsvDigits Proofs.CsvFieldProps Proofs.CsvAffProps Proofs.CsvProps.
Import ListNotations.
Local Open Scope N_scope.

(* ------------------------------------------------------------------ the round trip
   For EVERY list of valid transactions (any length, every action, decimals
   of any scale 0..28 and mantissa up to 96 bits, any memo bytes, any
   interned affiliate), written by write_txs_to_csv over any RFC-4180 layer
   that reads back what it wrote, parse_tx_csv + Tx::try_from accept the
   bytes and return, position by position, the same transaction: same
   security, dates, action, numerically equal decimals with the same sign,
   same currencies, same force flag and integer-only flag, memo trimmed,
   same affiliate - except that a split of the default affiliate may come
   back as a split of all affiliates when no transaction names another
   affiliate (a split for all affiliates names none); read_index = position. *)
Theorem C11_roundtrip : forall cw cr, csv_layer_ok cw cr ->
  forall tbl txs, forallb (valid_tx tbl) txs = true ->
  exists txs' tbl2,
    read cr (snd (write cw tbl txs)) (fst (write cw tbl txs)) = Ok (txs', tbl2)
    /\ forall2b (tx_same (no_named_affiliate txs)) txs txs' = true /\ ri_from 0 txs' = true.
Proof. exact roundtrip_bytes. Qed.
Check C11_roundtrip : forall cw cr, csv_layer_ok cw cr ->
  forall tbl txs, forallb (valid_tx tbl) txs = true ->
  exists txs' tbl2,
    read cr (snd (write cw tbl txs)) (fst (write cw tbl txs)) = Ok (txs', tbl2)
    /\ forall2b (tx_same (no_named_affiliate txs)) txs txs' = true /\ ri_from 0 txs' = true.
Print Assumptions C11_roundtrip.

(* the same on cells (no hypothesis on the csv crate) *)
Theorem C11_roundtrip_cells : forall tbl txs, forallb (valid_tx tbl) txs = true ->
  exists txs' tbl2,
    read_table (snd (write_table tbl txs)) (fst (fst (write_table tbl txs))) (snd (fst (write_table tbl txs)))
    = Ok (txs', tbl2)
    /\ forall2b (tx_same (no_named_affiliate txs)) txs txs' = true /\ ri_from 0 txs' = true.
Proof. exact table_roundtrip. Qed.
Check C11_roundtrip_cells : forall tbl txs, forallb (valid_tx tbl) txs = true ->
  exists txs' tbl2,
    read_table (snd (write_table tbl txs)) (fst (fst (write_table tbl txs))) (snd (fst (write_table tbl txs)))
    = Ok (txs', tbl2)
    /\ forall2b (tx_same (no_named_affiliate txs)) txs txs' = true /\ ri_from 0 txs' = true.
Print Assumptions C11_roundtrip_cells.

(* ------------------------------------------------------------------ the second generation
   "Writing the re-read list again yields the same bytes", for EVERY valid
   list.  (Before the fixes 84ca472 - the memo is written trimmed - and
   e44bc72 - a split for all affiliates does not by itself need the affiliate
   column - this was refuted on two classes, found by the check: a memo with
   surrounding white space, and a split of the default affiliate in a list
   naming no other affiliate.  The model follows the fixed code; the two
   former witnesses are instances now, see C11_former_classes_stable.) *)
Theorem C11_idempotent : forall cw cr, csv_layer_ok cw cr ->
  forall tbl txs, forallb (valid_tx tbl) txs = true ->
  exists txs' tbl2,
    read cr (snd (write cw tbl txs)) (fst (write cw tbl txs)) = Ok (txs', tbl2)
    /\ fst (write cw tbl2 txs') = fst (write cw tbl txs).
Proof. exact idempotent_bytes. Qed.
Check C11_idempotent : forall cw cr, csv_layer_ok cw cr ->
  forall tbl txs, forallb (valid_tx tbl) txs = true ->
  exists txs' tbl2,
    read cr (snd (write cw tbl txs)) (fst (write cw tbl txs)) = Ok (txs', tbl2)
    /\ fst (write cw tbl2 txs') = fst (write cw tbl txs).
Print Assumptions C11_idempotent.

Theorem C11_idempotent_cells : forall tbl txs, forallb (valid_tx tbl) txs = true ->
  exists txs' tbl2,
    read_table (snd (write_table tbl txs)) (fst (fst (write_table tbl txs))) (snd (fst (write_table tbl txs)))
    = Ok (txs', tbl2)
    /\ fst (write_table tbl2 txs') = fst (write_table tbl txs).
Proof. exact table_idempotent. Qed.
Check C11_idempotent_cells : forall tbl txs, forallb (valid_tx tbl) txs = true ->
  exists txs' tbl2,
    read_table (snd (write_table tbl txs)) (fst (fst (write_table tbl txs))) (snd (fst (write_table tbl txs)))
    = Ok (txs', tbl2)
    /\ fst (write_table tbl2 txs') = fst (write_table tbl txs).
Print Assumptions C11_idempotent_cells.

(* the witnesses of the two former classes: a purchase with memo " x", and a
   2-for-1 split of the default affiliate alone (which is read back as a split
   of all affiliates): both are re-written to the same cells *)
Theorem C11_former_classes_stable :
  forallb (valid_tx wit_tbl) [wit_buy [32; 120]] = true /\ second_same wit_tbl [wit_buy [32; 120]]
  /\ forallb (valid_tx wit_tbl) [wit_split] = true /\ second_same wit_tbl [wit_split]
  /\ map (fun t => aff_is_global (x_af t))
         (match read_table (snd (write_table wit_tbl [wit_split])) (fst (fst (write_table wit_tbl [wit_split])))
                           (snd (fst (write_table wit_tbl [wit_split]))) with
          | Ok (txs', _) => txs' | _ => [] end) = [true].
Proof. exact former_witnesses_stable. Qed.
Check C11_former_classes_stable :
  forallb (valid_tx wit_tbl) [wit_buy [32; 120]] = true /\ second_same wit_tbl [wit_buy [32; 120]]
  /\ forallb (valid_tx wit_tbl) [wit_split] = true /\ second_same wit_tbl [wit_split]
  /\ map (fun t => aff_is_global (x_af t))
         (match read_table (snd (write_table wit_tbl [wit_split])) (fst (fst (write_table wit_tbl [wit_split])))
                           (snd (fst (write_table wit_tbl [wit_split]))) with
          | Ok (txs', _) => txs' | _ => [] end) = [true].
Print Assumptions C11_former_classes_stable.

(* the writer is injective on tables: different cells give different bytes *)
Theorem C11_different_cells_different_bytes : forall cw cr, csv_layer_ok cw cr ->
  forall h1 r1 h2 r2,
    h1 <> [] -> Forall (fun r => length r = length h1) r1 ->
    h2 <> [] -> Forall (fun r => length r = length h2) r2 ->
    cw (h1 :: r1) = cw (h2 :: r2) -> h1 :: r1 = h2 :: r2.
Proof. exact write_injective. Qed.
Check C11_different_cells_different_bytes : forall cw cr, csv_layer_ok cw cr ->
  forall h1 r1 h2 r2,
    h1 <> [] -> Forall (fun r => length r = length h1) r1 ->
    h2 <> [] -> Forall (fun r => length r = length h2) r2 ->
    cw (h1 :: r1) = cw (h2 :: r2) -> h1 :: r1 = h2 :: r2.
Print Assumptions C11_different_cells_different_bytes.

(* ------------------------------------------------------------------ field codecs *)
(* to_string_min_precision k keeps every significant digit: Decimal::from_str
   of the text is the same number with the same sign (the display scale may
   change), for every mantissa up to 2^96-1 and every scale up to 28 *)
Theorem C11_decimal_roundtrip : forall d k, valid_dec d = true -> (k <= 28)%nat ->
  exists d', parse_dec (tsmp k d) = Ok d' /\ dec_same d d' /\ valid_dec d' = true.
Proof. exact parse_tsmp. Qed.
Check C11_decimal_roundtrip : forall d k, valid_dec d = true -> (k <= 28)%nat ->
  exists d', parse_dec (tsmp k d) = Ok d' /\ dec_same d d' /\ valid_dec d' = true.
Print Assumptions C11_decimal_roundtrip.

(* and the rendering depends only on sign and value, so the re-read decimal
   is written as the same text *)
Theorem C11_decimal_stable : forall k a b, dec_same a b -> tsmp k a = tsmp k b.
Proof. exact tsmp_same. Qed.
Check C11_decimal_stable : forall k a b, dec_same a b -> tsmp k a = tsmp k b.
Print Assumptions C11_decimal_stable.

(* rust_decimal renders into a 32-byte buffer and panics beyond it (str.rs:64):
   never for the precisions the writer uses on a valid decimal *)
Theorem C11_display_fits : forall d k, valid_dec d = true -> (k <= 2)%nat ->
  fmt_panics (Nat.max (trimmed_prec d) k) d = false.
Proof. exact fmt_fits. Qed.
Check C11_display_fits : forall d k, valid_dec d = true -> (k <= 2)%nat ->
  fmt_panics (Nat.max (trimmed_prec d) k) d = false.
Print Assumptions C11_display_fits.

Theorem C11_date_roundtrip : forall d, valid_date d = true ->
  parse_date (show_date d) = Ok d /\ edges_ok (show_date d) = true.
Proof. exact date_roundtrip. Qed.
Check C11_date_roundtrip : forall d, valid_date d = true ->
  parse_date (show_date d) = Ok d /\ edges_ok (show_date d) = true.
Print Assumptions C11_date_roundtrip.

Theorem C11_action_roundtrip : forall a, parse_act (show_act a) = Ok a /\ edges_ok (show_act a) = true.
Proof. exact act_roundtrip. Qed.
Check C11_action_roundtrip : forall a, parse_act (show_act a) = Ok a /\ edges_ok (show_act a) = true.
Print Assumptions C11_action_roundtrip.

Theorem C11_currency_roundtrip : forall c, valid_cur c = true ->
  currency_new c = c /\ trim c = c /\ is_nil c = false.
Proof. exact currency_roundtrip. Qed.
Check C11_currency_roundtrip : forall c, valid_cur c = true ->
  currency_new c = c /\ trim c = c /\ is_nil c = false.
Print Assumptions C11_currency_roundtrip.

(* the memo: str::trim is idempotent on any bytes, so the trimmed memo that is
   written is read back as itself *)
Theorem C11_memo_trim_idempotent : forall s, trim (trim s) = trim s.
Proof. exact trim_idem. Qed.
Check C11_memo_trim_idempotent : forall s, trim (trim s) = trim s.
Print Assumptions C11_memo_trim_idempotent.

(* Affiliate::from_strep (name a) = a, for every affiliate made from ASCII
   text, including every placement and spelling of the marker "(R)" *)
Theorem C11_affiliate_roundtrip : forall s, is_ascii s = true ->
  from_strep_data (a_name (from_strep_data s)) = from_strep_data s.
Proof. exact from_strep_name. Qed.
Check C11_affiliate_roundtrip : forall s, is_ascii s = true ->
  from_strep_data (a_name (from_strep_data s)) = from_strep_data s.
Print Assumptions C11_affiliate_roundtrip.

Theorem C11_affiliate_cell : forall s, is_ascii s = true ->
  trim (a_name (from_strep_data s)) = a_name (from_strep_data s) /\ a_name (from_strep_data s) <> [].
Proof. exact from_strep_name_cell. Qed.
Check C11_affiliate_cell : forall s, is_ascii s = true ->
  trim (a_name (from_strep_data s)) = a_name (from_strep_data s) /\ a_name (from_strep_data s) <> [].
Print Assumptions C11_affiliate_cell.

(* superficial-loss marker, with and without the force flag "!" *)
Theorem C11_sfl_roundtrip : forall v, valid_sfl v = true ->
  parse_sfl (show_sfl v) = Ok (rp_sfl v) /\ dec_same (sf_val v) (sf_val (rp_sfl v))
  /\ show_sfl (rp_sfl v) = show_sfl v /\ edges_ok (show_sfl v) = true.
Proof. exact sfl_roundtrip. Qed.
Check C11_sfl_roundtrip : forall v, valid_sfl v = true ->
  parse_sfl (show_sfl v) = Ok (rp_sfl v) /\ dec_same (sf_val v) (sf_val (rp_sfl v))
  /\ show_sfl (rp_sfl v) = show_sfl v /\ edges_ok (show_sfl v) = true.
Print Assumptions C11_sfl_roundtrip.

(* split ratio, all three renderings ("2-for-1", "1.0-for-2.0", "1.5-for-1"):
   same numbers, same reverse_integer_only *)
Theorem C11_ratio_roundtrip : forall r, valid_ratio r = true ->
  parse_ratio (show_ratio r) = Ok (rp_ratio r)
  /\ dec_same (r_post r) (r_post (rp_ratio r)) /\ dec_same (r_pre r) (r_pre (rp_ratio r))
  /\ r_rio (rp_ratio r) = r_rio r /\ show_ratio (rp_ratio r) = show_ratio r
  /\ edges_ok (show_ratio r) = true.
Proof. exact ratio_roundtrip. Qed.
Check C11_ratio_roundtrip : forall r, valid_ratio r = true ->
  parse_ratio (show_ratio r) = Ok (rp_ratio r)
  /\ dec_same (r_post r) (r_post (rp_ratio r)) /\ dec_same (r_pre r) (r_pre (rp_ratio r))
  /\ r_rio (rp_ratio r) = r_rio r /\ show_ratio (rp_ratio r) = show_ratio r
  /\ edges_ok (show_ratio r) = true.
Print Assumptions C11_ratio_roundtrip.

(* ------------------------------------------------------------------ non-vacuity *)
(* the csv-layer hypothesis has a model, and a 4-row list (USD purchase with a
   29-digit price, a sale with a forced superficial loss and a separate
   commission currency, a reverse split allowing fractions for a registered
   affiliate, a cost-base adjustment; one memo with surrounding
   white space) is valid, is read back as the same transactions and re-written
   to the same bytes *)
Definition ex_tbl : aftable := snd (intern (snd (intern [] [])) [83; 112; 32; 40; 82; 41]).
Definition ex_sp : affdata := from_strep_data [83; 112; 32; 40; 82; 41].
Definition ex_date m d : date := {| dt_y := 2024; dt_m := m; dt_d := d |}.
Definition ex_usd : car := {| c_cur := [85; 83; 68]; c_rate := mk_dec false 13650 4 |}.
Definition ex_txs : list ctx := [
  {| x_sec := [70; 79; 79]; x_td := ex_date 2 27; x_sd := ex_date 2 29;
     x_act := XBuy (mk_dec false 1000 2) (mk_dec false 79228162514264337593543950335 0) (mk_dec false 999 2) ex_usd None;
     x_memo := [97; 44; 34; 98; 34]; x_af := from_strep_data []; x_ri := 5 |};
  {| x_sec := [70; 79; 79]; x_td := ex_date 3 1; x_sd := ex_date 3 4;
     x_act := XSell (mk_dec false 5 0) (mk_dec false 12 1) (mk_dec false 0 0) car_default (Some ex_usd)
                    (Some {| sf_val := mk_dec true 1050 3; sf_force := true |});
     x_memo := [32; 120; 32]; x_af := from_strep_data []; x_ri := 5 |};
  {| x_sec := [70; 79; 79]; x_td := ex_date 4 1; x_sd := ex_date 4 1;
     x_act := XSplit {| r_post := mk_dec false 1 0; r_pre := mk_dec false 20 1; r_rio := false |};
     x_memo := []; x_af := ex_sp; x_ri := 0 |};
  {| x_sec := [70; 79; 79]; x_td := ex_date 4 2; x_sd := ex_date 4 2;
     x_act := XSfla (mk_dec false 1 0) (mk_dec false 105 2);
     x_memo := []; x_af := from_strep_data []; x_ri := 9 |}
].
Example C11_nonvacuous :
  csv_layer_ok toy_cw toy_cr
  /\ forallb (valid_tx ex_tbl) ex_txs = true
  /\ (exists txs' tbl2,
        read toy_cr (snd (write toy_cw ex_tbl ex_txs)) (fst (write toy_cw ex_tbl ex_txs)) = Ok (txs', tbl2)
        /\ map x_ri txs' = [0; 1; 2; 3] /\ map x_af txs' = map x_af ex_txs
        /\ fst (write toy_cw tbl2 txs') = fst (write toy_cw ex_tbl ex_txs)).
Proof.
  split; [exact toy_layer_ok|]. split; [vm_compute; reflexivity|].
  eexists. eexists. split; [vm_compute; reflexivity|]. vm_compute. repeat split.
Qed.
