(* C11 - Writing transactions to CSV and reading them back is the identity.
   Obligations of the property; models in Model/CsvFields.v and
   Model/CsvTable.v, proofs in Proofs/Csv*.v. *)
From Coq Require Import List NArith ZArith Bool Arith.
From ACB Require Import Base.Outcome Model.CsvFields Model.CsvTable
     Proofs.CsvDigits Proofs.CsvFieldProps Proofs.CsvAffProps Proofs.CsvProps.
Import ListNotations.
Local Open Scope N_scope.

(* ------------------------------------------------------------------ the round trip
   For EVERY list of valid transactions (any length, every action, decimals
   of any scale 0..28 and mantissa up to 96 bits, any memo bytes, any
   interned affiliate), written by write_txs_to_csv over any RFC-4180 layer
   that reads back what it wrote, parse_tx_csv + Tx::try_from accept the
   bytes and return, position by position, the same transaction: same
   security, dates, action, numerically equal decimals with the same sign,
   same currencies, same force flag and integer-only flag, memo trimmed,
   same affiliate - except that a split of the default affiliate may come
   back as a split of all affiliates when no transaction names another
   affiliate; read_index = position. *)
Theorem C11_roundtrip : forall cw cr, csv_layer_ok cw cr ->
  forall tbl txs, forallb (valid_tx tbl) txs = true ->
  exists txs' tbl2,
    read cr (snd (write cw tbl txs)) (fst (write cw tbl txs)) = Ok (txs', tbl2)
    /\ forall2b (tx_same (no_named_affiliate txs)) txs txs' = true /\ ri_from 0 txs' = true.
Proof. exact roundtrip_bytes. Qed.
Check C11_roundtrip : forall cw cr, csv_layer_ok cw cr ->
  forall tbl txs, forallb (valid_tx tbl) txs = true ->
  exists txs' tbl2,
    read cr (snd (write cw tbl txs)) (fst (write cw tbl txs)) = Ok (txs', tbl2)
    /\ forall2b (tx_same (no_named_affiliate txs)) txs txs' = true /\ ri_from 0 txs' = true.
Print Assumptions C11_roundtrip.

(* the same on cells (no hypothesis on the csv crate) *)
Theorem C11_roundtrip_cells : forall tbl txs, forallb (valid_tx tbl) txs = true ->
  exists txs' tbl2,
    read_table (snd (write_table tbl txs)) (fst (fst (write_table tbl txs))) (snd (fst (write_table tbl txs)))
    = Ok (txs', tbl2)
    /\ forall2b (tx_same (no_named_affiliate txs)) txs txs' = true /\ ri_from 0 txs' = true.
Proof. exact table_roundtrip. Qed.
Check C11_roundtrip_cells : forall tbl txs, forallb (valid_tx tbl) txs = true ->
  exists txs' tbl2,
    read_table (snd (write_table tbl txs)) (fst (fst (write_table tbl txs))) (snd (fst (write_table tbl txs)))
    = Ok (txs', tbl2)
    /\ forall2b (tx_same (no_named_affiliate txs)) txs txs' = true /\ ri_from 0 txs' = true.
Print Assumptions C11_roundtrip_cells.

(* ------------------------------------------------------------------ the second generation
   Full statement: write (read (write txs)) = write txs for every valid list. *)
Definition C11_idempotent_full : Prop := forall cw cr, csv_layer_ok cw cr ->
  forall tbl txs, forallb (valid_tx tbl) txs = true ->
  exists txs' tbl2,
    read cr (snd (write cw tbl txs)) (fst (write cw tbl txs)) = Ok (txs', tbl2)
    /\ fst (write cw tbl2 txs') = fst (write cw tbl txs).

(* It does not hold of the code: two executable classes of lists re-read
   correctly but re-written to different cells (hence different bytes under
   any csv layer, which is injective on tables).  The witnesses are replayed
   on the implementation by the check. *)
Theorem C11_idempotent_refuted :
  exists tbl txs, forallb (valid_tx tbl) txs = true /\ second_differs tbl txs.
Proof.
  exists wit_tbl, [wit_buy [32; 120]].
  exact (conj (proj1 memo_witness) (proj2 (proj2 (proj2 memo_witness)))).
Qed.
Check C11_idempotent_refuted :
  exists tbl txs, forallb (valid_tx tbl) txs = true /\ second_differs tbl txs.
Print Assumptions C11_idempotent_refuted.

Theorem C11_K_memo_untrimmed_witness :
  forallb (valid_tx wit_tbl) [wit_buy [32; 120]] = true
  /\ K_memo_untrimmed [wit_buy [32; 120]] = true /\ K_default_split [wit_buy [32; 120]] = false
  /\ second_differs wit_tbl [wit_buy [32; 120]].
Proof. exact memo_witness. Qed.
Check C11_K_memo_untrimmed_witness :
  forallb (valid_tx wit_tbl) [wit_buy [32; 120]] = true
  /\ K_memo_untrimmed [wit_buy [32; 120]] = true /\ K_default_split [wit_buy [32; 120]] = false
  /\ second_differs wit_tbl [wit_buy [32; 120]].
Print Assumptions C11_K_memo_untrimmed_witness.

Theorem C11_K_default_split_witness :
  forallb (valid_tx wit_tbl) [wit_split] = true
  /\ K_memo_untrimmed [wit_split] = false /\ K_default_split [wit_split] = true
  /\ second_differs wit_tbl [wit_split].
Proof. exact split_witness. Qed.
Check C11_K_default_split_witness :
  forallb (valid_tx wit_tbl) [wit_split] = true
  /\ K_memo_untrimmed [wit_split] = false /\ K_default_split [wit_split] = true
  /\ second_differs wit_tbl [wit_split].
Print Assumptions C11_K_default_split_witness.

(* the writer is injective on tables: different cells give different bytes *)
Theorem C11_different_cells_different_bytes : forall cw cr, csv_layer_ok cw cr ->
  forall h1 r1 h2 r2,
    h1 <> [] -> Forall (fun r => length r = length h1) r1 ->
    h2 <> [] -> Forall (fun r => length r = length h2) r2 ->
    cw (h1 :: r1) = cw (h2 :: r2) -> h1 :: r1 = h2 :: r2.
Proof. exact write_injective. Qed.
Check C11_different_cells_different_bytes : forall cw cr, csv_layer_ok cw cr ->
  forall h1 r1 h2 r2,
    h1 <> [] -> Forall (fun r => length r = length h1) r1 ->
    h2 <> [] -> Forall (fun r => length r = length h2) r2 ->
    cw (h1 :: r1) = cw (h2 :: r2) -> h1 :: r1 = h2 :: r2.
Print Assumptions C11_different_cells_different_bytes.

(* Outside the two classes the full statement holds, for all lists. *)
Theorem C11_idempotent : forall cw cr, csv_layer_ok cw cr ->
  forall tbl txs, forallb (valid_tx tbl) txs = true ->
  K_memo_untrimmed txs = false -> K_default_split txs = false ->
  exists txs' tbl2,
    read cr (snd (write cw tbl txs)) (fst (write cw tbl txs)) = Ok (txs', tbl2)
    /\ fst (write cw tbl2 txs') = fst (write cw tbl txs).
Proof. exact idempotent_bytes. Qed.
Check C11_idempotent : forall cw cr, csv_layer_ok cw cr ->
  forall tbl txs, forallb (valid_tx tbl) txs = true ->
  K_memo_untrimmed txs = false -> K_default_split txs = false ->
  exists txs' tbl2,
    read cr (snd (write cw tbl txs)) (fst (write cw tbl txs)) = Ok (txs', tbl2)
    /\ fst (write cw tbl2 txs') = fst (write cw tbl txs).
Print Assumptions C11_idempotent.

Theorem C11_idempotent_cells : forall tbl txs, forallb (valid_tx tbl) txs = true ->
  K_memo_untrimmed txs = false -> K_default_split txs = false ->
  exists txs' tbl2,
    read_table (snd (write_table tbl txs)) (fst (fst (write_table tbl txs))) (snd (fst (write_table tbl txs)))
    = Ok (txs', tbl2)
    /\ fst (write_table tbl2 txs') = fst (write_table tbl txs).
Proof. exact table_idempotent. Qed.
Check C11_idempotent_cells : forall tbl txs, forallb (valid_tx tbl) txs = true ->
  K_memo_untrimmed txs = false -> K_default_split txs = false ->
  exists txs' tbl2,
    read_table (snd (write_table tbl txs)) (fst (fst (write_table tbl txs))) (snd (fst (write_table tbl txs)))
    = Ok (txs', tbl2)
    /\ fst (write_table tbl2 txs') = fst (write_table tbl txs).
Print Assumptions C11_idempotent_cells.

(* ------------------------------------------------------------------ field codecs *)
(* to_string_min_precision k keeps every significant digit: Decimal::from_str
   of the text is the same number with the same sign (the display scale may
   change), for every mantissa up to 2^96-1 and every scale up to 28 *)
Theorem C11_decimal_roundtrip : forall d k, valid_dec d = true -> (k <= 28)%nat ->
  exists d', parse_dec (tsmp k d) = Ok d' /\ dec_same d d' /\ valid_dec d' = true.
Proof. exact parse_tsmp. Qed.
Check C11_decimal_roundtrip : forall d k, valid_dec d = true -> (k <= 28)%nat ->
  exists d', parse_dec (tsmp k d) = Ok d' /\ dec_same d d' /\ valid_dec d' = true.
Print Assumptions C11_decimal_roundtrip.

(* and the rendering depends only on sign and value, so the re-read decimal
   is written as the same text *)
Theorem C11_decimal_stable : forall k a b, dec_same a b -> tsmp k a = tsmp k b.
Proof. exact tsmp_same. Qed.
Check C11_decimal_stable : forall k a b, dec_same a b -> tsmp k a = tsmp k b.
Print Assumptions C11_decimal_stable.

(* rust_decimal renders into a 32-byte buffer and panics beyond it (str.rs:64):
   never for the precisions the writer uses on a valid decimal *)
Theorem C11_display_fits : forall d k, valid_dec d = true -> (k <= 2)%nat ->
  fmt_panics (Nat.max (trimmed_prec d) k) d = false.
Proof. exact fmt_fits. Qed.
Check C11_display_fits : forall d k, valid_dec d = true -> (k <= 2)%nat ->
  fmt_panics (Nat.max (trimmed_prec d) k) d = false.
Print Assumptions C11_display_fits.

Theorem C11_date_roundtrip : forall d, valid_date d = true ->
  parse_date (show_date d) = Ok d /\ edges_ok (show_date d) = true.
Proof. exact date_roundtrip. Qed.
Check C11_date_roundtrip : forall d, valid_date d = true ->
  parse_date (show_date d) = Ok d /\ edges_ok (show_date d) = true.
Print Assumptions C11_date_roundtrip.

Theorem C11_action_roundtrip : forall a, parse_act (show_act a) = Ok a /\ edges_ok (show_act a) = true.
Proof. exact act_roundtrip. Qed.
Check C11_action_roundtrip : forall a, parse_act (show_act a) = Ok a /\ edges_ok (show_act a) = true.
Print Assumptions C11_action_roundtrip.

Theorem C11_currency_roundtrip : forall c, valid_cur c = true ->
  currency_new c = c /\ trim c = c /\ is_nil c = false.
Proof. exact currency_roundtrip. Qed.
Check C11_currency_roundtrip : forall c, valid_cur c = true ->
  currency_new c = c /\ trim c = c /\ is_nil c = false.
Print Assumptions C11_currency_roundtrip.

(* Affiliate::from_strep (name a) = a, for every affiliate made from ASCII
   text, including every placement and spelling of the marker "(R)" *)
Theorem C11_affiliate_roundtrip : forall s, is_ascii s = true ->
  from_strep_data (a_name (from_strep_data s)) = from_strep_data s.
Proof. exact from_strep_name. Qed.
Check C11_affiliate_roundtrip : forall s, is_ascii s = true ->
  from_strep_data (a_name (from_strep_data s)) = from_strep_data s.
Print Assumptions C11_affiliate_roundtrip.

Theorem C11_affiliate_cell : forall s, is_ascii s = true ->
  trim (a_name (from_strep_data s)) = a_name (from_strep_data s) /\ a_name (from_strep_data s) <> [].
Proof. exact from_strep_name_cell. Qed.
Check C11_affiliate_cell : forall s, is_ascii s = true ->
  trim (a_name (from_strep_data s)) = a_name (from_strep_data s) /\ a_name (from_strep_data s) <> [].
Print Assumptions C11_affiliate_cell.

(* superficial-loss marker, with and without the force flag "!" *)
Theorem C11_sfl_roundtrip : forall v, valid_sfl v = true ->
  parse_sfl (show_sfl v) = Ok (rp_sfl v) /\ dec_same (sf_val v) (sf_val (rp_sfl v))
  /\ show_sfl (rp_sfl v) = show_sfl v /\ edges_ok (show_sfl v) = true.
Proof. exact sfl_roundtrip. Qed.
Check C11_sfl_roundtrip : forall v, valid_sfl v = true ->
  parse_sfl (show_sfl v) = Ok (rp_sfl v) /\ dec_same (sf_val v) (sf_val (rp_sfl v))
  /\ show_sfl (rp_sfl v) = show_sfl v /\ edges_ok (show_sfl v) = true.
Print Assumptions C11_sfl_roundtrip.

(* split ratio, all three renderings ("2-for-1", "1.0-for-2.0", "1.5-for-1"):
   same numbers, same reverse_integer_only *)
Theorem C11_ratio_roundtrip : forall r, valid_ratio r = true ->
  parse_ratio (show_ratio r) = Ok (rp_ratio r)
  /\ dec_same (r_post r) (r_post (rp_ratio r)) /\ dec_same (r_pre r) (r_pre (rp_ratio r))
  /\ r_rio (rp_ratio r) = r_rio r /\ show_ratio (rp_ratio r) = show_ratio r
  /\ edges_ok (show_ratio r) = true.
Proof. exact ratio_roundtrip. Qed.
Check C11_ratio_roundtrip : forall r, valid_ratio r = true ->
  parse_ratio (show_ratio r) = Ok (rp_ratio r)
  /\ dec_same (r_post r) (r_post (rp_ratio r)) /\ dec_same (r_pre r) (r_pre (rp_ratio r))
  /\ r_rio (rp_ratio r) = r_rio r /\ show_ratio (rp_ratio r) = show_ratio r
  /\ edges_ok (show_ratio r) = true.
Print Assumptions C11_ratio_roundtrip.

(* ------------------------------------------------------------------ non-vacuity *)
(* the csv-layer hypothesis has a model, and a 4-row list (USD purchase with a
   29-digit price, a sale with a forced superficial loss and a separate
   commission currency, a reverse split allowing fractions for a registered
   affiliate, a cost-base adjustment) is valid, is read back as the same
   transactions and re-written to the same bytes *)
Definition ex_tbl : aftable := snd (intern (snd (intern [] [])) [83; 112; 32; 40; 82; 41]).
Definition ex_sp : affdata := from_strep_data [83; 112; 32; 40; 82; 41].
Definition ex_date m d : date := {| dt_y := 2024; dt_m := m; dt_d := d |}.
Definition ex_usd : car := {| c_cur := [85; 83; 68]; c_rate := mk_dec false 13650 4 |}.
Definition ex_txs : list ctx := [
  {| x_sec := [70; 79; 79]; x_td := ex_date 2 27; x_sd := ex_date 2 29;
     x_act := XBuy (mk_dec false 1000 2) (mk_dec false 79228162514264337593543950335 0) (mk_dec false 999 2) ex_usd None;
     x_memo := [97; 44; 34; 98; 34]; x_af := from_strep_data []; x_ri := 5 |};
  {| x_sec := [70; 79; 79]; x_td := ex_date 3 1; x_sd := ex_date 3 4;
     x_act := XSell (mk_dec false 5 0) (mk_dec false 12 1) (mk_dec false 0 0) car_default (Some ex_usd)
                    (Some {| sf_val := mk_dec true 1050 3; sf_force := true |});
     x_memo := []; x_af := from_strep_data []; x_ri := 5 |};
  {| x_sec := [70; 79; 79]; x_td := ex_date 4 1; x_sd := ex_date 4 1;
     x_act := XSplit {| r_post := mk_dec false 1 0; r_pre := mk_dec false 20 1; r_rio := false |};
     x_memo := []; x_af := ex_sp; x_ri := 0 |};
  {| x_sec := [70; 79; 79]; x_td := ex_date 4 2; x_sd := ex_date 4 2;
     x_act := XSfla (mk_dec false 1 0) (mk_dec false 105 2);
     x_memo := []; x_af := from_strep_data []; x_ri := 9 |}
].
Example C11_nonvacuous :
  csv_layer_ok toy_cw toy_cr
  /\ forallb (valid_tx ex_tbl) ex_txs = true
  /\ K_memo_untrimmed ex_txs = false /\ K_default_split ex_txs = false
  /\ (exists txs' tbl2,
        read toy_cr (snd (write toy_cw ex_tbl ex_txs)) (fst (write toy_cw ex_tbl ex_txs)) = Ok (txs', tbl2)
        /\ map x_ri txs' = [0; 1; 2; 3] /\ map x_af txs' = map x_af ex_txs
        /\ fst (write toy_cw tbl2 txs') = fst (write toy_cw ex_tbl ex_txs)).
Proof.
  split; [exact toy_layer_ok|]. split; [vm_compute; reflexivity|].
  split; [vm_compute; reflexivity|]. split; [vm_compute; reflexivity|].
  eexists. eexists. split; [vm_compute; reflexivity|]. vm_compute. repeat split.
Qed.
