(* C15 - Stock splits are value-neutral.
   PARTIAL.  Proved here: value-neutrality of the two declarative rules the
   ledger is proved to follow (C01: average-cost rule; C02: superficial-loss
   rule quantities), for restated rows and across an inserted split given as
   one row per affiliate in any order; and, for WHOLE RUNS of the model, the
   case where the split precedes every row (C15_whole_history_restated).
   NOT proved: the whole-run statement for a split inserted at an arbitrary
   position in the middle of a history (C15_full):
   that composition is checked on the implementation itself by the
   metamorphic part of the check (h vs h' for random positions / ratios /
   global or per-affiliate split rows).  C15_full below is the statement that
   is not proved. *)
From Coq Require Import List NArith ZArith QArith Qcanon Bool Permutation.
From ACB Require Import Base.Outcome Base.QcExtra Base.Arith Model.Tx Model.Ledger Model.Sfl Model.DeltaList
     Spec.AvgCost Spec.SflRule Proofs.C02Scan Proofs.C15Scale Proofs.C15Run.
Import ListNotations.

(* the full statement (one row per affiliate variant), kept visible *)
Definition same_money (d d' : delta) : Prop :=
  d_gain d = d_gain d' /\ s_acb (d_post d) = s_acb (d_post d') /\
  option_map sf_amount (d_sfl d) = option_map sf_amount (d_sfl d').
Definition C15_full : Prop :=
  forall f ids splits pre post ds,
    (0 < f)%Qc -> split_rows_for f ids splits ->
    Forall (fun x => In (af_id (t_af x)) ids) (pre ++ post) ->
    run exact None (pre ++ post) = (ds, None) ->
    exists ds', run exact None (pre ++ splits ++ map (scale_tx f) post) = (ds', None) /\
                Forall2 same_money ds (filter (fun d => negb (existsb (fun s => N.eqb (t_ri s) (t_ri (d_tx d)) && is_split (t_act (d_tx d))) splits)) ds').

(* Whole runs of the model: restating EVERY share quantity (x f) and every
   per-share amount (/ f) of a history, rows and opening position alike -
   i.e. an a-for-b split taken before the first row - leaves every capital
   gain, denied amount, cost base, generated adjustment and the outcome
   (accepted / rejected at the same row for the same reason) unchanged; share
   balances and ratio terms scale.  f > 0; no whole-number-only reverse
   splits in the history (their fraction test is deliberately not scale-free). *)
Theorem C15_whole_history_restated : forall f, (0 < f)%Qc -> forall init txs,
  Forall no_int_only txs ->
  run exact (option_map (sc_status f) init) (map (scale_tx f) txs)
  = let '(ds, o) := run exact init txs in (map (sc_delta f) ds, o).
Proof. exact C15Run.run_sc. Qed.
Check C15_whole_history_restated : forall f, (0 < f)%Qc -> forall init txs,
  Forall no_int_only txs ->
  run exact (option_map (sc_status f) init) (map (scale_tx f) txs)
  = let '(ds, o) := run exact init txs in (map (sc_delta f) ds, o).
Print Assumptions C15_whole_history_restated.

(* Restating a holding and a row (shares x f, per-share amounts / f) leaves
   the new total cost and the gain unchanged and scales the shares. *)
Theorem C15_avg_cost_rule_scale : forall f sh acb a denied,
  f <> 0%Qc -> sh <> 0%Qc \/ is_sell a = false ->
  avg_cost_rule ((sh * f)%Qc, acb) (scale_action f a) denied
  = let '((sh', acb'), g) := avg_cost_rule (sh, acb) a denied in (((sh' * f)%Qc, acb'), g).
Proof. exact C15Scale.avg_cost_rule_scale. Qed.
Check C15_avg_cost_rule_scale : forall f sh acb a denied,
  f <> 0%Qc -> sh <> 0%Qc \/ is_sell a = false ->
  avg_cost_rule ((sh * f)%Qc, acb) (scale_action f a) denied
  = let '((sh', acb'), g) := avg_cost_rule (sh, acb) a denied in (((sh' * f)%Qc, acb'), g).
Print Assumptions C15_avg_cost_rule_scale.

(* Purchases before a loss sale, split inserted between older rows [pre] and
   newer, restated rows [post] (one split row per affiliate, any order): the
   acquired quantity is restated with the sale. *)
Theorem C15_acquired_before_inserted_split : forall f ids splits post pre,
  split_rows_for f ids splits ->
  Forall (fun x => In (af_id (t_af x)) ids) pre ->
  acq_before [] (map (scale_tx f) post ++ splits ++ pre) = (acq_before [] (post ++ pre) * f)%Qc.
Proof. exact C15Scale.acq_before_inserted_split. Qed.
Check C15_acquired_before_inserted_split : forall f ids splits post pre,
  split_rows_for f ids splits ->
  Forall (fun x => In (af_id (t_af x)) ids) pre ->
  acq_before [] (map (scale_tx f) post ++ splits ++ pre) = (acq_before [] (post ++ pre) * f)%Qc.
Print Assumptions C15_acquired_before_inserted_split.

(* Rows after a loss sale, split inserted later inside its window: acquired
   and sold quantities (in the sale's split period) are unchanged. *)
Theorem C15_after_inserted_split : forall f ids splits pre post,
  split_rows_for f ids splits -> f <> 0%Qc ->
  Forall (fun x => In (af_id (t_af x)) ids) post ->
  acq_after [] (pre ++ splits ++ map (scale_tx f) post) = acq_after [] (pre ++ post) /\
  sold_after [] (pre ++ splits ++ map (scale_tx f) post) = sold_after [] (pre ++ post).
Proof. exact C15Scale.after_inserted_split. Qed.
Check C15_after_inserted_split : forall f ids splits pre post,
  split_rows_for f ids splits -> f <> 0%Qc ->
  Forall (fun x => In (af_id (t_af x)) ids) post ->
  acq_after [] (pre ++ splits ++ map (scale_tx f) post) = acq_after [] (pre ++ post) /\
  sold_after [] (pre ++ splits ++ map (scale_tx f) post) = sold_after [] (pre ++ post).
Print Assumptions C15_after_inserted_split.

(* Restated windows: all three sums scale with the sale. *)
Theorem C15_window_sums_restated : forall f seen w,
  acq_after (map (scale_tx f) seen) (map (scale_tx f) w) = (acq_after seen w * f)%Qc /\
  sold_after (map (scale_tx f) seen) (map (scale_tx f) w) = (sold_after seen w * f)%Qc /\
  acq_before (map (scale_tx f) seen) (map (scale_tx f) w) = (acq_before seen w * f)%Qc.
Proof. intros. split; [apply acq_after_scale | split; [apply sold_after_scale | apply acq_before_scale]]. Qed.
Check C15_window_sums_restated : forall f seen w,
  acq_after (map (scale_tx f) seen) (map (scale_tx f) w) = (acq_after seen w * f)%Qc /\
  sold_after (map (scale_tx f) seen) (map (scale_tx f) w) = (sold_after seen w * f)%Qc /\
  acq_before (map (scale_tx f) seen) (map (scale_tx f) w) = (acq_before seen w * f)%Qc.
Print Assumptions C15_window_sums_restated.

(* ... hence the denied fraction is unchanged. *)
Theorem C15_ratio_restated : forall f sold acq held,
  (0 < f)%Qc -> (0 < sold)%Qc ->
  rule_ratio (sold * f) (acq * f) (held * f) = rule_ratio sold acq held.
Proof. exact C15Scale.rule_ratio_scale. Qed.
Check C15_ratio_restated : forall f sold acq held,
  (0 < f)%Qc -> (0 < sold)%Qc ->
  rule_ratio (sold * f) (acq * f) (held * f) = rule_ratio sold acq held.
Print Assumptions C15_ratio_restated.

(* Non-vacuity: a 3-for-2 split given for two affiliates satisfies
   split_rows_for, and the concrete instance of C15_full holds for a history
   with a superficial loss straddling the split (vm_compute). *)
Local Open Scope Z_scope.
Definition q (n : Z) (d : positive) := Qcfrac n d.
Definition spouse := {| af_id := 1003; af_reg := false; af_dflt := false |}.
Definition mk sd a af :=
  {| t_sec := 0; t_td := sd; t_sd := sd; t_act := a; t_af := af; t_glob := false; t_ri := 0 |}.
Definition ex_splits := [mk 105 (Split (q 3 1) (q 2 1) false) spouse; mk 105 (Split (q 3 1) (q 2 1) false) default_aff].
Definition ex_pre := [mk 90 (Buy (q 10 1) (q 10 1) (q 0 1) (q 1 1) (q 1 1)) default_aff;
                      mk 100 (Sell (q 4 1) (q 6 1) (q 0 1) (q 1 1) (q 1 1) None) default_aff].
Definition ex_post := [mk 110 (Buy (q 2 1) (q 7 1) (q 0 1) (q 1 1) (q 1 1)) spouse;
                       mk 150 (Sell (q 6 1) (q 12 1) (q 0 1) (q 1 1) (q 1 1) None) default_aff].
Definition money (l : list tx) :=
  map (fun d => (option_map (fun g => (Qnum (this g), Qden (this g))) (d_gain d),
                 option_map (fun g => (Qnum (this g), Qden (this g))) (s_acb (d_post d))))
      (filter (fun d => negb (is_split (t_act (d_tx d)))) (fst (run exact None l))).
Example C15_nonvacuous :
  split_rows_for (q 3 2) [1003%N; 1000%N] ex_splits /\
  money (ex_pre ++ ex_splits ++ map (scale_tx (q 3 2)) ex_post) = money (ex_pre ++ ex_post) /\
  length (money (ex_pre ++ ex_post)) = 6%nat.
Proof.
  split; [|vm_compute; split; reflexivity].
  split; [|split].
  - repeat constructor.
  - cbn. apply Permutation_refl.
  - repeat constructor; cbn; intuition; discriminate.
Qed.
