(* C15 - Stock splits are value-neutral.
   Proved here for WHOLE RUNS of the model under exact arithmetic:
   * C15_inserted_split: a split inserted at ANY position of a history, given
     as one f-for-1 row per affiliate (what the global-split expansion
     produces), with every later row restated (shares x f, per-share amounts
     / f): every row before the split keeps its delta verbatim, every later
     row keeps its capital gain, denied amount, cost base and generated
     adjustments (its share figures scale), the outcome (accepted, or rejected
     / stopped at the same row for the same reason) is the same, and the
     inserted rows themselves carry no gain and leave every cost base alone.
   * C15_whole_history_restated: the case where the split precedes every row
     (opening position restated as well).
   * value-neutrality of the two declarative rules (C01 average-cost rule,
     C02 superficial-loss rule quantities), kept from the earlier partial
     result.
   Hypotheses of C15_inserted_split (all hold for what the program builds):
   rows sorted around the split (earlier rows settle on or before the split's
   settlement date dS, later rows on or after it); every affiliate of the
   history has a split row (ids_of S), once (NoDup); an affiliate's registered
   flag is a function of its id ([regof], as in the program where it is read
   off the "(R)" suffix); no whole-number-only reverse splits among the
   restated rows (their fraction test is deliberately not scale-free); f > 0;
   no opening position (init = None; with one, see C15_whole_history_restated
   and C16).  Rounded arithmetic: covered by the metamorphic differential on
   the implementation and by C01's per-operation error bound. *)
From Coq Require Import List NArith ZArith QArith Qcanon Bool Permutation.
From ACB Require Import Base.Outcome Base.QcExtra Base.Arith Model.Tx Model.Ledger Model.Sfl Model.DeltaList
     Spec.AvgCost Spec.SflRule Proofs.C02Scan Proofs.C15Scale Proofs.C15Run Proofs.C15Full.
Import ListNotations.

(* vocabulary (defined in Proofs/C15Full.v, C15Run.v, C15Scale.v):
   fsplit f dS x   : x is a split row  Split po pr false  with pr <> 0, po / pr = f, settling on dS
   ids_of S        : the affiliate ids of the rows S
   goodaf regof af : af_reg af = regof (af_id af)
   scale_tx f      : shares x f, per-share amounts / f (split rows and SfLA totals unchanged)
   sc_delta f d    : d with its row restated, its share balances x f, its SfL ratio terms x f;
                     d_gain, s_acb and sf_amount untouched
   neutral d       : d_gain d = None /\ d_sfl d = None /\ s_acb (d_post d) = s_acb (d_pre d)
   no_int_only t   : t is not a whole-number-only split *)
Definition same_money (d d' : delta) : Prop :=
  d_gain d = d_gain d' /\ s_acb (d_post d) = s_acb (d_post d') /\
  option_map sf_amount (d_sfl d) = option_map sf_amount (d_sfl d').

Theorem C15_inserted_split : forall f dS regof S pre post,
  (0 < f)%Qc ->
  Forall (fsplit f dS) S -> NoDup (ids_of S) ->
  Forall (fun x => In (af_id (t_af x)) (ids_of S) /\ goodaf regof (t_af x)) (pre ++ S ++ post) ->
  Forall (fun x => (t_sd x <= dS)%Z) pre -> Forall (fun x => (dS <= t_sd x)%Z) post ->
  Forall no_int_only post ->
  exists ds1 ds2 dss o,
    run exact None (pre ++ post) = (ds1 ++ ds2, o) /\
    run exact None (pre ++ S ++ map (scale_tx f) post) = (ds1 ++ dss ++ map (sc_delta f) ds2, o) /\
    Forall neutral dss /\
    (map d_tx dss = S \/ (dss = [] /\ ds2 = [] /\ o <> None)).
Proof. exact C15Full.inserted_split. Qed.
Check C15_inserted_split : forall f dS regof S pre post,
  (0 < f)%Qc ->
  Forall (fsplit f dS) S -> NoDup (ids_of S) ->
  Forall (fun x => In (af_id (t_af x)) (ids_of S) /\ goodaf regof (t_af x)) (pre ++ S ++ post) ->
  Forall (fun x => (t_sd x <= dS)%Z) pre -> Forall (fun x => (dS <= t_sd x)%Z) post ->
  Forall no_int_only post ->
  exists ds1 ds2 dss o,
    run exact None (pre ++ post) = (ds1 ++ ds2, o) /\
    run exact None (pre ++ S ++ map (scale_tx f) post) = (ds1 ++ dss ++ map (sc_delta f) ds2, o) /\
    Forall neutral dss /\
    (map d_tx dss = S \/ (dss = [] /\ ds2 = [] /\ o <> None)).
Print Assumptions C15_inserted_split.

(* the restated delta of a row shows the same money *)
Theorem C15_restated_row_same_money : forall f d, same_money d (sc_delta f d).
Proof.
  intros f d. unfold same_money, sc_delta. cbn. repeat split. destruct (d_sfl d); reflexivity.
Qed.
Check C15_restated_row_same_money : forall f d, same_money d (sc_delta f d).
Print Assumptions C15_restated_row_same_money.

(* Whole runs of the model: restating EVERY share quantity (x f) and every
   per-share amount (/ f) of a history, rows and opening position alike -
   i.e. an a-for-b split taken before the first row - leaves every capital
   gain, denied amount, cost base, generated adjustment and the outcome
   (accepted / rejected at the same row for the same reason) unchanged; share
   balances and ratio terms scale.  f > 0; no whole-number-only reverse
   splits in the history (their fraction test is deliberately not scale-free). *)
Theorem C15_whole_history_restated : forall f, (0 < f)%Qc -> forall init txs,
  Forall no_int_only txs ->
  run exact (option_map (sc_status f) init) (map (scale_tx f) txs)
  = let '(ds, o) := run exact init txs in (map (sc_delta f) ds, o).
Proof. exact C15Run.run_sc. Qed.
Check C15_whole_history_restated : forall f, (0 < f)%Qc -> forall init txs,
  Forall no_int_only txs ->
  run exact (option_map (sc_status f) init) (map (scale_tx f) txs)
  = let '(ds, o) := run exact init txs in (map (sc_delta f) ds, o).
Print Assumptions C15_whole_history_restated.

(* Restating a holding and a row (shares x f, per-share amounts / f) leaves
   the new total cost and the gain unchanged and scales the shares. *)
Theorem C15_avg_cost_rule_scale : forall f sh acb a denied,
  f <> 0%Qc -> sh <> 0%Qc \/ is_sell a = false ->
  avg_cost_rule ((sh * f)%Qc, acb) (scale_action f a) denied
  = let '((sh', acb'), g) := avg_cost_rule (sh, acb) a denied in (((sh' * f)%Qc, acb'), g).
Proof. exact C15Scale.avg_cost_rule_scale. Qed.
Check C15_avg_cost_rule_scale : forall f sh acb a denied,
  f <> 0%Qc -> sh <> 0%Qc \/ is_sell a = false ->
  avg_cost_rule ((sh * f)%Qc, acb) (scale_action f a) denied
  = let '((sh', acb'), g) := avg_cost_rule (sh, acb) a denied in (((sh' * f)%Qc, acb'), g).
Print Assumptions C15_avg_cost_rule_scale.

(* Purchases before a loss sale, split inserted between older rows [pre] and
   newer, restated rows [post] (one split row per affiliate, any order): the
   acquired quantity is restated with the sale. *)
Theorem C15_acquired_before_inserted_split : forall f ids splits post pre,
  split_rows_for f ids splits ->
  Forall (fun x => In (af_id (t_af x)) ids) pre ->
  acq_before [] (map (scale_tx f) post ++ splits ++ pre) = (acq_before [] (post ++ pre) * f)%Qc.
Proof. exact C15Scale.acq_before_inserted_split. Qed.
Check C15_acquired_before_inserted_split : forall f ids splits post pre,
  split_rows_for f ids splits ->
  Forall (fun x => In (af_id (t_af x)) ids) pre ->
  acq_before [] (map (scale_tx f) post ++ splits ++ pre) = (acq_before [] (post ++ pre) * f)%Qc.
Print Assumptions C15_acquired_before_inserted_split.

(* Rows after a loss sale, split inserted later inside its window: acquired
   and sold quantities (in the sale's split period) are unchanged. *)
Theorem C15_after_inserted_split : forall f ids splits pre post,
  split_rows_for f ids splits -> f <> 0%Qc ->
  Forall (fun x => In (af_id (t_af x)) ids) post ->
  acq_after [] (pre ++ splits ++ map (scale_tx f) post) = acq_after [] (pre ++ post) /\
  sold_after [] (pre ++ splits ++ map (scale_tx f) post) = sold_after [] (pre ++ post).
Proof. exact C15Scale.after_inserted_split. Qed.
Check C15_after_inserted_split : forall f ids splits pre post,
  split_rows_for f ids splits -> f <> 0%Qc ->
  Forall (fun x => In (af_id (t_af x)) ids) post ->
  acq_after [] (pre ++ splits ++ map (scale_tx f) post) = acq_after [] (pre ++ post) /\
  sold_after [] (pre ++ splits ++ map (scale_tx f) post) = sold_after [] (pre ++ post).
Print Assumptions C15_after_inserted_split.

(* Restated windows: all three sums scale with the sale. *)
Theorem C15_window_sums_restated : forall f seen w,
  acq_after (map (scale_tx f) seen) (map (scale_tx f) w) = (acq_after seen w * f)%Qc /\
  sold_after (map (scale_tx f) seen) (map (scale_tx f) w) = (sold_after seen w * f)%Qc /\
  acq_before (map (scale_tx f) seen) (map (scale_tx f) w) = (acq_before seen w * f)%Qc.
Proof. intros. split; [apply acq_after_scale | split; [apply sold_after_scale | apply acq_before_scale]]. Qed.
Check C15_window_sums_restated : forall f seen w,
  acq_after (map (scale_tx f) seen) (map (scale_tx f) w) = (acq_after seen w * f)%Qc /\
  sold_after (map (scale_tx f) seen) (map (scale_tx f) w) = (sold_after seen w * f)%Qc /\
  acq_before (map (scale_tx f) seen) (map (scale_tx f) w) = (acq_before seen w * f)%Qc.
Print Assumptions C15_window_sums_restated.

(* ... hence the denied fraction is unchanged. *)
Theorem C15_ratio_restated : forall f sold acq held,
  (0 < f)%Qc -> (0 < sold)%Qc ->
  rule_ratio (sold * f) (acq * f) (held * f) = rule_ratio sold acq held.
Proof. exact C15Scale.rule_ratio_scale. Qed.
Check C15_ratio_restated : forall f sold acq held,
  (0 < f)%Qc -> (0 < sold)%Qc ->
  rule_ratio (sold * f) (acq * f) (held * f) = rule_ratio sold acq held.
Print Assumptions C15_ratio_restated.

(* Non-vacuity: a 3-for-2 split given for two affiliates satisfies
   split_rows_for, and the concrete instance of C15_full holds for a history
   with a superficial loss straddling the split (vm_compute). *)
Local Open Scope Z_scope.
Definition q (n : Z) (d : positive) := Qcfrac n d.
Definition spouse := {| af_id := 1003; af_reg := false; af_dflt := false |}.
Definition mk sd a af :=
  {| t_sec := 0; t_td := sd; t_sd := sd; t_act := a; t_af := af; t_glob := false; t_ri := 0 |}.
Definition ex_splits := [mk 105 (Split (q 3 1) (q 2 1) false) spouse; mk 105 (Split (q 3 1) (q 2 1) false) default_aff].
Definition ex_pre := [mk 90 (Buy (q 10 1) (q 10 1) (q 0 1) (q 1 1) (q 1 1)) default_aff;
                      mk 100 (Sell (q 4 1) (q 6 1) (q 0 1) (q 1 1) (q 1 1) None) default_aff].
Definition ex_post := [mk 110 (Buy (q 2 1) (q 7 1) (q 0 1) (q 1 1) (q 1 1)) spouse;
                       mk 150 (Sell (q 6 1) (q 12 1) (q 0 1) (q 1 1) (q 1 1) None) default_aff].
Definition money (l : list tx) :=
  map (fun d => (option_map (fun g => (Qnum (this g), Qden (this g))) (d_gain d),
                 option_map (fun g => (Qnum (this g), Qden (this g))) (s_acb (d_post d))))
      (filter (fun d => negb (is_split (t_act (d_tx d)))) (fst (run exact None l))).
Example C15_inserted_split_hypotheses_hold :
  Forall (fsplit (q 3 2) 105) ex_splits /\ NoDup (ids_of ex_splits) /\
  Forall (fun x => In (af_id (t_af x)) (ids_of ex_splits) /\ goodaf (fun _ => false) (t_af x)) (ex_pre ++ ex_splits ++ ex_post) /\
  Forall (fun x => (t_sd x <= 105)%Z) ex_pre /\ Forall (fun x => (105 <= t_sd x)%Z) ex_post /\
  Forall no_int_only ex_post.
Proof.
  assert (Eq : (q 3 1 / q 2 1)%Qc = q 3 2) by (apply Qc_is_canon; reflexivity).
  assert (Hne : q 2 1 <> 0%Qc) by discriminate.
  split; [|split; [|split; [|split; [|split]]]].
  - repeat constructor; exists (q 3 1), (q 2 1); repeat split; auto.
  - repeat constructor; cbn; intuition; discriminate.
  - unfold ex_pre, ex_splits, ex_post; cbn [app].
    repeat (apply Forall_cons; [split; [cbn; auto | reflexivity]|]). apply Forall_nil.
  - repeat constructor; cbn; discriminate.
  - repeat constructor; cbn; discriminate.
  - repeat constructor.
Qed.

Example C15_nonvacuous :
  split_rows_for (q 3 2) [1003%N; 1000%N] ex_splits /\
  money (ex_pre ++ ex_splits ++ map (scale_tx (q 3 2)) ex_post) = money (ex_pre ++ ex_post) /\
  length (money (ex_pre ++ ex_post)) = 6%nat.
Proof.
  split; [|vm_compute; split; reflexivity].
  split; [|split].
  - repeat constructor.
  - cbn. apply Permutation_refl.
  - repeat constructor; cbn; intuition; discriminate.
Qed.

(* ---- Under rust_decimal rounding (Proofs/C15Dec.v).  The exact theorem
   C15_inserted_split composed with the accumulation bound of C01
   (C01_rounding_error_accumulates, Proofs/DecAccumulate.v): if the original
   history pre ++ post and the history with the split inserted and the later
   rows restated, pre ++ Sp ++ map (scale_tx f) post, are both in the
   accumulation class [in_class k] (hypotheses of the accumulation theorem taken
   over verbatim, for each of the two histories: rows valid, no superficial
   loss on either side, equal share balances, non-registered affiliates,
   quantities <= 10^k - in particular the SCALED quantities -, rates <= 10),
   then the exact reports decompose as in C15_inserted_split and
   * a row before the split (index i in both rounded reports) shows gains and
     cost bases within 2 (i+1) cR k of each other,
   * a later row (index i = |ds1| + j in the original rounded report, index
     i' = |ds1| + |dss| + j in the restated one, |dss| = the inserted split
     rows) shows gains and cost bases within ((i+1) + (i'+1)) cR k of each other.
   [money_close e d d'] = the gains and the total cost bases of the two rows are
   both absent or within e. *)
From ACB Require Import Base.Fit Proofs.DecRowError Proofs.DecAccumulate Proofs.C15Dec.
Theorem C15_dec_split_neutral_bound : forall (k : nat) f dS regof Sp pre post dA oA eA oeA dB oB eB oeB,
  (2 * k + 2 <= 28)%nat ->
  (0 < f)%Qc ->
  Forall (fsplit f dS) Sp -> NoDup (ids_of Sp) ->
  Forall (fun x => In (af_id (t_af x)) (ids_of Sp) /\ goodaf regof (t_af x)) (pre ++ Sp ++ post) ->
  Forall (fun x => (t_sd x <= dS)%Z) pre -> Forall (fun x => (dS <= t_sd x)%Z) post ->
  Forall no_int_only post ->
  Forall (fun t => valid_tx t = true) (pre ++ post) ->
  Forall (fun t => valid_tx t = true) (pre ++ Sp ++ map (scale_tx f) post) ->
  run dec None (pre ++ post) = (dA, oA) -> run exact None (pre ++ post) = (eA, oeA) ->
  in_class k dA eA = true ->
  run dec None (pre ++ Sp ++ map (scale_tx f) post) = (dB, oB) ->
  run exact None (pre ++ Sp ++ map (scale_tx f) post) = (eB, oeB) ->
  in_class k dB eB = true ->
  exists ds1 ds2 dss,
    eA = ds1 ++ ds2 /\ eB = ds1 ++ dss ++ map (sc_delta f) ds2 /\ oeA = oeB /\ Forall neutral dss /\
    (forall i dd dd', (i < length ds1)%nat -> nth_error dA i = Some dd -> nth_error dB i = Some dd' ->
       money_close (QcZ (Z.of_nat (S i)) * cR k + QcZ (Z.of_nat (S i)) * cR k)%Qc dd dd') /\
    (forall j dd dd', (j < length ds2)%nat ->
       nth_error dA (length ds1 + j) = Some dd -> nth_error dB (length ds1 + length dss + j) = Some dd' ->
       money_close (QcZ (Z.of_nat (S (length ds1 + j))) * cR k
                    + QcZ (Z.of_nat (S (length ds1 + length dss + j))) * cR k)%Qc dd dd').
Proof. exact C15Dec.dec_split_neutral_bound. Qed.
Check C15_dec_split_neutral_bound : forall (k : nat) f dS regof Sp pre post dA oA eA oeA dB oB eB oeB,
  (2 * k + 2 <= 28)%nat ->
  (0 < f)%Qc ->
  Forall (fsplit f dS) Sp -> NoDup (ids_of Sp) ->
  Forall (fun x => In (af_id (t_af x)) (ids_of Sp) /\ goodaf regof (t_af x)) (pre ++ Sp ++ post) ->
  Forall (fun x => (t_sd x <= dS)%Z) pre -> Forall (fun x => (dS <= t_sd x)%Z) post ->
  Forall no_int_only post ->
  Forall (fun t => valid_tx t = true) (pre ++ post) ->
  Forall (fun t => valid_tx t = true) (pre ++ Sp ++ map (scale_tx f) post) ->
  run dec None (pre ++ post) = (dA, oA) -> run exact None (pre ++ post) = (eA, oeA) ->
  in_class k dA eA = true ->
  run dec None (pre ++ Sp ++ map (scale_tx f) post) = (dB, oB) ->
  run exact None (pre ++ Sp ++ map (scale_tx f) post) = (eB, oeB) ->
  in_class k dB eB = true ->
  exists ds1 ds2 dss,
    eA = ds1 ++ ds2 /\ eB = ds1 ++ dss ++ map (sc_delta f) ds2 /\ oeA = oeB /\ Forall neutral dss /\
    (forall i dd dd', (i < length ds1)%nat -> nth_error dA i = Some dd -> nth_error dB i = Some dd' ->
       money_close (QcZ (Z.of_nat (S i)) * cR k + QcZ (Z.of_nat (S i)) * cR k)%Qc dd dd') /\
    (forall j dd dd', (j < length ds2)%nat ->
       nth_error dA (length ds1 + j) = Some dd -> nth_error dB (length ds1 + length dss + j) = Some dd' ->
       money_close (QcZ (Z.of_nat (S (length ds1 + j))) * cR k
                    + QcZ (Z.of_nat (S (length ds1 + length dss + j))) * cR k)%Qc dd dd').
Print Assumptions C15_dec_split_neutral_bound.

(* what [money_close] says, spelled out *)
Theorem C15_money_close_means : forall e d d',
  money_close e d d' <->
  match d_gain d, d_gain d' with
  | Some x, Some y => (y - e <= x /\ x <= y + e)%Qc | None, None => True | _, _ => False end /\
  match s_acb (d_post d), s_acb (d_post d') with
  | Some x, Some y => (y - e <= x /\ x <= y + e)%Qc | None, None => True | _, _ => False end.
Proof. intros e d d'. reflexivity. Qed.
Check C15_money_close_means : forall e d d',
  money_close e d d' <->
  match d_gain d, d_gain d' with
  | Some x, Some y => (y - e <= x /\ x <= y + e)%Qc | None, None => True | _, _ => False end /\
  match s_acb (d_post d), s_acb (d_post d') with
  | Some x, Some y => (y - e <= x /\ x <= y + e)%Qc | None, None => True | _, _ => False end.
Print Assumptions C15_money_close_means.

(* Non-vacuity (k = 1): buy 3 at 3 plus 1 commission, sell 1 at 5 (per-share
   cost 10/3: rounds); then a 5-for-2 split is inserted and the four later rows
   (buy 2 at 1, return of capital 0.1 per share, sell 2 at 4, sell 1 at 7) are
   restated (shares x 2.5, per-share amounts / 2.5).  All hypotheses of the
   theorem hold; both rounded reports are complete (6 and 7 rows) and in the
   class; the gain of the sale of 2 shares (row 4 / row 5) DIFFERS between the
   two rounded reports (3.3666666666666666666666666664 against ...65) and is
   within (5 + 6) * cR 1, as the theorem says. *)
Definition exd_split := [mk 250 (Split (q 5 1) (q 2 1) false) default_aff].
Definition exd_pre := [mk 100 (Buy (q 3 1) (q 3 1) (q 1 1) (q 1 1) (q 1 1)) default_aff;
                       mk 200 (Sell (q 1 1) (q 5 1) (q 0 1) (q 1 1) (q 1 1) None) default_aff].
Definition exd_post := [mk 300 (Buy (q 2 1) (q 1 1) (q 0 1) (q 1 1) (q 1 1)) default_aff;
                        mk 400 (Roc (q 1 10) (q 1 1)) default_aff;
                        mk 500 (Sell (q 2 1) (q 4 1) (q 1 2) (q 1 1) (q 1 1) None) default_aff;
                        mk 600 (Sell (q 1 1) (q 7 1) (q 0 1) (q 1 1) (q 1 1) None) default_aff].
Example C15_dec_hypotheses_hold :
  (0 < q 5 2)%Qc /\
  Forall (fsplit (q 5 2) 250) exd_split /\ NoDup (ids_of exd_split) /\
  Forall (fun x => In (af_id (t_af x)) (ids_of exd_split) /\ goodaf (fun _ => false) (t_af x)) (exd_pre ++ exd_split ++ exd_post) /\
  Forall (fun x => (t_sd x <= 250)%Z) exd_pre /\ Forall (fun x => (250 <= t_sd x)%Z) exd_post /\
  Forall no_int_only exd_post /\
  Forall (fun t => valid_tx t = true) (exd_pre ++ exd_post) /\
  Forall (fun t => valid_tx t = true) (exd_pre ++ exd_split ++ map (scale_tx (q 5 2)) exd_post).
Proof.
  assert (Eq : (q 5 1 / q 2 1)%Qc = q 5 2) by (apply Qc_is_canon; reflexivity).
  assert (Hne : q 2 1 <> 0%Qc) by discriminate.
  split; [reflexivity|].
  split; [|split; [|split; [|split; [|split; [|split; [|split]]]]]].
  - repeat constructor; exists (q 5 1), (q 2 1); repeat split; auto.
  - repeat constructor; cbn; intuition; discriminate.
  - unfold exd_pre, exd_split, exd_post; cbn [app].
    repeat (apply Forall_cons; [split; [cbn; auto | reflexivity]|]). apply Forall_nil.
  - repeat constructor; cbn; discriminate.
  - repeat constructor; cbn; discriminate.
  - repeat constructor.
  - repeat constructor.
  - vm_compute. repeat constructor.
Qed.

Example C15_dec_nonvacuous :
  match run dec None (exd_pre ++ exd_post), run exact None (exd_pre ++ exd_post),
        run dec None (exd_pre ++ exd_split ++ map (scale_tx (q 5 2)) exd_post),
        run exact None (exd_pre ++ exd_split ++ map (scale_tx (q 5 2)) exd_post) with
  | (dA, None), (eA, None), (dB, None), (eB, None) =>
      length dA = 6%nat /\ length dB = 7%nat /\ in_class 1 dA eA = true /\ in_class 1 dB eB = true /\
      match nth_error dA 4, nth_error dB 5 with
      | Some a, Some b =>
          match d_gain a, d_gain b with
          | Some ga, Some gb =>
              this ga <> this gb /\
              (gb - (QcZ 5 * cR 1 + QcZ 6 * cR 1) <= ga)%Qc /\ (ga <= gb + (QcZ 5 * cR 1 + QcZ 6 * cR 1))%Qc
          | _, _ => False
          end
      | _, _ => False
      end
  | _, _, _, _ => False
  end.
Proof. vm_compute. repeat split; discriminate. Qed.
