(* C04 - Balances never go negative; histories are rejected iff impossible,
   visibly.  Obligations proved here: the row invariants (for ANY arithmetic,
   hence also for the code's rust_decimal rounding), the all-affiliate sum and
   the correctness of the rows emitted before a rejection (exact arithmetic).
   "Rejected only when impossible" is a theorem too (C04_only_listed_rejections:
   every rejection belongs to a listed class, each raised by its arm exactly on
   its stated condition; C04_ahead_rejection_is_future_oversale: the
   look-ahead rejection of a loss sale is raised exactly at a LATER sale that
   sells more than its affiliate's share ledger holds at that point).  The
   converse for whole histories ("impossible => rejected", which is how the
   arms are written) and the visibility of the message per output mode are
   decided by the decision oracle / the real binary in the check. *)
From Coq Require Import List NArith ZArith QArith Qcanon Bool.
From ACB Require Import Base.Outcome Base.QcExtra Base.Arith Model.Tx Model.Ledger Model.Sfl
     Model.DeltaList Spec.AvgCost Proofs.C01Refine Proofs.C04Inv Proofs.C04Sum Proofs.C04Reject Spec.SflRule Proofs.C02Scan Proofs.C04Ahead.
Import ListNotations.

(* No emitted row shows a negative share balance, all-affiliate balance or
   cost base; registered affiliates never show a cost base or a gain and
   non-registered ones always show a cost base.  For every arithmetic A
   (exact, or dec = bit-exact rust_decimal), every history, every outcome. *)
Theorem C04_rows_ok : forall (A : arith) init txs ds o,
  run A init txs = (ds, o) -> init_ok init -> Forall row_ok ds.
Proof. exact C04Inv.run_rows_ok. Qed.
Check C04_rows_ok : forall (A : arith) init txs ds o,
  run A init txs = (ds, o) -> init_ok init -> Forall row_ok ds.
Print Assumptions C04_rows_ok.

(* The all-affiliate balance printed on every row is the sum of the
   affiliates' latest balances (exact arithmetic), whatever the outcome. *)
Theorem C04_all_affiliate_sum : forall init txs ds o,
  run exact init txs = (ds, o) -> all_sum_ok (spec_init init) ds.
Proof. exact C04Sum.run_all_sum. Qed.
Check C04_all_affiliate_sum : forall init txs ds o,
  run exact init txs = (ds, o) -> all_sum_ok (spec_init init) ds.
Print Assumptions C04_all_affiliate_sum.

(* On rejection the rows shown are a correct prefix of the ledger: they obey
   the average-cost rules (same statement as C01, instantiated at a rejecting
   outcome). *)
Theorem C04_prefix_correct : forall init txs ds r,
  run exact init txs = (ds, Some (SRej r)) ->
  Forall (fun t => valid_tx t = true) txs ->
  map obs_of ds = spec_rows (spec_init init) (effective ds).
Proof. intros init txs ds r. exact (C01Refine.run_exact_refines_spec_valid init txs ds (Some (SRej r))). Qed.
Check C04_prefix_correct : forall init txs ds r,
  run exact init txs = (ds, Some (SRej r)) ->
  Forall (fun t => valid_tx t = true) txs ->
  map obs_of ds = spec_rows (spec_init init) (effective ds).
Print Assumptions C04_prefix_correct.

(* "A history free of these is never rejected": under exact arithmetic, when
   the registered flag is a function of the affiliate (regof) and the opening
   position is well formed, EVERY rejection of a run belongs to the classes the
   property lists - over-sale (at the row, or found ahead inside the window of
   a loss sale), return of capital above the cost base, return of capital or
   cost-base adjustment on a registered affiliate, whole-number reverse split
   leaving a fraction, declared superficial loss on a non-loss or contradicting
   the computed one.  The internal sanity rejections (all-affiliate balance
   below the affiliate's, ACB on a registered affiliate, ...) are unreachable.
   Each listed class is raised by the model exactly on its stated condition
   (by definition of the arm that raises it). *)
Theorem C04_only_listed_rejections : forall (regof : N -> bool) init txs ds r,
  regof default_id = false ->
  run exact init txs = (ds, Some (SRej r)) ->
  init_ok' init -> Forall (fun t => af_reg (t_af t) = regof (af_id (t_af t))) txs ->
  listed r.
Proof. intros regof init txs ds r Hd. exact (C04Reject.run_rej_listed regof Hd init txs ds r). Qed.
Check C04_only_listed_rejections : forall (regof : N -> bool) init txs ds r,
  regof default_id = false ->
  run exact init txs = (ds, Some (SRej r)) ->
  init_ok' init -> Forall (fun t => af_reg (t_af t) = regof (af_id (t_af t))) txs ->
  listed r.
Print Assumptions C04_only_listed_rejections.

(* What the look-ahead rejection means.  When the ledger, while looking ahead
   through the 30-day window of a loss sale t, rejects the history because a
   later sale of some affiliate cannot be covered (RejAheadAfNegative: "sale of
   more shares than the affiliate holds" found ahead), then the rows after t
   really contain such a sale: a row x = Sell n ... after some rows w1 such that
   the share ledger of x's affiliate - its balance after t (t's own shares
   removed if it is the seller), carried through w1 with purchases, sales and
   splits applied (shares_after) - is below n.  Exact arithmetic, any rows
   with positive split ratios. *)
Theorem C04_ahead_rejection_is_future_oversale : forall bef t sold aft st,
  Forall split_pos aft ->
  sfl_info exact bef t sold aft st = Rej RejAheadAfNegative ->
  exists w1 x w2 n p c r cr sp, aft = w1 ++ x :: w2 /\ t_act x = Sell n p c r cr sp /\
    (shares_after (af_id (t_af x)) (shares_after_sale st t sold (t_af x)) w1 < n)%Qc.
Proof. exact C04Ahead.ahead_af_rejection_is_future_oversale. Qed.
Check C04_ahead_rejection_is_future_oversale : forall bef t sold aft st,
  Forall split_pos aft ->
  sfl_info exact bef t sold aft st = Rej RejAheadAfNegative ->
  exists w1 x w2 n p c r cr sp, aft = w1 ++ x :: w2 /\ t_act x = Sell n p c r cr sp /\
    (shares_after (af_id (t_af x)) (shares_after_sale st t sold (t_af x)) w1 < n)%Qc.
Print Assumptions C04_ahead_rejection_is_future_oversale.

(* Non-vacuity: an over-sale after two accepted rows is rejected with the
   two rows as prefix (exact and dec). *)
Local Open Scope Z_scope.
Definition q (n : Z) (d : positive) := Qcfrac n d.
Definition mk sd a :=
  {| t_sec := 0; t_td := sd; t_sd := sd; t_act := a; t_af := default_aff; t_glob := false; t_ri := 0 |}.
Definition ex_over : list tx := [
  mk 10 (Buy (q 10 1) (q 3 1) (q 0 1) (q 1 1) (q 1 1));
  mk 20 (Sell (q 4 1) (q 5 1) (q 0 1) (q 1 1) (q 1 1) None);
  mk 30 (Sell (q 7 1) (q 5 1) (q 0 1) (q 1 1) (q 1 1) None)
].
Example C04_nonvacuous :
  snd (run exact None ex_over) = Some (SRej RejOversale) /\
  length (fst (run exact None ex_over)) = 2%nat /\
  snd (run dec None ex_over) = Some (SRej RejOversale) /\
  length (fst (run dec None ex_over)) = 2%nat.
Proof. vm_compute. repeat split. Qed.

(* non-vacuity of C04_ahead_rejection_is_future_oversale: a loss sale followed,
   inside its window, by a purchase and then a sale of more than is held *)
Definition spouse := {| af_id := 1003; af_reg := false; af_dflt := false |}.
Definition ex_ahead : list tx := [
  {| t_sec := 0; t_td := 90; t_sd := 90; t_act := Buy (q 20 1) (q 10 1) (q 0 1) (q 1 1) (q 1 1);
     t_af := spouse; t_glob := false; t_ri := 0 |};
  mk 100 (Buy (q 10 1) (q 10 1) (q 0 1) (q 1 1) (q 1 1));
  mk 110 (Sell (q 4 1) (q 5 1) (q 0 1) (q 1 1) (q 1 1) None);
  mk 115 (Buy (q 1 1) (q 5 1) (q 0 1) (q 1 1) (q 1 1));
  mk 120 (Sell (q 8 1) (q 5 1) (q 0 1) (q 1 1) (q 1 1) None)].
Example C04_ahead_nonvacuous :
  snd (run exact None ex_ahead) = Some (SRej RejAheadAfNegative) /\
  length (fst (run exact None ex_ahead)) = 2%nat.
Proof. vm_compute. split; reflexivity. Qed.
