(* C04 - Balances never go negative; histories are rejected iff impossible,
   visibly.  Obligations proved here: the row invariants (for ANY arithmetic,
   hence also for the code's rust_decimal rounding), the all-affiliate sum and
   the correctness of the rows emitted before a rejection (exact arithmetic).
   The "rejected iff impossible" equivalence and the visibility of the message
   per output mode are decided by the correspondence/oracle part of the check
   (see design.d/C04.md): they are NOT theorems yet. *)
From Coq Require Import List NArith ZArith QArith Qcanon Bool.
From ACB Require Import Base.Outcome Base.QcExtra Base.Arith Model.Tx Model.Ledger Model.Sfl
     Model.DeltaList Spec.AvgCost Proofs.C01Refine Proofs.C04Inv Proofs.C04Sum.
Import ListNotations.

(* No emitted row shows a negative share balance, all-affiliate balance or
   cost base; registered affiliates never show a cost base or a gain and
   non-registered ones always show a cost base.  For every arithmetic A
   (exact, or dec = bit-exact rust_decimal), every history, every outcome. *)
Theorem C04_rows_ok : forall (A : arith) init txs ds o,
  run A init txs = (ds, o) -> init_ok init -> Forall row_ok ds.
Proof. exact C04Inv.run_rows_ok. Qed.
Check C04_rows_ok : forall (A : arith) init txs ds o,
  run A init txs = (ds, o) -> init_ok init -> Forall row_ok ds.
Print Assumptions C04_rows_ok.

(* The all-affiliate balance printed on every row is the sum of the
   affiliates' latest balances (exact arithmetic), whatever the outcome. *)
Theorem C04_all_affiliate_sum : forall init txs ds o,
  run exact init txs = (ds, o) -> all_sum_ok (spec_init init) ds.
Proof. exact C04Sum.run_all_sum. Qed.
Check C04_all_affiliate_sum : forall init txs ds o,
  run exact init txs = (ds, o) -> all_sum_ok (spec_init init) ds.
Print Assumptions C04_all_affiliate_sum.

(* On rejection the rows shown are a correct prefix of the ledger: they obey
   the average-cost rules (same statement as C01, instantiated at a rejecting
   outcome). *)
Theorem C04_prefix_correct : forall init txs ds r,
  run exact init txs = (ds, Some (SRej r)) ->
  Forall (fun t => valid_tx t = true) txs ->
  map obs_of ds = spec_rows (spec_init init) (effective ds).
Proof. intros init txs ds r. exact (C01Refine.run_exact_refines_spec_valid init txs ds (Some (SRej r))). Qed.
Check C04_prefix_correct : forall init txs ds r,
  run exact init txs = (ds, Some (SRej r)) ->
  Forall (fun t => valid_tx t = true) txs ->
  map obs_of ds = spec_rows (spec_init init) (effective ds).
Print Assumptions C04_prefix_correct.

(* Non-vacuity: an over-sale after two accepted rows is rejected with the
   two rows as prefix (exact and dec). *)
Local Open Scope Z_scope.
Definition q (n : Z) (d : positive) := Qcfrac n d.
Definition mk sd a :=
  {| t_sec := 0; t_td := sd; t_sd := sd; t_act := a; t_af := default_aff; t_glob := false; t_ri := 0 |}.
Definition ex_over : list tx := [
  mk 10 (Buy (q 10 1) (q 3 1) (q 0 1) (q 1 1) (q 1 1));
  mk 20 (Sell (q 4 1) (q 5 1) (q 0 1) (q 1 1) (q 1 1) None);
  mk 30 (Sell (q 7 1) (q 5 1) (q 0 1) (q 1 1) (q 1 1) None)
].
Example C04_nonvacuous :
  snd (run exact None ex_over) = Some (SRej RejOversale) /\
  length (fst (run exact None ex_over)) = 2%nat /\
  snd (run dec None ex_over) = Some (SRej RejOversale) /\
  length (fst (run dec None ex_over)) = 2%nat.
Proof. vm_compute. repeat split. Qed.
