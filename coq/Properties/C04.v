(* C04 - Balances never go negative; histories are rejected iff impossible,
   visibly.  Obligations proved here: the row invariants (for ANY arithmetic,
   hence also for the code's rust_decimal rounding), the all-affiliate sum and
   the correctness of the rows emitted before a rejection (exact arithmetic).
   "Rejected only when impossible" is a theorem too (C04_only_listed_rejections:
   every rejection belongs to a listed class, each raised by its arm exactly on
   its stated condition; C04_ahead_rejection_is_future_oversale: the
   look-ahead rejection of a loss sale is raised exactly at a LATER sale that
   sells more than its affiliate's share ledger holds at that point).  The
   converse for whole histories ("impossible => rejected", which is how the
   arms are written) and the visibility of the message per output mode are
   decided by the decision oracle / the real binary in the check. *)
From Coq Require Import List NArith ZArith QArith Qcanon Bool.
From ACB Require Import Base.Outcome Base.QcExtra Base.Arith Model.Tx Model.Ledger Model.Sfl
     Model.DeltaList Spec.AvgCost Proofs.C01Refine Proofs.C04Inv Proofs.C04Sum Proofs.C04Reject Spec.SflRule Proofs.C02Scan Proofs.C04Ahead.
Import ListNotations.

(* No emitted row shows a negative share balance, all-affiliate balance or
   cost base; registered affiliates never show a cost base or a gain and
   non-registered ones always show a cost base.  For every arithmetic A
   (exact, or dec = bit-exact rust_decimal), every history, every outcome. *)
Theorem C04_rows_ok : forall (A : arith) init txs ds o,
  run A init txs = (ds, o) -> init_ok init -> Forall row_ok ds.
Proof. exact C04Inv.run_rows_ok. Qed.
Check C04_rows_ok : forall (A : arith) init txs ds o,
  run A init txs = (ds, o) -> init_ok init -> Forall row_ok ds.
Print Assumptions C04_rows_ok.

(* The all-affiliate balance printed on every row is the sum of the
   affiliates' latest balances (exact arithmetic), whatever the outcome. *)
Theorem C04_all_affiliate_sum : forall init txs ds o,
  run exact init txs = (ds, o) -> all_sum_ok (spec_init init) ds.
Proof. exact C04Sum.run_all_sum. Qed.
Check C04_all_affiliate_sum : forall init txs ds o,
  run exact init txs = (ds, o) -> all_sum_ok (spec_init init) ds.
Print Assumptions C04_all_affiliate_sum.

(* On rejection the rows shown are a correct prefix of the ledger: they obey
   the average-cost rules (same statement as C01, instantiated at a rejecting
   outcome). *)
Theorem C04_prefix_correct : forall init txs ds r,
  run exact init txs = (ds, Some (SRej r)) ->
  Forall (fun t => valid_tx t = true) txs ->
  map obs_of ds = spec_rows (spec_init init) (effective ds).
Proof. intros init txs ds r. exact (C01Refine.run_exact_refines_spec_valid init txs ds (Some (SRej r))). Qed.
Check C04_prefix_correct : forall init txs ds r,
  run exact init txs = (ds, Some (SRej r)) ->
  Forall (fun t => valid_tx t = true) txs ->
  map obs_of ds = spec_rows (spec_init init) (effective ds).
Print Assumptions C04_prefix_correct.

(* "A history free of these is never rejected": under exact arithmetic, when
   the registered flag is a function of the affiliate (regof) and the opening
   position is well formed, EVERY rejection of a run belongs to the classes the
   property lists - over-sale (at the row, or found ahead inside the window of
   a loss sale), return of capital above the cost base, return of capital or
   cost-base adjustment on a registered affiliate, whole-number reverse split
   leaving a fraction, declared superficial loss on a non-loss or contradicting
   the computed one.  The internal sanity rejections (all-affiliate balance
   below the affiliate's, ACB on a registered affiliate, ...) are unreachable.
   Each listed class is raised by the model exactly on its stated condition
   (by definition of the arm that raises it). *)
Theorem C04_only_listed_rejections : forall (regof : N -> bool) init txs ds r,
  regof default_id = false ->
  run exact init txs = (ds, Some (SRej r)) ->
  init_ok' init -> Forall (fun t => af_reg (t_af t) = regof (af_id (t_af t))) txs ->
  listed r.
Proof. intros regof init txs ds r Hd. exact (C04Reject.run_rej_listed regof Hd init txs ds r). Qed.
Check C04_only_listed_rejections : forall (regof : N -> bool) init txs ds r,
  regof default_id = false ->
  run exact init txs = (ds, Some (SRej r)) ->
  init_ok' init -> Forall (fun t => af_reg (t_af t) = regof (af_id (t_af t))) txs ->
  listed r.
Print Assumptions C04_only_listed_rejections.

(* What the look-ahead rejection means.  When the ledger, while looking ahead
   through the 30-day window of a loss sale t, rejects the history because a
   later sale of some affiliate cannot be covered (RejAheadAfNegative: "sale of
   more shares than the affiliate holds" found ahead), then the rows after t
   really contain such a sale: a row x = Sell n ... after some rows w1 such that
   the share ledger of x's affiliate - its balance after t (t's own shares
   removed if it is the seller), carried through w1 with purchases, sales and
   splits applied (shares_after) - is below n.  Exact arithmetic, any rows
   with positive split ratios. *)
Theorem C04_ahead_rejection_is_future_oversale : forall bef t sold aft st,
  Forall split_pos aft ->
  sfl_info exact bef t sold aft st = Rej RejAheadAfNegative ->
  exists w1 x w2 n p c r cr sp, aft = w1 ++ x :: w2 /\ t_act x = Sell n p c r cr sp /\
    (shares_after (af_id (t_af x)) (shares_after_sale st t sold (t_af x)) w1 < n)%Qc.
Proof. exact C04Ahead.ahead_af_rejection_is_future_oversale. Qed.
Check C04_ahead_rejection_is_future_oversale : forall bef t sold aft st,
  Forall split_pos aft ->
  sfl_info exact bef t sold aft st = Rej RejAheadAfNegative ->
  exists w1 x w2 n p c r cr sp, aft = w1 ++ x :: w2 /\ t_act x = Sell n p c r cr sp /\
    (shares_after (af_id (t_af x)) (shares_after_sale st t sold (t_af x)) w1 < n)%Qc.
Print Assumptions C04_ahead_rejection_is_future_oversale.

(* Non-vacuity: an over-sale after two accepted rows is rejected with the
   two rows as prefix (exact and dec). *)
Local Open Scope Z_scope.
Definition q (n : Z) (d : positive) := Qcfrac n d.
Definition mk sd a :=
  {| t_sec := 0; t_td := sd; t_sd := sd; t_act := a; t_af := default_aff; t_glob := false; t_ri := 0 |}.
Definition ex_over : list tx := [
  mk 10 (Buy (q 10 1) (q 3 1) (q 0 1) (q 1 1) (q 1 1));
  mk 20 (Sell (q 4 1) (q 5 1) (q 0 1) (q 1 1) (q 1 1) None);
  mk 30 (Sell (q 7 1) (q 5 1) (q 0 1) (q 1 1) (q 1 1) None)
].
Example C04_nonvacuous :
  snd (run exact None ex_over) = Some (SRej RejOversale) /\
  length (fst (run exact None ex_over)) = 2%nat /\
  snd (run dec None ex_over) = Some (SRej RejOversale) /\
  length (fst (run dec None ex_over)) = 2%nat.
Proof. vm_compute. repeat split. Qed.

(* non-vacuity of C04_ahead_rejection_is_future_oversale: a loss sale followed,
   inside its window, by a purchase and then a sale of more than is held *)
Definition spouse := {| af_id := 1003; af_reg := false; af_dflt := false |}.
Definition ex_ahead : list tx := [
  {| t_sec := 0; t_td := 90; t_sd := 90; t_act := Buy (q 20 1) (q 10 1) (q 0 1) (q 1 1) (q 1 1);
     t_af := spouse; t_glob := false; t_ri := 0 |};
  mk 100 (Buy (q 10 1) (q 10 1) (q 0 1) (q 1 1) (q 1 1));
  mk 110 (Sell (q 4 1) (q 5 1) (q 0 1) (q 1 1) (q 1 1) None);
  mk 115 (Buy (q 1 1) (q 5 1) (q 0 1) (q 1 1) (q 1 1));
  mk 120 (Sell (q 8 1) (q 5 1) (q 0 1) (q 1 1) (q 1 1) None)].
Example C04_ahead_nonvacuous :
  snd (run exact None ex_ahead) = Some (SRej RejAheadAfNegative) /\
  length (fst (run exact None ex_ahead)) = 2%nat.
Proof. vm_compute. split; reflexivity. Qed.

(* ==== "Rejected exactly when impossible", for whole histories ================
   Spec/Possible.v walks a history declaratively: it carries the affiliates'
   holdings of Spec/AvgCost.v (shares and cost base, never the ledger's state)
   and judges each row against the classes the property lists; for a sale at a
   loss the superficial part is the rule of Spec/SflRule.v.  [first_offence]
   is the index (in the input rows) and class of the first impossible
   transaction, [possible_rows] the effective rows (input rows and generated
   adjustments, with the denied amounts) before it, [rows_before .. i] those
   of the first i input rows.

   Hypotheses (what Tx::try_from and the application guarantee): the
   registered flag is a function of the affiliate id ([row_ok']; the id string
   ends with "(R)"), quantities are in range ([vtx] = valid_tx), the opening
   position is well formed ([init_ok2]), the rows are sorted by settlement
   date (approot.rs sorts them), and the run does not hit the effective-cent
   panic - the only panic possible under exact arithmetic on such rows
   (C05_exact_panics_only_at_effective_cent). *)
From Coq Require Import Sorted Lia.
From ACB Require Import Spec.Possible Proofs.C05NoPanic Proofs.C04Iff.

(* The outcome of the ledger is determined by the declarative walk.
   - No impossible transaction: accepted, and the emitted rows are the
     declaratively determined effective rows.
   - First impossible transaction at input row j, class c: rejected, by a
     listed rejection r; EITHER r is the rejection of class c and the emitted
     rows are exactly the effective rows before row j (the prefix ends before
     the offending transaction), OR r is the over-sale found ahead
     (is_ahead r): the ledger stopped at a loss sale i <= j whose 30-day
     look-ahead met a sale k >= j, settled at most 30 days after i, that
     over-sells its affiliate; the emitted rows are the effective rows before
     row i; if j = k the first impossible transaction is that over-sale,
     otherwise another impossible transaction lies between i and k; in every
     case row j settles at most 30 days after row i. *)
Theorem C04_rejection_matches_offence : forall (regof : N -> bool), regof default_id = false ->
  forall init txs ds o,
  run exact init txs = (ds, o) ->
  init_ok2 init -> Forall (row_ok' regof) txs -> Forall vtx txs -> sd_sorted txs ->
  o <> Some (SPanic (PanicConstraint Site.eff_cent)) ->
  match first_offence init txs with
  | None => o = None /\ effective ds = possible_rows init txs
  | Some (j, c) =>
      exists r, o = Some (SRej r) /\ listed r /\
        ((class_of r = Some c /\ effective ds = possible_rows init txs) \/
         (is_ahead r /\
          exists i k ti tk,
            nth_error txs i = Some ti /\ nth_error txs k = Some tk /\
            (i <= j <= k)%nat /\ (i < k)%nat /\
            is_sell (t_act ti) = true /\ is_sell (t_act tk) = true /\
            (t_sd tk <= t_sd ti + 30)%Z /\
            effective ds = rows_before init txs i /\
            (j = k -> c = OverSale) /\
            (forall tj, nth_error txs j = Some tj -> (t_sd tj <= t_sd ti + 30)%Z)))
  end.
Proof. exact C04Iff.rejection_matches_offence. Qed.
Check C04_rejection_matches_offence : forall (regof : N -> bool), regof default_id = false ->
  forall init txs ds o,
  run exact init txs = (ds, o) ->
  init_ok2 init -> Forall (row_ok' regof) txs -> Forall vtx txs -> sd_sorted txs ->
  o <> Some (SPanic (PanicConstraint Site.eff_cent)) ->
  match first_offence init txs with
  | None => o = None /\ effective ds = possible_rows init txs
  | Some (j, c) =>
      exists r, o = Some (SRej r) /\ listed r /\
        ((class_of r = Some c /\ effective ds = possible_rows init txs) \/
         (is_ahead r /\
          exists i k ti tk,
            nth_error txs i = Some ti /\ nth_error txs k = Some tk /\
            (i <= j <= k)%nat /\ (i < k)%nat /\
            is_sell (t_act ti) = true /\ is_sell (t_act tk) = true /\
            (t_sd tk <= t_sd ti + 30)%Z /\
            effective ds = rows_before init txs i /\
            (j = k -> c = OverSale) /\
            (forall tj, nth_error txs j = Some tj -> (t_sd tj <= t_sd ti + 30)%Z)))
  end.
Print Assumptions C04_rejection_matches_offence.

(* (a) rejected (by a listed rejection) exactly when the history contains an
   impossible transaction *)
Theorem C04_rejected_iff_offending : forall (regof : N -> bool), regof default_id = false ->
  forall init txs ds o,
  run exact init txs = (ds, o) ->
  init_ok2 init -> Forall (row_ok' regof) txs -> Forall vtx txs -> sd_sorted txs ->
  o <> Some (SPanic (PanicConstraint Site.eff_cent)) ->
  ((exists r, o = Some (SRej r) /\ listed r) <-> (exists j c, first_offence init txs = Some (j, c))).
Proof. exact C04Iff.rejected_iff_offending. Qed.
Check C04_rejected_iff_offending : forall (regof : N -> bool), regof default_id = false ->
  forall init txs ds o,
  run exact init txs = (ds, o) ->
  init_ok2 init -> Forall (row_ok' regof) txs -> Forall vtx txs -> sd_sorted txs ->
  o <> Some (SPanic (PanicConstraint Site.eff_cent)) ->
  ((exists r, o = Some (SRej r) /\ listed r) <-> (exists j c, first_offence init txs = Some (j, c))).
Print Assumptions C04_rejected_iff_offending.

(* (b) accepted exactly when the history is free of impossible transactions *)
Theorem C04_accepted_iff_possible : forall (regof : N -> bool), regof default_id = false ->
  forall init txs ds o,
  run exact init txs = (ds, o) ->
  init_ok2 init -> Forall (row_ok' regof) txs -> Forall vtx txs -> sd_sorted txs ->
  o <> Some (SPanic (PanicConstraint Site.eff_cent)) ->
  (o = None <-> first_offence init txs = None).
Proof. exact C04Iff.accepted_iff_possible. Qed.
Check C04_accepted_iff_possible : forall (regof : N -> bool), regof default_id = false ->
  forall init txs ds o,
  run exact init txs = (ds, o) ->
  init_ok2 init -> Forall (row_ok' regof) txs -> Forall vtx txs -> sd_sorted txs ->
  o <> Some (SPanic (PanicConstraint Site.eff_cent)) ->
  (o = None <-> first_offence init txs = None).
Print Assumptions C04_accepted_iff_possible.

(* What "the rows before row j" are: the walk emits one group per input row
   it passed - the input row itself (with its denied amount) followed by the
   cost-base adjustments generated for it (non-registered affiliates, same
   settlement date) - so [possible_rows] consists of exactly the first j input
   rows, in order, with their adjustments, and ends before input row j. *)
Theorem C04_possible_rows_are_input_rows : forall init txs,
  Forall2 group_ok (firstn (length (fst (walk (spec_init init) [] txs))) txs)
          (fst (walk (spec_init init) [] txs)).
Proof. intros init txs. exact (C04Iff.walk_groups txs (spec_init init) []). Qed.
Check C04_possible_rows_are_input_rows : forall init txs,
  Forall2 group_ok (firstn (length (fst (walk (spec_init init) [] txs))) txs)
          (fst (walk (spec_init init) [] txs)).
Print Assumptions C04_possible_rows_are_input_rows.

(* ---- non-vacuity: one accepted history, one rejected history per class, one
   over-sale reported early; each meets the hypotheses ---- *)
Definition regof_ex (id : N) : bool := N.eqb id 1002.
Definition rrsp := {| af_id := 1002; af_reg := true; af_dflt := false |}.
Definition mka af sd a :=
  {| t_sec := 0; t_td := sd; t_sd := sd; t_act := a; t_af := af; t_glob := false; t_ri := 0 |}.
Definition one := q 1 1.
Definition zero := q 0 1.
Definition hyps (h : list tx) : Prop :=
  init_ok2 None /\ Forall (row_ok' regof_ex) h /\ Forall vtx h /\ sd_sorted h.
Ltac hyps_tac :=
  split; [intros i E; discriminate E|]; split; [repeat constructor|];
  split; [repeat constructor | repeat constructor; cbn; lia].

(* accepted: a superficial loss shared between two buying affiliates *)
Definition ex_ok : list tx := [
  mka spouse 90 (Buy (q 20 1) (q 10 1) zero one one);
  mk 100 (Buy (q 10 1) (q 10 1) zero one one);
  mk 110 (Sell (q 4 1) (q 5 1) zero one one None);
  mka spouse 112 (Buy (q 3 1) (q 5 1) zero one one);
  mk 115 (Buy (q 1 1) (q 5 1) zero one one);
  mk 120 (Sell (q 3 1) (q 5 1) zero one one None);
  mk 150 (Roc one one)].
Example C04_iff_accepted_nonvacuous :
  hyps ex_ok /\ snd (run exact None ex_ok) = None /\ first_offence None ex_ok = None /\
  length (possible_rows None ex_ok) = 11%nat /\
  effective (fst (run exact None ex_ok)) = possible_rows None ex_ok.
Proof. split; [hyps_tac|]. vm_compute. repeat split. Qed.

Definition ex_roc : list tx := [mk 10 (Buy (q 10 1) (q 3 1) zero one one); mk 20 (Roc (q 5 1) one)].
Definition ex_rocreg : list tx := [mka rrsp 10 (Buy (q 10 1) (q 3 1) zero one one); mka rrsp 20 (Roc one one)].
Definition ex_sflareg : list tx := [mka rrsp 10 (Buy (q 10 1) (q 3 1) zero one one); mka rrsp 20 (Sfla one one)].
Definition ex_frac : list tx := [mk 10 (Buy (q 10 1) (q 3 1) zero one one); mk 20 (Split one (q 3 1) true)].
Definition ex_noloss : list tx := [mk 10 (Buy (q 10 1) (q 3 1) zero one one);
                                   mk 20 (Sell (q 4 1) (q 5 1) zero one one (Some (q (-1) 1, false)))].
Definition ex_mismatch : list tx := [mk 10 (Buy (q 10 1) (q 10 1) zero one one);
                                     mk 20 (Sell (q 4 1) (q 5 1) zero one one (Some (q (-1) 1, false)))].
Example C04_iff_rejected_nonvacuous :
  (hyps ex_over /\ snd (run exact None ex_over) = Some (SRej RejOversale) /\ first_offence None ex_over = Some (2%nat, OverSale)) /\
  (hyps ex_roc /\ snd (run exact None ex_roc) = Some (SRej RejRocExceeds) /\ first_offence None ex_roc = Some (1%nat, RocExceeds)) /\
  (hyps ex_rocreg /\ snd (run exact None ex_rocreg) = Some (SRej RejRocRegistered) /\ first_offence None ex_rocreg = Some (1%nat, RocRegistered)) /\
  (hyps ex_sflareg /\ snd (run exact None ex_sflareg) = Some (SRej RejSflaRegistered) /\ first_offence None ex_sflareg = Some (1%nat, SflaRegistered)) /\
  (hyps ex_frac /\ snd (run exact None ex_frac) = Some (SRej RejRevSplitFraction) /\ first_offence None ex_frac = Some (1%nat, RevSplitFraction)) /\
  (hyps ex_noloss /\ snd (run exact None ex_noloss) = Some (SRej RejSflNoLoss) /\ first_offence None ex_noloss = Some (1%nat, SflNoLoss)) /\
  (hyps ex_mismatch /\ snd (run exact None ex_mismatch) = Some (SRej RejSflMismatch) /\ first_offence None ex_mismatch = Some (1%nat, SflMismatch)).
Proof.
  repeat match goal with |- _ /\ _ => split end;
    try hyps_tac; vm_compute; reflexivity.
Qed.

(* the over-sale reported early: the ledger stops at the loss sale (input row
   2, look-ahead rejection), the first impossible transaction is the over-sale
   at input row 4, ten days of settlement later; two rows are emitted *)
Example C04_iff_early_report_nonvacuous :
  hyps ex_ahead /\ snd (run exact None ex_ahead) = Some (SRej RejAheadAfNegative) /\
  first_offence None ex_ahead = Some (4%nat, OverSale) /\
  effective (fst (run exact None ex_ahead)) = rows_before None ex_ahead 2.
Proof. split; [hyps_tac|]. vm_compute. repeat split. Qed.
