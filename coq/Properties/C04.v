(* C04 - Balances never go negative; histories are rejected iff impossible,
   visibly.  Obligations proved here: the row invariants (for ANY arithmetic,
   hence also for the code's rust_decimal rounding), the all-affiliate sum and
   the correctness of the rows emitted before a rejection (exact arithmetic).
   "Rejected only when impossible" is a theorem too (C04_only_listed_rejections:
   every rejection belongs to a listed class, each raised by its arm exactly on
   its stated condition; C04_ahead_rejection_is_future_oversale: the
   look-ahead rejection of a loss sale is raised exactly at a LATER sale that
   sells more than its affiliate's share ledger holds at that point).  The
   converse for whole histories ("impossible => rejected", which is how the
   arms are written) and the visibility of the message per output mode are
   decided by the decision oracle / the real binary in the check. *)
From Coq Require Import List NArith ZArith QArith Qcanon Bool.
From ACB Require Import Base.Outcome Base.QcExtra Base.Arith Model.Tx Model.Ledger Model.Sfl
     Model.DeltaList Spec.AvgCost Proofs.C01Refine Proofs.C04Inv Proofs.C04Sum Proofs.C04Reject Spec.SflRule Proofs.C02Scan Proofs.C04Ahead.
Import ListNotations.

(* No emitted row shows a negative share balance, all-affiliate balance or
   cost base; registered affiliates never show a cost base or a gain and
   non-registered ones always show a cost base.  For every arithmetic A
   (exact, or dec = bit-exact rust_decimal), every history, every outcome. *)
Theorem C04_rows_ok : forall (A : arith) init txs ds o,
  run A init txs = (ds, o) -> init_ok init -> Forall row_ok ds.
Proof. exact C04Inv.run_rows_ok. Qed.
Check C04_rows_ok : forall (A : arith) init txs ds o,
  run A init txs = (ds, o) -> init_ok init -> Forall row_ok ds.
Print Assumptions C04_rows_ok.

(* The all-affiliate balance printed on every row is the sum of the
   affiliates' latest balances (exact arithmetic), whatever the outcome. *)
Theorem C04_all_affiliate_sum : forall init txs ds o,
  run exact init txs = (ds, o) -> all_sum_ok (spec_init init) ds.
Proof. exact C04Sum.run_all_sum. Qed.
Check C04_all_affiliate_sum : forall init txs ds o,
  run exact init txs = (ds, o) -> all_sum_ok (spec_init init) ds.
Print Assumptions C04_all_affiliate_sum.

(* On rejection the rows shown are a correct prefix of the ledger: they obey
   the average-cost rules (same statement as C01, instantiated at a rejecting
   outcome). *)
Theorem C04_prefix_correct : forall init txs ds r,
  run exact init txs = (ds, Some (SRej r)) ->
  Forall (fun t => valid_tx t = true) txs ->
  map obs_of ds = spec_rows (spec_init init) (effective ds).
Proof. intros init txs ds r. exact (C01Refine.run_exact_refines_spec_valid init txs ds (Some (SRej r))). Qed.
Check C04_prefix_correct : forall init txs ds r,
  run exact init txs = (ds, Some (SRej r)) ->
  Forall (fun t => valid_tx t = true) txs ->
  map obs_of ds = spec_rows (spec_init init) (effective ds).
Print Assumptions C04_prefix_correct.

(* "A history free of these is never rejected": under exact arithmetic, when
   the registered flag is a function of the affiliate (regof) and the opening
   position is well formed, EVERY rejection of a run belongs to the classes the
   property lists - over-sale (at the row, or found ahead inside the window of
   a loss sale), return of capital above the cost base, return of capital or
   cost-base adjustment on a registered affiliate, whole-number reverse split
   leaving a fraction, declared superficial loss on a non-loss or contradicting
   the computed one.  The internal sanity rejections (all-affiliate balance
   below the affiliate's, ACB on a registered affiliate, ...) are unreachable.
   Each listed class is raised by the model exactly on its stated condition
   (by definition of the arm that raises it). *)
Theorem C04_only_listed_rejections : forall (regof : N -> bool) init txs ds r,
  regof default_id = false ->
  run exact init txs = (ds, Some (SRej r)) ->
  init_ok' init -> Forall (fun t => af_reg (t_af t) = regof (af_id (t_af t))) txs ->
  listed r.
Proof. intros regof init txs ds r Hd. exact (C04Reject.run_rej_listed regof Hd init txs ds r). Qed.
Check C04_only_listed_rejections : forall (regof : N -> bool) init txs ds r,
  regof default_id = false ->
  run exact init txs = (ds, Some (SRej r)) ->
  init_ok' init -> Forall (fun t => af_reg (t_af t) = regof (af_id (t_af t))) txs ->
  listed r.
Print Assumptions C04_only_listed_rejections.

(* What the look-ahead rejection means.  When the ledger, while looking ahead
   through the 30-day window of a loss sale t, rejects the history because a
   later sale of some affiliate cannot be covered (RejAheadAfNegative: "sale of
   more shares than the affiliate holds" found ahead), then the rows after t
   really contain such a sale: a row x = Sell n ... after some rows w1 such that
   the share ledger of x's affiliate - its balance after t (t's own shares
   removed if it is the seller), carried through w1 with purchases, sales and
   splits applied (shares_after) - is below n.  Exact arithmetic, any rows
   with positive split ratios. *)
Theorem C04_ahead_rejection_is_future_oversale : forall bef t sold aft st,
  Forall split_pos aft ->
  sfl_info exact bef t sold aft st = Rej RejAheadAfNegative ->
  exists w1 x w2 n p c r cr sp, aft = w1 ++ x :: w2 /\ t_act x = Sell n p c r cr sp /\
    (shares_after (af_id (t_af x)) (shares_after_sale st t sold (t_af x)) w1 < n)%Qc.
Proof. exact C04Ahead.ahead_af_rejection_is_future_oversale. Qed.
Check C04_ahead_rejection_is_future_oversale : forall bef t sold aft st,
  Forall split_pos aft ->
  sfl_info exact bef t sold aft st = Rej RejAheadAfNegative ->
  exists w1 x w2 n p c r cr sp, aft = w1 ++ x :: w2 /\ t_act x = Sell n p c r cr sp /\
    (shares_after (af_id (t_af x)) (shares_after_sale st t sold (t_af x)) w1 < n)%Qc.
Print Assumptions C04_ahead_rejection_is_future_oversale.

(* Non-vacuity: an over-sale after two accepted rows is rejected with the
   two rows as prefix (exact and dec). *)
Local Open Scope Z_scope.
Definition q (n : Z) (d : positive) := Qcfrac n d.
Definition mk sd a :=
  {| t_sec := 0; t_td := sd; t_sd := sd; t_act := a; t_af := default_aff; t_glob := false; t_ri := 0 |}.
Definition ex_over : list tx := [
  mk 10 (Buy (q 10 1) (q 3 1) (q 0 1) (q 1 1) (q 1 1));
  mk 20 (Sell (q 4 1) (q 5 1) (q 0 1) (q 1 1) (q 1 1) None);
  mk 30 (Sell (q 7 1) (q 5 1) (q 0 1) (q 1 1) (q 1 1) None)
].
Example C04_nonvacuous :
  snd (run exact None ex_over) = Some (SRej RejOversale) /\
  length (fst (run exact None ex_over)) = 2%nat /\
  snd (run dec None ex_over) = Some (SRej RejOversale) /\
  length (fst (run dec None ex_over)) = 2%nat.
Proof. vm_compute. repeat split. Qed.

(* non-vacuity of C04_ahead_rejection_is_future_oversale: a loss sale followed,
   inside its window, by a purchase and then a sale of more than is held *)
Definition spouse := {| af_id := 1003; af_reg := false; af_dflt := false |}.
Definition ex_ahead : list tx := [
  {| t_sec := 0; t_td := 90; t_sd := 90; t_act := Buy (q 20 1) (q 10 1) (q 0 1) (q 1 1) (q 1 1);
     t_af := spouse; t_glob := false; t_ri := 0 |};
  mk 100 (Buy (q 10 1) (q 10 1) (q 0 1) (q 1 1) (q 1 1));
  mk 110 (Sell (q 4 1) (q 5 1) (q 0 1) (q 1 1) (q 1 1) None);
  mk 115 (Buy (q 1 1) (q 5 1) (q 0 1) (q 1 1) (q 1 1));
  mk 120 (Sell (q 8 1) (q 5 1) (q 0 1) (q 1 1) (q 1 1) None)].
Example C04_ahead_nonvacuous :
  snd (run exact None ex_ahead) = Some (SRej RejAheadAfNegative) /\
  length (fst (run exact None ex_ahead)) = 2%nat.
Proof. vm_compute. split; reflexivity. Qed.

(* ==== "Rejected exactly when impossible", for whole histories ================
   Spec/Possible.v walks a history declaratively: it carries the affiliates'
   holdings of Spec/AvgCost.v (shares and cost base, never the ledger's state)
   and judges each row against the classes the property lists; for a sale at a
   loss the superficial part is the rule of Spec/SflRule.v.  [first_offence]
   is the index (in the input rows) and class of the first impossible
   transaction, [possible_rows] the effective rows (input rows and generated
   adjustments, with the denied amounts) before it, [rows_before .. i] those
   of the first i input rows.

   Hypotheses (what Tx::try_from and the application guarantee): the
   registered flag is a function of the affiliate id ([row_ok']; the id string
   ends with "(R)"), quantities are in range ([vtx] = valid_tx), the opening
   position is well formed ([init_ok2]), the rows are sorted by settlement
   date (approot.rs sorts them).  (Until the fix "treat a superficial loss
   that rounds to zero effective cents as no superficial loss" the statements
   carried the hypothesis that the run does not hit the effective-cent panic;
   such runs are now accepted, no panic is possible under exact arithmetic on
   such rows (C05_exact_never_panics), and the walk of Spec/Possible.v says
   what they report: a denied amount that rounds to zero effective cents is
   no superficial loss - nothing denied, no adjustment rows.) *)
From Coq Require Import Sorted Lia.
From ACB Require Import Spec.Possible Proofs.C05NoPanic Proofs.C04Iff.

(* The outcome of the ledger is determined by the declarative walk.
   - No impossible transaction: accepted, and the emitted rows are the
     declaratively determined effective rows.
   - First impossible transaction at input row j, class c: rejected, by a
     listed rejection r; EITHER r is the rejection of class c and the emitted
     rows are exactly the effective rows before row j (the prefix ends before
     the offending transaction), OR r is the over-sale found ahead
     (is_ahead r): the ledger stopped at a loss sale i <= j whose 30-day
     look-ahead met a sale k >= j, settled at most 30 days after i, that
     over-sells its affiliate; the emitted rows are the effective rows before
     row i; if j = k the first impossible transaction is that over-sale,
     otherwise another impossible transaction lies between i and k; in every
     case row j settles at most 30 days after row i. *)
Theorem C04_rejection_matches_offence : forall (regof : N -> bool), regof default_id = false ->
  forall init txs ds o,
  run exact init txs = (ds, o) ->
  init_ok2 init -> Forall (row_ok' regof) txs -> Forall vtx txs -> sd_sorted txs ->
  match first_offence init txs with
  | None => o = None /\ effective ds = possible_rows init txs
  | Some (j, c) =>
      exists r, o = Some (SRej r) /\ listed r /\
        ((class_of r = Some c /\ effective ds = possible_rows init txs) \/
         (is_ahead r /\
          exists i k ti tk,
            nth_error txs i = Some ti /\ nth_error txs k = Some tk /\
            (i <= j <= k)%nat /\ (i < k)%nat /\
            is_sell (t_act ti) = true /\ is_sell (t_act tk) = true /\
            (t_sd tk <= t_sd ti + 30)%Z /\
            effective ds = rows_before init txs i /\
            (j = k -> c = OverSale) /\
            (forall tj, nth_error txs j = Some tj -> (t_sd tj <= t_sd ti + 30)%Z)))
  end.
Proof. exact C04Iff.rejection_matches_offence. Qed.
Check C04_rejection_matches_offence : forall (regof : N -> bool), regof default_id = false ->
  forall init txs ds o,
  run exact init txs = (ds, o) ->
  init_ok2 init -> Forall (row_ok' regof) txs -> Forall vtx txs -> sd_sorted txs ->
  match first_offence init txs with
  | None => o = None /\ effective ds = possible_rows init txs
  | Some (j, c) =>
      exists r, o = Some (SRej r) /\ listed r /\
        ((class_of r = Some c /\ effective ds = possible_rows init txs) \/
         (is_ahead r /\
          exists i k ti tk,
            nth_error txs i = Some ti /\ nth_error txs k = Some tk /\
            (i <= j <= k)%nat /\ (i < k)%nat /\
            is_sell (t_act ti) = true /\ is_sell (t_act tk) = true /\
            (t_sd tk <= t_sd ti + 30)%Z /\
            effective ds = rows_before init txs i /\
            (j = k -> c = OverSale) /\
            (forall tj, nth_error txs j = Some tj -> (t_sd tj <= t_sd ti + 30)%Z)))
  end.
Print Assumptions C04_rejection_matches_offence.

(* (a) rejected (by a listed rejection) exactly when the history contains an
   impossible transaction *)
Theorem C04_rejected_iff_offending : forall (regof : N -> bool), regof default_id = false ->
  forall init txs ds o,
  run exact init txs = (ds, o) ->
  init_ok2 init -> Forall (row_ok' regof) txs -> Forall vtx txs -> sd_sorted txs ->
  ((exists r, o = Some (SRej r) /\ listed r) <-> (exists j c, first_offence init txs = Some (j, c))).
Proof. exact C04Iff.rejected_iff_offending. Qed.
Check C04_rejected_iff_offending : forall (regof : N -> bool), regof default_id = false ->
  forall init txs ds o,
  run exact init txs = (ds, o) ->
  init_ok2 init -> Forall (row_ok' regof) txs -> Forall vtx txs -> sd_sorted txs ->
  ((exists r, o = Some (SRej r) /\ listed r) <-> (exists j c, first_offence init txs = Some (j, c))).
Print Assumptions C04_rejected_iff_offending.

(* (b) accepted exactly when the history is free of impossible transactions *)
Theorem C04_accepted_iff_possible : forall (regof : N -> bool), regof default_id = false ->
  forall init txs ds o,
  run exact init txs = (ds, o) ->
  init_ok2 init -> Forall (row_ok' regof) txs -> Forall vtx txs -> sd_sorted txs ->
  (o = None <-> first_offence init txs = None).
Proof. exact C04Iff.accepted_iff_possible. Qed.
Check C04_accepted_iff_possible : forall (regof : N -> bool), regof default_id = false ->
  forall init txs ds o,
  run exact init txs = (ds, o) ->
  init_ok2 init -> Forall (row_ok' regof) txs -> Forall vtx txs -> sd_sorted txs ->
  (o = None <-> first_offence init txs = None).
Print Assumptions C04_accepted_iff_possible.

(* What "the rows before row j" are: the walk emits one group per input row
   it passed - the input row itself (with its denied amount) followed by the
   cost-base adjustments generated for it (non-registered affiliates, same
   settlement date) - so [possible_rows] consists of exactly the first j input
   rows, in order, with their adjustments, and ends before input row j. *)
Theorem C04_possible_rows_are_input_rows : forall init txs,
  Forall2 group_ok (firstn (length (fst (walk (spec_init init) [] txs))) txs)
          (fst (walk (spec_init init) [] txs)).
Proof. intros init txs. exact (C04Iff.walk_groups txs (spec_init init) []). Qed.
Check C04_possible_rows_are_input_rows : forall init txs,
  Forall2 group_ok (firstn (length (fst (walk (spec_init init) [] txs))) txs)
          (fst (walk (spec_init init) [] txs)).
Print Assumptions C04_possible_rows_are_input_rows.

(* ---- non-vacuity: one accepted history, one rejected history per class, one
   over-sale reported early; each meets the hypotheses ---- *)
Definition regof_ex (id : N) : bool := N.eqb id 1002.
Definition rrsp := {| af_id := 1002; af_reg := true; af_dflt := false |}.
Definition mka af sd a :=
  {| t_sec := 0; t_td := sd; t_sd := sd; t_act := a; t_af := af; t_glob := false; t_ri := 0 |}.
Definition one := q 1 1.
Definition zero := q 0 1.
Definition hyps (h : list tx) : Prop :=
  init_ok2 None /\ Forall (row_ok' regof_ex) h /\ Forall vtx h /\ sd_sorted h.
Ltac hyps_tac :=
  split; [intros i E; discriminate E|]; split; [repeat constructor|];
  split; [repeat constructor | repeat constructor; cbn; lia].

(* accepted: a superficial loss shared between two buying affiliates *)
Definition ex_ok : list tx := [
  mka spouse 90 (Buy (q 20 1) (q 10 1) zero one one);
  mk 100 (Buy (q 10 1) (q 10 1) zero one one);
  mk 110 (Sell (q 4 1) (q 5 1) zero one one None);
  mka spouse 112 (Buy (q 3 1) (q 5 1) zero one one);
  mk 115 (Buy (q 1 1) (q 5 1) zero one one);
  mk 120 (Sell (q 3 1) (q 5 1) zero one one None);
  mk 150 (Roc one one)].
Example C04_iff_accepted_nonvacuous :
  hyps ex_ok /\ snd (run exact None ex_ok) = None /\ first_offence None ex_ok = None /\
  length (possible_rows None ex_ok) = 11%nat /\
  effective (fst (run exact None ex_ok)) = possible_rows None ex_ok.
Proof. split; [hyps_tac|]. vm_compute. repeat split. Qed.

Definition ex_roc : list tx := [mk 10 (Buy (q 10 1) (q 3 1) zero one one); mk 20 (Roc (q 5 1) one)].
Definition ex_rocreg : list tx := [mka rrsp 10 (Buy (q 10 1) (q 3 1) zero one one); mka rrsp 20 (Roc one one)].
Definition ex_sflareg : list tx := [mka rrsp 10 (Buy (q 10 1) (q 3 1) zero one one); mka rrsp 20 (Sfla one one)].
Definition ex_frac : list tx := [mk 10 (Buy (q 10 1) (q 3 1) zero one one); mk 20 (Split one (q 3 1) true)].
Definition ex_noloss : list tx := [mk 10 (Buy (q 10 1) (q 3 1) zero one one);
                                   mk 20 (Sell (q 4 1) (q 5 1) zero one one (Some (q (-1) 1, false)))].
Definition ex_mismatch : list tx := [mk 10 (Buy (q 10 1) (q 10 1) zero one one);
                                     mk 20 (Sell (q 4 1) (q 5 1) zero one one (Some (q (-1) 1, false)))].
Example C04_iff_rejected_nonvacuous :
  (hyps ex_over /\ snd (run exact None ex_over) = Some (SRej RejOversale) /\ first_offence None ex_over = Some (2%nat, OverSale)) /\
  (hyps ex_roc /\ snd (run exact None ex_roc) = Some (SRej RejRocExceeds) /\ first_offence None ex_roc = Some (1%nat, RocExceeds)) /\
  (hyps ex_rocreg /\ snd (run exact None ex_rocreg) = Some (SRej RejRocRegistered) /\ first_offence None ex_rocreg = Some (1%nat, RocRegistered)) /\
  (hyps ex_sflareg /\ snd (run exact None ex_sflareg) = Some (SRej RejSflaRegistered) /\ first_offence None ex_sflareg = Some (1%nat, SflaRegistered)) /\
  (hyps ex_frac /\ snd (run exact None ex_frac) = Some (SRej RejRevSplitFraction) /\ first_offence None ex_frac = Some (1%nat, RevSplitFraction)) /\
  (hyps ex_noloss /\ snd (run exact None ex_noloss) = Some (SRej RejSflNoLoss) /\ first_offence None ex_noloss = Some (1%nat, SflNoLoss)) /\
  (hyps ex_mismatch /\ snd (run exact None ex_mismatch) = Some (SRej RejSflMismatch) /\ first_offence None ex_mismatch = Some (1%nat, SflMismatch)).
Proof.
  repeat match goal with |- _ /\ _ => split end;
    try hyps_tac; vm_compute; reflexivity.
Qed.

(* the over-sale reported early: the ledger stops at the loss sale (input row
   2, look-ahead rejection), the first impossible transaction is the over-sale
   at input row 4, ten days of settlement later; two rows are emitted *)
Example C04_iff_early_report_nonvacuous :
  hyps ex_ahead /\ snd (run exact None ex_ahead) = Some (SRej RejAheadAfNegative) /\
  first_offence None ex_ahead = Some (4%nat, OverSale) /\
  effective (fst (run exact None ex_ahead)) = rows_before None ex_ahead 2.
Proof. split; [hyps_tac|]. vm_compute. repeat split. Qed.

(* ==== The output layer: what the writers make of the render model ============
   Model/Output.v models app/outfmt/{csv,text}.rs and approot.rs
   write_render_result over the render model (RenderTable: header, rows,
   footer, notes, errors); Proofs/OutputProps.v proves what reaches the files
   of --csv-output-dir and standard output.  Hypotheses about the world
   (design.d/C04-output.md): a file holds what was written to it since its
   File::create; the csv crate writes a record so that a CSV reader recovers
   its fields; writes to standard output succeed. *)
From Coq Require Import Permutation.
From ACB Require Import Model.CsvFields Model.App Model.Gains Model.Render Model.Output Proofs.RenderProps Proofs.OutputProps.
Local Open Scope N_scope.

(* Every error of every security table reaches the user in every output mode.
   For ANY AppRenderResult r (ar_secs = the HashMap of tables, keys distinct),
   any security s with table t and any error message e of t:
   (i) e is in the render model (the table found under s);
   (ii) --csv-output-dir, started on any directory d0, when the run succeeds and
        s's file is not one of the report files written later (tail_files:
        aggregate-gains.csv, total-costs.csv, yearly-max-costs.csv - see
        C04_reserved_name_refuted): the file <s>.csv holds the record
        ("[!] " ++ e, "", ..., "") (as many fields as the header);
   (iii) text mode, when the run succeeds: the section titled
        "Transactions for <s>" carries e, and "[!] <e>" is a line of stdout;
   (iv) s is in the closing list *)
Theorem C04_error_visible_every_mode : forall r s t e,
  NoDup (map fst (ar_secs r)) -> In (s, t) (ar_secs r) -> In e (rt_errors t) ->
  (blookup s (ar_secs r) = Some t /\ In e (rt_errors t)) /\
  (forall d0, ro_fail (csv_dir_output d0 r) = None -> ~ In (file_name OTransactions s) (tail_files r) ->
     exists recs, blookup (file_name OTransactions s) (ro_state (csv_dir_output d0 r)) = Some (EFile recs) /\
                  In (pad_record (length (rt_header t)) (lit s_bang ++ e)) recs) /\
  (ro_fail (text_output r) = None ->
     In (text_section OTransactions s t) (ro_state (text_output r)) /\
     In e (sc_errors (text_section OTransactions s t)) /\
     sc_title (text_section OTransactions s t) = [PLit s_transactions_for; PLit s] /\
     In (TLine (lit s_bang ++ e)) (text_stdout r)) /\
  In s (errsecs_of r).
Proof. exact OutputProps.error_visible_every_mode. Qed.
Check C04_error_visible_every_mode : forall r s t e,
  NoDup (map fst (ar_secs r)) -> In (s, t) (ar_secs r) -> In e (rt_errors t) ->
  (blookup s (ar_secs r) = Some t /\ In e (rt_errors t)) /\
  (forall d0, ro_fail (csv_dir_output d0 r) = None -> ~ In (file_name OTransactions s) (tail_files r) ->
     exists recs, blookup (file_name OTransactions s) (ro_state (csv_dir_output d0 r)) = Some (EFile recs) /\
                  In (pad_record (length (rt_header t)) (lit s_bang ++ e)) recs) /\
  (ro_fail (text_output r) = None ->
     In (text_section OTransactions s t) (ro_state (text_output r)) /\
     In e (sc_errors (text_section OTransactions s t)) /\
     sc_title (text_section OTransactions s t) = [PLit s_transactions_for; PLit s] /\
     In (TLine (lit s_bang ++ e)) (text_stdout r)) /\
  In s (errsecs_of r).
Print Assumptions C04_error_visible_every_mode.

(* The closing list names exactly the securities whose table carries an error,
   each once, in String order (bytewise), whatever the order of the map (C09) *)
Theorem C04_closing_list_exact : forall r,
  NoDup (map fst (ar_secs r)) ->
  Sorted.StronglySorted bytes_le (errsecs_of r) /\ NoDup (errsecs_of r) /\
  forall s, In s (errsecs_of r) <-> exists t, In (s, t) (ar_secs r) /\ rt_errors t <> [].
Proof. exact OutputProps.closing_list_spec. Qed.
Check C04_closing_list_exact : forall r,
  NoDup (map fst (ar_secs r)) ->
  Sorted.StronglySorted bytes_le (errsecs_of r) /\ NoDup (errsecs_of r) /\
  forall s, In s (errsecs_of r) <-> exists t, In (s, t) (ar_secs r) /\ rt_errors t <> [].
Print Assumptions C04_closing_list_exact.

(* ... and that list is what standard output ends with in both modes: nothing
   when it is empty, else an empty line and
   "[!] There are errors for the following securities: A, B" *)
Theorem C04_closing_line_every_mode : forall r,
  (forall d0, ro_fail (csv_dir_output d0 r) = None -> csv_dir_stdout d0 r = closing_items (errsecs_of r)) /\
  (ro_fail (text_output r) = None -> exists body, text_stdout r = body ++ closing_items (errsecs_of r)).
Proof. exact OutputProps.closing_line_every_mode. Qed.
Check C04_closing_line_every_mode : forall r,
  (forall d0, ro_fail (csv_dir_output d0 r) = None -> csv_dir_stdout d0 r = closing_items (errsecs_of r)) /\
  (ro_fail (text_output r) = None -> exists body, text_stdout r = body ++ closing_items (errsecs_of r)).
Print Assumptions C04_closing_line_every_mode.

(* The whole pipeline (ledger -> gains -> render, Model/Render.v render_app, any
   arithmetic) hands the writers tables they accept: every row and footer has
   the 16 (2) fields of its header, so neither the csv crate's equal-length
   check nor the column arithmetic of the text writer can stop the run
   (costs tables, rendered outside Model/Render.v, assumed rectangular) *)
Theorem C04_pipeline_writers_succeed : forall (A : arith) full cur inits rows rep secname errmsg costs d0,
  render_app A full cur inits rows = Ok rep -> costs_rect costs ->
  match costs with Some (a, b) => rt_header a <> [] /\ rt_header b <> [] | None => True end ->
  no_blocked d0 ->
  ro_fail (csv_dir_output d0 (app_of_report secname errmsg costs rep)) = None /\
  ro_fail (text_output (app_of_report secname errmsg costs rep)) = None.
Proof. exact OutputProps.pipeline_writers_succeed. Qed.
Check C04_pipeline_writers_succeed : forall (A : arith) full cur inits rows rep secname errmsg costs d0,
  render_app A full cur inits rows = Ok rep -> costs_rect costs ->
  match costs with Some (a, b) => rt_header a <> [] /\ rt_header b <> [] | None => True end ->
  no_blocked d0 ->
  ro_fail (csv_dir_output d0 (app_of_report secname errmsg costs rep)) = None /\
  ro_fail (text_output (app_of_report secname errmsg costs rep)) = None.
Print Assumptions C04_pipeline_writers_succeed.

(* ... and for a security the ledger rejects (stop = SRej e) the message
   (errmsg s: the text of err_msg is not modelled) is in its table, in its
   file, in its text section, and its name in the closing list.  secname: the
   securities' names (distinct) *)
Theorem C04_pipeline_error_visible : forall (A : arith) full cur inits rows rep secname errmsg costs s e tb,
  (forall a b, secname a = secname b -> a = b) ->
  render_app A full cur inits rows = Ok rep ->
  In (s, Some (SRej e), tb) (rp_tables rep) ->
  let r := app_of_report secname errmsg costs rep in
  let t := rtable_of_table tb [errmsg s] in
  In (secname s, t) (ar_secs r) /\ rt_errors t = [errmsg s] /\
  (forall d0, ro_fail (csv_dir_output d0 r) = None -> ~ In (file_name OTransactions (secname s)) (tail_files r) ->
     exists recs, blookup (file_name OTransactions (secname s)) (ro_state (csv_dir_output d0 r)) = Some (EFile recs) /\
                  In (pad_record 16 (lit s_bang ++ errmsg s)) recs) /\
  (ro_fail (text_output r) = None ->
     In (text_section OTransactions (secname s) t) (ro_state (text_output r)) /\
     In (TLine (lit s_bang ++ errmsg s)) (text_stdout r)) /\
  In (secname s) (errsecs_of r).
Proof. exact OutputProps.pipeline_error_visible. Qed.
Check C04_pipeline_error_visible : forall (A : arith) full cur inits rows rep secname errmsg costs s e tb,
  (forall a b, secname a = secname b -> a = b) ->
  render_app A full cur inits rows = Ok rep ->
  In (s, Some (SRej e), tb) (rp_tables rep) ->
  let r := app_of_report secname errmsg costs rep in
  let t := rtable_of_table tb [errmsg s] in
  In (secname s, t) (ar_secs r) /\ rt_errors t = [errmsg s] /\
  (forall d0, ro_fail (csv_dir_output d0 r) = None -> ~ In (file_name OTransactions (secname s)) (tail_files r) ->
     exists recs, blookup (file_name OTransactions (secname s)) (ro_state (csv_dir_output d0 r)) = Some (EFile recs) /\
                  In (pad_record 16 (lit s_bang ++ errmsg s)) recs) /\
  (ro_fail (text_output r) = None ->
     In (text_section OTransactions (secname s) t) (ro_state (text_output r)) /\
     In (TLine (lit s_bang ++ errmsg s)) (text_stdout r)) /\
  In (secname s) (errsecs_of r).
Print Assumptions C04_pipeline_error_visible.

(* The rejected security is left out of every capital-gain total (exact
   arithmetic): the footer of its table - which the writers copy, C06_csv_dir_is_render_model -
   is "Total" / "$0" without years, and the aggregate table renders the
   aggregate of the gains records of the error-free securities only
   (gs holds None for a stopped security; some_gains drops them) *)
Theorem C04_rejected_security_no_totals : forall full cur inits rows rep,
  render_app exact full cur inits rows = Ok rep ->
  (forall s st tb, In (s, Some st, tb) (rp_tables rep) ->
     tb_labels tb = [LTotal] /\ tb_values tb = [pm_value full 0%Qc false] /\
     footer_cells tb = repeat [] 8%nat ++ [[PLit s_total]; pm_pieces (pm_value full 0%Qc false)] ++ repeat [] 6%nat) /\
  exists secs gs agg,
    run_app exact inits rows = Ok secs /\
    Forall2 (fun (x : sec_result) og =>
               match snd (snd x) with
               | None => exists g, security_gains exact gains0 (gain_rows (fst (snd x))) = Ok g /\ og = Some g
               | Some _ => og = None
               end) secs gs /\
    aggregate exact gains0 (some_gains gs) = Ok agg /\
    render_aggregate exact full agg = Ok (rp_aggregate rep).
Proof. exact OutputProps.pipeline_rejected_no_totals. Qed.
Check C04_rejected_security_no_totals : forall full cur inits rows rep,
  render_app exact full cur inits rows = Ok rep ->
  (forall s st tb, In (s, Some st, tb) (rp_tables rep) ->
     tb_labels tb = [LTotal] /\ tb_values tb = [pm_value full 0%Qc false] /\
     footer_cells tb = repeat [] 8%nat ++ [[PLit s_total]; pm_pieces (pm_value full 0%Qc false)] ++ repeat [] 6%nat) /\
  exists secs gs agg,
    run_app exact inits rows = Ok secs /\
    Forall2 (fun (x : sec_result) og =>
               match snd (snd x) with
               | None => exists g, security_gains exact gains0 (gain_rows (fst (snd x))) = Ok g /\ og = Some g
               | Some _ => og = None
               end) secs gs /\
    aggregate exact gains0 (some_gains gs) = Ok agg /\
    render_aggregate exact full agg = Ok (rp_aggregate rep).
Print Assumptions C04_rejected_security_no_totals.

(* The exception of (ii).  A security whose name is that of a report file
   ("aggregate-gains"; "total-costs" / "yearly-max-costs" with --total-costs)
   shares its file with that report, which is written later and replaces it
   (File::create truncates): its error message reaches no file.  Witness: one
   rejected security named "aggregate-gains" (replayed on the real binary by
   the check: known finding reserved-file-name). *)
Definition ex_t2 (rows : list record) (errs : list text) : rtable :=
  {| rt_header := [lit [72]; lit [73]]; rt_rows := rows; rt_footer := []; rt_notes := []; rt_errors := errs |}.
Definition ex_agg_name : bytes := [97; 103; 103; 114; 101; 103; 97; 116; 101; 45; 103; 97; 105; 110; 115]%N.   (* "aggregate-gains" *)
Definition ex_reserved : app_result :=
  {| ar_secs := [(ex_agg_name, ex_t2 [] [lit [98; 111; 111; 109]])];
     ar_agg := ex_t2 [[lit [49]; lit [50]]] []; ar_costs := None |}.
(* refuted for reserved names *)
Theorem C04_reserved_name_refuted : exists r s t e,
  NoDup (map fst (ar_secs r)) /\ In (s, t) (ar_secs r) /\ In e (rt_errors t) /\
  ro_fail (csv_dir_output [] r) = None /\
  forall fn recs, blookup fn (ro_state (csv_dir_output [] r)) = Some (EFile recs) ->
                  ~ In (pad_record (length (rt_header t)) (lit s_bang ++ e)) recs.
Proof. 
  exists ex_reserved, ex_agg_name, (ex_t2 [] [lit [98; 111; 111; 109]%N]), (lit [98; 111; 111; 109]%N).
  split; [repeat constructor; intros []|]. split; [left; reflexivity|]. split; [left; reflexivity|].
  split; [vm_compute; reflexivity|].
  assert (E : ro_state (csv_dir_output [] ex_reserved)
              = [(s_aggregate_gains_csv, EFile [[lit [72]; lit [73]]; [lit [49]; lit [50]]])]%N) by (vm_compute; reflexivity).
  intros fn recs H. rewrite E in H. cbn [blookup] in H.
  destruct (beqb s_aggregate_gains_csv fn); [|discriminate H]. inversion H; subst. clear H.
  intros [H|[H|[]]]; vm_compute in H; discriminate H.
 Qed.
Check C04_reserved_name_refuted : exists r s t e,
  NoDup (map fst (ar_secs r)) /\ In (s, t) (ar_secs r) /\ In e (rt_errors t) /\
  ro_fail (csv_dir_output [] r) = None /\
  forall fn recs, blookup fn (ro_state (csv_dir_output [] r)) = Some (EFile recs) ->
                  ~ In (pad_record (length (rt_header t)) (lit s_bang ++ e)) recs.
Print Assumptions C04_reserved_name_refuted.

(* ---- non-vacuity: two securities listed out of order, "ZZ" rejected at its
   first row (no data rows, footer, one error), "AA" healthy with a note ---- *)
Definition ex_zz : bytes := [90; 90].
Definition ex_aa : bytes := [65; 65].
Definition ex_boom : text := lit [98; 111; 111; 109].     (* "boom" *)
Definition ex_tab (rows : list record) (footer notes errs : list text) : rtable :=
  {| rt_header := [lit [72]; lit [73]]; rt_rows := rows; rt_footer := footer; rt_notes := notes; rt_errors := errs |}.
Definition ex_out : app_result :=
  {| ar_secs := [(ex_zz, ex_tab [] [[]; lit [36; 48]] [] [ex_boom]);
                 (ex_aa, ex_tab [[lit [49]; lit [50]]] [] [lit [110]] [])];
     ar_agg := ex_tab [[lit [51]; lit [52]]] [] [] []; ar_costs := None |}.
Example C04_output_nonvacuous :
  NoDup (map fst (ar_secs ex_out)) /\
  ro_fail (csv_dir_output [] ex_out) = None /\ ro_fail (text_output ex_out) = None /\
  write_log ex_out = [ex_aa ++ s_dot_csv; ex_zz ++ s_dot_csv; s_aggregate_gains_csv] /\
  tail_files ex_out = [s_aggregate_gains_csv] /\
  blookup (ex_zz ++ s_dot_csv) (ro_state (csv_dir_output [] ex_out))
    = Some (EFile [[lit [72]; lit [73]]; [[]; lit [36; 48]]; [lit s_bang ++ ex_boom; []]]) /\
  blookup (ex_aa ++ s_dot_csv) (ro_state (csv_dir_output [] ex_out))
    = Some (EFile [[lit [72]; lit [73]]; [lit [49]; lit [50]]; [lit [110]; []]]) /\
  errsecs_of ex_out = [ex_zz] /\
  csv_dir_stdout [] ex_out = [TLine []; TLine (lit (s_closing ++ ex_zz))] /\
  map sc_title (ro_state (text_output ex_out))
    = [[PLit s_transactions_for; PLit ex_aa]; [PLit s_transactions_for; PLit ex_zz]; lit s_aggregate_gains] /\
  In (TLine (lit s_bang ++ ex_boom)) (text_stdout ex_out).
Proof.
  split; [repeat constructor; cbn; intuition discriminate|].
  vm_compute. repeat split; try reflexivity. do 4 right. left. reflexivity.
Qed.

(* the pipeline on the over-sale of C04_nonvacuous: security 0 named "FOO" is
   rejected after two rows; both writers succeed; the file carries the rows,
   the "Total $0.00" footer and the error record *)
Definition ex_foo : bytes := [70; 79; 79].
Definition ex_secname (s : N) : bytes := ex_foo ++ repeat 88%N (N.to_nat s).
Definition ex_errmsg (s : N) : text := ex_boom.
Definition ex_cur04 (t : tx) : bytes * bytes := (s_cad, s_cad).
Example C04_pipeline_output_nonvacuous :
  match render_app exact false ex_cur04 [] ex_over with
  | Ok rep =>
      let r := app_of_report ex_secname ex_errmsg None rep in
      (exists tb, rp_tables rep = [(0%N, Some (SRej RejOversale), tb)] /\ length (tb_rows tb) = 2%nat) /\
      ro_fail (csv_dir_output [] r) = None /\ ro_fail (text_output r) = None /\
      errsecs_of r = [ex_foo] /\
      match blookup (ex_foo ++ s_dot_csv) (ro_state (csv_dir_output [] r)) with
      | Some (EFile recs) =>
          length recs = 5%nat /\
          nth 3 recs [] = repeat [] 8%nat ++ [[PLit s_total]; [PLit [36]; PLit [48; 46; 48; 48]]] ++ repeat [] 6%nat /\
          nth 4 recs [] = (lit s_bang ++ ex_boom) :: repeat [] 15%nat
      | _ => False
      end
  | _ => False
  end.
Proof. vm_compute. repeat split; try reflexivity. eexists. split; reflexivity. Qed.


(* ---------------------------------------------------------------- the sanity check
   "share balance across all affiliates is lower than the share balance for
   the affiliate" under rust_decimal ROUNDING, after the fix "compute the
   all-affiliate share balance with one expression everywhere" (50e93b7).

   After a split whose factor is not a finite decimal balances carry 28
   significant digits.  Before the fix the Split arm computed the
   all-affiliate balance as all + (new - old), which for a SINGLE affiliate is
   rounded differently from new itself: the next valid row was rejected by the
   sanity check (the old witness of the finding split-residue).  Now the
   balance is (all - old) + new, and:
   - every row, any history, any number of affiliates: the all-affiliate
     balance of the post status is never below the share balance of the row's
     own affiliate (C04_row_all_ge_share), so the next row of that affiliate
     passes the test when no other affiliate came in between;
   - a single affiliate: the two balances are EQUAL on every emitted row of the
     run and the test is false in every state the run reaches
     (C04_single_affiliate_no_residue, C04_single_affiliate_run) - whatever
     splits the history contains;
   - what remains (known finding split-residue, narrowed): with SEVERAL
     affiliates the all-affiliate balance is a running value rounded at every
     row and can fall a last digit below ANOTHER affiliate's balance
     (C04_residue_remaining_refuted); and accept/reject decisions taken on a
     balance that is itself rounded. *)
From ACB Require Import Base.Fit Proofs.FitMono Proofs.AllAfter Proofs.C04Residue Proofs.C05Sites.
Local Open Scope Z_scope.

(* rounding never crosses a value from above: the lemma the invariant rests on *)
Theorem C04_rounding_keeps_values_below : forall x y r : Qc,
  fit x = Some y -> fit r = Some r -> (r <= x)%Qc -> (r <= y)%Qc.
Proof. exact FitMono.fit_ge_rep. Qed.
Check C04_rounding_keeps_values_below : forall x y r : Qc,
  fit x = Some y -> fit r = Some r -> (r <= x)%Qc -> (r <= y)%Qc.
Print Assumptions C04_rounding_keeps_values_below.

Theorem C04_row_all_ge_share : forall bef t aft st d inj,
  delta_for_tx Base.Arith.dec bef t aft st = Ok (d, inj) -> (s_sh (d_post d) <= s_all (d_post d))%Qc.
Proof. exact C04Residue.row_all_ge_share. Qed.
Check C04_row_all_ge_share : forall bef t aft st d inj,
  delta_for_tx Base.Arith.dec bef t aft st = Ok (d, inj) -> (s_sh (d_post d) <= s_all (d_post d))%Qc.
Print Assumptions C04_row_all_ge_share.

Theorem C04_next_row_passes_all_lower : forall bef t aft st d inj st1,
  delta_for_tx Base.Arith.dec bef t aft st = Ok (d, inj) ->
  set_latest Base.Arith.dec st (t_af t) (d_post d) = Ok st1 ->
  Qcltb (s_all (next_pre_status st1 (t_af t))) (s_sh (next_pre_status st1 (t_af t))) = false.
Proof. exact C04Residue.next_row_passes_all_lower. Qed.
Check C04_next_row_passes_all_lower : forall bef t aft st d inj st1,
  delta_for_tx Base.Arith.dec bef t aft st = Ok (d, inj) ->
  set_latest Base.Arith.dec st (t_af t) (d_post d) = Ok st1 ->
  Qcltb (s_all (next_pre_status st1 (t_af t))) (s_sh (next_pre_status st1 (t_af t))) = false.
Print Assumptions C04_next_row_passes_all_lower.

Theorem C04_single_affiliate_no_residue : forall bef t aft st d inj,
  delta_for_tx Base.Arith.dec bef t aft st = Ok (d, inj) ->
  s_all (next_pre_status st (t_af t)) = s_sh (next_pre_status st (t_af t)) ->
  s_all (d_post d) = s_sh (d_post d).
Proof. exact C04Residue.single_affiliate_no_residue. Qed.
Check C04_single_affiliate_no_residue : forall bef t aft st d inj,
  delta_for_tx Base.Arith.dec bef t aft st = Ok (d, inj) ->
  s_all (next_pre_status st (t_af t)) = s_sh (next_pre_status st (t_af t)) ->
  s_all (d_post d) = s_sh (d_post d).
Print Assumptions C04_single_affiliate_no_residue.

(* whole runs of one affiliate: every emitted row (generated cost-base
   adjustments included) shows all = share; every state reached keeps the
   tracker's total equal to the affiliate's balance, where the first test of
   sanity_check_ptfs is false *)
Theorem C04_single_affiliate_run : forall (af : aff) txs ds o,
  run Base.Arith.dec None txs = (ds, o) -> Forall (fun t => t_af t = af) txs ->
  Forall (fun d => s_all (d_post d) = s_sh (d_post d)) ds.
Proof. exact C04Residue.run_single_affiliate. Qed.
Check C04_single_affiliate_run : forall (af : aff) txs ds o,
  run Base.Arith.dec None txs = (ds, o) -> Forall (fun t => t_af t = af) txs ->
  Forall (fun d => s_all (d_post d) = s_sh (d_post d)) ds.
Print Assumptions C04_single_affiliate_run.

Theorem C04_single_affiliate_state : forall (af : aff) bef t aft st d inj st1,
  t_af t = af -> ps_all st = C05Sites.last_sh st af ->
  delta_for_tx Base.Arith.dec bef t aft st = Ok (d, inj) ->
  set_latest Base.Arith.dec st (t_af t) (d_post d) = Ok st1 ->
  Qcltb (s_all (next_pre_status st af)) (s_sh (next_pre_status st af)) = false /\
  s_all (d_post d) = s_sh (d_post d) /\ ps_all st1 = C05Sites.last_sh st1 af.
Proof.
  intros af bef t aft st d inj st1 Ht Hs Hd Hset.
  split; [exact (C04Residue.single_sanity_passes af st Hs)|].
  exact (C04Residue.step_single af _ _ _ _ _ _ _ Ht Hs Hd Hset).
Qed.
Check C04_single_affiliate_state : forall (af : aff) bef t aft st d inj st1,
  t_af t = af -> ps_all st = C05Sites.last_sh st af ->
  delta_for_tx Base.Arith.dec bef t aft st = Ok (d, inj) ->
  set_latest Base.Arith.dec st (t_af t) (d_post d) = Ok st1 ->
  Qcltb (s_all (next_pre_status st af)) (s_sh (next_pre_status st af)) = false /\
  s_all (d_post d) = s_sh (d_post d) /\ ps_all st1 = C05Sites.last_sh st1 af.
Print Assumptions C04_single_affiliate_state.

(* the old witness of the finding (20.5 shares, 1.0-for-3.0 split, return of
   capital): rejected by the sanity check before the fix, accepted now - three
   rows, balances 6.8333333333333333333333333333 = total on both later rows *)
Definition rq (n : Z) (d : positive) := Qcfrac n d.
Definition rmk af sd a :=
  {| t_sec := 0; t_td := sd; t_sd := sd; t_act := a; t_af := af; t_glob := false; t_ri := 0 |}.
Definition residue_old : list tx := [
  rmk default_aff 100 (Buy (rq 41 2) (rq 1 1) (rq 0 1) (rq 1 1) (rq 1 1));
  rmk default_aff 160 (Split (rq 1 1) (rq 3 1) false);
  rmk default_aff 190 (Roc (rq 1 100) (rq 1 1))].
Definition residue_obs (A : arith) (w : list tx) :=
  (snd (run A None w),
   map (fun d => let s := d_post d in
                 ((Qnum (this (s_sh s)), Qden (this (s_sh s))), (Qnum (this (s_all s)), Qden (this (s_all s)))))
       (fst (run A None w))).
Theorem C04_split_residue_witness_accepted :
  residue_obs Base.Arith.dec residue_old =
    (None, [((41, 2%positive), (41, 2%positive));
            ((68333333333333333333333333333, 10000000000000000000000000000%positive),
             (68333333333333333333333333333, 10000000000000000000000000000%positive));
            ((68333333333333333333333333333, 10000000000000000000000000000%positive),
             (68333333333333333333333333333, 10000000000000000000000000000%positive))]) /\
  snd (run Base.Arith.exact None residue_old) = None.
Proof. vm_compute. split; reflexivity. Qed.
Check C04_split_residue_witness_accepted :
  residue_obs Base.Arith.dec residue_old =
    (None, [((41, 2%positive), (41, 2%positive));
            ((68333333333333333333333333333, 10000000000000000000000000000%positive),
             (68333333333333333333333333333, 10000000000000000000000000000%positive));
            ((68333333333333333333333333333, 10000000000000000000000000000%positive),
             (68333333333333333333333333333, 10000000000000000000000000000%positive))]) /\
  snd (run Base.Arith.exact None residue_old) = None.
Print Assumptions C04_split_residue_witness_accepted.

(* what remains of the finding: two holders of 10 shares, 1-for-3 split of
   both, the first sells its 3.3333333333333333333333333333: the running total
   is 3.3333333333333333333333333330, a digit below the other holder's
   balance, whose next (valid) row is rejected by the sanity check under
   rounding; exact arithmetic accepts the history *)
Definition residue_b := {| af_id := 1003; af_reg := false; af_dflt := false |}.
Definition residue_two : list tx := [
  rmk default_aff 100 (Buy (rq 10 1) (rq 1 1) (rq 0 1) (rq 1 1) (rq 1 1));
  rmk residue_b 101 (Buy (rq 10 1) (rq 1 1) (rq 0 1) (rq 1 1) (rq 1 1));
  rmk default_aff 160 (Split (rq 1 1) (rq 3 1) false);
  rmk residue_b 160 (Split (rq 1 1) (rq 3 1) false);
  rmk default_aff 190 (Sell (rq 33333333333333333333333333333 10000000000000000000000000000) (rq 4 1) (rq 0 1) (rq 1 1) (rq 1 1) None);
  rmk residue_b 220 (Roc (rq 1 100) (rq 1 1))].
Theorem C04_residue_remaining_refuted :
  forallb valid_tx residue_two = true /\
  snd (run Base.Arith.dec None residue_two) = Some (SRej RejSanityAllLower) /\
  length (fst (run Base.Arith.dec None residue_two)) = 5%nat /\
  snd (run Base.Arith.exact None residue_two) = None.
Proof. vm_compute. repeat split. Qed.
Check C04_residue_remaining_refuted :
  forallb valid_tx residue_two = true /\
  snd (run Base.Arith.dec None residue_two) = Some (SRej RejSanityAllLower) /\
  length (fst (run Base.Arith.dec None residue_two)) = 5%nat /\
  snd (run Base.Arith.exact None residue_two) = None.
Print Assumptions C04_residue_remaining_refuted.

(* non-vacuity: the rows of the old witness are rows of one affiliate, the
   split row is a row of delta_for_tx under rounding whose pre status has
   all = share, and 6.8333333333333333333333333333 is a value *)
Example C04_residue_nonvacuous :
  Forall (fun t => t_af t = default_aff) residue_old /\
  fit (rq 68333333333333333333333333333 10000000000000000000000000000) =
    Some (rq 68333333333333333333333333333 10000000000000000000000000000) /\
  match run_loop Base.Arith.dec [] {| ps_map := []; ps_all := 0%Qc; ps_latest := default_aff |} [hd (rmk default_aff 0 (Roc 0%Qc 0%Qc)) residue_old] with
  | ([d], None) =>
      let st := {| ps_map := [(af_id default_aff, d_post d)]; ps_all := s_all (d_post d); ps_latest := default_aff |} in
      Qceqb (s_all (next_pre_status st default_aff)) (s_sh (next_pre_status st default_aff)) &&
      is_ok (delta_for_tx Base.Arith.dec [] (nth 1 residue_old (rmk default_aff 0 (Roc 0%Qc 0%Qc))) [] st)
  | _ => false
  end = true.
Proof. split; [repeat constructor|]. vm_compute. split; reflexivity. Qed.
