(* C03 - Money is conserved: a denied loss moves into cost base, once, in full. *)
From Coq Require Import List NArith ZArith QArith Qcanon Bool.
From ACB Require Import Base.Outcome Base.QcExtra Base.Arith Model.Tx Model.Ledger Model.Sfl
     Model.DeltaList Spec.AvgCost Proofs.C01Refine Proofs.C03Conserve.
Import ListNotations.

(* Full statement (exact arithmetic).  For every accepted history whose rows
   all belong to non-registered affiliates, contain no user-supplied SfLA rows
   and no user-supplied superficial loss, and for EVERY prefix p of the report
   rows that ends after a row together with its automatic adjustments
   (the next row, if any, is not an adjustment) and in which no sale is
   flagged as potentially over-applied:
     gains so far = net proceeds so far - (purchase costs so far + opening cost base)
                    + returns of capital so far + cost base held by all affiliates.
   [conserved] is exactly this equation (Proofs/C03Conserve.v). *)
Theorem C03_conservation : forall init txs ds,
  run exact init txs = (ds, None) ->
  Forall c03_row txs ->
  forall p rest, ds = p ++ rest -> head_not_sfla rest -> Forall not_over p ->
    sum_gains p
    = (sum_proceeds p - (sum_costs p + total_acb (spec_init init)) + sum_roc (spec_init init) p
       + total_acb (after (spec_init init) p))%Qc.
Proof. exact C03Conserve.run_conserved. Qed.
Check C03_conservation : forall init txs ds,
  run exact init txs = (ds, None) ->
  Forall c03_row txs ->
  forall p rest, ds = p ++ rest -> head_not_sfla rest -> Forall not_over p ->
    sum_gains p
    = (sum_proceeds p - (sum_costs p + total_acb (spec_init init)) + sum_roc (spec_init init) p
       + total_acb (after (spec_init init) p))%Qc.
Print Assumptions C03_conservation.

(* Each denied loss is added in full: the automatic adjustments generated for
   a sale add up to exactly the denied amount, unless the report flags the
   sale as potentially over-applied. *)
Theorem C03_adjustments_sum : forall bef t sold aft st loss info inj,
  delta_sfl exact bef t sold None aft st loss = Ok (Some (info, inj)) ->
  (0 < sold)%Qc -> Forall tx_nonreg bef -> Forall tx_nonreg aft ->
  sf_over info = false ->
  sfla_sum inj = (- sf_amount info)%Qc.
Proof. exact C03Conserve.delta_sfl_sum. Qed.
Check C03_adjustments_sum : forall bef t sold aft st loss info inj,
  delta_sfl exact bef t sold None aft st loss = Ok (Some (info, inj)) ->
  (0 < sold)%Qc -> Forall tx_nonreg bef -> Forall tx_nonreg aft ->
  sf_over info = false ->
  sfla_sum inj = (- sf_amount info)%Qc.
Print Assumptions C03_adjustments_sum.

(* Adjustments never go to a registered affiliate and are always cost-base
   adjustments - for ANY arithmetic (in particular the code's). *)
Theorem C03_never_registered : forall (A : arith) bef t aft st d inj,
  delta_for_tx A bef t aft st = Ok (d, inj) ->
  Forall (fun x => is_sfla (t_act x) = true /\ nonreg (t_af x)) inj.
Proof. exact C03Conserve.delta_for_tx_inj_nonreg. Qed.
Check C03_never_registered : forall (A : arith) bef t aft st d inj,
  delta_for_tx A bef t aft st = Ok (d, inj) ->
  Forall (fun x => is_sfla (t_act x) = true /\ nonreg (t_af x)) inj.
Print Assumptions C03_never_registered.

(* Non-vacuity: two affiliates buy inside the window of a loss sale and share
   the denied amount (-40) 1:3; the premises of C03_conservation hold and the
   whole report (7 rows, two generated) is a checkpoint. *)
Local Open Scope Z_scope.
Definition q (n : Z) (d : positive) := Qcfrac n d.
Definition qpair (x : Qc) : Z * positive := (Qnum (this x), Qden (this x)).
Definition spouse := {| af_id := 1003; af_reg := false; af_dflt := false |}.
Definition mk sd a af :=
  {| t_sec := 0; t_td := sd; t_sd := sd; t_act := a; t_af := af; t_glob := false; t_ri := 0 |}.
Definition ex_txs : list tx := [
  mk 100 (Buy (q 10 1) (q 10 1) (q 0 1) (q 1 1) (q 1 1)) default_aff;
  mk 110 (Sell (q 8 1) (q 5 1) (q 0 1) (q 1 1) (q 1 1) None) default_aff;
  mk 115 (Buy (q 4 1) (q 5 1) (q 0 1) (q 1 1) (q 1 1)) spouse;
  mk 120 (Buy (q 4 1) (q 5 1) (q 0 1) (q 1 1) (q 1 1)) default_aff;
  mk 200 (Sell (q 1 1) (q 20 1) (q 1 1) (q 1 1) (q 1 1) None) spouse
].
Example C03_nonvacuous :
  snd (run exact None ex_txs) = None /\
  length (fst (run exact None ex_txs)) = 7%nat /\
  map (fun d => qpair (denied_of d)) (fst (run exact None ex_txs))
  = [(0, 1%positive); (-40, 1%positive); (0, 1%positive); (0, 1%positive); (0, 1%positive);
     (0, 1%positive); (0, 1%positive)] /\
  map (fun d => qpair (sfla_amount (d_tx d))) (fst (run exact None ex_txs))
  = [(0, 1%positive); (0, 1%positive); (24, 1%positive); (16, 1%positive); (0, 1%positive);
     (0, 1%positive); (0, 1%positive)] /\
  forallb (fun d => match d_sfl d with Some i => negb (sf_over i) | None => true end)
          (fst (run exact None ex_txs)) = true.
Proof. vm_compute. repeat split. Qed.

(* Under rust_decimal rounding, on histories without rounding (Proofs/DecTransfer.v:
   the ledger under the representable arithmetic [rep] accepts the history, i.e.
   every exact intermediate value is a 28-place / 96-bit decimal): the ROUNDED
   ledger is the exact one (C01_dec_equals_exact_when_representable), so the
   conservation equation holds for the rows of the rounded ledger. *)
From ACB Require Import Base.Fit Proofs.DecTransfer Proofs.DecCorollaries.
Theorem C03_dec_conservation_when_representable : forall init txs ds,
  run rep init txs = (ds, None) ->
  Forall c03_row txs ->
  run dec init txs = (ds, None) /\
  forall p rest, ds = p ++ rest -> head_not_sfla rest -> Forall not_over p ->
    sum_gains p
    = (sum_proceeds p - (sum_costs p + total_acb (spec_init init)) + sum_roc (spec_init init) p
       + total_acb (after (spec_init init) p))%Qc.
Proof. exact DecCorollaries.dec_conservation_when_representable. Qed.
Check C03_dec_conservation_when_representable : forall init txs ds,
  run rep init txs = (ds, None) ->
  Forall c03_row txs ->
  run dec init txs = (ds, None) /\
  forall p rest, ds = p ++ rest -> head_not_sfla rest -> Forall not_over p ->
    sum_gains p
    = (sum_proceeds p - (sum_costs p + total_acb (spec_init init)) + sum_roc (spec_init init) p
       + total_acb (after (spec_init init) p))%Qc.
Print Assumptions C03_dec_conservation_when_representable.

(* Non-vacuity: the history of C03_nonvacuous (a loss of 50 on 8 of 10 shares,
   40 of it denied and shared 24 : 16 by two buying affiliates) is accepted
   by the representable arithmetic, with the same 7 rows. *)
Example C03_dec_nonvacuous :
  snd (run rep None ex_txs) = None /\ length (fst (run rep None ex_txs)) = 7%nat /\
  map (fun d => qpair (denied_of d)) (fst (run rep None ex_txs))
  = [(0, 1%positive); (-40, 1%positive); (0, 1%positive); (0, 1%positive); (0, 1%positive);
     (0, 1%positive); (0, 1%positive)].
Proof. vm_compute. repeat split. Qed.
