(* C03 - Money is conserved: a denied loss moves into cost base, once, in full. *)
From Coq Require Import List NArith ZArith QArith Qcanon Bool.
From ACB Require Import Base.Outcome Base.QcExtra Base.Arith Model.Tx Model.Ledger Model.Sfl
     Model.DeltaList Spec.AvgCost Proofs.C01Refine Proofs.C03Conserve.
Import ListNotations.

(* Full statement (exact arithmetic).  For every accepted history whose rows
   all belong to non-registered affiliates, contain no user-supplied SfLA rows
   and no user-supplied superficial loss, and for EVERY prefix p of the report
   rows that ends after a row together with its automatic adjustments
   (the next row, if any, is not an adjustment) and in which no sale is
   flagged as potentially over-applied:
     gains so far = net proceeds so far - (purchase costs so far + opening cost base)
                    + returns of capital so far + cost base held by all affiliates.
   [conserved] is exactly this equation (Proofs/C03Conserve.v). *)
Theorem C03_conservation : forall init txs ds,
  run exact init txs = (ds, None) ->
  Forall c03_row txs ->
  forall p rest, ds = p ++ rest -> head_not_sfla rest -> Forall not_over p ->
    sum_gains p
    = (sum_proceeds p - (sum_costs p + total_acb (spec_init init)) + sum_roc (spec_init init) p
       + total_acb (after (spec_init init) p))%Qc.
Proof. exact C03Conserve.run_conserved. Qed.
Check C03_conservation : forall init txs ds,
  run exact init txs = (ds, None) ->
  Forall c03_row txs ->
  forall p rest, ds = p ++ rest -> head_not_sfla rest -> Forall not_over p ->
    sum_gains p
    = (sum_proceeds p - (sum_costs p + total_acb (spec_init init)) + sum_roc (spec_init init) p
       + total_acb (after (spec_init init) p))%Qc.
Print Assumptions C03_conservation.

(* Each denied loss is added in full: the automatic adjustments generated for
   a sale add up to exactly the denied amount, unless the report flags the
   sale as potentially over-applied. *)
Theorem C03_adjustments_sum : forall bef t sold aft st loss info inj,
  delta_sfl exact bef t sold None aft st loss = Ok (Some (info, inj)) ->
  (0 < sold)%Qc -> Forall tx_nonreg bef -> Forall tx_nonreg aft ->
  sf_over info = false ->
  sfla_sum inj = (- sf_amount info)%Qc.
Proof. exact C03Conserve.delta_sfl_sum. Qed.
Check C03_adjustments_sum : forall bef t sold aft st loss info inj,
  delta_sfl exact bef t sold None aft st loss = Ok (Some (info, inj)) ->
  (0 < sold)%Qc -> Forall tx_nonreg bef -> Forall tx_nonreg aft ->
  sf_over info = false ->
  sfla_sum inj = (- sf_amount info)%Qc.
Print Assumptions C03_adjustments_sum.

(* Adjustments never go to a registered affiliate and are always cost-base
   adjustments - for ANY arithmetic (in particular the code's). *)
Theorem C03_never_registered : forall (A : arith) bef t aft st d inj,
  delta_for_tx A bef t aft st = Ok (d, inj) ->
  Forall (fun x => is_sfla (t_act x) = true /\ nonreg (t_af x)) inj.
Proof. exact C03Conserve.delta_for_tx_inj_nonreg. Qed.
Check C03_never_registered : forall (A : arith) bef t aft st d inj,
  delta_for_tx A bef t aft st = Ok (d, inj) ->
  Forall (fun x => is_sfla (t_act x) = true /\ nonreg (t_af x)) inj.
Print Assumptions C03_never_registered.

(* Non-vacuity: two affiliates buy inside the window of a loss sale and share
   the denied amount (-40) 1:3; the premises of C03_conservation hold and the
   whole report (7 rows, two generated) is a checkpoint. *)
Local Open Scope Z_scope.
Definition q (n : Z) (d : positive) := Qcfrac n d.
Definition qpair (x : Qc) : Z * positive := (Qnum (this x), Qden (this x)).
Definition spouse := {| af_id := 1003; af_reg := false; af_dflt := false |}.
Definition mk sd a af :=
  {| t_sec := 0; t_td := sd; t_sd := sd; t_act := a; t_af := af; t_glob := false; t_ri := 0 |}.
Definition ex_txs : list tx := [
  mk 100 (Buy (q 10 1) (q 10 1) (q 0 1) (q 1 1) (q 1 1)) default_aff;
  mk 110 (Sell (q 8 1) (q 5 1) (q 0 1) (q 1 1) (q 1 1) None) default_aff;
  mk 115 (Buy (q 4 1) (q 5 1) (q 0 1) (q 1 1) (q 1 1)) spouse;
  mk 120 (Buy (q 4 1) (q 5 1) (q 0 1) (q 1 1) (q 1 1)) default_aff;
  mk 200 (Sell (q 1 1) (q 20 1) (q 1 1) (q 1 1) (q 1 1) None) spouse
].
Example C03_nonvacuous :
  snd (run exact None ex_txs) = None /\
  length (fst (run exact None ex_txs)) = 7%nat /\
  map (fun d => qpair (denied_of d)) (fst (run exact None ex_txs))
  = [(0, 1%positive); (-40, 1%positive); (0, 1%positive); (0, 1%positive); (0, 1%positive);
     (0, 1%positive); (0, 1%positive)] /\
  map (fun d => qpair (sfla_amount (d_tx d))) (fst (run exact None ex_txs))
  = [(0, 1%positive); (0, 1%positive); (24, 1%positive); (16, 1%positive); (0, 1%positive);
     (0, 1%positive); (0, 1%positive)] /\
  forallb (fun d => match d_sfl d with Some i => negb (sf_over i) | None => true end)
          (fst (run exact None ex_txs)) = true.
Proof. vm_compute. repeat split. Qed.

(* Under rust_decimal rounding, on histories without rounding (Proofs/DecTransfer.v:
   the ledger under the representable arithmetic [rep] accepts the history, i.e.
   every exact intermediate value is a 28-place / 96-bit decimal): the ROUNDED
   ledger is the exact one (C01_dec_equals_exact_when_representable), so the
   conservation equation holds for the rows of the rounded ledger. *)
From ACB Require Import Base.Fit Proofs.DecTransfer Proofs.DecCorollaries.
Theorem C03_dec_conservation_when_representable : forall init txs ds,
  run rep init txs = (ds, None) ->
  Forall c03_row txs ->
  run dec init txs = (ds, None) /\
  forall p rest, ds = p ++ rest -> head_not_sfla rest -> Forall not_over p ->
    sum_gains p
    = (sum_proceeds p - (sum_costs p + total_acb (spec_init init)) + sum_roc (spec_init init) p
       + total_acb (after (spec_init init) p))%Qc.
Proof. exact DecCorollaries.dec_conservation_when_representable. Qed.
Check C03_dec_conservation_when_representable : forall init txs ds,
  run rep init txs = (ds, None) ->
  Forall c03_row txs ->
  run dec init txs = (ds, None) /\
  forall p rest, ds = p ++ rest -> head_not_sfla rest -> Forall not_over p ->
    sum_gains p
    = (sum_proceeds p - (sum_costs p + total_acb (spec_init init)) + sum_roc (spec_init init) p
       + total_acb (after (spec_init init) p))%Qc.
Print Assumptions C03_dec_conservation_when_representable.

(* Non-vacuity: the history of C03_nonvacuous (a loss of 50 on 8 of 10 shares,
   40 of it denied and shared 24 : 16 by two buying affiliates) is accepted
   by the representable arithmetic, with the same 7 rows. *)
Example C03_dec_nonvacuous :
  snd (run rep None ex_txs) = None /\ length (fst (run rep None ex_txs)) = 7%nat /\
  map (fun d => qpair (denied_of d)) (fst (run rep None ex_txs))
  = [(0, 1%positive); (-40, 1%positive); (0, 1%positive); (0, 1%positive); (0, 1%positive);
     (0, 1%positive); (0, 1%positive)].
Proof. vm_compute. repeat split. Qed.

(* ---- Under rust_decimal rounding, WITH rounding: how far can the conservation
   equation be off?  (Proofs/C03Dec.v)

   For a history in the accumulation class of C01_rounding_error_accumulates
   (the hypotheses are taken over verbatim: rows valid, [in_class k] on the
   rows of the rounded and of the exact ledger - no superficial loss on either
   side, equal share balances, non-registered affiliates, quantities <= 10^k,
   rates <= 10, 2k+2 <= 28), at EVERY checkpoint of the ROUNDED ledger (the
   first n rows it reports, n within both reports; in the class there are no
   generated rows, so every prefix is a checkpoint):

     | gains_dec - (proceeds - (costs + opening) + RoC + cost base held_dec) | <= n * cC k,
     cC k = cR k + 10^k u(k+1) + u(2k+2) = 3.15 * 10^-(26-2k).

   [sum_proceeds], [sum_costs], [sum_roc] are the sums of C03_conservation:
   exact rational functions of the INPUT rows (and, for a return of capital, of
   the share balance, which is not rounded in the class); [sum_gains] and
   [total_acb (after ...)] are the rounded ledger's reported figures.

   The bound is LINEAR in n, not quadratic as the route "rounded ledger within
   (i+1) cR of the exact ledger (C01_rounding_error_accumulates), exact ledger
   conserves (C03_conservation)" would give ((n(n+1)/2 + a n) cR for a
   affiliates): the residual is the sum of the rows' own defects, and a row's
   defect consists of the roundings of that row only - its figures are computed
   from the rounded ledger's OWN previous cost base, and the unrounded figures
   computed from that same cost base satisfy the equation exactly.  The
   deviation carried over from earlier rows cancels.  n * cC k < (n(n+1)/2 + a n) * cR k
   for every n >= 1, a >= 1 (3.15 n < 5.2 n). *)
From ACB Require Import Proofs.DecRowError Proofs.DecAccumulate Proofs.C03Dec.
Local Open Scope Qc_scope.
Theorem C03_dec_residual_bound : forall (k : nat) init txs dsd od dse oe,
  (2 * k + 2 <= 28)%nat ->
  Forall (fun t => valid_tx t = true) txs ->
  run dec init txs = (dsd, od) -> run exact init txs = (dse, oe) ->
  in_class k dsd dse = true ->
  forall n p, (n <= length dsd)%nat -> (n <= length dse)%nat -> p = firstn n dsd ->
    let residual :=
      sum_gains p
      - (sum_proceeds p - (sum_costs p + total_acb (spec_init init)) + sum_roc (spec_init init) p
         + total_acb (after (spec_init init) p)) in
    - (QcZ (Z.of_nat n) * cC k) <= residual /\ residual <= QcZ (Z.of_nat n) * cC k.
Proof.
  intros k init txs dsd od dse oe Hk Hv Hd He Hc n p Hn1 Hn2 ->.
  exact (C03Dec.dec_residual_bound k init txs dsd od dse oe Hk Hv Hd He Hc n Hn1 Hn2).
Qed.
Check C03_dec_residual_bound : forall (k : nat) init txs dsd od dse oe,
  (2 * k + 2 <= 28)%nat ->
  Forall (fun t => valid_tx t = true) txs ->
  run dec init txs = (dsd, od) -> run exact init txs = (dse, oe) ->
  in_class k dsd dse = true ->
  forall n p, (n <= length dsd)%nat -> (n <= length dse)%nat -> p = firstn n dsd ->
    let residual :=
      sum_gains p
      - (sum_proceeds p - (sum_costs p + total_acb (spec_init init)) + sum_roc (spec_init init) p
         + total_acb (after (spec_init init) p)) in
    - (QcZ (Z.of_nat n) * cC k) <= residual /\ residual <= QcZ (Z.of_nat n) * cC k.
Print Assumptions C03_dec_residual_bound.

(* the constant in closed form: cC 6 = 3.15e-14; and cC k = (63/52) cR k for
   every k the theorem admits (k = 0..13) - the check computes the bound from
   the extracted cR k (entry 2 of the dectransfer group) with this factor *)
Theorem C03_dec_residual_constant :
  cC 6 = Qcfrac 63 2000000000000000 /\
  forallb (fun k => Qceqb (cC k * QcZ 52) (cR k * QcZ 63)) (seq 0 14) = true.
Proof. exact (conj C03Dec.cC_6 C03Dec.cC_cR_ratio). Qed.
Check C03_dec_residual_constant :
  cC 6 = Qcfrac 63 2000000000000000 /\
  forallb (fun k => Qceqb (cC k * QcZ 52) (cR k * QcZ 63)) (seq 0 14) = true.
Print Assumptions C03_dec_residual_constant.

(* THE INSTANCE the check's generic tolerance corresponds to (lib/props/c03.py
   measures the residual against 1e-9): quantities below a million (k = 6),
   rates at most 10: the residual stays below 1e-9 for the first 31746
   checkpoints (31746 * 3.15e-14 = 9.99999e-10; 31747 * 3.15e-14 > 1e-9).
   The quadratic route (one affiliate) reaches 1e-9 at n = 276: (276*277/2 + 276) * 2.6e-14 > 1e-9. *)
Theorem C03_dec_residual_bound_million : forall init txs dsd od dse oe,
  Forall (fun t => valid_tx t = true) txs ->
  run dec init txs = (dsd, od) -> run exact init txs = (dse, oe) ->
  in_class 6 dsd dse = true ->
  forall n p, (Z.of_nat n <= 31746)%Z -> (n <= length dsd)%nat -> (n <= length dse)%nat -> p = firstn n dsd ->
    let residual :=
      sum_gains p
      - (sum_proceeds p - (sum_costs p + total_acb (spec_init init)) + sum_roc (spec_init init) p
         + total_acb (after (spec_init init) p)) in
    - Qcfrac 1 1000000000 <= residual /\ residual <= Qcfrac 1 1000000000.
Proof.
  intros init txs dsd od dse oe Hv Hd He Hc n p Hn Hn1 Hn2 ->.
  exact (C03Dec.dec_residual_bound_million init txs dsd od dse oe Hv Hd He Hc n Hn Hn1 Hn2).
Qed.
Check C03_dec_residual_bound_million : forall init txs dsd od dse oe,
  Forall (fun t => valid_tx t = true) txs ->
  run dec init txs = (dsd, od) -> run exact init txs = (dse, oe) ->
  in_class 6 dsd dse = true ->
  forall n p, (Z.of_nat n <= 31746)%Z -> (n <= length dsd)%nat -> (n <= length dse)%nat -> p = firstn n dsd ->
    let residual :=
      sum_gains p
      - (sum_proceeds p - (sum_costs p + total_acb (spec_init init)) + sum_roc (spec_init init) p
         + total_acb (after (spec_init init) p)) in
    - Qcfrac 1 1000000000 <= residual /\ residual <= Qcfrac 1 1000000000.
Print Assumptions C03_dec_residual_bound_million.

(* Non-vacuity (k = 1, two affiliates, 8 rows): the six rows of
   C01_rounding_error_accumulates_nonvacuous (per-share cost 10/3 at the first
   sale) interleaved with a second affiliate buying 3 at 7 plus 1 commission and
   selling 1 at 9 (per-share cost 22/3).  Both ledgers accept all eight rows,
   the pair is in the class with k = 1; the exact ledger's residual is 0 at the
   last checkpoint, the rounded ledger's is NOT, and (the theorem, evaluated) it
   is within n * cC 1 at every one of the nine checkpoints n = 0..8. *)
Local Open Scope Z_scope.
Definition ex_c03dec : list tx := [
  mk 100 (Buy (q 3 1) (q 3 1) (q 1 1) (q 1 1) (q 1 1)) default_aff;
  mk 150 (Buy (q 3 1) (q 7 1) (q 1 1) (q 1 1) (q 1 1)) spouse;
  mk 200 (Sell (q 1 1) (q 5 1) (q 0 1) (q 1 1) (q 1 1) None) default_aff;
  mk 300 (Buy (q 2 1) (q 1 1) (q 0 1) (q 1 1) (q 1 1)) default_aff;
  mk 400 (Roc (q 1 10) (q 1 1)) default_aff;
  mk 500 (Sell (q 2 1) (q 4 1) (q 1 2) (q 1 1) (q 1 1) None) default_aff;
  mk 550 (Sell (q 1 1) (q 9 1) (q 0 1) (q 1 1) (q 1 1) None) spouse;
  mk 600 (Split (q 2 1) (q 1 1) false) default_aff ].
Local Close Scope Z_scope.
Definition c03_res (p : list delta) : Qc :=
  sum_gains p - (sum_proceeds p - (sum_costs p + total_acb []) + sum_roc [] p + total_acb (after [] p)).
Example C03_dec_residual_nonvacuous :
  Forall (fun t => valid_tx t = true) ex_c03dec /\
  match run dec None ex_c03dec, run exact None ex_c03dec with
  | (dsd, None), (dse, None) =>
      length dsd = 8%nat /\ length dse = 8%nat /\ in_class 1 dsd dse = true /\
      this (c03_res dse) = this 0 /\
      this (c03_res dsd) <> this 0 /\
      forallb (fun n => Qcleb (- (QcZ (Z.of_nat n) * cC 1)) (c03_res (firstn n dsd))
                        && Qcleb (c03_res (firstn n dsd)) (QcZ (Z.of_nat n) * cC 1)) (seq 0 9) = true
  | _, _ => False
  end.
Proof.
  split; [repeat constructor|].
  vm_compute. repeat split; discriminate.
Qed.
