(* C18 - Questrade conversion keeps every trade and conserves USD cash.
   Obligations of the property; proofs live in Proofs/QuestradeProps.v.
   The statements are over the sheet as decoded by the `office` crate
   (Model/Questrade.v) and exact arithmetic; the model under rust_decimal
   rounding is tied to the code by the correspondence check. *)
From Coq Require Import List NArith ZArith QArith Qcanon Bool Permutation.
From ACB Require Import Base.Outcome Base.QcExtra Base.Arith Model.QText Model.FxTracker
     Model.Questrade Spec.QtExport Proofs.QuestradeProps.
Import ListNotations.
Local Open Scope N_scope.

(* One output row per BUY / SELL / DIS / LIQ activity whose cells can be read,
   with that activity's dates, |quantity|, price, |commission|, currency and
   account-derived affiliate (Spec.QtExport.trade_of_row), in input order;
   every other activity (the documented ignored ones, DIV, FXT) and every
   unreadable row yields no trade row - whatever errors occur elsewhere in
   the sheet. *)
Theorem C18_one_row_per_trade : forall rows txs errs,
  convert exact rows = Ok (txs, errs) -> filter is_trade txs = expected_trades 2 rows.
Proof. exact QuestradeProps.convert_trades. Qed.
Check C18_one_row_per_trade : forall rows txs errs,
  convert exact rows = Ok (txs, errs) -> filter is_trade txs = expected_trades 2 rows.
Print Assumptions C18_one_row_per_trade.

(* ... and through the options: the trade rows of the output are exactly the
   expected trades that pass --account / --security / --no-fx, with
   --usd-exchange-rate applied; in input order with --no-sort, a permutation
   of it otherwise.  Holds for every filter predicate. *)
Theorem C18_one_row_per_trade_options : forall o txs out,
  post_process o txs = Some out ->
  Permutation (filter is_trade out)
              (map (apply_rate (o_rate o)) (filter (keeps o) (filter is_trade txs))) /\
  (o_no_sort o = true ->
   filter is_trade out = map (apply_rate (o_rate o)) (filter (keeps o) (filter is_trade txs))).
Proof. exact QuestradeProps.run_trades. Qed.
Check C18_one_row_per_trade_options : forall o txs out,
  post_process o txs = Some out ->
  Permutation (filter is_trade out)
              (map (apply_rate (o_rate o)) (filter (keeps o) (filter is_trade txs))) /\
  (o_no_sort o = true ->
   filter is_trade out = map (apply_rate (o_rate o)) (filter (keeps o) (filter is_trade txs))).
Print Assumptions C18_one_row_per_trade_options.

(* For every export that converts without error: the signed sum of the
   emitted USD.FX shares equals the net USD cash flow of the USD trades
   (+-price * |quantity| - |commission|), the USD dividends and the USD legs
   of the conversions. *)
Theorem C18_cash_conserved : forall rows txs,
  convert exact rows = Ok (txs, []) -> signed_sum (filter is_fx txs) = usd_flow rows.
Proof. exact QuestradeProps.convert_cash. Qed.
Check C18_cash_conserved : forall rows txs,
  convert exact rows = Ok (txs, []) -> signed_sum (filter is_fx txs) = usd_flow rows.
Print Assumptions C18_cash_conserved.

(* sorting and --usd-exchange-rate leave that sum unchanged *)
Theorem C18_cash_conserved_options : forall o txs out,
  post_process o txs = Some out -> (forall t, In t txs -> keeps o t = true) ->
  signed_sum (filter is_fx out) = signed_sum (filter is_fx txs).
Proof. exact QuestradeProps.run_cash. Qed.
Check C18_cash_conserved_options : forall o txs out,
  post_process o txs = Some out -> (forall t, In t txs -> keeps o t = true) ->
  signed_sum (filter is_fx out) = signed_sum (filter is_fx txs).
Print Assumptions C18_cash_conserved_options.

(* The rows that carry an exchange rate are exactly the conversions (FXT rows
   paired in order of appearance): |USD leg| shares at |CAD leg / USD leg|. *)
Theorem C18_implied_rate : forall rows txs,
  convert exact rows = Ok (txs, []) -> rated txs = conversions None 2 rows.
Proof. exact QuestradeProps.convert_rates. Qed.
Check C18_implied_rate : forall rows txs,
  convert exact rows = Ok (txs, []) -> rated txs = conversions None 2 rows.
Print Assumptions C18_implied_rate.

(* Layout: the conversion only sees the cell under each named header. *)
Theorem C18_layout_insert : forall k h cells hdr rows,
  Forall (fun r => length r = length hdr) rows -> (k <= length hdr)%nat ->
  length cells = length rows -> unrelated_header h = true ->
  forall A o, run A HeaderEnumerated o (insert_col k h cells (hdr :: rows))
              = run A HeaderEnumerated o (hdr :: rows).
Proof.
  intros k h cells hdr rows H1 H2 H3 H4 A o. apply QuestradeProps.run_ext.
  apply QuestradeProps.layout_insert; assumption.
Qed.
Check C18_layout_insert : forall k h cells hdr rows,
  Forall (fun r => length r = length hdr) rows -> (k <= length hdr)%nat ->
  length cells = length rows -> unrelated_header h = true ->
  forall A o, run A HeaderEnumerated o (insert_col k h cells (hdr :: rows))
              = run A HeaderEnumerated o (hdr :: rows).
Print Assumptions C18_layout_insert.

Theorem C18_layout_permute : forall p hdr rows,
  NoDup p -> (forall i, (i < length hdr)%nat -> In i p) ->
  Forall (fun r => length r = length hdr) rows ->
  Forall (unique_name hdr) used_headers ->
  forall A o, run A HeaderEnumerated o (permute_cols p (hdr :: rows))
              = run A HeaderEnumerated o (hdr :: rows).
Proof.
  intros p hdr rows H1 H2 H3 H4 A o. apply QuestradeProps.run_ext.
  apply QuestradeProps.layout_permute; assumption.
Qed.
Check C18_layout_permute : forall p hdr rows,
  NoDup p -> (forall i, (i < length hdr)%nat -> In i p) ->
  Forall (fun r => length r = length hdr) rows ->
  Forall (unique_name hdr) used_headers ->
  forall A o, run A HeaderEnumerated o (permute_cols p (hdr :: rows))
              = run A HeaderEnumerated o (hdr :: rows).
Print Assumptions C18_layout_permute.

(* The code before the fix (non-string header cells dropped before the column
   indices are assigned): a blank-headed column before Quantity makes the
   converter read "junk" as the quantity and lose every row. *)
Theorem C18_blank_header_refuted :
  out_errs (run exact HeaderFiltered no_opts ex_sheet) = [] /\
  length (out_rows (run exact HeaderFiltered no_opts ex_sheet)) = 5%nat /\
  out_errs (run exact HeaderFiltered no_opts ex_sheet_blank)
  = [(2, QErr.bad_number Col.qty); (3, QErr.bad_number Col.qty); (5, QErr.fxt_not_one_cad)]%N /\
  length (out_rows (run exact HeaderFiltered no_opts ex_sheet_blank)) = 0%nat.
Proof. exact QuestradeProps.blank_header_filtered_differs. Qed.
Check C18_blank_header_refuted :
  out_errs (run exact HeaderFiltered no_opts ex_sheet) = [] /\
  length (out_rows (run exact HeaderFiltered no_opts ex_sheet)) = 5%nat /\
  out_errs (run exact HeaderFiltered no_opts ex_sheet_blank)
  = [(2, QErr.bad_number Col.qty); (3, QErr.bad_number Col.qty); (5, QErr.fxt_not_one_cad)]%N /\
  length (out_rows (run exact HeaderFiltered no_opts ex_sheet_blank)) = 0%nat.
Print Assumptions C18_blank_header_refuted.

(* Every emitted row is accepted by acb (Spec.QtExport.acb_accepts mirrors
   Tx::try_from) when the export converts without error and its amounts are
   sane (traded quantity not zero, price not negative, trade currency CAD or
   USD, USD dividends and conversion legs not zero); through the options when
   a given --usd-exchange-rate is positive. *)
Theorem C18_accepted_by_acb : forall rows txs,
  convert exact rows = Ok (txs, []) -> forallb row_sane rows = true ->
  Forall (fun t => acb_accepts t = true) txs.
Proof. exact QuestradeProps.convert_accepted. Qed.
Check C18_accepted_by_acb : forall rows txs,
  convert exact rows = Ok (txs, []) -> forallb row_sane rows = true ->
  Forall (fun t => acb_accepts t = true) txs.
Print Assumptions C18_accepted_by_acb.

Theorem C18_accepted_by_acb_options : forall o txs out,
  post_process o txs = Some out ->
  (forall x, o_rate o = Some x -> (0 < x)%Qc) ->
  Forall (fun t => acb_accepts t = true) txs -> Forall (fun t => acb_accepts t = true) out.
Proof. exact QuestradeProps.run_accepted. Qed.
Check C18_accepted_by_acb_options : forall o txs out,
  post_process o txs = Some out ->
  (forall x, o_rate o = Some x -> (0 < x)%Qc) ->
  Forall (fun t => acb_accepts t = true) txs -> Forall (fun t => acb_accepts t = true) out.
Print Assumptions C18_accepted_by_acb_options.

(* Non-vacuity: a 6-activity export (USD buy, CAD sell, a CAD/USD conversion,
   a USD dividend, a deposit) converts without error, is sane, yields 2 trade
   rows and 3 USD.FX rows moving 882.39 USD, one conversion of 1000 USD at
   1.35; and the blank-headed column leaves the fixed code's output unchanged. *)
Example C18_nonvacuous :
  exists rows txs,
    sheet_rows HeaderEnumerated ex_sheet = Some rows /\
    convert exact rows = Ok (txs, []) /\ forallb row_sane rows = true /\
    length (filter is_trade txs) = 2%nat /\ length (filter is_fx txs) = 3%nat /\
    Qceqb (usd_flow rows) (Qcfrac 88239 100) = true /\
    map (fun c => (this (fst (fst c)), this (snd (fst c)), snd c)) (rated txs)
    = [(1000 # 1, 27 # 20, 5%N)]%Q.
Proof. exact QuestradeProps.ex_sheet_facts. Qed.

Example C18_layout_nonvacuous :
  run exact HeaderEnumerated no_opts ex_sheet_blank = run exact HeaderEnumerated no_opts ex_sheet.
Proof. exact QuestradeProps.blank_header_enumerated_same. Qed.

(* both layout statements under the name used in DESIGN.md *)
Theorem C18_layout :
  (forall k h cells hdr rows,
     Forall (fun r => length r = length hdr) rows -> (k <= length hdr)%nat ->
     length cells = length rows -> unrelated_header h = true ->
     forall A o, run A HeaderEnumerated o (insert_col k h cells (hdr :: rows))
                 = run A HeaderEnumerated o (hdr :: rows)) /\
  (forall p hdr rows,
     NoDup p -> (forall i, (i < length hdr)%nat -> In i p) ->
     Forall (fun r => length r = length hdr) rows ->
     Forall (unique_name hdr) used_headers ->
     forall A o, run A HeaderEnumerated o (permute_cols p (hdr :: rows))
                 = run A HeaderEnumerated o (hdr :: rows)).
Proof. split; [exact C18_layout_insert | exact C18_layout_permute]. Qed.
Check C18_layout :
  (forall k h cells hdr rows,
     Forall (fun r => length r = length hdr) rows -> (k <= length hdr)%nat ->
     length cells = length rows -> unrelated_header h = true ->
     forall A o, run A HeaderEnumerated o (insert_col k h cells (hdr :: rows))
                 = run A HeaderEnumerated o (hdr :: rows)) /\
  (forall p hdr rows,
     NoDup p -> (forall i, (i < length hdr)%nat -> In i p) ->
     Forall (fun r => length r = length hdr) rows ->
     Forall (unique_name hdr) used_headers ->
     forall A o, run A HeaderEnumerated o (permute_cols p (hdr :: rows))
                 = run A HeaderEnumerated o (hdr :: rows)).
Print Assumptions C18_layout.
