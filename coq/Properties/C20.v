(* C20 - Statement FMV extraction returns every holding once; no page is
   skipped.  Obligations of the property; proofs live in Proofs/FmvProps.v and
   Proofs/PagesProps.v. *)
From Coq Require Import List NArith ZArith QArith Qcanon Bool.
From ACB Require Import Base.Outcome Base.QcExtra Model.QText Model.Fmv Model.Pages
     Spec.FmvTable Proofs.FmvProps Proofs.PagesProps.
Import ListNotations.
Local Open Scope N_scope.

(* ---- text layer ---- *)
(* Every well-formed laid-out table (any number of securities, any number of
   description lines with any content incl. digits, numbers at the end of the
   last description line or on a line of their own, a single 100% holding,
   any indentation, any lines before the header, any text after the total
   row) is returned exactly as listed: each security once, with its
   description lines joined by single spaces, its allocation, its market
   value, and the table total. *)
Theorem C20_table_roundtrip : forall t post,
  well_formed t = true -> parse_page (render_table t ++ post) = Ok (content t).
Proof. exact FmvProps.table_roundtrip. Qed.
Check C20_table_roundtrip : forall t post,
  well_formed t = true -> parse_page (render_table t ++ post) = Ok (content t).
Print Assumptions C20_table_roundtrip.

(* well_formed = layout_ok && unambiguous.  Outside [unambiguous] the property
   fails: a single 100% holding whose numbers stand on their own line
   ("100.0 50,000.00" has the shape of the total row) and whose description
   ends in two number-like tokens ("... 5.25 2030") is cut short: the
   extractor returns allocation 5.25 and market value 2030.  Known class
   [ambiguous]; the witness is replayed on the implementation by the check. *)
Theorem C20_ambiguous_total_refuted : exists t,
  layout_ok t = true /\ ambiguous t = true /\ parse_page (render_table t) <> Ok (content t).
Proof. exists FmvProps.ambiguous_witness. exact FmvProps.ambiguous_witness_fails. Qed.
Check C20_ambiguous_total_refuted : exists t,
  layout_ok t = true /\ ambiguous t = true /\ parse_page (render_table t) <> Ok (content t).
Print Assumptions C20_ambiguous_total_refuted.

Theorem C20_outside_ambiguous : forall t post,
  layout_ok t = true -> ambiguous t = false -> parse_page (render_table t ++ post) = Ok (content t).
Proof.
  intros t post Hl Ha. apply FmvProps.table_roundtrip. unfold well_formed, ambiguous in *.
  rewrite Hl in *. cbn [andb] in *. apply negb_false_iff in Ha. exact Ha.
Qed.
Check C20_outside_ambiguous : forall t post,
  layout_ok t = true -> ambiguous t = false -> parse_page (render_table t ++ post) = Ok (content t).
Print Assumptions C20_outside_ambiguous.

(* The statement: month taken from the first page that carries it, table from
   the first page carrying the marker, whatever surrounds them. *)
Theorem C20_statement_roundtrip : forall before mp between t post after d,
  Forall (fun p => has_marker p = false /\ month_date_of p = Ok None) before ->
  has_marker mp = false -> month_date_of mp = Ok (Some d) ->
  Forall (fun p => has_marker p = false) between ->
  has_marker (render_table t ++ post) = true ->
  well_formed t = true ->
  parse_statement_text (before ++ mp :: between ++ (render_table t ++ post) :: after)
  = Ok {| st_month := d; st_fmvs := fst (content t); st_total := snd (content t) |}.
Proof. exact FmvProps.statement_roundtrip. Qed.
Check C20_statement_roundtrip : forall before mp between t post after d,
  Forall (fun p => has_marker p = false /\ month_date_of p = Ok None) before ->
  has_marker mp = false -> month_date_of mp = Ok (Some d) ->
  Forall (fun p => has_marker p = false) between ->
  has_marker (render_table t ++ post) = true ->
  well_formed t = true ->
  parse_statement_text (before ++ mp :: between ++ (render_table t ++ post) :: after)
  = Ok {| st_month := d; st_fmvs := fst (content t); st_total := snd (content t) |}.
Print Assumptions C20_statement_roundtrip.

(* ---- pages ---- *)
Theorem C20_cover : forall n hints p,
  1 <= p <= n -> In p (concat (safe_page_chunks n hints)).
Proof. exact PagesProps.chunks_cover. Qed.
Check C20_cover : forall n hints p,
  1 <= p <= n -> In p (concat (safe_page_chunks n hints)).
Print Assumptions C20_cover.

Theorem C20_in_range : forall n hints p,
  In p (concat (safe_page_chunks n hints)) -> 1 <= p <= n.
Proof. exact PagesProps.chunks_in_range. Qed.
Check C20_in_range : forall n hints p,
  In p (concat (safe_page_chunks n hints)) -> 1 <= p <= n.
Print Assumptions C20_in_range.

(* For every page count, every hint list and every extractor that can read
   the pages 1..n: the iterator (code after the fix: the cache only grows)
   requests exactly the sanitised groups, yields exactly their pages in order
   with the text of that page, and ends normally. *)
Theorem C20_iter_yields_all : forall (T : Type) (prov : N -> option T) (txt : N -> T) n hints,
  (forall p, 1 <= p <= n -> prov p = Some (txt p)) ->
  run_iter T prov ResizeGrow [] (safe_page_chunks n hints)
  = (map (fun p => (p, txt p)) (concat (safe_page_chunks n hints)),
     safe_page_chunks n hints, IterDone).
Proof. exact PagesProps.iter_yields_all. Qed.
Check C20_iter_yields_all : forall (T : Type) (prov : N -> option T) (txt : N -> T) n hints,
  (forall p, 1 <= p <= n -> prov p = Some (txt p)) ->
  run_iter T prov ResizeGrow [] (safe_page_chunks n hints)
  = (map (fun p => (p, txt p)) (concat (safe_page_chunks n hints)),
     safe_page_chunks n hints, IterDone).
Print Assumptions C20_iter_yields_all.

(* The code before the fix (Vec::resize on every store): hint group [4,2] of
   a 4-page document panics on the first page (index out of bounds). *)
Theorem C20_descending_group_refuted :
  run_iter N (ident_prov 4) ResizeAlways [] (safe_page_chunks 4 [[4; 2]])
  = ([], [[4; 2]], IterPanic PSite.cache_index).
Proof. exact PagesProps.descending_group_always_panics. Qed.
Check C20_descending_group_refuted :
  run_iter N (ident_prov 4) ResizeAlways [] (safe_page_chunks 4 [[4; 2]])
  = ([], [[4; 2]], IterPanic PSite.cache_index).
Print Assumptions C20_descending_group_refuted.

(* ---- non-vacuity ---- *)
(* the repository's own single-holding example (two description lines with
   digits, numbers on their own line "100.0 99,999.99") is well-formed *)
Example C20_table_nonvacuous :
  well_formed single_holding_example = true /\
  length (fst (content single_holding_example)) = 1%nat.
Proof. split; vm_compute; reflexivity. Qed.

(* the shipped hints on a 9-page statement: groups, all pages, in range *)
Example C20_pages_nonvacuous :
  safe_page_chunks 9 [[1; 7]; [6; 8]] = [[1; 7]; [6; 8]; [2; 3; 4; 5; 9]] /\
  run_iter N (ident_prov 9) ResizeGrow [] (safe_page_chunks 9 [[1; 7]; [6; 8]])
  = ([(1,1); (7,7); (6,6); (8,8); (2,2); (3,3); (4,4); (5,5); (9,9)],
     [[1; 7]; [6; 8]; [2; 3; 4; 5; 9]], IterDone).
Proof. split; vm_compute; reflexivity. Qed.
