(* C19 - E*TRADE extraction accounts for every benefit and every sold share once.
   Obligations of the property; proofs live in Proofs/EtradeProps.v.

   Scope.  The theorems are about the matching core (Model/Etrade.v:
   find_sell_to_cover_trade_set, amend_benefit_sales, txs_from_data, row order,
   the Buy/Sell part of Tx::try_from) over abstract records: benefit entries and
   trade confirmations as the text layer hands them over, in file order.  They
   hold for EVERY arithmetic record [A] (in particular [dec], rust_decimal as it
   runs, and [exact]), every number of benefits and trades, every order.  The
   regex text layer is not modelled (differential check only).

   Cost.  The search enumerates all 2^n - 1 non-empty sub-lists of the n
   candidate trades of a benefit (C19_search_space_exponential): it terminates
   (structural recursion) but its cost is not polynomially bounded. *)
From Coq Require Import List NArith ZArith QArith Qcanon Bool Permutation Sorted.
From ACB Require Import Base.Outcome Base.QcExtra Base.Fit Base.Arith Model.Etrade Proofs.EtradeProps.
Import ListNotations.
Local Open Scope Z_scope.

(* Each benefit yields exactly one purchase: the Buy rows carrying a plan note
   are, as a multiset, one row per benefit with the released / purchased shares
   at the stated FMV on the release / purchase date (commission 0). *)
Theorem C19_each_benefit_one_buy : forall A bs ts rows,
  extract A bs ts = Ok rows ->
  Permutation (filter is_plan_buy (map r_core rows)) (map buy_core bs).
Proof. exact EtradeProps.each_benefit_one_buy. Qed.
Check C19_each_benefit_one_buy : forall A bs ts rows,
  extract A bs ts = Ok rows ->
  Permutation (filter is_plan_buy (map r_core rows)) (map buy_core bs).
Print Assumptions C19_each_benefit_one_buy.

(* Every trade confirmation is used exactly once.  Whenever rows are emitted
   there are sets [ms] (one per benefit, in benefit order) and leftovers [left]
   with:  the trade confirmations are, as a multiset, the matched sets plus the
   leftovers;  a benefit without sold shares matches nothing, a benefit with
   sold shares [sh] matches a non-empty set of sales of the same security
   traded within [benefit date, +5 days] whose share counts add up to [sh]
   (matched_ok; the sum is the one the code computes, [sum_shares A]);  sold
   shares come with sale price and fee (stc_complete);  and the emitted rows are,
   as a multiset, per benefit its purchase plus (if it sold shares) ONE sale of
   [sh] shares at the benefit's sale price and fee dated as the first matched
   trade (spec_rows_of), plus one "(manual trade)" row per leftover with the
   trade's own dates, action, quantity, price and fees (manual_core). *)
Theorem C19_each_trade_once : forall A bs ts rows,
  extract A bs ts = Ok rows ->
  exists (ms : list (list trade)) (left : list trade),
    length ms = length bs
    /\ Permutation ts (concat ms ++ left)
    /\ Forall (fun m => subseq m ts) ms /\ subseq left ts
    /\ Forall2 (matched_ok A) bs ms
    /\ Forall stc_complete bs
    /\ Permutation (map r_core rows)
         (flat_map (fun bm => spec_rows_of (fst bm) (snd bm)) (combine bs ms) ++ map manual_core left)
    /\ sorted_by_settlement rows.
Proof. exact EtradeProps.extract_structure. Qed.
Check C19_each_trade_once : forall A bs ts rows,
  extract A bs ts = Ok rows ->
  exists (ms : list (list trade)) (left : list trade),
    length ms = length bs
    /\ Permutation ts (concat ms ++ left)
    /\ Forall (fun m => subseq m ts) ms /\ subseq left ts
    /\ Forall2 (matched_ok A) bs ms
    /\ Forall stc_complete bs
    /\ Permutation (map r_core rows)
         (flat_map (fun bm => spec_rows_of (fst bm) (snd bm)) (combine bs ms) ++ map manual_core left)
    /\ sorted_by_settlement rows.
Print Assumptions C19_each_trade_once.

(* A sell-to-cover that cannot be matched is an error, not a guess: if for some
   benefit with sold shares [sh] NO non-empty sub-list of the trade
   confirmations consists of eligible sales adding up to [sh], no rows are
   emitted at all (the run ends in an error; with [dec] possibly in an
   arithmetic panic). *)
Theorem C19_unmatched_is_error : forall A bs ts b sh,
  In b bs -> b_stc_shares b = Some sh ->
  (forall m, subseq m ts -> m <> [] -> Forall (eligible b) m -> sum_shares A m <> Ok sh) ->
  forall rows, extract A bs ts <> Ok rows.
Proof. exact EtradeProps.unmatched_is_error. Qed.
Check C19_unmatched_is_error : forall A bs ts b sh,
  In b bs -> b_stc_shares b = Some sh ->
  (forall m, subseq m ts -> m <> [] -> Forall (eligible b) m -> sum_shares A m <> Ok sh) ->
  forall rows, extract A bs ts <> Ok rows.
Print Assumptions C19_unmatched_is_error.

(* ... and when the benefit states no sale price to compare with, a set is
   chosen only if it is the ONLY set of candidates that adds up. *)
Theorem C19_no_price_no_guess : forall A b sh cands m,
  b_stc_price b = None ->
  find_sell_to_cover_trade_set A b sh cands = Ok (Found m) ->
  matching_combos A b sh (all_combos cands) = Ok [m].
Proof. exact EtradeProps.find_noprice_unique. Qed.
Check C19_no_price_no_guess : forall A b sh cands m,
  b_stc_price b = None ->
  find_sell_to_cover_trade_set A b sh cands = Ok (Found m) ->
  matching_combos A b sh (all_combos cands) = Ok [m].
Print Assumptions C19_no_price_no_guess.

(* Rows are ordered by settlement date. *)
Theorem C19_sorted : forall A bs ts rows,
  extract A bs ts = Ok rows ->
  StronglySorted (fun x y => c_sd (r_core x) <= c_sd (r_core y)) rows.
Proof.
  intros A bs ts rows H.
  destruct (EtradeProps.extract_structure A bs ts rows H) as [ms [left [_ [_ [_ [_ [_ [_ [_ Hs]]]]]]]]].
  exact Hs.
Qed.
Check C19_sorted : forall A bs ts rows,
  extract A bs ts = Ok rows ->
  StronglySorted (fun x y => c_sd (r_core x) <= c_sd (r_core y)) rows.
Print Assumptions C19_sorted.

(* Every emitted row passes the executable mirror of Tx::try_from, provided
   the documents state positive share counts and non-negative prices and fees
   (the text layer only reads unsigned numbers; a zero share count is the one
   thing it does not exclude, see C19_zero_shares_needs_hypothesis). *)
Theorem C19_accepted_by_acb : forall A bs ts rows,
  Forall wf_benefit bs -> Forall wf_trade ts ->
  extract A bs ts = Ok rows ->
  Forall (fun r => acb_accepts (r_core r) = true) rows.
Proof. exact EtradeProps.accepted_by_acb. Qed.
Check C19_accepted_by_acb : forall A bs ts rows,
  Forall wf_benefit bs -> Forall wf_trade ts ->
  extract A bs ts = Ok rows ->
  Forall (fun r => acb_accepts (r_core r) = true) rows.
Print Assumptions C19_accepted_by_acb.

(* The subset-sum search is exhaustive and exponential. *)
Theorem C19_search_space_exponential : forall (cands : list itrade),
  (length (all_combos cands) = 2 ^ length cands - 1)%nat.
Proof. exact (@EtradeProps.all_combos_length itrade). Qed.
Check C19_search_space_exponential : forall (cands : list itrade),
  (length (all_combos cands) = 2 ^ length cands - 1)%nat.
Print Assumptions C19_search_space_exponential.

(* "Adding up" is meant literally under rust_decimal arithmetic: trade
   confirmations state whole share counts, and while the total stays below 2^96
   the sum computed with [dec] is the exact sum (the same as with [exact]). *)
Theorem C19_dec_sum_exact_on_whole_shares : forall ts zs,
  Forall2 whole_shares ts zs -> zsum zs <= max_mant ->
  sum_shares dec ts = Ok (Qcfrac (zsum zs) 1) /\ sum_shares exact ts = sum_shares dec ts.
Proof. exact EtradeProps.dec_sum_whole_shares_exact. Qed.
Check C19_dec_sum_exact_on_whole_shares : forall ts zs,
  Forall2 whole_shares ts zs -> zsum zs <= max_mant ->
  sum_shares dec ts = Ok (Qcfrac (zsum zs) 1) /\ sum_shares exact ts = sum_shares dec ts.
Print Assumptions C19_dec_sum_exact_on_whole_shares.

(* ---------------------------------------------------------------------
   Non-vacuity.  An RSU release (100 shares, 10 sold at 106.36) and an ESPP
   purchase without sale, with four trade confirmations: 6 + 4 shares sold the
   next day (average price exactly 106.36), a single sale of 10 shares at 150
   the same day (equal share count: the price decides against it) and a
   purchase.  Under rust_decimal arithmetic the run emits 5 rows: the two
   benefit purchases, one sell-to-cover of 10 dated as the 6-share trade, and
   two manual trades; ordered by settlement date. *)
Definition q (n : Z) (d : positive) := Qcfrac n d.
Definition ex_rsu : benefit :=
  {| b_sec := 0; b_date := 100; b_settle := 100; b_price := q 10561 100; b_shares := q 100 1;
     b_stc_td := None; b_stc_sd := None; b_stc_price := Some (q 10636 100);
     b_stc_shares := Some (q 10 1); b_stc_fee := Some (q 417 100); b_note := 0; b_sell_note := None |}.
Definition ex_espp : benefit :=
  {| b_sec := 0; b_date := 98; b_settle := 98; b_price := q 1005 10; b_shares := q 57 1;
     b_stc_td := None; b_stc_sd := None; b_stc_price := None; b_stc_shares := None;
     b_stc_fee := None; b_note := 1; b_sell_note := None |}.
Definition mkt td sd a pr sh tg : trade :=
  {| t_sec := 0; t_td := td; t_sd := sd; t_act := a; t_price := pr; t_shares := sh;
     t_comm := q 5 100; t_tag := tg |}.
Definition ex_trades : list trade :=
  [ mkt 101 105 ASell (q 15000 100) (q 10 1) 0;
    mkt 101 103 ASell (q 10630 100) (q 6 1) 1;
    mkt 99 100 ABuy (q 9000 100) (q 3 1) 2;
    mkt 101 103 ASell (q 10645 100) (q 4 1) 3 ].
Ltac qc_conc :=
  first [ apply Qcltb_true; vm_compute; reflexivity | apply Qcleb_true; vm_compute; reflexivity ].
Definition row_view (r : row) :=
  (c_sd (r_core r), c_act (r_core r), Qnum (this (c_shares (r_core r))), c_memo (r_core r), r_ri r).

Example C19_nonvacuous :
  Forall wf_benefit [ex_rsu; ex_espp] /\ Forall wf_trade ex_trades /\
  match extract dec [ex_rsu; ex_espp] ex_trades with
  | Ok rows =>
      map row_view rows
      = [ (98, ABuy, 57, MemoPlan 1, 2%nat);
          (100, ABuy, 100, MemoPlan 0, 0%nat);
          (100, ABuy, 3, MemoManual, 4%nat);
          (103, ASell, 10, MemoPlanSell 0 None, 1%nat);
          (105, ASell, 10, MemoManual, 3%nat) ]
  | _ => False
  end.
Proof.
  assert (Hb : forall b, In b [ex_rsu; ex_espp] -> wf_benefit b).
  { intros b [<-|[<-|[]]]; unfold wf_benefit; cbn [ex_rsu ex_espp b_shares b_price b_stc_shares b_stc_price b_stc_fee];
      repeat split; try qc_conc; intros x Heq; (discriminate Heq || (inversion Heq; subst x; qc_conc)). }
  assert (Ht : forall t, In t ex_trades -> wf_trade t).
  { intros t [<-|[<-|[<-|[<-|[]]]]]; unfold wf_trade; cbn [mkt t_shares t_price t_comm]; repeat split; qc_conc. }
  split; [apply Forall_forall; exact Hb|]. split; [apply Forall_forall; exact Ht|].
  vm_compute. reflexivity.
Qed.

(* The hypothesis of C19_unmatched_is_error is satisfiable, and the outcome is
   then the error of amend_benefit_sales: the same release with only a sale six
   days later. *)
Example C19_unmatched_nonvacuous :
  extract dec [ex_rsu] [mkt 106 108 ASell (q 10636 100) (q 10 1) 0] = Rej rej_amend_errors
  /\ extract exact [ex_rsu] [mkt 106 108 ASell (q 10636 100) (q 10 1) 0] = Rej rej_amend_errors.
Proof. split; vm_compute; reflexivity. Qed.

(* Positive share counts are needed for C19_accepted_by_acb: a release of
   0 shares is emitted as a Buy of 0 shares, which Tx::try_from rejects. *)
Definition ex_zero : benefit :=
  {| b_sec := 0; b_date := 100; b_settle := 100; b_price := q 10561 100; b_shares := q 0 1;
     b_stc_td := None; b_stc_sd := None; b_stc_price := None; b_stc_shares := None;
     b_stc_fee := None; b_note := 0; b_sell_note := None |}.
Example C19_zero_shares_needs_hypothesis :
  match extract dec [ex_zero] [] with
  | Ok [r] => acb_accepts (r_core r) = false
  | _ => False
  end.
Proof. vm_compute. reflexivity. Qed.

(* ========================================================================
   Text layer (src/peripheral/broker/etrade.rs): Model/EtradeText.v,
   Spec/EtradeLayout.v; proofs in Proofs/EtradeTextRT.v, EtradeTextProps.v.   *)
From ACB Require Import Model.QText Model.EtradeText Spec.EtradeLayout Proofs.EtradeTextRT Proofs.EtradeTextProps
  Proofs.EtradeTextESPP Proofs.EtradeTextESO Proofs.EtradeTextTotal Proofs.EtradeTextPre.

(* The statement's data is returned exactly: for EVERY well-formed release
   confirmation (any symbol of upper-case letters and dots, any valid date, any
   award number, any amounts digits.digits of at most 28 digits), in both
   white-space styles, the RSU parser returns the printed data. *)
Theorem C19_rsu_text_roundtrip : forall st r,
  wf_rsu r = true -> parse_rsu (render_rsu st r) = Ok (rsu_record r).
Proof. exact rsu_text_roundtrip. Qed.
Check C19_rsu_text_roundtrip : forall st r,
  wf_rsu r = true -> parse_rsu (render_rsu st r) = Ok (rsu_record r).
Print Assumptions C19_rsu_text_roundtrip.

(* ... and the document is classified as a release confirmation and reaches
   the matching core as the abstract record. *)
Theorem C19_rsu_doc_roundtrip : forall st r, wf_rsu r = true ->
  parse_text (render_rsu st r) = Ok (Benefits [rsu_record r])
  /\ parse_doc (render_rsu st r) = Ok (Some ([abs_benefit (rsu_record r)], [])).
Proof. exact rsu_doc_roundtrip. Qed.
Check C19_rsu_doc_roundtrip : forall st r, wf_rsu r = true ->
  parse_text (render_rsu st r) = Ok (Benefits [rsu_record r])
  /\ parse_doc (render_rsu st r) = Ok (Some ([abs_benefit (rsu_record r)], [])).
Print Assumptions C19_rsu_doc_roundtrip.

(* Post-2023 (Morgan Stanley) trade confirmation: any account of letters,
   digits and '-', any valid dates MM/DD/YYYY, whole quantity, price
   digits.digits, a transaction type of words that TxAction::try_from accepts,
   commission and fee lines each present or absent. *)
Theorem C19_tc_post_text_roundtrip : forall st r,
  wf_post r = true -> parse_tc_post (render_tc_post st r) = Ok (post_record r).
Proof. exact post_text_roundtrip. Qed.
Check C19_tc_post_text_roundtrip : forall st r,
  wf_post r = true -> parse_tc_post (render_tc_post st r) = Ok (post_record r).
Print Assumptions C19_tc_post_text_roundtrip.

(* ESPP purchase confirmations: any symbol, any valid date, amounts digits.digits of at most 28
   digits, each of the three sell-to-cover lines (shares sold, sale price, fees) present or absent
   independently, both styles. *)
Theorem C19_espp_text_roundtrip : forall st r,
  wf_espp r = true -> parse_espp (render_espp st r) = Ok (espp_record r).
Proof. exact espp_text_roundtrip. Qed.
Check C19_espp_text_roundtrip : forall st r,
  wf_espp r = true -> parse_espp (render_espp st r) = Ok (espp_record r).
Print Assumptions C19_espp_text_roundtrip.

(* Option-exercise confirmations: any number n >= 1 of grants (grant numbers of at most 19 digits, amounts
   with thousands separators, a common sale price, a fee sum that does not overflow), any exercise type of
   words, any valid date, both styles: n grants in, n benefits out, the sell-to-cover on the last. *)
Theorem C19_eso_text_roundtrip : forall st r,
  wf_eso r = true -> parse_eso (render_eso st r) = Ok (eso_records r).
Proof. exact eso_text_roundtrip. Qed.
Check C19_eso_text_roundtrip : forall st r,
  wf_eso r = true -> parse_eso (render_eso st r) = Ok (eso_records r).
Print Assumptions C19_eso_text_roundtrip.

(* Pre-2023 trade confirmations: any account, ANY number n >= 1 of trade rows (valid dates MM/DD/YY, any
   symbol, an action word of upper-case letters that TxAction::try_from accepts, whole quantity, price
   digits.digits, a COMMISSION line and/or a FEE line -- at least one, as in the real documents), both
   styles: n rows in, n trades out, numbered 1..n, in order. *)
Theorem C19_tc_pre_text_roundtrip : forall st r, wf_pre r = true ->
  parse_tc_pre (render_tc_pre st r) = Ok (pre_records (pr_acct r) 1 (pr_rows r)).
Proof. exact pre_text_roundtrip. Qed.
Check C19_tc_pre_text_roundtrip : forall st r, wf_pre r = true ->
  parse_tc_pre (render_tc_pre st r) = Ok (pre_records (pr_acct r) 1 (pr_rows r)).
Print Assumptions C19_tc_pre_text_roundtrip.
Example C19_tc_pre_text_roundtrip_nonvacuous : wf_pre ex_pre = true /\ length (pr_rows ex_pre) = 3%nat.
Proof. split; vm_compute; reflexivity. Qed.

(* Totality of the text layer is REFUTED: parse_eso_entries adds the per-grant
   fees with rust_decimal's `+`, which panics on overflow. *)
Theorem C19_text_never_panics_refuted : exists s, parse_doc s = Panic PanicOverflow.
Proof. exact doc_never_panics_refuted. Qed.
Check C19_text_never_panics_refuted : exists s, parse_doc s = Panic PanicOverflow.
Print Assumptions C19_text_never_panics_refuted.

(* ... and that is the ONLY panic of the text layer: a text that is not classified as an option-exercise
   confirmation never panics (RSU, ESPP and both trade parsers; the commission + fee addition of two
   \d+\.\d+ amounts cannot overflow: each is at most (2^96-1)/10), and inside an exercise confirmation the
   only panic is the overflow of the fee sum. *)
Theorem C19_text_panics_only_in_eso : forall s,
  classify_doc s <> Some KEso -> forall p, parse_text s <> Panic p.
Proof. exact text_panics_only_in_eso. Qed.
Check C19_text_panics_only_in_eso : forall s,
  classify_doc s <> Some KEso -> forall p, parse_text s <> Panic p.
Print Assumptions C19_text_panics_only_in_eso.
Theorem C19_text_panic_is_eso_fee_overflow : forall s p,
  parse_text s = Panic p -> classify_doc s = Some KEso /\ p = PanicOverflow.
Proof. exact eso_panic_is_fee_overflow. Qed.
Check C19_text_panic_is_eso_fee_overflow : forall s p,
  parse_text s = Panic p -> classify_doc s = Some KEso /\ p = PanicOverflow.
Print Assumptions C19_text_panic_is_eso_fee_overflow.

(* Option exercises (after the fix c454485 of parse_eso_data): parse_eso either
   reports an error or returns EXACTLY one benefit per `Grant <n>` marker of the
   exercise details, as many as there are rows of each of the five kinds, the
   k-th benefit built from the k-th row of each kind (FMV, exercised shares,
   grant number).  No grant is silently dropped, no value shifts to another grant. *)
Theorem C19_eso_rows_complete_or_error : forall s bs, parse_eso s = Ok bs ->
  exists header body nums fmvs shares sales fees,
    eso_split s = Some (header, body) /\
    search_for_rows k_grant_number vp_digits body = Ok nums /\
    search_for_dec_rows k_exercise_mv true body = Ok fmvs /\
    search_for_dec_rows k_shares_exercised false body = Ok shares /\
    search_for_dec_rows k_sale_price true body = Ok sales /\
    search_for_dec_rows k_comission_fee true body = Ok fees /\
    length bs = grant_markers body /\
    length nums = length bs /\ length fmvs = length bs /\ length shares = length bs /\
    length sales = length bs /\ length fees = length bs /\
    forall k, (k < length bs)%nat ->
      tb_price (nth k bs db) = nth k fmvs 0%Qc /\ tb_shares (nth k bs db) = nth k shares 0%Qc
      /\ tb_note (nth k bs db) = (k_option_grant_ ++ digits_of_N (u64_or_zero (nth k nums [])))%list.
Proof. exact eso_rows_complete_or_error. Qed.
Check C19_eso_rows_complete_or_error : forall s bs, parse_eso s = Ok bs ->
  exists header body nums fmvs shares sales fees,
    eso_split s = Some (header, body) /\
    search_for_rows k_grant_number vp_digits body = Ok nums /\
    search_for_dec_rows k_exercise_mv true body = Ok fmvs /\
    search_for_dec_rows k_shares_exercised false body = Ok shares /\
    search_for_dec_rows k_sale_price true body = Ok sales /\
    search_for_dec_rows k_comission_fee true body = Ok fees /\
    length bs = grant_markers body /\
    length nums = length bs /\ length fmvs = length bs /\ length shares = length bs /\
    length sales = length bs /\ length fees = length bs /\
    forall k, (k < length bs)%nat ->
      tb_price (nth k bs db) = nth k fmvs 0%Qc /\ tb_shares (nth k bs db) = nth k shares 0%Qc
      /\ tb_note (nth k bs db) = (k_option_grant_ ++ digits_of_N (u64_or_zero (nth k nums [])))%list.
Print Assumptions C19_eso_rows_complete_or_error.

(* The regression document of the fixed defect (two grants named, the second
   without its Comission/Fee row) is now an error; and the hypothesis of the
   theorem above is satisfiable (three grants, three benefits). *)
Example C19_eso_incomplete_is_error :
  grant_number_rows dropped_grant_witness = 2%nat /\
  parse_text dropped_grant_witness = Rej (RejOther TErr.eso_incomplete).
Proof. exact eso_incomplete_rejected. Qed.
Example C19_eso_rows_complete_nonvacuous :
  match parse_eso (render_eso false ex_eso) with Ok bs => length bs = 3%nat | _ => False end.
Proof. vm_compute. reflexivity. Qed.

(* Non-vacuity *)
Example C19_rsu_text_roundtrip_nonvacuous :
  wf_rsu ex_rsu = true /\ tb_note (rsu_record ex_rsu) = ex_rsu_note
  /\ tb_date (rsu_record ex_rsu) = 738813%Z.
Proof. split; [exact ex_rsu_wf|]. split; vm_compute; reflexivity. Qed.
Example C19_tc_post_text_roundtrip_nonvacuous :
  wf_post ex_post = true /\ tt_act (post_record ex_post) = XSell
  /\ Qceqb (tt_comm (post_record ex_post)) (Qcfrac 412 100) = true.
Proof. split; [exact ex_post_wf|]. split; vm_compute; reflexivity. Qed.
