(* C10: when do the two window scans of a sale give the same answer in two
   runs?  The rows behind the sale may differ beyond the window (the summary
   replaces them), a re-emitted sale carries another superficial-loss cell,
   and cost-base adjustments that the full history generated on the fly are
   ordinary rows of the summary. *)
From Coq Require Import List NArith ZArith QArith Qcanon Bool Lia.
From ACB Require Import Base.Outcome Base.QcExtra Base.Arith Model.Tx Model.Ledger Model.Sfl
     Model.DeltaList Proofs.Tactics.
Import ListNotations.
Local Open Scope Qc_scope.

(* the same row with another superficial-loss cell (sales only) *)
Definition respec (t : tx) (sp : option (Qc * bool)) : tx :=
  match t_act t with
  | Sell sh aps com rate crate _ =>
      {| t_sec := t_sec t; t_td := t_td t; t_sd := t_sd t; t_act := Sell sh aps com rate crate sp;
         t_af := t_af t; t_glob := t_glob t; t_ri := t_ri t |}
  | _ => t
  end.
Definition row_sim (t2 t1 : tx) : Prop := exists sp, t2 = respec t1 sp.

Lemma row_sim_refl t : row_sim t t.
Proof.
  unfold row_sim, respec. destruct t as [sec td sd act af gl ri]. cbn [t_act].
  destruct act; try (exists None; reflexivity). exists sfl. reflexivity.
Qed.
Lemma respec_sd t sp : t_sd (respec t sp) = t_sd t.
Proof. unfold respec. destruct (t_act t); reflexivity. Qed.
Lemma respec_af t sp : t_af (respec t sp) = t_af t.
Proof. unfold respec. destruct (t_act t); reflexivity. Qed.
Lemma Forall2_row_sim_refl l : Forall2 row_sim l l.
Proof. induction l; constructor; [apply row_sim_refl | assumption]. Qed.

(* ---------------------------------------------------------------- the default holdings, extensionally *)
Section Any.
  Variable A : arith.

  Lemma fwd_scan_ext last d1 d2 aft : (forall af, d1 af = d2 af) ->
    forall adj s, fwd_scan A last d1 aft adj s = fwd_scan A last d2 aft adj s.
  Proof.
    intros Hd. induction aft as [|x aft IH]; intros adj s; cbn [fwd_scan]; [reflexivity|].
    destruct (Z.ltb last (t_sd x)); [reflexivity|].
    destruct (t_act x); rewrite ?(Hd (t_af x));
      repeat (match goal with |- bind ?m _ = bind ?m _ => destruct m; cbn [bind]; try reflexivity end);
      try (destruct (Qcltb _ _); try reflexivity);
      repeat (match goal with |- bind ?m _ = bind ?m _ => destruct m; cbn [bind]; try reflexivity end);
      try (destruct (Qcltb _ _); try reflexivity);
      apply IH.
  Qed.

  Lemma bwd_scan_ext first d1 d2 bef : (forall af, d1 af = d2 af) ->
    forall adj s, bwd_scan A first d1 bef adj s = bwd_scan A first d2 bef adj s.
  Proof.
    intros Hd. induction bef as [|x bef IH]; intros adj s; cbn [bwd_scan]; [reflexivity|].
    destruct (Z.ltb (t_sd x) first); [reflexivity|].
    destruct (t_act x); rewrite ?(Hd (t_af x));
      repeat (match goal with |- bind ?m _ = bind ?m _ => destruct m; cbn [bind]; try reflexivity end);
      apply IH.
  Qed.

  (* ---------------------------------------------------------------- backward scan *)
  (* the rows of [B] lie before the window *)
  Definition out_of (first : Z) (B : list tx) : Prop :=
    match B with [] => True | b :: _ => (t_sd b < first)%Z end.

  Lemma bwd_scan_out first dflt B adj s : out_of first B -> bwd_scan A first dflt B adj s = Ok s.
  Proof.
    destruct B as [|b B]; intros H; cbn [bwd_scan]; [reflexivity|].
    cbn [out_of] in H. apply Z.ltb_lt in H. rewrite H. reflexivity.
  Qed.

  (* rows the backward scan gets nothing from: rows before the window, behind any number of sales *)
  Definition inert (first : Z) (B : list tx) : Prop := forall dflt adj s, bwd_scan A first dflt B adj s = Ok s.
  Lemma out_inert first B : out_of first B -> inert first B.
  Proof. intros H dflt adj s. apply bwd_scan_out. exact H. Qed.
  Lemma sells_inert first S R : Forall (fun t => is_sell (t_act t) = true) S -> inert first R -> inert first (S ++ R).
  Proof.
    induction 1 as [|t S Ht HS IH]; intros HR; [exact HR|]. intros dflt adj s. cbn [app bwd_scan].
    destruct (Z.ltb (t_sd t) first); [reflexivity|]. destruct (t_act t); try discriminate. apply IH. exact HR.
  Qed.

  Lemma bwd_same first dflt D2 D1 : Forall2 row_sim D2 D1 -> forall B2 B1 adj s,
    inert first B1 -> inert first B2 ->
    bwd_scan A first dflt (D2 ++ B2) adj s = bwd_scan A first dflt (D1 ++ B1) adj s.
  Proof.
    induction 1 as [|t2 t1 D2 D1 [sp Ht] HD IH]; intros B2 B1 adj s H1 H2; cbn [app].
    - rewrite (H1 dflt adj s), (H2 dflt adj s). reflexivity.
    - subst t2. cbn [bwd_scan]. rewrite respec_sd, respec_af.
      destruct (Z.ltb (t_sd t1) first); [reflexivity|].
      unfold respec. destruct (t_act t1) eqn:Ea; rewrite ?Ea; cbn [t_act];
        repeat (match goal with |- bind ?m _ = bind ?m _ => destruct m; cbn [bind]; try reflexivity end);
        apply IH; assumption.
  Qed.
End Any.

(* the acquisitions counted by the backward scan only grow *)
Lemma bwd_mono first dflt B : forall adj s s1,
  bwd_scan exact first dflt B adj s = Ok s1 -> sc_acq s <= sc_acq s1.
Proof.
  induction B as [|x B IH]; intros adj s s1 H; cbn [bwd_scan] in H.
  - inversion H; subst. apply Qcle_refl.
  - destruct (Z.ltb (t_sd x) first); [inversion H; subst; apply Qcle_refl|].
    destruct (t_act x).
    + bind_as H as b Eb. apply pos_mul_exact in Eb as [-> Hb].
      bind_as H as acq Ea. apply gez_add_exact in Ea as [-> _].
      apply IH in H. cbn [sc_acq] in H. qc_lra.
    + eapply IH; eassumption.
    + eapply IH; eassumption.
    + eapply IH; eassumption.
    + bind_as H as f Ef. bind_as H as nsa En. eapply IH; eassumption.
Qed.

(* a scan that sees only part of what the other sees (the rest of its rows lie
   before the window) succeeds when the other does, with fewer acquisitions *)
Lemma bwd_prefix first dflt D2 D1 : Forall2 row_sim D2 D1 -> forall B2 B1 adj s s1,
  inert exact first B2 ->
  bwd_scan exact first dflt (D1 ++ B1) adj s = Ok s1 ->
  exists s2, bwd_scan exact first dflt (D2 ++ B2) adj s = Ok s2 /\ sc_acq s2 <= sc_acq s1.
Proof.
  induction 1 as [|t2 t1 D2 D1 [sp Ht] HD IH]; intros B2 B1 adj s s1 H2 H; cbn [app] in *.
  - rewrite (H2 dflt adj s). exists s. split; [reflexivity|]. eapply bwd_mono; eassumption.
  - subst t2. cbn [bwd_scan] in *. rewrite respec_sd, respec_af.
    destruct (Z.ltb (t_sd t1) first).
    + inversion H; subst. exists s1. split; [reflexivity | apply Qcle_refl].
    + unfold respec. destruct (t_act t1) eqn:Ea; rewrite ?Ea; cbn [t_act].
      * bind_as H as b Eb. cbn [bind]. bind_as H as acq Eq. cbn [bind]. eapply IH; eassumption.
      * eapply IH; eassumption.
      * eapply IH; eassumption.
      * eapply IH; eassumption.
      * bind_as H as f Ef. cbn [bind]. bind_as H as nsa En. cbn [bind]. eapply IH; eassumption.
Qed.

(* ---------------------------------------------------------------- forward scan *)
(* [aft2] is [aft1] with sales re-specified and with cost-base adjustments
   inserted, each dated as the row before it ([c] = date of the row before) *)
Inductive fw_rel : Z -> list tx -> list tx -> Prop :=
| fw_nil c : fw_rel c [] []
| fw_cons c t2 t1 r2 r1 : row_sim t2 t1 -> fw_rel (t_sd t1) r2 r1 -> fw_rel c (t2 :: r2) (t1 :: r1)
| fw_sfla c t2 r2 r1 : is_sfla (t_act t2) = true -> t_sd t2 = c -> fw_rel c r2 r1 -> fw_rel c (t2 :: r2) r1.

Lemma fw_rel_refl c l : fw_rel c l l.
Proof. revert c. induction l; intros c; constructor; [apply row_sim_refl | apply IHl]. Qed.

Lemma fwd_rel_same A last dflt aft2 aft1 c : fw_rel c aft2 aft1 -> (c <= last)%Z ->
  forall adj s, fwd_scan A last dflt aft2 adj s = fwd_scan A last dflt aft1 adj s.
Proof.
  induction 1 as [c|c t2 t1 r2 r1 [sp Ht] Hr IH|c t2 r2 r1 Hs Hc Hr IH]; intros Hle adj s.
  - reflexivity.
  - subst t2. cbn [fwd_scan]. rewrite respec_sd, respec_af.
    destruct (Z.ltb last (t_sd t1)) eqn:El; [reflexivity|]. apply Z.ltb_ge in El.
    unfold respec. destruct (t_act t1) eqn:Ea; rewrite ?Ea; cbn [t_act];
      repeat (match goal with |- bind ?m _ = bind ?m _ => destruct m; cbn [bind]; try reflexivity end);
      try (destruct (Qcltb _ _); try reflexivity);
      repeat (match goal with |- bind ?m _ = bind ?m _ => destruct m; cbn [bind]; try reflexivity end);
      try (destruct (Qcltb _ _); try reflexivity);
      apply IH; exact El.
  - cbn [fwd_scan]. assert (El : Z.ltb last (t_sd t2) = false) by (apply Z.ltb_ge; lia).
    rewrite El. destruct (t_act t2); try discriminate. apply IH. exact Hle.
Qed.

Lemma fw_rel_app c l2 l1 T : fw_rel c l2 l1 -> fw_rel c (l2 ++ T) (l1 ++ T).
Proof.
  induction 1; cbn [app].
  - apply fw_rel_refl.
  - constructor; assumption.
  - apply fw_sfla; assumption.
Qed.
