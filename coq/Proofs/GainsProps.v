(* C06: totals equal the sums of what they summarise (exact arithmetic). *)
From Coq Require Import List NArith ZArith QArith Qcanon Bool Lia Permutation.
From ACB Require Import Base.Outcome Base.QcExtra Base.Arith Model.Tx Model.Gains Proofs.Tactics.
Import ListNotations.
Local Open Scope Qc_scope.

Definition g0 (o : option Qc) : Qc := match o with Some c => c | None => 0 end.
Definition year_val (y : Z) (l : list (Z * Qc)) : Qc := g0 (zlookup y l).

(* specification sums *)
Fixpoint sum_all (rows : list (Z * option Qc)) : Qc :=
  match rows with [] => 0 | r :: rest => g0 (snd r) + sum_all rest end.
Fixpoint sum_year (y : Z) (rows : list (Z * option Qc)) : Qc :=
  match rows with
  | [] => 0
  | r :: rest => (if Z.eqb (year_of_day (fst r)) y then g0 (snd r) else 0) + sum_year y rest
  end.

Lemma zlookup_zupdate k k' v l :
  zlookup k (zupdate k' v l) = if Z.eqb k k' then Some v else zlookup k l.
Proof.
  induction l as [|[k0 v0] l IH]; cbn [zupdate zlookup].
  - destruct (Z.eqb k k'); reflexivity.
  - destruct (Z.eqb k' k0) eqn:E0; cbn [zlookup].
    + apply Z.eqb_eq in E0. subst k0. destruct (Z.eqb k k'); reflexivity.
    + destruct (Z.eqb k k0) eqn:E1.
      * apply Z.eqb_eq in E1. subst k0. rewrite Z.eqb_sym, E0. reflexivity.
      * exact IH.
Qed.

Lemma security_gains_spec g rows g' :
  security_gains exact g rows = Ok g' ->
  g_total g' = g_total g + sum_all rows /\
  forall y, year_val y (g_years g') = year_val y (g_years g) + sum_year y rows.
Proof.
  revert g. induction rows as [|[d o] rows IH]; intros g H; cbn [security_gains] in H.
  - inversion H; subst. split; [cbn; ring | intros y; cbn; ring].
  - bind_as H as g1 E1. apply IH in H as [Ht Hy]. unfold add_gain in E1. cbn [fst snd] in E1.
    destruct o as [c|].
    + cbn [a_add exact bind] in E1. inversion E1; subst g1; clear E1. cbn [g_total g_years] in *.
      split.
      * rewrite Ht. cbn [sum_all snd g0]. ring.
      * intros y. rewrite Hy. cbn [sum_year fst snd g0]. unfold year_val. rewrite zlookup_zupdate.
        rewrite (Z.eqb_sym y). destruct (Z.eqb (year_of_day d) y) eqn:E.
        -- apply Z.eqb_eq in E. subst y. cbn [g0]. unfold g0. ring.
        -- ring.
    + inversion E1; subst g1. split.
      * rewrite Ht. cbn [sum_all snd g0]. ring.
      * intros y. rewrite Hy. cbn [sum_year fst snd g0]. destruct (Z.eqb _ y); ring.
Qed.

(* the total is the sum of the yearly figures: sum over a duplicate-free list
   of years covering the years present *)
Fixpoint sum_years (ys : list Z) (f : Z -> Qc) : Qc :=
  match ys with [] => 0 | y :: r => f y + sum_years r f end.

Lemma sum_years_plus ys f g : sum_years ys (fun y => f y + g y) = sum_years ys f + sum_years ys g.
Proof. induction ys as [|y ys IH]; cbn [sum_years]; [ring | rewrite IH; ring]. Qed.

Lemma sum_years_indicator ys k v :
  NoDup ys -> In k ys -> sum_years ys (fun y => if Z.eqb k y then v else 0) = v.
Proof.
  induction ys as [|y ys IH]; intros Hnd Hin; [contradiction|].
  apply NoDup_cons_iff in Hnd as [Hni Hnd]. cbn [sum_years].
  destruct Hin as [->|Hin].
  - rewrite Z.eqb_refl.
    assert (Hz : sum_years ys (fun y => if Z.eqb k y then v else 0) = 0).
    { clear IH Hnd. induction ys as [|j ys IHz]; cbn [sum_years]; [reflexivity|].
      destruct (Z.eqb k j) eqn:E.
      - apply Z.eqb_eq in E. subst j. exfalso. apply Hni. left; reflexivity.
      - rewrite IHz; [ring|]. intros Hc. apply Hni. right; exact Hc. }
    rewrite Hz. ring.
  - destruct (Z.eqb k y) eqn:E.
    + apply Z.eqb_eq in E. subst y. contradiction.
    + rewrite (IH Hnd Hin). ring.
Qed.

Lemma sum_year_total ys rows :
  NoDup ys -> (forall r, In r rows -> snd r <> None -> In (year_of_day (fst r)) ys) ->
  sum_years ys (fun y => sum_year y rows) = sum_all rows.
Proof.
  intros Hnd. induction rows as [|[d o] rows IH]; intros Hin; cbn [sum_year sum_all fst snd].
  - clear. induction ys as [|y ys IHy]; cbn [sum_years]; [reflexivity|]. rewrite IHy. ring.
  - rewrite sum_years_plus, IH by (intros r Hr; apply Hin; right; exact Hr).
    f_equal. destruct o as [c|]; cbn [g0].
    + apply sum_years_indicator; [exact Hnd|]. apply (Hin (d, Some c)); [left; reflexivity | discriminate].
    + clear. induction ys as [|y ys IHy]; cbn [sum_years]; [reflexivity|].
      rewrite IHy. destruct (Z.eqb _ y); ring.
Qed.

Theorem security_totals rows g :
  security_gains exact gains0 rows = Ok g ->
  g_total g = sum_all rows /\
  (forall y, year_val y (g_years g) = sum_year y rows) /\
  (forall ys, NoDup ys -> (forall r, In r rows -> snd r <> None -> In (year_of_day (fst r)) ys) ->
              sum_years ys (fun y => year_val y (g_years g)) = g_total g).
Proof.
  intros H. apply security_gains_spec in H as [Ht Hy]. cbn [gains0 g_total g_years] in *.
  assert (Ht' : g_total g = sum_all rows) by (rewrite Ht; ring).
  assert (Hy' : forall y, year_val y (g_years g) = sum_year y rows).
  { intros y. rewrite Hy. unfold year_val. cbn. ring. }
  repeat split; try assumption.
  intros ys Hnd Hin. rewrite Ht'. rewrite <- (sum_year_total ys rows Hnd Hin).
  clear -Hy'. induction ys as [|y ys IH]; cbn [sum_years]; [reflexivity|]. rewrite Hy', IH. reflexivity.
Qed.

(* ---- aggregate over securities ---- *)
Fixpoint sum_map (y : Z) (ys : list (Z * Qc)) : Qc :=
  match ys with [] => 0 | (y', v) :: r => (if Z.eqb y' y then v else 0) + sum_map y r end.

Lemma sum_map_year_val y ys : NoDup (map fst ys) -> sum_map y ys = year_val y ys.
Proof.
  unfold year_val. induction ys as [|[y' v] ys IH]; intros Hnd; cbn [sum_map zlookup map fst] in *.
  - reflexivity.
  - apply NoDup_cons_iff in Hnd as [Hni Hnd]. rewrite (IH Hnd). rewrite (Z.eqb_sym y y').
    destruct (Z.eqb y' y) eqn:E.
    + apply Z.eqb_eq in E. subst y'.
      assert (Hn : zlookup y ys = None).
      { clear -Hni. induction ys as [|[k w] ys IH]; cbn [zlookup]; [reflexivity|].
        destruct (Z.eqb y k) eqn:E.
        - apply Z.eqb_eq in E. subst k. exfalso. apply Hni. left; reflexivity.
        - apply IH. intros H. apply Hni. right; exact H. }
      rewrite Hn. cbn [g0]. ring.
    + ring.
Qed.

Lemma zupdate_keys k v l : NoDup (map fst l) -> NoDup (map fst (zupdate k v l)).
Proof.
  induction l as [|[k' v'] l IH]; intros Hnd; cbn [zupdate map fst] in *.
  - constructor; [intros [] | constructor].
  - apply NoDup_cons_iff in Hnd as [Hni Hnd].
    destruct (Z.eqb k k') eqn:E; cbn [map fst].
    + apply Z.eqb_eq in E. subst k'. constructor; assumption.
    + constructor; [|apply IH; exact Hnd].
      intros Hin. apply Hni.
      assert (Hsub : forall x, In x (map fst (zupdate k v l)) -> x = k \/ In x (map fst l)).
      { clear. induction l as [|[a b] l IH]; cbn [zupdate map fst]; intros x Hx.
        - destruct Hx as [<-|[]]; left; reflexivity.
        - destruct (Z.eqb k a) eqn:E; cbn [map fst] in Hx.
          + apply Z.eqb_eq in E. subst a. destruct Hx as [<-|Hx]; [left; reflexivity | right; right; exact Hx].
          + destruct Hx as [<-|Hx]; [right; left; reflexivity|].
            destruct (IH _ Hx); [left; assumption | right; right; assumption]. }
      destruct (Hsub _ Hin) as [->|H]; [apply Z.eqb_neq in E; congruence | exact H].
Qed.

Lemma add_years_spec acc ys acc' :
  add_years exact acc ys = Ok acc' ->
  (forall y, year_val y acc' = year_val y acc + sum_map y ys) /\
  (NoDup (map fst acc) -> NoDup (map fst acc')).
Proof.
  revert acc. induction ys as [|[y0 v] ys IH]; intros acc H; cbn [add_years] in H.
  - inversion H; subst. split; [intros y; cbn; ring | auto].
  - cbn [a_add exact bind] in H. apply IH in H as [Hy Hnd]. split.
    + intros y. rewrite Hy. cbn [sum_map]. unfold year_val. rewrite zlookup_zupdate.
      rewrite (Z.eqb_sym y). destruct (Z.eqb y0 y) eqn:E.
      * apply Z.eqb_eq in E. subst y0. cbn [g0]. unfold g0. ring.
      * ring.
    + intros Ha. apply Hnd. apply zupdate_keys. exact Ha.
Qed.

Fixpoint sum_secs (f : gains -> Qc) (secs : list gains) : Qc :=
  match secs with [] => 0 | s :: r => f s + sum_secs f r end.

Lemma aggregate_spec g secs g' :
  aggregate exact g secs = Ok g' ->
  Forall (fun s => NoDup (map fst (g_years s))) secs ->
  g_total g' = g_total g + sum_secs g_total secs /\
  forall y, year_val y (g_years g') = year_val y (g_years g) + sum_secs (fun s => year_val y (g_years s)) secs.
Proof.
  revert g. induction secs as [|s secs IH]; intros g H HF; cbn [aggregate] in H.
  - inversion H; subst. split; [cbn; ring | intros y; cbn; ring].
  - apply Forall_cons_iff in HF as [Hs HF]. bind_as H as g1 E1.
    apply IH in H as [Ht Hy]; [|exact HF].
    unfold add_security in E1. cbn [a_add exact bind] in E1. bind_as E1 as ys Ey.
    inversion E1; subst g1; clear E1. cbn [g_total g_years] in *.
    apply add_years_spec in Ey as [Hys _]. split.
    + rewrite Ht. cbn [sum_secs]. ring.
    + intros y. rewrite Hy, Hys, (sum_map_year_val _ _ Hs). cbn [sum_secs]. ring.
Qed.

Lemma sum_secs_perm f l l' : Permutation l l' -> sum_secs f l = sum_secs f l'.
Proof.
  induction 1; cbn [sum_secs]; try ring.
  - rewrite IHPermutation. reflexivity.
  - rewrite IHPermutation1. exact IHPermutation2.
Qed.

(* aggregate yearly figures and total are sums over the securities, whatever
   the iteration order of the security map *)
Theorem aggregate_totals secs g :
  aggregate exact gains0 secs = Ok g ->
  Forall (fun s => NoDup (map fst (g_years s))) secs ->
  g_total g = sum_secs g_total secs /\
  forall y, year_val y (g_years g) = sum_secs (fun s => year_val y (g_years s)) secs.
Proof.
  intros H HF. apply aggregate_spec in H as [Ht Hy]; [|exact HF]. split.
  - rewrite Ht. cbn. ring.
  - intros y. rewrite Hy. unfold year_val. cbn. ring.
Qed.

Theorem aggregate_order_independent secs secs' g g' :
  Permutation secs secs' ->
  Forall (fun s => NoDup (map fst (g_years s))) secs ->
  aggregate exact gains0 secs = Ok g -> aggregate exact gains0 secs' = Ok g' ->
  g_total g = g_total g' /\ forall y, year_val y (g_years g) = year_val y (g_years g').
Proof.
  intros Hp HF H H'.
  assert (HF' : Forall (fun s => NoDup (map fst (g_years s))) secs')
    by (eapply Permutation_Forall; eassumption).
  apply aggregate_totals in H as [Ht Hy]; [|exact HF].
  apply aggregate_totals in H' as [Ht' Hy']; [|exact HF'].
  split.
  - rewrite Ht, Ht'. apply sum_secs_perm. exact Hp.
  - intros y. rewrite Hy, Hy'. apply sum_secs_perm. exact Hp.
Qed.

(* a security's year map never has a year twice *)
Lemma security_gains_keys g rows g' :
  security_gains exact g rows = Ok g' -> NoDup (map fst (g_years g)) -> NoDup (map fst (g_years g')).
Proof.
  revert g. induction rows as [|[d o] rows IH]; intros g H Hnd; cbn [security_gains] in H.
  - inversion H; subst; assumption.
  - bind_as H as g1 E1. apply IH in H; [exact H|].
    unfold add_gain in E1. cbn [fst snd] in E1. destruct o as [c|].
    + cbn [a_add exact bind] in E1. inversion E1; subst g1. cbn. apply zupdate_keys. exact Hnd.
    + inversion E1; subst; assumption.
Qed.

(* ---- the calendar: year_of_day is the civil year, for 1900-01-01 .. 2100-12-31 ---- *)
Local Open Scope Z_scope.
Definition jan1 (y : Z) : Z := 365 * (y - 1) + (y - 1) / 4 - (y - 1) / 100 + (y - 1) / 400 + 1.

Fixpoint all_days (n : nat) (d : Z) (p : Z -> bool) : bool :=
  match n with O => true | S k => p d && all_days k (d + 1) p end.

Lemma all_days_spec n d p :
  all_days n d p = true -> forall k, 0 <= k < Z.of_nat n -> p (d + k) = true.
Proof.
  revert d. induction n as [|n IH]; intros d H k Hk; [lia|].
  cbn [all_days] in H. apply andb_prop in H as [Hd H].
  destruct (Z.eq_dec k 0) as [->|Hn].
  - rewrite Z.add_0_r. exact Hd.
  - replace (d + k) with (d + 1 + (k - 1)) by lia. apply IH; [exact H | lia].
Qed.

Definition year_ok (d : Z) : bool :=
  let y := year_of_day d in (jan1 y <=? d) && (d <? jan1 (y + 1)).

Lemma year_of_day_sweep : all_days (Z.to_nat 73414) (jan1 1900) year_ok = true.
Proof. vm_compute. reflexivity. Qed.

Theorem year_of_day_civil d :
  jan1 1900 <= d < jan1 2101 ->
  jan1 (year_of_day d) <= d < jan1 (year_of_day d + 1).
Proof.
  intros Hd.
  assert (E : jan1 2101 = jan1 1900 + 73414) by (vm_compute; reflexivity).
  pose proof (all_days_spec _ _ _ year_of_day_sweep (d - jan1 1900)) as H.
  rewrite Z2Nat.id in H by lia.
  replace (jan1 1900 + (d - jan1 1900)) with d in H by lia.
  specialize (H ltac:(lia)). unfold year_ok in H. apply andb_prop in H as [H1 H2].
  apply Z.leb_le in H1. apply Z.ltb_lt in H2. lia.
Qed.
