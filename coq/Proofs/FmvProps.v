(* C20 (text layer): the allocation-table parser returns every well-formed
   table as listed (round trip through render_table). *)
From Coq Require Import List NArith ZArith QArith Qcanon Bool Lia.
From ACB Require Import Base.Outcome Base.QcExtra Base.Fit Model.QText Model.Fmv Spec.FmvTable.
Import ListNotations.
Local Open Scope N_scope.

(* ---------- characters and white space ---------- *)
Definition nonspace (c : N) : bool := negb (is_space c).

Lemma is_space_32 : is_space 32 = true. Proof. reflexivity. Qed.
Lemma is_space_10 : is_space 10 = true. Proof. reflexivity. Qed.
Lemma is_space_13 : is_space 13 = true. Proof. reflexivity. Qed.
Lemma is_space_bullet : is_space c_bullet = false. Proof. reflexivity. Qed.

Lemma is_digit_nonspace c : is_digit c = true -> is_space c = false.
Proof.
  unfold is_digit, is_space. rewrite andb_true_iff, !N.leb_le. intros [H1 H2].
  repeat match goal with
         | |- context [?a <=? ?b] => destruct (N.leb_spec a b); try lia
         | |- context [?a =? ?b] => destruct (N.eqb_spec a b); try lia
         end; reflexivity.
Qed.

Lemma is_num_char_nonspace c : is_num_char c = true -> is_space c = false.
Proof.
  unfold is_num_char, is_dot, is_comma. rewrite !orb_true_iff.
  intros [[H|H]|H]; [apply is_digit_nonspace; exact H | |]; apply N.eqb_eq in H; subst; reflexivity.
Qed.

Lemma is_numdot_num c : is_numdot_char c = true -> is_num_char c = true.
Proof. unfold is_numdot_char, is_num_char. intros H. rewrite H. reflexivity. Qed.

Lemma is_num_char_not_bullet c : is_num_char c = true -> (c =? c_bullet) = false.
Proof.
  unfold is_num_char, is_digit, is_dot, is_comma, c_bullet.
  rewrite !orb_true_iff, andb_true_iff, !N.leb_le, !N.eqb_eq. intros H.
  apply N.eqb_neq. lia.
Qed.

Lemma is_num_char_not_nl c : is_num_char c = true -> (c =? 10) = false.
Proof.
  unfold is_num_char, is_digit, is_dot, is_comma.
  rewrite !orb_true_iff, andb_true_iff, !N.leb_le, !N.eqb_eq. intros H.
  apply N.eqb_neq. lia.
Qed.

Lemma skip_spaces_repeat k l : skip_spaces (repeat 32 k ++ l) = skip_spaces l.
Proof. induction k as [|k IH]; [reflexivity|]. cbn [repeat app skip_spaces]. rewrite is_space_32. exact IH. Qed.

Lemma skip_spaces_nonspace c l : is_space c = false -> skip_spaces (c :: l) = c :: l.
Proof. intros H. cbn [skip_spaces]. rewrite H. reflexivity. Qed.

Lemma is_blank_repeat k l : is_blank (repeat 32 k ++ l) = is_blank l.
Proof.
  unfold is_blank. rewrite forallb_app. replace (forallb is_space (repeat 32 k)) with true; [reflexivity|].
  induction k as [|k IH]; [reflexivity|]. cbn [repeat forallb]. rewrite is_space_32, <- IH. reflexivity.
Qed.

Lemma is_blank_nonspace c l : is_space c = false -> is_blank (c :: l) = false.
Proof. intros H. unfold is_blank. cbn [forallb]. rewrite H. reflexivity. Qed.

Lemma last_hd_rev (l : text) d : last l d = hd d (rev l).
Proof.
  induction l as [|x r IH] using rev_ind; [reflexivity|].
  rewrite last_last, rev_app_distr. reflexivity.
Qed.

Lemma span_nonspace_app t r :
  forallb nonspace t = true -> (r = [] \/ starts_with_space r = true) ->
  span_nonspace (t ++ r) = (t, r).
Proof.
  intros Ht Hr. induction t as [|c t IH].
  - cbn [app]. destruct Hr as [->|Hr]; [reflexivity|].
    destruct r as [|x r]; [discriminate|]. cbn in Hr. cbn [span_nonspace]. rewrite Hr. reflexivity.
  - cbn [forallb] in Ht. apply andb_true_iff in Ht. destruct Ht as [Hc Ht].
    unfold nonspace in Hc. apply negb_true_iff in Hc.
    cbn [app span_nonspace]. rewrite Hc, (IH Ht). reflexivity.
Qed.

Lemma span_no_nl_all l : no_nl l = true -> span_no_nl l = (l, []).
Proof.
  induction l as [|c r IH]; [reflexivity|].
  unfold no_nl. cbn [forallb]. rewrite andb_true_iff. intros [Hc Hr].
  apply negb_true_iff in Hc. cbn [span_no_nl]. rewrite Hc, (IH Hr). reflexivity.
Qed.

Lemma forallb_rev {A} (f : A -> bool) l : forallb f (rev l) = forallb f l.
Proof.
  induction l as [|x r IH]; [reflexivity|].
  cbn [rev forallb]. rewrite forallb_app, IH. cbn [forallb]. rewrite andb_true_r, andb_comm. reflexivity.
Qed.

Lemma existsb_false_forallb {A} (f : A -> bool) l :
  forallb (fun x => negb (f x)) l = true -> existsb f l = false.
Proof.
  induction l as [|x r IH]; [reflexivity|].
  cbn [forallb existsb]. rewrite andb_true_iff. intros [Hx Hr].
  apply negb_true_iff in Hx. rewrite Hx, (IH Hr). reflexivity.
Qed.

(* ---------- str::lines ---------- *)
Lemma lines_aux_line l : forall racc rest,
  no_nl l = true ->
  lines_aux racc (l ++ 10 :: rest) = strip_cr_rev (rev l ++ racc) :: lines_aux [] rest.
Proof.
  induction l as [|c r IH]; intros racc rest H.
  - reflexivity.
  - unfold no_nl in H. cbn [forallb] in H. apply andb_true_iff in H. destruct H as [Hc Hr].
    apply negb_true_iff in Hc.
    cbn [app lines_aux]. rewrite Hc. rewrite (IH (c :: racc) rest Hr).
    cbn [rev]. rewrite <- app_assoc. reflexivity.
Qed.

Lemma strip_cr_rev_not_cr x a : x <> 13 -> strip_cr_rev (x :: a) = rev (x :: a).
Proof.
  intros Hx. unfold strip_cr_rev. destruct x as [|p]; [reflexivity|].
  do 4 (destruct p as [p|p|]; try reflexivity). contradiction Hx. reflexivity.
Qed.

Lemma strip_cr_plain l : plain_line l = true -> strip_cr_rev (rev l) = l.
Proof.
  unfold plain_line. rewrite andb_true_iff. intros [_ H]. apply negb_true_iff in H.
  rewrite last_hd_rev in H. rewrite <- (rev_involutive l) at 2.
  destruct (rev l) as [|x a].
  - reflexivity.
  - cbn [hd] in H. apply strip_cr_rev_not_cr. apply N.eqb_neq. exact H.
Qed.

Lemma lines_render ls post :
  forallb plain_line ls = true ->
  lines (concat (map (fun l => l ++ [10]) ls) ++ post) = ls ++ lines post.
Proof.
  unfold lines. induction ls as [|l r IH]; intros H; [reflexivity|].
  cbn [forallb] in H. apply andb_true_iff in H. destruct H as [Hl Hr].
  cbn [map concat]. rewrite <- !app_assoc. cbn [app].
  rewrite lines_aux_line.
  - rewrite app_nil_r, (strip_cr_plain l Hl), (IH Hr). reflexivity.
  - unfold plain_line in Hl. apply andb_true_iff in Hl. apply Hl.
Qed.

(* ---------- the matchers on rendered lines ---------- *)
Lemma match_first_row_bullet k h :
  desc_line_ok h = true ->
  match_first_row (repeat 32 k ++ c_bullet :: 32 :: h) = Some h.
Proof.
  intros Hh. unfold desc_line_ok in Hh. destruct h as [|c r]; [discriminate|].
  apply andb_true_iff in Hh. destruct Hh as [Hh Hnl].
  apply andb_true_iff in Hh. destruct Hh as [Hc _]. apply negb_true_iff in Hc.
  unfold match_first_row. rewrite skip_spaces_repeat.
  rewrite (skip_spaces_nonspace _ _ is_space_bullet). rewrite N.eqb_refl.
  change (skip_spaces (32 :: c :: r)) with (skip_spaces (c :: r)).
  rewrite (skip_spaces_nonspace _ _ Hc).
  rewrite (span_no_nl_all _ Hnl). reflexivity.
Qed.

Lemma match_first_row_other k c r :
  is_space c = false -> (c =? c_bullet) = false ->
  match_first_row (repeat 32 k ++ c :: r) = None.
Proof.
  intros Hc Hb. unfold match_first_row. rewrite skip_spaces_repeat, (skip_spaces_nonspace _ _ Hc), Hb.
  reflexivity.
Qed.

Lemma trim_indent k c r :
  is_space c = false -> is_space (last (c :: r) 32) = false ->
  trim (repeat 32 k ++ c :: r) = c :: r.
Proof.
  intros Hc Hl. unfold trim. rewrite skip_spaces_repeat, (skip_spaces_nonspace _ _ Hc).
  rewrite last_hd_rev in Hl.
  destruct (rev (c :: r)) as [|x a] eqn:E.
  - apply (f_equal (@rev N)) in E. rewrite rev_involutive in E. discriminate.
  - cbn [hd] in Hl. rewrite (skip_spaces_nonspace _ _ Hl). rewrite <- E. apply rev_involutive.
Qed.

Lemma total_tok_chars tot :
  total_tok_ok tot = true -> exists c r, tot = c :: r /\ is_digit c = true /\ forallb is_num_char r = true.
Proof.
  unfold total_tok_ok. destruct tot as [|c [|d r]]; try discriminate.
  rewrite andb_true_iff. intros [Hc Hr]. exists c, (d :: r). auto.
Qed.

Lemma num_chars_nonspace r : forallb is_num_char r = true -> forallb nonspace r = true.
Proof.
  intros H. apply forallb_forall. intros x Hx. rewrite forallb_forall in H.
  unfold nonspace. rewrite (is_num_char_nonspace x (H x Hx)). reflexivity.
Qed.

Lemma match_total_line k (b00 : bool) tot :
  total_tok_ok tot = true ->
  match_total (repeat 32 k ++ t_100_0 ++ (if b00 then [48] else []) ++ 32 :: tot) = Some tot.
Proof.
  intros Htok. destruct (total_tok_chars tot Htok) as [c [r [-> [Hc Hr]]]].
  unfold match_total. rewrite skip_spaces_repeat.
  assert (Hsp : is_space c = false) by (apply is_digit_nonspace; exact Hc).
  assert (Hspan : span_nonspace (c :: r) = (c :: r, [])).
  { rewrite <- (app_nil_r (c :: r)) at 1. apply span_nonspace_app; [|left; reflexivity].
    cbn [forallb]. unfold nonspace at 1. rewrite Hsp. cbn [negb andb]. apply num_chars_nonspace. exact Hr. }
  destruct b00; cbn [t_100_0 app skip_spaces is_space N.leb N.eqb]; cbn.
  - rewrite Hsp, Hspan, Htok. reflexivity.
  - rewrite Hsp, Hspan, Htok. reflexivity.
Qed.

(* ---------- SEC_DATA_RE on a gathered security text ---------- *)
Lemma alloc_tok_chars a :
  alloc_tok_ok a = true -> a <> [] /\ forallb nonspace a = true.
Proof.
  unfold alloc_tok_ok. destruct a as [|c [|d r]]; try discriminate.
  rewrite andb_true_iff. intros [Hc Hr]. split; [discriminate|].
  apply forallb_forall. intros x [<-|Hx].
  - unfold nonspace. rewrite (is_digit_nonspace _ Hc). reflexivity.
  - rewrite forallb_forall in Hr. unfold nonspace.
    rewrite (is_num_char_nonspace x (is_numdot_num x (Hr x Hx))). reflexivity.
Qed.

Lemma fmv_tok_chars f :
  fmv_tok_ok f = true -> f <> [] /\ forallb nonspace f = true.
Proof.
  unfold fmv_tok_ok. destruct f as [|c r]; try discriminate.
  rewrite andb_true_iff. intros [Hc Hr]. split; [discriminate|].
  apply forallb_forall. intros x [<-|Hx].
  - unfold nonspace. rewrite (is_digit_nonspace _ Hc). reflexivity.
  - rewrite forallb_forall in Hr. unfold nonspace.
    rewrite (is_num_char_nonspace x (Hr x Hx)). reflexivity.
Qed.

Lemma skip_spaces_tok t x :
  t <> [] -> forallb nonspace t = true -> skip_spaces (t ++ x) = t ++ x.
Proof.
  intros Hne Ht. destruct t as [|c r]; [contradiction Hne; reflexivity|].
  cbn [forallb] in Ht. apply andb_true_iff in Ht. destruct Ht as [Hc _].
  unfold nonspace in Hc. apply negb_true_iff in Hc. cbn [app]. apply skip_spaces_nonspace. exact Hc.
Qed.

Lemma rev_nonnil {A} (l : list A) : l <> [] -> rev l <> [].
Proof.
  intros H E. apply H. apply (f_equal (@rev A)) in E. rewrite rev_involutive in E. exact E.
Qed.

Lemma no_nl_existsb d : no_nl d = true -> existsb (N.eqb 10) d = false.
Proof.
  unfold no_nl. induction d as [|x r IH]; [reflexivity|].
  cbn [forallb existsb]. rewrite andb_true_iff. intros [Hx Hr].
  apply negb_true_iff in Hx. rewrite N.eqb_sym, Hx, (IH Hr). reflexivity.
Qed.

(* a description text: starts and ends with a non-space character, no newline *)
Definition desc_text_ok (d : text) : bool :=
  match d with
  | [] => false
  | c :: _ => nonspace c && nonspace (last d 32) && no_nl d
  end.

Lemma match_data_rendered d a f :
  desc_text_ok d = true -> alloc_tok_ok a = true -> fmv_tok_ok f = true ->
  match_data (d ++ 32 :: a ++ 32 :: f) = Some (d, a, f).
Proof.
  intros Hd Ha Hf.
  destruct (alloc_tok_chars a Ha) as [Hane Hans].
  destruct (fmv_tok_chars f Hf) as [Hfne Hfns].
  unfold desc_text_ok in Hd. destruct d as [|c r] eqn:Ed; [discriminate|]. rewrite <- Ed in *.
  apply andb_true_iff in Hd. destruct Hd as [Hd Hnl]. apply andb_true_iff in Hd. destruct Hd as [Hc Hl].
  unfold nonspace in Hc, Hl. apply negb_true_iff in Hc. apply negb_true_iff in Hl.
  assert (Hrev : rev (d ++ 32 :: a ++ 32 :: f) = rev f ++ 32 :: rev a ++ 32 :: rev d).
  { rewrite !rev_app_distr. cbn [rev]. rewrite !rev_app_distr. cbn [rev app].
    rewrite <- !app_assoc. reflexivity. }
  unfold match_data. rewrite Hrev.
  rewrite (skip_spaces_tok (rev f)); [|apply rev_nonnil; exact Hfne | rewrite forallb_rev; exact Hfns].
  rewrite (span_nonspace_app (rev f)); [|rewrite forallb_rev; exact Hfns | right; reflexivity].
  rewrite rev_involutive, Hf. cbn [negb starts_with_space]. rewrite is_space_32.
  change (skip_spaces (32 :: rev a ++ 32 :: rev d)) with (skip_spaces (rev a ++ 32 :: rev d)).
  rewrite (skip_spaces_tok (rev a)); [|apply rev_nonnil; exact Hane | rewrite forallb_rev; exact Hans].
  rewrite (span_nonspace_app (rev a)); [|rewrite forallb_rev; exact Hans | right; reflexivity].
  rewrite rev_involutive, Ha. cbn [negb starts_with_space]. rewrite is_space_32.
  change (skip_spaces (32 :: rev d)) with (skip_spaces (rev d)).
  rewrite last_hd_rev in Hl.
  assert (Hsr : skip_spaces (rev d) = rev d).
  { destruct (rev d) as [|x t]; [reflexivity|]. cbn [hd] in Hl. apply skip_spaces_nonspace. exact Hl. }
  rewrite Hsr, rev_involutive. cbn [negb].
  assert (He : existsb (N.eqb 10) d = false).
  { apply no_nl_existsb. exact Hnl. }
  rewrite Ed in *. rewrite (skip_spaces_nonspace _ _ Hc). rewrite He. reflexivity.
Qed.

(* ---------- joining description lines ---------- *)
Lemma join_sp_cons2 x y r : join_sp (x :: y :: r) = x ++ 32 :: join_sp (y :: r).
Proof. reflexivity. Qed.

Lemma concat_attach_inline l n :
  l <> [] ->
  concat (map (cons 32) (attach_inline l n)) = concat (map (cons 32) l) ++ 32 :: n.
Proof.
  induction l as [|y r IH]; intros Hne; [contradiction Hne; reflexivity|].
  destruct r as [|z r'].
  - cbn [attach_inline map concat]. rewrite !app_nil_r. reflexivity.
  - change (attach_inline (y :: z :: r') n) with (y :: attach_inline (z :: r') n).
    cbn [map concat]. rewrite IH by discriminate. cbn [map concat].
    rewrite <- !app_assoc. reflexivity.
Qed.

Lemma join_attach_inline dl n :
  dl <> [] -> join_sp (attach_inline dl n) = join_sp dl ++ 32 :: n.
Proof.
  destruct dl as [|x r]; intros Hne; [contradiction Hne; reflexivity|].
  destruct r as [|y r'].
  - cbn [attach_inline join_sp map concat]. rewrite !app_nil_r. reflexivity.
  - change (attach_inline (x :: y :: r') n) with (x :: attach_inline (y :: r') n).
    unfold join_sp. rewrite concat_attach_inline by discriminate. rewrite <- app_assoc. reflexivity.
Qed.

Lemma join_own dl n : dl <> [] -> join_sp (dl ++ [n]) = join_sp dl ++ 32 :: n.
Proof.
  destruct dl as [|x r]; intros Hne; [contradiction Hne; reflexivity|].
  cbn [app join_sp]. rewrite map_app, concat_app. cbn [map concat]. rewrite app_nil_r, <- app_assoc.
  reflexivity.
Qed.

Definition full_text (s : sec_lay) : text := join_sp (sl_lines s) ++ 32 :: nums s.

Lemma join_sec_lines s : sl_lines s <> [] -> join_sp (sec_lines s) = full_text s.
Proof.
  intros Hne. unfold sec_lines, full_text. destruct (sl_own s).
  - apply join_own. exact Hne.
  - apply join_attach_inline. exact Hne.
Qed.

(* ---------- description lines ---------- *)
Lemma desc_line_ok_parts l :
  desc_line_ok l = true ->
  exists c r, l = c :: r /\ is_space c = false /\ is_space (last l 32) = false /\ no_nl l = true.
Proof.
  unfold desc_line_ok. destruct l as [|c r]; [discriminate|].
  rewrite !andb_true_iff, !negb_true_iff. intros [[H1 H2] H3]. exists c, r. auto.
Qed.

Lemma last_app_nonnil (a b : text) d : b <> [] -> last (a ++ b) d = last b d.
Proof.
  intros Hb. rewrite !last_hd_rev, rev_app_distr.
  destruct (rev b) as [|x t] eqn:E; [exfalso; apply (rev_nonnil b Hb); exact E|]. reflexivity.
Qed.

Lemma no_nl_app a b : no_nl (a ++ b) = no_nl a && no_nl b.
Proof. unfold no_nl. apply forallb_app. Qed.

Lemma desc_line_ok_join a b :
  desc_line_ok a = true -> desc_line_ok b = true -> desc_line_ok (a ++ 32 :: b) = true.
Proof.
  intros Ha Hb.
  destruct (desc_line_ok_parts a Ha) as [c [r [-> [Hc [_ Hna]]]]].
  destruct (desc_line_ok_parts b Hb) as [c' [r' [Eb [_ [Hlb Hnb]]]]].
  unfold desc_line_ok. cbn [app]. rewrite Hc. cbn [negb andb].
  change (c :: r ++ 32 :: b) with ((c :: r) ++ 32 :: b).
  rewrite (last_app_nonnil (c :: r) (32 :: b)) by discriminate.
  assert (Hl : last (32 :: b) 32 = last b 32).
  { rewrite Eb. reflexivity. }
  rewrite Hl, Hlb. cbn [negb andb].
  rewrite no_nl_app, Hna. unfold no_nl at 1. cbn [forallb]. fold (no_nl b). rewrite Hnb. reflexivity.
Qed.

Lemma desc_line_ok_text l : desc_line_ok l = true -> desc_text_ok l = true.
Proof.
  intros H. destruct (desc_line_ok_parts l H) as [c [r [-> [Hc [Hl Hn]]]]].
  unfold desc_text_ok, nonspace. rewrite Hc, Hl, Hn. reflexivity.
Qed.

Lemma desc_line_ok_join_sp ls :
  ls <> [] -> forallb desc_line_ok ls = true -> desc_line_ok (join_sp ls) = true.
Proof.
  induction ls as [|x r IH]; intros Hne H; [contradiction Hne; reflexivity|].
  cbn [forallb] in H. apply andb_true_iff in H. destruct H as [Hx Hr].
  destruct r as [|y r'].
  - cbn [join_sp map concat]. rewrite app_nil_r. exact Hx.
  - rewrite join_sp_cons2. apply desc_line_ok_join; [exact Hx|]. apply IH; [discriminate | exact Hr].
Qed.

Lemma nums_line_ok s :
  alloc_tok_ok (sl_alloc s) = true -> fmv_tok_ok (sl_fmv s) = true ->
  desc_line_ok (nums s) = true /\ not_bullet_first (nums s) = true.
Proof.
  intros Ha Hf. unfold nums.
  assert (Hda : desc_line_ok (sl_alloc s) = true /\ not_bullet_first (sl_alloc s) = true).
  { unfold alloc_tok_ok in Ha. destruct (sl_alloc s) as [|c [|d r]] eqn:E; try discriminate.
    apply andb_true_iff in Ha. destruct Ha as [Hc Hr].
    assert (Hall : forall x, In x (c :: d :: r) -> is_num_char x = true).
    { intros x [<-|Hx]; [unfold is_num_char; rewrite Hc; reflexivity|].
      rewrite forallb_forall in Hr. apply is_numdot_num. apply Hr. exact Hx. }
    split.
    - unfold desc_line_ok. rewrite (is_digit_nonspace c Hc). cbn [negb andb].
      rewrite (is_num_char_nonspace (last (c :: d :: r) 32)).
      + cbn [negb andb]. unfold no_nl. apply forallb_forall. intros x Hx.
        rewrite (is_num_char_not_nl x (Hall x Hx)). reflexivity.
      + apply Hall. destruct (exists_last (l := c :: d :: r)) as [l' [a Ea]]; [discriminate|].
        rewrite Ea, last_last. apply in_or_app. right. left. reflexivity.
    - cbn. rewrite (is_num_char_not_bullet c); [reflexivity|]. apply Hall. left. reflexivity. }
  assert (Hdf : desc_line_ok (sl_fmv s) = true).
  { unfold fmv_tok_ok in Hf. destruct (sl_fmv s) as [|c r] eqn:E; try discriminate.
    apply andb_true_iff in Hf. destruct Hf as [Hc Hr].
    assert (Hall : forall x, In x (c :: r) -> is_num_char x = true).
    { intros x [<-|Hx]; [unfold is_num_char; rewrite Hc; reflexivity|].
      rewrite forallb_forall in Hr. apply Hr. exact Hx. }
    unfold desc_line_ok. rewrite (is_digit_nonspace c Hc). cbn [negb andb].
    rewrite (is_num_char_nonspace (last (c :: r) 32)).
    + cbn [negb andb]. unfold no_nl. apply forallb_forall. intros x Hx.
      rewrite (is_num_char_not_nl x (Hall x Hx)). reflexivity.
    + apply Hall. destruct (exists_last (l := c :: r)) as [l' [a Ea]]; [discriminate|].
      rewrite Ea, last_last. apply in_or_app. right. left. reflexivity. }
  destruct Hda as [Hda Hnb]. split.
  - apply desc_line_ok_join; assumption.
  - destruct (sl_alloc s); [discriminate|]. exact Hnb.
Qed.

(* ---------- the lines of a security ---------- *)
Lemma sec_layout_parts s :
  sec_layout_ok s = true ->
  exists x more, sl_lines s = x :: more /\ forallb desc_line_ok (x :: more) = true /\
    forallb not_bullet_first more = true /\
    alloc_tok_ok (sl_alloc s) = true /\ plain_num_ok (sl_alloc s) = true /\
    fmv_tok_ok (sl_fmv s) = true /\ plain_num_ok (strip_commas (sl_fmv s)) = true.
Proof.
  unfold sec_layout_ok. destruct (sl_lines s) as [|x more]; [discriminate|].
  rewrite !andb_true_iff. intros [[[[[H1 H2] H3] H4] H5] H6]. exists x, more. auto 10.
Qed.

Lemma attach_inline_ok dl n :
  dl <> [] -> forallb desc_line_ok dl = true -> forallb not_bullet_first (tl dl) = true ->
  desc_line_ok n = true ->
  forallb desc_line_ok (attach_inline dl n) = true /\
  forallb not_bullet_first (tl (attach_inline dl n)) = true.
Proof.
  intros Hne Hd Hb Hn. induction dl as [|x r IH]; [contradiction Hne; reflexivity|].
  cbn [forallb] in Hd. apply andb_true_iff in Hd. destruct Hd as [Hx Hr].
  destruct r as [|y r'].
  - cbn [attach_inline forallb tl]. rewrite (desc_line_ok_join x n Hx Hn). auto.
  - change (attach_inline (x :: y :: r') n) with (x :: attach_inline (y :: r') n).
    cbn [tl] in Hb. cbn [forallb] in Hb. apply andb_true_iff in Hb. destruct Hb as [Hy Hb'].
    destruct IH as [IH1 IH2]; [discriminate | exact Hr | exact Hb' |].
    cbn [forallb tl]. rewrite Hx, IH1. split; [reflexivity|].
    (* the head of attach_inline (y :: r') n starts like y *)
    destruct r' as [|z r''].
    + cbn [attach_inline forallb]. destruct (desc_line_ok_parts y) as [c [t [-> _]]].
      { cbn [forallb] in Hr. apply andb_true_iff in Hr. apply Hr. }
      cbn in Hy |- *. rewrite Hy. reflexivity.
    + change (attach_inline (y :: z :: r'') n) with (y :: attach_inline (z :: r'') n) in *.
      cbn [forallb tl] in IH2 |- *. rewrite Hy, IH2. reflexivity.
Qed.

Lemma sec_lines_ok s :
  sec_layout_ok s = true ->
  exists h conts, sec_lines s = h :: conts /\ desc_line_ok h = true /\
    forallb desc_line_ok conts = true /\ forallb not_bullet_first conts = true.
Proof.
  intros H. destruct (sec_layout_parts s H) as [x [more [El [Hd [Hb [Ha [_ [Hf _]]]]]]]].
  destruct (nums_line_ok s Ha Hf) as [Hn Hnb].
  unfold sec_lines. rewrite El. destruct (sl_own s).
  - exists x, (more ++ [nums s]). split; [reflexivity|].
    cbn [forallb] in Hd. apply andb_true_iff in Hd. destruct Hd as [Hx Hm].
    rewrite !forallb_app. cbn [forallb]. rewrite Hx, Hm, Hb, Hn, Hnb. auto.
  - destruct (attach_inline_ok (x :: more) (nums s)) as [H1 H2]; [discriminate | exact Hd | exact Hb | exact Hn |].
    destruct (attach_inline (x :: more) (nums s)) as [|h conts] eqn:E.
    + destruct more; discriminate.
    + exists h, conts. cbn [forallb tl] in H1, H2. apply andb_true_iff in H1. destruct H1 as [Hh Hc]. auto.
Qed.

Lemma security_text_full s :
  sec_layout_ok s = true -> security_text_to_fmv (full_text s) = Ok (sec_content s).
Proof.
  intros H. destruct (sec_layout_parts s H) as [x [more [El [Hd [Hb [Ha [Hpa [Hf Hpf]]]]]]]].
  unfold security_text_to_fmv, full_text, nums.
  rewrite match_data_rendered; [| |exact Ha|exact Hf].
  - unfold parse_alloc, parse_large. rewrite Hpa, Hpf. reflexivity.
  - apply desc_line_ok_text. rewrite El. apply desc_line_ok_join_sp; [discriminate | exact Hd].
Qed.

(* ---------- the state machine on a rendered table ---------- *)
Definition mk (fm : list fmv) (s : sm_state) (d : text) : sm :=
  {| sm_fmvs := fm; sm_state_of := s; sm_desc := d |}.

Definition ind_of (k : nat) : text := repeat 32 k.

Lemma is_total_bullet k r : is_total (ind_of k ++ c_bullet :: r) = false.
Proof. unfold is_total, match_total, ind_of. rewrite skip_spaces_repeat. reflexivity. Qed.

Lemma existsb_bullet_line k r : existsb (N.eqb c_bullet) (ind_of k ++ c_bullet :: r) = true.
Proof. rewrite existsb_app. cbn [existsb]. rewrite N.eqb_refl, orb_true_r. reflexivity. Qed.

(* continuation lines of a security are appended to the gathered text *)
Lemma run_conts k conts : forall acc fm rest,
  forallb desc_line_ok conts = true -> forallb not_bullet_first conts = true ->
  unamb (ind_of k) acc conts = true ->
  run_lines (mk fm Gather acc) (map (app (ind_of k)) conts ++ rest)
  = run_lines (mk fm Gather (acc ++ concat (map (cons 32) conts))) rest.
Proof.
  induction conts as [|l r IH]; intros acc fm rest Hd Hb Hu.
  - cbn [map concat app]. rewrite app_nil_r. reflexivity.
  - cbn [forallb] in Hd, Hb. apply andb_true_iff in Hd. destruct Hd as [Hl Hd].
    apply andb_true_iff in Hb. destruct Hb as [Hbl Hb].
    cbn [unamb] in Hu. apply andb_true_iff in Hu. destruct Hu as [Hu1 Hu].
    destruct (desc_line_ok_parts l Hl) as [c [t [-> [Hc [Hlast Hnl]]]]].
    cbn [not_bullet_first] in Hbl. apply negb_true_iff in Hbl.
    cbn [map app run_lines]. unfold ind_of at 1. rewrite is_blank_repeat, (is_blank_nonspace _ _ Hc).
    fold (ind_of k).
    assert (Hg : gather_security_line (mk fm Gather acc) (ind_of k ++ c :: t)
                 = Ok (mk fm Gather (acc ++ 32 :: c :: t))).
    { unfold gather_security_line, ind_of. rewrite (match_first_row_other k c t Hc Hbl).
      rewrite is_blank_repeat, (is_blank_nonspace _ _ Hc). rewrite (trim_indent k c t Hc Hlast).
      reflexivity. }
    assert (Hstep : step (mk fm Gather acc) (ind_of k ++ c :: t) = Cont (mk fm Gather (acc ++ 32 :: c :: t))).
    { unfold step. cbn [sm_state_of mk].
      destruct (is_total (ind_of k ++ c :: t)) eqn:Et.
      - cbn [negb orb] in Hu1. apply negb_true_iff in Hu1. unfold finalize_ok in Hu1.
        unfold finalize. cbn [sm_desc mk].
        destruct (security_text_to_fmv acc) as [f| |]; [discriminate Hu1| |];
          cbn [bind]; rewrite Hg; reflexivity.
      - rewrite Hg. reflexivity. }
    rewrite Hstep. rewrite (IH (acc ++ 32 :: c :: t) fm rest Hd Hb Hu).
    cbn [map concat]. rewrite <- app_assoc. reflexivity.
Qed.

(* the machine between securities: [done] finished, [pend] being gathered *)
Definition ready (done : list fmv) (pend : option sec_lay) : sm :=
  match pend with
  | None => mk done LookFirst []
  | Some p => mk done Gather (full_text p)
  end.
Definition flush (done : list fmv) (pend : option sec_lay) : list fmv :=
  done ++ match pend with None => [] | Some p => [sec_content p] end.
Definition pend_ok (pend : option sec_lay) : Prop :=
  match pend with None => True | Some p => sec_layout_ok p = true end.

Lemma full_text_nonnil p : full_text p <> [].
Proof. unfold full_text. destruct (join_sp (sl_lines p)); discriminate. Qed.

Lemma run_sec k s done pend rest :
  pend_ok pend -> sec_layout_ok s = true -> sec_unambiguous (ind_of k) s = true ->
  run_lines (ready done pend) (render_sec (ind_of k) s ++ rest)
  = run_lines (ready (flush done pend) (Some s)) rest.
Proof.
  intros Hp Hs Hu.
  destruct (sec_lines_ok s Hs) as [h [conts [El [Hh [Hd Hb]]]]].
  destruct (sec_layout_parts s Hs) as [x [more [Elines _]]].
  unfold render_sec, sec_unambiguous in *. rewrite El in *.
  assert (Hblank : forall m l, run_lines m ((if sl_blank s then [[]] else []) ++ l) = run_lines m l).
  { intros m l. destruct (sl_blank s); reflexivity. }
  rewrite <- app_assoc, Hblank. cbn [app].
  destruct (desc_line_ok_parts h Hh) as [c [t [Eh [Hc _]]]].
  assert (Hnb : is_blank (ind_of k ++ c_bullet :: 32 :: h) = false).
  { unfold ind_of. rewrite is_blank_repeat. apply is_blank_nonspace. reflexivity. }
  assert (Hfirst : step (ready done pend) (ind_of k ++ c_bullet :: 32 :: h)
                   = Cont (mk (flush done pend) Gather h)).
  { unfold step, ready, flush. destruct pend as [p|].
    - cbn [sm_state_of mk]. rewrite is_total_bullet.
      unfold gather_security_line. unfold ind_of at 1. rewrite (match_first_row_bullet k h Hh).
      cbn [sm_desc mk].
      destruct (full_text p) as [|a b] eqn:Ef; [exfalso; apply (full_text_nonnil p); exact Ef|].
      rewrite <- Ef. unfold finalize. cbn [sm_desc mk]. rewrite (security_text_full p Hp).
      reflexivity.
    - cbn [sm_state_of mk]. rewrite existsb_bullet_line.
      unfold gather_security_line, with_state. cbn [sm_fmvs sm_desc sm_state_of mk].
      unfold ind_of at 1. rewrite (match_first_row_bullet k h Hh). rewrite app_nil_r. reflexivity. }
  cbn [run_lines]. rewrite Hnb, Hfirst.
  rewrite (run_conts k conts h (flush done pend) rest Hd Hb Hu).
  unfold ready.
  replace (h ++ concat (map (cons 32) conts)) with (full_text s); [reflexivity|].
  rewrite <- join_sec_lines by (rewrite Elines; discriminate). rewrite El. reflexivity.
Qed.

Lemma ascii_no_bullet l : forallb (fun c => c <? 128) l = true -> existsb (N.eqb c_bullet) l = false.
Proof.
  intros H. apply existsb_false_forallb. apply forallb_forall. intros x Hx.
  rewrite forallb_forall in H. specialize (H x Hx). apply N.ltb_lt in H.
  apply negb_true_iff. apply N.eqb_neq. unfold c_bullet. lia.
Qed.

Lemma is_num_char_ascii c : is_num_char c = true -> (c <? 128) = true.
Proof.
  unfold is_num_char, is_digit, is_dot, is_comma.
  rewrite !orb_true_iff, andb_true_iff, !N.leb_le, !N.eqb_eq. intros H. apply N.ltb_lt. lia.
Qed.

Lemma total_line_no_bullet k (b00 : bool) tot :
  total_tok_ok tot = true ->
  existsb (N.eqb c_bullet) (ind_of k ++ t_100_0 ++ (if b00 then [48] else []) ++ 32 :: tot) = false.
Proof.
  intros Ht. destruct (total_tok_chars tot Ht) as [c [r [-> [Hc Hr]]]].
  apply ascii_no_bullet. rewrite !forallb_app.
  assert (H1 : forallb (fun c => c <? 128) (ind_of k) = true).
  { unfold ind_of. induction k as [|k IH]; [reflexivity|]. cbn [repeat forallb]. rewrite IH. reflexivity. }
  rewrite H1. cbn [andb].
  assert (H2 : forallb (fun c => c <? 128) (c :: r) = true).
  { apply forallb_forall. intros x [<-|Hx].
    - apply is_num_char_ascii. unfold is_num_char. rewrite Hc. reflexivity.
    - rewrite forallb_forall in Hr. apply is_num_char_ascii. apply Hr. exact Hx. }
  destruct b00; cbn [forallb t_100_0 app]; cbn [forallb] in H2 |- *; rewrite H2; reflexivity.
Qed.

Lemma run_total k (b00 : bool) tot done pend post :
  pend_ok pend -> total_tok_ok tot = true -> plain_num_ok (strip_commas tot) = true ->
  run_lines (ready done pend)
            ((ind_of k ++ t_100_0 ++ (if b00 then [48] else []) ++ 32 :: tot) :: post)
  = Ok (flush done pend, plain_num_value (strip_commas tot)).
Proof.
  intros Hp Ht Hn.
  pose proof (match_total_line k b00 tot Ht) as Hm. fold (ind_of k) in Hm.
  assert (Hnb : is_blank (ind_of k ++ t_100_0 ++ (if b00 then [48] else []) ++ 32 :: tot) = false).
  { unfold ind_of. rewrite is_blank_repeat. reflexivity. }
  assert (Hg : gather_total_line (ind_of k ++ t_100_0 ++ (if b00 then [48] else []) ++ 32 :: tot)
               = Ok (plain_num_value (strip_commas tot))).
  { unfold gather_total_line. rewrite Hm. unfold parse_large. rewrite Hn. reflexivity. }
  cbn [run_lines]. rewrite Hnb. unfold step, ready, flush, is_total. destruct pend as [p|].
  - cbn [sm_state_of mk]. rewrite Hm. unfold finalize. cbn [sm_desc mk].
    rewrite (security_text_full p Hp). cbn [bind]. rewrite Hg. reflexivity.
  - cbn [sm_state_of mk]. rewrite (total_line_no_bullet k b00 tot Ht), Hm, Hg.
    cbn [lift sm_fmvs mk]. rewrite app_nil_r. reflexivity.
Qed.

Lemma run_secs k (b00 : bool) tot post secs : forall done pend,
  pend_ok pend -> forallb sec_layout_ok secs = true ->
  forallb (sec_unambiguous (ind_of k)) secs = true ->
  total_tok_ok tot = true -> plain_num_ok (strip_commas tot) = true ->
  run_lines (ready done pend)
            (flat_map (render_sec (ind_of k)) secs
             ++ (ind_of k ++ t_100_0 ++ (if b00 then [48] else []) ++ 32 :: tot) :: post)
  = Ok (flush done pend ++ map sec_content secs, plain_num_value (strip_commas tot)).
Proof.
  induction secs as [|s r IH]; intros done pend Hp Hl Hu Ht Hn.
  - cbn [flat_map app map]. rewrite app_nil_r. apply run_total; assumption.
  - cbn [forallb] in Hl, Hu. apply andb_true_iff in Hl. destruct Hl as [Hs Hl].
    apply andb_true_iff in Hu. destruct Hu as [Hus Hu].
    cbn [flat_map]. rewrite <- app_assoc. rewrite (run_sec k s done pend _ Hp Hs Hus).
    rewrite (IH (flush done pend) (Some s) Hs Hl Hu Ht Hn).
    unfold flush at 1. cbn [map]. rewrite <- app_assoc. reflexivity.
Qed.

(* lines before the header, and the header *)
Lemma run_pre k pre : forall rest,
  forallb (fun l => negb (contains t_ALLOCATION (ind_of k ++ l))) pre = true ->
  run_lines sm_init (map (app (ind_of k)) pre ++ rest) = run_lines sm_init rest.
Proof.
  induction pre as [|l r IH]; intros rest H; [reflexivity|].
  cbn [forallb] in H. apply andb_true_iff in H. destruct H as [Hl Hr]. apply negb_true_iff in Hl.
  cbn [map app run_lines]. destruct (is_blank (ind_of k ++ l)); [apply IH; exact Hr|].
  unfold step. cbn [sm_state_of sm_init]. rewrite Hl. apply IH. exact Hr.
Qed.

Theorem table_roundtrip t post :
  well_formed t = true -> parse_page (render_table t ++ post) = Ok (content t).
Proof.
  unfold well_formed, layout_ok. rewrite !andb_true_iff.
  intros [[[[[[[Hplain Hpre] Hhc] Hhb] Hsecs] Htok] Hnum] Hun].
  unfold parse_page, render_table. rewrite (lines_render _ post Hplain).
  unfold unambiguous in *. unfold render_lines, indent in *. fold (ind_of (tl_indent t)) in *.
  rewrite <- !app_assoc. rewrite (run_pre _ _ _ Hpre).
  cbn [app run_lines]. apply negb_true_iff in Hhb. rewrite Hhb.
  unfold step at 1. cbn [sm_state_of sm_init]. rewrite Hhc.
  change (with_state sm_init LookFirst) with (ready [] None).
  unfold total_line.
  exact (run_secs (tl_indent t) (tl_total00 t) (tl_total t) (lines post) (tl_secs t) [] None I Hsecs Hun Htok Hnum).
Qed.

(* ---------- the statement level ---------- *)
Lemma stmt_skip_none before : forall rest,
  Forall (fun p => has_marker p = false /\ month_date_of p = Ok None) before ->
  parse_statement_aux None (before ++ rest) = parse_statement_aux None rest.
Proof.
  induction before as [|p r IH]; intros rest H; [reflexivity|].
  inversion H as [|p' r' [Hm Hd] Hr]; subst.
  cbn [app parse_statement_aux]. rewrite Hd. cbn [bind]. rewrite Hm. apply IH. exact Hr.
Qed.

Lemma stmt_skip_some between : forall d rest,
  Forall (fun p => has_marker p = false) between ->
  parse_statement_aux (Some d) (between ++ rest) = parse_statement_aux (Some d) rest.
Proof.
  induction between as [|p r IH]; intros d rest H; [reflexivity|].
  inversion H as [|p' r' Hm Hr]; subst.
  cbn [app parse_statement_aux bind]. rewrite Hm. apply IH. exact Hr.
Qed.

(* a statement: pages without month or table, the page carrying the month,
   pages without table, the page carrying a well-formed table, anything *)
Theorem statement_roundtrip before mp between t post after d :
  Forall (fun p => has_marker p = false /\ month_date_of p = Ok None) before ->
  has_marker mp = false -> month_date_of mp = Ok (Some d) ->
  Forall (fun p => has_marker p = false) between ->
  has_marker (render_table t ++ post) = true ->
  well_formed t = true ->
  parse_statement_text (before ++ mp :: between ++ (render_table t ++ post) :: after)
  = Ok {| st_month := d; st_fmvs := fst (content t); st_total := snd (content t) |}.
Proof.
  intros Hb Hmm Hmd Hbt Htm Hwf. unfold parse_statement_text.
  rewrite (stmt_skip_none before _ Hb).
  cbn [parse_statement_aux]. rewrite Hmd. cbn [bind]. rewrite Hmm.
  rewrite (stmt_skip_some between d _ Hbt).
  cbn [parse_statement_aux bind]. rewrite Htm.
  rewrite (table_roundtrip t post Hwf). cbn [bind]. destruct (content t). reflexivity.
Qed.

(* same page carries month and table *)
Theorem statement_roundtrip_one_page before t post after d :
  Forall (fun p => has_marker p = false /\ month_date_of p = Ok None) before ->
  month_date_of (render_table t ++ post) = Ok (Some d) ->
  has_marker (render_table t ++ post) = true ->
  well_formed t = true ->
  parse_statement_text (before ++ (render_table t ++ post) :: after)
  = Ok {| st_month := d; st_fmvs := fst (content t); st_total := snd (content t) |}.
Proof.
  intros Hb Hmd Htm Hwf. unfold parse_statement_text.
  rewrite (stmt_skip_none before _ Hb).
  cbn [parse_statement_aux]. rewrite Hmd. cbn [bind]. rewrite Htm.
  rewrite (table_roundtrip t post Hwf). cbn [bind]. destruct (content t). reflexivity.
Qed.

(* ---------- examples / witnesses ---------- *)
Definition asc (l : list Z) : text := map Z.to_N l.

(* "SOME BOND 5.25 2030" : a single 100% holding whose description ends in two numbers *)
Definition t_SOME_BOND : text :=
  [83;79;77;69;32;66;79;78;68;32;53;46;50;53;32;50;48;51;48].
Definition t_hdr : text :=   (* ALLOCATION (%) MARKET VALUE ($) *)
  t_ALLOCATION ++ [32;40;37;41;32;77;65;82;75;69;84;32;86;65;76;85;69;32;40;36;41].
Definition ambiguous_witness : table_lay :=
  {| tl_indent := 0; tl_pre := []; tl_header := t_hdr;
     tl_secs := [ {| sl_lines := [t_SOME_BOND]; sl_alloc := [49;48;48;46;48];
                     sl_fmv := [53;48;44;48;48;48;46;48;48]; sl_own := true; sl_blank := false |} ];
     tl_total := [53;48;44;48;48;48;46;48;48]; tl_total00 := false |}.

Lemma ambiguous_witness_fails :
  layout_ok ambiguous_witness = true /\ ambiguous ambiguous_witness = true /\
  parse_page (render_table ambiguous_witness) <> Ok (content ambiguous_witness).
Proof.
  split; [vm_compute; reflexivity|]. split; [vm_compute; reflexivity|].
  intros H. vm_compute in H. discriminate H.
Qed.

(* the multi-line / single 100% example of the repository's own test *)
Definition t_SOME_GIC : text :=      (* SOME GIC 01/01/2024 *)
  [83;79;77;69;32;71;73;67;32;48;49;47;48;49;47;50;48;50;52].
Definition t_GIC_LINE2 : text :=     (* 4.00% 1Y DUE 01/01/2024  INT  4.000% (XXXXXX) *)
  [52;46;48;48;37;32;49;89;32;68;85;69;32;48;49;47;48;49;47;50;48;50;52;32;32;73;78;84;32;32;
   52;46;48;48;48;37;32;40;88;88;88;88;88;88;41].
Definition single_holding_example : table_lay :=
  {| tl_indent := 12; tl_pre := [[]]; tl_header := t_hdr;
     tl_secs := [ {| sl_lines := [t_SOME_GIC; t_GIC_LINE2]; sl_alloc := [49;48;48;46;48];
                     sl_fmv := [57;57;44;57;57;57;46;57;57]; sl_own := true; sl_blank := true |} ];
     tl_total := [49;48;48;44;48;48;48;46;48;48]; tl_total00 := false |}.

Lemma single_holding_example_wf : well_formed single_holding_example = true.
Proof. vm_compute. reflexivity. Qed.
