(* C02 under rounding: the window scans of a loss sale do not round when the
   window contains no Split row and every share count in it (and the balances
   of the state the scan starts from) is a decimal with at most 10 places and
   magnitude at most 10^12, for windows of up to 10^6 rows.

   Proof on top of Proofs/DecTransfer.v: under these hypotheses the scan under
   the representable arithmetic [rep] never hits an operator failure (every
   intermediate value is k/10^10 with |k| <= (2 + rows) * 10^22 < 2^96), so
   [sfl_info dec] = [sfl_info rep] = [sfl_info exact]. *)
From Coq Require Import List NArith ZArith QArith Qcanon Bool Lia.
From ACB Require Import Base.Outcome Base.QcExtra Base.Fit Base.Arith Model.Tx Model.Ledger Model.Sfl
     Proofs.Tactics Proofs.FitProps Proofs.DecTransfer.
Import ListNotations.
Local Open Scope Qc_scope.

(* ---- decimals over a fixed denominator ---- *)
Definition DP (P : positive) (B : Z) (q : Qc) : Prop :=
  exists m : Z, (Z.abs m <= B)%Z /\ (this q == m # P)%Q.

Lemma DP_mono P B B' q : (B <= B')%Z -> DP P B q -> DP P B' q.
Proof. intros HB (m & Hm & Hq). exists m. split; [lia | exact Hq]. Qed.

Lemma DP_add P B1 B2 a b : DP P B1 a -> DP P B2 b -> DP P (B1 + B2) (a + b).
Proof.
  intros (m1 & H1 & E1) (m2 & H2 & E2). exists (m1 + m2)%Z. split; [lia|].
  unfold Qcplus, Q2Qc. cbn [this]. rewrite Qred_correct, E1, E2.
  unfold Qeq, Qplus. cbn [Qnum Qden]. rewrite Pos2Z.inj_mul. ring.
Qed.

Lemma DP_sub P B1 B2 a b : DP P B1 a -> DP P B2 b -> DP P (B1 + B2) (a - b).
Proof.
  intros (m1 & H1 & E1) (m2 & H2 & E2). exists (m1 - m2)%Z. split; [lia|].
  unfold Qcminus, Qcplus, Qcopp, Q2Qc. cbn [this]. rewrite !Qred_correct, E1, E2.
  unfold Qeq, Qplus, Qopp. cbn [Qnum Qden]. rewrite Pos2Z.inj_mul. ring.
Qed.

Lemma DP_zero P : DP P 0 0.
Proof. exists 0%Z. split; [cbn; lia | reflexivity]. Qed.

(* ---- ten-place decimals of magnitude at most 10^12 ---- *)
Definition ten10 : Z := 10000000000.
Definition W : Z := 10000000000000000000000. (* 10^22 = 10^12 * 10^10 *)
Definition D (k : Z) (q : Qc) : Prop := DP (p10 10) (k * W) q.

Lemma p10_10 : Zpos (p10 10) = ten10. Proof. reflexivity. Qed.

(* executable: the canonical denominator divides 10^10, mantissa below 10^22 *)
Definition mant10 (q : Qc) : option Z :=
  let d := Zpos (Qden (this q)) in
  if Z.eqb (Z.modulo ten10 d) 0 then Some (Qnum (this q) * (ten10 / d))%Z else None.
Definition small (q : Qc) : bool :=
  match mant10 q with Some m => Z.ltb (Z.abs m) W | None => false end.

Lemma small_D q : small q = true -> D 1 q.
Proof.
  unfold small, mant10. destruct (Z.eqb_spec (ten10 mod Zpos (Qden (this q))) 0) as [E|]; [|discriminate].
  intros H. apply Z.ltb_lt in H. exists (Qnum (this q) * (ten10 / Zpos (Qden (this q))))%Z.
  split; [lia|]. unfold Qeq. cbn [Qnum Qden]. rewrite p10_10.
  pose proof (Z.div_mod ten10 (Zpos (Qden (this q))) ltac:(lia)) as Hd. rewrite E in Hd.
  destruct (this q) as [n d]. cbn [Qnum Qden] in *. set (k := (ten10 / Zpos d)%Z) in *. nia.
Qed.

Lemma D_mono k k' q : (k <= k')%Z -> D k q -> D k' q.
Proof. intros H. apply DP_mono. unfold W. nia. Qed.
Lemma D_add j k a b : D j a -> D k b -> D (j + k) (a + b).
Proof. intros Ha Hb. unfold D. rewrite Z.mul_add_distr_r. apply DP_add; assumption. Qed.
Lemma D_sub j k a b : D j a -> D k b -> D (j + k) (a - b).
Proof. intros Ha Hb. unfold D. rewrite Z.mul_add_distr_r. apply DP_sub; assumption. Qed.
Lemma D_zero k : (0 <= k)%Z -> D k 0.
Proof. intros H. eapply DP_mono; [|apply DP_zero]. unfold W. nia. Qed.

(* the largest weight whose mantissa still fits 96 bits *)
Definition kmax : Z := 7000000.
Lemma D_rep k q : D k q -> (k <= kmax)%Z -> rep_res q = Ok q.
Proof.
  intros (m & Hm & Hq) Hk. apply rep_res_of_fit. apply (fit_exact q m 10); [lia| |exact Hq].
  unfold W, kmax, max_mant in *. lia.
Qed.

(* ---- operations of [rep] on such values ---- *)
Lemma rep_add_D j k a b : D j a -> D k b -> (j + k <= kmax)%Z -> a_add rep a b = Ok (a + b).
Proof. intros Ha Hb Hk. cbn [a_add rep]. eapply D_rep; [apply D_add; eassumption | exact Hk]. Qed.
Lemma rep_sub_D j k a b : D j a -> D k b -> (j + k <= kmax)%Z -> a_sub rep a b = Ok (a - b).
Proof. intros Ha Hb Hk. cbn [a_sub rep]. eapply D_rep; [apply D_sub; eassumption | exact Hk]. Qed.
Lemma rep_mul_1 k a : D k a -> (k <= kmax)%Z -> a_mul rep a 1 = Ok a.
Proof.
  intros Ha Hk. cbn [a_mul rep]. replace (a * 1) with a by ring. eapply D_rep; eassumption.
Qed.
Lemma rep_div_1 k a : D k a -> (k <= kmax)%Z -> a_div rep a 1 = Ok a.
Proof.
  intros Ha Hk. cbn [a_div rep]. change (Qceqb 1 0) with false. cbv iota.
  replace (a / 1) with a by (field; discriminate). eapply D_rep; eassumption.
Qed.

(* ---- no operator failure ---- *)
Definition wpn {T} (m : res T) (Q : T -> Prop) : Prop :=
  match m with Ok x => Q x | Rej _ => True | Panic p => opfailb p = false end.

Lemma wpn_bind {T U} (m : res T) (f : T -> res U) Q :
  wpn m (fun x => wpn (f x) Q) -> wpn (bind m f) Q.
Proof. destruct m; cbn [wpn bind]; auto. Qed.
Lemma wpn_mono {T} (m : res T) (Q Q' : T -> Prop) :
  wpn m Q -> (forall x, Q x -> Q' x) -> wpn m Q'.
Proof. destruct m; cbn [wpn]; auto. Qed.
Lemma wpn_nofail {T} (m : res T) Q : wpn m Q -> forall p, m = Panic p -> opfailb p = false.
Proof. intros H p ->. exact H. Qed.

Ltac nstep L := apply wpn_bind; eapply wpn_mono; [eapply L | cbv beta].

Lemma wpn_gez_unwrap s q : wpn (gez_unwrap s q) (fun r => r = q).
Proof. unfold gez_unwrap. destruct (Qcleb 0 q); cbn [wpn opfailb]; reflexivity. Qed.
Lemma wpn_pos_unwrap s q : wpn (pos_unwrap s q) (fun r => r = q).
Proof. unfold pos_unwrap. destruct (Qcltb 0 q); cbn [wpn opfailb]; reflexivity. Qed.

Lemma wpn_gez_add j k a b : D j a -> D k b -> (j + k <= kmax)%Z ->
  wpn (gez_add rep a b) (fun r => r = a + b).
Proof. intros Ha Hb Hk. unfold gez_add. rewrite (rep_add_D j k a b Ha Hb Hk). cbn [bind]. apply wpn_gez_unwrap. Qed.
Lemma wpn_sub j k a b : D j a -> D k b -> (j + k <= kmax)%Z ->
  wpn (a_sub rep a b) (fun r => r = a - b).
Proof. intros Ha Hb Hk. rewrite (rep_sub_D j k a b Ha Hb Hk). reflexivity. Qed.
Lemma wpn_gez_div_1 k a : D k a -> (k <= kmax)%Z -> wpn (gez_div rep a 1) (fun r => r = a).
Proof. intros Ha Hk. unfold gez_div. rewrite (rep_div_1 k a Ha Hk). cbn [bind]. apply wpn_gez_unwrap. Qed.
Lemma wpn_pos_mul_1 k a : D k a -> (k <= kmax)%Z -> wpn (pos_mul rep a 1) (fun r => r = a).
Proof. intros Ha Hk. unfold pos_mul. rewrite (rep_mul_1 k a Ha Hk). cbn [bind]. apply wpn_pos_unwrap. Qed.

(* ---- the windows and the hypotheses on their rows, executable ---- *)
Fixpoint fwd_window (last : Z) (aft : list tx) : list tx :=
  match aft with
  | [] => []
  | t :: r => if Z.ltb last (t_sd t) then [] else t :: fwd_window last r
  end.
Fixpoint bwd_window (first : Z) (bef : list tx) : list tx :=
  match bef with
  | [] => []
  | t :: r => if Z.ltb (t_sd t) first then [] else t :: bwd_window first r
  end.

(* what the forward scan reads of a row: the share count of a Buy / Sell *)
Definition fwd_row_ok (t : tx) : bool :=
  match t_act t with
  | Buy sh _ _ _ _ | Sell sh _ _ _ _ _ => small sh
  | Split _ _ _ => false
  | Roc _ _ | Sfla _ _ => true
  end.
(* ... and the backward scan: the share count of a Buy *)
Definition bwd_row_ok (t : tx) : bool :=
  match t_act t with
  | Buy sh _ _ _ _ => small sh
  | Split _ _ _ => false
  | Sell _ _ _ _ _ _ | Roc _ _ | Sfla _ _ => true
  end.

Definition max_window_rows : Z := 1000000.

Definition scan_inputs_small (bef : list tx) (t : tx) (sold : Qc) (aft : list tx) (st : pstate) : bool :=
  let fw := fwd_window (t_sd t + window_days) aft in
  let bw := bwd_window (t_sd t - window_days) bef in
  small sold && small (s_all (latest_post_status st))
  && forallb (fun kv => small (s_sh (snd kv))) (ps_map st)
  && forallb fwd_row_ok fw && forallb bwd_row_ok bw
  && Z.leb (Z.of_nat (length fw + length bw)) max_window_rows.

(* ---- invariant of the scans ---- *)
Definition scan_D (k : Z) (s : scan) : Prop :=
  D k (sc_eop s) /\ D k (sc_acq s) /\ forall id v, alookup id (sc_active s) = Some v -> D k v.

Lemma scan_D_mono k k' s : (k <= k')%Z -> scan_D k s -> scan_D k' s.
Proof.
  intros H (H1 & H2 & H3). split; [|split].
  - eapply D_mono; eassumption.
  - eapply D_mono; eassumption.
  - intros id v E. eapply D_mono; [exact H | eapply H3; exact E].
Qed.

Lemma alookup_aupdate_cases {V} k k' (v : V) l x :
  alookup k' (aupdate k v l) = Some x -> x = v \/ alookup k' l = Some x.
Proof.
  induction l as [|[k0 v0] l IH]; cbn [aupdate alookup].
  - destruct (N.eqb k' k); [intros E; inversion E; auto | discriminate].
  - destruct (N.eqb_spec k k0) as [->|Hn]; cbn [alookup].
    + destruct (N.eqb k' k0); [intros E; inversion E; auto | auto].
    + destruct (N.eqb k' k0); [auto | exact IH].
Qed.

Lemma active_D_update k id v l :
  (forall i x, alookup i l = Some x -> D k x) -> D k v ->
  forall i x, alookup i (aupdate id v l) = Some x -> D k x.
Proof.
  intros Hl Hv i x E. apply alookup_aupdate_cases in E as [->|E]; [exact Hv | eapply Hl; exact E].
Qed.

Lemma old_D k dflt af active :
  (forall i x, alookup i active = Some x -> D k x) -> (forall a, D 1 (dflt a)) -> (1 <= k)%Z ->
  D k (match alookup (af_id af) active with Some d => d | None => dflt af end).
Proof.
  intros Hact Hd Hk. destruct (alookup (af_id af) active) as [d|] eqn:E.
  - eapply Hact; exact E.
  - eapply D_mono; [exact Hk | apply Hd].
Qed.

Section Scans.
  Variable dflt : aff -> Qc.
  Hypothesis Hdflt : forall a, D 1 (dflt a).

  Lemma wpn_fwd_scan last aft : forall k s,
    forallb fwd_row_ok (fwd_window last aft) = true ->
    (1 <= k)%Z -> (k + Z.of_nat (length (fwd_window last aft)) <= kmax)%Z -> scan_D k s ->
    wpn (fwd_scan rep last dflt aft [] s) (scan_D (k + Z.of_nat (length (fwd_window last aft)))).
  Proof.
    induction aft as [|x aft IH]; intros k s Hrows Hk1 Hk Hs; cbn [fwd_scan fwd_window] in *.
    - cbn [wpn length]. rewrite Z.add_0_r. exact Hs.
    - destruct (Z.ltb last (t_sd x)).
      + cbn [wpn length]. rewrite Z.add_0_r. exact Hs.
      + cbn [forallb length] in *. apply andb_prop in Hrows as [Hx Hrows].
        rewrite Nat2Z.inj_succ in *.
        destruct Hs as (He & Ha & Hact). unfold fwd_row_ok in Hx.
        change (adj_of (t_af x) []) with 1.
        pose proof (old_D k dflt (t_af x) (sc_active s) Hact Hdflt Hk1) as Hold.
        destruct (t_act x) as [sh aps com rate crate | sh aps com rate crate sp | aps rate | sh aps | post pre io].
        * apply small_D in Hx.
          nstep (wpn_gez_div_1 1 sh Hx ltac:(unfold kmax; lia)). intros b ->.
          nstep (wpn_gez_add k 1 (sc_eop s) sh He Hx ltac:(lia)). intros eop ->.
          nstep (wpn_gez_add k 1 _ sh Hold Hx ltac:(lia)). intros na ->.
          nstep (wpn_gez_add k 1 (sc_acq s) sh Ha Hx ltac:(lia)). intros acq ->.
          eapply wpn_mono; [apply (IH (k + 1)%Z); [exact Hrows | lia | lia |] | cbv beta].
          -- split; [apply D_add; assumption|]. split; [apply D_add; assumption|]. cbn [sc_active].
             apply active_D_update; [|apply D_add; assumption].
             intros i v E. eapply D_mono; [|eapply Hact; exact E]. lia.
          -- intros s'. apply scan_D_mono. lia.
        * apply small_D in Hx.
          nstep (wpn_gez_div_1 1 sh Hx ltac:(unfold kmax; lia)). intros b ->.
          nstep (wpn_sub k 1 (sc_eop s) sh He Hx ltac:(lia)). intros eop ->.
          destruct (Qcltb (sc_eop s - sh) 0); [exact I|].
          nstep (wpn_sub k 1 _ sh Hold Hx ltac:(lia)). intros na ->.
          match goal with |- wpn (if ?c then _ else _) _ => destruct c; [exact I|] end.
          eapply wpn_mono; [apply (IH (k + 1)%Z); [exact Hrows | lia | lia |] | cbv beta].
          -- split; [apply D_sub; assumption|]. split; [eapply D_mono; [|exact Ha]; lia|]. cbn [sc_active].
             apply active_D_update; [|apply D_sub; assumption].
             intros i v E. eapply D_mono; [|eapply Hact; exact E]. lia.
          -- intros s'. apply scan_D_mono. lia.
        * eapply wpn_mono; [apply (IH k); [exact Hrows | lia | lia | repeat split; assumption] | cbv beta].
          intros s'. apply scan_D_mono. lia.
        * eapply wpn_mono; [apply (IH k); [exact Hrows | lia | lia | repeat split; assumption] | cbv beta].
          intros s'. apply scan_D_mono. lia.
        * discriminate Hx.
  Qed.

  Lemma wpn_bwd_scan first bef : forall k s,
    forallb bwd_row_ok (bwd_window first bef) = true ->
    (1 <= k)%Z -> (k + Z.of_nat (length (bwd_window first bef)) <= kmax)%Z -> scan_D k s ->
    wpn (bwd_scan rep first dflt bef [] s) (scan_D (k + Z.of_nat (length (bwd_window first bef)))).
  Proof.
    induction bef as [|x bef IH]; intros k s Hrows Hk1 Hk Hs; cbn [bwd_scan bwd_window] in *.
    - cbn [wpn length]. rewrite Z.add_0_r. exact Hs.
    - destruct (Z.ltb (t_sd x) first).
      + cbn [wpn length]. rewrite Z.add_0_r. exact Hs.
      + cbn [forallb length] in *. apply andb_prop in Hrows as [Hx Hrows].
        rewrite Nat2Z.inj_succ in *.
        destruct Hs as (He & Ha & Hact). unfold bwd_row_ok in Hx.
        change (adj_of (t_af x) []) with 1.
        destruct (t_act x) as [sh aps com rate crate | sh aps com rate crate sp | aps rate | sh aps | post pre io].
        * apply small_D in Hx.
          nstep (wpn_pos_mul_1 1 sh Hx ltac:(unfold kmax; lia)). intros b ->.
          nstep (wpn_gez_add k 1 (sc_acq s) sh Ha Hx ltac:(lia)). intros acq ->.
          eapply wpn_mono; [apply (IH (k + 1)%Z); [exact Hrows | lia | lia |] | cbv beta].
          -- split; [eapply D_mono; [|exact He]; lia|]. split; [apply D_add; assumption|]. cbn [sc_active].
             assert (Hact' : forall i v, alookup i (sc_active s) = Some v -> D (k + 1) v).
             { intros i v E. eapply D_mono; [|eapply Hact; exact E]. lia. }
             destruct (amem (af_id (t_af x)) (sc_active s)); [exact Hact'|].
             apply active_D_update; [exact Hact'|]. eapply D_mono; [|apply Hdflt]. lia.
          -- intros s'. apply scan_D_mono. lia.
        * eapply wpn_mono; [apply (IH k); [exact Hrows | lia | lia | repeat split; assumption] | cbv beta].
          intros s'. apply scan_D_mono. lia.
        * eapply wpn_mono; [apply (IH k); [exact Hrows | lia | lia | repeat split; assumption] | cbv beta].
          intros s'. apply scan_D_mono. lia.
        * eapply wpn_mono; [apply (IH k); [exact Hrows | lia | lia | repeat split; assumption] | cbv beta].
          intros s'. apply scan_D_mono. lia.
        * discriminate Hx.
  Qed.
End Scans.

Lemma alookup_in {V} k (l : list (N * V)) v : alookup k l = Some v -> exists k', In (k', v) l.
Proof.
  induction l as [|[k0 v0] l IH]; cbn [alookup]; [discriminate|].
  destruct (N.eqb k k0).
  - intros E; inversion E; subst. exists k0. left; reflexivity.
  - intros E. destruct (IH E) as (k' & Hin). exists k'. right; exact Hin.
Qed.

(* ---- get_superficial_loss_info under [rep] never fails as an operator ---- *)
Lemma sfl_info_rep_nofail bef t sold aft st :
  scan_inputs_small bef t sold aft st = true ->
  wpn (sfl_info rep bef t sold aft st) (fun _ => True).
Proof.
  unfold scan_inputs_small. intros H.
  apply andb_prop in H as [H Hn]. apply andb_prop in H as [H Hbw]. apply andb_prop in H as [H Hfw].
  apply andb_prop in H as [H Hmap]. apply andb_prop in H as [Hsold Hall].
  apply Z.leb_le in Hn. rewrite Nat2Z.inj_add in Hn. unfold max_window_rows in Hn.
  apply small_D in Hsold. apply small_D in Hall.
  set (dflt := fun af => match latest_for st af with Some s => s_sh s | None => 0 end).
  assert (Hdflt : forall a, D 1 (dflt a)).
  { intros a. unfold dflt, latest_for. destruct (alookup (af_id a) (ps_map st)) as [s|] eqn:E.
    - apply alookup_in in E as (k' & Hin). rewrite forallb_forall in Hmap.
      apply small_D. exact (Hmap (k', s) Hin).
    - apply D_zero. lia. }
  unfold sfl_info. fold dflt.
  nstep (wpn_sub 1 1 _ sold Hall Hsold ltac:(unfold kmax; lia)). intros all0 ->.
  match goal with |- wpn (if ?c then _ else _) _ => destruct c; [exact I|] end.
  nstep (wpn_sub 1 1 _ sold (Hdflt (t_af t)) Hsold ltac:(unfold kmax; lia)). intros af0 ->.
  match goal with |- wpn (if ?c then _ else _) _ => destruct c; [exact I|] end.
  set (nf := Z.of_nat (length (fwd_window (t_sd t + window_days) aft))) in *.
  set (nb := Z.of_nat (length (bwd_window (t_sd t - window_days) bef))) in *.
  assert (Hnf : (0 <= nf)%Z) by (subst nf; lia). assert (Hnb : (0 <= nb)%Z) by (subst nb; lia).
  apply wpn_bind. eapply wpn_mono.
  - apply (wpn_fwd_scan dflt Hdflt (t_sd t + window_days) aft 2%Z); [exact Hfw | lia | fold nf; unfold kmax; lia |].
    split; [apply (D_sub 1 1); assumption|]. split; [apply D_zero; lia|].
    intros id v. cbn [sc_active alookup]. destruct (N.eqb id _); [|discriminate].
    intros E; inversion E; subst. apply (D_sub 1 1); [apply Hdflt | assumption].
  - cbv beta. fold nf. intros s1 Hs1.
    match goal with |- wpn (if ?c then _ else _) _ => destruct c; [exact I|] end.
    apply wpn_bind. eapply wpn_mono.
    + apply (wpn_bwd_scan dflt Hdflt (t_sd t - window_days) bef (2 + nf)%Z);
        [exact Hbw | lia | fold nb; unfold kmax; lia | exact Hs1].
    + cbv beta. intros s2 _. destruct (Qcltb 0 (sc_acq s2)); exact I.
Qed.

(* ---- the theorem: rounding changes nothing in the scans ---- *)
Theorem dec_scan_exact_without_splits bef t sold aft st :
  scan_inputs_small bef t sold aft st = true ->
  sfl_info dec bef t sold aft st = sfl_info exact bef t sold aft st.
Proof.
  intros H. pose proof (wpn_nofail _ _ (sfl_info_rep_nofail bef t sold aft st H)) as Hn.
  rewrite (rsim_eq _ _ (sim_sfl_info rep dec (arith_le_sim _ _ rep_le_dec rep_op_only) bef t sold aft st) Hn).
  rewrite (rsim_eq _ _ (sim_sfl_info rep exact (arith_le_sim _ _ rep_le_exact rep_op_only) bef t sold aft st) Hn).
  reflexivity.
Qed.

(* [small] in plain terms *)
Lemma small_is_ten_place_decimal (x : Qc) :
  small x = true ->
  exists m : Z, (Z.abs m <= 10000000000000000000000)%Z /\ (this x == m # 10000000000)%Q.
Proof. intros H. destruct (small_D x H) as (m & Hm & Hq). exists m. split; [exact Hm | exact Hq]. Qed.
