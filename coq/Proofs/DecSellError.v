(* One row under rounding: the Sell arm (without a superficial loss), the
   return-of-capital arm and the Split arm, rounded against exact.

   Template: Proofs/DecRowError.v (the Buy arm).  [T j] = 10^j, [u j] = half a
   unit of the last place kept for a result of magnitude at most 10^j.

   The Sell arm (Model/Ledger.v [sell_core], the part of the arm below the
   superficial-loss computation):
     nsh    = shares - sold                      (a_sub)
     acbps  = cost base / shares                 (gez_div, ROUNDED division)
     nacb   = nsh * acbps                        (gez_mul)
     v      = (price * sold) * rate              (two gez_mul)
     c      = commission * its rate              (gez_mul)
     payout = v - c                              (a_sub)
     cost   = acbps * sold                       (a_mul)
     gain   = payout - cost                      (a_sub)
   The map cost base -> new cost base is  x |-> (nsh / shares) * x  with
   0 <= nsh / shares <= 1, and cost base -> cost of the shares sold is
   x |-> (sold / shares) * x with 0 < sold / shares <= 1: an error eps of the
   incoming cost base is passed on with a factor at most 1. *)
From Coq Require Import List NArith ZArith QArith Qcanon Bool Lia Lqa Qabs.
From ACB Require Import Base.Outcome Base.QcExtra Base.Fit Base.Arith Model.Tx Model.Ledger
     Proofs.Tactics Proofs.FitProps Proofs.DecRowError.
Import ListNotations.
Local Open Scope Qc_scope.

(* ---- operators of [dec] ---- *)
Lemma sub_dec a b r : a_sub dec a b = Ok r -> fit (a - b) = Some r.
Proof. cbn [a_sub dec]. unfold fit_res. destruct (fit (a - b)); intros H; inversion H; reflexivity. Qed.
Lemma mul_dec a b r : a_mul dec a b = Ok r -> fit (a * b) = Some r.
Proof. cbn [a_mul dec]. unfold fit_res. destruct (fit (a * b)); intros H; inversion H; reflexivity. Qed.
Lemma gez_div_dec a b r : gez_div dec a b = Ok r -> b <> 0 /\ fit (a / b) = Some r.
Proof.
  unfold gez_div. cbn [a_div dec]. destruct (Qceqb_spec b 0) as [|Hb]; cbn [bind]; [discriminate|].
  unfold fit_res. destruct (fit (a / b)) as [x|]; cbn [bind]; [|discriminate].
  intros H. apply gez_unwrap_ok in H as [-> _]. split; [exact Hb | reflexivity].
Qed.

(* ---- non-linear facts ---- *)
Lemma div_le_bound (a h P : Qc) : 0 < h -> a <= P * h -> a / h <= P.
Proof.
  intros Hh H. unfold Qcdiv.
  assert (E : P = P * h * / h) by (field; intros E; subst h; apply (Qclt_not_eq 0 0 Hh); reflexivity).
  rewrite E. apply Qcmult_le_compat_r; [exact H|]. apply Qclt_le_weak, Qcinv_pos, Hh.
Qed.

(* the share of a cost base that belongs to n of h shares, n <= h: factor <= 1 *)
Lemma scale_within (x y n h eps : Qc) :
  0 < h -> 0 <= n -> n <= h -> y - eps <= x -> x <= y + eps ->
  n * (y / h) - eps <= n * (x / h) /\ n * (x / h) <= n * (y / h) + eps.
Proof.
  intros Hh Hn Hnh H1 H2.
  assert (Hne : h <> 0) by (intros E; subst h; apply (Qclt_not_eq 0 0 Hh); reflexivity).
  set (r := n / h).
  assert (Ex : n * (x / h) = r * x) by (subst r; field; exact Hne).
  assert (Ey : n * (y / h) = r * y) by (subst r; field; exact Hne).
  assert (Hr0 : 0 <= r) by (subst r; apply Qcdiv_nonneg; assumption).
  assert (Hr1 : r <= 1).
  { subst r. apply div_le_bound; [exact Hh|]. rewrite Qcmult_1_l. exact Hnh. }
  rewrite Ex, Ey. clear - Hr0 Hr1 H1 H2. qc_unfold. split; nra.
Qed.

Lemma mul_within_l (a b c e R : Qc) :
  a - e <= b -> b <= a + e -> 0 <= c -> c <= R -> 0 <= e ->
  c * a - R * e <= c * b /\ c * b <= c * a + R * e.
Proof. intros H1 H2 H3 H4 H5. qc_unfold. split; nra. Qed.

(* ---- the eight roundings of a sale ---- *)
Lemma sell_error_math (j1 jp J : nat) (R C N eps h sh aps com rate crate od oe n pd nd v1d vd cd payd costd gd : Qc) :
  (j1 <= 28)%nat -> (jp <= 28)%nat -> (J <= 28)%nat ->
  0 < sh -> 0 <= aps -> aps * sh <= T j1 ->
  0 <= rate -> rate <= R ->
  0 <= com -> 0 <= crate -> com * crate <= C ->
  0 < h -> n = h - sh -> 0 <= n -> h <= N ->
  0 <= od -> od <= T jp * h ->
  (T j1 + 1) * R + C + N * (T jp + 1) + (1 + 1 + 1) <= T J ->
  0 <= eps -> oe - eps <= od -> od <= oe + eps ->
  fit (od / h) = Some pd -> fit (n * pd) = Some nd ->
  fit (aps * sh) = Some v1d -> fit (v1d * rate) = Some vd -> fit (com * crate) = Some cd ->
  fit (vd - cd) = Some payd -> fit (pd * sh) = Some costd -> fit (payd - costd) = Some gd ->
  let ne := n * (oe / h) in
  let ge := aps * sh * rate - com * crate - oe / h * sh in
  let Ba := eps + N * u jp + u J in
  let Bg := eps + u j1 * R + N * u jp + (1 + 1 + 1 + 1 + 1) * u J in
  (ne - Ba <= nd /\ nd <= ne + Ba) /\ (ge - Bg <= gd /\ gd <= ge + Bg) /\ 0 <= nd.
Proof.
  intros Hj1 Hjp HJ Hsh Haps Ha Hr0 HrR Hcom Hcrate HcC Hh En Hn HhN Hod HodP Hsize Heps He1 He2
         Fp Fn F1 F2 F3 F4 F7 F8 ne ge Ba Bg.
  pose proof (u_pos j1) as Hu1. pose proof (u_le_half j1) as Hu1h.
  pose proof (u_pos jp) as Hup. pose proof (u_le_half jp) as Huph.
  pose proof (u_pos J) as HuJ. pose proof (u_le_half J) as HuJh.
  pose proof (T_ge_1 j1) as HT1. pose proof (T_ge_1 jp) as HTp. pose proof (T_ge_1 J) as HTJ.
  assert (Hhalf : Qcfrac 1 2 + Qcfrac 1 2 = 1) by (apply Qc_is_canon; reflexivity).
  assert (Hshh : sh <= h) by (clear - En Hn; qc_lra).
  assert (HshN : sh <= N) by (clear - Hshh HhN; qc_lra).
  assert (HnN : n <= N) by (clear - En Hsh HhN; qc_lra).
  assert (Hnh : n <= h) by (clear - En Hsh; qc_lra).
  assert (HN0 : 0 <= N) by (clear - Hh HhN; qc_lra).
  (* per-share cost *)
  set (p := od / h) in *.
  assert (Hp0 : 0 <= p) by (apply Qcdiv_nonneg; assumption).
  assert (HpP : p <= T jp) by (apply div_le_bound; assumption).
  destruct (fit_within p pd jp Hjp Fp ltac:(clear - Hp0 HTp; qc_lra) HpP) as [Wpa Wpb].
  pose proof (fit_nonneg _ _ Fp Hp0) as Hpd0.
  assert (HpdP : pd <= T jp + 1) by (clear - Wpb HpP Huph Hhalf Hup; qc_lra).
  (* remaining cost base n * pd *)
  destruct (mul_bounds n pd N (T jp + 1) Hn HnN Hpd0 HpdP) as [Mn0 MnN].
  destruct (mul_within_l p pd n (u jp) N Wpa Wpb Hn HnN (Qclt_le_weak _ _ Hup)) as [Mna Mnb].
  destruct (scale_within od oe n h eps Hh Hn Hnh He1 He2) as [Sna Snb]. fold p in Sna, Snb.
  set (NP := N * (T jp + 1)) in *. set (Nu := N * u jp) in *.
  assert (HNP0 : 0 <= NP) by (clear - Mn0 MnN; qc_lra).
  (* proceeds *)
  set (a := aps * sh) in *.
  assert (Ha0 : 0 <= a) by (apply Qcmul_nonneg; [assumption | apply Qclt_le_weak; assumption]).
  destruct (fit_within a v1d j1 Hj1 F1 ltac:(clear - Ha0 HT1; qc_lra) Ha) as [W1a W1b].
  pose proof (fit_nonneg _ _ F1 Ha0) as Hv1.
  destruct (mul_bounds v1d rate (T j1 + 1) R Hv1 ltac:(clear - W1b Ha Hu1h Hhalf Hu1; qc_lra) Hr0 HrR) as [N1 N2].
  destruct (mul_within a v1d rate (u j1) R W1a W1b Hr0 HrR (Qclt_le_weak _ _ Hu1)) as [N3 N4].
  set (x2 := v1d * rate) in *. set (ar := a * rate) in *. set (TR := (T j1 + 1) * R) in *. set (uR := u j1 * R) in *.
  assert (HTR0 : 0 <= TR) by (clear - N1 N2; qc_lra).
  set (c0 := com * crate) in *.
  assert (Hc0 : 0 <= c0) by (apply Qcmul_nonneg; assumption).
  assert (HC0 : 0 <= C) by (clear - Hc0 HcC; qc_lra).
  destruct (fit_within (n * pd) nd J HJ Fn ltac:(clear - Mn0 HTJ; qc_lra)
              ltac:(clear - MnN Hsize HTR0 HC0; qc_lra)) as [Wna Wnb].
  pose proof (fit_nonneg _ _ Fn Mn0) as Hnd0.
  destruct (fit_within x2 vd J HJ F2 ltac:(clear - N1 HTJ; qc_lra)
              ltac:(clear - N2 Hsize HNP0 HC0; qc_lra)) as [W2a W2b].
  pose proof (fit_nonneg _ _ F2 N1) as Hvd.
  destruct (fit_within c0 cd J HJ F3 ltac:(clear - Hc0 HTJ; qc_lra)
              ltac:(clear - HcC Hsize HNP0 HTR0; qc_lra)) as [W3a W3b].
  pose proof (fit_nonneg _ _ F3 Hc0) as Hcd.
  destruct (fit_within (vd - cd) payd J HJ F4
              ltac:(clear - Hvd W3b HcC Hsize HNP0 HTR0 HuJh Hhalf; qc_lra)
              ltac:(clear - Hcd W2b N2 Hsize HNP0 HC0 HuJh Hhalf; qc_lra)) as [W4a W4b].
  (* cost of the shares sold pd * sh *)
  destruct (mul_bounds pd sh (T jp + 1) N Hpd0 HpdP (Qclt_le_weak _ _ Hsh) HshN) as [Mc0 McN].
  destruct (mul_within p pd sh (u jp) N Wpa Wpb (Qclt_le_weak _ _ Hsh) HshN (Qclt_le_weak _ _ Hup)) as [Mca Mcb].
  destruct (scale_within od oe sh h eps Hh (Qclt_le_weak _ _ Hsh) Hshh He1 He2) as [Sca Scb]. fold p in Sca, Scb.
  assert (EPN : (T jp + 1) * N = NP) by (subst NP; ring).
  assert (EuN : u jp * N = Nu) by (subst Nu; ring).
  rewrite EPN in McN. rewrite EuN in Mca, Mcb.
  assert (Ecs : sh * (oe / h) = oe / h * sh) by ring.
  assert (Eps : sh * p = p * sh) by ring.
  rewrite Ecs, Eps in Sca, Scb.
  destruct (fit_within (pd * sh) costd J HJ F7 ltac:(clear - Mc0 HTJ; qc_lra)
              ltac:(clear - McN Hsize HTR0 HC0; qc_lra)) as [W7a W7b].
  pose proof (fit_nonneg _ _ F7 Mc0) as Hcost0.
  destruct (fit_within (payd - costd) gd J HJ F8
              ltac:(clear - W4a Hvd W3b HcC W7b McN Hsize HTR0 HuJh Hhalf; qc_lra)
              ltac:(clear - W4b Hcd W2b N2 Hcost0 Hsize HNP0 HC0 HuJh Hhalf; qc_lra)) as [W8a W8b].
  subst ne ge Ba Bg. fold a ar c0 uR Nu.
  set (pe := oe / h) in *.
  split; [|split].
  - clear - Wna Wnb Mna Mnb Sna Snb. split; qc_lra.
  - clear - W8a W8b W7a W7b Mca Mcb Sca Scb W4a W4b W3a W3b W2a W2b N3 N4. split; qc_lra.
  - exact Hnd0.
Qed.

(* ---- the three roundings of a return of capital ---- *)
Lemma roc_error_math (j1 J : nat) (R O eps h aps rate od oe v1d rd nd : Qc) :
  (j1 <= 28)%nat -> (J <= 28)%nat ->
  0 <= h -> 0 <= aps -> aps * h <= T j1 ->
  0 <= rate -> rate <= R ->
  0 <= od -> od <= O ->
  (T j1 + 1) * R + O + (1 + 1) <= T J ->
  oe - eps <= od -> od <= oe + eps ->
  fit (aps * h) = Some v1d -> fit (v1d * rate) = Some rd -> fit (od - rd) = Some nd ->
  let ne := oe - aps * h * rate in
  let B := eps + u j1 * R + (1 + 1) * u J in
  ne - B <= nd /\ nd <= ne + B.
Proof.
  intros Hj1 HJ Hh Haps Ha Hr0 HrR Hod HodO Hsize He1 He2 F1 F2 F3 ne B.
  pose proof (u_pos j1) as Hu1. pose proof (u_le_half j1) as Hu1h.
  pose proof (u_pos J) as HuJ. pose proof (u_le_half J) as HuJh.
  pose proof (T_ge_1 j1) as HT1. pose proof (T_ge_1 J) as HTJ.
  assert (Hhalf : Qcfrac 1 2 + Qcfrac 1 2 = 1) by (apply Qc_is_canon; reflexivity).
  set (a := aps * h) in *.
  assert (Ha0 : 0 <= a) by (apply Qcmul_nonneg; assumption).
  destruct (fit_within a v1d j1 Hj1 F1 ltac:(clear - Ha0 HT1; qc_lra) Ha) as [W1a W1b].
  pose proof (fit_nonneg _ _ F1 Ha0) as Hv1.
  destruct (mul_bounds v1d rate (T j1 + 1) R Hv1 ltac:(clear - W1b Ha Hu1h Hhalf Hu1; qc_lra) Hr0 HrR) as [N1 N2].
  destruct (mul_within a v1d rate (u j1) R W1a W1b Hr0 HrR (Qclt_le_weak _ _ Hu1)) as [N3 N4].
  set (x2 := v1d * rate) in *. set (ar := a * rate) in *. set (TR := (T j1 + 1) * R) in *. set (uR := u j1 * R) in *.
  assert (HO0 : 0 <= O) by (clear - Hod HodO; qc_lra).
  assert (HTR0 : 0 <= TR) by (clear - N1 N2; qc_lra).
  destruct (fit_within x2 rd J HJ F2 ltac:(clear - N1 HTJ; qc_lra)
              ltac:(clear - N2 Hsize HO0; qc_lra)) as [W2a W2b].
  pose proof (fit_nonneg _ _ F2 N1) as Hrd.
  destruct (fit_within (od - rd) nd J HJ F3
              ltac:(clear - Hod W2b N2 Hsize HO0 HuJh Hhalf; qc_lra)
              ltac:(clear - HodO Hrd Hsize HTR0; qc_lra)) as [W3a W3b].
  subst ne B. fold a ar uR.
  clear - W3a W3b W2a W2b N3 N4 He1 He2. split; qc_lra.
Qed.
