(* C19, text layer: round trips through the supported layouts
   (parse_X (render_X style r) = Ok (record of r) for every well-formed r). *)
From Coq Require Import String Ascii.
From Coq Require Import List NArith ZArith QArith Qcanon Bool Lia.
From ACB Require Import Base.Outcome Base.QcExtra Base.Fit Base.Arith Model.QText Model.Etrade
  Model.EtradeText Spec.EtradeLayoutChunks Spec.EtradeLayout Proofs.EtradeTextFrame.
Import ListNotations.
Local Open Scope N_scope.

(* ------------------------------------------------------------------ numerals *)
Definition digits (l : text) : Prop := forallb is_digit l = true.

Lemma span_spec p : forall s a r, span p s = (a, r) -> s = a ++ r /\ forallb p a = true.
Proof.
  induction s as [|c s IH]; intros a r H; cbn [span] in H.
  - inversion H; subst. split; reflexivity.
  - destruct (p c) eqn:E.
    + destruct (span p s) as [a' r'] eqn:E2. inversion H; subst.
      destruct (IH a' r eq_refl) as [H1 H2]. subst s. split; [reflexivity|]. cbn [forallb]. rewrite E, H2. reflexivity.
    + inversion H; subst. split; reflexivity.
Qed.

(* a printed decimal "ddd.ddd" with at most 28 digits *)
Definition is_dec (t : text) : bool :=
  match span is_digit t with
  | (a, 46 :: b) =>
      negb (Nat.eqb (length a) 0) && negb (Nat.eqb (length b) 0) && forallb is_digit b
      && Nat.leb (length a + length b) 28
  | _ => false
  end.

Lemma is_dec_spec t : is_dec t = true ->
  exists a b, t = a ++ 46 :: b /\ digits a /\ digits b /\ a <> [] /\ b <> [] /\ (length a + length b <= 28)%nat.
Proof.
  unfold is_dec. destruct (span is_digit t) as [a r] eqn:E. destruct (span_spec _ _ _ _ E) as [H1 H2].
  destruct r as [|c b]; [discriminate|]. destruct (c =? 46) eqn:Ec.
  2:{ intros H. exfalso. destruct c as [|p]; [discriminate|].
      repeat (destruct p as [p|p|]; try discriminate). }
  apply N.eqb_eq in Ec. subst c. intros H.
  repeat (apply andb_true_iff in H; destruct H as [H ?]).
  exists a, b. repeat split; auto.
  - intros ->. discriminate.
  - intros ->. discriminate.
  - apply Nat.leb_le. assumption.
Qed.

Lemma digit_not_comma c : is_digit c = true -> is_comma c = false.
Proof. unfold is_digit, is_comma. intros H. apply andb_true_iff in H. destruct H as [H1 H2].
  apply N.leb_le in H1. apply N.eqb_neq. lia. Qed.
Lemma digit_not_dot c : is_digit c = true -> is_dot c = false.
Proof. unfold is_digit, is_dot. intros H. apply andb_true_iff in H. destruct H as [H1 H2].
  apply N.leb_le in H1. apply N.eqb_neq. lia. Qed.
Lemma digit_nonspace c : is_digit c = true -> is_space c = false.
Proof.
  unfold is_digit. intros H. apply andb_true_iff in H. destruct H as [H1 H2].
  apply N.leb_le in H1. apply N.leb_le in H2. unfold is_space.
  repeat match goal with |- (_ || _) = false => apply orb_false_iff; split end;
  try (apply N.eqb_neq; lia); apply andb_false_iff; first [left; apply N.leb_gt; lia | right; apply N.leb_gt; lia].
Qed.

Lemma strip_commas_digits l : digits l -> strip_commas l = l.
Proof.
  unfold digits, strip_commas. induction l as [|c l IH]; intros H; [reflexivity|].
  cbn [forallb] in H. apply andb_true_iff in H. destruct H as [Hc Hl].
  cbn [filter]. rewrite (digit_not_comma c Hc). cbn [negb]. rewrite (IH Hl). reflexivity.
Qed.
Lemma filter_digits l : digits l -> filter is_digit l = l.
Proof.
  unfold digits. induction l as [|c l IH]; intros H; [reflexivity|].
  cbn [forallb] in H. apply andb_true_iff in H. destruct H as [Hc Hl].
  cbn [filter]. rewrite Hc, (IH Hl). reflexivity.
Qed.
Lemma filter_dot_digits l : digits l -> filter is_dot l = [].
Proof.
  unfold digits. induction l as [|c l IH]; intros H; [reflexivity|].
  cbn [forallb] in H. apply andb_true_iff in H. destruct H as [Hc Hl].
  cbn [filter]. rewrite (digit_not_dot c Hc), (IH Hl). reflexivity.
Qed.

Lemma digits_value_bound l : digits l -> forall acc,
  fold_left (fun acc c => acc * 10 + digit_val c) l acc < (acc + 1) * 10 ^ N.of_nat (length l).
Proof.
  unfold digits. induction l as [|c l IH]; intros H acc.
  - cbn. lia.
  - cbn [forallb] in H. apply andb_true_iff in H. destruct H as [Hc Hl].
    cbn [fold_left length]. specialize (IH Hl (acc * 10 + digit_val c)).
    unfold is_digit in Hc. apply andb_true_iff in Hc. destruct Hc as [H1 H2].
    apply N.leb_le in H1. apply N.leb_le in H2.
    assert (Hd : digit_val c <= 9) by (unfold digit_val; lia).
    rewrite Nat2N.inj_succ, N.pow_succ_r'. nia.
Qed.

Lemma mantissa_bound l : digits l -> (length l <= 28)%nat -> (Z.of_N (digits_value l) <= max_mant)%Z.
Proof.
  intros Hd Hl. pose proof (digits_value_bound l Hd 0) as H. unfold digits_value.
  assert (H10 : 10 ^ N.of_nat (length l) <= 10 ^ 28) by (apply N.pow_le_mono_r; lia).
  unfold max_mant. change (10 ^ 28) with 10000000000000000000000000000 in H10. lia.
Qed.

Lemma forallb_app_iff {A} (p : A -> bool) a b : forallb p (a ++ b) = forallb p a && forallb p b.
Proof. apply forallb_app. Qed.

Lemma dec_ok a b :
  digits a -> digits b -> a <> [] -> (length a + length b <= 28)%nat ->
  plain_num_ok (strip_commas (a ++ 46 :: b)) = true.
Proof.
  intros Ha Hb Hn Hl.
  assert (Hs : strip_commas (a ++ 46 :: b) = a ++ 46 :: b).
  { unfold strip_commas. rewrite filter_app. cbn [filter is_comma N.eqb Pos.eqb negb].
    fold (strip_commas a). fold (strip_commas b). rewrite !strip_commas_digits by assumption. reflexivity. }
  rewrite Hs. unfold plain_num_ok.
  assert (Hf : filter is_digit (a ++ 46 :: b) = a ++ b).
  { rewrite filter_app. cbn [filter is_digit N.leb N.compare Pos.compare Pos.compare_cont andb].
    rewrite !filter_digits by assumption. reflexivity. }
  assert (Hdots : count_dots (a ++ 46 :: b) = 1%nat).
  { unfold count_dots. rewrite filter_app. cbn [filter is_dot N.eqb Pos.eqb].
    rewrite !filter_dot_digits by assumption. reflexivity. }
  assert (Hfl : frac_len (a ++ 46 :: b) = length b).
  { clear Hn Hl Hs Hf Hdots. induction a as [|c a IH].
    - cbn [app frac_len is_dot N.eqb Pos.eqb]. rewrite filter_digits by assumption. reflexivity.
    - unfold digits in Ha. cbn [forallb] in Ha. apply andb_true_iff in Ha. destruct Ha as [Hc Ha].
      cbn [app frac_len]. rewrite (digit_not_dot c Hc). apply IH. exact Ha. }
  unfold mantissa. rewrite Hf, Hdots, Hfl.
  assert (H1 : forallb (fun c => is_digit c || is_dot c) (a ++ 46 :: b) = true).
  { rewrite forallb_app. cbn [forallb]. apply andb_true_iff. split; [|apply andb_true_iff; split; [reflexivity|]].
    - eapply forallb_forall. intros x Hx. unfold digits in Ha. rewrite forallb_forall in Ha. rewrite (Ha x Hx). reflexivity.
    - eapply forallb_forall. intros x Hx. unfold digits in Hb. rewrite forallb_forall in Hb. rewrite (Hb x Hx). reflexivity. }
  rewrite H1. cbn [andb].
  assert (H2 : Nat.eqb (length (a ++ b)) 0 = false).
  { destruct a; [congruence|reflexivity]. }
  rewrite H2. cbn [negb andb Nat.leb].
  assert (H3 : Nat.leb (length b) 28 = true) by (apply Nat.leb_le; lia).
  rewrite H3. cbn [andb]. apply Z.leb_le. apply mantissa_bound.
  - unfold digits. rewrite forallb_app. unfold digits in Ha, Hb. rewrite Ha, Hb. reflexivity.
  - rewrite app_length. lia.
Qed.

Lemma parse_large_dec a b :
  digits a -> digits b -> a <> [] -> (length a + length b <= 28)%nat ->
  parse_large (a ++ 46 :: b) = Ok (dval (a ++ 46 :: b)).
Proof. intros. unfold parse_large, dval. rewrite dec_ok by assumption. reflexivity. Qed.

(* ------------------------------------------------------------------ hits *)
Definition nd (r : text) : Prop := match r with [] => True | c :: _ => is_digit c = false end.

Lemma nd_run1 a r : digits a -> a <> [] -> nd r -> run1 is_digit (a ++ r) = Some (a, r).
Proof. intros. apply run1_all; assumption. Qed.

Lemma dd_hit a b r : digits a -> digits b -> a <> [] -> b <> [] -> nd r ->
  dd (a ++ 46 :: b ++ r) = Some (a ++ 46 :: b, r).
Proof.
  intros Ha Hb Hna Hnb Hr. unfold dd.
  rewrite (nd_run1 a (46 :: b ++ r)) by (auto; reflexivity). cbn [obind chr N.eqb Pos.eqb].
  rewrite (nd_run1 b r) by auto. reflexivity.
Qed.

Lemma date3_hit sep m d y r : is_digit sep = false ->
  digits m -> digits d -> digits y -> m <> [] -> d <> [] -> y <> [] -> nd r ->
  date3 sep (m ++ sep :: d ++ sep :: y ++ r) = Some ((m, d, y), r).
Proof.
  intros Hs Hm Hd Hy Hnm Hndd Hny Hr. unfold date3.
  rewrite (nd_run1 m (sep :: d ++ sep :: y ++ r)) by (auto; exact Hs). cbn [obind chr]. rewrite N.eqb_refl. cbn [obind].
  rewrite (nd_run1 d (sep :: y ++ r)) by (auto; exact Hs). cbn [obind chr]. rewrite N.eqb_refl. cbn [obind].
  rewrite (nd_run1 y r) by auto. reflexivity.
Qed.

Lemma key_hit {A} k (cont : text -> option A) s r :
  strip_prefix k s = Some r -> key_sp0 k cont s = cont (skip_spaces r).
Proof. intros H. unfold key_sp0, lit. rewrite H. reflexivity. Qed.

Lemma skip_sp_digits a X : digits a -> a <> [] -> skip_spaces (32 :: a ++ X) = a ++ X.
Proof.
  intros Ha Hn. destruct a as [|c a]; [congruence|]. unfold digits in Ha. cbn [forallb] in Ha.
  apply andb_true_iff in Ha. destruct Ha as [Hc _].
  cbn [skip_spaces app]. change (is_space 32) with true. cbn iota. cbn [skip_spaces].
  rewrite (digit_nonspace c Hc). reflexivity.
Qed.
Lemma skip_digits a X : digits a -> a <> [] -> skip_spaces (a ++ X) = a ++ X.
Proof.
  intros Ha Hn. destruct a as [|c a]; [congruence|]. unfold digits in Ha. cbn [forallb] in Ha.
  apply andb_true_iff in Ha. destruct Ha as [Hc _]. cbn [skip_spaces app]. rewrite (digit_nonspace c Hc). reflexivity.
Qed.

Lemma guarded_key_sp0 {A} k (cont : text -> option A) : guarded (key_sp0 k cont) (glit k).
Proof. exact (guarded_lit k (fun r => cont (skip_spaces r))). Qed.

(* dates *)
Definition date_ok (d : date_t) : bool :=
  let '(mt, dt, yt) := d in
  Nat.eqb (length mt) 2 && Nat.eqb (length dt) 2 && Nat.eqb (length yt) 4
  && forallb is_digit mt && forallb is_digit dt && forallb is_digit yt
  && (1 <=? digits_value mt) && (digits_value mt <=? 12) && (1 <=? digits_value dt)
  && (digits_value dt <=? days_in_month (digits_value yt) (digits_value mt)).

Lemma date_ok_spec m d y : date_ok (m, d, y) = true ->
  digits m /\ digits d /\ digits y /\ m <> [] /\ d <> [] /\ y <> [] /\ parse_mdy (m, d, y) = Ok (date_ord (m, d, y)).
Proof.
  unfold date_ok. intros H. repeat (apply andb_true_iff in H; destruct H as [H ?]).
  repeat split; auto.
  - intros ->; discriminate.
  - intros ->; discriminate.
  - intros ->; discriminate.
  - unfold parse_mdy, date_ord. rewrite H, H8, H7. cbn [andb].
    repeat match goal with Hx : _ = true |- _ => rewrite Hx; clear Hx end. reflexivity.
Qed.

(* symbols *)
Definition sym_ok (s : text) : bool := negb (Nat.eqb (length s) 0) && forallb is_updot s.
Lemma updot_symc c : is_updot c = true -> is_symc c = true.
Proof.
  unfold is_updot, is_symc, is_upper. intros H. apply orb_true_iff in H. destruct H as [H|H]; rewrite H; [reflexivity|].
  rewrite orb_true_r. reflexivity.
Qed.
Lemma sym_ok_spec s : sym_ok s = true -> s <> [] /\ forallb is_updot s = true /\ forallb is_symc s = true.
Proof.
  unfold sym_ok. intros H. apply andb_true_iff in H. destruct H as [H1 H2]. split; [intros ->; discriminate|]. split; [exact H2|].
  rewrite forallb_forall in *. intros x Hx. apply updot_symc. auto.
Qed.

Lemma sym_group_hit s r : s <> [] -> forallb is_symc s = true -> sym_group_at (40 :: s ++ 41 :: r) = Some s.
Proof.
  intros Hn Hs. unfold sym_group_at. rewrite (span_all is_symc s (41 :: r)) by (auto; reflexivity).
  destruct s; [congruence|reflexivity].
Qed.
Lemma guarded_sym_group : guarded sym_group_at [N.eqb 40; is_symc].
Proof.
  intros s H. destruct s as [|c s]; [reflexivity|]. unfold sym_group_at. cbn [prefix_sat] in H.
  destruct (40 =? c) eqn:E.
  - apply N.eqb_eq in E. subst c. destruct s as [|c2 s]; [reflexivity|].
    cbn [prefix_sat andb] in H. rewrite andb_true_r in H. cbn [span]. rewrite H. reflexivity.
  - destruct c as [|p]; [reflexivity|]. repeat (destruct p as [p|p|]; try reflexivity). discriminate.
Qed.

(* ------------------------------------------------------------------ RSU *)
Definition decseg (a b : text) : list seg := [SF c_digit a; SL [46]; SF c_digit b].
Definition dateseg (sep : N) (m d y : text) : list seg :=
  [SF c_digit m; SL [sep]; SF c_digit d; SL [sep]; SF c_digit y].

Definition fld_ok (k : cls) (v : text) : Prop := v <> [] /\ forallb (mem k) v = true.

Lemma decseg_ok a b : digits a -> digits b -> a <> [] -> b <> [] -> Forall seg_ok (decseg a b).
Proof. intros. repeat constructor; auto. Qed.
Lemma dateseg_ok sep m d y : digits m -> digits d -> digits y -> m <> [] -> d <> [] -> y <> [] ->
  Forall seg_ok (dateseg sep m d y).
Proof. intros. repeat constructor; auto. Qed.

(* refined guards: KEY, then what \s* followed by a continuation needs of the next two characters *)
Lemma prefix_sat_app_lit k g2 : forall s,
  prefix_sat (glit k ++ g2) s = match strip_prefix k s with Some r => prefix_sat g2 r | None => false end.
Proof.
  induction k as [|x k IH]; intros s; [reflexivity|].
  destruct s as [|c s]; [reflexivity|]. cbn [glit map app prefix_sat strip_prefix].
  destruct (x =? c); [apply IH|reflexivity].
Qed.

Definition hd_in (q : N -> bool) (s : text) : bool := match s with c :: _ => q c | [] => false end.

Lemma guarded_key2 {A} k (cont : text -> option A) (q1 q2 : N -> bool) :
  (forall c, is_space c = true -> q1 c = false) ->
  (forall s, hd_in q1 s = false -> cont s = None) ->
  (forall c s, hd_in q2 s = false -> cont (c :: s) = None) ->
  guarded (key_sp0 k cont)
          (glit k ++ [fun c => is_space c || q1 c; fun c => is_space c || q1 c || q2 c]).
Proof.
  intros Hsp H1 H2 s H. rewrite prefix_sat_app_lit in H. unfold key_sp0, lit.
  destruct (strip_prefix k s) as [r|]; [|reflexivity]. cbn [obind].
  destruct r as [|c1 r]; [apply H1; reflexivity|].
  cbn [prefix_sat] in H. cbn [skip_spaces].
  destruct (is_space c1) eqn:E1.
  - cbn [orb andb] in H. destruct r as [|c2 r]; [apply H1; reflexivity|].
    cbn [prefix_sat] in H. rewrite andb_true_r in H.
    apply orb_false_iff in H. destruct H as [H Hq2]. apply orb_false_iff in H. destruct H as [Hs2 Hq1].
    cbn [skip_spaces]. rewrite Hs2. apply H1. exact Hq1.
  - cbn [orb] in H. destruct (q1 c1) eqn:Eq; [|apply H1; exact Eq].
    cbn [andb] in H. destruct r as [|c2 r]; [apply H2; reflexivity|].
    cbn [prefix_sat] in H. rewrite andb_true_r in H.
    apply orb_false_iff in H. destruct H as [H Hq2]. apply H2. exact Hq2.
Qed.

Definition is_dollar (c : N) : bool := c =? 36.
Definition is_digdot (c : N) : bool := is_digit c || is_dot c.

Lemma space_not_dollar c : is_space c = true -> is_dollar c = false.
Proof.
  unfold is_dollar. intros H. apply N.eqb_neq. intros ->. discriminate.
Qed.
Lemma space_not_digit c : is_space c = true -> is_digit c = false.
Proof. intros H. destruct (is_digit c) eqn:E; [|reflexivity]. rewrite (digit_nonspace c E) in H. discriminate. Qed.

Lemma run1_hd p s : hd_in p s = false -> run1 p s = None.
Proof. destruct s as [|c s]; intros H; [reflexivity|]. unfold run1. cbn [span]. cbn [hd_in] in H. rewrite H. reflexivity. Qed.
Lemma dd_hd s : hd_in is_digit s = false -> dd s = None.
Proof. intros H. unfold dd. rewrite (run1_hd _ _ H). reflexivity. Qed.
Lemma cdd_hd s : hd_in is_dc s = false -> cdd s = None.
Proof. intros H. unfold cdd. rewrite (run1_hd _ _ H). reflexivity. Qed.
Lemma dd_hd2 c s : hd_in is_digdot s = false -> dd (c :: s) = None.
Proof.
  intros H. unfold dd, run1. cbn [span]. destruct (is_digit c); [|reflexivity].
  destruct s as [|c2 s]; [reflexivity|]. cbn [hd_in] in H. unfold is_digdot in H. apply orb_false_iff in H.
  destruct H as [Hd Hdot]. cbn [span]. rewrite Hd. cbn [obind chr]. unfold is_dot in Hdot.
  rewrite Hdot. reflexivity.
Qed.
Lemma dollar_hd {A} (cont : text -> option A) s : hd_in is_dollar s = false -> dollar cont s = None.
Proof. destruct s as [|c s]; intros H; [reflexivity|]. unfold dollar, chr. cbn [hd_in] in H. unfold is_dollar in H. rewrite H. reflexivity. Qed.
Lemma dollar_hd2 {A} (cont : text -> option A) q c s :
  (forall s, hd_in q s = false -> cont s = None) -> hd_in q s = false -> dollar cont (c :: s) = None.
Proof. intros Hc H. unfold dollar, chr. destruct (c =? 36); [apply Hc; exact H|reflexivity]. Qed.

(* KEY\s*\$([\d,]+\.\d+) and KEY\s*\$(\d+\.\d+) *)
Lemma guarded_key_dollar_cdd k : guarded (key_sp0 k (dollar cdd))
  (glit k ++ [fun c => is_space c || is_dollar c; fun c => is_space c || is_dollar c || is_dc c]).
Proof.
  apply guarded_key2; [exact space_not_dollar|apply dollar_hd|]. intros c s H. apply (dollar_hd2 cdd is_dc); [exact cdd_hd|exact H].
Qed.
(* KEY\s*(\d+\.\d+) *)
Lemma guarded_key_dd k : guarded (key_sp0 k dd)
  (glit k ++ [fun c => is_space c || is_digit c; fun c => is_space c || is_digit c || is_digdot c]).
Proof. apply guarded_key2; [exact space_not_digit|exact dd_hd|exact dd_hd2]. Qed.

Ltac seek_with Hg Hok :=
  match goal with
  | |- context [find ?m (flat ?D)] =>
      erewrite (find_seek_eq m _ Hg D _ Hok) by (vm_compute; reflexivity)
  end.
Ltac seek_key Hok :=
  match goal with
  | |- context [find ?m (flat ?D)] =>
      erewrite (find_seek_eq m _ (guarded_key_sp0 _ _) D _ Hok) by (vm_compute; reflexivity)
  end.


Lemma skip_sp_dollar X : skip_spaces (32 :: 36 :: X) = 36 :: X.
Proof. reflexivity. Qed.
Lemma skip_sp_paren X : skip_spaces (32 :: 40 :: X) = 40 :: X.
Proof. reflexivity. Qed.
Lemma dollar_hit {A} (cont : text -> option A) X : dollar cont (36 :: X) = cont X.
Proof. reflexivity. Qed.
Lemma get1_of_find {A} (m : text -> option A) s x : find m s = Some x -> get1 m s = Ok x.
Proof. intros H. unfold get1. rewrite H. reflexivity. Qed.
Lemma get1_dec_of_find m s tx rest v :
  find m s = Some (tx, rest) -> parse_large tx = Ok v -> get1_dec m s = Ok v.
Proof. intros H1 H2. unfold get1_dec. rewrite (get1_of_find m s _ H1). cbn [bind]. exact H2. Qed.

Ltac unfold_head :=
  idtac; match goal with |- ?f _ = _ => let h := f in unfold h end.
(* keep the first segments after the hit, forget the rest of the document *)
Ltac trunc5 :=
  idtac; match goal with
  | |- context [flat (?s1 :: ?s2 :: ?s3 :: ?s4 :: ?s5 :: ?R)] =>
      change (flat (s1 :: s2 :: s3 :: s4 :: s5 :: R))
        with (seg_text s1 ++ seg_text s2 ++ seg_text s3 ++ seg_text s4 ++ seg_text s5 ++ flat R);
      generalize (flat R); intro
  end.
Ltac trunc7 :=
  idtac; match goal with
  | |- context [flat (?s1 :: ?s2 :: ?s3 :: ?s4 :: ?s5 :: ?s6 :: ?s7 :: ?R)] =>
      change (flat (s1 :: s2 :: s3 :: s4 :: s5 :: s6 :: s7 :: R))
        with (seg_text s1 ++ seg_text s2 ++ seg_text s3 ++ seg_text s4 ++ seg_text s5 ++ seg_text s6
              ++ seg_text s7 ++ flat R);
      generalize (flat R); intro
  end.
Ltac hit_key tac :=
  erewrite find_hit; [|unfold_head; erewrite key_hit by reflexivity; cbn [seg_text app]; tac].
Definition decparts (a b : text) : Prop :=
  digits a /\ digits b /\ a <> [] /\ b <> [] /\ (length a + length b <= 28)%nat.
Ltac dsplit H := destruct H as (? & ? & ? & ? & ?).

Lemma strip_prefix_app k r : strip_prefix k (k ++ r) = Some r.
Proof. induction k as [|x k IH]; [reflexivity|]. cbn [app strip_prefix]. rewrite N.eqb_refl. exact IH. Qed.

Lemma g_employee : guarded m_employee (glit k_employee_id).
Proof. exact (guarded_lit _ _). Qed.
Lemma g_account : guarded m_account (glit k_account_).
Proof. exact (guarded_lit _ _). Qed.
Lemma g_symbol : guarded m_symbol (glit k_company_name).
Proof. exact (guarded_lit _ _). Qed.
Lemma sym_group_nil : sym_group_at [] = None.
Proof. reflexivity. Qed.

(* Company Name (Symbol<P1><sym><P2>(<sym>)<T> with no "(letters)" group after it *)
Lemma m_symbol_hit P1 P2 sym R :
  sym <> [] -> forallb is_symc sym = true -> (exists T, R = sym ++ 41 :: T) ->
  find_last sym_group_at R = None ->
  m_symbol (k_company_name ++ 32 :: k_lp_symbol ++ P1 ++ sym ++ P2 ++ 40 :: R) = Some sym.
Proof.
  intros Hn Hs [T ->] Hnone. unfold m_symbol, lit. rewrite strip_prefix_app. cbn [obind].
  change (skip_spaces (32 :: k_lp_symbol ++ P1 ++ sym ++ P2 ++ 40 :: sym ++ 41 :: T))
    with (k_lp_symbol ++ P1 ++ sym ++ P2 ++ 40 :: sym ++ 41 :: T).
  rewrite strip_prefix_app. cbn [obind].
  apply find_last_app_some, find_last_app_some, find_last_app_some.
  rewrite find_last_cons by exact Hnone. apply sym_group_hit; assumption.
Qed.

Lemma get1_of_fst {A B} (m : text -> option (A * B)) s v :
  option_map fst (find m s) = Some v -> exists rest, get1 m s = Ok (v, rest).
Proof.
  unfold get1. destruct (find m s) as [[a b]|]; cbn; intros H; [|discriminate].
  inversion H; subst. eexists; reflexivity.
Qed.

Lemma is_ok_ex {A} (r : res A) : is_ok r = true -> exists x, r = Ok x.
Proof. destruct r; cbn; intros H; try discriminate. eexists; reflexivity. Qed.

Lemma skip_sp_R X : skip_spaces (32 :: 82 :: X) = 82 :: X.
Proof. reflexivity. Qed.

Section RSU.
Variables sym aw m d y ra rb fa fb sa sb soa sob ia ib fea feb : text.
Hypothesis Hsym : sym <> [] /\ forallb is_updot sym = true /\ forallb is_symc sym = true.
Hypothesis Haw : digits aw /\ aw <> [].
Hypothesis Hdate : digits m /\ digits d /\ digits y /\ m <> [] /\ d <> [] /\ y <> [].
Hypothesis Hpd : parse_mdy (m, d, y) = Ok (date_ord (m, d, y)).
Hypothesis Hr : decparts ra rb.
Hypothesis Hf : decparts fa fb.
Hypothesis Hs : decparts sa sb.
Hypothesis Hso : decparts soa sob.
Hypothesis Hi : decparts ia ib.
Hypothesis Hfe : decparts fea feb.

Definition rsu_tail (st : bool) : list seg :=
  [SF c_updot sym; SL (sty st rsu0_2 rsu1_2); SL [82]; SF c_digit aw; SL (sty st rsu0_3 rsu1_3)]
  ++ dateseg 45 m d y ++ [SL (sty st rsu0_4 rsu1_4)] ++ decseg ra rb ++ [SL (sty st rsu0_5 rsu1_5)]
  ++ decseg fa fb ++ [SL (sty st rsu0_6 rsu1_6)] ++ decseg sa sb ++ [SL (sty st rsu0_7 rsu1_7)]
  ++ decseg ra rb ++ [SL (sty st rsu0_8 rsu1_8)] ++ decseg soa sob ++ [SL (sty st rsu0_9 rsu1_9)]
  ++ decseg ia ib ++ [SL (sty st rsu0_10 rsu1_10)] ++ decseg fea feb
  ++ [SL (sty st rsu0_11 rsu1_11); SF c_updot sym; SL (sty st rsu0_12 rsu1_12)].
Definition rsu_doc (st : bool) : list seg :=
  [SL (sty st rsu0_0 rsu1_0); SF c_updot sym; SL (sty st rsu0_1 rsu1_1)] ++ rsu_tail st.

Lemma rsu_doc_ok st : Forall seg_ok (rsu_doc st).
Proof.
  destruct Hsym as (? & ? & ?), Haw, Hdate as (? & ? & ? & ? & ? & ?).
  dsplit Hr. dsplit Hf. dsplit Hs. dsplit Hso. dsplit Hi. dsplit Hfe.
  unfold rsu_doc, rsu_tail, decseg, dateseg. cbn [app]. repeat constructor; auto.
Qed.

(* key, one space, digits.digits *)
Ltac fin_sp_dd := idtac; rewrite skip_sp_digits by auto; rewrite dd_hit by (auto; reflexivity); reflexivity.
(* key, " $", digits.digits *)
Ltac fin_dollar_dd :=
  idtac; rewrite skip_sp_dollar, dollar_hit; rewrite dd_hit by (auto; reflexivity); reflexivity.

Ltac dec_field Hok tr fin :=
  unfold get1_dec, get1; seek_key Hok; tr; hit_key fin; cbn [bind]; apply parse_large_dec; auto.

Lemma rsu_released st : get1_dec m_shares_released (flat (rsu_doc st)) = Ok (dval (ra ++ 46 :: rb)).
Proof. dsplit Hr. destruct st; [dec_field (rsu_doc_ok true) trunc5 fin_sp_dd | dec_field (rsu_doc_ok false) trunc5 fin_sp_dd]. Qed.
Lemma rsu_issued st : get1_dec m_shares_issued (flat (rsu_doc st)) = Ok (dval (ia ++ 46 :: ib)).
Proof. dsplit Hi. destruct st; [dec_field (rsu_doc_ok true) trunc5 fin_sp_dd | dec_field (rsu_doc_ok false) trunc5 fin_sp_dd]. Qed.
Lemma rsu_fmv st : get1_dec m_mv_per_share (flat (rsu_doc st)) = Ok (dval (fa ++ 46 :: fb)).
Proof. dsplit Hf. destruct st; [dec_field (rsu_doc_ok true) trunc5 fin_dollar_dd | dec_field (rsu_doc_ok false) trunc5 fin_dollar_dd]. Qed.
Lemma rsu_sale st : get1_dec m_sale_price_per_share (flat (rsu_doc st)) = Ok (dval (sa ++ 46 :: sb)).
Proof. dsplit Hs. destruct st; [dec_field (rsu_doc_ok true) trunc5 fin_dollar_dd | dec_field (rsu_doc_ok false) trunc5 fin_dollar_dd]. Qed.

Ltac fin_paren_dd :=
  idtac; rewrite skip_sp_paren; unfold paren_dd_close; cbn [chr obind N.eqb Pos.eqb];
  rewrite dd_hit by (auto; reflexivity); reflexivity.
Ltac fin_paren_dollar_dd :=
  idtac; rewrite skip_sp_paren; unfold paren_dollar_dd; cbn [chr obind N.eqb Pos.eqb];
  rewrite dd_hit by (auto; reflexivity); reflexivity.

Lemma rsu_sold st : get1_dec m_rsu_shares_sold (flat (rsu_doc st)) = Ok (dval (soa ++ 46 :: sob)).
Proof. dsplit Hso. destruct st; [dec_field (rsu_doc_ok true) trunc5 fin_paren_dd | dec_field (rsu_doc_ok false) trunc5 fin_paren_dd]. Qed.
Lemma rsu_fee st : get1_dec m_fee (flat (rsu_doc st)) = Ok (dval (fea ++ 46 :: feb)).
Proof. dsplit Hfe. destruct st; [dec_field (rsu_doc_ok true) trunc5 fin_paren_dollar_dd | dec_field (rsu_doc_ok false) trunc5 fin_paren_dollar_dd]. Qed.

(* values printed as constants of the layout: some value is read *)
Ltac trunc1 :=
  idtac; match goal with
  | |- context [flat (?s1 :: ?R)] =>
      change (flat (s1 :: R)) with (seg_text s1 ++ flat R); generalize (flat R); intro
  end.
Ltac const_hit := erewrite find_hit; [|vm_compute; reflexivity].
Ltac const_dec Hg Hok :=
  apply is_ok_ex; unfold get1_dec, get1; seek_with Hg Hok; trunc1; const_hit; vm_compute; reflexivity.
Ltac const_get Hg Hok :=
  apply is_ok_ex; unfold get1; seek_with Hg Hok; trunc1; const_hit; reflexivity.

Lemma rsu_market_value st : exists v, get1_dec m_market_value (flat (rsu_doc st)) = Ok v.
Proof. destruct st; [const_dec (guarded_key_dollar_cdd k_market_value) (rsu_doc_ok true) | const_dec (guarded_key_dollar_cdd k_market_value) (rsu_doc_ok false)]. Qed.
Lemma rsu_total_sale st : exists v, get1_dec m_total_sale_price (flat (rsu_doc st)) = Ok v.
Proof. destruct st; [const_dec (guarded_key_dollar_cdd k_total_sale_price) (rsu_doc_ok true) | const_dec (guarded_key_dollar_cdd k_total_sale_price) (rsu_doc_ok false)]. Qed.
Lemma rsu_total_tax st : exists v, get1_dec m_total_tax (flat (rsu_doc st)) = Ok v.
Proof. destruct st; [const_dec (guarded_key_dollar_cdd k_total_tax) (rsu_doc_ok true) | const_dec (guarded_key_dollar_cdd k_total_tax) (rsu_doc_ok false)]. Qed.
Lemma rsu_total_due st : exists v, get1_dec m_total_due (flat (rsu_doc st)) = Ok v.
Proof. destruct st; [const_dec (guarded_key_dollar_cdd k_total_due) (rsu_doc_ok true) | const_dec (guarded_key_dollar_cdd k_total_due) (rsu_doc_ok false)]. Qed.

Lemma rsu_tail_ok st : Forall seg_ok (rsu_tail st).
Proof. pose proof (rsu_doc_ok st) as H. unfold rsu_doc in H. apply Forall_app in H. exact (proj2 H). Qed.

Lemma rsu_date st : exists rest, get1 m_release_date (flat (rsu_doc st)) = Ok ((m, d, y), rest).
Proof.
  destruct Hdate as (? & ? & ? & ? & ? & ?). apply get1_of_fst.
  destruct st.
  - seek_key (rsu_doc_ok true). trunc7.
    hit_key ltac:(rewrite skip_sp_digits by auto; rewrite date3_hit by (auto; reflexivity); reflexivity). reflexivity.
  - seek_key (rsu_doc_ok false). trunc7.
    hit_key ltac:(rewrite skip_sp_digits by auto; rewrite date3_hit by (auto; reflexivity); reflexivity). reflexivity.
Qed.

Lemma rsu_award st : exists rest, get1 m_award (flat (rsu_doc st)) = Ok (82 :: aw, rest).
Proof.
  destruct Haw as [? ?]. apply get1_of_fst.
  destruct st.
  - seek_key (rsu_doc_ok true). trunc5.
    hit_key ltac:(rewrite skip_sp_R; cbn [chr obind N.eqb Pos.eqb]; rewrite nd_run1 by (auto; reflexivity); reflexivity). reflexivity.
  - seek_key (rsu_doc_ok false). trunc5.
    hit_key ltac:(rewrite skip_sp_R; cbn [chr obind N.eqb Pos.eqb]; rewrite nd_run1 by (auto; reflexivity); reflexivity). reflexivity.
Qed.

Lemma rsu_employee st : exists x, get1 m_employee (flat (rsu_doc st)) = Ok x.
Proof. destruct st; [const_get g_employee (rsu_doc_ok true) | const_get g_employee (rsu_doc_ok false)]. Qed.
Lemma rsu_account st : exists x, get1 m_account (flat (rsu_doc st)) = Ok x.
Proof. destruct st; [const_get g_account (rsu_doc_ok true) | const_get g_account (rsu_doc_ok false)]. Qed.

Lemma rsu_no_later_group st : find_last sym_group_at (flat (rsu_tail st)) = None.
Proof.
  destruct st; (apply (find_last_none sym_group_at _ guarded_sym_group sym_group_nil);
    [apply rsu_tail_ok | vm_compute; reflexivity]).
Qed.

Lemma rsu_symbol st : get1 m_symbol (flat (rsu_doc st)) = Ok sym.
Proof.
  destruct Hsym as (Hn & _ & Hsc). unfold get1.
  destruct st.
  - seek_with g_symbol (rsu_doc_ok true).
    erewrite find_hit; [reflexivity|].
    refine (m_symbol_hit (41 :: 32 :: nil) (removelast rsu1_1) sym (flat (rsu_tail true)) Hn Hsc _ (rsu_no_later_group true)).
    eexists. reflexivity.
  - seek_with g_symbol (rsu_doc_ok false).
    erewrite find_hit; [reflexivity|].
    refine (m_symbol_hit (41 :: 32 :: nil) (removelast rsu0_1) sym (flat (rsu_tail false)) Hn Hsc _ (rsu_no_later_group false)).
    eexists. reflexivity.
Qed.

Lemma rsu_parse st :
  parse_rsu (flat (rsu_doc st)) =
  Ok {| tb_sec := sym; tb_date := date_ord (m, d, y); tb_settle := date_ord (m, d, y);
        tb_price := dval (fa ++ 46 :: fb); tb_shares := dval (ra ++ 46 :: rb);
        tb_stc_td := None; tb_stc_sd := None; tb_stc_price := Some (dval (sa ++ 46 :: sb));
        tb_stc_shares := Some (dval (soa ++ 46 :: sob)); tb_stc_fee := Some (dval (fea ++ 46 :: feb));
        tb_note := k_RSU_ ++ 82 :: aw; tb_sell_note := None |}.
Proof.
  unfold parse_rsu, parse_common.
  destruct (rsu_employee st) as [x1 E1]. rewrite E1. cbn [bind].
  destruct (rsu_account st) as [x2 E2]. rewrite E2. cbn [bind].
  rewrite rsu_symbol. cbn [bind].
  destruct (rsu_date st) as [x3 E3]. rewrite E3. cbn [bind]. rewrite Hpd. cbn [bind].
  destruct (rsu_award st) as [x4 E4]. rewrite E4. cbn [bind].
  rewrite rsu_released. cbn [bind]. rewrite rsu_sold. cbn [bind]. rewrite rsu_issued. cbn [bind].
  rewrite rsu_fmv. cbn [bind]. rewrite rsu_sale. cbn [bind].
  destruct (rsu_market_value st) as [x5 E5]. rewrite E5. cbn [bind].
  destruct (rsu_total_sale st) as [x6 E6]. rewrite E6. cbn [bind].
  destruct (rsu_total_tax st) as [x7 E7]. rewrite E7. cbn [bind].
  rewrite rsu_fee. cbn [bind].
  destruct (rsu_total_due st) as [x8 E8]. rewrite E8. cbn [bind]. reflexivity.
Qed.
End RSU.

Definition num_ok (t : text) : bool := negb (Nat.eqb (length t) 0) && forallb is_digit t.
Lemma num_ok_spec t : num_ok t = true -> digits t /\ t <> [].
Proof. unfold num_ok. intros H. apply andb_true_iff in H. destruct H as [H1 H2]. split; [exact H2|intros ->; discriminate]. Qed.

(* the well-formed class of RSU confirmations: any symbol of upper-case letters and dots, any valid
   date printed MM-DD-YYYY, any award number, any amounts "digits.digits" of at most 28 digits *)
Definition wf_rsu (r : rsu_lay) : bool :=
  sym_ok (rl_sym r) && date_ok (rl_date r) && num_ok (rl_award r)
  && is_dec (rl_released r) && is_dec (rl_sold r) && is_dec (rl_issued r)
  && is_dec (rl_fmv r) && is_dec (rl_sale r) && is_dec (rl_fee r).

Lemma decparts_of t : is_dec t = true -> exists a b, t = a ++ 46 :: b /\ decparts a b.
Proof. intros H. destruct (is_dec_spec t H) as (a & b & E & H1 & H2 & H3 & H4 & H5). exists a, b. split; [exact E|]. repeat split; assumption. Qed.

Ltac norm_apps := repeat (rewrite <- app_assoc || rewrite <- app_comm_cons).

Theorem rsu_text_roundtrip st r : wf_rsu r = true -> parse_rsu (render_rsu st r) = Ok (rsu_record r).
Proof.
  destruct r as [sym [[m d] y] aw rel sold iss fmv sale fee]. unfold wf_rsu. cbn [rl_sym rl_date rl_award rl_released rl_sold rl_issued rl_fmv rl_sale rl_fee].
  intros H.
  apply andb_true_iff in H; destruct H as [H Wfee]. apply andb_true_iff in H; destruct H as [H Wsale].
  apply andb_true_iff in H; destruct H as [H Wfmv]. apply andb_true_iff in H; destruct H as [H Wiss].
  apply andb_true_iff in H; destruct H as [H Wsold]. apply andb_true_iff in H; destruct H as [H Wrel].
  apply andb_true_iff in H; destruct H as [H Waw]. apply andb_true_iff in H; destruct H as [Wsym Wdate].
  destruct (decparts_of _ Wrel) as (ra & rb & -> & Hr). destruct (decparts_of _ Wsold) as (soa & sob & -> & Hso).
  destruct (decparts_of _ Wiss) as (ia & ib & -> & Hi). destruct (decparts_of _ Wfmv) as (fa & fb & -> & Hf).
  destruct (decparts_of _ Wsale) as (sa & sb & -> & Hs). destruct (decparts_of _ Wfee) as (fea & feb & -> & Hfe).
  destruct (date_ok_spec _ _ _ Wdate) as (D1 & D2 & D3 & D4 & D5 & D6 & Hpd).
  pose proof (sym_ok_spec _ Wsym) as Hsym. pose proof (num_ok_spec _ Waw) as Haw.
  pose proof (rsu_parse sym aw m d y ra rb fa fb sa sb soa sob ia ib fea feb Hsym Haw
                (conj D1 (conj D2 (conj D3 (conj D4 (conj D5 D6))))) Hpd Hr Hf Hs Hso Hi Hfe st) as P.
  replace (render_rsu st _) with (flat (rsu_doc sym aw m d y ra rb fa fb sa sb soa sob ia ib fea feb st)); [exact P|].
  unfold render_rsu, rsu_doc, rsu_tail, decseg, dateseg, date_text.
  cbn [rl_sym rl_date rl_award rl_released rl_sold rl_issued rl_fmv rl_sale rl_fee app flat seg_text].
  norm_apps. rewrite app_nil_r. reflexivity.
Qed.

(* ------------------------------------------------------------------ post-2023 trade confirmation *)
Lemma first_some_app {A B} (f : A -> option B) l1 l2 :
  first_some f (l1 ++ l2) = match first_some f l1 with Some y => Some y | None => first_some f l2 end.
Proof. induction l1 as [|x l1 IH]; [reflexivity|]. cbn [app first_some]. destruct (f x); [reflexivity|exact IH]. Qed.

(* the last position of the current line at which f matches *)
Lemma line_sufs_cons {B} (f : text -> option B) c r :
  (c =? 10) = false -> first_some f (line_sufs r) = None -> first_some f (line_sufs (c :: r)) = f (c :: r).
Proof.
  intros Hc Hn. cbn [line_sufs]. rewrite Hc, first_some_app, Hn. cbn [first_some]. destruct (f (c :: r)); reflexivity.
Qed.
Lemma line_sufs_app_some {B} (f : text -> option B) p s y :
  forallb not_nl p = true -> first_some f (line_sufs s) = Some y -> first_some f (line_sufs (p ++ s)) = Some y.
Proof.
  intros Hp Hs. induction p as [|c p IH]; [exact Hs|].
  cbn [forallb] in Hp. apply andb_true_iff in Hp. destruct Hp as [Hc Hp]. unfold not_nl in Hc. apply negb_true_iff in Hc.
  cbn [app line_sufs]. rewrite Hc, first_some_app, (IH Hp). reflexivity.
Qed.
Lemma find_last_none_all {B} (f : text -> option B) : forall s, find_last f s = None -> f s = None.
Proof. intros s H. destruct s as [|c s]; [exact H|]. cbn [find_last] in H. destruct (find_last f s); [discriminate|exact H]. Qed.
Lemma find_last_none_tail {B} (f : text -> option B) c s : find_last f (c :: s) = None -> find_last f s = None.
Proof. cbn [find_last]. destruct (find_last f s); [discriminate|reflexivity]. Qed.
Lemma line_sufs_none {B} (f : text -> option B) : forall s, find_last f s = None -> first_some f (line_sufs s) = None.
Proof.
  induction s as [|c s IH]; intros H.
  - cbn. cbn in H. rewrite H. reflexivity.
  - cbn [line_sufs]. destruct (c =? 10).
    + cbn [first_some]. rewrite (find_last_none_all f _ H). reflexivity.
    + rewrite first_some_app, (IH (find_last_none_tail f c s H)). cbn [first_some].
      rewrite (find_last_none_all f _ H). reflexivity.
Qed.

(* the candidates of a greedy `.*` on a line whose rest is v ++ "\n" ++ R: the whole v first *)
Lemma prefixes_line_last v R : forallb not_nl v = true -> forall acc,
  exists l, prefixes_line acc (v ++ 10 :: R) = l ++ [(rev v ++ acc, 10 :: R)].
Proof.
  induction v as [|c v IH]; intros Hv acc.
  - exists []. reflexivity.
  - cbn [forallb] in Hv. apply andb_true_iff in Hv. destruct Hv as [Hc Hv]. unfold not_nl in Hc. apply negb_true_iff in Hc.
    destruct (IH Hv (c :: acc)) as [l El]. exists ((acc, (c :: v) ++ 10 :: R) :: l).
    cbn [app prefixes_line]. rewrite Hc. cbn [app] in El. rewrite El. cbn [rev]. rewrite <- app_assoc. reflexivity.
Qed.
Lemma rev_prefixes_first v R : forallb not_nl v = true ->
  exists l, rev (prefixes_line [] (v ++ 10 :: R)) = (rev v, 10 :: R) :: l.
Proof.
  intros Hv. destruct (prefixes_line_last v R Hv []) as [l El]. rewrite El, rev_app_distr, app_nil_r.
  eexists. reflexivity.
Qed.

Lemma sp1_sp X : sp1 (32 :: X) = Some (skip_spaces X).
Proof. reflexivity. Qed.
Lemma sp1_nl X : sp1 (10 :: X) = Some (skip_spaces X).
Proof. reflexivity. Qed.

(* classes *)
Lemma acct_nonspace c : is_acct c = true -> nonspace c = true.
Proof.
  unfold is_acct, nonspace. intros H. apply negb_true_iff.
  repeat (apply orb_true_iff in H; destruct H as [H|H]).
  - apply digit_nonspace; exact H.
  - unfold is_upper in H. range_tac. unfold is_space.
    repeat match goal with |- (_ || _) = false => apply orb_false_iff; split end;
    try (apply N.eqb_neq; lia); apply andb_false_iff; first [left; apply N.leb_gt; lia | right; apply N.leb_gt; lia].
  - unfold is_lower in H. range_tac. unfold is_space.
    repeat match goal with |- (_ || _) = false => apply orb_false_iff; split end;
    try (apply N.eqb_neq; lia); apply andb_false_iff; first [left; apply N.leb_gt; lia | right; apply N.leb_gt; lia].
  - apply N.eqb_eq in H. subst c. reflexivity.
Qed.
Lemma updot_nonspace c : is_updot c = true -> nonspace c = true.
Proof.
  unfold is_updot, nonspace. intros H. apply negb_true_iff. apply orb_true_iff in H. destruct H as [H|H].
  - unfold is_upper in H. range_tac. unfold is_space.
    repeat match goal with |- (_ || _) = false => apply orb_false_iff; split end;
    try (apply N.eqb_neq; lia); apply andb_false_iff; first [left; apply N.leb_gt; lia | right; apply N.leb_gt; lia].
  - unfold is_dot in H. apply N.eqb_eq in H. subst c. reflexivity.
Qed.
Lemma forallb_imp {A} (p q : A -> bool) l : (forall x, p x = true -> q x = true) -> forallb p l = true -> forallb q l = true.
Proof. intros H Hl. rewrite forallb_forall in *. auto. Qed.

Lemma skip_nonspace_fld v X : v <> [] -> forallb nonspace v = true -> skip_spaces (v ++ X) = v ++ X.
Proof.
  intros Hn Hv. destruct v as [|c v]; [congruence|]. cbn [forallb] in Hv. apply andb_true_iff in Hv. destruct Hv as [Hc _].
  cbn [app skip_spaces]. unfold nonspace in Hc. apply negb_true_iff in Hc. rewrite Hc. reflexivity.
Qed.
Lemma skip_sp_nonspace_fld v X : v <> [] -> forallb nonspace v = true -> skip_spaces (32 :: v ++ X) = v ++ X.
Proof. intros. change (skip_spaces (32 :: v ++ X)) with (skip_spaces (v ++ X)). apply skip_nonspace_fld; assumption. Qed.

Ltac trunc3 :=
  idtac; match goal with
  | |- context [flat (?s1 :: ?s2 :: ?s3 :: ?R)] =>
      change (flat (s1 :: s2 :: s3 :: R)) with (seg_text s1 ++ seg_text s2 ++ seg_text s3 ++ flat R);
      generalize (flat R); intro
  end.
Lemma g_tc_account : guarded m_tc_account (glit k_Account).
Proof. exact (guarded_lit _ _). Qed.
Lemma g_post : guarded m_post (glit k_Trade ++ [is_space; fun c => is_space c || (c =? 68)]).
Proof.
  intros s H. rewrite prefix_sat_app_lit in H. unfold m_post. cbn [lits_sp1]. unfold lit at 1.
  destruct (strip_prefix k_Trade s) as [r|]; [|reflexivity]. cbn [obind].
  destruct r as [|c1 r]; [reflexivity|]. cbn [prefix_sat sp1] in *.
  destruct (is_space c1); [|reflexivity]. cbn [andb obind] in *.
  destruct r as [|c2 r]; [reflexivity|]. cbn [prefix_sat] in H. rewrite andb_true_r in H.
  apply orb_false_iff in H. destruct H as [H1 H2]. cbn [skip_spaces]. rewrite H1.
  unfold lit, k_Date. cbn [strip_prefix]. rewrite N.eqb_sym in H2. rewrite H2. reflexivity.
Qed.
Lemma g_isin : guarded m_isin (glit k_ISIN_c).
Proof. exact (guarded_lit _ _). Qed.
Lemma g_commission : guarded m_commission (glit k_Commission).
Proof. exact (guarded_lit _ _). Qed.
Lemma g_tx_fee : guarded m_tx_fee (glit k_Transaction).
Proof.
  intros s H. unfold m_tx_fee. cbn [lits_sp1]. unfold lit at 1. rewrite prefix_sat_glit in H. unfold starts_with in H.
  destruct (strip_prefix k_Transaction s); [discriminate|reflexivity].
Qed.

Definition post_hdr : text := Eval vm_compute in
  txt "Trade Date Settlement Date Quantity Price Settlement Amount
"%string.
Definition post_isin_pre : text := Eval vm_compute in txt "Symbol / CUSIP / "%string.
Definition post_sin : text := Eval vm_compute in txt "SIN: "%string.
Definition post_desc_tail : text := Eval vm_compute in txt " SYSTEMS INC"%string.

Lemma post_hdr_eval X :
  lits_sp1 [k_Trade; k_Date; k_Settlement; k_Date; k_Quantity; k_Price; k_Settlement; k_Amount] (post_hdr ++ X)
  = Some (skip_spaces X).
Proof. reflexivity. Qed.
Lemma post_type_eval X :
  (r <~~ sp1 (post0_5 ++ X);; r <~~ lit k_Transaction r;; r <~~ sp1 r;; lit k_Type_c r) = Some (32 :: X).
Proof. reflexivity. Qed.

Lemma typec_not_nl c : is_typec c = true -> not_nl c = true.
Proof.
  unfold not_nl. intros H. apply negb_true_iff. apply N.eqb_neq. intros ->. discriminate.
Qed.
Lemma updot_not_nl c : is_updot c = true -> not_nl c = true.
Proof.
  unfold not_nl. intros H. apply negb_true_iff. apply N.eqb_neq. intros ->. discriminate.
Qed.

Lemma m_isin_hit sym R : sym <> [] -> forallb nonspace sym = true ->
  m_isin (k_ISIN_c ++ 32 :: sym ++ 32 :: R) = Some (sym, 32 :: R).
Proof.
  intros Hn Hs. unfold m_isin, lit. rewrite strip_prefix_app. cbn [obind].
  rewrite skip_sp_nonspace_fld by assumption. apply run1_all; [assumption|assumption|reflexivity].
Qed.

Definition comm_of (REST : text) : option text * text :=
  match find_last m_commission REST with Some (v, r') => (Some v, r') | None => (None, REST) end.
Definition fee_of (rest1 : text) : option text :=
  match find_last m_tx_fee rest1 with Some (v, _) => Some v | None => None end.

(* the post-2023 pattern on the supported layout, from the table header on *)
Lemma m_post_eval m1 d1 y1 m2 d2 y2 qty pa pb ty sym REST :
  digits m1 -> digits d1 -> digits y1 -> m1 <> [] -> d1 <> [] -> y1 <> [] ->
  digits m2 -> digits d2 -> digits y2 -> m2 <> [] -> d2 <> [] -> y2 <> [] ->
  digits qty -> qty <> [] -> decparts pa pb ->
  forallb is_typec ty = true -> (2 <= length ty)%nat -> hd_in nonspace ty = true -> hd_in nonspace (rev ty) = true ->
  sym <> [] -> forallb is_updot sym = true ->
  find_last m_isin (post_sin ++ sym ++ 32 :: REST) = None ->
  m_post (post_hdr ++ m1 ++ 47 :: d1 ++ 47 :: y1 ++ 32 :: m2 ++ 47 :: d2 ++ 47 :: y2 ++ 32 :: qty ++ 32 :: pa ++ 46 :: pb
          ++ post0_5 ++ ty ++ post0_6 ++ sym ++ post0_7 ++ sym ++ 32 :: REST)
  = Some {| cp_td := (m1, d1, y1); cp_sd := (m2, d2, y2); cp_sym := sym; cp_act := ty; cp_n := qty;
            cp_price := pa ++ 46 :: pb; cp_comm := fst (comm_of (32 :: REST));
            cp_fee := fee_of (snd (comm_of (32 :: REST))) |}.
Proof.
  intros M1 D1 Y1 NM1 ND1 NY1 M2 D2 Y2 NM2 ND2 NY2 Q NQ HP TY LTY HTY1 HTY2 NS US HI.
  dsplit HP.
  assert (SN : forallb nonspace sym = true) by (apply (forallb_imp is_updot); [exact updot_nonspace|exact US]).
  unfold m_post. rewrite post_hdr_eval. cbn [obind].
  rewrite skip_digits by assumption. rewrite date3_hit by (auto; reflexivity). cbn [obind].
  rewrite sp1_sp. cbn [obind]. rewrite skip_digits by assumption. rewrite date3_hit by (auto; reflexivity). cbn [obind].
  rewrite sp1_sp. cbn [obind]. rewrite skip_digits by assumption. rewrite nd_run1 by (auto; reflexivity). cbn [obind].
  rewrite sp1_sp. cbn [obind]. rewrite skip_digits by assumption.
  replace (pa ++ 46 :: pb ++ post0_5 ++ ty ++ post0_6 ++ sym ++ post0_7 ++ sym ++ 32 :: REST)
    with (pa ++ 46 :: pb ++ (post0_5 ++ ty ++ post0_6 ++ sym ++ post0_7 ++ sym ++ 32 :: REST)) by reflexivity.
  rewrite dd_hit by (auto; reflexivity). cbn [obind].
  (* Transaction Type: *)
  match goal with |- context [sp1 (post0_5 ++ ?X)] => pose proof (post_type_eval X) as E end.
  destruct (sp1 (post0_5 ++ ty ++ post0_6 ++ sym ++ post0_7 ++ sym ++ 32 :: REST)) as [r0|] eqn:E0; [|discriminate E].
  cbn [obind] in E |- *. destruct (lit k_Transaction r0) as [r1|]; [|discriminate E].
  cbn [obind] in E |- *. destruct (sp1 r1) as [r2|]; [|discriminate E].
  cbn [obind] in E |- *. rewrite E. cbn [obind].
  (* the action *)
  destruct ty as [|t0 ty']; [cbn in LTY; lia|]. cbn [hd_in] in HTY1.
  assert (Et0 : is_space t0 = false) by (unfold nonspace in HTY1; apply negb_true_iff; exact HTY1).
  change (skip_spaces (32 :: (t0 :: ty') ++ post0_6 ++ sym ++ post0_7 ++ sym ++ 32 :: REST))
    with (skip_spaces ((t0 :: ty') ++ post0_6 ++ sym ++ post0_7 ++ sym ++ 32 :: REST)).
  cbn [app skip_spaces]. rewrite Et0.
  assert (Eact : m_act ((t0 :: ty') ++ post0_6 ++ sym ++ post0_7 ++ sym ++ 32 :: REST)
                 = Some (t0 :: ty', (sym, 32 :: REST))).
  { unfold m_act. cbn [app]. rewrite Et0.
    change (t0 :: ty' ++ post0_6 ++ sym ++ post0_7 ++ sym ++ 32 :: REST)
      with ((t0 :: ty') ++ 10 :: (tl post0_6 ++ sym ++ post0_7 ++ sym ++ 32 :: REST)).
    destruct (rev_prefixes_first (t0 :: ty') (tl post0_6 ++ sym ++ post0_7 ++ sym ++ 32 :: REST)) as [l El].
    { apply (forallb_imp is_typec); [exact typec_not_nl|exact TY]. }
    rewrite El. cbn [first_some fst snd].
    destruct (rev (t0 :: ty')) as [|e [|e2 rt]] eqn:Er.
    - apply (f_equal (@length N)) in Er. rewrite rev_length in Er. cbn in Er. lia.
    - apply (f_equal (@length N)) in Er. rewrite rev_length in Er. cbn in Er, LTY. lia.
    - cbn [hd_in] in HTY2. unfold nonspace in HTY2. apply negb_true_iff in HTY2. rewrite HTY2.
      assert (Ea : after_act (10 :: tl post0_6 ++ sym ++ post0_7 ++ sym ++ 32 :: REST) = Some (sym, 32 :: REST)).
      { unfold after_act.
        change (skip_spaces (10 :: tl post0_6 ++ sym ++ post0_7 ++ sym ++ 32 :: REST))
          with (k_Description ++ 58 :: 32 :: sym ++ post0_7 ++ sym ++ 32 :: REST).
        unfold lit. rewrite strip_prefix_app. cbn [obind].
        unfold to_nl.
        replace (58 :: 32 :: sym ++ post0_7 ++ sym ++ 32 :: REST)
          with ((([58; 32] ++ sym) ++ post_desc_tail) ++ 10 :: post_isin_pre ++ k_ISIN_c ++ 32 :: sym ++ 32 :: REST)
          by (rewrite <- !app_assoc; reflexivity).
        rewrite (span_all not_nl (([58; 32] ++ sym) ++ post_desc_tail)).
        2:{ rewrite !forallb_app. rewrite (forallb_imp is_updot not_nl sym updot_not_nl US). reflexivity. }
        2:{ reflexivity. }
        cbn [snd obind].
        apply line_sufs_app_some; [reflexivity|].
        change (k_ISIN_c ++ 32 :: sym ++ 32 :: REST) with (73 :: post_sin ++ sym ++ 32 :: REST).
        rewrite line_sufs_cons; [|reflexivity|apply line_sufs_none; exact HI].
        exact (m_isin_hit sym REST NS SN). }
      rewrite Ea. rewrite <- Er, rev_involutive. reflexivity. }
  cbn [app] in Eact. rewrite Eact. cbn [obind].
  unfold comm_of, fee_of.
  destruct (find_last m_commission (32 :: REST)) as [[v r']|]; cbn [fst snd];
    destruct (find_last m_tx_fee _) as [[v2 r2']|]; reflexivity.
Qed.

Lemma frac_len_digits l : digits l -> frac_len l = 0%nat.
Proof.
  unfold digits. induction l as [|c l IH]; intros H; [reflexivity|].
  cbn [forallb] in H. apply andb_true_iff in H. destruct H as [Hc Hl].
  cbn [frac_len]. rewrite (digit_not_dot c Hc). apply IH. exact Hl.
Qed.
Lemma parse_large_int q : digits q -> q <> [] -> (length q <= 28)%nat -> parse_large q = Ok (dval q).
Proof.
  intros Hq Hn Hl. unfold parse_large, dval. rewrite strip_commas_digits by assumption.
  unfold plain_num_ok, mantissa, count_dots. rewrite filter_digits, filter_dot_digits, frac_len_digits by assumption.
  assert (H1 : forallb (fun c => is_digit c || is_dot c) q = true).
  { apply (forallb_imp is_digit); [intros x Hx; rewrite Hx; reflexivity|exact Hq]. }
  rewrite H1. destruct q as [|c q]; [congruence|]. cbn [length Nat.eqb negb andb Nat.leb].
  assert (H2 : (Z.of_N (digits_value (c :: q)) <=? max_mant)%Z = true) by (apply Z.leb_le, mantissa_bound; assumption).
  rewrite H2. reflexivity.
Qed.

Lemma m_commission_hit a b X : digits a -> digits b -> a <> [] -> b <> [] ->
  m_commission (post_com_pre ++ a ++ 46 :: b ++ 10 :: X) = Some (a ++ 46 :: b, 10 :: X).
Proof.
  intros. unfold m_commission.
  change (lit k_Commission (post_com_pre ++ a ++ 46 :: b ++ 10 :: X)) with (Some (32 :: 36 :: a ++ 46 :: b ++ 10 :: X)).
  cbn [obind]. rewrite sp1_sp. cbn [obind].
  change (skip_spaces (36 :: a ++ 46 :: b ++ 10 :: X)) with (36 :: a ++ 46 :: b ++ 10 :: X).
  cbn [chr N.eqb Pos.eqb obind]. apply dd_hit; auto. reflexivity.
Qed.
Definition post_fee_key : text := Eval vm_compute in txt "Transaction Fee $"%string.
Lemma m_tx_fee_hit a b X : digits a -> digits b -> a <> [] -> b <> [] ->
  m_tx_fee (post_fee_key ++ a ++ 46 :: b ++ 10 :: X) = Some (a ++ 46 :: b, 10 :: X).
Proof.
  intros. unfold m_tx_fee.
  change (lits_sp1 [k_Transaction; k_Fee] (post_fee_key ++ a ++ 46 :: b ++ 10 :: X))
    with (Some (skip_spaces (36 :: a ++ 46 :: b ++ 10 :: X))).
  change (skip_spaces (36 :: a ++ 46 :: b ++ 10 :: X)) with (36 :: a ++ 46 :: b ++ 10 :: X).
  cbn [chr N.eqb Pos.eqb obind]. apply dd_hit; auto. reflexivity.
Qed.
Lemma m_isin_nil : m_isin [] = None. Proof. reflexivity. Qed.
Lemma m_commission_nil : m_commission [] = None. Proof. reflexivity. Qed.
Lemma m_tx_fee_nil : m_tx_fee [] = None. Proof. reflexivity. Qed.

Definition comseg (o : option (text * text)) : list seg :=
  match o with Some (a, b) => [SL post_com_pre] ++ decseg a b ++ [SL nl] | None => [] end.
Definition feeseg (o : option (text * text)) : list seg :=
  match o with Some (a, b) => [SL post_fee_pre] ++ decseg a b ++ [SL nl] | None => [] end.
Definition odec_ok (o : option (text * text)) : Prop :=
  match o with Some (a, b) => decparts a b | None => True end.
Definition odec_text (o : option (text * text)) : option text :=
  match o with Some (a, b) => Some (a ++ 46 :: b) | None => None end.

Section POST.
Variables acct m1 d1 y1 m2 d2 y2 qty pa pb ty sym : text.
Hypothesis Hacct : acct <> [] /\ forallb is_acct acct = true.
Hypothesis Htd : digits m1 /\ digits d1 /\ digits y1 /\ m1 <> [] /\ d1 <> [] /\ y1 <> [].
Hypothesis Hsd : digits m2 /\ digits d2 /\ digits y2 /\ m2 <> [] /\ d2 <> [] /\ y2 <> [].
Hypothesis Hqty : digits qty /\ qty <> [].
Hypothesis Hp : decparts pa pb.
Hypothesis Hty : ty <> [] /\ forallb is_typec ty = true.
Hypothesis Hty2 : (2 <= length ty)%nat /\ hd_in nonspace ty = true /\ hd_in nonspace (rev ty) = true.
Hypothesis Hsym : sym <> [] /\ forallb is_updot sym = true.

Definition post_tail (st : bool) (ocom ofee : option (text * text)) : list seg :=
  [SL (sty st post0_8 post1_8)] ++ comseg ocom ++ feeseg ofee ++ [SL (sty st post0_10 post1_10)].
Definition post_doc (st : bool) (ocom ofee : option (text * text)) : list seg :=
  [SL (sty st post0_0 post1_0); SF c_acct acct; SL (sty st post0_1 post1_1)] ++ dateseg 47 m1 d1 y1
  ++ [SL (sty st post0_2 post1_2)] ++ dateseg 47 m2 d2 y2
  ++ [SL (sty st post0_3 post1_3); SF c_digit qty; SL (sty st post0_4 post1_4)] ++ decseg pa pb
  ++ [SL (sty st post0_5 post1_5); SF c_type ty; SL (sty st post0_6 post1_6); SF c_updot sym;
      SL (sty st post0_7 post1_7); SF c_updot sym] ++ post_tail st ocom ofee.

Lemma post_doc_ok st ocom ofee (Hcom : odec_ok ocom) (Hfee : odec_ok ofee) : Forall seg_ok (post_doc st ocom ofee).
Proof.
  destruct Hacct, Htd as (? & ? & ? & ? & ? & ?), Hsd as (? & ? & ? & ? & ? & ?), Hqty, Hty, Hsym. dsplit Hp.
  unfold post_doc, post_tail, comseg, feeseg, decseg, dateseg.
  destruct ocom as [[ca cb]|], ofee as [[fa fb]|]; cbn [odec_ok] in Hcom, Hfee;
    try dsplit Hcom; try dsplit Hfee; cbn [app]; repeat constructor; auto.
Qed.
Lemma post_tail_ok st ocom ofee (Hcom : odec_ok ocom) (Hfee : odec_ok ofee) : Forall seg_ok (post_tail st ocom ofee).
Proof.
  pose proof (post_doc_ok st ocom ofee Hcom Hfee) as H. unfold post_doc in H.
  do 7 (apply Forall_app in H; destruct H as [_ H]). exact H.
Qed.

Lemma post_account st ocom ofee (Hcom : odec_ok ocom) (Hfee : odec_ok ofee) :
  exists rest, get1 m_tc_account (flat (post_doc st ocom ofee)) = Ok (acct, rest).
Proof.
  destruct Hacct as [Hn Ha]. apply get1_of_fst.
  assert (Hns : forallb nonspace acct = true) by (apply (forallb_imp is_acct); [exact acct_nonspace|exact Ha]).
  assert (T : forall b, Forall seg_ok (post_doc b ocom ofee)) by (intro; apply post_doc_ok; assumption).
  destruct st; destruct ocom as [[ca cb]|], ofee as [[fa fb]|];
  (match goal with
   | |- context [post_doc ?b _ _] => seek_with g_tc_account (T b)
   end; trunc3; erewrite find_hit; cycle 1;
   [ unfold m_tc_account, k_Account, k_Number_c; cbn [seg_text app lit strip_prefix N.eqb Pos.eqb obind];
     rewrite sp1_sp; cbn [obind]; rewrite skip_spaces_nonspace by reflexivity;
     cbn [lit strip_prefix N.eqb Pos.eqb obind];
     rewrite skip_sp_nonspace_fld by auto; rewrite run1_all by (auto; reflexivity);
     cbn [obind one_sp]; reflexivity
   | reflexivity ]).
Qed.

Section WithOpts.
Variables ocom ofee : option (text * text).
Hypothesis Hcom : odec_ok ocom.
Hypothesis Hfee : odec_ok ofee.

Lemma post_no_isin st :
  find_last m_isin (flat ([SL post_sin; SF c_updot sym] ++ post_tail st ocom ofee)) = None.
Proof.
  assert (Hok : forall b, Forall seg_ok ([SL post_sin; SF c_updot sym] ++ post_tail b ocom ofee)).
  { intro b. apply Forall_app. split; [repeat constructor; apply Hsym|apply post_tail_ok; assumption]. }
  destruct st; destruct ocom as [[ca cb]|], ofee as [[fa fb]|];
    (apply (find_last_none m_isin _ g_isin m_isin_nil); [apply Hok|vm_compute; reflexivity]).
Qed.

(* the optional tails *)
Lemma post_comm st :
  comm_of (flat (post_tail st ocom ofee))
  = match ocom with
    | Some (a, b) => (Some (a ++ 46 :: b), 10 :: flat (feeseg ofee ++ [SL (sty st post0_10 post1_10)]))
    | None => (None, flat (post_tail st ocom ofee))
    end.
Proof.
  unfold comm_of. destruct ocom as [[ca cb]|].
  - assert (E : find_last m_commission (flat (post_tail st (Some (ca, cb)) ofee))
                = Some (ca ++ 46 :: cb, 10 :: flat (feeseg ofee ++ [SL (sty st post0_10 post1_10)]))); [|rewrite E; reflexivity].
    cbn [odec_ok] in Hcom. dsplit Hcom.
    assert (Hok : forall b, Forall seg_ok ([SL (tl post_com_pre)] ++ decseg ca cb ++ [SL nl] ++ feeseg ofee ++ [SL (sty b post0_10 post1_10)])).
    { intro b. pose proof (post_tail_ok b (Some (ca, cb)) ofee) as P. unfold post_tail, comseg in P.
      apply Forall_app. split; [repeat constructor|].
      specialize (P (conj H (conj H0 (conj H1 (conj H2 H3)))) Hfee). apply Forall_app in P. destruct P as [_ P].
      rewrite <- !app_assoc in P. apply Forall_app in P. destruct P as [_ P]. exact P. }
    unfold post_tail, comseg. cbn [app flat seg_text]. apply find_last_app_some.
    match goal with |- find_last _ ?X = _ =>
      replace X with (67 :: flat ([SL (tl post_com_pre)] ++ decseg ca cb ++ [SL nl] ++ feeseg ofee ++ [SL (sty st post0_10 post1_10)]))
        by (rewrite !flat_app; cbn [flat seg_text decseg app]; rewrite <- ?app_assoc; reflexivity)
    end.
    rewrite find_last_cons.
    + assert (ET : 67 :: flat ([SL (tl post_com_pre)] ++ decseg ca cb ++ [SL nl] ++ feeseg ofee ++ [SL (sty st post0_10 post1_10)])
                   = post_com_pre ++ ca ++ 46 :: cb ++ 10 :: flat (feeseg ofee ++ [SL (sty st post0_10 post1_10)])) by reflexivity.
      rewrite ET. exact (m_commission_hit ca cb _ H H0 H1 H2).
    + destruct st; destruct ofee as [[fa fb]|];
        (apply (find_last_none m_commission _ g_commission m_commission_nil); [apply Hok|vm_compute; reflexivity]).
  - assert (E : find_last m_commission (flat (post_tail st None ofee)) = None); [|rewrite E; reflexivity].
    destruct st; destruct ofee as [[fa fb]|];
      (apply (find_last_none m_commission _ g_commission m_commission_nil); [apply post_tail_ok; [exact I|assumption]|vm_compute; reflexivity]).
Qed.

Definition post_fee_head : text := Eval vm_compute in txt "Supplemental
"%string.

Lemma post_fee_after_comm st :
  fee_of (10 :: flat (feeseg ofee ++ [SL (sty st post0_10 post1_10)])) = odec_text ofee.
Proof.
  unfold fee_of. destruct ofee as [[fa fb]|]; cbn [odec_text].
  - cbn [odec_ok] in Hfee. dsplit Hfee.
    assert (E : find_last m_tx_fee (10 :: flat (feeseg (Some (fa, fb)) ++ [SL (sty st post0_10 post1_10)]))
                = Some (fa ++ 46 :: fb, 10 :: sty st post0_10 post1_10)); [|rewrite E; reflexivity].
    match goal with |- find_last _ ?X = _ =>
      replace X with ((10 :: post_fee_head) ++ 84 :: flat ([SL (tl post_fee_key)] ++ decseg fa fb ++ [SL nl; SL (sty st post0_10 post1_10)]))
        by reflexivity
    end.
    apply find_last_app_some. rewrite find_last_cons.
    + assert (ET : 84 :: flat ([SL (tl post_fee_key)] ++ decseg fa fb ++ [SL nl; SL (sty st post0_10 post1_10)])
                   = post_fee_key ++ fa ++ 46 :: fb ++ 10 :: (sty st post0_10 post1_10 ++ [])) by reflexivity.
      rewrite ET, app_nil_r. exact (m_tx_fee_hit fa fb _ H H0 H1 H2).
    + destruct st; (apply (find_last_none m_tx_fee _ g_tx_fee m_tx_fee_nil); [repeat constructor; auto|vm_compute; reflexivity]).
  - assert (E : find_last m_tx_fee (10 :: flat (feeseg None ++ [SL (sty st post0_10 post1_10)])) = None); [|rewrite E; reflexivity].
    change (10 :: flat (feeseg None ++ [SL (sty st post0_10 post1_10)])) with (flat [SL nl; SL (sty st post0_10 post1_10)]).
    destruct st; (apply (find_last_none m_tx_fee _ g_tx_fee m_tx_fee_nil); [repeat constructor|vm_compute; reflexivity]).
Qed.

Lemma post_fee_no_comm st : ocom = None -> fee_of (flat (post_tail st ocom ofee)) = odec_text ofee.
Proof.
  intros ->. unfold fee_of. destruct ofee as [[fa fb]|]; cbn [odec_text].
  - cbn [odec_ok] in Hfee. dsplit Hfee.
    assert (E : find_last m_tx_fee (flat (post_tail st None (Some (fa, fb))))
                = Some (fa ++ 46 :: fb, 10 :: sty st post0_10 post1_10)); [|rewrite E; reflexivity].
    match goal with |- find_last _ ?X = _ =>
      replace X with (sty st post0_8 post1_8 ++ post_fee_head ++ 84 :: flat ([SL (tl post_fee_key)] ++ decseg fa fb ++ [SL nl; SL (sty st post0_10 post1_10)]))
        by reflexivity
    end.
    apply find_last_app_some, find_last_app_some. rewrite find_last_cons.
    + assert (ET : 84 :: flat ([SL (tl post_fee_key)] ++ decseg fa fb ++ [SL nl; SL (sty st post0_10 post1_10)])
                   = post_fee_key ++ fa ++ 46 :: fb ++ 10 :: (sty st post0_10 post1_10 ++ [])) by reflexivity.
      rewrite ET, app_nil_r. exact (m_tx_fee_hit fa fb _ H H0 H1 H2).
    + destruct st; (apply (find_last_none m_tx_fee _ g_tx_fee m_tx_fee_nil); [repeat constructor; auto|vm_compute; reflexivity]).
  - assert (E : find_last m_tx_fee (flat (post_tail st None None)) = None); [|rewrite E; reflexivity].
    destruct st; (apply (find_last_none m_tx_fee _ g_tx_fee m_tx_fee_nil); [repeat constructor|vm_compute; reflexivity]).
Qed.

Lemma post_find st :
  find m_post (flat (post_doc st ocom ofee))
  = Some {| cp_td := (m1, d1, y1); cp_sd := (m2, d2, y2); cp_sym := sym; cp_act := ty; cp_n := qty;
            cp_price := pa ++ 46 :: pb; cp_comm := odec_text ocom; cp_fee := odec_text ofee |}.
Proof.
  destruct Htd as (? & ? & ? & ? & ? & ?), Hsd as (? & ? & ? & ? & ? & ?), Hqty, Hty, Hsym, Hty2 as (? & ? & ?).
  assert (T : forall b, Forall seg_ok (post_doc b ocom ofee)) by (intro; apply post_doc_ok; assumption).
  pose proof (post_no_isin st) as HI. pose proof (post_comm st) as HC.
  pose proof (post_fee_after_comm st) as HF1. pose proof (post_fee_no_comm st) as HF2.
  assert (EV : m_post (post_hdr ++ m1 ++ 47 :: d1 ++ 47 :: y1 ++ 32 :: m2 ++ 47 :: d2 ++ 47 :: y2 ++ 32 :: qty ++ 32 :: pa ++ 46 :: pb
          ++ post0_5 ++ ty ++ post0_6 ++ sym ++ post0_7 ++ sym ++ 32 :: tl (flat (post_tail st ocom ofee)))
        = Some {| cp_td := (m1, d1, y1); cp_sd := (m2, d2, y2); cp_sym := sym; cp_act := ty; cp_n := qty;
            cp_price := pa ++ 46 :: pb; cp_comm := odec_text ocom; cp_fee := odec_text ofee |}).
  { rewrite m_post_eval; auto.
    - assert (E32 : 32 :: tl (flat (post_tail st ocom ofee)) = flat (post_tail st ocom ofee)) by (destruct st; reflexivity).
      rewrite E32, HC. destruct ocom as [[ca cb]|]; cbn [fst snd odec_text].
      + rewrite HF1. reflexivity.
      + rewrite HF2 by reflexivity. reflexivity.
    - assert (E32 : 32 :: tl (flat (post_tail st ocom ofee)) = flat (post_tail st ocom ofee)) by (destruct st; reflexivity).
      rewrite E32. exact HI. }
  clear HI HC HF1 HF2.
  destruct st; destruct ocom as [[ca cb]|], ofee as [[fa fb]|];
  (match goal with
   | |- context [post_doc ?b _ _] => seek_with g_post (T b)
   end; apply find_hit; exact EV).
Qed.
End WithOpts.
End POST.

Definition odec_val (o : option (text * text)) : Qc :=
  match o with Some (a, b) => dval (a ++ 46 :: b) | None => 0%Qc end.

Lemma opt_dec_odec o : odec_ok o -> opt_dec (odec_text o) = Ok (option_map dval (odec_text o)).
Proof.
  destruct o as [[a b]|]; cbn [odec_ok odec_text opt_dec option_map]; [|reflexivity].
  intros H. dsplit H. rewrite parse_large_dec by assumption. reflexivity.
Qed.

Lemma post_parse acct m1 d1 y1 m2 d2 y2 qty pa pb ty sym ocom ofee st act v :
  acct <> [] /\ forallb is_acct acct = true ->
  digits m1 /\ digits d1 /\ digits y1 /\ m1 <> [] /\ d1 <> [] /\ y1 <> [] ->
  digits m2 /\ digits d2 /\ digits y2 /\ m2 <> [] /\ d2 <> [] /\ y2 <> [] ->
  digits qty /\ qty <> [] -> decparts pa pb ->
  ty <> [] /\ forallb is_typec ty = true ->
  (2 <= length ty)%nat /\ hd_in nonspace ty = true /\ hd_in nonspace (rev ty) = true ->
  sym <> [] /\ forallb is_updot sym = true ->
  odec_ok ocom -> odec_ok ofee ->
  parse_mdy (m1, d1, y1) = Ok (date_ord (m1, d1, y1)) -> parse_mdy (m2, d2, y2) = Ok (date_ord (m2, d2, y2)) ->
  action_of ty = Ok act -> (length qty <= 28)%nat ->
  a_add dec (odec_val ocom) (odec_val ofee) = Ok v ->
  parse_tc_post (flat (post_doc acct m1 d1 y1 m2 d2 y2 qty pa pb ty sym st ocom ofee))
  = Ok {| tt_sec := sym; tt_td := date_ord (m1, d1, y1); tt_sd := date_ord (m2, d2, y2);
          tt_td_text := date_text 47 (m1, d1, y1); tt_sd_text := date_text 47 (m2, d2, y2);
          tt_act := act; tt_price := dval (pa ++ 46 :: pb); tt_shares := dval qty; tt_comm := v;
          tt_row := 1; tt_acct := acct |}.
Proof.
  intros Hacct Htd Hsd Hqty Hp Hty Hty2 Hsym Hcom Hfee P1 P2 PA LQ PV.
  unfold parse_tc_post.
  destruct (post_account acct m1 d1 y1 m2 d2 y2 qty pa pb ty sym Hacct Htd Hsd Hqty Hp Hty Hsym st ocom ofee Hcom Hfee) as [rest E].
  rewrite E. cbn [bind].
  rewrite (post_find acct m1 d1 y1 m2 d2 y2 qty pa pb ty sym Hacct Htd Hsd Hqty Hp Hty Hty2 Hsym ocom ofee Hcom Hfee st).
  unfold trade_of_caps. cbn [cp_td cp_sd cp_sym cp_act cp_n cp_price cp_comm cp_fee].
  rewrite P1, P2. cbn [bind]. rewrite PA. cbn [bind].
  pose proof Hp as Hp'. dsplit Hp'. rewrite parse_large_dec by assumption. cbn [bind].
  destruct Hqty as [Q1 Q2]. rewrite parse_large_int by assumption. cbn [bind].
  rewrite (opt_dec_odec ocom Hcom). cbn [bind]. rewrite (opt_dec_odec ofee Hfee). cbn [bind].
  assert (EC : or_zero (option_map dval (odec_text ocom)) = odec_val ocom) by (destruct ocom as [[? ?]|]; reflexivity).
  assert (EF : or_zero (option_map dval (odec_text ofee)) = odec_val ofee) by (destruct ofee as [[? ?]|]; reflexivity).
  rewrite EC, EF, PV. cbn [bind]. reflexivity.
Qed.

(* the well-formed class of post-2023 confirmations *)
Definition acct_ok (t : text) : bool := negb (Nat.eqb (length t) 0) && forallb is_acct t.
Definition type_ok (t : text) : bool :=
  forallb is_typec t && Nat.leb 2 (length t) && hd_in nonspace t && hd_in nonspace (rev t).
Definition optdec_ok (o : option text) : bool := match o with Some t => is_dec t | None => true end.
Definition int_ok (t : text) : bool := num_ok t && Nat.leb (length t) 28.

Definition wf_post (r : post_lay) : bool :=
  acct_ok (po_acct r) && date_ok (po_td r) && date_ok (po_sd r) && int_ok (po_qty r) && is_dec (po_price r)
  && type_ok (po_type r) && sym_ok (po_sym r) && optdec_ok (po_comm r) && optdec_ok (po_fee r)
  && is_ok (action_of (po_type r)) && is_ok (a_add dec (opt_dval (po_comm r)) (opt_dval (po_fee r))).

Lemma optdec_parts o : optdec_ok o = true ->
  exists o', odec_ok o' /\ o = odec_text o' /\ opt_dval o = odec_val o'.
Proof.
  destruct o as [t|]; cbn [optdec_ok]; intros H.
  - destruct (decparts_of t H) as (a & b & -> & Hd). exists (Some (a, b)). split; [exact Hd|split; reflexivity].
  - exists None. split; [exact I|split; reflexivity].
Qed.

Theorem post_text_roundtrip st r : wf_post r = true -> parse_tc_post (render_tc_post st r) = Ok (post_record r).
Proof.
  destruct r as [acct [[m1 d1] y1] [[m2 d2] y2] qty price ty sym com fee]. unfold wf_post.
  cbn [po_acct po_td po_sd po_qty po_price po_type po_sym po_comm po_fee]. intros H.
  apply andb_true_iff in H; destruct H as [H Wadd]. apply andb_true_iff in H; destruct H as [H Wact].
  apply andb_true_iff in H; destruct H as [H Wfee]. apply andb_true_iff in H; destruct H as [H Wcom].
  apply andb_true_iff in H; destruct H as [H Wsym]. apply andb_true_iff in H; destruct H as [H Wty].
  apply andb_true_iff in H; destruct H as [H Wprice]. apply andb_true_iff in H; destruct H as [H Wqty].
  apply andb_true_iff in H; destruct H as [H Wsd]. apply andb_true_iff in H; destruct H as [Wacct Wtd].
  destruct (decparts_of _ Wprice) as (pa & pb & -> & Hp).
  destruct (optdec_parts _ Wcom) as (ocom & Hcom & -> & Vc). destruct (optdec_parts _ Wfee) as (ofee & Hfee & -> & Vf).
  destruct (date_ok_spec _ _ _ Wtd) as (A1 & A2 & A3 & A4 & A5 & A6 & P1).
  destruct (date_ok_spec _ _ _ Wsd) as (B1 & B2 & B3 & B4 & B5 & B6 & P2).
  destruct (sym_ok_spec _ Wsym) as (S1 & S2 & _).
  unfold int_ok in Wqty. apply andb_true_iff in Wqty. destruct Wqty as [Wq1 Wq2]. apply Nat.leb_le in Wq2.
  destruct (num_ok_spec _ Wq1) as [Q1 Q2].
  unfold acct_ok in Wacct. apply andb_true_iff in Wacct. destruct Wacct as [Wa1 Wa2].
  assert (Na : acct <> []) by (intros ->; discriminate).
  unfold type_ok in Wty. apply andb_true_iff in Wty; destruct Wty as [Wty T4].
  apply andb_true_iff in Wty; destruct Wty as [Wty T3]. apply andb_true_iff in Wty; destruct Wty as [T1 T2].
  apply Nat.leb_le in T2. assert (Nt : ty <> []) by (intros ->; cbn in T2; lia).
  destruct (action_of ty) as [act| |] eqn:EA; try discriminate Wact.
  rewrite Vc, Vf in Wadd. destruct (a_add dec (odec_val ocom) (odec_val ofee)) as [v| |] eqn:EV; try discriminate Wadd.
  pose proof (post_parse acct m1 d1 y1 m2 d2 y2 qty pa pb ty sym ocom ofee st act v (conj Na Wa2)
                (conj A1 (conj A2 (conj A3 (conj A4 (conj A5 A6))))) (conj B1 (conj B2 (conj B3 (conj B4 (conj B5 B6)))))
                (conj Q1 Q2) Hp (conj Nt T1) (conj T2 (conj T3 T4)) (conj S1 S2) Hcom Hfee P1 P2 EA Wq2 EV) as P.
  replace (render_tc_post st _) with (flat (post_doc acct m1 d1 y1 m2 d2 y2 qty pa pb ty sym st ocom ofee)).
  - rewrite P. unfold post_record, sell_or_buy, dec_sum.
    cbn [po_acct po_td po_sd po_qty po_price po_type po_sym po_comm po_fee].
    rewrite EA, Vc, Vf, EV. reflexivity.
  - unfold render_tc_post, post_doc, post_tail, decseg, dateseg, date_text, opt_line, comseg, feeseg, nl.
    cbn [po_acct po_td po_sd po_qty po_price po_type po_sym po_comm po_fee].
    destruct ocom as [[ca cb]|], ofee as [[fa fb]|]; cbn [odec_text app flat seg_text decseg];
      norm_apps; rewrite ?app_nil_r; reflexivity.
Qed.

(* ------------------------------------------------------------------ the other three kinds:
   well-formed classes and the full round-trip statements (not proved in general here; see
   Properties/C19.v for the instances proved by computation and design.d/C19-text.md) *)
Definition wf_espp (r : espp_lay) : bool :=
  sym_ok (el_sym r) && date_ok (el_date r) && is_dec (el_purchased r) && is_dec (el_fmv r)
  && optdec_ok (el_sold r) && optdec_ok (el_sale r) && optdec_ok (el_fee r).
Definition espp_roundtrip_full : Prop :=
  forall st r, wf_espp r = true -> parse_espp (render_espp st r) = Ok (espp_record r).

(* [\d,]+\.\d+ : digits with thousands separators, a point, digits; at most 28 digits *)
Definition is_cdec (t : text) : bool :=
  match span is_dc t with
  | (a, 46 :: b) =>
      hd_in is_digit a && negb (Nat.eqb (length b) 0) && forallb is_digit b
      && Nat.leb (length (filter is_digit a) + length b) 28
  | _ => false
  end.
(* [\d,\.]+ read as a whole number with separators: "1,002" *)
Definition is_cint (t : text) : bool :=
  hd_in is_digit t && forallb is_dc t && Nat.leb (length (filter is_digit t)) 28.
Definition grant_ok (sale : Qc) (g : grant_lay) : bool :=
  num_ok (gl_num g) && Nat.leb (length (gl_num g)) 19
  && is_cdec (gl_fmv g) && is_cint (gl_shares g) && is_cdec (gl_sale g) && is_cdec (gl_fee g)
  && Qceqb (dval (gl_sale g)) sale.
Fixpoint fees_ok (acc : Qc) (l : list Qc) : bool :=
  match l with
  | [] => true
  | x :: r => match a_add dec acc x with Ok v => fees_ok v r | _ => false end
  end.
Definition wf_eso (r : eso_lay) : bool :=
  sym_ok (ol_sym r) && date_ok (ol_date r) && type_ok (ol_type r) && is_cint (ol_sold r)
  && match ol_grants r with
     | [] => false
     | g :: _ => forallb (grant_ok (dval (gl_sale g))) (ol_grants r)
     end
  && fees_ok 0%Qc (map (fun g => dval (gl_fee g)) (ol_grants r)).
Definition eso_roundtrip_full : Prop :=
  forall st r, wf_eso r = true -> parse_eso (render_eso st r) = Ok (eso_records r).

Definition date_ok_short (d : date_t) : bool :=
  let '(mt, dt, yt) := d in Nat.eqb (length yt) 2 && date_ok (mt, dt, 50 :: 48 :: yt).
Definition pre_row_ok (t : pre_row_lay) : bool :=
  date_ok_short (pl_td t) && date_ok_short (pl_sd t) && sym_ok (pl_sym t)
  && negb (Nat.eqb (length (pl_act t)) 0) && forallb is_upper (pl_act t) && is_ok (action_of (pl_act t))
  && int_ok (pl_qty t) && is_dec (pl_price t) && optdec_ok (pl_comm t) && optdec_ok (pl_fee t)
  && match pl_comm t, pl_fee t with None, None => false | _, _ => true end
  && is_ok (a_add dec (opt_dval (pl_comm t)) (opt_dval (pl_fee t))).
Definition wf_pre (r : pre_lay) : bool :=
  acct_ok (pr_acct r) && negb (Nat.eqb (length (pr_rows r)) 0) && forallb pre_row_ok (pr_rows r).
Definition pre_roundtrip_full : Prop :=
  forall st r, wf_pre r = true -> parse_tc_pre (render_tc_pre st r) = Ok (pre_records (pr_acct r) 1 (pr_rows r)).

(* equality of results up to the representation of rationals, decidable *)
Definition oq_eqb (a b : option Qc) : bool :=
  match a, b with Some x, Some y => Qceqb x y | None, None => true | _, _ => false end.
Definition oz_eqb (a b : option Z) : bool :=
  match a, b with Some x, Some y => Z.eqb x y | None, None => true | _, _ => false end.
Definition ot_eqb (a b : option text) : bool :=
  match a, b with Some x, Some y => text_eqb x y | None, None => true | _, _ => false end.
Definition tbenefit_eqb (x y : tbenefit) : bool :=
  text_eqb (tb_sec x) (tb_sec y) && Z.eqb (tb_date x) (tb_date y) && Z.eqb (tb_settle x) (tb_settle y)
  && Qceqb (tb_price x) (tb_price y) && Qceqb (tb_shares x) (tb_shares y)
  && oz_eqb (tb_stc_td x) (tb_stc_td y) && oz_eqb (tb_stc_sd x) (tb_stc_sd y)
  && oq_eqb (tb_stc_price x) (tb_stc_price y) && oq_eqb (tb_stc_shares x) (tb_stc_shares y)
  && oq_eqb (tb_stc_fee x) (tb_stc_fee y) && text_eqb (tb_note x) (tb_note y)
  && ot_eqb (tb_sell_note x) (tb_sell_note y).
Definition act5_eqb (a b : action5) : bool :=
  match a, b with
  | XBuy, XBuy | XSell, XSell | XRoc, XRoc | XSfla, XSfla | XSplit, XSplit => true
  | _, _ => false
  end.
Definition ttrade_eqb (x y : ttrade) : bool :=
  text_eqb (tt_sec x) (tt_sec y) && Z.eqb (tt_td x) (tt_td y) && Z.eqb (tt_sd x) (tt_sd y)
  && text_eqb (tt_td_text x) (tt_td_text y) && text_eqb (tt_sd_text x) (tt_sd_text y)
  && act5_eqb (tt_act x) (tt_act y) && Qceqb (tt_price x) (tt_price y) && Qceqb (tt_shares x) (tt_shares y)
  && Qceqb (tt_comm x) (tt_comm y) && Nat.eqb (tt_row x) (tt_row y) && text_eqb (tt_acct x) (tt_acct y).
Fixpoint list_eqb {T} (e : T -> T -> bool) (a b : list T) : bool :=
  match a, b with
  | [], [] => true
  | x :: a', y :: b' => e x y && list_eqb e a' b'
  | _, _ => false
  end.
Definition res_eqb {T} (e : T -> T -> bool) (a : res T) (b : T) : bool :=
  match a with Ok x => e x b | _ => false end.

(* concrete records (the unit-test documents of src/peripheral/broker/etrade.rs, rebuilt) *)
Definition tx (s : string) : text := txt s.
Definition ex_rsu : rsu_lay :=
  {| rl_sym := tx "FOO"; rl_date := (tx "10", tx "20", tx "2023"); rl_award := tx "98765";
     rl_released := tx "123.0000"; rl_sold := tx "67.0000"; rl_issued := tx "56.0000";
     rl_fmv := tx "215.350000"; rl_sale := tx "213.773300"; rl_fee := tx "4.13" |}.
Definition ex_post : post_lay :=
  {| po_acct := tx "123-XXX123-123"; po_td := (tx "11", tx "01", tx "2023"); po_sd := (tx "11", tx "03", tx "2023");
     po_qty := tx "123"; po_price := tx "200.01"; po_type := tx "Sold Short"; po_sym := tx "BRK.B";
     po_comm := Some (tx "3.91"); po_fee := Some (tx "0.21") |}.
Definition ex_espp (stc : bool) : espp_lay :=
  {| el_sym := tx "FOO"; el_date := (tx "10", tx "20", tx "2023"); el_purchased := tx "123.0000"; el_fmv := tx "215.350000";
     el_sold := if stc then Some (tx "67.0000") else None; el_sale := if stc then Some (tx "213.773300") else None;
     el_fee := if stc then Some (tx "4.13") else None |}.
Definition ex_eso : eso_lay :=
  {| ol_sym := tx "FOO"; ol_date := (tx "10", tx "20", tx "2024"); ol_type := tx "Same-Day Sale"; ol_sold := tx "1,002";
     ol_grants := [ {| gl_num := tx "1234"; gl_fmv := tx "1,000.00"; gl_shares := tx "100"; gl_sale := tx "1,001.00"; gl_fee := tx "10.00" |};
                    {| gl_num := tx "1235"; gl_fmv := tx "2,000.00"; gl_shares := tx "200"; gl_sale := tx "1,001.00"; gl_fee := tx "11.00" |};
                    {| gl_num := tx "1236"; gl_fmv := tx "90.25"; gl_shares := tx "1,300"; gl_sale := tx "1,001.00"; gl_fee := tx "0.50" |} ] |}.
Definition ex_pre : pre_lay :=
  {| pr_acct := tx "XXXX-9876";
     pr_rows := [ {| pl_td := (tx "02", tx "20", tx "23"); pl_sd := (tx "02", tx "22", tx "23"); pl_sym := tx "FOO"; pl_act := tx "SELL";
                     pl_qty := tx "6"; pl_price := tx "120.01"; pl_comm := Some (tx "20.05"); pl_fee := Some (tx "0.02") |};
                  {| pl_td := (tx "02", tx "20", tx "23"); pl_sd := (tx "02", tx "22", tx "23"); pl_sym := tx "FOO"; pl_act := tx "SELL";
                     pl_qty := tx "1"; pl_price := tx "120.011"; pl_comm := None; pl_fee := Some (tx "0.01") |};
                  {| pl_td := (tx "12", tx "29", tx "22"); pl_sd := (tx "01", tx "03", tx "23"); pl_sym := tx "BRK.B"; pl_act := tx "BUY";
                     pl_qty := tx "40"; pl_price := tx "99.5"; pl_comm := Some (tx "1.00"); pl_fee := None |} ] |}.

Definition ex_rsu_note : text := tx "RSU R98765".
Lemma ex_rsu_wf : wf_rsu ex_rsu = true. Proof. vm_compute. reflexivity. Qed.
Lemma ex_post_wf : wf_post ex_post = true. Proof. vm_compute. reflexivity. Qed.

Lemma espp_roundtrip_instances :
  forallb (fun st => forallb (fun stc =>
     wf_espp (ex_espp stc) && res_eqb tbenefit_eqb (parse_espp (render_espp st (ex_espp stc))) (espp_record (ex_espp stc)))
     [true; false]) [true; false] = true.
Proof. vm_compute. reflexivity. Qed.
Lemma eso_roundtrip_instances :
  forallb (fun st => wf_eso ex_eso
     && res_eqb (list_eqb tbenefit_eqb) (parse_eso (render_eso st ex_eso)) (eso_records ex_eso)) [true; false] = true.
Proof. vm_compute. reflexivity. Qed.
Lemma pre_roundtrip_instances :
  forallb (fun st => wf_pre ex_pre
     && res_eqb (list_eqb ttrade_eqb) (parse_tc_pre (render_tc_pre st ex_pre)) (pre_records (pr_acct ex_pre) 1 (pr_rows ex_pre)))
    [true; false] = true.
Proof. vm_compute. reflexivity. Qed.

(* ------------------------------------------------------------------ document level (RSU) *)
Lemma is_match_app m p s : is_match m s = true -> is_match m (p ++ s) = true.
Proof.
  unfold is_match. intros H. induction p as [|c p IH]; [exact H|]. cbn [app find].
  destruct (m (c :: p ++ s)); [reflexivity|exact IH].
Qed.

Lemma rsu_classified st r : classify_doc (render_rsu st r) = Some KRsu.
Proof.
  unfold classify_doc.
  assert (E : is_match m_rsu_marker (render_rsu st r) = true); [|rewrite E; reflexivity].
  unfold render_rsu. do 22 apply is_match_app.
  generalize (rl_sym r ++ sty st rsu0_12 rsu1_12). intro tail.
  destruct st; vm_compute; reflexivity.
Qed.

Theorem rsu_doc_roundtrip st r : wf_rsu r = true ->
  parse_text (render_rsu st r) = Ok (Benefits [rsu_record r])
  /\ parse_doc (render_rsu st r) = Ok (Some ([abs_benefit (rsu_record r)], [])).
Proof.
  intros H. assert (E : parse_text (render_rsu st r) = Ok (Benefits [rsu_record r])).
  { unfold parse_text. rewrite rsu_classified, (rsu_text_roundtrip st r H). reflexivity. }
  split; [exact E|]. unfold parse_doc. rewrite E. reflexivity.
Qed.
