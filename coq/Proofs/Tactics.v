From Coq Require Import List NArith ZArith QArith Qcanon Bool.
From ACB Require Import Base.Outcome Base.QcExtra Base.Arith.
Global Arguments Qcplus : simpl never.
Global Arguments Qcmult : simpl never.
Global Arguments Qcminus : simpl never.
Global Arguments Qcdiv : simpl never.
Global Arguments Qcopp : simpl never.
Global Arguments Qcinv : simpl never.
Global Arguments Q2Qc : simpl never.

(* invert [bind m f = Ok x] hypotheses step by step *)
Ltac bind_inv H :=
  match type of H with
  | bind ?m _ = Ok _ =>
      let E := fresh "E" in
      destruct m eqn:E; cbn [bind] in H; [ | discriminate H | discriminate H ]
  end.

Tactic Notation "bind_as" hyp(H) "as" simple_intropattern(x) ident(E) :=
  match type of H with
  | bind ?m _ = Ok _ =>
      destruct m as [x| |] eqn:E; cbn [bind] in H; [ | discriminate H | discriminate H ]
  end.

Ltac if_inv H :=
  match type of H with
  | (if ?c then _ else _) = _ =>
      let E := fresh "E" in destruct c eqn:E; try discriminate H
  end.

Lemma exact_add a b : a_add exact a b = Ok (a + b)%Qc. Proof. reflexivity. Qed.
Lemma exact_sub a b : a_sub exact a b = Ok (a - b)%Qc. Proof. reflexivity. Qed.
Lemma exact_mul a b : a_mul exact a b = Ok (a * b)%Qc. Proof. reflexivity. Qed.
Lemma exact_div a b : b <> 0%Qc -> a_div exact a b = Ok (a / b)%Qc.
Proof. intros H. cbn. destruct (Qceqb_spec b 0%Qc); [contradiction | reflexivity]. Qed.

Lemma gez_unwrap_ok s q r : gez_unwrap s q = Ok r -> r = q /\ (0 <= q)%Qc.
Proof. unfold gez_unwrap. destruct (Qcleb_spec 0%Qc q); intros H; inversion H; subst; auto. Qed.
Lemma pos_unwrap_ok s q r : pos_unwrap s q = Ok r -> r = q /\ (0 < q)%Qc.
Proof. unfold pos_unwrap. destruct (Qcltb_spec 0%Qc q); intros H; inversion H; subst; auto. Qed.
Lemma neg_unwrap_ok s q r : neg_unwrap s q = Ok r -> r = q /\ (q < 0)%Qc.
Proof. unfold neg_unwrap. destruct (Qcltb_spec q 0%Qc); intros H; inversion H; subst; auto. Qed.

Lemma gez_add_exact a b r : gez_add exact a b = Ok r -> r = (a + b)%Qc /\ (0 <= a + b)%Qc.
Proof. unfold gez_add. cbn [bind a_add exact]. apply gez_unwrap_ok. Qed.
Lemma gez_mul_exact a b r : gez_mul exact a b = Ok r -> r = (a * b)%Qc /\ (0 <= a * b)%Qc.
Proof. unfold gez_mul. cbn [bind a_mul exact]. apply gez_unwrap_ok. Qed.
Lemma pos_mul_exact a b r : pos_mul exact a b = Ok r -> r = (a * b)%Qc /\ (0 < a * b)%Qc.
Proof. unfold pos_mul. cbn [bind a_mul exact]. apply pos_unwrap_ok. Qed.
Lemma gez_div_exact a b r : gez_div exact a b = Ok r -> r = (a / b)%Qc /\ b <> 0%Qc.
Proof.
  unfold gez_div. cbn [a_div exact]. destruct (Qceqb_spec b 0%Qc); cbn [bind]; [discriminate|].
  intros H. apply gez_unwrap_ok in H. intuition.
Qed.
Lemma pos_div_exact a b r : pos_div exact a b = Ok r -> r = (a / b)%Qc /\ b <> 0%Qc /\ (0 < a / b)%Qc.
Proof.
  unfold pos_div. cbn [a_div exact]. destruct (Qceqb_spec b 0%Qc); cbn [bind]; [discriminate|].
  intros H. apply pos_unwrap_ok in H. intuition.
Qed.
