(* C10, annual mode: the generated rows - a base purchase per affiliate and one
   1-share sale per (affiliate, year) - rebuild every affiliate's shares and
   cost base at the cut and realise, sale by sale, exactly the net gain of
   the year; then the later rows are reported as by the full history. *)
From Coq Require Import List NArith ZArith QArith Qcanon Bool Lia Sorted.
From ACB Require Import Base.Outcome Base.QcExtra Base.Arith Model.Tx Model.Ledger Model.Sfl
     Model.DeltaList Model.App Model.Summary Proofs.Tactics Proofs.C15Full Proofs.C04Sum
     Proofs.RenderProps Proofs.C01Refine Proofs.SummaryProps Proofs.C10Scan Proofs.C10Sim Proofs.C10Cut Proofs.C10Roundtrip Proofs.C04Inv Proofs.AllAfter.
Import ListNotations.
Local Open Scope Qc_scope.

(* ---------------------------------------------------------------- counting *)
Fixpoint qn (n : nat) : Qc := match n with O => 0 | S m => qn m + 1 end.
Lemma qn_nonneg n : 0 <= qn n.
Proof. induction n; cbn [qn]; qc_lra. Qed.

(* a generated sale: affiliate, date (1 January of the year), per-share cost,
   gain and loss of the year (one of them zero) *)
Record asell : Type := { as_af : aff; as_date : Z; as_aps : Qc; as_gain : Qc; as_loss : Qc }.
Definition asell_tx (like : tx) (s : asell) : tx :=
  mk_tx like (as_date s) (Sell 1 (as_aps s + as_gain s) (as_loss s) 1 1 None) (as_af s).
Fixpoint cnt (id : N) (l : list asell) : nat :=
  match l with
  | [] => O
  | s :: r => if N.eqb (af_id (as_af s)) id then S (cnt id r) else cnt id r
  end.
Lemma cnt_le_length id l : (cnt id l <= length l)%nat.
Proof. induction l as [|s r IH]; cbn [cnt length]; [lia|]. destruct (N.eqb _ _); lia. Qed.
Lemma qn_mono a b : (a <= b)%nat -> qn a <= qn b.
Proof. induction 1; cbn [qn]; [apply Qcle_refl | qc_lra]. Qed.

(* the base purchase of an affiliate: shares at the cut, per-share cost (None:
   registered), number of shares bought = shares + number of its sales *)
Record ahold : Type := { ah_af : aff; ah_sh : Qc; ah_aps : option Qc; ah_n : Qc }.
Definition abuy_tx (like : tx) (d0 : Z) (h : ahold) : tx :=
  mk_tx like d0 (Buy (ah_n h) (match ah_aps h with Some v => v | None => 0 end) 0 1 1) (ah_af h).
Definition ah_ok (h : ahold) : Prop :=
  0 <= ah_sh h /\ 0 < ah_n h
  /\ match ah_aps h with Some v => af_reg (ah_af h) = false /\ 0 <= v | None => af_reg (ah_af h) = true end.
Definition find_ah (hs : list ahold) (af : aff) : option ahold :=
  find (fun h => N.eqb (af_id (ah_af h)) (af_id af)) hs.
(* what is observed of an affiliate holding [x] shares *)
Definition ah_obs (h : ahold) (x : Qc) : Qc * option Qc := (x, option_map (fun v => v * x) (ah_aps h)).
Fixpoint tot_n (hs : list ahold) : Qc := match hs with [] => 0 | h :: r => ah_n h + tot_n r end.
Fixpoint tot_sh (hs : list ahold) : Qc := match hs with [] => 0 | h :: r => ah_sh h + tot_sh r end.

(* ---------------------------------------------------------------- a purchase by an affiliate not seen yet *)
Lemma delta_abuy bef aft st like d0 h :
  fresh st (ah_af h) -> 0 <= ps_all st -> ah_ok h ->
  exists d st',
    delta_for_tx exact bef (abuy_tx like d0 h) aft st = Ok (d, [])
    /\ set_latest exact st (ah_af h) (d_post d) = Ok st'
    /\ (s_sh (d_post d), s_acb (d_post d)) = ah_obs h (ah_n h)
    /\ ps_all st' = ps_all st + ah_n h /\ d_gain d = None.
Proof.
  intros Hf Hall (Hsh & Hn & Ha).
  assert (Hpre : next_pre_status st (ah_af h)
                 = {| s_sh := 0; s_all := ps_all st; s_acb := if af_reg (ah_af h) then None else Some 0 |}).
  { unfold next_pre_status. unfold fresh in Hf. rewrite Hf. unfold default_status. cbn [s_all s_sh s_acb].
    destruct (Qceqb_spec 0 (ps_all st)) as [E|E]; [rewrite <- E|]; reflexivity. }
  unfold delta_for_tx, abuy_tx, mk_tx. cbn [t_af t_act]. rewrite Hpre.
  assert (Hsan : sanity_check {| s_sh := 0; s_all := ps_all st; s_acb := if af_reg (ah_af h) then None else Some 0 |} (ah_af h) = Ok tt).
  { unfold sanity_check. cbn [s_all s_sh s_acb].
    assert (E : Qcltb (ps_all st) 0 = false) by (apply Qcltb_false; exact Hall). rewrite E.
    destruct (af_reg (ah_af h)); reflexivity. }
  rewrite Hsan. cbn [bind]. unfold delta_nonsell. cbn [t_act s_sh s_all s_acb].
  assert (H0s : 0 <= 0 + ah_n h) by qc_lra. assert (Has : 0 <= ps_all st + ah_n h) by qc_lra.
  rewrite (gez_add_ok 0 (ah_n h) H0s). cbn [bind].
  rewrite (all_after_exact_as _ _ _ (ps_all st + ah_n h)) by ring. cbn [bind].
  rewrite (gez_unwrap_nn _ _ Has). cbn [bind].
  unfold fresh in Hf. unfold ah_obs.
  destruct (ah_aps h) as [v|] eqn:Ev.
  - destruct Ha as [Hr Hv]. rewrite Hr. unfold local_value.
    assert (Hm : 0 <= v * ah_n h) by (apply Qcmul_nonneg; qc_lra).
    rewrite (gez_mul_ok v (ah_n h) Hm). cbn [bind].
    rewrite (gez_mul_ok _ 1) by qc_lra. cbn [bind]. rewrite (gez_mul_ok 0 1) by qc_lra. cbn [bind].
    rewrite (gez_add_ok (v * ah_n h * 1) (0 * 1)) by qc_lra. cbn [bind].
    rewrite (gez_add_ok 0 _) by qc_lra. cbn [bind].
    eexists. eexists. split; [reflexivity|].
    unfold mk_delta. cbn [d_post s_sh s_all s_acb].
    unfold set_latest. cbn [t_af]. rewrite Hf. cbn [s_sh].
    rewrite (all_after_exact_as _ _ _ (0 + ah_n h + ps_all st - 0)) by ring.
    cbn [a_add a_sub exact bind s_sh s_all s_acb is_none].
    rewrite Hr. cbn [Bool.eqb negb].
    assert (E2 : Qceqb (ps_all st + ah_n h) (0 + ah_n h + ps_all st - 0) = true) by (apply Qceqb_true; ring).
    rewrite E2. cbn [negb]. split; [reflexivity|]. cbn [ps_all option_map]. split; [|split; [ring|reflexivity]].
    f_equal; [ring|]. f_equal. ring.
  - rewrite Ha. eexists. eexists. split; [reflexivity|].
    unfold mk_delta. cbn [d_post s_sh s_all s_acb].
    unfold set_latest. cbn [t_af]. rewrite Hf. cbn [s_sh].
    rewrite (all_after_exact_as _ _ _ (0 + ah_n h + ps_all st - 0)) by ring.
    cbn [a_add a_sub exact bind s_sh s_all s_acb is_none].
    rewrite Ha. cbn [Bool.eqb negb].
    assert (E2 : Qceqb (ps_all st + ah_n h) (0 + ah_n h + ps_all st - 0) = true) by (apply Qceqb_true; ring).
    rewrite E2. cbn [negb]. split; [reflexivity|]. cbn [ps_all option_map]. split; [|split; [ring|reflexivity]]. f_equal. ring.
Qed.

Definition obs_hs (hs : list ahold) (af : aff) (x : ahold -> Qc) (dflt : Qc * option Qc) : Qc * option Qc :=
  match find_ah hs af with Some h => ah_obs h (x h) | None => dflt end.

Lemma find_ah_none hs af : ~ In (af_id af) (map (fun h => af_id (ah_af h)) hs) -> find_ah hs af = None.
Proof.
  induction hs as [|h hs IH]; intros Hn; [reflexivity|]. cbn [find_ah find].
  destruct (N.eqb_spec (af_id (ah_af h)) (af_id af)) as [E|E].
  - exfalso. apply Hn. left. exact E.
  - apply IH. intros Hin. apply Hn. right. exact Hin.
Qed.

Lemma abuys_part like d0 : forall (hs : list ahold) bef st l2,
  0 <= ps_all st -> lp st = ps_all st ->
  NoDup (map (fun h => af_id (ah_af h)) hs) ->
  Forall (fun h => ah_ok h /\ fresh st (ah_af h)) hs ->
  exists ds st',
    run_part exact bef st (map (abuy_tx like d0) hs) l2 = (ds, rev (map (abuy_tx like d0) hs) ++ bef, st', None)
    /\ ps_all st' = ps_all st + tot_n hs /\ lp st' = ps_all st'
    /\ (forall af, obs st' af = obs_hs hs af ah_n (obs st af))
    /\ Forall (fun d => d_gain d = None) ds.
Proof.
  induction hs as [|h hs IH]; intros bef st l2 Hall Hlp Hnd HF.
  - exists [], st. cbn [map run_part rev app tot_n]. unfold obs_hs. cbn [find_ah find]. repeat split; auto. ring.
  - inversion Hnd as [|? ? Hnin Hnd']; subst. pose proof (Forall_inv HF) as [Hok Hfr].
    pose proof (Forall_inv_tail HF) as HF'.
    destruct (delta_abuy bef (map (abuy_tx like d0) hs ++ l2) st like d0 h Hfr Hall Hok)
      as (d & st1 & E1 & E2 & Eo & Eall & Egn).
    assert (Hall1 : 0 <= ps_all st1) by (rewrite Eall; destruct Hok as (_ & Hn & _); qc_lra).
    assert (HF1 : Forall (fun x => ah_ok x /\ fresh st1 (ah_af x)) hs).
    { apply Forall_forall. intros x Hx. pose proof (proj1 (Forall_forall _ _) HF' x Hx) as [Ho Hf].
      split; [exact Ho|]. unfold fresh, latest_for in *. rewrite (set_latest_map _ _ _ _ E2).
      rewrite alookup_aupdate_other; [exact Hf|].
      intros Eid. apply Hnin. apply in_map_iff. exists x. split; [exact Eid | exact Hx]. }
    destruct (set_latest_all _ _ _ _ E2) as [A1 L1].
    assert (Hlp1 : lp st1 = ps_all st1) by (rewrite A1, L1; reflexivity).
    destruct (IH (abuy_tx like d0 h :: bef) st1 l2 Hall1 Hlp1 Hnd' HF1) as (ds & st' & Hrun & Htot & Hlp' & Hcore & Hg).
    exists (d :: ds), st'. split; [|split; [|split; [|split]]].
    + cbn [map run_part]. rewrite E1. change (t_af (abuy_tx like d0 h)) with (ah_af h). rewrite E2. cbn [run_injected].
      rewrite Hrun. cbn [app rev]. rewrite <- app_assoc. reflexivity.
    + rewrite Htot, Eall. cbn [tot_n]. ring.
    + exact Hlp'.
    + intros af. rewrite (Hcore af). unfold obs_hs. cbn [find_ah find]. fold (find_ah hs af).
      rewrite (obs_set _ _ _ _ af E2).
      destruct (N.eqb_spec (af_id (ah_af h)) (af_id af)) as [E|E].
      * rewrite find_ah_none by (rewrite <- E; exact Hnin). rewrite <- E, N.eqb_refl. exact Eo.
      * destruct (find_ah hs af); [reflexivity|].
        destruct (N.eqb_spec (af_id af) (af_id (ah_af h))) as [E'|_]; [symmetry in E'; contradiction | reflexivity].
    + constructor; [exact Egn | exact Hg].
Qed.

(* ---------------------------------------------------------------- the scans of a generated sale at a loss *)
Definition in_gap (dt : Z) (s : asell) : Prop := as_date s = dt \/ (dt + window_days < as_date s)%Z.
Definition out_after (dt : Z) (X : list tx) : Prop :=
  match X with [] => True | x :: _ => (dt + window_days < t_sd x)%Z end.
Definition akey (s : asell) : N * Z := (af_id (as_af s), as_date s).

Lemma Qc_one_div_one : (1 : Qc) / 1 = 1.
Proof. field. apply Q_apart_0_1. Qed.

Lemma cnt_in y l : In y l -> (1 <= cnt (af_id (as_af y)) l)%nat.
Proof.
  induction l as [|s r IH]; intros H; [destruct H|]. cbn [cnt]. destruct H as [->|H].
  - rewrite N.eqb_refl. lia.
  - destruct (N.eqb _ _); [lia | apply IH; exact H].
Qed.

Lemma fwd_gen like dt dflt X : out_after dt X -> forall rest s,
  Forall (in_gap dt) rest -> NoDup (map akey rest) ->
  (forall x, In x rest -> as_date x = dt -> alookup (af_id (as_af x)) (sc_active s) = None /\ 1 <= dflt (as_af x)) ->
  qn (length rest) <= sc_eop s ->
  exists s', fwd_scan exact (dt + window_days) dflt (map (asell_tx like) rest ++ X) [] s = Ok s'
             /\ sc_acq s' = sc_acq s /\ sc_buyers s' = sc_buyers s.
Proof.
  intros HX. induction rest as [|x rest IH]; intros s Hgap Hnd Hact Heop; cbn [map app].
  - exists s. split; [|split; reflexivity]. destruct X as [|t X]; [reflexivity|]. cbn [fwd_scan].
    cbn [out_after] in HX. apply Z.ltb_lt in HX. rewrite HX. reflexivity.
  - cbn [fwd_scan]. change (t_sd (asell_tx like x)) with (as_date x).
    destruct (Z.ltb (dt + window_days) (as_date x)) eqn:El; [exists s; repeat split|].
    apply Z.ltb_ge in El. apply Forall_cons_iff in Hgap as [Hx Hgap].
    assert (Edt : as_date x = dt) by (destruct Hx as [E|E]; [exact E | lia]).
    apply NoDup_cons_iff in Hnd as [Hni Hnd]. cbn [map] in Hni.
    destruct (Hact x (or_introl eq_refl) Edt) as [Hlook Hd].
    cbn [asell_tx mk_tx t_act t_af]. unfold adj_of. cbn [alookup].
    rewrite (gez_div_ok 1 1); [|apply Q_apart_0_1 | rewrite Qc_one_div_one; qc_lra].
    cbn [bind a_sub exact]. rewrite Qc_one_div_one. cbn [length qn] in Heop.
    pose proof (qn_nonneg (length rest)) as Hq.
    assert (E1 : Qcltb (sc_eop s - 1) 0 = false) by (apply Qcltb_false; qc_lra). rewrite E1.
    rewrite Hlook.
    assert (E2 : Qcltb (dflt (as_af x) - 1) 0 = false) by (apply Qcltb_false; qc_lra). rewrite E2.
    destruct (IH {| sc_eop := sc_eop s - 1; sc_acq := sc_acq s; sc_buyers := sc_buyers s;
                    sc_active := aupdate (af_id (as_af x)) (dflt (as_af x) - 1) (sc_active s) |} Hgap Hnd)
      as (s' & Es' & Ea & Eb).
    + intros y Hy Ey. destruct (Hact y (or_intror Hy) Ey) as [Hl Hdy]. split; [|exact Hdy]. cbn [sc_active].
      rewrite alookup_aupdate_other; [exact Hl|]. intros E. apply Hni. apply in_map_iff. exists y.
      split; [|exact Hy]. unfold akey. rewrite E, Ey, Edt. reflexivity.
    + cbn [sc_eop]. qc_lra.
    + exists s'. split; [exact Es' | split; assumption].
Qed.

(* a generated sale at a loss is not superficial: nothing is acquired within
   30 days of it (the other generated rows in its window are sales of the
   other affiliates on the same 1 January) *)
Lemma sfl_none_gen like bef st (x : asell) rest X dfl :
  (forall af, match latest_for st af with Some s => s_sh s | None => 0 end = dfl af) ->
  lp st = ps_all st -> 1 <= dfl (as_af x) ->
  inert exact (as_date x - window_days) bef ->
  out_after (as_date x) X -> Forall (in_gap (as_date x)) rest -> NoDup (map akey (x :: rest)) ->
  (forall y, In y rest -> 1 <= dfl (as_af y)) ->
  qn (length rest) <= ps_all st - 1 ->
  sfl_info exact bef (asell_tx like x) 1 (map (asell_tx like) rest ++ X) st = Ok None.
Proof.
  intros Hd Hlp H1 Hin HX Hgap Hnd Hdy Heop. unfold sfl_info. fold (lp st). rewrite Hlp.
  cbn [a_sub exact bind]. change (t_af (asell_tx like x)) with (as_af x). change (t_sd (asell_tx like x)) with (as_date x).
  pose proof (qn_nonneg (length rest)) as Hq.
  assert (E1 : Qcltb (ps_all st - 1) 0 = false) by (apply Qcltb_false; qc_lra). rewrite E1.
  rewrite (Hd (as_af x)).
  assert (E2 : Qcltb (dfl (as_af x) - 1) 0 = false) by (apply Qcltb_false; qc_lra). rewrite E2.
  apply NoDup_cons_iff in Hnd as [Hni Hnd].
  destruct (fwd_gen like (as_date x) (fun af => match latest_for st af with Some s => s_sh s | None => 0 end) X HX rest
              {| sc_eop := ps_all st - 1; sc_acq := 0; sc_buyers := [];
                 sc_active := [(af_id (as_af x), dfl (as_af x) - 1)] |} Hgap Hnd) as (s1 & Es1 & Ea & Eb).
  - intros y Hy Ey. split; [|rewrite Hd; apply Hdy; exact Hy]. cbn [sc_active alookup].
    destruct (N.eqb_spec (af_id (as_af y)) (af_id (as_af x))) as [E|_]; [|reflexivity].
    exfalso. apply Hni. apply in_map_iff. exists y. split; [|exact Hy]. unfold akey. rewrite E, Ey. reflexivity.
  - cbn [sc_eop]. exact Heop.
  - rewrite Es1. cbn [bind]. destruct (negb (Qcltb 0 (sc_eop s1))); [reflexivity|].
    rewrite (Hin _ [] s1). cbn [bind]. rewrite Ea. cbn [sc_acq].
    assert (E0 : Qcltb 0 0 = false) by (apply Qcltb_false; qc_lra). rewrite E0. reflexivity.
Qed.

(* one generated sale *)
Lemma asell_step like bef aft st (x : asell) shx :
  obs st (as_af x) = (shx, Some (as_aps x * shx)) -> 1 <= shx -> shx <= ps_all st ->
  af_reg (as_af x) = false -> 0 <= as_aps x -> 0 <= as_gain x -> 0 <= as_loss x ->
  (as_gain x - as_loss x < 0 -> sfl_info exact bef (asell_tx like x) 1 aft st = Ok None) ->
  exists d st',
    delta_for_tx exact bef (asell_tx like x) aft st = Ok (d, [])
    /\ set_latest exact st (as_af x) (d_post d) = Ok st'
    /\ d_gain d = Some (as_gain x - as_loss x) /\ d_sfl d = None
    /\ (s_sh (d_post d), s_acb (d_post d)) = (shx - 1, Some (as_aps x * (shx - 1)))
    /\ ps_all st' = ps_all st - 1.
Proof.
  intros Hobs H1 Hle Hreg Ha Hg Hl Hsfl.
  unfold delta_for_tx. change (t_af (asell_tx like x)) with (as_af x).
  rewrite next_pre_obs, Hobs. cbn [fst snd].
  set (pre := {| s_sh := shx; s_all := ps_all st; s_acb := Some (as_aps x * shx) |}).
  assert (Hsan : sanity_check pre (as_af x) = Ok tt).
  { unfold sanity_check, pre. cbn [s_all s_sh s_acb]. assert (E : Qcltb (ps_all st) shx = false) by (apply Qcltb_false; exact Hle).
    rewrite E, Hreg. reflexivity. }
  rewrite Hsan. cbn [bind asell_tx mk_tx t_act].
  assert (H1a : 1 <= s_all pre) by (unfold pre; cbn [s_all]; qc_lra).
  rewrite (annual_sale_identity pre (as_aps x) (as_gain x) (as_loss x) H1 H1a eq_refl Ha Hg Hl).
  cbn [bind sc_gain sc_sh sc_all sc_acb].
  assert (Eset : forall v, s_sh v = shx - 1 -> s_all v = ps_all st - 1 -> s_acb v <> None ->
            exists st', set_latest exact st (as_af x) v = Ok st' /\ ps_all st' = ps_all st - 1).
  { intros v Ev1 Ev2 Ev3. unfold set_latest. rewrite obs_fst, Hobs. cbn [fst].
    rewrite (all_after_exact_as _ _ _ (s_sh v + ps_all st - shx)) by ring. cbn [bind].
    rewrite Hreg. destruct (s_acb v); [|contradiction]. cbn [is_none Bool.eqb negb].
    assert (E : Qceqb (s_all v) (s_sh v + ps_all st - shx) = true) by (apply Qceqb_true; rewrite Ev1, Ev2; ring).
    rewrite E. cbn [negb]. eexists. split; [reflexivity|]. cbn [ps_all]. exact Ev2. }
  destruct (Qcltb_spec (as_gain x - as_loss x) 0) as [Hneg|Hpos].
  - unfold delta_sfl. change (mk_tx like (as_date x) (Sell 1 (as_aps x + as_gain x) (as_loss x) 1 1 None) (as_af x))
      with (asell_tx like x). rewrite (Hsfl Hneg). cbn [bind sfl_ratio].
    destruct (Eset {| s_sh := s_sh pre - 1; s_all := s_all pre - 1; s_acb := Some ((s_sh pre - 1) * as_aps x) |}
                eq_refl eq_refl ltac:(discriminate)) as (st' & Es & Ep).
    eexists. exists st'. split; [reflexivity|]. cbn [mk_delta d_post d_gain d_sfl s_sh s_acb].
    split; [exact Es|]. split; [reflexivity|]. split; [reflexivity|]. split; [|exact Ep].
    unfold pre. cbn [s_sh]. f_equal. f_equal. ring.
  - destruct (Eset {| s_sh := s_sh pre - 1; s_all := s_all pre - 1; s_acb := Some ((s_sh pre - 1) * as_aps x) |}
                eq_refl eq_refl ltac:(discriminate)) as (st' & Es & Ep).
    eexists. exists st'. split; [reflexivity|]. cbn [mk_delta d_post d_gain d_sfl s_sh s_acb].
    split; [exact Es|]. split; [reflexivity|]. split; [reflexivity|]. split; [|exact Ep].
    unfold pre. cbn [s_sh]. f_equal. f_equal. ring.
Qed.

(* ---------------------------------------------------------------- all generated sales *)
Lemma tot_sh_nonneg0 l : Forall ah_ok l -> 0 <= tot_sh l.
Proof. induction 1 as [|z l (Hz & _) Hl IH]; cbn [tot_sh]; qc_lra. Qed.
Lemma sh_le_tot0 l : Forall ah_ok l -> forall h, In h l -> ah_sh h <= tot_sh l.
Proof.
  induction 1 as [|y l Hy Hl IH]; intros h Hin; [destruct Hin|]. cbn [tot_sh].
  pose proof (tot_sh_nonneg0 l Hl) as Hnn. destruct Hy as (Hy & _).
  destruct Hin as [->|Hin]; [qc_lra|]. specialize (IH h Hin). qc_lra.
Qed.

Section Sells.
  Variable like : tx.
  Variable hs : list ahold.
  Variable X : list tx.
  Hypothesis Hnd : NoDup (map (fun h => af_id (ah_af h)) hs).
  Hypothesis Hok : Forall ah_ok hs.

  (* a sale belongs to a holding with its per-share cost *)
  Definition sell_ok (s : asell) : Prop :=
    (exists h, find_ah hs (as_af s) = Some h /\ ah_aps h = Some (as_aps s))
    /\ af_reg (as_af s) = false /\ 0 <= as_gain s /\ 0 <= as_loss s
    /\ (as_gain s - as_loss s < 0 -> out_after (as_date s) X).

  Lemma find_ah_in af h : find_ah hs af = Some h -> In h hs /\ af_id (ah_af h) = af_id af.
  Proof. intros H. apply find_some in H as [Hin E]. apply N.eqb_eq in E. split; assumption. Qed.

  Lemma sh_le_tot h : In h hs -> ah_sh h <= tot_sh hs.
  Proof. apply sh_le_tot0. exact Hok. Qed.
  Lemma tot_sh_nonneg : 0 <= tot_sh hs.
  Proof. apply tot_sh_nonneg0. exact Hok. Qed.

  Definition inv_obs (st : pstate) (rest : list asell) : Prop :=
    forall af, obs st af = obs_hs hs af (fun h => ah_sh h + qn (cnt (af_id (ah_af h)) rest)) (obs st0 af).

  Lemma asells_part : forall rest SL B0 st,
    Forall (fun t => is_sell (t_act t) = true) SL ->
    Forall sell_ok rest ->
    StronglySorted (fun a b => in_gap (as_date a) b) rest -> NoDup (map akey rest) ->
    Forall (fun s => inert exact (as_date s - window_days) B0) rest ->
    ps_all st = tot_sh hs + qn (length rest) -> lp st = ps_all st -> inv_obs st rest ->
    exists ds st',
      run_part exact (SL ++ B0) st (map (asell_tx like) rest) X
      = (ds, rev (map (asell_tx like) rest) ++ SL ++ B0, st', None)
      /\ ps_all st' = tot_sh hs /\ lp st' = ps_all st' /\ inv_obs st' []
      /\ map d_gain ds = map (fun s => Some (as_gain s - as_loss s)) rest
      /\ Forall (fun d => d_sfl d = None) ds.
  Proof.
    induction rest as [|x rest IH]; intros SL B0 st HS Hso Hsort Hndk Hin Hall Hlp Hinv.
    - exists [], st. cbn [map run_part rev app length qn] in *. repeat split; auto. rewrite Hall. ring.
    - apply Forall_cons_iff in Hso as [Hx Hso]. apply StronglySorted_inv in Hsort as [Hsort Hgap].
      apply Forall_cons_iff in Hin as [Hinx Hin].
      destruct Hx as ((h & Hfh & Haps) & Hreg & Hg & Hl & HX).
      destruct (find_ah_in _ _ Hfh) as [Hhin Hid].
      pose proof (proj1 (Forall_forall _ _) Hok h Hhin) as (Hsh & Hn & Hapsok). rewrite Haps in Hapsok.
      destruct Hapsok as [_ Hapsnn].
      set (c := cnt (af_id (ah_af h)) rest).
      assert (Ecnt : cnt (af_id (ah_af h)) (x :: rest) = S c).
      { cbn [cnt]. rewrite <- Hid, N.eqb_refl. reflexivity. }
      set (shx := ah_sh h + (qn c + 1)).
      assert (Hobsx : obs st (as_af x) = (shx, Some (as_aps x * shx))).
      { rewrite (Hinv (as_af x)). unfold obs_hs. rewrite Hfh, Ecnt. unfold ah_obs. rewrite Haps. reflexivity. }
      pose proof (qn_nonneg c) as Hqc. pose proof (qn_nonneg (length rest)) as Hql.
      assert (Hcl : qn c <= qn (length rest)) by (apply qn_mono, cnt_le_length).
      pose proof (sh_le_tot h Hhin) as Hshtot. pose proof tot_sh_nonneg as Htot0.
      cbn [length qn] in Hall.
      assert (H1 : 1 <= shx) by (unfold shx; qc_lra).
      assert (Hle : shx <= ps_all st) by (unfold shx; rewrite Hall; qc_lra).
      assert (Hdfl : forall y, In y rest -> 1 <= fst (obs st (as_af y))).
      { intros y Hy. rewrite (Hinv (as_af y)). unfold obs_hs.
        pose proof (proj1 (Forall_forall _ _) Hso y Hy) as ((hy & Hfy & _) & _). rewrite Hfy. cbn [ah_obs fst].
        destruct (find_ah_in _ _ Hfy) as [Hyin Hyid].
        pose proof (proj1 (Forall_forall _ _) Hok hy Hyin) as (Hshy & _).
        assert (Hc1 : (1 <= cnt (af_id (ah_af hy)) (x :: rest))%nat).
        { rewrite Hyid. cbn [cnt]. destruct (N.eqb _ _); [lia | apply cnt_in; exact Hy]. }
        pose proof (qn_mono _ _ Hc1) as Hq1. cbn [qn] in Hq1. qc_lra. }
      assert (Hsfl : as_gain x - as_loss x < 0 ->
                sfl_info exact (SL ++ B0) (asell_tx like x) 1 (map (asell_tx like) rest ++ X) st = Ok None).
      { intros Hneg. apply (sfl_none_gen like (SL ++ B0) st x rest X (fun af => fst (obs st af))).
        - intros af. apply obs_fst.
        - exact Hlp.
        - rewrite Hobsx. exact H1.
        - apply sells_inert; [exact HS | exact Hinx].
        - exact (HX Hneg).
        - exact Hgap.
        - exact Hndk.
        - exact Hdfl.
        - rewrite Hall. qc_lra. }
      destruct (asell_step like (SL ++ B0) (map (asell_tx like) rest ++ X) st x shx Hobsx H1 Hle Hreg Hapsnn Hg Hl Hsfl)
        as (d & st1 & Ed & Es & Egain & Esfl & Epost & Eall).
      destruct (set_latest_all _ _ _ _ Es) as [A1 L1].
      apply NoDup_cons_iff in Hndk as [_ Hndk'].
      assert (Hinv1 : inv_obs st1 rest).
      { intros af. rewrite (obs_set _ _ _ _ af Es). unfold obs_hs.
        destruct (N.eqb_spec (af_id af) (af_id (as_af x))) as [E|E].
        - assert (Ef : find_ah hs af = Some h) by (unfold find_ah in *; rewrite E; exact Hfh).
          rewrite Ef. unfold ah_obs. rewrite Haps. cbn [option_map]. rewrite Epost. fold c. unfold shx.
          f_equal; [ring|]. f_equal. ring.
        - rewrite (Hinv af). unfold obs_hs. destruct (find_ah hs af) as [h2|] eqn:Ef2; [|reflexivity].
          destruct (find_ah_in _ _ Ef2) as [_ Hid2]. cbn [cnt].
          destruct (N.eqb_spec (af_id (as_af x)) (af_id (ah_af h2))) as [E'|_]; [|reflexivity].
          exfalso. apply E. rewrite <- Hid2, <- E'. reflexivity. }
      assert (HS' : Forall (fun t => is_sell (t_act t) = true) (asell_tx like x :: SL)) by (constructor; [reflexivity | exact HS]).
      destruct (IH (asell_tx like x :: SL) B0 st1 HS' Hso Hsort Hndk' Hin
                  ltac:(rewrite Eall, Hall; ring) ltac:(rewrite A1, L1; reflexivity) Hinv1)
        as (ds & st' & Erun & Etot & Elp & Einv & Egs & Esf).
      exists (d :: ds), st'. split; [|split; [exact Etot|split; [exact Elp|split; [exact Einv|split]]]].
      + cbn [map run_part]. rewrite Ed. change (t_af (asell_tx like x)) with (as_af x). rewrite Es. cbn [run_injected].
        cbn [app] in Erun. rewrite Erun. cbn [rev]. rewrite <- app_assoc. reflexivity.
      + cbn [map]. rewrite Egain, Egs. reflexivity.
      + constructor; assumption.
  Qed.
End Sells.

(* ---------------------------------------------------------------- counting the sales over the holdings *)
Fixpoint tot_c (hs : list ahold) (l : list asell) : Qc :=
  match hs with [] => 0 | h :: r => qn (cnt (af_id (ah_af h)) l) + tot_c r l end.
Lemma tot_c_nomatch hs s r : ~ In (af_id (as_af s)) (map (fun h => af_id (ah_af h)) hs) -> tot_c hs (s :: r) = tot_c hs r.
Proof.
  induction hs as [|h hs IH]; intros Hn; [reflexivity|]. cbn [tot_c cnt].
  destruct (N.eqb_spec (af_id (as_af s)) (af_id (ah_af h))) as [E|_].
  - exfalso. apply Hn. left. symmetry. exact E.
  - rewrite IH; [reflexivity|]. intros Hc. apply Hn. right. exact Hc.
Qed.
Lemma tot_c_cons hs s r : NoDup (map (fun h => af_id (ah_af h)) hs) ->
  In (af_id (as_af s)) (map (fun h => af_id (ah_af h)) hs) -> tot_c hs (s :: r) = tot_c hs r + 1.
Proof.
  induction hs as [|h hs IH]; intros Hnd Hin; [destruct Hin|].
  apply NoDup_cons_iff in Hnd as [Hni Hnd]. cbn [tot_c cnt].
  destruct (N.eqb_spec (af_id (as_af s)) (af_id (ah_af h))) as [E|E].
  - rewrite tot_c_nomatch by (rewrite E; exact Hni). cbn [qn]. ring.
  - destruct Hin as [Hin|Hin]; [exfalso; apply E; symmetry; exact Hin|]. rewrite (IH Hnd Hin). ring.
Qed.
Lemma tot_c_length hs l : NoDup (map (fun h => af_id (ah_af h)) hs) ->
  Forall (fun s => In (af_id (as_af s)) (map (fun h => af_id (ah_af h)) hs)) l -> tot_c hs l = qn (length l).
Proof.
  intros Hnd. induction 1 as [|s r Hs Hr IH]; cbn [length qn].
  - clear. induction hs as [|h hs IH]; cbn [tot_c cnt qn]; [reflexivity|]. rewrite IH. ring.
  - rewrite (tot_c_cons hs s r Hnd Hs), IH. reflexivity.
Qed.
Lemma tot_n_split hs l : (forall h, In h hs -> ah_n h = ah_sh h + qn (cnt (af_id (ah_af h)) l)) ->
  tot_n hs = tot_sh hs + tot_c hs l.
Proof.
  induction hs as [|h hs IH]; intros H; cbn [tot_n tot_sh tot_c]; [ring|].
  rewrite (H h (or_introl eq_refl)), IH by (intros x Hx; apply H; right; exact Hx). ring.
Qed.

(* ---------------------------------------------------------------- the generated rows of the annual mode, run from nothing *)
Theorem annual_rebuild like d0 (hs : list ahold) (sells : list asell) X :
  NoDup (map (fun h => af_id (ah_af h)) hs) -> Forall ah_ok hs ->
  (forall h, In h hs -> ah_n h = ah_sh h + qn (cnt (af_id (ah_af h)) sells)) ->
  Forall (sell_ok hs X) sells ->
  StronglySorted (fun a b => in_gap (as_date a) b) sells -> NoDup (map akey sells) ->
  Forall (fun s => (d0 < as_date s - window_days)%Z) sells ->
  exists dsB dsS stG,
    run_part exact [] st0 (map (abuy_tx like d0) hs ++ map (asell_tx like) sells) X
    = (dsB ++ dsS, rev (map (asell_tx like) sells) ++ rev (map (abuy_tx like d0) hs), stG, None)
    /\ ps_all stG = tot_sh hs /\ lp stG = ps_all stG
    /\ (forall af, obs stG af = obs_hs hs af ah_sh (obs st0 af))
    /\ Forall (fun d => d_gain d = None) dsB
    /\ map d_gain dsS = map (fun s => Some (as_gain s - as_loss s)) sells
    /\ Forall (fun d => d_sfl d = None) dsS.
Proof.
  intros Hnd Hok Hn Hso Hsort Hndk Hd0.
  assert (HF0 : Forall (fun h => ah_ok h /\ fresh st0 (ah_af h)) hs).
  { apply Forall_forall. intros x Hx. split; [apply (proj1 (Forall_forall _ _) Hok x Hx) | reflexivity]. }
  destruct (abuys_part like d0 hs [] st0 (map (asell_tx like) sells ++ X) ltac:(cbn; qc_lra) eq_refl Hnd HF0)
    as (dsB & stB & HB & HtotB & HlpB & HobsB & HgB).
  assert (Hids : Forall (fun s => In (af_id (as_af s)) (map (fun h => af_id (ah_af h)) hs)) sells).
  { eapply Forall_impl; [|exact Hso]. intros s ((h & Hf & _) & _). apply find_some in Hf as [Hin E]. apply N.eqb_eq in E.
    apply in_map_iff. exists h. split; [exact E | exact Hin]. }
  assert (HallB : ps_all stB = tot_sh hs + qn (length sells)).
  { rewrite HtotB, (tot_n_split hs sells Hn), (tot_c_length hs sells Hnd Hids). cbn [ps_all st0]. ring. }
  assert (HinvB : inv_obs hs stB sells).
  { intros af. rewrite (HobsB af). unfold obs_hs. destruct (find_ah hs af) as [h|] eqn:Ef; [|reflexivity].
    apply find_some in Ef as [Hin _]. rewrite (Hn h Hin). reflexivity. }
  assert (Hin : Forall (fun s => inert exact (as_date s - window_days) (rev (map (abuy_tx like d0) hs) ++ [])) sells).
  { eapply Forall_impl; [|exact Hd0]. intros s Hs. cbv beta in Hs. apply all_before_inert. rewrite app_nil_r.
    apply Forall_rev. apply Forall_map. apply Forall_forall. intros h _. exact Hs. }
  destruct (asells_part like hs X Hok sells [] _ stB (Forall_nil _) Hso Hsort Hndk Hin HallB HlpB HinvB)
    as (dsS & stG & HS & Htot & Hlp & Hinv & Hg & Hsf).
  exists dsB, dsS, stG. split; [|split; [exact Htot|split; [exact Hlp|split; [|split; [exact HgB|split; assumption]]]]].
  - rewrite run_part_app, HB. cbn [app] in HS. rewrite HS. rewrite app_nil_r. reflexivity.
  - intros af. rewrite (Hinv af). unfold obs_hs. destruct (find_ah hs af); [|reflexivity]. cbn [cnt qn].
    unfold ah_obs. f_equal; [ring|]. destruct (ah_aps a); [|reflexivity]. cbn [option_map]. f_equal. ring.
Qed.

(* ---------------------------------------------------------------- ... followed by the later rows *)
Theorem roundtrip_annual_run regof like d0 (hs : list ahold) (sells : list asell) T B1 st1 dsT :
  NoDup (map (fun h => af_id (ah_af h)) hs) -> Forall ah_ok hs ->
  (forall h, In h hs -> ah_n h = ah_sh h + qn (cnt (af_id (ah_af h)) sells)) ->
  Forall (sell_ok hs T) sells ->
  StronglySorted (fun a b => in_gap (as_date a) b) sells -> NoDup (map akey sells) ->
  Forall (fun s => (d0 < as_date s - window_days)%Z) sells ->
  ps_all st1 = tot_sh hs -> lp st1 = ps_all st1 ->
  (forall af, goodaf regof af -> obs st1 af = obs_hs hs af ah_sh (0, if af_reg af then None else Some 0)) ->
  run_loop exact B1 st1 T = (dsT, None) -> Forall spec_nz T -> st_ok st1 -> Forall sell_pos T ->
  Forall (gooddelta regof) dsT ->
  Forall (fun d => (d_sfl d <> None -> inert exact (d_sd d - window_days) B1)
                   /\ ((d_sfl d <> None \/ loss_row d) -> (d0 < d_sd d - window_days)%Z)) dsT ->
  exists dsB dsS,
    run exact None (map (abuy_tx like d0) hs ++ map (asell_tx like) sells ++ T) = (dsB ++ dsS ++ dsT, None)
    /\ Forall (fun d => d_gain d = None) dsB
    /\ map d_gain dsS = map (fun s => Some (as_gain s - as_loss s)) sells
    /\ Forall (fun d => d_sfl d = None) dsS.
Proof.
  intros Hnd Hok Hn Hso Hsort Hndk Hd0 Htot1 Hlp1 Hobs1 HT Hnz Hok1 HspT HG HW.
  destruct (annual_rebuild like d0 hs sells T Hnd Hok Hn Hso Hsort Hndk Hd0)
    as (dsB & dsS & stG & Hrun & Htot & Hlp & Hobs & HgB & Hg & Hsf).
  set (B2 := rev (map (asell_tx like) sells) ++ rev (map (abuy_tx like d0) hs)) in *.
  assert (Hgood : forall af, goodaf regof af -> obs st1 af = obs stG af).
  { intros af Hga. rewrite (Hobs1 af Hga), (Hobs af). reflexivity. }
  assert (HR : srel regof st1 stG).
  { split; [|split; [|split]].
    - rewrite Htot, Htot1. reflexivity.
    - rewrite Hlp1, Hlp, Htot, Htot1. reflexivity.
    - intros af. set (af' := {| af_id := af_id af; af_reg := regof (af_id af); af_dflt := af_dflt af |}).
      assert (Hga : goodaf regof af') by reflexivity.
      rewrite (obs_fst_id st1 af af' eq_refl), (obs_fst_id stG af af' eq_refl), (Hgood af' Hga). reflexivity.
    - intros af Hga. rewrite (Hgood af Hga). reflexivity. }
  assert (HB2 : forall first, (d0 < first)%Z -> inert exact first B2).
  { intros first Hf. unfold B2. apply sells_inert.
    - apply Forall_rev. apply Forall_map. apply Forall_forall. intros s _. reflexivity.
    - apply all_before_inert. apply Forall_rev. apply Forall_map. apply Forall_forall. intros h _. exact Hf. }
  assert (HWc : Forall (wcond B1 B2) dsT).
  { eapply Forall_impl; [|exact HW]. intros d [H1 H2]. split.
    - intros Hs. split; [apply H1; exact Hs | apply HB2; apply H2; left; exact Hs].
    - intros _ Hl. apply HB2. apply H2. right. exact Hl. }
  pose proof (later_sim B1 B2 regof T [] [] st1 stG dsT (Forall2_nil _) HR Hnz Hok1 HspT HT HWc HG) as ET.
  exists dsB, dsS. split; [|split; [exact HgB|split; assumption]].
  rewrite run_None. fold st0. rewrite app_assoc, run_loop_app, Hrun. cbn [app] in ET. rewrite ET.
  rewrite <- app_assoc. reflexivity.
Qed.

(* ---------------------------------------------------------------- a concrete history (non-vacuity)
   2019: default buys 50 @ $20, the spouse 20 @ $10; default sells 10 @ $25
   (gain 50); 2020: default sells 10 @ $15 (loss 50), the spouse 5 @ $12
   (gain 10); -- 2020-06-01 --; default sells 5 @ $18 (loss, superficial: buys
   2 @ $19 ten days later) *)
Local Open Scope Z_scope.
Definition an_P : list tx :=
  [wrow 0 737120 (wbuy 50 20) default_aff; wrow 1 737130 (wbuy 20 10) spouse_aff;
   wrow 2 737220 (wsell 10 25) default_aff; wrow 3 737460 (wsell 10 15) default_aff;
   wrow 4 737470 (wsell 5 12) spouse_aff].
Definition an_T : list tx := [wrow 5 737680 (wsell 5 18) default_aff; wrow 6 737690 (wbuy 2 19) default_aff].
Definition an_date : Z := 737577.
Definition an_rows : list tx := an_P ++ an_T.
Definition an_like : tx := wrow 0 0 (wbuy 1 1) default_aff.
Definition an_d0 : Z := 736695.   (* 2018-01-01 *)
Definition an_hs : list ahold :=
  [{| ah_af := default_aff; ah_sh := wq 30 1; ah_aps := Some (wq 20 1); ah_n := wq 32 1 |};
   {| ah_af := spouse_aff; ah_sh := wq 15 1; ah_aps := Some (wq 10 1); ah_n := wq 16 1 |}].
Definition an_sells : list asell :=
  [{| as_af := default_aff; as_date := 737060; as_aps := wq 20 1; as_gain := wq 50 1; as_loss := wq 0 1 |};
   {| as_af := default_aff; as_date := 737425; as_aps := wq 20 1; as_gain := wq 0 1; as_loss := wq 50 1 |};
   {| as_af := spouse_aff; as_date := 737425; as_aps := wq 10 1; as_gain := wq 10 1; as_loss := wq 0 1 |}].
Definition an_runP := run_part exact [] st0 an_P an_T.
Definition an_B1 := snd (fst (fst an_runP)).
Definition an_st1 := snd (fst an_runP).
Definition an_dsT := fst (run_loop exact an_B1 an_st1 an_T).
Definition no_reg0 : N -> bool := fun _ => false.

(* rows equal up to the representation of the numbers *)
Definition act_eqb (a b : action) : bool :=
  match a, b with
  | Buy s p c r cr, Buy s' p' c' r' cr' => Qceqb s s' && Qceqb p p' && Qceqb c c' && Qceqb r r' && Qceqb cr cr'
  | Sell s p c r cr None, Sell s' p' c' r' cr' None =>
      Qceqb s s' && Qceqb p p' && Qceqb c c' && Qceqb r r' && Qceqb cr cr'
  | _, _ => false
  end.
Definition tx_eqb (t u : tx) : bool :=
  (t_sd t =? t_sd u) && (t_td t =? t_td u) && N.eqb (t_sec t) (t_sec u) && N.eqb (af_id (t_af t)) (af_id (t_af u))
  && Bool.eqb (t_glob t) (t_glob u) && act_eqb (t_act t) (t_act u).
Fixpoint txs_eqb (a b : list tx) : bool :=
  match a, b with [], [] => true | x :: a', y :: b' => tx_eqb x y && txs_eqb a' b' | _, _ => false end.

Lemma an_hypotheses :
  (* the rows the model generates are the abstract rows *)
  match make_summary exact an_date (fst (sec_run exact an_rows)) true with
  | Ok sums => txs_eqb sums (map (abuy_tx an_like an_d0) an_hs ++ map (asell_tx an_like) an_sells)
  | _ => false
  end = true
  /\ NoDup (map (fun h => af_id (ah_af h)) an_hs) /\ Forall ah_ok an_hs
  /\ (forall h, In h an_hs -> ah_n h = (ah_sh h + qn (cnt (af_id (ah_af h)) an_sells))%Qc)
  /\ Forall (sell_ok an_hs an_T) an_sells
  /\ StronglySorted (fun a b => in_gap (as_date a) b) an_sells /\ NoDup (map akey an_sells)
  /\ Forall (fun s => an_d0 < as_date s - window_days) an_sells
  /\ snd an_runP = None
  /\ ps_all an_st1 = tot_sh an_hs /\ lp an_st1 = ps_all an_st1
  /\ (forall af, goodaf no_reg0 af ->
        obs an_st1 af = obs_hs an_hs af ah_sh (Q2Qc 0, if af_reg af then None else Some (Q2Qc 0)))
  /\ run_loop exact an_B1 an_st1 an_T = (an_dsT, None) /\ Forall spec_nz an_T
  /\ st_ok an_st1 /\ Forall sell_pos an_T /\ Forall (gooddelta no_reg0) an_dsT
  /\ Forall (fun d => (d_sfl d <> None -> inert exact (d_sd d - window_days) an_B1)
                     /\ ((d_sfl d <> None \/ loss_row d) -> an_d0 < d_sd d - window_days)) an_dsT
  /\ existsb is_sfl_delta an_dsT = true
  /\ roundtrip_ok exact an_date true an_rows = true
  /\ K_annual_sell_in_window exact an_date true an_rows = false.
Proof.
  split; [vm_compute; reflexivity|].
  split. { repeat constructor; cbn; intuition discriminate. }
  split. { repeat constructor; vm_compute; reflexivity || discriminate. }
  split. { intros h [<-|[<-|[]]]; vm_compute; reflexivity. }
  split. { repeat constructor; try (eexists; split; vm_compute; reflexivity); try (vm_compute; reflexivity || discriminate);
           try (intros H; vm_compute in H; discriminate H); try (intros _; vm_compute; reflexivity). }
  split. { repeat constructor; unfold in_gap, window_days; cbn; lia. }
  split. { repeat constructor; cbn; intuition discriminate. }
  split. { repeat constructor; unfold window_days; cbn; lia. }
  split; [vm_compute; reflexivity|]. split; [vm_compute; reflexivity|]. split; [vm_compute; reflexivity|].
  split. { intros af _. unfold obs, obs_hs, find_ah, latest_for.
           set (m := ps_map an_st1). vm_compute in m. subst m. cbn [an_hs find ah_af af_id default_aff spouse_aff alookup].
           change default_id with 1000%N.
           destruct (N.eqb_spec (af_id af) 1000) as [E|E].
           - rewrite E. vm_compute. reflexivity.
           - destruct (N.eqb_spec 1000 (af_id af)) as [E'|_]; [congruence|].
             destruct (N.eqb_spec (af_id af) 1003) as [E2|E2].
             + rewrite E2. vm_compute. reflexivity.
             + destruct (N.eqb_spec 1003 (af_id af)); [congruence | reflexivity]. }
  split; [vm_compute; reflexivity|].
  split. { repeat constructor. }
  split. { apply (run_part_ok an_P [] st0 an_T (fst (fst (fst an_runP))) an_B1 an_st1).
           - vm_compute. reflexivity.
           - split; cbn; [constructor | apply Qcle_refl]. }
  split. { repeat constructor; vm_compute; reflexivity. }
  split. { vm_compute. repeat constructor. }
  split. { vm_compute. repeat constructor; try (intros; reflexivity). }
  split; [vm_compute; reflexivity|]. split; vm_compute; reflexivity.
Qed.

(* ---------------------------------------------------------------- the rows annual_summary generates for one affiliate *)
Lemma QcZ_succ z : QcZ (z + 1) = (QcZ z + 1)%Qc.
Proof. apply Qc_is_canon. unfold QcZ, Qcplus, Q2Qc. cbn [this]. rewrite !Qred_correct. unfold inject_Z, Qplus, Qeq. cbn. lia. Qed.
Local Open Scope Qc_scope.
Lemma qn_QcZ k : qn k = QcZ (Z.of_nat k).
Proof.
  induction k as [|k IH]; [apply Qc_is_canon; reflexivity|]. cbn [qn]. rewrite IH, Nat2Z.inj_succ, <- Z.add_1_r, QcZ_succ. reflexivity.
Qed.

(* gain and loss of a year with net gain g *)
Definition gl_of (g : Qc) : Qc * Qc := if Qcltb g 0 then (0, g * -(1)) else (g, 0).
Definition ysell (af : aff) (aps : Qc) (yg : Z * Qc) : asell :=
  {| as_af := af; as_date := jan1 (fst yg); as_aps := aps; as_gain := fst (gl_of (snd yg)); as_loss := snd (gl_of (snd yg)) |}.
Lemma gl_of_nonneg g : 0 <= fst (gl_of g) /\ 0 <= snd (gl_of g) /\ fst (gl_of g) - snd (gl_of g) = g.
Proof.
  unfold gl_of. destruct (Qcltb_spec g 0) as [H|H]; cbn [fst snd]; repeat split; try qc_lra; ring.
Qed.

Lemma year_sells_exact like af aps ys : 0 <= aps ->
  year_sells exact like af (Some aps) ys = Ok (map (fun yg => asell_tx like (ysell af aps yg)) ys).
Proof.
  intros Ha. induction ys as [|[y g] ys IH]; cbn [year_sells map]; [reflexivity|].
  destruct (gl_of_nonneg g) as (H1 & H2 & _). unfold ysell, gl_of in *. cbn [fst snd] in *.
  destruct (Qcltb g 0); cbn [fst snd a_mul exact bind] in *.
  - rewrite (gez_unwrap_intro _ _ H2). cbn [bind fst snd]. rewrite (gez_add_ok aps 0) by qc_lra. cbn [bind].
    rewrite IH. reflexivity.
  - rewrite (gez_unwrap_intro _ _ H1). cbn [bind fst snd]. rewrite (gez_add_ok aps g) by qc_lra. cbn [bind].
    rewrite IH. reflexivity.
Qed.

(* make_annual_gains_summary_txs for an affiliate that is not registered: the
   base purchase of (shares + number of gain years) at the per-share cost on
   1 January of the year before the first, one sale per gain year *)
Theorem annual_summary_rows af fy ds d ys0 c :
  af_reg af = false -> yearly_gains exact af ds [] = Ok ys0 ->
  s_acb (d_post d) = Some c -> 0 <= c -> 0 <= s_sh (d_post d) ->
  let ys := sort_years ys0 in
  let aps := if Qcltb 0 (s_sh (d_post d)) then c / s_sh (d_post d) else 0 in
  let h := {| ah_af := af; ah_sh := s_sh (d_post d); ah_aps := Some aps;
              ah_n := s_sh (d_post d) + qn (length ys) |} in
  annual_summary exact af fy ds d
  = Ok ((if Qcltb 0 (ah_n h) then [abuy_tx (d_tx d) (jan1 (fy - 1)) h] else [])
        ++ map (fun yg => asell_tx (d_tx d) (ysell af aps yg)) ys).
Proof.
  intros Hreg Hy Hacb Hc Hsh ys aps h. unfold annual_summary. rewrite Hreg, Hy. cbn [bind]. fold ys. rewrite Hacb.
  assert (Haps : 0 <= aps).
  { unfold aps. destruct (Qcltb_spec 0 (s_sh (d_post d))) as [Hp|_]; [apply Qcdiv_nonneg; assumption | qc_lra]. }
  assert (Ebase : (if Qcltb 0 (s_sh (d_post d)) then v <- gez_div exact c (s_sh (d_post d));; Ok (Some v) else Ok (Some 0))
                  = Ok (Some aps)).
  { unfold aps. destruct (Qcltb_spec 0 (s_sh (d_post d))) as [Hp|_]; [|reflexivity].
    rewrite gez_div_ok; [reflexivity | apply Qclt_not_eq'; exact Hp | apply Qcdiv_nonneg; assumption]. }
  rewrite Ebase. cbn [bind]. pose proof (qn_nonneg (length ys)) as Hq.
  rewrite <- qn_QcZ. rewrite (gez_add_ok (s_sh (d_post d)) (qn (length ys))) by qc_lra. cbn [bind].
  rewrite (year_sells_exact (d_tx d) af aps ys Haps). cbn [bind]. reflexivity.
Qed.
