(* C10 after the fix "treat a superficial loss that rounds to zero effective
   cents as no superficial loss": a sale at a loss may now carry no
   superficial loss although its scans found one (the denied amount rounded to
   zero effective cents).  The re-run of the round trip sees at most the
   acquisitions the full history saw; its denied amount is then at most as
   large, and rounds to zero effective cents as well. *)
From Coq Require Import List NArith ZArith QArith Qcanon Bool Lia.
From ACB Require Import Base.Outcome Base.QcExtra Base.Fit Base.Arith Model.Tx Model.Ledger Model.Sfl
     Model.DeltaList Proofs.Tactics Proofs.C02Scan Proofs.C03Conserve Proofs.C05Sites Proofs.C05NoPanic
     Proofs.EffCent.
Import ListNotations.
Local Open Scope Qc_scope.

(* ---- the scans keep their quantities non-negative, when they succeed ---- *)
Lemma fwd_scan_nn last dflt aft : (forall a, 0 <= dflt a) -> forall adj s s',
  fwd_scan exact last dflt aft adj s = Ok s' -> scan_nn s -> scan_nn s'.
Proof.
  intros Hd. induction aft as [|x aft IH]; intros adj s s' H Hs; cbn [fwd_scan] in H.
  - inversion H; subst; exact Hs.
  - destruct (Z.ltb last (t_sd x)); [inversion H; subst; exact Hs|].
    destruct Hs as (He & Ha & Hact).
    destruct (t_act x) as [sh aps com rate crate | sh aps com rate crate sp | aps rate | sh aps | post pre io].
    + bind_as H as b Eb. bind_as H as eop Ee. apply gez_add_exact in Ee as [-> Hee].
      bind_as H as na En. apply gez_add_exact in En as [-> Hna].
      bind_as H as acq Eq. apply gez_add_exact in Eq as [-> Hacq].
      eapply IH; [exact H|]. split; [exact Hee|]. split; [exact Hacq|]. cbn [sc_active].
      apply active_update; assumption.
    + bind_as H as b Eb. cbn [a_sub exact bind] in H.
      destruct (Qcltb_spec (sc_eop s - b) 0) as [|Hee]; [discriminate|].
      match type of H with context [Qcltb ?v 0] => destruct (Qcltb_spec v 0) as [|Hna]; [discriminate|] end.
      eapply IH; [exact H|]. split; [apply Qcnot_lt_le; exact Hee|]. split; [exact Ha|]. cbn [sc_active].
      apply active_update; [exact Hact | apply Qcnot_lt_le; exact Hna].
    + eapply IH; [exact H|]. repeat split; assumption.
    + eapply IH; [exact H|]. repeat split; assumption.
    + bind_as H as f Ef. bind_as H as nsa En. eapply IH; [exact H|]. repeat split; assumption.
Qed.

Lemma bwd_scan_nn first dflt bef : (forall a, 0 <= dflt a) -> forall adj s s',
  bwd_scan exact first dflt bef adj s = Ok s' -> scan_nn s -> scan_nn s'.
Proof.
  intros Hd. induction bef as [|x bef IH]; intros adj s s' H Hs; cbn [bwd_scan] in H.
  - inversion H; subst; exact Hs.
  - destruct (Z.ltb (t_sd x) first); [inversion H; subst; exact Hs|].
    destruct Hs as (He & Ha & Hact).
    destruct (t_act x) as [sh aps com rate crate | sh aps com rate crate sp | aps rate | sh aps | post pre io].
    + bind_as H as b Eb. bind_as H as acq Eq. apply gez_add_exact in Eq as [-> Hacq].
      eapply IH; [exact H|]. split; [exact He|]. split; [exact Hacq|]. cbn [sc_active].
      destruct (amem _ _); [exact Hact | apply active_update; [exact Hact | apply Hd]].
    + eapply IH; [exact H|]. repeat split; assumption.
    + eapply IH; [exact H|]. repeat split; assumption.
    + eapply IH; [exact H|]. repeat split; assumption.
    + bind_as H as f Ef. bind_as H as nsa En. eapply IH; [exact H|]. repeat split; assumption.
Qed.

(* what a successful, superficial scan looks like (no hypothesis on the rows) *)
Lemma sfl_info_some_facts bef t sold aft st s :
  (forall a, 0 <= dflt_of st a) ->
  sfl_info exact bef t sold aft st = Ok (Some s) ->
  scan_nn s /\ scan_ok s /\ 0 < sc_acq s /\ 0 < sc_eop s.
Proof.
  intros Hd. unfold sfl_info. cbn [a_sub exact bind]. fold (dflt_of st).
  change (match latest_for st (t_af t) with Some s => s_sh s | None => 0 end) with (dflt_of st (t_af t)).
  destruct (Qcltb_spec (s_all (latest_post_status st) - sold) 0) as [|H1]; [discriminate|].
  destruct (Qcltb_spec (dflt_of st (t_af t) - sold) 0) as [|H2]; [discriminate|].
  set (s0 := {| sc_eop := s_all (latest_post_status st) - sold; sc_acq := 0; sc_buyers := [];
                sc_active := [(af_id (t_af t), dflt_of st (t_af t) - sold)] |}).
  assert (Hs0 : scan_nn s0).
  { split; [apply Qcnot_lt_le; exact H1|]. split; [apply Qcle_refl|].
    intros k v. cbn [s0 sc_active alookup]. destruct (N.eqb k _); [|discriminate].
    intros E; inversion E; subst. apply Qcnot_lt_le. exact H2. }
  assert (Hs0' : scan_ok s0) by (split; cbn; [reflexivity | intros a []]).
  intros H. bind_as H as s1 E1.
  destruct (Qcltb_spec 0 (sc_eop s1)) as [Hpos|]; cbn [negb] in H; [|discriminate].
  bind_as H as s2 E2.
  destruct (Qcltb_spec 0 (sc_acq s2)) as [Hacq|]; [|discriminate].
  inversion H; subst s. clear H.
  pose proof (fwd_scan_nn _ _ _ Hd _ _ _ E1 Hs0) as Hn1.
  split; [exact (bwd_scan_nn _ _ _ Hd _ _ _ E2 Hn1)|].
  split; [eapply (bwd_scan_ok exact); [exact E2|]; eapply (fwd_scan_ok exact); [exact E1 | exact Hs0']|].
  split; [exact Hacq|]. rewrite (bwd_scan_eop _ _ _ _ _ _ E2). exact Hpos.
Qed.

Lemma min3_mono_acq sold a1 a2 e : a2 <= a1 -> min3 sold a2 e <= min3 sold a1 e.
Proof.
  intros H. unfold min3.
  destruct (Qcltb_spec a2 sold); destruct (Qcltb_spec a1 sold);
    repeat match goal with |- context [Qcltb ?x ?y] => destruct (Qcltb_spec x y) end; qc_lra.
Qed.

Lemma neg_scale_mono loss a b : loss < 0 -> a <= b -> loss * b <= loss * a.
Proof.
  intros Hl Hab. assert (H : 0 <= (b - a) * (- loss)) by (apply Qcmul_nonneg; qc_lra).
  replace ((b - a) * - loss) with (loss * a - loss * b) in H by ring.
  remember (loss * a) as u. remember (loss * b) as v. clear - H. qc_lra.
Qed.

Lemma div_mono_r a b c : 0 < c -> a <= b -> a / c <= b / c.
Proof.
  intros Hc Hab. unfold Qcdiv. apply Qcmult_le_compat_r; [exact Hab|].
  apply Qclt_le_weak. apply Qcinv_pos. exact Hc.
Qed.

(* the full history found the loss superficial but denied nothing; a run of
   the same sale whose scan ends with the same shares held at the end of the
   window and at most the same acquisitions denies nothing either *)
Lemma delta_sfl_zero_rerun bef1 bef2 t sold aft1 aft2 st1 st2 loss s1 s2 :
  (forall a, 0 <= dflt_of st2 a) -> 0 < sold -> loss < 0 ->
  sfl_info exact bef1 t sold aft1 st1 = Ok (Some s1) ->
  delta_sfl exact bef1 t sold None aft1 st1 loss = Ok None ->
  sfl_info exact bef2 t sold aft2 st2 = Ok (Some s2) ->
  sc_eop s2 = sc_eop s1 -> sc_acq s2 <= sc_acq s1 ->
  delta_sfl exact bef2 t sold None aft2 st2 loss = Ok None.
Proof.
  intros Hd Hsold Hloss E1 H1 E2 Heop Hacq.
  destruct (sfl_info_some_facts _ _ _ _ _ _ Hd E2) as (Hnn & Hok & Hacq2 & Heop2).
  destruct (sfl_ratio_np sold s2 Hnn Hok Hacq2) as (r2 & Er2 & Hnum2 & Hden2 & _).
  assert (Hs0 : sold <> 0) by (apply Qclt_not_eq'; exact Hsold).
  (* the full history *)
  unfold delta_sfl in H1. rewrite E1 in H1. cbn [bind] in H1.
  bind_as H1 as m1 Em1. apply sfl_ratio_some in Em1 as (r1 & -> & Hnum1 & Hden1).
  bind_as H1 as calc1 Ec1.
  rewrite Hden1, (exact_div _ _ Hs0) in Ec1. cbn [bind] in Ec1.
  bind_as Ec1 as q1 Eq1. apply pos_unwrap_ok in Eq1 as [-> Hq1].
  unfold neg_mul_pos in Ec1. cbn [a_mul exact bind] in Ec1.
  bind_as Ec1 as l1 El1. apply neg_unwrap_ok in El1 as [-> Hl1].
  bind_as Ec1 as c1 Ee1. apply lez_unwrap_ok in Ec1 as [-> Hc1le].
  destruct (Qcltb_spec c1 0) as [Hc1|Hc1]; cbn [negb] in H1.
  { bind_as H1 as txs Et. discriminate H1. }
  (* the other run *)
  unfold delta_sfl. rewrite E2. cbn [bind]. rewrite Er2. cbn [bind].
  rewrite Hden2, Hnum2, (exact_div _ _ Hs0). cbn [bind].
  assert (Hq2 : 0 < min3 sold (sc_acq s2) (sc_eop s2) / sold)
    by (apply Qcdiv_pos; [apply min3_pos; assumption | exact Hsold]).
  unfold pos_unwrap at 1. destruct (Qcltb_spec 0 (min3 sold (sc_acq s2) (sc_eop s2) / sold)) as [_|Hc]; [|contradiction].
  cbn [bind]. rewrite (neg_mul_pos_ok _ _ Hloss Hq2). cbn [bind].
  assert (Hle : loss * (sr_num r1 / sold) <= loss * (min3 sold (sc_acq s2) (sc_eop s2) / sold)).
  { apply neg_scale_mono; [exact Hloss|]. apply div_mono_r; [exact Hsold|].
    rewrite Hnum1, Heop. apply min3_mono_acq. exact Hacq. }
  assert (Hx2 : loss * (min3 sold (sc_acq s2) (sc_eop s2) / sold) <= 0).
  { apply Qclt_le_weak. rewrite <- (Qcmult_0_l (min3 sold (sc_acq s2) (sc_eop s2) / sold)).
    apply Qcmult_lt_compat_r; assumption. }
  destruct (eff_cent_zero_mono _ _ _ Hle Hx2 Ee1 Hc1) as (c2 & Ee2 & Hc2).
  rewrite Ee2. cbn [bind]. rewrite (eff_cent_site_ok exact _ _ Hx2 Ee2). cbn [bind].
  destruct (Qcltb_spec c2 0) as [Hlt|_]; [contradiction | reflexivity].
Qed.
