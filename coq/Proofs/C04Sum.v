(* C04 part A (continued): under exact arithmetic the all-affiliate balance of
   every emitted row is the sum of the affiliates' latest balances. *)
From Coq Require Import List NArith ZArith QArith Qcanon Bool Lia.
From ACB Require Import Base.Outcome Base.QcExtra Base.Arith Model.Tx Model.Ledger Model.Sfl
     Model.DeltaList Spec.AvgCost Proofs.Tactics Proofs.C01Refine Proofs.AllAfter.
Import ListNotations.
Local Open Scope Qc_scope.

Fixpoint total_shares (hs : holdings) : Qc :=
  match hs with
  | [] => 0
  | (_, h) :: r => fst h + total_shares r
  end.

Definition shares_of (hs : holdings) (k : N) : Qc :=
  match alookup k hs with Some h => fst h | None => 0 end.

Lemma total_update k h hs :
  total_shares (aupdate k h hs) = total_shares hs - shares_of hs k + fst h.
Proof.
  unfold shares_of. induction hs as [|[k' h'] hs IH]; cbn [aupdate alookup total_shares].
  - ring.
  - destruct (N.eqb k k'); cbn [total_shares].
    + ring.
    + rewrite IH. ring.
Qed.

(* every row's all-affiliate balance equals the sum of latest balances once
   the row's own balance is recorded *)
Fixpoint all_sum_ok (hs : holdings) (ds : list delta) : Prop :=
  match ds with
  | [] => True
  | d :: r =>
      let hs' := aupdate (af_id (t_af (d_tx d))) (hold_of (d_post d)) hs in
      s_all (d_post d) = total_shares hs' /\ all_sum_ok hs' r
  end.

Lemma all_sum_ok_app hs ds1 ds2 :
  all_sum_ok hs (ds1 ++ ds2) <->
  all_sum_ok hs ds1 /\
  all_sum_ok (fold_left (fun h d => aupdate (af_id (t_af (d_tx d))) (hold_of (d_post d)) h) ds1 hs) ds2.
Proof.
  revert hs. induction ds1 as [|d ds1 IH]; intros hs; cbn [app all_sum_ok fold_left].
  - tauto.
  - rewrite IH. tauto.
Qed.

Definition st_sum (st : pstate) : Prop := ps_all st = total_shares (abs_map (ps_map st)).

Lemma set_latest_sum st af v st' :
  set_latest exact st af v = Ok st' -> st_sum st ->
  ps_map st' = aupdate (af_id af) v (ps_map st) /\
  s_all v = total_shares (abs_map (ps_map st')) /\ st_sum st'.
Proof.
  unfold set_latest, st_sum. rewrite all_after_exact. cbn [bind]. intros H Hs.
  destruct (negb (Bool.eqb _ _)); [discriminate|].
  destruct (Qceqb_spec (s_all v)
              (ps_all st + (s_sh v - match latest_for st af with Some s => s_sh s | None => 0 end)))
    as [He|]; cbn [negb] in H; [|discriminate].
  inversion H; subst st'; clear H. cbn [ps_map ps_all].
  assert (Ht : s_all v = total_shares (abs_map (aupdate (af_id af) v (ps_map st)))).
  { rewrite <- aupdate_abs, total_update, <- Hs, He. unfold shares_of, latest_for.
    rewrite alookup_abs. destruct (alookup (af_id af) (ps_map st)); cbn; ring. }
  auto.
Qed.

Lemma delta_tx_eq A bef t aft st d inj :
  delta_for_tx A bef t aft st = Ok (d, inj) -> d_tx d = t.
Proof.
  unfold delta_for_tx. intros H. bind_as H as u Eu.
  destruct (t_act t) eqn:Ea.
  2: { bind_as H as c Ec. destruct (sc_gain c).
       - destruct (Qcltb _ _).
         + bind_as H as m Em. destruct m as [[i j]|]; [bind_as H as g Eg|]; inversion H; reflexivity.
         + destruct sfl; [discriminate|]. inversion H; reflexivity.
       - inversion H; reflexivity. }
  all: bind_as H as d0 Ed; inversion H; subst; unfold delta_nonsell in Ed; rewrite Ea in Ed.
  - bind_as Ed as a1 E1. bind_as Ed as a0 E0. bind_as Ed as a2 E2. destruct (s_acb _).
    + bind_as Ed as a3 E3. bind_as Ed as a4 E4. bind_as Ed as a5 E5. bind_as Ed as a6 E6.
      inversion Ed; reflexivity.
    + inversion Ed; reflexivity.
  - destruct (s_acb _).
    + destruct (af_reg _); [discriminate|]. bind_as Ed as a1 E1. bind_as Ed as a2 E2.
      bind_as Ed as a3 E3. destruct (Qcltb _ _); [discriminate|]. inversion Ed; reflexivity.
    + destruct (negb _); discriminate.
  - destruct (s_acb _).
    + destruct (af_reg _); [discriminate|]. bind_as Ed as a1 E1. bind_as Ed as a2 E2.
      bind_as Ed as a3 E3. inversion Ed; reflexivity.
    + destruct (negb _); discriminate.
  - bind_as Ed as a1 E1. bind_as Ed as a2 E2. bind_as Ed as a3 E3. bind_as Ed as a4 E4.
    destruct (Qcltb _ _); [discriminate|]. destruct (_ && _); [discriminate|].
    inversion Ed; reflexivity.
Qed.

Lemma run_injected_sum bef st inj aft ds bef' st' o :
  run_injected exact bef st inj aft = (ds, bef', st', o) -> st_sum st ->
  all_sum_ok (abs_map (ps_map st)) ds /\ st_sum st' /\
  abs_map (ps_map st')
  = fold_left (fun h d => aupdate (af_id (t_af (d_tx d))) (hold_of (d_post d)) h) ds (abs_map (ps_map st)).
Proof.
  revert bef st ds bef' st' o. induction inj as [|t inj IH]; intros bef st ds bef' st' o H Hs;
    cbn [run_injected] in H.
  - inversion H; subst. cbn. auto.
  - destruct (delta_for_tx exact bef t (inj ++ aft) st) as [[d i]| |] eqn:Ed;
      try (inversion H; subst; cbn; auto).
    destruct (set_latest exact st (t_af t) (d_post d)) as [st1| |] eqn:Es;
      try (inversion H; subst; cbn; auto).
    destruct (run_injected exact (t :: bef) st1 inj aft) as [[[ds1 b1] s1] o1] eqn:Er.
    inversion H; subst; clear H.
    apply delta_tx_eq in Ed. apply set_latest_sum in Es as (Hm & Ht & Hs1); [|assumption].
    specialize (IH _ _ _ _ _ _ Er Hs1) as (IH1 & IH2 & IH3).
    cbn [all_sum_ok fold_left]. rewrite Ed, aupdate_abs, <- Hm. auto.
Qed.

Lemma run_loop_sum bef st aft ds o :
  run_loop exact bef st aft = (ds, o) -> st_sum st -> all_sum_ok (abs_map (ps_map st)) ds.
Proof.
  revert bef st ds o. induction aft as [|t aft IH]; intros bef st ds o H Hs; cbn [run_loop] in H.
  - inversion H; exact I.
  - destruct (delta_for_tx exact bef t aft st) as [[d inj]| |] eqn:Ed;
      try (inversion H; subst; exact I).
    destruct (set_latest exact st (t_af t) (d_post d)) as [st1| |] eqn:Es;
      try (inversion H; subst; exact I).
    destruct (run_injected exact (t :: bef) st1 inj aft) as [[[dsi b1] st2] o1] eqn:Er.
    apply delta_tx_eq in Ed. apply set_latest_sum in Es as (Hm & Ht & Hs1); [|assumption].
    apply run_injected_sum in Er as (Hi1 & Hs2 & Hi3); [|assumption].
    destruct o1 as [s1|].
    + inversion H; subst. cbn [all_sum_ok]. rewrite aupdate_abs, <- Hm. auto.
    + destruct (run_loop exact b1 st2 aft) as [ds2 o2] eqn:El.
      inversion H; subst. cbn [all_sum_ok]. rewrite aupdate_abs, <- Hm.
      split; [assumption|]. apply all_sum_ok_app. split; [assumption|].
      rewrite <- Hi3. eapply IH; eauto.
Qed.

Theorem run_all_sum init txs ds o :
  run exact init txs = (ds, o) -> all_sum_ok (spec_init init) ds.
Proof.
  unfold run. destruct txs as [|t txs]; intros H.
  - inversion H; exact I.
  - destruct (init_state exact init) as [st| |] eqn:Ei; try (inversion H; exact I).
    rewrite <- (init_state_abs _ _ Ei). eapply run_loop_sum; eauto.
    unfold init_state in Ei. destruct init as [i|].
    + destruct (negb _); [discriminate|].
      apply set_latest_sum in Ei as (_ & _ & Hs); [exact Hs|]. reflexivity.
    + inversion Ei; reflexivity.
Qed.
