(* One row under rounding, stated on the model's arm functions: [sell_core]
   (the Sell arm below the superficial-loss computation), the RoC and Split
   arms of [delta_nonsell]; arithmetic in Proofs/DecSellError.v. *)
From Coq Require Import List NArith ZArith QArith Qcanon Bool Lia Lqa Qabs.
From ACB Require Import Base.Outcome Base.QcExtra Base.Fit Base.Arith Model.Tx Model.Ledger
     Proofs.Tactics Proofs.FitProps Proofs.DecRowError Proofs.DecSellError.
Import ListNotations.
Local Open Scope Qc_scope.

Lemma sub_exact a b r : a_sub exact a b = Ok r -> r = a - b.
Proof. cbn [a_sub exact]. intros H. inversion H. reflexivity. Qed.
Lemma mul_exact a b r : a_mul exact a b = Ok r -> r = a * b.
Proof. cbn [a_mul exact]. intros H. inversion H. reflexivity. Qed.

(* ---- Sell: rounded against exact ---- *)
Theorem sell_row_error (j1 jp J : nat) (R C N eps : Qc) pre_d pre_e sh aps com rate crate od oe cd ce :
  (j1 <= 28)%nat -> (jp <= 28)%nat -> (J <= 28)%nat ->
  0 < sh -> 0 <= aps -> 0 <= com -> 0 < rate -> 0 < crate ->
  s_sh pre_d = s_sh pre_e -> s_acb pre_d = Some od -> s_acb pre_e = Some oe ->
  0 <= eps -> oe - eps <= od -> od <= oe + eps ->
  aps * sh <= T j1 -> rate <= R -> com * crate <= C -> s_sh pre_d <= N ->
  0 <= od -> od <= T jp * s_sh pre_d ->
  (T j1 + 1) * R + C + N * (T jp + 1) + (1 + 1 + 1) <= T J ->
  sell_core dec pre_d sh aps com rate crate = Ok cd ->
  sell_core exact pre_e sh aps com rate crate = Ok ce ->
  sc_sh cd = sc_sh ce ->
  exists nd ne gd ge,
    sc_acb cd = Some nd /\ sc_acb ce = Some ne /\ sc_gain cd = Some gd /\ sc_gain ce = Some ge /\
    ne = (s_sh pre_e - sh) * (oe / s_sh pre_e) /\
    ge = aps * sh * rate - com * crate - oe / s_sh pre_e * sh /\
    (ne - (eps + N * u jp + u J) <= nd /\ nd <= ne + (eps + N * u jp + u J)) /\
    (ge - (eps + u j1 * R + N * u jp + (1 + 1 + 1 + 1 + 1) * u J) <= gd /\
     gd <= ge + (eps + u j1 * R + N * u jp + (1 + 1 + 1 + 1 + 1) * u J)) /\
    0 <= nd.
Proof.
  intros Hj1 Hjp HJ Vsh Vaps Vcom Vrate Vcrate Hsh Hod Hoe Heps He1 He2 Ha HrR HcC HhN Hod0 HodP Hsize Hd He Hns.
  set (h := s_sh pre_e) in *.
  (* exact *)
  unfold sell_core in He. bind_as He as nshe Ee1. apply sub_exact in Ee1. fold h in Ee1.
  destruct (Qcltb nshe 0) eqn:Ens; [discriminate|]. apply Qcltb_false in Ens.
  bind_as He as nalle Ee2. destruct (Qcltb nalle 0); [discriminate|].
  assert (Hh : 0 < h) by (clear - Ee1 Ens Vsh; qc_lra).
  bind_as He as mapse Ee3. unfold per_share_acb in Ee3. rewrite Hoe in Ee3. fold h in Ee3.
  destruct (Qcltb_spec 0 h) as [_|Hn]; [|contradiction].
  bind_as Ee3 as pe Ee3a. inversion Ee3; subst mapse; clear Ee3.
  apply gez_div_exact in Ee3a as [-> Hh0].
  bind_as He as nacbe Ee4. apply gez_mul_exact in Ee4 as [-> _].
  unfold local_value in He. bind_as He as ve Ee5. bind_as Ee5 as v1e Ee5a.
  apply gez_mul_exact in Ee5a as [-> _]. apply gez_mul_exact in Ee5 as [-> _].
  bind_as He as c_e Ee6. apply gez_mul_exact in Ee6 as [-> _].
  bind_as He as paye Ee7. apply sub_exact in Ee7. subst paye.
  bind_as He as coste Ee8. apply mul_exact in Ee8. subst coste.
  bind_as He as g_e Ee9. apply sub_exact in Ee9. subst g_e.
  inversion He; subst ce; clear He. cbn [sc_sh] in Hns.
  (* rounded *)
  unfold sell_core in Hd. bind_as Hd as nshd Ed1. rewrite Hsh in Ed1.
  destruct (Qcltb nshd 0); [discriminate|].
  bind_as Hd as nalld Ed2. destruct (Qcltb nalld 0); [discriminate|].
  bind_as Hd as mapsd Ed3. unfold per_share_acb in Ed3. rewrite Hod, Hsh in Ed3.
  destruct (Qcltb_spec 0 h) as [_|Hn]; [|contradiction].
  bind_as Ed3 as pd Ed3a. inversion Ed3; subst mapsd; clear Ed3.
  apply gez_div_dec in Ed3a as [_ Fp].
  bind_as Hd as nacbd Ed4. apply gez_mul_dec in Ed4.
  unfold local_value in Hd. bind_as Hd as vd Ed5. bind_as Ed5 as v1d Ed5a.
  apply gez_mul_dec in Ed5a, Ed5.
  bind_as Hd as c_d Ed6. apply gez_mul_dec in Ed6.
  bind_as Hd as payd Ed7. apply sub_dec in Ed7.
  bind_as Hd as costd Ed8. apply mul_dec in Ed8.
  bind_as Hd as g_d Ed9. apply sub_dec in Ed9.
  inversion Hd; subst cd; clear Hd. cbn [sc_sh] in Hns. subst nshd.
  cbn [sc_acb sc_gain].
  exists nacbd, (nshe * (oe / h)), g_d, (aps * sh * rate - com * crate - oe / h * sh).
  split; [reflexivity|]. split; [reflexivity|]. split; [reflexivity|]. split; [reflexivity|].
  split; [rewrite Ee1; reflexivity|]. split; [reflexivity|].
  rewrite Hsh in HhN, HodP.
  exact (sell_error_math j1 jp J R C N eps h sh aps com rate crate od oe nshe pd nacbd v1d vd c_d payd costd g_d
           Hj1 Hjp HJ Vsh Vaps Ha (Qclt_le_weak _ _ Vrate) HrR Vcom (Qclt_le_weak _ _ Vcrate) HcC
           Hh Ee1 Ens HhN Hod0 HodP Hsize Heps He1 He2 Fp Ed4 Ed5a Ed5 Ed6 Ed7 Ed8 Ed9).
Qed.

(* in powers of ten: shares held and sold, price, commission at most 10^k, the
   two exchange rates at most 10, the (rounded) cost base per share at most
   10^(k+1): every value of the arm stays below 10^(2k+2) *)
Lemma T_2k k : T (2 * k) = T k * T k.
Proof. replace (2 * k)%nat with (k + k)%nat by lia. apply T_mul. Qed.
Lemma T_k1 k : T (k + 1) = T k * T 1.
Proof. apply T_mul. Qed.
Lemma T_2k2 k : T (2 * k + 2) = T k * T k * T 1 * T 1.
Proof. replace (2 * k + 2)%nat with (2 * k + 1 + 1)%nat by lia. rewrite !T_mul, T_2k. reflexivity. Qed.
Lemma T_ten : T 1 = 1+1+1+1+1+1+1+1+1+1.
Proof. apply Qc_is_canon; reflexivity. Qed.

Theorem sell_row_error_pow10 (k : nat) (eps : Qc) pre_d pre_e sh aps com rate crate od oe cd ce :
  (2 * k + 2 <= 28)%nat ->
  0 < sh -> 0 <= aps -> 0 <= com -> 0 < rate -> 0 < crate ->
  s_sh pre_d = s_sh pre_e -> s_acb pre_d = Some od -> s_acb pre_e = Some oe ->
  0 <= eps -> oe - eps <= od -> od <= oe + eps ->
  sh <= T k -> aps <= T k -> com <= T k -> rate <= T 1 -> crate <= T 1 -> s_sh pre_d <= T k ->
  0 <= od -> od <= T (k + 1) * s_sh pre_d ->
  sell_core dec pre_d sh aps com rate crate = Ok cd ->
  sell_core exact pre_e sh aps com rate crate = Ok ce ->
  sc_sh cd = sc_sh ce ->
  exists nd ne gd ge,
    sc_acb cd = Some nd /\ sc_acb ce = Some ne /\ sc_gain cd = Some gd /\ sc_gain ce = Some ge /\
    ne = (s_sh pre_e - sh) * (oe / s_sh pre_e) /\
    ge = aps * sh * rate - com * crate - oe / s_sh pre_e * sh /\
    (ne - (eps + T k * u (k + 1) + u (2 * k + 2)) <= nd /\ nd <= ne + (eps + T k * u (k + 1) + u (2 * k + 2))) /\
    (ge - (eps + u (2 * k) * T 1 + T k * u (k + 1) + (1 + 1 + 1 + 1 + 1) * u (2 * k + 2)) <= gd /\
     gd <= ge + (eps + u (2 * k) * T 1 + T k * u (k + 1) + (1 + 1 + 1 + 1 + 1) * u (2 * k + 2))) /\
    0 <= nd.
Proof.
  intros Hk Vsh Vaps Vcom Vrate Vcrate Hsh Hod Hoe Heps He1 He2 Bsh Baps Bcom Brate Bcrate Bh Hod0 HodP Hd He Hns.
  pose proof (T_ge_1 k) as Hx.
  apply (sell_row_error (2 * k) (k + 1) (2 * k + 2) (T 1) (T k * T 1) (T k) eps pre_d pre_e
           sh aps com rate crate od oe cd ce); try assumption; try lia.
  - rewrite T_2k. apply (mul_bounds aps sh (T k) (T k)); [exact Vaps | exact Baps | apply Qclt_le_weak; exact Vsh | exact Bsh].
  - apply (mul_bounds com crate (T k) (T 1)); [exact Vcom | exact Bcom | apply Qclt_le_weak; exact Vcrate | exact Bcrate].
  - rewrite T_2k, T_k1, T_2k2, T_ten. set (x := T k) in *. clear - Hx. qc_unfold. nra.
Qed.

(* ---- return of capital ---- *)
Theorem roc_row_error (j1 J : nat) (R O eps : Qc) t pre_d pre_e aps rate od oe dd de :
  (j1 <= 28)%nat -> (J <= 28)%nat ->
  t_act t = Roc aps rate -> valid_tx t = true ->
  s_sh pre_d = s_sh pre_e -> s_acb pre_d = Some od -> s_acb pre_e = Some oe ->
  oe - eps <= od -> od <= oe + eps ->
  0 <= s_sh pre_d -> aps * s_sh pre_d <= T j1 -> rate <= R -> 0 <= od -> od <= O ->
  (T j1 + 1) * R + O + (1 + 1) <= T J ->
  delta_nonsell dec t pre_d = Ok dd -> delta_nonsell exact t pre_e = Ok de ->
  exists nd ne,
    s_acb (d_post dd) = Some nd /\ s_acb (d_post de) = Some ne /\
    ne = oe - aps * s_sh pre_e * rate /\
    ne - (eps + u j1 * R + (1 + 1) * u J) <= nd /\ nd <= ne + (eps + u j1 * R + (1 + 1) * u J) /\
    s_sh (d_post dd) = s_sh pre_d /\ s_sh (d_post de) = s_sh pre_e /\
    s_all (d_post dd) = s_all pre_d /\ s_all (d_post de) = s_all pre_e /\
    d_gain dd = None /\ d_gain de = None /\ 0 <= nd.
Proof.
  intros Hj1 HJ Hact Hv Hsh Hod Hoe He1 He2 Hh Ha HrR Hod0 HodO Hsize Hd He.
  unfold valid_tx in Hv. rewrite Hact in Hv. cbn [valid_action] in Hv.
  apply andb_prop in Hv as [Vaps Vrate]. apply Qcleb_true in Vaps. apply Qcltb_true in Vrate.
  unfold delta_nonsell in Hd, He. rewrite Hact in Hd, He. rewrite Hod in Hd. rewrite Hoe in He.
  destruct (af_reg (t_af t)); [discriminate|].
  bind_as Hd as v1d Ed1. bind_as Hd as rd Ed2. bind_as Hd as nd Ed3.
  destruct (Qcltb nd 0) eqn:End; [discriminate|]. apply Qcltb_false in End. inversion Hd; subst dd; clear Hd.
  apply gez_mul_dec in Ed1, Ed2. apply sub_dec in Ed3.
  bind_as He as v1e Ee1. bind_as He as r_e Ee2. bind_as He as ne Ee3.
  destruct (Qcltb ne 0); [discriminate|]. inversion He; subst de; clear He.
  apply gez_mul_exact in Ee1 as [-> _]. apply gez_mul_exact in Ee2 as [-> _]. apply sub_exact in Ee3. subst ne.
  cbn [d_post mk_delta s_acb s_sh s_all d_gain].
  exists nd, (oe - aps * s_sh pre_e * rate).
  split; [reflexivity|]. split; [reflexivity|]. split; [reflexivity|].
  rewrite <- Hsh.
  pose proof (roc_error_math j1 J R O eps (s_sh pre_d) aps rate od oe v1d rd nd Hj1 HJ Hh Vaps Ha
                (Qclt_le_weak _ _ Vrate) HrR Hod0 HodO Hsize He1 He2 Ed1 Ed2 Ed3) as [B1 B2].
  repeat split; assumption.
Qed.

Theorem roc_row_error_pow10 (k : nat) (eps : Qc) t pre_d pre_e aps rate od oe dd de :
  (2 * k + 2 <= 28)%nat ->
  t_act t = Roc aps rate -> valid_tx t = true ->
  s_sh pre_d = s_sh pre_e -> s_acb pre_d = Some od -> s_acb pre_e = Some oe ->
  oe - eps <= od -> od <= oe + eps ->
  0 <= s_sh pre_d -> s_sh pre_d <= T k -> aps <= T k -> rate <= T 1 -> 0 <= od -> od <= T (2 * k + 1) ->
  delta_nonsell dec t pre_d = Ok dd -> delta_nonsell exact t pre_e = Ok de ->
  exists nd ne,
    s_acb (d_post dd) = Some nd /\ s_acb (d_post de) = Some ne /\
    ne = oe - aps * s_sh pre_e * rate /\
    ne - (eps + u (2 * k) * T 1 + (1 + 1) * u (2 * k + 2)) <= nd /\
    nd <= ne + (eps + u (2 * k) * T 1 + (1 + 1) * u (2 * k + 2)) /\
    s_sh (d_post dd) = s_sh pre_d /\ s_sh (d_post de) = s_sh pre_e /\
    s_all (d_post dd) = s_all pre_d /\ s_all (d_post de) = s_all pre_e /\
    d_gain dd = None /\ d_gain de = None /\ 0 <= nd.
Proof.
  intros Hk Hact Hv Hsh Hod Hoe He1 He2 Hh Bh Baps Brate Hod0 HodO Hd He.
  pose proof Hv as Hv'. unfold valid_tx in Hv'. rewrite Hact in Hv'. cbn [valid_action] in Hv'.
  apply andb_prop in Hv' as [Vaps Vrate]. apply Qcleb_true in Vaps.
  pose proof (T_ge_1 k) as Hx.
  assert (E2k1 : T (2 * k + 1) = T k * T k * T 1) by (rewrite T_mul, T_2k; reflexivity).
  apply (roc_row_error (2 * k) (2 * k + 2) (T 1) (T (2 * k + 1)) eps t pre_d pre_e aps rate od oe dd de);
    try assumption; try lia.
  - rewrite T_2k. apply (mul_bounds aps (s_sh pre_d) (T k) (T k)); assumption.
  - rewrite T_2k, E2k1, T_2k2, T_ten. set (x := T k) in *. clear - Hx. qc_unfold. nra.
Qed.

(* ---- split: the cost base is carried over unchanged, under any arithmetic;
   the new share balance is (balance * post) / pre with two roundings ---- *)
Theorem split_row_cost (A : arith) t pre post pre_ io d :
  t_act t = Split post pre_ io -> delta_nonsell A t pre = Ok d ->
  s_acb (d_post d) = s_acb pre /\ d_gain d = None.
Proof.
  intros Hact H. unfold delta_nonsell in H. rewrite Hact in H.
  bind_as H as m E1. bind_as H as qd E2. bind_as H as nsh E3. bind_as H as nall E5.
  destruct (Qcltb nall 0); [discriminate|].
  destruct (Qcltb post pre_ && io && negb (Qc_is_integer nsh)); [discriminate|].
  inversion H; subst d. cbn [d_post mk_delta s_acb d_gain]. split; reflexivity.
Qed.

Lemma div_dec a b r : a_div dec a b = Ok r -> b <> 0 /\ fit (a / b) = Some r.
Proof.
  cbn [a_div dec]. destruct (Qceqb_spec b 0) as [|Hb]; [discriminate|].
  unfold fit_res. destruct (fit (a / b)); intros H; inversion H. split; [exact Hb | reflexivity].
Qed.

Theorem split_row_shares (j1 j2 : nat) t pre post pre_ io d :
  (j1 <= 28)%nat -> (j2 <= 28)%nat ->
  t_act t = Split post pre_ io -> valid_tx t = true -> 1 <= pre_ ->
  0 <= s_sh pre -> s_sh pre * post <= T j1 -> T j1 + 1 <= T j2 ->
  delta_nonsell dec t pre = Ok d ->
  s_sh pre * post / pre_ - (u j1 + u j2) <= s_sh (d_post d) /\
  s_sh (d_post d) <= s_sh pre * post / pre_ + (u j1 + u j2).
Proof.
  intros Hj1 Hj2 Hact Hv Hpre Hh Hm Hsize H.
  unfold valid_tx in Hv. rewrite Hact in Hv. cbn [valid_action] in Hv.
  apply andb_prop in Hv as [Vpost Vpre]. apply Qcltb_true in Vpost, Vpre.
  unfold delta_nonsell in H. rewrite Hact in H.
  bind_as H as m E1. bind_as H as qd E2. bind_as H as nsh E3. bind_as H as nall E5.
  destruct (Qcltb nall 0); [discriminate|].
  destruct (Qcltb post pre_ && io && negb (Qc_is_integer nsh)); [discriminate|].
  inversion H; subst d; clear H. cbn [d_post mk_delta s_sh].
  apply gez_unwrap_ok in E3 as [-> _]. apply mul_dec in E1. apply div_dec in E2 as [Hne E2].
  pose proof (u_pos j1) as Hu1. pose proof (u_le_half j1) as Hu1h. pose proof (T_ge_1 j1) as HT1.
  pose proof (T_ge_1 j2) as HT2.
  assert (Hhalf : Qcfrac 1 2 + Qcfrac 1 2 = 1) by (apply Qc_is_canon; reflexivity).
  set (a := s_sh pre * post) in *.
  assert (Ha0 : 0 <= a) by (apply Qcmul_nonneg; [assumption | apply Qclt_le_weak; assumption]).
  destruct (fit_within a m j1 Hj1 E1 ltac:(clear - Ha0 HT1; qc_lra) Hm) as [W1a W1b].
  pose proof (fit_nonneg _ _ E1 Ha0) as Hm0.
  (* division by pre_ >= 1 shrinks *)
  set (r := / pre_).
  assert (Hr0 : 0 <= r) by (subst r; apply Qclt_le_weak, Qcinv_pos, Vpre).
  assert (Hr1 : r <= 1).
  { subst r. assert (E : / pre_ = 1 / pre_) by (unfold Qcdiv; ring). rewrite E.
    apply div_le_bound; [exact Vpre|]. rewrite Qcmult_1_l. exact Hpre. }
  assert (Em : m / pre_ = m * r) by reflexivity. assert (Ea : a / pre_ = a * r) by reflexivity.
  rewrite Em in E2. rewrite Ea.
  assert (Hmr : 0 <= m * r /\ m * r <= T j1 + 1).
  { assert (Hm1 : m <= T j1 + 1) by (clear - W1b Hm Hu1h Hhalf Hu1; qc_lra).
    clear - Hm0 Hm1 Hr0 Hr1. qc_unfold. split; nra. }
  destruct Hmr as [Hmr0 Hmr1].
  destruct (fit_within (m * r) qd j2 Hj2 E2 ltac:(clear - Hmr0 HT2; qc_lra)
              ltac:(clear - Hmr1 Hsize; qc_lra)) as [W2a W2b].
  assert (Hd : a * r - u j1 <= m * r /\ m * r <= a * r + u j1).
  { clear - W1a W1b Hr0 Hr1 Hu1. qc_unfold. split; nra. }
  destruct Hd as [D1 D2]. clear - W2a W2b D1 D2. split; qc_lra.
Qed.
