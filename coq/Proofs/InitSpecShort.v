(* Amount texts of at most 28 bytes: Decimal::from_str accepts exactly the
   plain decimal texts (no rounding or overflow path of the parser can be
   reached), a declarative description of the well-formed amounts. *)
From Coq Require Import List NArith ZArith Bool Arith Lia.
From ACB Require Import Base.Outcome Model.CsvFields Model.InitSpec Proofs.CsvDigits Proofs.CsvFieldProps
     Proofs.InitSpecProps.
Import ListNotations.
Local Open Scope N_scope.

Lemma is_digit_inv c : is_digit c = true -> exists d, d < 10 /\ c = d + 48.
Proof.
  unfold is_digit. intros H. apply andb_prop in H. destruct H as [H1 H2].
  apply N.leb_le in H1. apply N.leb_le in H2. exists (c - 48). split; lia.
Qed.

Lemma pow10_28 : pow10 28 <= max_mant.
Proof. vm_compute. discriminate. Qed.

Lemma pow10_le_28 k : (k <= 28)%nat -> pow10 k <= max_mant.
Proof. intros H. pose proof (pow10_mono k 28 H). pose proof pow10_28. lia. Qed.

(* after the point *)
Lemma scan_short_frac s : forall data sc has k m sc',
  data < pow10 k -> (length s + k <= 28)%nat -> (sc + length s <= 27)%nat ->
  dec_scan false s data sc true has = Ok (m, sc') ->
  exists f, all_digits f /\ s = chars f /\ m = val_from data f /\ sc' = (sc + length f)%nat
            /\ has || negb (is_nil f) = true.
Proof.
  induction s as [|c r IH]; intros data sc has k m sc' Hd Hl Hs H; cbn [dec_scan] in H.
  - destruct has; [|discriminate]. inversion H; subst. exists []. repeat split; [constructor|cbn; lia].
  - cbn [length] in *. destruct (is_digit c) eqn:Ed.
    + destruct (is_digit_inv c Ed) as [d [Hd10 Ec]]. subst c.
      replace (d + 48 - 48) with d in H by lia.
      assert (Hn : data * 10 + d < pow10 (S k)) by (rewrite pow10_S; lia).
      pose proof (pow10_le_28 (S k) ltac:(lia)) as Hb.
      destruct (N.ltb_spec max_mant (data * 10 + d)); [lia|].
      cbn [andb] in H. destruct (Nat.leb_spec 28 (S sc)); [lia|]. cbn [andb] in H.
      destruct (IH (data * 10 + d) (S sc) true (S k) m sc' Hn ltac:(lia) ltac:(lia) H) as [f [Hf [Er [Em [Esc _]]]]].
      exists (d :: f). repeat split.
      * constructor; assumption.
      * cbn [chars map]. fold (chars f). rewrite Er. reflexivity.
      * exact Em.
      * cbn [length]. lia.
      * cbn. apply orb_true_r.
    + cbn [negb andb] in H. rewrite andb_false_r in H.
      destruct ((c =? 95) && has); discriminate.
Qed.

(* before the point *)
Lemma scan_short_whole s : forall data has k m sc',
  data < pow10 k -> (length s + k <= 28)%nat ->
  dec_scan false s data 0%nat false has = Ok (m, sc') ->
  exists w, all_digits w /\
    ((s = chars w /\ m = val_from data w /\ sc' = 0%nat /\ has || negb (is_nil w) = true)
     \/ exists f, all_digits f /\ s = chars w ++ 46 :: chars f /\ m = val_from data (w ++ f)
                  /\ sc' = length f /\ has || negb (is_nil (w ++ f)) = true).
Proof.
  induction s as [|c r IH]; intros data has k m sc' Hd Hl H; cbn [dec_scan] in H.
  - destruct has; [|discriminate]. inversion H; subst. exists []. split; [constructor|].
    left. repeat split.
  - cbn [length] in *. destruct (is_digit c) eqn:Ed.
    + destruct (is_digit_inv c Ed) as [d [Hd10 Ec]]. subst c.
      replace (d + 48 - 48) with d in H by lia.
      assert (Hn : data * 10 + d < pow10 (S k)) by (rewrite pow10_S; lia).
      pose proof (pow10_le_28 (S k) ltac:(lia)) as Hb.
      destruct (N.ltb_spec max_mant (data * 10 + d)); [lia|].
      cbn [andb] in H.
      destruct (IH (data * 10 + d) true (S k) m sc' Hn ltac:(lia) H) as [w [Hw [[Er [Em [Esc _]]]|[f [Hf [Er [Em [Esc _]]]]]]]].
      * exists (d :: w). split; [constructor; assumption|]. left. repeat split.
        -- cbn [chars map]. fold (chars w). rewrite Er. reflexivity.
        -- exact Em.
        -- exact Esc.
        -- cbn. apply orb_true_r.
      * exists (d :: w). split; [constructor; assumption|]. right. exists f. repeat split.
        -- exact Hf.
        -- cbn [chars map app]. fold (chars w). rewrite Er. reflexivity.
        -- exact Em.
        -- exact Esc.
        -- cbn. apply orb_true_r.
    + destruct (N.eqb_spec c 46) as [E|E]; cbn [negb andb] in H.
      * subst c. destruct (scan_short_frac r data 0%nat has k m sc' Hd ltac:(lia) ltac:(lia) H)
          as [f [Hf [Er [Em [Esc Hh]]]]].
        exists []. split; [constructor|]. right. exists f. repeat split; try assumption.
        cbn [chars map app]. rewrite Er. reflexivity.
      * destruct ((c =? 95) && has); discriminate.
Qed.

Lemma val_le_short l : all_digits l -> (length l <= 28)%nat -> val l <= max_mant.
Proof.
  intros Hl Hn. pose proof (val_bound l Hl). pose proof (pow10_le_28 _ Hn). lia.
Qed.

Lemma has_nonempty {T} (l : list T) : false || negb (is_nil l) = true -> l <> [].
Proof. destruct l; [discriminate|discriminate]. Qed.

Definition plain_amount (s : bytes) (d : dec) : Prop :=
  exists sg w f,
    all_digits w /\ all_digits f /\ w ++ f <> []
    /\ (s = sign_bytes sg ++ chars w ++ 46 :: chars f \/ (f = [] /\ s = sign_bytes sg ++ chars w))
    /\ d = mk_dec (sign_neg sg && negb (val (w ++ f) =? 0)) (val (w ++ f)) (length f).

Lemma scan_short_plain sg t d :
  (length t <= 28)%nat ->
  (x <- dec_scan false t 0 0%nat false false ;; Ok (dec_of_parts (sign_neg sg) x)) = Ok d ->
  plain_amount (sign_bytes sg ++ t) d.
Proof.
  intros Hl H. apply bind_ok in H. destruct H as [[m sc'] [Hs Hd]]. inversion Hd; subst d. clear Hd.
  destruct (scan_short_whole t 0 false 0%nat m sc' ltac:(rewrite pow10_0; lia) ltac:(lia) Hs)
    as [w [Hw [[Er [Em [Esc Hh]]]|[f [Hf [Er [Em [Esc Hh]]]]]]]].
  - exists sg, w, []. rewrite app_nil_r.
    split; [exact Hw|]. split; [constructor|]. split; [apply has_nonempty; exact Hh|].
    split; [right; split; [reflexivity|rewrite Er; reflexivity]|].
    unfold dec_of_parts. cbn [fst snd length]. subst m sc'. reflexivity.
  - exists sg, w, f.
    split; [exact Hw|]. split; [exact Hf|]. split; [apply has_nonempty; exact Hh|].
    split; [left; rewrite Er; reflexivity|].
    unfold dec_of_parts. cbn [fst snd]. subst m sc'. reflexivity.
Qed.

Theorem short_amount_iff s d :
  (length s <= 28)%nat -> (parse_dec s = Ok d <-> plain_amount s d).
Proof.
  intros Hl. split.
  - intros H. destruct s as [|c r]; [discriminate|].
    unfold parse_dec, parse_dec_gen in H. cbn [length] in Hl.
    destruct (N.eqb_spec c 45) as [E|E].
    + subst c. apply (scan_short_plain (Some true) r d); [lia|exact H].
    + destruct (N.eqb_spec c 43) as [E2|E2].
      * subst c. apply (scan_short_plain (Some false) r d); [lia|exact H].
      * apply (scan_short_plain None (c :: r) d); [cbn [length]; lia|exact H].
  - intros [sg [w [f [Hw [Hf [Hne [Hs Hd]]]]]]]. subst d.
    assert (Hlen : (length (w ++ f) <= 28)%nat).
    { destruct Hs as [Hs|[Ef Hs]]; subst s; [|subst f]; rewrite ?app_nil_r in *;
        repeat (rewrite app_length in Hl; cbn [length] in Hl); rewrite ?chars_length in Hl;
        rewrite ?app_length; lia. }
    assert (Hv : val (w ++ f) <= max_mant) by (apply val_le_short; [apply Forall_app; split; assumption|exact Hlen]).
    assert (Hlf : (length f <= 28)%nat) by (rewrite app_length in Hlen; lia).
    destruct (plain_decimal_text sg w f Hw Hf Hne Hv Hlf) as [P1 P2].
    destruct Hs as [Hs|[Ef Hs]]; subst s; [exact P1|].
    rewrite (P2 Ef). subst f. rewrite app_nil_r. reflexivity.
Qed.
