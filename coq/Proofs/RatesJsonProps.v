(* The remote document layer (Model/RatesJson.v): a document in the Bank of
   Canada layout parses to exactly its observations (daily ones inverted by
   rust_decimal division, noon ones as published); which documents and
   observations are rejected; no accepted rate comes from a zero or negative
   value. *)
From Coq Require Import List NArith ZArith QArith Qcanon Bool Lia.
From ACB Require Import Base.Outcome Base.QcExtra Base.Fit Base.Arith
     Model.Rates Model.CrashFs Model.RatesJson Proofs.RatesProps Proofs.CrashProps.
Import ListNotations.
Local Open Scope Z_scope.

Lemma beq_refl a : beq a a = true.
Proof. induction a as [| x t IH]; cbn [beq]; [reflexivity | ]. rewrite N.eqb_refl. exact IH. Qed.

Lemma beq_eq a : forall b, beq a b = true -> a = b.
Proof.
  induction a as [| x t IH]; intros [| y u] H; cbn [beq] in H; try discriminate; [reflexivity | ].
  apply andb_true_iff in H. destruct H as [H1 H2]. apply N.eqb_eq in H1. subst y. f_equal. apply IH. exact H2.
Qed.

Lemma obj_get_app_last k v pre : obj_get k (pre ++ [(k, v)]) = Some v.
Proof.
  induction pre as [| [k' v'] t IH]; cbn [app obj_get].
  - rewrite beq_refl. reflexivity.
  - rewrite IH. reflexivity.
Qed.

Lemma Qcfrac_pos m p : 0 < m -> (0 < Qcfrac m p)%Qc.
Proof.
  intros H. unfold Qclt, Qcfrac, Q2Qc. cbn [this]. rewrite !Qred_correct.
  unfold Qlt. cbn [Qnum Qden]. lia.
Qed.

(* a value as the Bank of Canada writes it: a positive decimal *)
Definition wf_value (x : dec_t) : Prop := 0 < fst x <= max_mant /\ (snd x <= 28)%nat.
Definition wf_boc (x : Z * dec_t) : Prop := 0 <= year_of (fst x) <= 9999 /\ wf_value (snd x).

Lemma to_positive_decimal_rendered x :
  wf_value x -> to_positive_decimal (JStr (render_dec x)) = Some (dec_value x).
Proof.
  intros [Hm Hs]. destruct x as [m s]. cbn [fst snd] in *.
  destruct (render_dec_spec m s ltac:(lia) Hs) as (Pv & _).
  unfold to_positive_decimal, to_decimal. rewrite Pv.
  replace (Qcltb 0%Qc (dec_value (m, s))) with true; [reflexivity | ].
  symmetry. apply Qcltb_true. unfold dec_value. cbn [fst snd]. apply Qcfrac_pos. lia.
Qed.

Lemma obs_of_boc daily x :
  wf_boc x -> obs_of_jv (boc_obs daily x) = obs_of_raw (fst x, daily, dec_value (snd x)).
Proof.
  intros [Hy Hv]. destruct x as [d v]. cbn [fst snd] in *.
  destruct (render_date_spec d Hy) as (Pd & _).
  pose proof (to_positive_decimal_rendered v Hv) as Pv.
  unfold boc_obs, obs_of_jv, obs_of_raw, rate_value. cbn [fst snd].
  destruct daily; cbn [obj_get beq K_D K_V K_NOON K_DAILY N.eqb Pos.eqb andb]; rewrite Pd, Pv; reflexivity.
Qed.

(* every document in the Bank of Canada layout parses to its observations *)
Lemma document_to_observations pre daily l :
  Forall wf_boc l ->
  parse_doc (boc_doc pre daily l)
  = Some (rates_of_raw (map (fun x => (fst x, daily, dec_value (snd x))) l)).
Proof.
  intros H. unfold parse_doc, boc_doc, doc_observations.
  rewrite obj_get_app_last. cbn [members option_map]. f_equal.
  rewrite <- parse_all_raw, !map_map. f_equal.
  induction H as [| x t Hx Ht IH]; [reflexivity | ].
  cbn [map]. rewrite IH, (obs_of_boc daily x Hx). reflexivity.
Qed.

(* the rates themselves: noon as published, daily inverted *)
Lemma rates_of_raw_noon l :
  rates_of_raw (map (fun x : Z * dec_t => (fst x, false, dec_value (snd x))) l)
  = Ok (map (fun x => (fst x, dec_value (snd x))) l).
Proof.
  induction l as [| x t IH]; [reflexivity | ].
  cbn [map rates_of_raw rate_of_raw bind]. rewrite IH. reflexivity.
Qed.

Lemma rates_of_raw_daily l rs :
  rates_of_raw (map (fun x : Z * dec_t => (fst x, true, dec_value (snd x))) l) = Ok rs ->
  Forall2 (fun x r => fst r = fst x /\ a_div dec 1%Qc (dec_value (snd x)) = Ok (snd r)) l rs.
Proof.
  revert rs. induction l as [| x t IH]; intros rs H; cbn [map rates_of_raw] in H.
  - inversion H. constructor.
  - unfold rate_of_raw in H.
    destruct (a_div dec 1%Qc (dec_value (snd x))) as [r | |] eqn:E; cbn [bind] in H; try discriminate.
    destruct (rates_of_raw (map (fun x0 : Z * dec_t => (fst x0, true, dec_value (snd x0))) t)) as [rs' | |] eqn:E2;
      cbn [bind] in H; try discriminate.
    inversion H; subst. constructor; [cbn [fst snd]; auto | apply IH; reflexivity].
Qed.

(* ---- rejected documents and skipped observations ---- *)
Lemma doc_rejected_iff root :
  parse_doc root = None <->
  (forall o, root <> JObj o) \/ (exists o, root = JObj o /\ obj_get K_OBSERVATIONS o = None).
Proof.
  unfold parse_doc, doc_observations. split.
  - destruct root as [ | b | t | s | l | o]; try (intros _; left; intros o' E; discriminate).
    destruct (obj_get K_OBSERVATIONS o) eqn:E; cbn [option_map]; [discriminate | ].
    intros _. right. exists o. auto.
  - intros [H | (o & -> & E)].
    + destruct root; try reflexivity. exfalso. eapply H. reflexivity.
    + rewrite E. reflexivity.
Qed.

Lemma obj_get_In k o v : obj_get k o = Some v -> exists k', In (k', v) o /\ beq k' k = true.
Proof.
  induction o as [| [k0 v0] t IH]; cbn [obj_get]; [discriminate | ].
  destruct (obj_get k t) as [x |].
  - intros E. inversion E; subst. destruct (IH eq_refl) as (k' & Hin & Hb). exists k'. split; [right; exact Hin | exact Hb].
  - destruct (beq k0 k) eqn:Eb; [ | discriminate ]. intros E. inversion E; subst.
    exists k0. split; [left; reflexivity | exact Eb].
Qed.

(* a usable value under a series key is a strictly positive decimal *)
Lemma rate_value_good key o q : rate_value key o = JGood q -> (0 < q)%Qc.
Proof.
  unfold rate_value. destruct (obj_get key o) as [[ | b | t | s | l | c] |]; try discriminate.
  destruct (obj_get K_V c) as [x |]; [ | discriminate ].
  unfold to_positive_decimal. destruct (to_decimal x) as [q' |]; [ | discriminate ].
  destruct (Qcltb_spec 0%Qc q') as [P | NP]; [ | discriminate ].
  intros E. inversion E; subst. exact P.
Qed.

Lemma parse_obs_some o d r :
  parse_obs o = Ok (Some (d, r)) ->
  o_date o = Some d /\
  (o_noon o = JGood r \/
   (o_noon o = JAbsent /\ exists q, o_daily o = JGood q /\ a_div dec 1%Qc q = Ok r)).
Proof.
  unfold parse_obs. destruct (o_date o) as [d0 |]; [ | discriminate ].
  destruct (o_noon o) as [ | | q].
  - destruct (o_daily o) as [ | | q]; try discriminate.
    destruct (a_div dec 1%Qc q) as [x | |] eqn:E; cbn [bind]; try discriminate.
    intros H. inversion H; subst. split; [reflexivity | right]. split; [reflexivity | ]. exists q. auto.
  - discriminate.
  - intros H. inversion H; subst. auto.
Qed.

Lemma parse_all_In : forall l rs d r,
  parse_all l = Ok rs -> In (d, r) rs -> exists o, In o l /\ parse_obs o = Ok (Some (d, r)).
Proof.
  induction l as [| o t IH]; intros rs d r H Hin; cbn [parse_all] in H.
  - inversion H; subst. contradiction.
  - destruct (parse_obs o) as [x | |] eqn:Eo; cbn [bind] in H; try discriminate.
    destruct (parse_all t) as [rt | |] eqn:Et; cbn [bind] in H; try discriminate.
    inversion H; subst. clear H.
    destruct x as [[d0 r0] |].
    + destruct Hin as [E | Hin].
      * inversion E; subst. exists o. split; [left; reflexivity | exact Eo].
      * destruct (IH rt d r eq_refl Hin) as (o' & Hin' & Ho'). exists o'. split; [right; exact Hin' | exact Ho'].
    + destruct (IH rt d r eq_refl Hin) as (o' & Hin' & Ho'). exists o'. split; [right; exact Hin' | exact Ho'].
Qed.

(* no accepted rate comes from a zero or negative value: it is a positive
   noon value as published or the rust_decimal quotient 1/q of a positive
   daily value *)
Lemma accepted_rates_positive root rs d r :
  parse_doc root = Some (Ok rs) -> In (d, r) rs ->
  exists q, (0 < q)%Qc /\ (r = q \/ a_div dec 1%Qc q = Ok r).
Proof.
  unfold parse_doc. destruct (doc_observations root) as [l |]; cbn [option_map]; [ | discriminate ].
  intros H Hin. inversion H as [H']. clear H.
  destruct (parse_all_In _ _ _ _ H' Hin) as (o & Ho & Hp).
  apply in_map_iff in Ho. destruct Ho as (v & <- & _).
  destruct (parse_obs_some _ _ _ Hp) as (_ & [Hn | (_ & q & Hd & Hq)]).
  - exists r. split; [ | left; reflexivity ].
    destruct v as [ | b | t | s | l0 | o0]; cbn [obs_of_jv o_noon] in Hn; try discriminate.
    eapply rate_value_good. exact Hn.
  - exists q. split; [ | right; exact Hq ].
    destruct v as [ | b | t | s | l0 | o0]; cbn [obs_of_jv o_daily] in Hd; try discriminate.
    eapply rate_value_good. exact Hd.
Qed.

(* the shapes of observation that are skipped (reported as non-fatal, or silently when there is no rate) *)
Lemma skipped_shapes :
  (* not an object *)
  (forall v, (forall o, v <> JObj o) -> parse_obs (obs_of_jv v) = Ok None) /\
  (* no date, a date that is not a string, a date text that is no valid yyyy-mm-dd date *)
  (forall o, obj_get K_D o = None -> parse_obs (obs_of_jv (JObj o)) = Ok None) /\
  (forall o x, obj_get K_D o = Some x -> (forall s, x <> JStr s) -> parse_obs (obs_of_jv (JObj o)) = Ok None) /\
  (forall o s, obj_get K_D o = Some (JStr s) -> parse_date s = None -> parse_obs (obs_of_jv (JObj o)) = Ok None) /\
  (* an unusable noon value makes the observation be skipped even if the daily value is fine *)
  (forall o, rate_value K_NOON o = JBad -> parse_obs (obs_of_jv (JObj o)) = Ok None) /\
  (forall o, rate_value K_NOON o = JAbsent -> rate_value K_DAILY o <> JBad ->
             (exists q, rate_value K_DAILY o = JGood q) \/ parse_obs (obs_of_jv (JObj o)) = Ok None) /\
  (* what makes a value unusable: container not an object; no "v"; v not a string or number;
     v not a decimal text; v zero or negative *)
  (forall key o x, obj_get key o = Some x -> (forall c, x <> JObj c) -> rate_value key o = JBad) /\
  (forall key o c, obj_get key o = Some (JObj c) -> obj_get K_V c = None -> rate_value key o = JBad) /\
  (forall key o c x, obj_get key o = Some (JObj c) -> obj_get K_V c = Some x ->
                     to_decimal x = None -> rate_value key o = JBad) /\
  (forall key o c x q, obj_get key o = Some (JObj c) -> obj_get K_V c = Some x ->
                       to_decimal x = Some q -> (q <= 0)%Qc -> rate_value key o = JBad) /\
  to_decimal JNull = None /\ (forall b, to_decimal (JBool b) = None) /\
  (forall l, to_decimal (JArr l) = None) /\ (forall o, to_decimal (JObj o) = None).
Proof.
  repeat split.
  - intros v H. destruct v; try reflexivity. exfalso. eapply H. reflexivity.
  - intros o H. unfold obs_of_jv, parse_obs. cbn [o_date]. rewrite H. reflexivity.
  - intros o x H N. unfold obs_of_jv, parse_obs. cbn [o_date]. rewrite H.
    destruct x; try reflexivity. exfalso. eapply N. reflexivity.
  - intros o s H N. unfold obs_of_jv, parse_obs. cbn [o_date]. rewrite H, N. reflexivity.
  - intros o H. unfold obs_of_jv, parse_obs. cbn [o_date o_noon]. rewrite H.
    destruct (match obj_get K_D o with Some (JStr s) => parse_date s | _ => None end); reflexivity.
  - intros o H N. destruct (rate_value K_DAILY o) as [ | | q] eqn:E; [right | contradiction | left; eauto].
    unfold obs_of_jv, parse_obs. cbn [o_date o_noon o_daily]. rewrite H, E.
    destruct (match obj_get K_D o with Some (JStr s) => parse_date s | _ => None end); reflexivity.
  - intros key o x H N. unfold rate_value. rewrite H. destruct x; try reflexivity. exfalso. eapply N. reflexivity.
  - intros key o c H N. unfold rate_value. rewrite H, N. reflexivity.
  - intros key o c x H Hv N. unfold rate_value, to_positive_decimal. rewrite H, Hv, N. reflexivity.
  - intros key o c x q H Hv Hq Hle. unfold rate_value, to_positive_decimal. rewrite H, Hv, Hq.
    replace (Qcltb 0%Qc q) with false; [reflexivity | ]. symmetry. apply Qcltb_false. exact Hle.
Qed.

(* ---- examples ---- *)
(* numbers: how a number token reaches Decimal *)
Definition tok (s : list N) : jv := JNum s.
Lemma number_examples :
  (* 0.7 ; 7e-1 ; 1 ; 0.70 (scale kept) ; 12.5E1 *)
  to_decimal (tok [48; 46; 55]%N) = Some (Qcfrac 7 10) /\
  to_decimal (tok [55; 101; 45; 49]%N) = Some (Qcfrac 7 10) /\
  to_decimal (tok [49]%N) = Some (Qcfrac 1 1) /\
  to_decimal (tok [49; 50; 46; 53; 69; 49]%N) = Some (Qcfrac 125 1) /\
  (* 0.7655555555555555555555555555 as a NUMBER loses its last digits: the u64 mantissa keeps 19 of them *)
  to_decimal (tok [48; 46; 55; 54; 53; 53; 53; 53; 53; 53; 53; 53; 53; 53; 53; 53; 53; 53; 53; 53; 53; 53; 53; 53; 53; 53; 53; 53; 53; 53]%N)
    = None /\
  lex_number [48; 46; 55; 54; 53; 53; 53; 53; 53; 53; 53; 53; 53; 53; 53; 53; 53; 53; 53; 53; 53; 53; 53; 53; 53; 53; 53; 53; 53; 53]%N
    = Some (false, 7655555555555555555, -19) /\
  (* 1e-18 is printed in e notation, which Decimal::from_str rejects; 0 and -1.5 are not positive *)
  to_decimal (tok [49; 101; 45; 49; 56]%N) = None /\
  to_positive_decimal (tok [48]%N) = None /\
  to_positive_decimal (tok [45; 49; 46; 53]%N) = None /\
  to_positive_decimal (JStr [48; 46; 48; 48]%N) = None.
Proof. repeat split; vm_compute; reflexivity. Qed.

(* a daily document of two observations, with the members the Bank of Canada
   puts before the list, and a noon document *)
Definition ex_pre : list (bytes * jv) := [([116; 101; 114; 109; 115]%N, JObj [([117; 114; 108]%N, JStr [104]%N)])].
Definition ex_daily_doc : jv := boc_doc ex_pre true [(18997, (7812, 4%nat)); (18998, (8, 1%nat))].
Definition ex_noon_doc : jv := boc_doc [] false [(17164, (13427, 4%nat))].

Lemma document_example :
  Forall wf_boc [(18997, (7812, 4%nat)); (18998, (8, 1%nat))] /\
  parse_doc ex_daily_doc = Some (Ok [(18997, Qcfrac 12800819252432155657962109575 10000000000000000000000000000); (18998, Qcfrac 12500000000000000000000000000 10000000000000000000000000000)]) /\
  parse_doc ex_noon_doc = Some (Ok [(17164, Qcfrac 13427 10000)]) /\
  parse_doc (JArr [ex_noon_doc]) = None /\
  parse_doc (JObj ex_pre) = None /\
  (* "observations" that is not an array: no members, no rates, no error *)
  parse_doc (JObj [(K_OBSERVATIONS, JObj ex_pre)]) = Some (Ok []) /\
  (* the same key twice: the last one counts *)
  parse_doc (JObj [(K_OBSERVATIONS, JArr [JNull]); (K_OBSERVATIONS, JArr [boc_obs false (17164, (13427, 4%nat))])])
    = Some (Ok [(17164, Qcfrac 13427 10000)]).
Proof.
  split.
  - repeat constructor; cbn [fst snd]; vm_compute; intuition discriminate.
  - repeat split; vm_compute; reflexivity.
Qed.
