(* C10: concrete histories for the entry-point theorem (Proofs/C10Entry.v) and
   the former witnesses of the class K_zero_sfl_cell (a forced zero
   superficial-loss cell made the re-run panic until the fix "treat a
   superficial loss that rounds to zero effective cents as no superficial
   loss"; both histories pass now). *)
From Coq Require Import List NArith ZArith QArith Qcanon Bool Lia Sorted.
From ACB Require Import Base.Outcome Base.QcExtra Base.Arith Model.Tx Model.Ledger Model.Sfl
     Model.DeltaList Model.App Model.Summary Model.SummaryObs Proofs.SummaryProps Proofs.C15Full Proofs.SortLayout
     Proofs.C10Scan Proofs.C10Sim Proofs.C10Roundtrip Proofs.C10Ranges Proofs.C10Cut Proofs.C10Window Proofs.C10Classes
     Proofs.C10Entry.
Import ListNotations.
Local Open Scope Z_scope.

(* a superficial-loss cell holding zero on some sale *)
Definition zero_cell (t : tx) : bool :=
  match t_act t with Sell _ _ _ _ _ (Some (v, _)) => Qceqb v 0 | _ => false end.
Definition K_zero_sfl_cell (rows : list tx) : bool := existsb zero_cell rows.

Lemma spec_nz_of_cells rows : forallb valid_tx rows = true -> K_zero_sfl_cell rows = false -> Forall spec_nz rows.
Proof.
  intros Hv Hz. apply Forall_forall. intros t Ht.
  rewrite forallb_forall in Hv. specialize (Hv t Ht).
  assert (Hc : zero_cell t = false).
  { destruct (zero_cell t) eqn:E; [|reflexivity]. exfalso.
    assert (Hx : existsb zero_cell rows = true) by (apply existsb_exists; exists t; split; assumption).
    unfold K_zero_sfl_cell in Hz. congruence. }
  unfold spec_nz, zero_cell, valid_tx, valid_action in *. destruct (t_act t) as [| sh aps com rate crate [[v f]|] | | |]; try exact I.
  apply andb_true_iff in Hv as [_ Hv]. apply Qcleb_true in Hv.
  destruct (Qceqb_spec v 0) as [|Hne]; [discriminate|]. apply Qcle_lt_or_eq in Hv as [Hv|Hv]; [exact Hv | contradiction].
Qed.
Lemma sell_pos_of_valid rows : forallb valid_tx rows = true -> Forall sell_pos rows.
Proof.
  intros Hv. apply Forall_forall. intros t Ht. rewrite forallb_forall in Hv. specialize (Hv t Ht).
  unfold sell_pos, valid_tx, valid_action in *. destruct (t_act t); try exact I.
  repeat (apply andb_true_iff in Hv as [Hv _]). apply Qcltb_true. exact Hv.
Qed.

(* ---------------------------------------------------------------- the history of C10Classes, at the entry points *)
Definition rt_rows : list tx := rt_P ++ rt_K ++ rt_T.
Definition no_reg : N -> bool := fun _ => false.

Lemma rt_entry_hypotheses :
  number_from 0 rt_rows = rt_rows
  /\ Forall (rowQ no_reg 0) rt_rows /\ forallb valid_tx rt_rows = true /\ K_zero_sfl_cell rt_rows = false
  /\ history_ok exact rt_rows = true
  /\ K_summary_buy_in_window exact rt_date false rt_rows = false
  /\ K_zero_balance_acb exact rt_date rt_rows = false
  /\ (forall sums, make_summary exact rt_date (fst (sec_run exact rt_rows)) false = Ok sums -> through_csv sums = sums)
  /\ length (later_deltas rt_date (fst (sec_run exact rt_rows))) = 4%nat.
Proof.
  split; [reflexivity|]. split; [repeat constructor|]. split; [vm_compute; reflexivity|]. split; [vm_compute; reflexivity|].
  split; [vm_compute; reflexivity|]. split; [vm_compute; reflexivity|]. split; [vm_compute; reflexivity|].
  split; [|vm_compute; reflexivity].
  intros sums H. vm_compute in H. inversion H; subst sums. vm_compute. reflexivity.
Qed.

(* an affiliate that sold everything before the date (no summary row for it),
   a later sale at a loss of the other affiliate *)
Definition idle_rows : list tx :=
  [wrow 0 737000 (wbuy 10 10) default_aff; wrow 1 737010 (wbuy 5 10) spouse_aff;
   wrow 2 737020 (wsell 5 12) spouse_aff; wrow 3 737200 (wsell 2 4) default_aff;
   wrow 4 737210 (wbuy 1 5) spouse_aff].
Definition idle_date : Z := 737100.
Lemma idle_entry_hypotheses :
  number_from 0 idle_rows = idle_rows
  /\ Forall (rowQ no_reg 0) idle_rows /\ forallb valid_tx idle_rows = true /\ K_zero_sfl_cell idle_rows = false
  /\ history_ok exact idle_rows = true
  /\ K_summary_buy_in_window exact idle_date false idle_rows = false
  /\ K_zero_balance_acb exact idle_date idle_rows = false
  /\ (forall sums, make_summary exact idle_date (fst (sec_run exact idle_rows)) false = Ok sums -> through_csv sums = sums)
  /\ existsb is_sfl_delta (later_deltas idle_date (fst (sec_run exact idle_rows))) = true.
Proof.
  split; [reflexivity|]. split; [repeat constructor|]. split; [vm_compute; reflexivity|]. split; [vm_compute; reflexivity|].
  split; [vm_compute; reflexivity|]. split; [vm_compute; reflexivity|]. split; [vm_compute; reflexivity|].
  split; [|vm_compute; reflexivity].
  intros sums H. vm_compute in H. inversion H; subst sums. vm_compute. reflexivity.
Qed.

(* ---------------------------------------------------------------- a forced zero cell: the re-run PANICKED, now passes
   default buys 10 @ $10; the spouse buys 5 and sells them at a gain (no summary
   row for her); -- date --; default sells 1 @ $9 with the cell "0!" (forced:
   not superficial), then buys 0.000000000001 shares.  The full history
   computes a superficial loss from the spouse's purchase (ignored: forced);
   the re-run sees only the tiny purchase, computes a loss that rounds to 0.00
   and panicked (Site 11, util/math.rs:93 - the panic of finding C05
   eff-cent-zero, masked in the full history).  Since the fix the rounded
   amount is a LessEqualZeroDecimal, the forced cell is used, the sale carries
   no superficial loss in the re-run either and the round trip holds. *)
Definition wsell_forced0 (sh price : Z) : action :=
  Sell (wq sh 1) (wq price 1) (wq 0 1) (wq 1 1) (wq 1 1) (Some (wq 0 1, true)).
Definition wit5 : list tx :=
  [wrow 0 737000 (wbuy 10 10) default_aff; wrow 1 737100 (wbuy 5 10) spouse_aff; wrow 2 737101 (wsell 5 12) spouse_aff;
   wrow 3 737110 (wsell_forced0 1 9) default_aff;
   wrow 4 737115 (Buy (wq 1 1000000000000) (wq 10 1) (wq 0 1) (wq 1 1) (wq 1 1)) default_aff].
Definition wit5_date : Z := 737105.
Lemma wit5_passes :
  history_ok exact wit5 = true /\ history_ok dec wit5 = true
  /\ roundtrip_ok exact wit5_date false wit5 = true /\ roundtrip_obs_ok exact wit5_date false wit5 = true
  /\ roundtrip_obs_ok dec wit5_date false wit5 = true
  /\ K_summary_buy_in_window exact wit5_date false wit5 = false
  /\ K_zero_balance_acb exact wit5_date wit5 = false
  /\ K_idle_split_expansion exact wit5_date wit5 = false
  /\ K_zero_sfl_cell wit5 = true
  /\ Forall (rowQ no_reg 0) wit5 /\ forallb valid_tx wit5 = true.
Proof. vm_compute. repeat split; repeat constructor. Qed.

(* ---------------------------------------------------------------- the entry-point theorem with executable side conditions *)
Theorem roundtrip_single_security_exec regof sec latest rows0 :
  let rows := number_from 0 rows0 in
  Forall (rowQ regof sec) rows0 -> forallb valid_tx rows0 = true -> K_zero_sfl_cell rows0 = false ->
  history_ok exact rows = true ->
  K_summary_buy_in_window exact latest false rows = false ->
  K_zero_balance_acb exact latest rows = false ->
  (forall sums, make_summary exact latest (fst (sec_run exact rows)) false = Ok sums -> through_csv sums = sums) ->
  roundtrip_ok exact latest false rows = true /\ roundtrip_obs_ok exact latest false rows = true.
Proof.
  intros rows HQ Hv Hz. apply (roundtrip_single_security regof sec); [exact HQ | apply spec_nz_of_cells; assumption | apply sell_pos_of_valid; exact Hv].
Qed.

(* the same with quantities of at most 10 decimal places: a loss of $0.50 on
   one share, 0.0000000001 shares bought five days later (the computed loss is
   -0.00000000005, within 1e-10 of 0.00) *)
Definition wit6 : list tx :=
  [wrow 0 737000 (wbuy 10 10) default_aff; wrow 1 737100 (wbuy 5 10) spouse_aff; wrow 2 737101 (wsell 5 12) spouse_aff;
   wrow 3 737110 (Sell (wq 1 1) (wq 19 2) (wq 0 1) (wq 1 1) (wq 1 1) (Some (wq 0 1, true))) default_aff;
   wrow 4 737115 (Buy (wq 1 10000000000) (wq 10 1) (wq 0 1) (wq 1 1) (wq 1 1)) default_aff].
Lemma wit6_passes :
  history_ok exact wit6 = true /\ history_ok dec wit6 = true
  /\ roundtrip_obs_ok exact wit5_date false wit6 = true /\ roundtrip_obs_ok dec wit5_date false wit6 = true
  /\ K_summary_buy_in_window exact wit5_date false wit6 = false
  /\ K_zero_balance_acb exact wit5_date wit6 = false
  /\ K_idle_split_expansion exact wit5_date wit6 = false
  /\ K_zero_sfl_cell wit6 = true
  /\ Forall (rowQ no_reg 0) wit6 /\ forallb valid_tx wit6 = true.
Proof. vm_compute. repeat split; repeat constructor. Qed.
