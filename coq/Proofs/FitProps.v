(* Properties of the rust_decimal rounding operator [fit]: every result is a
   decimal with at most 28 places whose mantissa fits 96 bits, within half a
   unit in its last place of the exact value; weak sign is preserved; values
   that are already such decimals are returned unchanged. *)
From Coq Require Import QArith Qcanon ZArith Lia Qabs.
From ACB Require Import Base.QcExtra Base.Fit.
Local Open Scope Z_scope.

Lemma rhe_bounds n d : 2 * Z.abs (rhe n d * Zpos d - n) <= Zpos d.
Proof.
  unfold rhe. pose proof (Z.div_mod n (Zpos d) ltac:(lia)) as Hdm.
  pose proof (Z.mod_pos_bound n (Zpos d) ltac:(lia)) as Hr.
  set (q := n / Zpos d) in *. set (r := n mod Zpos d) in *.
  destruct (Z.compare_spec (2 * r) (Zpos d)); [destruct (Z.even q)| |]; nia.
Qed.

Lemma rhe_exact n d k : n = k * Zpos d -> rhe n d = k.
Proof.
  intros ->. unfold rhe. rewrite Z.div_mul by lia. rewrite Z.mod_mul by lia.
  cbn. reflexivity.
Qed.

Lemma rhe_sign n d : (0 <= n -> 0 <= rhe n d) /\ (n <= 0 -> rhe n d <= 0).
Proof.
  unfold rhe. pose proof (Z.div_mod n (Zpos d) ltac:(lia)) as Hdm.
  pose proof (Z.mod_pos_bound n (Zpos d) ltac:(lia)) as Hr.
  set (q := n / Zpos d) in *. set (r := n mod Zpos d) in *.
  split; intros Hn.
  - assert (0 <= q) by (subst q; apply Z.div_pos; lia).
    destruct (Z.compare (2 * r) (Zpos d)); [destruct (Z.even q)| |]; lia.
  - destruct (Z.eq_dec n 0) as [->|Hnz].
    + subst q r. rewrite Z.div_0_l, Z.mod_0_l by lia. cbn. lia.
    + assert (q <= -1) by nia.
      destruct (Z.compare (2 * r) (Zpos d)); [destruct (Z.even q)| |]; lia.
Qed.

(* the scale actually used and its mantissa *)
Lemma fit_from_some s n d r :
  fit_from s n d = Some r ->
  exists s', (s' <= s)%nat /\
             r = Qcfrac (rhe (n * Zpos (p10 s')) d) (p10 s') /\
             Z.abs (rhe (n * Zpos (p10 s')) d) <= max_mant.
Proof.
  induction s as [|s IH]; cbn [fit_from]; intros H.
  - destruct (Z.leb_spec (Z.abs (rhe (n * Zpos (p10 0)) d)) max_mant); [|discriminate].
    inversion H; subst. exists 0%nat. auto.
  - destruct (Z.leb_spec (Z.abs (rhe (n * Zpos (p10 (S s))) d)) max_mant).
    + inversion H; subst. exists (S s). auto.
    + destruct (IH H) as (s' & Hs & Hr & Hm). exists s'. split; [lia | auto].
Qed.

(* error of one rounding, over Q: |r - n/d| <= 1 / (2 * 10^s') *)
Theorem fit_error (q r : Qc) :
  fit q = Some r ->
  exists s', (s' <= 28)%nat /\
    (Qabs (this r - this q) <= 1 # (2 * p10 s'))%Q /\
    exists m, Z.abs m <= max_mant /\ (this r == m # p10 s')%Q.
Proof.
  unfold fit. intros H. apply fit_from_some in H as (s' & Hs & -> & Hm).
  exists s'. split; [exact Hs|]. set (n := Qnum (this q)) in *. set (d := Qden (this q)) in *.
  set (m := rhe (n * Zpos (p10 s')) d) in *.
  assert (Hr : (this (Qcfrac m (p10 s')) == m # p10 s')%Q) by (unfold Qcfrac, Q2Qc; cbn [this]; apply Qred_correct).
  split; [|exists m; split; [exact Hm | exact Hr]].
  rewrite Hr. assert (Hq : (this q == n # d)%Q) by (subst n d; destruct (this q); reflexivity).
  rewrite Hq. pose proof (rhe_bounds (n * Zpos (p10 s')) d) as Hb. fold m in Hb.
  unfold Qabs, Qminus, Qplus, Qopp, Qle. cbn [Qnum Qden].
  rewrite Z.abs_mul || idtac.
  (* |m*d - n*p| * (2p) <= 1 * (p*d)  with p = 10^s' *)
  assert (Hgoal : Z.abs (m * Zpos d + - n * Zpos (p10 s')) * Zpos (2 * p10 s') <= 1 * Zpos (p10 s' * d)).
  { rewrite Pos2Z.inj_mul, Pos2Z.inj_mul.
    replace (m * Zpos d + - n * Zpos (p10 s')) with (m * Zpos d - n * Zpos (p10 s')) by lia.
    nia. }
  exact Hgoal.
Qed.

Theorem fit_sign (q r : Qc) :
  fit q = Some r -> ((0 <= q)%Qc -> (0 <= r)%Qc) /\ ((q <= 0)%Qc -> (r <= 0)%Qc).
Proof.
  unfold fit. intros H. apply fit_from_some in H as (s' & Hs & -> & Hm).
  set (n := Qnum (this q)) in *. set (d := Qden (this q)) in *.
  destruct (rhe_sign (n * Zpos (p10 s')) d) as [Hp Hn].
  assert (Hq0 : forall x : Z, (0 <= x)%Z <-> (0 <= Qcfrac x (p10 s'))%Qc).
  { intros x. unfold Qcle, Qcfrac, Q2Qc. cbn [this]. rewrite !Qred_correct. unfold Qle. cbn [Qnum Qden]. lia. }
  assert (Hq1 : forall x : Z, (x <= 0)%Z <-> (Qcfrac x (p10 s') <= 0)%Qc).
  { intros x. unfold Qcle, Qcfrac, Q2Qc. cbn [this]. rewrite !Qred_correct. unfold Qle. cbn [Qnum Qden]. lia. }
  split; intros Hq.
  - apply (proj1 (Hq0 _)). apply Hp. unfold Qcle, Q2Qc in Hq. cbn [this] in Hq. rewrite Qred_correct in Hq.
    unfold Qle in Hq. cbn [Qnum Qden] in Hq. subst n. nia.
  - apply (proj1 (Hq1 _)). apply Hn. unfold Qcle, Q2Qc in Hq. cbn [this] in Hq. rewrite Qred_correct in Hq.
    unfold Qle in Hq. cbn [Qnum Qden] in Hq. subst n. nia.
Qed.

(* ---- decimals that already fit are returned unchanged ---- *)
Lemma p10_S s : p10 (S s) = (10 * p10 s)%positive.
Proof.
  destruct s as [|s]; [reflexivity|].
  unfold p10, pow10. change (Pos.of_nat (S (S s))) with (Pos.succ (Pos.of_nat (S s))).
  rewrite Pos.pow_succ_r. reflexivity.
Qed.

Lemma p10_add s j : Zpos (p10 (s + j)) = Zpos (p10 s) * 10 ^ Z.of_nat j.
Proof.
  induction j as [|j IH].
  - rewrite Nat.add_0_r. cbn. lia.
  - rewrite Nat.add_succ_r, p10_S, Pos2Z.inj_mul, IH, Nat2Z.inj_succ, Z.pow_succ_r by lia. lia.
Qed.

Lemma Qcfrac_eq (q : Qc) m p : (this q == m # p)%Q -> Qcfrac m p = q.
Proof.
  intros H. apply Qc_is_canon. unfold Qcfrac, Q2Qc. cbn [this]. rewrite Qred_correct. symmetry. exact H.
Qed.

Theorem fit_exact (q : Qc) m s :
  (s <= 28)%nat -> Z.abs m <= max_mant -> (this q == m # p10 s)%Q -> fit q = Some q.
Proof.
  intros Hs Hm Hq. unfold fit. set (n := Qnum (this q)). set (d := Qden (this q)).
  assert (Hnd : n * Zpos (p10 s) = m * Zpos d).
  { unfold Qeq in Hq. cbn [Qnum Qden] in Hq. subst n d. exact Hq. }
  assert (Hk : forall k, fit_from (s + k) n d = Some q).
  { induction k as [|k IH].
    - rewrite Nat.add_0_r.
      assert (Hr : rhe (n * Zpos (p10 s)) d = m) by (apply rhe_exact; exact Hnd).
      destruct s; cbn [fit_from]; rewrite Hr;
        (destruct (Z.leb_spec (Z.abs m) max_mant); [|lia]); f_equal; apply Qcfrac_eq; exact Hq.
    - rewrite Nat.add_succ_r. cbn [fit_from].
      assert (Hr : rhe (n * Zpos (p10 (S (s + k)))) d = m * 10 ^ Z.of_nat (S k)).
      { apply rhe_exact. rewrite <- Nat.add_succ_r, p10_add. nia. }
      rewrite Hr. destruct (Z.leb_spec (Z.abs (m * 10 ^ Z.of_nat (S k))) max_mant); [|exact IH].
      f_equal. apply Qcfrac_eq. rewrite Hq. unfold Qeq. cbn [Qnum Qden].
      rewrite <- Nat.add_succ_r, p10_add. nia. }
  replace 28%nat with (s + (28 - s))%nat by lia. apply Hk.
Qed.

(* consequence: exact sums / differences / products of such decimals that
   are again such decimals are computed exactly by the dec arithmetic *)
Corollary fit_exact_int (z : Z) : Z.abs z <= max_mant -> fit (QcZ z) = Some (QcZ z).
Proof.
  intros H. apply (fit_exact _ z 0); [lia | exact H|].
  unfold QcZ, Q2Qc. cbn [this]. rewrite Qred_correct. reflexivity.
Qed.

(* ---- when the operator overflows: exactly for magnitudes beyond the 96-bit
   integer range (no scale fits, not even scale 0) ---- *)
Lemma rhe_le_bound n d M : 0 <= M -> Z.abs n <= M * Zpos d -> Z.abs (rhe n d) <= M.
Proof.
  intros HM Hn. pose proof (rhe_bounds n d) as Hb. nia.
Qed.

Lemma fit_from_total s n d :
  Z.abs n <= max_mant * Zpos d -> exists r, fit_from s n d = Some r.
Proof.
  intros Hn. induction s as [|s IH]; cbn [fit_from].
  - replace (n * Zpos (p10 0)) with n by (cbn; lia).
    assert (H : Z.abs (rhe n d) <= max_mant) by (apply rhe_le_bound; [unfold max_mant; lia | exact Hn]).
    destruct (Z.leb_spec (Z.abs (rhe n d)) max_mant); [eexists; reflexivity | lia].
  - destruct (Z.leb (Z.abs (rhe (n * Zpos (p10 (S s))) d)) max_mant); [eexists; reflexivity | exact IH].
Qed.

(* a value of magnitude at most 2^96 - 1 never overflows *)
Theorem fit_total_in_range (q : Qc) :
  Z.abs (Qnum (this q)) <= max_mant * Zpos (Qden (this q)) -> exists r, fit q = Some r.
Proof. intros H. unfold fit. apply fit_from_total. exact H. Qed.

Lemma fit_from_none s n d :
  fit_from s n d = None -> max_mant < Z.abs (rhe n d).
Proof.
  induction s as [|s IH]; cbn [fit_from].
  - replace (n * Zpos (p10 0)) with n by (cbn; lia).
    destruct (Z.leb_spec (Z.abs (rhe n d)) max_mant); [discriminate | intros _; assumption].
  - destruct (Z.leb (Z.abs (rhe (n * Zpos (p10 (S s))) d)) max_mant); [discriminate | exact IH].
Qed.

(* an overflow means the exact value rounds (to an integer) beyond 2^96 - 1:
   its magnitude is at least 2^96 - 1/2 *)
Theorem fit_none_magnitude (q : Qc) :
  fit q = None -> 2 * max_mant * Zpos (Qden (this q)) + Zpos (Qden (this q)) <= 2 * Z.abs (Qnum (this q)).
Proof.
  unfold fit. intros H. apply fit_from_none in H.
  pose proof (rhe_bounds (Qnum (this q)) (Qden (this q))) as Hb. nia.
Qed.
