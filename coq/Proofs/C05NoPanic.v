(* C05, positive half under exact arithmetic: on rows that parse (valid
   quantities, registered flag a function of the affiliate id) the
   bookkeeping core raises NO panic.  (Before the fix "treat a superficial
   loss that rounds to zero effective cents as no superficial loss" there was
   one: c_maybe_round_to_effective_cent rounding a tiny denied loss to 0.00
   and unwrapping it as a NegDecimal.)  Every panic of the real code is
   therefore an effect of rust_decimal rounding / overflow (the two remaining
   known classes). *)
From Coq Require Import List NArith ZArith QArith Qcanon Bool Lia.
From ACB Require Import Base.Outcome Base.QcExtra Base.Fit Base.Arith Model.Tx Model.Ledger Model.Sfl
     Model.DeltaList Spec.AvgCost Proofs.Tactics Proofs.C01Refine Proofs.C04Inv Proofs.C04Sum Proofs.C02Scan
     Proofs.C05Sites Proofs.C04Reject Proofs.C03Conserve Proofs.EffCent Proofs.AllAfter.
Import ListNotations.
Local Open Scope Qc_scope.

Definition nopanic {T} (m : res T) : Prop := forall p, m <> Panic p.

Lemma nopanic_bind {T U} (m : res T) (f : T -> res U) :
  nopanic m -> (forall x, m = Ok x -> nopanic (f x)) -> nopanic (bind m f).
Proof.
  intros Hm Hf p E. destruct m as [x|r|q]; cbn [bind] in E.
  - exact (Hf x eq_refl p E).
  - discriminate E.
  - exact (Hm q eq_refl).
Qed.
Lemma nopanic_ok {T} (x : T) : nopanic (Ok x). Proof. intros p; discriminate. Qed.
Lemma nopanic_rej {T} r : nopanic (@Rej T r). Proof. intros p; discriminate. Qed.

(* ---- primitives: success with the expected value ---- *)
Lemma gez_add_ok a b : 0 <= a -> 0 <= b -> gez_add exact a b = Ok (a + b).
Proof.
  intros Ha Hb. unfold gez_add, gez_unwrap. cbn [a_add exact bind].
  destruct (Qcleb_spec 0 (a + b)) as [_|H]; [reflexivity | exfalso; apply H; qc_lra].
Qed.
Lemma gez_mul_ok a b : 0 <= a -> 0 <= b -> gez_mul exact a b = Ok (a * b).
Proof.
  intros Ha Hb. unfold gez_mul, gez_unwrap. cbn [a_mul exact bind].
  destruct (Qcleb_spec 0 (a * b)) as [_|H]; [reflexivity | exfalso; apply H; apply Qcmul_nonneg; assumption].
Qed.
Lemma Qcdiv_nonneg a b : 0 <= a -> 0 < b -> 0 <= a / b.
Proof. intros Ha Hb. unfold Qcdiv. apply Qcmul_nonneg; [exact Ha | apply Qclt_le_weak; apply Qcinv_pos; exact Hb]. Qed.
Lemma gez_div_ok a b : 0 <= a -> 0 < b -> gez_div exact a b = Ok (a / b).
Proof.
  intros Ha Hb. unfold gez_div, gez_unwrap. cbn [a_div exact].
  destruct (Qceqb_spec b 0) as [E|_]; [exfalso; apply (Qclt_not_eq' _ Hb); exact E|]. cbn [bind].
  destruct (Qcleb_spec 0 (a / b)) as [_|H]; [reflexivity | exfalso; apply H; apply Qcdiv_nonneg; assumption].
Qed.
Lemma pos_mul_ok' a b : 0 < a -> 0 < b -> pos_mul exact a b = Ok (a * b).
Proof.
  intros Ha Hb. unfold pos_mul, pos_unwrap. cbn [a_mul exact bind].
  destruct (Qcltb_spec 0 (a * b)) as [_|H]; [reflexivity | exfalso; apply H; apply Qcmul_pos; assumption].
Qed.
Lemma pos_div_ok a b : 0 < a -> 0 < b -> pos_div exact a b = Ok (a / b).
Proof.
  intros Ha Hb. unfold pos_div, pos_unwrap. cbn [a_div exact].
  destruct (Qceqb_spec b 0) as [E|_]; [exfalso; apply (Qclt_not_eq' _ Hb); exact E|]. cbn [bind].
  destruct (Qcltb_spec 0 (a / b)) as [_|H]; [reflexivity | exfalso; apply H; apply Qcdiv_pos; assumption].
Qed.
Lemma Qcmul_neg_neg a b : a < 0 -> b < 0 -> 0 < a * b.
Proof.
  intros Ha Hb. assert (E : a * b = (- a) * (- b)) by ring. rewrite E. apply Qcmul_pos; qc_lra.
Qed.
Lemma neg_mul_ok a b : a < 0 -> b < 0 -> neg_mul exact a b = Ok (a * b).
Proof.
  intros Ha Hb. unfold neg_mul, pos_unwrap. cbn [a_mul exact bind].
  destruct (Qcltb_spec 0 (a * b)) as [_|H]; [reflexivity | exfalso; apply H; apply Qcmul_neg_neg; assumption].
Qed.
Lemma Qcneg_not0 b : b < 0 -> b <> 0.
Proof. intros H E. subst. apply (Qcle_not_lt 0 0 (Qcle_refl 0) H). Qed.
Lemma neg_div_ok a b : a < 0 -> b < 0 -> neg_div exact a b = Ok (a / b).
Proof.
  intros Ha Hb. unfold neg_div, pos_unwrap. cbn [a_div exact].
  destruct (Qceqb_spec b 0) as [E|_]; [exfalso; apply (Qcneg_not0 b Hb); exact E|]. cbn [bind].
  destruct (Qcltb_spec 0 (a / b)) as [_|H]; [reflexivity|]. exfalso. apply H.
  assert (E : a / b = (- a) / (- b)) by (field; split; [intros E0; apply (Qcneg_not0 b Hb); rewrite <- (Qcopp_involutive b), E0; reflexivity | apply (Qcneg_not0 b Hb)]).
  rewrite E. apply Qcdiv_pos; qc_lra.
Qed.
Lemma neg_mul_pos_ok a b : a < 0 -> 0 < b -> neg_mul_pos exact a b = Ok (a * b).
Proof.
  intros Ha Hb. unfold neg_mul_pos, neg_unwrap. cbn [a_mul exact bind].
  destruct (Qcltb_spec (a * b) 0) as [_|H]; [reflexivity|]. exfalso. apply H.
  assert (Hp : 0 < (- a) * b) by (apply Qcmul_pos; [qc_lra | exact Hb]).
  assert (E : (- a) * b = - (a * b)) by ring. rewrite E in Hp. remember (a * b) as y. clear - Hp. qc_lra.
Qed.

(* ---- validity of rows, as booleans turned into facts ---- *)
Definition vtx (t : tx) : Prop := valid_tx t = true.

Ltac vsplit H :=
  repeat match type of H with
         | (_ && _) = true => let H1 := fresh "V" in apply andb_prop in H as [H H1]
         end.

(* ---- the window scans ---- *)
Definition adj_pos (adj : list (N * Qc)) : Prop := forall k v, alookup k adj = Some v -> 0 < v.
Lemma adj_of_pos af adj : adj_pos adj -> 0 < adj_of af adj.
Proof. intros H. unfold adj_of. destruct (alookup _ adj) eqn:E; [eapply H; exact E | reflexivity]. Qed.
Lemma adj_pos_update k v adj : adj_pos adj -> 0 < v -> adj_pos (aupdate k v adj).
Proof.
  intros H Hv k' v'. rewrite alookup_aupdate.
  destruct (N.eqb k' k); intros E; [inversion E; subst; exact Hv | eapply H; exact E].
Qed.

Definition active_nonneg (m : list (N * Qc)) : Prop := forall k v, alookup k m = Some v -> 0 <= v.
Lemma active_update k v m : active_nonneg m -> 0 <= v -> active_nonneg (aupdate k v m).
Proof.
  intros H Hv k' v'. rewrite alookup_aupdate.
  destruct (N.eqb k' k); intros E; [inversion E; subst; exact Hv | eapply H; exact E].
Qed.
Definition scan_nn (s : scan) : Prop := 0 <= sc_eop s /\ 0 <= sc_acq s /\ active_nonneg (sc_active s).

Lemma old_nonneg (dflt : aff -> Qc) af m :
  active_nonneg m -> (forall a, 0 <= dflt a) ->
  0 <= match alookup (af_id af) m with Some d => d | None => dflt af end.
Proof. intros Hm Hd. destruct (alookup (af_id af) m) eqn:E; [eapply Hm; exact E | apply Hd]. Qed.

Lemma fwd_scan_np last dflt aft : (forall a, 0 <= dflt a) -> Forall vtx aft ->
  forall adj s, adj_pos adj -> scan_nn s ->
  nopanic (fwd_scan exact last dflt aft adj s) /\
  (forall s', fwd_scan exact last dflt aft adj s = Ok s' -> scan_nn s').
Proof.
  intros Hd. induction aft as [|x aft IH]; intros HV adj s Hadj Hs; cbn [fwd_scan].
  - split; [apply nopanic_ok | intros s' E; inversion E; subst; exact Hs].
  - apply Forall_cons_iff in HV as [Hx HV]. specialize (IH HV).
    destruct (Z.ltb last (t_sd x)); [split; [apply nopanic_ok | intros s' E; inversion E; subst; exact Hs]|].
    destruct Hs as (He & Ha & Hact). pose proof (adj_of_pos (t_af x) adj Hadj) as Hsa.
    unfold vtx, valid_tx in Hx.
    destruct (t_act x) as [sh aps com rate crate | sh aps com rate crate sp | aps rate | sh aps | post pre io];
      cbn [valid_action] in Hx.
    + vsplit Hx. apply Qcltb_true in Hx.
      assert (Hb : 0 <= sh / adj_of (t_af x) adj) by (apply Qclt_le_weak; apply Qcdiv_pos; assumption).
      rewrite (gez_div_ok sh _ (Qclt_le_weak _ _ Hx) Hsa). cbn [bind].
      rewrite (gez_add_ok _ _ He Hb). cbn [bind].
      pose proof (old_nonneg dflt (t_af x) _ Hact Hd) as Hold.
      rewrite (gez_add_ok _ _ Hold Hb). cbn [bind]. rewrite (gez_add_ok _ _ Ha Hb). cbn [bind].
      apply IH; [exact Hadj|]. split; [|split]; cbn [sc_eop sc_acq sc_active].
      * remember (sh / adj_of (t_af x) adj) as b. clear - He Hb. qc_lra.
      * remember (sh / adj_of (t_af x) adj) as b. clear - Ha Hb. qc_lra.
      * apply active_update; [exact Hact|]. remember (sh / adj_of (t_af x) adj) as b.
        remember (match alookup (af_id (t_af x)) (sc_active s) with Some d => d | None => dflt (t_af x) end) as o.
        clear - Hold Hb. qc_lra.
    + vsplit Hx. apply Qcltb_true in Hx.
      rewrite (gez_div_ok sh _ (Qclt_le_weak _ _ Hx) Hsa). cbn [bind a_sub exact].
      destruct (Qcltb_spec (sc_eop s - sh / adj_of (t_af x) adj) 0) as [|Hn1];
        [split; [apply nopanic_rej | intros s' E; discriminate E]|].
      match goal with |- context [Qcltb ?na 0] => destruct (Qcltb_spec na 0) as [|Hn2] end;
        [split; [apply nopanic_rej | intros s' E; discriminate E]|].
      apply IH; [exact Hadj|]. split; [|split]; cbn [sc_eop sc_acq sc_active].
      * apply Qcnot_lt_le. exact Hn1.
      * exact Ha.
      * apply active_update; [exact Hact | apply Qcnot_lt_le; exact Hn2].
    + apply IH; [exact Hadj | repeat split; assumption].
    + apply IH; [exact Hadj | repeat split; assumption].
    + vsplit Hx. apply Qcltb_true in Hx. apply Qcltb_true in V.
      unfold split_factor. rewrite (pos_div_ok _ _ Hx V). cbn [bind].
      assert (Hf : 0 < post / pre) by (apply Qcdiv_pos; assumption).
      rewrite (pos_mul_ok' _ _ Hsa Hf). cbn [bind].
      apply IH; [apply adj_pos_update; [exact Hadj | apply Qcmul_pos; assumption] | repeat split; assumption].
Qed.

Lemma bwd_scan_np first dflt bef : (forall a, 0 <= dflt a) -> Forall vtx bef ->
  forall adj s, adj_pos adj -> scan_nn s ->
  nopanic (bwd_scan exact first dflt bef adj s) /\
  (forall s', bwd_scan exact first dflt bef adj s = Ok s' -> scan_nn s').
Proof.
  intros Hd. induction bef as [|x bef IH]; intros HV adj s Hadj Hs; cbn [bwd_scan].
  - split; [apply nopanic_ok | intros s' E; inversion E; subst; exact Hs].
  - apply Forall_cons_iff in HV as [Hx HV]. specialize (IH HV).
    destruct (Z.ltb (t_sd x) first); [split; [apply nopanic_ok | intros s' E; inversion E; subst; exact Hs]|].
    destruct Hs as (He & Ha & Hact). pose proof (adj_of_pos (t_af x) adj Hadj) as Hsa.
    unfold vtx, valid_tx in Hx.
    destruct (t_act x) as [sh aps com rate crate | sh aps com rate crate sp | aps rate | sh aps | post pre io];
      cbn [valid_action] in Hx.
    + vsplit Hx. apply Qcltb_true in Hx.
      rewrite (pos_mul_ok' _ _ Hx Hsa). cbn [bind].
      assert (Hb : 0 <= sh * adj_of (t_af x) adj) by (apply Qclt_le_weak; apply Qcmul_pos; assumption).
      rewrite (gez_add_ok _ _ Ha Hb). cbn [bind].
      apply IH; [exact Hadj|]. split; [|split]; cbn [sc_eop sc_acq sc_active].
      * exact He.
      * remember (sh * adj_of (t_af x) adj) as b. clear - Ha Hb. qc_lra.
      * destruct (amem _ _); [exact Hact | apply active_update; [exact Hact | apply Hd]].
    + apply IH; [exact Hadj | repeat split; assumption].
    + apply IH; [exact Hadj | repeat split; assumption].
    + apply IH; [exact Hadj | repeat split; assumption].
    + vsplit Hx. apply Qcltb_true in Hx. apply Qcltb_true in V.
      unfold split_factor. rewrite (pos_div_ok _ _ Hx V). cbn [bind].
      assert (Hf : 0 < post / pre) by (apply Qcdiv_pos; assumption).
      rewrite (pos_mul_ok' _ _ Hsa Hf). cbn [bind].
      apply IH; [apply adj_pos_update; [exact Hadj | apply Qcmul_pos; assumption] | repeat split; assumption].
Qed.

Lemma bwd_scan_eop first dflt bef : forall adj s s',
  bwd_scan exact first dflt bef adj s = Ok s' -> sc_eop s' = sc_eop s.
Proof.
  induction bef as [|x bef IH]; intros adj s s' H; cbn [bwd_scan] in H; [inversion H; reflexivity|].
  destruct (Z.ltb _ _); [inversion H; reflexivity|].
  destruct (t_act x); try (eapply IH; exact H).
  - bind_as H as b E1. bind_as H as acq E2. apply IH in H. exact H.
  - bind_as H as fa E1. bind_as H as nsa E2. eapply IH; exact H.
Qed.

(* ---- get_superficial_loss_info ---- *)
Definition dflt_of (st : pstate) : aff -> Qc :=
  fun af => match latest_for st af with Some s => s_sh s | None => 0 end.
Lemma dflt_nonneg st af : st_ok st -> 0 <= dflt_of st af.
Proof.
  intros [HF _]. unfold dflt_of, latest_for. destruct (alookup _ (ps_map st)) eqn:E; [|apply Qcle_refl].
  eapply (alookup_Forall status_ok) in E; [|exact HF]. destruct E as [E _]. exact E.
Qed.

Lemma sfl_info_np bef t sold aft st :
  st_ok st -> Forall vtx bef -> Forall vtx aft ->
  nopanic (sfl_info exact bef t sold aft st) /\
  (forall s, sfl_info exact bef t sold aft st = Ok (Some s) ->
             scan_nn s /\ 0 < sc_eop s /\ 0 < sc_acq s /\ scan_ok s).
Proof.
  intros Hst Hb Ha. unfold sfl_info. cbn [a_sub exact bind]. fold (dflt_of st).
  change (match latest_for st (t_af t) with Some s => s_sh s | None => 0 end) with (dflt_of st (t_af t)).
  destruct (Qcltb_spec (s_all (latest_post_status st) - sold) 0) as [|H1];
    [split; [apply nopanic_rej | intros s E; discriminate E]|].
  destruct (Qcltb_spec (dflt_of st (t_af t) - sold) 0) as [|H2];
    [split; [apply nopanic_rej | intros s E; discriminate E]|].
  set (s0 := {| sc_eop := s_all (latest_post_status st) - sold; sc_acq := 0; sc_buyers := [];
                sc_active := [(af_id (t_af t), dflt_of st (t_af t) - sold)] |}).
  assert (Hs0 : scan_nn s0).
  { split; [apply Qcnot_lt_le; exact H1|]. split; [apply Qcle_refl|].
    intros k v. cbn [s0 sc_active alookup]. destruct (N.eqb k _); [|discriminate].
    intros E; inversion E; subst. apply Qcnot_lt_le. exact H2. }
  assert (Hs0' : scan_ok s0) by (split; cbn; [reflexivity | intros a []]).
  destruct (fwd_scan_np (t_sd t + window_days) (dflt_of st) aft (fun a => dflt_nonneg st a Hst) Ha [] s0)
    as [Np1 Nn1]; [intros k v E; discriminate E | exact Hs0 |].
  destruct (fwd_scan exact _ _ aft [] s0) as [s1| |q] eqn:E1; cbn [bind].
  2: split; [apply nopanic_rej | intros s E; discriminate E].
  2: exfalso; apply (Np1 q); reflexivity.
  specialize (Nn1 s1 eq_refl).
  destruct (Qcltb_spec 0 (sc_eop s1)) as [Hpos|]; cbn [negb];
    [|split; [apply nopanic_ok | intros s E; discriminate E]].
  destruct (bwd_scan_np (t_sd t - window_days) (dflt_of st) bef (fun a => dflt_nonneg st a Hst) Hb [] s1)
    as [Np2 Nn2]; [intros k v E; discriminate E | exact Nn1 |].
  destruct (bwd_scan exact _ _ bef [] s1) as [s2| |q] eqn:E2; cbn [bind].
  2: split; [apply nopanic_rej | intros s E; discriminate E].
  2: exfalso; apply (Np2 q); reflexivity.
  specialize (Nn2 s2 eq_refl).
  destruct (Qcltb_spec 0 (sc_acq s2)) as [Hacq|]; [|split; [apply nopanic_ok | intros s E; discriminate E]].
  split; [apply nopanic_ok|]. intros s E. inversion E; subst s. split; [exact Nn2|].
  split; [rewrite (bwd_scan_eop _ _ _ _ _ _ E2); exact Hpos|]. split; [exact Hacq|].
  eapply (bwd_scan_ok exact); [exact E2|]. eapply (fwd_scan_ok exact); [exact E1 | exact Hs0'].
Qed.

(* ---- calc_superficial_loss_ratio ---- *)
Lemma sum_buyers_np active l : active_nonneg active -> forall acc, 0 <= acc ->
  exists total, sum_buyers exact active l acc = Ok total /\ 0 <= total.
Proof.
  intros Hact. induction l as [|a l IH]; intros acc Hacc; cbn [sum_buyers]; [exists acc; auto|].
  assert (Hv : 0 <= match alookup (af_id a) active with Some d => d | None => 0 end).
  { destruct (alookup (af_id a) active) eqn:E; [eapply Hact; exact E | apply Qcle_refl]. }
  rewrite (gez_add_ok _ _ Hacc Hv). cbn [bind]. apply IH.
  remember (match alookup (af_id a) active with Some d => d | None => 0 end) as v. clear - Hacc Hv. qc_lra.
Qed.

Definition portion_ok (p : aff * (Qc * Qc)) : Prop := 0 <= fst (snd p) /\ 0 < snd (snd p).
Lemma portions_np active total l :
  active_nonneg active -> 0 < total -> (forall a, In a l -> amem (af_id a) active = true) ->
  exists ps, portions active total l = Ok ps /\ Forall portion_ok ps.
Proof.
  intros Hact Ht. induction l as [|a l IH]; intros Hm; cbn [portions]; [exists []; auto|].
  pose proof (Hm a (or_introl eq_refl)) as Ha. unfold amem in Ha.
  destruct (alookup (af_id a) active) as [d|] eqn:E; [|discriminate].
  destruct (IH (fun b Hb => Hm b (or_intror Hb))) as (ps & Eps & Hps). rewrite Eps. cbn [bind].
  eexists. split; [reflexivity|]. constructor; [|exact Hps]. split; cbn [fst snd]; [eapply Hact; exact E | exact Ht].
Qed.

Lemma sfl_ratio_np sold s :
  scan_nn s -> scan_ok s -> 0 < sc_acq s ->
  exists r, sfl_ratio exact sold (Some s) = Ok (Some r) /\
            sr_num r = min3 sold (sc_acq s) (sc_eop s) /\ sr_den r = sold /\ Forall portion_ok (sr_portions r).
Proof.
  intros (He & Ha & Hact) [Hb1 Hb2] Hacq. unfold sfl_ratio.
  destruct (sc_buyers s) as [|b bs] eqn:Eb.
  { exfalso. rewrite (Hb1 eq_refl) in Hacq. apply (Qcle_not_lt 0 0 (Qcle_refl 0) Hacq). }
  rewrite <- Eb.
  destruct (sum_buyers_np (sc_active s) (sort_affs (sc_buyers s)) Hact 0 (Qcle_refl 0)) as (total & Et & Ht).
  rewrite Et. cbn [bind].
  destruct (Qcltb_spec 0 total) as [Hpos|_].
  - destruct (portions_np (sc_active s) total (sort_affs (sc_buyers s)) Hact Hpos) as (ps & Eps & Hps).
    { intros a Hin. apply Hb2. rewrite <- Eb. apply in_sort_affs. exact Hin. }
    rewrite Eps. cbn [bind]. eexists. split; [reflexivity|]. cbn. auto.
  - cbn [bind]. eexists. split; [reflexivity|]. cbn. auto.
Qed.

(* ---- generated SfLA rows ---- *)
Lemma gen_sfla_np t loss ps :
  loss < 0 -> Forall portion_ok ps ->
  exists l, gen_sfla exact t loss ps = Ok l /\ Forall vtx l.
Proof.
  intros Hl. induction ps as [|[af [n d]] ps IH]; intros HF; cbn [gen_sfla]; [exists []; auto|].
  apply Forall_cons_iff in HF as [[Hn Hd] HF]. cbn [fst snd] in Hn, Hd.
  destruct (IH HF) as (l & El & Hv).
  destruct (Qceqb_spec n 0) as [|Hn0]; cbn [negb andb]; [exists l; auto|].
  destruct (af_reg af); cbn [negb]; [exists l; auto|].
  assert (Hnp : 0 < n).
  { apply Qcnot_le_lt. intros Hc. apply Hn0. apply Qcle_antisym; assumption. }
  cbn [a_div exact]. destruct (Qceqb_spec d 0) as [E|_]; [exfalso; apply (Qclt_not_eq' _ Hd); exact E|].
  cbn [bind]. unfold gez_unwrap, pos_unwrap.
  assert (Hq : 0 < n / d) by (apply Qcdiv_pos; assumption).
  destruct (Qcleb_spec 0 (n / d)) as [_|Hc]; [|exfalso; apply Hc; apply Qclt_le_weak; exact Hq]. cbn [bind].
  destruct (Qcltb_spec 0 (n / d)) as [_|Hc]; [|contradiction]. cbn [bind].
  assert (Hm1 : - (1) < 0) by reflexivity.
  rewrite (neg_mul_ok _ _ Hm1 Hl). cbn [bind].
  assert (Hm : 0 < - (1) * loss) by (apply Qcmul_neg_neg; assumption).
  rewrite (pos_mul_ok' _ _ Hm Hq). cbn [bind]. rewrite El. cbn [bind].
  eexists. split; [reflexivity|]. constructor; [|exact Hv].
  unfold vtx, valid_tx. cbn [t_act valid_action].
  apply andb_true_intro. split; apply Qcltb_true; [reflexivity | apply Qcmul_pos; assumption].
Qed.

(* ---- get_delta_superficial_loss_info ---- *)
Definition good_sfl (m : res (option (sflinfo * list tx))) : Prop :=
  match m with
  | Ok (Some (_, inj)) => Forall vtx inj
  | Ok None => True
  | Rej _ => True
  | Panic p => False
  end.

Lemma delta_sfl_good bef t sold spec aft st loss :
  st_ok st -> Forall vtx bef -> Forall vtx aft -> 0 < sold -> loss < 0 ->
  good_sfl (delta_sfl exact bef t sold spec aft st loss).
Proof.
  intros Hst Hb Ha Hsold Hloss. unfold delta_sfl.
  destruct (sfl_info_np bef t sold aft st Hst Hb Ha) as [Np Hfacts].
  assert (Hq2 : forall sv, sv < 0 -> 0 < sv / loss).
  { intros sv Hsv. assert (E : sv / loss = (- sv) / (- loss)) by (field; split; [intros E0; apply (Qcneg_not0 loss Hloss); rewrite <- (Qcopp_involutive loss), E0; reflexivity | apply (Qcneg_not0 loss Hloss)]).
    rewrite E. apply Qcdiv_pos; qc_lra. }
  destruct (sfl_info exact bef t sold aft st) as [[s|]| r0 |q] eqn:Ei; cbn [bind].
  4: exfalso; apply (Np q); reflexivity.
  3: exact I.
  - destruct (Hfacts s eq_refl) as (Hnn & Heop & Hacq & Hok).
    destruct (sfl_ratio_np sold s Hnn Hok Hacq) as (r & Er & Hnum & Hden & Hps).
    rewrite Er. cbn [bind]. rewrite Hnum, Hden. cbn [a_div exact].
    destruct (Qceqb_spec sold 0) as [E0|_]; [exfalso; apply (Qclt_not_eq' _ Hsold); exact E0|]. cbn [bind].
    assert (Hq : 0 < min3 sold (sc_acq s) (sc_eop s) / sold)
      by (apply Qcdiv_pos; [apply min3_pos; assumption | exact Hsold]).
    unfold pos_unwrap at 1. destruct (Qcltb_spec 0 (min3 sold (sc_acq s) (sc_eop s) / sold)) as [_|Hc]; [|contradiction].
    cbn [bind]. rewrite (neg_mul_pos_ok _ _ Hloss Hq). cbn [bind].
    assert (Hl : loss * (min3 sold (sc_acq s) (sc_eop s) / sold) <= 0).
    { apply Qclt_le_weak. rewrite <- (Qcmult_0_l (min3 sold (sc_acq s) (sc_eop s) / sold)).
      apply Qcmult_lt_compat_r; assumption. }
    assert (Hec : exists c, eff_cent exact (loss * (min3 sold (sc_acq s) (sc_eop s) / sold)) = Ok c)
      by (unfold eff_cent; cbn [a_sub exact bind]; destruct (Qcltb _ _); eexists; reflexivity).
    destruct Hec as [c Hec]. rewrite Hec. cbn [bind].
    rewrite (eff_cent_site_ok exact _ _ Hl Hec). cbn [bind].
    destruct spec as [[sv force]|].
    + destruct force; cbn [bind a_sub exact];
        [| destruct (Qcltb (Qcfrac 1 1000) _); cbn [bind]; [exact I|]].
      all: destruct (Qcltb_spec sv 0) as [Hsv|_]; cbn [negb]; [|exact I].
      all: rewrite (neg_div_ok _ _ Hsv Hloss); cbn [bind].
      all: rewrite (pos_mul_ok' _ _ (Hq2 sv Hsv) Hsold); cbn [bind good_sfl]; constructor.
    + destruct (Qcltb_spec c 0) as [Hc|_]; cbn [negb]; [|exact I].
      destruct (gen_sfla_np t c (sr_portions r) Hc Hps) as (l & El & Hv). rewrite El. cbn [bind good_sfl]. exact Hv.
  - cbn [sfl_ratio bind]. destruct spec as [[sv force]|]; [|exact I].
    destruct force; cbn [bind a_sub exact];
      [| destruct (Qcltb (Qcfrac 1 1000) _); cbn [bind]; [exact I|]].
    all: destruct (Qcltb_spec sv 0) as [Hsv|_]; cbn [negb]; [|exact I].
    all: rewrite (neg_div_ok _ _ Hsv Hloss); cbn [bind].
    all: rewrite (pos_mul_ok' _ _ (Hq2 sv Hsv) Hsold); cbn [bind good_sfl]; constructor.
Qed.

(* ---- delta_for_tx ---- *)
Definition good_d (m : res (delta * list tx)) : Prop :=
  match m with
  | Ok (_, inj) => Forall vtx inj
  | Rej _ => True
  | Panic p => False
  end.

Section Rows.
  Variable regof : N -> bool.

  Lemma local_value_ok sh aps rate : 0 <= sh -> 0 <= aps -> 0 <= rate ->
    local_value exact sh aps rate = Ok (aps * sh * rate).
  Proof.
    intros H1 H2 H3. unfold local_value. rewrite (gez_mul_ok _ _ H2 H1). cbn [bind].
    apply gez_mul_ok; [apply Qcmul_nonneg; assumption | exact H3].
  Qed.

  Lemma delta_for_tx_good bef t aft st :
    st_inv regof st -> af_ok regof (t_af t) -> vtx t -> Forall vtx bef -> Forall vtx aft ->
    good_d (delta_for_tx exact bef t aft st).
  Proof.
    intros Hinv Haf Hv Hb Ha. unfold delta_for_tx.
    rewrite (sanity_never_rejects regof st (t_af t) Hinv Haf). cbn [bind].
    pose proof (next_pre_acb regof st (t_af t) Hinv Haf) as Hacb.
    pose proof (next_pre_ok st (t_af t) (proj1 Hinv)) as (Hsh & Hall & Hacbok).
    set (pre := next_pre_status st (t_af t)) in *.
    unfold vtx, valid_tx in Hv.
    destruct (t_act t) as [n price com rate crate | n price com rate crate sp | amount rate
                          | n amount | post pre_ io] eqn:Ea; cbn [valid_action] in Hv.
    - (* Buy *)
      vsplit Hv. apply Qcltb_true in Hv. apply Qcleb_true in V2. apply Qcleb_true in V1.
      apply Qcltb_true in V0. apply Qcltb_true in V.
      unfold delta_nonsell. rewrite Ea.
      rewrite (gez_add_ok _ _ Hsh (Qclt_le_weak _ _ Hv)). cbn [bind].
      rewrite (all_after_exact_as _ _ _ (s_all pre + n)) by ring. cbn [bind].
      rewrite gez_unwrap_nn by (clear - Hall Hv; qc_lra). cbn [bind].
      destruct (s_acb pre) as [old|] eqn:Eo; [|cbn [bind good_d]; constructor].
      rewrite (local_value_ok _ _ _ (Qclt_le_weak _ _ Hv) V2 (Qclt_le_weak _ _ V0)). cbn [bind].
      rewrite (gez_mul_ok _ _ V1 (Qclt_le_weak _ _ V)). cbn [bind].
      assert (Hval : 0 <= price * n * rate).
      { apply Qcmul_nonneg; [apply Qcmul_nonneg; [exact V2 | apply Qclt_le_weak; exact Hv] | apply Qclt_le_weak; exact V0]. }
      assert (Hc : 0 <= com * crate) by (apply Qcmul_nonneg; [exact V1 | apply Qclt_le_weak; exact V]).
      rewrite (gez_add_ok _ _ Hval Hc). cbn [bind].
      assert (Hold : 0 <= old) by (apply Hacbok; reflexivity).
      rewrite gez_add_ok; [cbn [bind good_d]; constructor | exact Hold |].
      remember (price * n * rate) as a1. remember (com * crate) as a2. clear - Hval Hc. qc_lra.
    - (* Sell *)
      vsplit Hv. apply Qcltb_true in Hv. apply Qcleb_true in V3. apply Qcleb_true in V2.
      apply Qcltb_true in V1. apply Qcltb_true in V0.
      unfold sell_core. cbn [a_sub exact bind].
      destruct (Qcltb_spec (s_sh pre - n) 0) as [|Hn1]; [exact I|].
      rewrite (all_after_exact_as _ _ _ (s_all pre - n)) by ring. cbn [bind].
      destruct (Qcltb_spec (s_all pre - n) 0) as [|Hn2]; [exact I|].
      apply Qcnot_lt_le in Hn1. apply Qcnot_lt_le in Hn2.
      unfold per_share_acb. destruct (s_acb pre) as [acb|] eqn:Eo; cbn [bind sc_gain]; [|constructor].
      assert (Hacb0 : 0 <= acb) by (apply Hacbok; reflexivity).
      assert (Hps : exists acbps, (if Qcltb 0 (s_sh pre) then r <- gez_div exact acb (s_sh pre);; Ok (Some r) else Ok (Some 0))
                                  = Ok (Some acbps) /\ 0 <= acbps).
      { destruct (Qcltb_spec 0 (s_sh pre)) as [Hp|_].
        - rewrite (gez_div_ok _ _ Hacb0 Hp). cbn [bind]. eexists. split; [reflexivity | apply Qcdiv_nonneg; assumption].
        - eexists. split; [reflexivity | apply Qcle_refl]. }
      destruct Hps as (acbps & Eps & Hps0). rewrite Eps. cbn [bind].
      rewrite (gez_mul_ok _ _ Hn1 Hps0). cbn [bind].
      rewrite (local_value_ok _ _ _ (Qclt_le_weak _ _ Hv) V3 (Qclt_le_weak _ _ V1)). cbn [bind].
      rewrite (gez_mul_ok _ _ V2 (Qclt_le_weak _ _ V0)). cbn [bind a_sub a_mul exact sc_gain].
      match goal with |- context [Qcltb ?g 0] => destruct (Qcltb_spec g 0) as [Hg|_] end.
      + pose proof (delta_sfl_good bef t n sp aft st _ (proj1 Hinv) Hb Ha Hv Hg) as Hd.
        match goal with |- context [delta_sfl exact bef t n sp aft st ?g] => destruct (delta_sfl exact bef t n sp aft st g) as [[[info inj]|]| |] end;
          cbn [bind good_d good_sfl] in *; try exact Hd; constructor.
      + destruct sp; cbn [good_d]; [exact I | constructor].
    - (* RoC *)
      vsplit Hv. apply Qcleb_true in Hv. apply Qcltb_true in V.
      unfold delta_nonsell. rewrite Ea.
      destruct (s_acb pre) as [old|] eqn:Eo.
      + cbn [is_none] in Hacb. rewrite <- Hacb.
        rewrite (gez_mul_ok _ _ Hv Hsh). cbn [bind].
        rewrite gez_mul_ok; [|apply Qcmul_nonneg; assumption | apply Qclt_le_weak; exact V]. cbn [bind a_sub exact].
        destruct (Qcltb _ 0); cbn [bind good_d]; [exact I | constructor].
      + cbn [is_none] in Hacb. rewrite <- Hacb. cbn [negb bind good_d]. exact I.
    - (* SfLA *)
      vsplit Hv. apply Qcltb_true in Hv. apply Qcltb_true in V.
      unfold delta_nonsell. rewrite Ea.
      destruct (s_acb pre) as [old|] eqn:Eo.
      + cbn [is_none] in Hacb. rewrite <- Hacb. cbn [a_mul exact bind]. unfold pos_unwrap.
        destruct (Qcltb_spec 0 (n * amount)) as [Hp|Hc]; [|exfalso; apply Hc; apply Qcmul_pos; assumption].
        cbn [bind]. rewrite gez_add_ok; [cbn [bind good_d]; constructor | apply Hacbok; reflexivity | apply Qclt_le_weak; exact Hp].
      + cbn [is_none] in Hacb. rewrite <- Hacb. cbn [negb bind good_d]. exact I.
    - (* Split *)
      vsplit Hv. apply Qcltb_true in Hv. apply Qcltb_true in V.
      unfold delta_nonsell. rewrite Ea. cbn [a_mul a_div exact].
      destruct (Qceqb_spec pre_ 0) as [E0|_]; [exfalso; apply (Qclt_not_eq' _ V); exact E0|]. cbn [bind].
      unfold gez_unwrap.
      destruct (Qcleb_spec 0 (s_sh pre * post / pre_)) as [_|Hc].
      2: { exfalso. apply Hc. unfold Qcdiv. apply Qcmul_nonneg; [apply Qcmul_nonneg; [exact Hsh | apply Qclt_le_weak; exact Hv]|].
           apply Qclt_le_weak. apply Qcinv_pos. exact V. }
      cbn [bind]. rewrite all_after_exact. cbn [bind]. destruct (Qcltb _ 0); cbn [good_d]; [exact I|].
      destruct (_ && _); cbn [bind good_d]; [exact I | constructor].
  Qed.
End Rows.

(* ---- whole runs ---- *)
Section RunsNP.
  Variable regof : N -> bool.
  Hypothesis regof_default : regof default_id = false.
  Notation rok := (row_ok' regof).

  Lemma run_injected_panic inj : forall bef st aft ds bef' st' o,
    run_injected exact bef st inj aft = (ds, bef', st', o) ->
    st_inv regof st -> Forall rok inj -> Forall vtx inj -> Forall vtx bef -> Forall vtx aft ->
    (forall p, o <> Some (SPanic p)) /\ Forall vtx bef' /\ st_inv regof st'.
  Proof.
    induction inj as [|t inj IH]; intros bef st aft ds bef' st' o H Hinv HR HV Hb Ha; cbn [run_injected] in H.
    - inversion H; subst. split; [intros p E; discriminate E | auto].
    - apply Forall_cons_iff in HR as [Hr HR]. apply Forall_cons_iff in HV as [Hv HV].
      assert (Hia : Forall vtx (inj ++ aft)) by (apply Forall_app; split; assumption).
      pose proof (delta_for_tx_good regof bef t (inj ++ aft) st Hinv Hr Hv Hb Hia) as Hg.
      destruct (delta_for_tx exact bef t (inj ++ aft) st) as [[d i]| r0 |q] eqn:Ed; cbn [good_d] in Hg.
      + destruct (set_latest_asserts_hold_exact _ _ _ _ _ _ Ed (proj1 Hinv)) as [st1 Es]. rewrite Es in H.
        destruct (run_injected exact (t :: bef) st1 inj aft) as [[[ds1 b1] s1] o1] eqn:Er.
        inversion H; subst; clear H.
        pose proof (delta_for_tx_ok exact _ _ _ _ _ _ Ed (proj1 Hinv)) as [_ (Hrow & _)].
        assert (Hinv1 : st_inv regof st1) by (eapply set_latest_inv; eauto).
        eapply IH; [exact Er | exact Hinv1 | exact HR | exact HV | constructor; assumption | exact Ha].
      + inversion H; subst. split; [intros p E; discriminate E | auto].
      + contradiction Hg.
  Qed.

  Lemma run_loop_panic aft : forall bef st ds p,
    run_loop exact bef st aft = (ds, Some (SPanic p)) ->
    st_inv regof st -> Forall rok aft -> Forall rok bef -> Forall vtx aft -> Forall vtx bef -> False.
  Proof.
    induction aft as [|t aft IH]; intros bef st ds p H Hinv HR HRb HV HVb; cbn [run_loop] in H; [discriminate|].
    apply Forall_cons_iff in HR as [Hr HR]. apply Forall_cons_iff in HV as [Hv HV].
    pose proof (delta_for_tx_good regof bef t aft st Hinv Hr Hv HVb HV) as Hg.
    destruct (delta_for_tx exact bef t aft st) as [[d inj]| r0 |q] eqn:Ed; cbn [good_d] in Hg.
    - destruct (set_latest_asserts_hold_exact _ _ _ _ _ _ Ed (proj1 Hinv)) as [st1 Es]. rewrite Es in H.
      pose proof (delta_for_tx_ok exact _ _ _ _ _ _ Ed (proj1 Hinv)) as [_ (Hrow & _)].
      assert (Hinv1 : st_inv regof st1) by (eapply set_latest_inv; eauto).
      pose proof (delta_for_tx_inj_P (af_ok regof) exact _ _ _ _ _ _ Ed HRb HR) as Hinj.
      destruct (run_injected exact (t :: bef) st1 inj aft) as [[[dsi b1] st2] o1] eqn:Er.
      destruct (run_injected_inv regof _ _ _ _ _ _ _ _ Er Hinv1 Hinj) as (_ & _ & Eb1).
      destruct (run_injected_panic inj _ _ _ _ _ _ _ Er Hinv1 Hinj Hg (Forall_cons _ Hv HVb) HV) as (Hp & Hvb1 & Hinv2).
      destruct o1 as [s1|].
      + inversion H; subst. apply (Hp p). reflexivity.
      + destruct (run_loop exact b1 st2 aft) as [ds2 o2] eqn:El. inversion H; subst o2.
        eapply IH; [exact El | exact Hinv2 | exact HR | | exact HV | exact Hvb1].
        rewrite Eb1. apply Forall_app. split.
        * apply Forall_rev. apply Forall_forall. intros x Hx.
          rewrite Forall_forall in Hinj. apply Hinj. eapply In_firstn. exact Hx.
        * constructor; assumption.
    - discriminate.
    - contradiction Hg.
  Qed.

  Definition init_ok2 (init : option status) : Prop :=
    forall i, init = Some i -> status_ok i /\ s_acb i <> None /\ s_sh i = s_all i.

  Theorem run_exact_never_panics init txs ds p :
    run exact init txs = (ds, Some (SPanic p)) ->
    init_ok2 init -> Forall rok txs -> Forall vtx txs -> False.
  Proof.
    unfold run. destruct txs as [|t txs]; intros H Hi HR HV; [discriminate|].
    destruct (init_state exact init) as [st| r0 |q] eqn:Ei.
    - assert (Hinv : st_inv regof st).
      { unfold init_state in Ei. destruct init as [i|].
        - destruct (negb _); [discriminate|]. destruct (Hi i eq_refl) as (Hs & Ha & _).
          eapply set_latest_inv; [exact Ei| |exact Hs|].
          + split; [split; cbn; [constructor | apply Qcle_refl]|].
            split; [reflexivity|]. split; [intros k s Hk; discriminate | reflexivity].
          + unfold af_ok. cbn. symmetry. exact regof_default.
        - inversion Ei; subst.
          split; [split; cbn; [constructor | apply Qcle_refl]|].
          split; [reflexivity|]. split; [intros k s Hk; discriminate | reflexivity]. }
      eapply (run_loop_panic (t :: txs) [] st ds p H Hinv HR); [constructor | exact HV | constructor].
    - discriminate.
    - exfalso. unfold init_state in Ei. destruct init as [i|]; [|discriminate].
      destruct (Hi i eq_refl) as (Hs & Ha & Hb).
      destruct (Qceqb_spec (s_sh i) (s_all i)) as [_|Hn]; [|contradiction]. cbn [negb] in Ei.
      unfold set_latest in Ei. rewrite all_after_exact in Ei.
      cbn [a_add a_sub exact bind latest_for ps_map alookup ps_all] in Ei.
      destruct (s_acb i) as [c|] eqn:Ec; [|contradiction Ha; reflexivity].
      cbn [is_none default_aff af_reg Bool.eqb negb] in Ei.
      destruct (Qceqb_spec (s_all i) (0 + (s_sh i - 0))) as [_|Hn]; [discriminate Ei|]. apply Hn. rewrite Hb. ring.
  Qed.
End RunsNP.
