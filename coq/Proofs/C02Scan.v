(* C02: the two window scans of the code compute the declarative rule. *)
From Coq Require Import List NArith ZArith QArith Qcanon Bool Lia Sorted.
From ACB Require Import Base.Outcome Base.QcExtra Base.Fit Base.Arith Model.Tx Model.Ledger Model.Sfl
     Model.DeltaList Spec.SflRule Proofs.Tactics Proofs.EffCent.
Import ListNotations.
Local Open Scope Qc_scope.

(* rows with usable quantities: split ratios are positive *)
Definition split_pos (t : tx) : Prop :=
  match t_act t with Split post pre _ => 0 < post /\ 0 < pre | _ => True end.

Lemma fadj_snoc id seen x :
  fadj id (seen ++ [x]) = fadj id seen * (if split_of id x then / split_factor_of x else 1).
Proof.
  induction seen as [|s seen IH]; cbn [app fadj].
  - ring.
  - rewrite IH. ring.
Qed.
Lemma badj_snoc id seen x :
  badj id (seen ++ [x]) = badj id seen * (if split_of id x then split_factor_of x else 1).
Proof.
  induction seen as [|s seen IH]; cbn [app badj].
  - ring.
  - rewrite IH. ring.
Qed.

(* the running adjustment map of the forward scan *)
(* (the forward scan keeps the cumulative pre-to-post factor and divides by it:
   its inverse is the adjustment of the rule) *)
Definition adj_inv (adj : list (N * Qc)) (seen : list tx) : Prop :=
  forall af, / adj_of af adj = fadj (af_id af) seen.
Definition adj_inv_b (adj : list (N * Qc)) (seen : list tx) : Prop :=
  forall af, adj_of af adj = badj (af_id af) seen.

Lemma alookup_aupdate {V} k k' (v : V) l :
  alookup k (aupdate k' v l) = if N.eqb k k' then Some v else alookup k l.
Proof.
  induction l as [|[k0 v0] l IH]; cbn [aupdate alookup].
  - destruct (N.eqb k k'); reflexivity.
  - destruct (N.eqb k' k0) eqn:E0; cbn [alookup].
    + apply N.eqb_eq in E0. subst k0. destruct (N.eqb k k'); reflexivity.
    + destruct (N.eqb k k0) eqn:E1.
      * apply N.eqb_eq in E1. subst k0. rewrite N.eqb_sym, E0. reflexivity.
      * exact IH.
Qed.

Lemma adj_inv_step adj seen x v :
  adj_inv adj seen ->
  is_split (t_act x) = true ->
  v = adj_of (t_af x) adj * split_factor_of x ->
  adj_inv (aupdate (af_id (t_af x)) v adj) (seen ++ [x]).
Proof.
  intros Hinv Hs Hv af. unfold adj_of. rewrite alookup_aupdate, fadj_snoc.
  unfold split_of. rewrite Hs. cbn [andb].
  rewrite (N.eqb_sym (af_id (t_af x))).
  destruct (N.eqb (af_id af) (af_id (t_af x))) eqn:E.
  - apply N.eqb_eq in E. rewrite Hv, Qcinv_mult_distr. unfold adj_of. rewrite <- E.
    specialize (Hinv af). unfold adj_of in Hinv. rewrite Hinv. reflexivity.
  - specialize (Hinv af). unfold adj_of in Hinv. rewrite Hinv. ring.
Qed.

Lemma adj_inv_keep adj seen x :
  adj_inv adj seen -> is_split (t_act x) = false -> adj_inv adj (seen ++ [x]).
Proof.
  intros Hinv Hs af. rewrite fadj_snoc. unfold split_of. rewrite Hs. cbn [andb].
  rewrite Hinv. ring.
Qed.

Lemma adj_inv_b_step adj seen x v :
  adj_inv_b adj seen ->
  is_split (t_act x) = true ->
  v = adj_of (t_af x) adj * split_factor_of x ->
  adj_inv_b (aupdate (af_id (t_af x)) v adj) (seen ++ [x]).
Proof.
  intros Hinv Hs Hv af. unfold adj_of. rewrite alookup_aupdate, badj_snoc.
  unfold split_of. rewrite Hs. cbn [andb].
  rewrite (N.eqb_sym (af_id (t_af x))).
  destruct (N.eqb (af_id af) (af_id (t_af x))) eqn:E.
  - apply N.eqb_eq in E. rewrite Hv. unfold adj_of. rewrite <- E.
    specialize (Hinv af). unfold adj_of in Hinv. rewrite Hinv. reflexivity.
  - specialize (Hinv af). unfold adj_of in Hinv. rewrite Hinv. ring.
Qed.

Lemma adj_inv_b_keep adj seen x :
  adj_inv_b adj seen -> is_split (t_act x) = false -> adj_inv_b adj (seen ++ [x]).
Proof.
  intros Hinv Hs af. rewrite badj_snoc. unfold split_of. rewrite Hs. cbn [andb].
  rewrite Hinv. ring.
Qed.

(* ---- forward scan over rows that are all inside the window ---- *)
Lemma fwd_scan_sums last dflt w adj s s' seen :
  fwd_scan exact last dflt w adj s = Ok s' ->
  Forall (fun x => Z.leb (t_sd x) last = true) w ->
  adj_inv adj seen ->
  sc_eop s' = sc_eop s + acq_after seen w - sold_after seen w /\
  sc_acq s' = sc_acq s + acq_after seen w.
Proof.
  revert adj s seen. induction w as [|x w IH]; intros adj s seen H HF Hinv;
    cbn [fwd_scan acq_after sold_after] in *.
  - inversion H; subst. split; ring.
  - apply Forall_cons_iff in HF as [Hx HF].
    assert (Hlt : Z.ltb last (t_sd x) = false) by (apply Z.ltb_ge; apply Z.leb_le; exact Hx).
    rewrite Hlt in H.
    unfold buy_shares, sell_shares.
    destruct (t_act x) as [sh aps com rate crate | sh aps com rate crate sp | aps rate
                          | sh aps | post pre io] eqn:Ea.
    + bind_as H as b E1. apply gez_div_exact in E1 as [-> _].
      bind_as H as eop E2. apply gez_add_exact in E2 as [-> _].
      bind_as H as na E3. bind_as H as acq E4. apply gez_add_exact in E4 as [-> _].
      apply (IH _ _ (seen ++ [x])) in H; [|assumption|apply adj_inv_keep; [assumption|rewrite Ea; reflexivity]].
      destruct H as [H1 H2]. cbn [sc_eop sc_acq] in H1, H2. rewrite H1, H2. unfold Qcdiv. rewrite (Hinv (t_af x)).
      split; ring.
    + bind_as H as b E1. apply gez_div_exact in E1 as [-> _].
      cbn [a_sub exact bind] in H. if_inv H. if_inv H.
      apply (IH _ _ (seen ++ [x])) in H; [|assumption|apply adj_inv_keep; [assumption|rewrite Ea; reflexivity]].
      destruct H as [H1 H2]. cbn [sc_eop sc_acq] in H1, H2. rewrite H1, H2. unfold Qcdiv. rewrite (Hinv (t_af x)).
      split; ring.
    + apply (IH _ _ (seen ++ [x])) in H; [|assumption|apply adj_inv_keep; [assumption|rewrite Ea; reflexivity]].
      destruct H as [H1 H2]. rewrite H1, H2. split; ring.
    + apply (IH _ _ (seen ++ [x])) in H; [|assumption|apply adj_inv_keep; [assumption|rewrite Ea; reflexivity]].
      destruct H as [H1 H2]. rewrite H1, H2. split; ring.
    + unfold split_factor in H.
      bind_as H as f E1. apply pos_div_exact in E1 as (-> & _ & _).
      bind_as H as nsa E2. apply pos_mul_exact in E2 as [-> _].
      apply (IH _ _ (seen ++ [x])) in H; [|assumption|].
      * destruct H as [H1 H2]. rewrite H1, H2. split; ring.
      * apply adj_inv_step; [assumption|rewrite Ea; reflexivity|].
        unfold split_factor_of. rewrite Ea. reflexivity.
Qed.

(* ---- the early exit equals filtering, on a list sorted by settlement date ---- *)
Definition sd_sorted (l : list tx) : Prop := StronglySorted (fun a b => (t_sd a <= t_sd b)%Z) l.
Definition sd_sorted_desc (l : list tx) : Prop := StronglySorted (fun a b => (t_sd b <= t_sd a)%Z) l.

Lemma filter_all_false {T} (f : T -> bool) l : Forall (fun x => f x = false) l -> filter f l = [].
Proof.
  induction l as [|x l IH]; intros H; cbn [filter]; [reflexivity|].
  apply Forall_cons_iff in H as [Hx H]. rewrite Hx. auto.
Qed.

Lemma fwd_scan_filter A last dflt w adj s :
  sd_sorted w ->
  fwd_scan A last dflt w adj s = fwd_scan A last dflt (filter (fun x => Z.leb (t_sd x) last) w) adj s.
Proof.
  revert adj s. induction w as [|x w IH]; intros adj s Hs; [reflexivity|].
  apply StronglySorted_inv in Hs as [Hs Hx]. cbn [filter].
  destruct (Z.leb (t_sd x) last) eqn:E.
  - cbn [fwd_scan]. assert (Hlt : Z.ltb last (t_sd x) = false) by (apply Z.ltb_ge; apply Z.leb_le; exact E).
    rewrite Hlt. destruct (t_act x);
      repeat (match goal with |- bind ?m _ = bind ?m _ => destruct m; cbn [bind]; try reflexivity end);
      try (destruct (Qcltb _ _); try reflexivity);
      repeat (match goal with |- bind ?m _ = bind ?m _ => destruct m; cbn [bind]; try reflexivity end);
      try (destruct (Qcltb _ _); try reflexivity);
      try apply IH; assumption.
  - cbn [fwd_scan]. assert (Hlt : Z.ltb last (t_sd x) = true) by (apply Z.ltb_lt; apply Z.leb_gt; exact E).
    rewrite Hlt. rewrite filter_all_false; [reflexivity|].
    eapply Forall_impl; [|exact Hx]. intros y Hy. cbv beta in Hy. apply Z.leb_gt. apply Z.leb_gt in E. lia.
Qed.

(* ---- backward scan ---- *)
Lemma bwd_scan_sums first dflt w adj s s' seen :
  bwd_scan exact first dflt w adj s = Ok s' ->
  Forall (fun x => Z.leb first (t_sd x) = true) w ->
  adj_inv_b adj seen ->
  sc_eop s' = sc_eop s /\ sc_acq s' = sc_acq s + acq_before seen w.
Proof.
  revert adj s seen. induction w as [|x w IH]; intros adj s seen H HF Hinv;
    cbn [bwd_scan acq_before] in *.
  - inversion H; subst. split; [reflexivity | ring].
  - apply Forall_cons_iff in HF as [Hx HF].
    assert (Hlt : Z.ltb (t_sd x) first = false) by (apply Z.ltb_ge; apply Z.leb_le; exact Hx).
    rewrite Hlt in H.
    unfold buy_shares.
    destruct (t_act x) as [sh aps com rate crate | sh aps com rate crate sp | aps rate
                          | sh aps | post pre io] eqn:Ea.
    + bind_as H as b E1. apply pos_mul_exact in E1 as [-> _].
      bind_as H as acq E2. apply gez_add_exact in E2 as [-> _].
      apply (IH _ _ (seen ++ [x])) in H; [|assumption|apply adj_inv_b_keep; [assumption|rewrite Ea; reflexivity]].
      destruct H as [H1 H2]. cbn [sc_eop sc_acq] in H1, H2. rewrite H1, H2, (Hinv (t_af x)).
      split; [reflexivity | ring].
    + apply (IH _ _ (seen ++ [x])) in H; [|assumption|apply adj_inv_b_keep; [assumption|rewrite Ea; reflexivity]].
      destruct H as [H1 H2]. rewrite H1, H2. split; [reflexivity | ring].
    + apply (IH _ _ (seen ++ [x])) in H; [|assumption|apply adj_inv_b_keep; [assumption|rewrite Ea; reflexivity]].
      destruct H as [H1 H2]. rewrite H1, H2. split; [reflexivity | ring].
    + apply (IH _ _ (seen ++ [x])) in H; [|assumption|apply adj_inv_b_keep; [assumption|rewrite Ea; reflexivity]].
      destruct H as [H1 H2]. rewrite H1, H2. split; [reflexivity | ring].
    + unfold split_factor in H.
      bind_as H as f E1. apply pos_div_exact in E1 as (-> & _ & _).
      bind_as H as nsa E2. apply pos_mul_exact in E2 as [-> _].
      apply (IH _ _ (seen ++ [x])) in H; [|assumption|].
      * destruct H as [H1 H2]. rewrite H1, H2. split; [reflexivity | ring].
      * apply adj_inv_b_step; [assumption|rewrite Ea; reflexivity|].
        unfold split_factor_of. rewrite Ea. reflexivity.
Qed.

Lemma bwd_scan_filter A first dflt w adj s :
  sd_sorted_desc w ->
  bwd_scan A first dflt w adj s = bwd_scan A first dflt (filter (fun x => Z.leb first (t_sd x)) w) adj s.
Proof.
  revert adj s. induction w as [|x w IH]; intros adj s Hs; [reflexivity|].
  apply StronglySorted_inv in Hs as [Hs Hx]. cbn [filter].
  destruct (Z.leb first (t_sd x)) eqn:E.
  - cbn [bwd_scan]. assert (Hlt : Z.ltb (t_sd x) first = false) by (apply Z.ltb_ge; apply Z.leb_le; exact E).
    rewrite Hlt. destruct (t_act x);
      repeat (match goal with |- bind ?m _ = bind ?m _ => destruct m; cbn [bind]; try reflexivity end);
      try apply IH; assumption.
  - cbn [bwd_scan]. assert (Hlt : Z.ltb (t_sd x) first = true) by (apply Z.ltb_lt; apply Z.leb_gt; exact E).
    rewrite Hlt. rewrite filter_all_false; [reflexivity|].
    eapply Forall_impl; [|exact Hx]. intros y Hy. cbv beta in Hy. apply Z.leb_gt. apply Z.leb_gt in E. lia.
Qed.

Lemma filter_Forall {T} (f : T -> bool) l : Forall (fun x => f x = true) (filter f l).
Proof.
  induction l as [|x l IH]; cbn [filter]; [constructor|].
  destruct (f x) eqn:E; [constructor; assumption | assumption].
Qed.

Lemma adj_inv_nil : adj_inv [] [].
Proof. intros af. reflexivity. Qed.
Lemma adj_inv_b_nil : adj_inv_b [] [].
Proof. intros af. reflexivity. Qed.

(* ---- get_superficial_loss_info = the rule ---- *)
Definition all_after_sale (st : pstate) (sold : Qc) : Qc := s_all (latest_post_status st) - sold.

Theorem sfl_info_rule bef t sold aft st r :
  sd_sorted aft -> sd_sorted_desc bef ->
  sfl_info exact bef t sold aft st = Ok r ->
  match r with
  | Some s =>
      sc_acq s = rule_acquired bef t aft /\
      sc_eop s = rule_held_end (all_after_sale st sold) t aft /\
      rule_superficial bef t aft (all_after_sale st sold)
  | None => ~ rule_superficial bef t aft (all_after_sale st sold)
  end.
Proof.
  intros Hsa Hsb H. unfold sfl_info in H. cbn [a_sub exact bind] in H.
  if_inv H. if_inv H.
  bind_as H as s1 E1. rewrite fwd_scan_filter in E1 by assumption.
  apply (fwd_scan_sums _ _ _ _ _ _ []) in E1 as [He1 Ha1];
    [|apply (filter_Forall (fun x => Z.leb (t_sd x) (t_sd t + Model.Sfl.window_days)))|apply adj_inv_nil].
  cbn [sc_eop sc_acq] in He1, Ha1.
  assert (Hheld : sc_eop s1 = rule_held_end (all_after_sale st sold) t aft).
  { rewrite He1. unfold rule_held_end, all_after_sale, in_window_after, sfl_window, Model.Sfl.window_days. reflexivity. }
  destruct (Qcltb_spec 0 (sc_eop s1)) as [Heop|Heop]; cbn [negb] in H.
  2: { inversion H; subst r. intros [_ Hh]. apply Heop. rewrite Hheld. exact Hh. }
  bind_as H as s2 E2. rewrite bwd_scan_filter in E2 by assumption.
  apply (bwd_scan_sums _ _ _ _ _ _ []) in E2 as [He2 Ha2];
    [|apply (filter_Forall (fun x => Z.leb (t_sd t - Model.Sfl.window_days) (t_sd x)))|apply adj_inv_b_nil].
  assert (Hacq : sc_acq s2 = rule_acquired bef t aft).
  { rewrite Ha2, Ha1. unfold rule_acquired, in_window_after, in_window_before, sfl_window, Model.Sfl.window_days. ring. }
  destruct (Qcltb_spec 0 (sc_acq s2)) as [Hq|Hq]; inversion H; subst r.
  - repeat split.
    + exact Hacq.
    + rewrite He2. exact Hheld.
    + rewrite <- Hacq. exact Hq.
    + rewrite <- Hheld. exact Heop.
  - intros [Ha _]. apply Hq. rewrite Hacq. exact Ha.
Qed.

(* ---- ratio and denied amount ---- *)
Lemma min3_Qcmin a b c : min3 a b c = Qcmin a (Qcmin b c).
Proof.
  unfold min3, Qcmin.
  destruct (Qcltb_spec b a); destruct (Qcltb_spec c b); destruct (Qcltb_spec c a);
    try reflexivity; try (exfalso; qc_lra);
    repeat match goal with |- context [Qcltb ?x ?y] => destruct (Qcltb_spec x y) end;
    try reflexivity; try (exfalso; qc_lra); try (apply Qcle_antisym; qc_lra).
Qed.

Definition eff_cent_val (x : Qc) : Qc :=
  let r := round2 x in if Qcltb (Qcabs (r - x)) (Qcfrac 1 10000000000) then r else x.

Lemma eff_cent_exact x r : eff_cent exact x = Ok r -> r = eff_cent_val x.
Proof.
  unfold eff_cent, eff_cent_val. cbn [a_sub exact bind].
  destruct (Qcltb _ _); intros H; inversion H; reflexivity.
Qed.

Lemma sfl_ratio_some sold s m :
  sfl_ratio exact sold (Some s) = Ok m ->
  exists r, m = Some r /\ sr_num r = min3 sold (sc_acq s) (sc_eop s) /\ sr_den r = sold.
Proof.
  unfold sfl_ratio. destruct (sc_buyers s); [discriminate|].
  intros H. bind_as H as total Et. bind_as H as ps Ep. inversion H; subst m.
  eexists; split; [reflexivity|]. cbn. auto.
Qed.

(* Since the fix "treat a superficial loss that rounds to zero effective
   cents as no superficial loss": the sale carries a superficial loss exactly
   when the rule says so AND the denied amount (the loss times the ratio,
   snapped to the cent when within 1e-10 of one) is not zero. *)
Theorem delta_sfl_auto_rule bef t sold aft st loss r :
  sd_sorted aft -> sd_sorted_desc bef ->
  delta_sfl exact bef t sold None aft st loss = Ok r ->
  let all0 := all_after_sale st sold in
  match r with
  | Some (info, inj) =>
      rule_superficial bef t aft all0 /\
      sf_num info = Qcmin sold (Qcmin (rule_acquired bef t aft) (rule_held_end all0 t aft)) /\
      sf_den info = sold /\
      sf_amount info = eff_cent_val (loss * (sf_num info / sold)) /\
      sf_amount info < 0
  | None =>
      rule_superficial bef t aft all0 ->
      eff_cent_val (loss * rule_ratio sold (rule_acquired bef t aft) (rule_held_end all0 t aft)) = 0
  end.
Proof.
  intros Hsa Hsb H all0. unfold delta_sfl in H.
  bind_as H as i Ei. apply sfl_info_rule in Ei; [|assumption|assumption].
  bind_as H as m Em.
  destruct i as [s|].
  - destruct Ei as (Hacq & Heop & Hsup).
    apply sfl_ratio_some in Em as (rr & -> & Hn & Hd).
    bind_as H as calc Ec.
    cbn [a_div exact] in Ec. destruct (Qceqb_spec (sr_den rr) 0) as [|Hden]; cbn [bind] in Ec; [discriminate|].
    bind_as Ec as q1 E1. apply pos_unwrap_ok in E1 as [-> _].
    unfold neg_mul_pos in Ec. cbn [a_mul exact bind] in Ec.
    bind_as Ec as l El. apply neg_unwrap_ok in El as [-> _].
    bind_as Ec as cc Ecc. apply eff_cent_exact in Ecc. apply lez_unwrap_ok in Ec as [-> Hle].
    assert (Hnum : sr_num rr = Qcmin sold (Qcmin (rule_acquired bef t aft) (rule_held_end all0 t aft)))
      by (rewrite Hn, min3_Qcmin, Hacq, Heop; reflexivity).
    destruct (Qcltb_spec cc 0) as [Hneg|Hneg]; cbn [negb] in H.
    + bind_as H as txs Et.
      inversion H; subst r; clear H. cbn [sf_num sf_den sf_amount].
      split; [exact Hsup|]. split; [exact Hnum|].
      split; [exact Hd|]. split; [|exact Hneg]. rewrite Ecc, Hd. reflexivity.
    + inversion H; subst r; clear H. intros _.
      unfold rule_ratio. rewrite <- Hnum. rewrite Hd in Ecc. rewrite <- Ecc.
      apply Qcle_antisym; [exact Hle | now apply Qcnot_lt_le].
  - unfold sfl_ratio in Em. inversion Em; subst m.
    cbn [bind] in H. inversion H; subst r. intros Hs. contradiction.
Qed.

(* ---- user-supplied superficial loss ---- *)
Theorem delta_sfl_supplied bef t sold aft st loss sv force r :
  delta_sfl exact bef t sold (Some (sv, force)) aft st loss = Ok r ->
  (* replaces the computed one and suppresses automatic adjustments *)
  match r with
  | Some (info, inj) => sf_amount info = sv /\ inj = [] /\ sv < 0 /\ sf_over info = false
  | None => ~ sv < 0
  end.
Proof.
  unfold delta_sfl. intros H.
  bind_as H as i Ei. bind_as H as m Em. bind_as H as calc Ec. bind_as H as u Eu.
  destruct (Qcltb_spec sv 0) as [Hneg|Hneg]; cbn [negb] in H.
  - bind_as H as q Eq. bind_as H as n En. inversion H; subst r. cbn. auto.
  - inversion H; subst r. exact Hneg.
Qed.

(* ... and is rejected when it differs from the computed value by more than
   0.001, unless marked forced *)
Definition computed_sfl (bef : list tx) (t : tx) (sold : Qc) (aft : list tx) (st : pstate) (loss : Qc)
  : res Qc :=
  info <- sfl_info exact bef t sold aft st ;;
  m <- sfl_ratio exact sold info ;;
  match m with
  | Some r =>
      q <- a_div exact (sr_num r) (sr_den r) ;;
      q1 <- pos_unwrap Site.ratio_to_pos q ;;
      l <- neg_mul_pos exact loss q1 ;;
      c <- eff_cent exact l ;;
      lez_unwrap Site.eff_cent c
  | None => Ok 0
  end.

Theorem delta_sfl_supplied_check bef t sold aft st loss sv calc :
  computed_sfl bef t sold aft st loss = Ok calc ->
  (Qcfrac 1 1000 < Qcabs (calc - sv) ->
   delta_sfl exact bef t sold (Some (sv, false)) aft st loss = Rej RejSflMismatch) /\
  (forall r, delta_sfl exact bef t sold (Some (sv, false)) aft st loss = Ok r ->
             Qcabs (calc - sv) <= Qcfrac 1 1000) /\
  (forall force, is_ok (delta_sfl exact bef t sold (Some (sv, force)) aft st loss) = true ->
                 force = true \/ Qcabs (calc - sv) <= Qcfrac 1 1000).
Proof.
  unfold computed_sfl, delta_sfl. intros Hc.
  bind_as Hc as i Ei. cbn [bind]. bind_as Hc as m Em. cbn [bind].
  rewrite Hc. cbn [bind a_sub exact].
  repeat split.
  - intros Hgt. apply Qcltb_true in Hgt. rewrite Hgt. reflexivity.
  - intros r H. destruct (Qcltb_spec (Qcfrac 1 1000) (Qcabs (calc - sv))) as [|Hle]; [discriminate|].
    now apply Qcnot_lt_le.
  - intros force H. destruct force; [left; reflexivity|right].
    destruct (Qcltb_spec (Qcfrac 1 1000) (Qcabs (calc - sv))) as [|Hle]; [discriminate|].
    now apply Qcnot_lt_le.
Qed.

(* supplied on a sale with no loss: rejected *)
Theorem supplied_no_loss_rejected bef t aft st n price com rate crate sv force c g :
  t_act t = Sell n price com rate crate (Some (sv, force)) ->
  sanity_check (next_pre_status st (t_af t)) (t_af t) = Ok tt ->
  sell_core exact (next_pre_status st (t_af t)) n price com rate crate = Ok c ->
  sc_gain c = Some g -> ~ g < 0 ->
  delta_for_tx exact bef t aft st = Rej RejSflNoLoss.
Proof.
  intros Ea Hs Hc Hg Hn. unfold delta_for_tx. rewrite Hs. cbn [bind]. rewrite Ea, Hc. cbn [bind].
  rewrite Hg. destruct (Qcltb_spec g 0); [contradiction | reflexivity].
Qed.

(* ---- what "held at the end of the window" means: the sum over the
   affiliates of their share-ledger balance after the last row of the window,
   expressed in the split period of the sale ---- *)
Definition net_shares (x : tx) : Qc := buy_shares x - sell_shares x.
Fixpoint net_after (id : N) (seen w : list tx) : Qc :=
  match w with
  | [] => 0
  | x :: r => (if N.eqb (af_id (t_af x)) id then net_shares x * fadj id seen else 0)
              + net_after id (seen ++ [x]) r
  end.

Lemma split_factor_nonzero x : split_pos x -> split_factor_of x <> 0.
Proof.
  unfold split_pos, split_factor_of. destruct (t_act x); try (intros _; apply Q_apart_0_1).
  intros [Hp Hq]. apply Qclt_not_eq'. apply Qcdiv_pos; assumption.
Qed.

Lemma shares_after_adj id b seen w :
  Forall split_pos w ->
  shares_after id b w * fadj id (seen ++ w) = b * fadj id seen + net_after id seen w.
Proof.
  revert b seen. induction w as [|x w IH]; intros b seen HF.
  - cbn. rewrite app_nil_r. ring.
  - apply Forall_cons_iff in HF as [Hx HF].
    unfold shares_after in *. cbn [fold_left net_after].
    replace (seen ++ x :: w) with ((seen ++ [x]) ++ w) by (rewrite <- app_assoc; reflexivity).
    rewrite (IH _ _ HF), fadj_snoc. unfold step_shares, split_of, net_shares, buy_shares, sell_shares.
    destruct (N.eqb (af_id (t_af x)) id) eqn:E.
    + destruct (t_act x) as [sh aps com rate crate | sh aps com rate crate sp | aps rate
                            | sh aps | post pre io] eqn:Ea; cbn [is_split andb]; try ring.
      unfold split_pos in Hx. unfold split_factor_of. rewrite Ea in *. destruct Hx as [Hp Hq].
      field. split; apply Qclt_not_eq'; assumption.
    + rewrite andb_false_r. ring.
Qed.

Fixpoint sum_over (ids : list N) (f : N -> Qc) : Qc :=
  match ids with [] => 0 | i :: r => f i + sum_over r f end.

Lemma sum_over_plus ids f g : sum_over ids (fun i => f i + g i) = sum_over ids f + sum_over ids g.
Proof. induction ids as [|i ids IH]; cbn [sum_over]; [ring | rewrite IH; ring]. Qed.

Lemma sum_over_ext ids f g : (forall i, f i = g i) -> sum_over ids f = sum_over ids g.
Proof. intros H. induction ids as [|i ids IH]; cbn [sum_over]; [reflexivity | rewrite H, IH; reflexivity]. Qed.

Lemma sum_over_indicator ids k v :
  NoDup ids -> In k ids -> sum_over ids (fun i => if N.eqb k i then v else 0) = v.
Proof.
  induction ids as [|i ids IH]; intros Hnd Hin; [contradiction|].
  apply NoDup_cons_iff in Hnd as [Hni Hnd]. cbn [sum_over].
  destruct Hin as [->|Hin].
  - rewrite N.eqb_refl.
    assert (Hz : sum_over ids (fun i => if N.eqb k i then v else 0) = 0).
    { clear IH Hnd. induction ids as [|j ids IHz]; cbn [sum_over]; [reflexivity|].
      destruct (N.eqb k j) eqn:E.
      - apply N.eqb_eq in E. subst j. exfalso. apply Hni. left; reflexivity.
      - rewrite IHz; [ring|]. intros Hc. apply Hni. right; exact Hc. }
    rewrite Hz. ring.
  - destruct (N.eqb k i) eqn:E.
    + apply N.eqb_eq in E. subst i. contradiction.
    + rewrite (IH Hnd Hin). ring.
Qed.

Lemma sum_net_after ids seen w :
  NoDup ids -> Forall (fun x => In (af_id (t_af x)) ids) w ->
  sum_over ids (fun id => net_after id seen w) = acq_after seen w - sold_after seen w.
Proof.
  intros Hnd. revert seen. induction w as [|x w IH]; intros seen HF; cbn [net_after acq_after sold_after].
  - clear HF Hnd. induction ids as [|i ids IHi]; cbn [sum_over]; [ring|]. rewrite IHi. ring.
  - apply Forall_cons_iff in HF as [Hx HF].
    rewrite sum_over_plus, (IH _ HF).
    rewrite (sum_over_ext _ _ (fun i => if N.eqb (af_id (t_af x)) i
                                        then net_shares x * fadj (af_id (t_af x)) seen else 0)).
    2: { intros i. destruct (N.eqb (af_id (t_af x)) i) eqn:E; [|reflexivity].
         apply N.eqb_eq in E. subst i. reflexivity. }
    rewrite (sum_over_indicator _ _ _ Hnd Hx). unfold net_shares. ring.
Qed.

Theorem held_end_is_ledger_sum ids (bal : N -> Qc) w :
  NoDup ids -> Forall (fun x => In (af_id (t_af x)) ids) w -> Forall split_pos w ->
  sum_over ids (fun id => shares_after id (bal id) w * fadj id w)
  = sum_over ids bal + acq_after [] w - sold_after [] w.
Proof.
  intros Hnd Hin Hpos.
  rewrite (sum_over_ext _ _ (fun id => bal id + net_after id [] w)).
  2: { intros id. pose proof (shares_after_adj id (bal id) [] w Hpos) as H. cbn [app fadj] in H.
       rewrite H. ring. }
  rewrite sum_over_plus, (sum_net_after _ _ _ Hnd Hin). ring.
Qed.
