(* One row under rounding: the cost base after a Buy.

   [fit_within]: the error of one rust_decimal operation in terms of the
   magnitude of its exact result: below 10^j the result keeps at least 28 - j
   places, so it is within 1/(2 * 10^(28-j)) of the exact value.
   [buy_row_error]: the five operations of the Buy arm. *)
From Coq Require Import List NArith ZArith QArith Qcanon Bool Lia Lqa Qabs.
From ACB Require Import Base.Outcome Base.QcExtra Base.Fit Base.Arith Model.Tx Model.Ledger
     Proofs.Tactics Proofs.FitProps.
Import ListNotations.
Local Open Scope Z_scope.

Lemma p10_pow j : Zpos (p10 j) = 10 ^ Z.of_nat j.
Proof. pose proof (p10_add 0 j) as H. cbn [Nat.add] in H. rewrite H. change (Zpos (p10 0)) with 1. lia. Qed.

Lemma p10_mul a b : Zpos (p10 (a + b)) = Zpos (p10 a) * Zpos (p10 b).
Proof. rewrite p10_add, (p10_pow b). reflexivity. Qed.

Lemma p10_le a b : (a <= b)%nat -> Zpos (p10 a) <= Zpos (p10 b).
Proof.
  intros H. replace b with (a + (b - a))%nat by lia. rewrite p10_mul.
  pose proof (Pos2Z.is_pos (p10 (b - a))). pose proof (Pos2Z.is_pos (p10 a)). nia.
Qed.

(* the scale chosen is at least any scale that fits *)
Lemma fit_from_some_ge s n d r s0 :
  fit_from s n d = Some r -> (s0 <= s)%nat ->
  Z.abs (rhe (n * Zpos (p10 s0)) d) <= max_mant ->
  exists s', (s0 <= s')%nat /\ (s' <= s)%nat /\
             r = Qcfrac (rhe (n * Zpos (p10 s')) d) (p10 s').
Proof.
  induction s as [|s IH]; cbn [fit_from]; intros H Hs Hfit.
  - assert (s0 = 0%nat) by lia. subst s0.
    destruct (Z.leb_spec (Z.abs (rhe (n * Zpos (p10 0)) d)) max_mant); [|lia].
    inversion H; subst. exists 0%nat. auto.
  - destruct (Z.leb_spec (Z.abs (rhe (n * Zpos (p10 (S s))) d)) max_mant) as [Hle|Hgt].
    + inversion H; subst. exists (S s). auto.
    + assert (Hne : s0 <> S s) by (intros ->; lia).
      destruct (IH H ltac:(lia) Hfit) as (s' & H1 & H2 & H3). exists s'. split; [exact H1|]. split; [lia | exact H3].
Qed.

(* error of one rounding of a value of magnitude at most 10^j *)
Theorem fit_error_scaled (q r : Qc) (j : nat) :
  (j <= 28)%nat -> fit q = Some r ->
  Z.abs (Qnum (this q)) <= Zpos (p10 j) * Zpos (Qden (this q)) ->
  (Qabs (this r - this q) <= 1 # (2 * p10 (28 - j)))%Q.
Proof.
  intros Hj H Hmag. unfold fit in H.
  set (n := Qnum (this q)) in *. set (d := Qden (this q)) in *.
  assert (Hfit : Z.abs (rhe (n * Zpos (p10 (28 - j))) d) <= max_mant).
  { apply Z.le_trans with (Zpos (p10 28)); [|vm_compute; discriminate].
    apply rhe_le_bound; [lia|]. replace 28%nat with (j + (28 - j))%nat at 2 by lia. rewrite p10_mul.
    rewrite Z.abs_mul. pose proof (Pos2Z.is_pos (p10 (28 - j))). rewrite (Z.abs_eq (Zpos _)) by lia. nia. }
  destruct (fit_from_some_ge 28 n d r (28 - j) H ltac:(lia) Hfit) as (s' & Hs0 & Hs & ->).
  set (m := rhe (n * Zpos (p10 s')) d) in *.
  assert (Hr : (this (Qcfrac m (p10 s')) == m # p10 s')%Q) by (unfold Qcfrac, Q2Qc; cbn [this]; apply Qred_correct).
  rewrite Hr. assert (Hq : (this q == n # d)%Q) by (subst n d; destruct (this q); reflexivity).
  rewrite Hq. pose proof (rhe_bounds (n * Zpos (p10 s')) d) as Hb. fold m in Hb.
  pose proof (p10_le _ _ Hs0) as Hp.
  unfold Qabs, Qminus, Qplus, Qopp, Qle. cbn [Qnum Qden].
  rewrite Pos2Z.inj_mul, Pos2Z.inj_mul.
  replace (m * Zpos d + - n * Zpos (p10 s')) with (m * Zpos d - n * Zpos (p10 s')) by lia.
  pose proof (Pos2Z.is_pos (p10 s')). pose proof (Pos2Z.is_pos (p10 (28 - j))). pose proof (Pos2Z.is_pos d).
  set (e := Z.abs (m * Zpos d - n * Zpos (p10 s'))) in *.
  assert (0 <= e) by (subst e; lia).
  (* e * 2 p0 <= p' d, from 2 e <= d and p0 <= p' *)
  apply Z.le_trans with (Zpos d * Zpos (p10 (28 - j))).
  - nia.
  - nia.
Qed.

Local Open Scope Qc_scope.

(* 10^j, and half a unit of the place 28 - j *)
Definition T (j : nat) : Qc := QcZ (Zpos (p10 j)).
Definition u (j : nat) : Qc := Qcfrac 1 (2 * p10 (28 - j)).

Lemma u_pos j : 0 < u j.
Proof. unfold u, Qcfrac. qc_unfold. reflexivity. Qed.
Lemma u_le_half j : u j <= Qcfrac 1 2.
Proof.
  unfold u, Qcfrac. qc_unfold. unfold Qle. cbn [Qnum Qden]. pose proof (Pos2Z.is_pos (p10 (28 - j))). lia.
Qed.
Lemma T_ge_1 j : 1 <= T j.
Proof.
  unfold T, QcZ. qc_unfold. unfold Qle, inject_Z. cbn [Qnum Qden]. pose proof (Pos2Z.is_pos (p10 j)). lia.
Qed.

Theorem fit_within (q r : Qc) (j : nat) :
  (j <= 28)%nat -> fit q = Some r -> - T j <= q -> q <= T j ->
  q - u j <= r /\ r <= q + u j.
Proof.
  intros Hj H Hlo Hhi.
  assert (Hmag : (Z.abs (Qnum (this q)) <= Zpos (p10 j) * Zpos (Qden (this q)))%Z).
  { unfold T, QcZ in Hlo, Hhi. qc_unfold. unfold Qle, Qopp, inject_Z in Hlo, Hhi. cbn [Qnum Qden] in Hlo, Hhi. lia. }
  pose proof (fit_error_scaled q r j Hj H Hmag) as He.
  apply Qabs_Qle_condition in He as [He1 He2].
  unfold u, Qcfrac. qc_unfold. split; lra.
Qed.

(* ---- the two non-linear facts ---- *)
Lemma mul_bounds (x y X Y : Qc) : 0 <= x -> x <= X -> 0 <= y -> y <= Y -> 0 <= x * y /\ x * y <= X * Y.
Proof. intros H1 H2 H3 H4. qc_unfold. split; nra. Qed.

Lemma mul_within (a b c e R : Qc) :
  a - e <= b -> b <= a + e -> 0 <= c -> c <= R -> 0 <= e ->
  a * c - e * R <= b * c /\ b * c <= a * c + e * R.
Proof. intros H1 H2 H3 H4 H5. qc_unfold. split; nra. Qed.

Lemma fit_nonneg q r : fit q = Some r -> 0 <= q -> 0 <= r.
Proof. intros H Hq. exact (proj1 (fit_sign q r H) Hq). Qed.

Lemma gez_add_dec a b r : gez_add dec a b = Ok r -> fit (a + b) = Some r.
Proof.
  unfold gez_add. cbn [a_add dec]. unfold fit_res. destruct (fit (a + b)) as [x|]; cbn [bind]; [|discriminate].
  intros H. apply gez_unwrap_ok in H as [-> _]. reflexivity.
Qed.
Lemma gez_mul_dec a b r : gez_mul dec a b = Ok r -> fit (a * b) = Some r.
Proof.
  unfold gez_mul. cbn [a_mul dec]. unfold fit_res. destruct (fit (a * b)) as [x|]; cbn [bind]; [|discriminate].
  intros H. apply gez_unwrap_ok in H as [-> _]. reflexivity.
Qed.

(* ---- the five roundings of the cost base of a Buy ---- *)
Lemma buy_error_math (j1 J : nat) (R C O eps sh aps com rate crate od oe v1d vd cd pd nd : Qc) :
  (j1 <= 28)%nat -> (J <= 28)%nat ->
  0 <= sh -> 0 <= aps -> aps * sh <= T j1 ->
  0 <= rate -> rate <= R ->
  0 <= com -> 0 <= crate -> com * crate <= C ->
  0 <= od -> od <= O ->
  O + (T j1 + 1) * R + C + (1 + 1 + 1) <= T J ->
  oe - eps <= od -> od <= oe + eps ->
  fit (aps * sh) = Some v1d -> fit (v1d * rate) = Some vd -> fit (com * crate) = Some cd ->
  fit (vd + cd) = Some pd -> fit (od + pd) = Some nd ->
  let ne := oe + (aps * sh * rate + com * crate) in
  let B := eps + u j1 * R + (1 + 1 + 1 + 1) * u J in
  ne - B <= nd /\ nd <= ne + B.
Proof.
  intros Hj1 HJ Hsh Haps Ha Hr0 HrR Hcom Hcrate HcC Hod HodO Hsize He1 He2 F1 F2 F3 F4 F5 ne B.
  pose proof (u_pos j1) as Hu1. pose proof (u_le_half j1) as Hu1h.
  pose proof (u_pos J) as HuJ. pose proof (u_le_half J) as HuJh.
  pose proof (T_ge_1 j1) as HT1. pose proof (T_ge_1 J) as HTJ.
  assert (Hhalf : Qcfrac 1 2 + Qcfrac 1 2 = 1) by (apply Qc_is_canon; reflexivity).
  set (a := aps * sh) in *.
  assert (Ha0 : 0 <= a) by (apply Qcmul_nonneg; assumption).
  destruct (fit_within a v1d j1 Hj1 F1 ltac:(clear - Ha0 HT1; qc_lra) Ha) as [W1a W1b].
  pose proof (fit_nonneg _ _ F1 Ha0) as Hv1.
  (* v1d * rate *)
  destruct (mul_bounds v1d rate (T j1 + 1) R Hv1 ltac:(clear - W1b Ha Hu1h Hhalf Hu1; qc_lra) Hr0 HrR) as [N1 N2].
  destruct (mul_within a v1d rate (u j1) R W1a W1b Hr0 HrR (Qclt_le_weak _ _ Hu1)) as [N3 N4].
  set (x2 := v1d * rate) in *. set (ar := a * rate) in *. set (TR := (T j1 + 1) * R) in *. set (uR := u j1 * R) in *.
  assert (HTR0 : 0 <= TR) by (clear - N1 N2; qc_lra).
  set (c0 := com * crate) in *.
  assert (Hc0 : 0 <= c0) by (apply Qcmul_nonneg; assumption).
  assert (HO0 : 0 <= O) by (clear - Hod HodO; qc_lra).
  assert (HC0 : 0 <= C) by (clear - Hc0 HcC; qc_lra).
  destruct (fit_within x2 vd J HJ F2 ltac:(clear - N1 HTJ; qc_lra)
              ltac:(clear - N2 Hsize HO0 HC0; qc_lra)) as [W2a W2b].
  pose proof (fit_nonneg _ _ F2 N1) as Hvd.
  destruct (fit_within c0 cd J HJ F3 ltac:(clear - Hc0 HTJ; qc_lra)
              ltac:(clear - HcC Hsize HO0 HTR0; qc_lra)) as [W3a W3b].
  pose proof (fit_nonneg _ _ F3 Hc0) as Hcd.
  assert (Hs4 : 0 <= vd + cd) by (clear - Hvd Hcd; qc_lra).
  destruct (fit_within (vd + cd) pd J HJ F4 ltac:(clear - Hs4 HTJ; qc_lra)
              ltac:(clear - W2b W3b N2 HcC Hsize HO0 HuJh Hhalf; qc_lra)) as [W4a W4b].
  pose proof (fit_nonneg _ _ F4 Hs4) as Hpd.
  assert (Hs5 : 0 <= od + pd) by (clear - Hod Hpd; qc_lra).
  destruct (fit_within (od + pd) nd J HJ F5 ltac:(clear - Hs5 HTJ; qc_lra)
              ltac:(clear - W4b W2b W3b N2 HcC HodO Hsize HuJh Hhalf; qc_lra)) as [W5a W5b].
  subst ne B. fold a ar c0 uR.
  clear - W1a W1b N3 N4 W2a W2b W3a W3b W4a W4b W5a W5b He1 He2.
  split; qc_lra.
Qed.

(* ---- the Buy arm of delta_for_tx: rounded against exact ---- *)
Theorem buy_row_error (j1 J : nat) (R C O eps : Qc) t pre_d pre_e sh aps com rate crate od oe dd de :
  (j1 <= 28)%nat -> (J <= 28)%nat ->
  t_act t = Buy sh aps com rate crate -> valid_tx t = true ->
  s_acb pre_d = Some od -> s_acb pre_e = Some oe ->
  oe - eps <= od -> od <= oe + eps ->
  aps * sh <= T j1 -> rate <= R -> com * crate <= C -> 0 <= od -> od <= O ->
  O + (T j1 + 1) * R + C + (1 + 1 + 1) <= T J ->
  delta_nonsell dec t pre_d = Ok dd -> delta_nonsell exact t pre_e = Ok de ->
  exists nd ne,
    s_acb (d_post dd) = Some nd /\ s_acb (d_post de) = Some ne /\
    ne = oe + (aps * sh * rate + com * crate) /\
    ne - (eps + u j1 * R + (1 + 1 + 1 + 1) * u J) <= nd /\
    nd <= ne + (eps + u j1 * R + (1 + 1 + 1 + 1) * u J).
Proof.
  intros Hj1 HJ Hact Hv Hod Hoe He1 He2 Ha HrR HcC Hod0 HodO Hsize Hd He.
  unfold valid_tx in Hv. rewrite Hact in Hv. cbn [valid_action] in Hv.
  apply andb_prop in Hv as [Hv Vcrate]. apply andb_prop in Hv as [Hv Vrate].
  apply andb_prop in Hv as [Hv Vcom]. apply andb_prop in Hv as [Vsh Vaps].
  apply Qcltb_true in Vsh, Vrate, Vcrate. apply Qcleb_true in Vaps, Vcom.
  unfold delta_nonsell in Hd, He. rewrite Hact in Hd, He.
  (* rounded *)
  bind_as Hd as nshd Ed1. bind_as Hd as nall0d Ed0. bind_as Hd as nalld Ed2. rewrite Hod in Hd.
  unfold local_value in Hd. bind_as Hd as vd Ed3. bind_as Ed3 as v1d Ed3a.
  bind_as Hd as cd Ed4. bind_as Hd as pd Ed5. bind_as Hd as nd Ed6.
  inversion Hd; subst dd; clear Hd.
  apply gez_mul_dec in Ed3a, Ed3, Ed4. apply gez_add_dec in Ed5, Ed6.
  (* exact *)
  bind_as He as nshe Ee1. bind_as He as nall0e Ee0. bind_as He as nalle Ee2. rewrite Hoe in He.
  unfold local_value in He. bind_as He as ve Ee3. bind_as Ee3 as v1e Ee3a.
  bind_as He as ce Ee4. bind_as He as pe Ee5. bind_as He as ne Ee6.
  inversion He; subst de; clear He.
  apply gez_mul_exact in Ee3a as [-> _]. apply gez_mul_exact in Ee3 as [-> _].
  apply gez_mul_exact in Ee4 as [-> _]. apply gez_add_exact in Ee5 as [-> _].
  apply gez_add_exact in Ee6 as [-> _].
  exists nd, (oe + (aps * sh * rate + com * crate)). cbn [d_post mk_delta s_acb].
  split; [reflexivity|]. split; [reflexivity|]. split; [reflexivity|].
  exact (buy_error_math j1 J R C O eps sh aps com rate crate od oe v1d vd cd pd nd Hj1 HJ
           (Qclt_le_weak _ _ Vsh) Vaps Ha (Qclt_le_weak _ _ Vrate) HrR Vcom (Qclt_le_weak _ _ Vcrate) HcC
           Hod0 HodO Hsize He1 He2 Ed3a Ed3 Ed4 Ed5 Ed6).
Qed.

(* ---- in powers of ten: quantities (shares, price, commission) at most 10^k,
   exchange rates at most 10, cost base so far at most 10^(2k+1): all values of
   the arm stay below 10^(2k+2), and the new cost base is within
   eps + 10 * u(2k) + 4 * u(2k+2) = eps + 2.05 * 10^-(26-2k) of the exact one *)
Lemma T_mul a b : T (a + b) = T a * T b.
Proof.
  unfold T, QcZ. apply Qc_is_canon. qc_unfold. rewrite p10_mul. unfold Qeq, Qmult, inject_Z. cbn [Qnum Qden]. lia.
Qed.

Theorem buy_row_error_pow10 (k : nat) (eps : Qc) t pre_d pre_e sh aps com rate crate od oe dd de :
  (2 * k + 2 <= 28)%nat ->
  t_act t = Buy sh aps com rate crate -> valid_tx t = true ->
  s_acb pre_d = Some od -> s_acb pre_e = Some oe ->
  oe - eps <= od -> od <= oe + eps ->
  sh <= T k -> aps <= T k -> com <= T k -> rate <= T 1 -> crate <= T 1 ->
  0 <= od -> od <= T (2 * k + 1) ->
  delta_nonsell dec t pre_d = Ok dd -> delta_nonsell exact t pre_e = Ok de ->
  exists nd ne,
    s_acb (d_post dd) = Some nd /\ s_acb (d_post de) = Some ne /\
    ne = oe + (aps * sh * rate + com * crate) /\
    ne - (eps + u (2 * k) * T 1 + (1 + 1 + 1 + 1) * u (2 * k + 2)) <= nd /\
    nd <= ne + (eps + u (2 * k) * T 1 + (1 + 1 + 1 + 1) * u (2 * k + 2)).
Proof.
  intros Hk Hact Hv Hod Hoe He1 He2 Bsh Baps Bcom Brate Bcrate Hod0 HodO Hd He.
  pose proof Hv as Hv'. unfold valid_tx in Hv'. rewrite Hact in Hv'. cbn [valid_action] in Hv'.
  apply andb_prop in Hv' as [Hv' Vcrate]. apply andb_prop in Hv' as [Hv' Vrate].
  apply andb_prop in Hv' as [Hv' Vcom]. apply andb_prop in Hv' as [Vsh Vaps].
  apply Qcltb_true in Vsh, Vrate, Vcrate. apply Qcleb_true in Vaps, Vcom.
  assert (E2k : T (2 * k) = T k * T k) by (replace (2 * k)%nat with (k + k)%nat by lia; apply T_mul).
  assert (E2k1 : T (2 * k + 1) = T k * T k * T 1) by (rewrite T_mul, E2k; reflexivity).
  assert (E2k2 : T (2 * k + 2) = T k * T k * T 1 * T 1).
  { replace (2 * k + 2)%nat with (2 * k + 1 + 1)%nat by lia. rewrite T_mul, E2k1. reflexivity. }
  assert (Eten : T 1 = 1+1+1+1+1+1+1+1+1+1) by (apply Qc_is_canon; reflexivity).
  pose proof (T_ge_1 k) as Hx.
  apply (buy_row_error (2 * k) (2 * k + 2) (T 1) (T k * T 1) (T (2 * k + 1)) eps t pre_d pre_e
           sh aps com rate crate od oe dd de); try assumption; try lia.
  - rewrite E2k. apply (mul_bounds aps sh (T k) (T k)); [exact Vaps | exact Baps | apply Qclt_le_weak; exact Vsh | exact Bsh].
  - apply (mul_bounds com crate (T k) (T 1)); [exact Vcom | exact Bcom | apply Qclt_le_weak; exact Vcrate | exact Bcrate].
  - rewrite E2k, E2k1, E2k2, Eten. set (x := T k) in *. clear - Hx. qc_unfold. nra.
Qed.
