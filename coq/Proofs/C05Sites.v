(* C05: panic sites of the bookkeeping core.
   (1) Under exact arithmetic the two assert_eq! of set_latest_post_status
       (portfolio_status.rs:92 and :100) never fire for a row produced by
       delta_for_tx: when the real code panics there it is a rounding effect.
   (2) For ANY arithmetic the assert "no buying affiliates" (superficial_loss.rs:374)
       and the unwrap of a missing end-of-period entry (superficial_loss.rs:392)
       are unreachable. *)
From Coq Require Import List NArith ZArith QArith Qcanon Bool Lia.
From ACB Require Import Base.Outcome Base.QcExtra Base.Fit Base.Arith Model.Tx Model.Ledger Model.Sfl
     Model.DeltaList Proofs.Tactics Proofs.AllAfter Proofs.C04Inv Proofs.C02Scan.
Import ListNotations.
Local Open Scope Qc_scope.

Definition last_sh (st : pstate) (af : aff) : Qc :=
  match latest_for st af with Some s => s_sh s | None => 0 end.

Lemma next_pre_all st af : s_all (next_pre_status st af) = ps_all st.
Proof.
  unfold next_pre_status.
  destruct (Qceqb_spec (s_all match latest_for st af with Some s => s | None => default_status af end) (ps_all st)) as [E|E];
    [exact E | reflexivity].
Qed.
Lemma next_pre_sh st af : s_sh (next_pre_status st af) = last_sh st af.
Proof.
  unfold next_pre_status, last_sh.
  destruct (Qceqb _ _); destruct (latest_for st af); reflexivity.
Qed.

Lemma nonsell_all_exact t pre d :
  delta_nonsell exact t pre = Ok d ->
  s_all (d_post d) = s_all pre + (s_sh (d_post d) - s_sh pre).
Proof.
  unfold delta_nonsell. intros H.
  destruct (t_act t) as [n price com rate crate | n price com rate crate sp | amount rate
                        | n amount | post pre_ io].
  - bind_as H as nsh E1. apply gez_add_exact in E1 as [-> _].
    rewrite all_after_exact in H. cbn [bind] in H.
    bind_as H as nall E2. apply gez_unwrap_ok in E2 as [-> _].
    destruct (s_acb pre).
    + bind_as H as v E3. bind_as H as c E4. bind_as H as pr E5. bind_as H as nacb E6.
      inversion H; subst d; cbn. ring.
    + inversion H; subst d; cbn. ring.
  - discriminate.
  - destruct (s_acb pre); [|destruct (negb _); discriminate].
    destruct (af_reg _); [discriminate|].
    bind_as H as v E1. bind_as H as red E2. bind_as H as nacb E3. destruct (Qcltb _ _); [discriminate|].
    inversion H; subst d; cbn. ring.
  - destruct (s_acb pre); [|destruct (negb _); discriminate].
    destruct (af_reg _); [discriminate|].
    bind_as H as m E1. bind_as H as amt E2. bind_as H as nacb E3.
    inversion H; subst d; cbn. ring.
  - bind_as H as m E0. bind_as H as qd E1. bind_as H as nsh E2.
    rewrite all_after_exact in H. cbn [bind] in H.
    destruct (Qcltb _ _); [discriminate|]. destruct (_ && _); [discriminate|].
    inversion H; subst d; cbn. ring.
Qed.

Lemma delta_all_exact bef t aft st d inj :
  delta_for_tx exact bef t aft st = Ok (d, inj) ->
  s_all (d_post d) = s_sh (d_post d) + ps_all st - last_sh st (t_af t).
Proof.
  unfold delta_for_tx. intros H. bind_as H as u Eu.
  assert (Hgoal : forall sh all, all = ps_all st + (sh - last_sh st (t_af t)) ->
                                 all = sh + ps_all st - last_sh st (t_af t)) by (intros; subst; ring).
  destruct (t_act t) as [n price com rate crate | n price com rate crate sp | amount rate
                        | n amount | post pre_ io] eqn:Ea.
  2: { bind_as H as c Ec.
       assert (Hc : sc_all c = s_all (next_pre_status st (t_af t)) - n /\
                    sc_sh c = s_sh (next_pre_status st (t_af t)) - n).
       { unfold sell_core in Ec. cbn [a_sub exact bind] in Ec.
         destruct (Qcltb _ 0); [discriminate|].
         rewrite all_after_exact in Ec. cbn [bind] in Ec.
         replace (s_all (next_pre_status st (t_af t)) +
                  (s_sh (next_pre_status st (t_af t)) - n - s_sh (next_pre_status st (t_af t))))
           with (s_all (next_pre_status st (t_af t)) - n) in Ec by ring.
         destruct (Qcltb _ 0); [discriminate|].
         bind_as Ec as maps Em. destruct maps.
         - bind_as Ec as nacb E1. bind_as Ec as v E2. bind_as Ec as cm E3.
           cbn [a_sub a_mul exact bind] in Ec. inversion Ec; subst c; cbn. auto.
         - inversion Ec; subst c; cbn. auto. }
       destruct Hc as [Hall Hsh]. rewrite next_pre_all in Hall. rewrite next_pre_sh in Hsh.
       assert (Hd : s_all (d_post d) = sc_all c /\ s_sh (d_post d) = sc_sh c).
       { destruct (sc_gain c) as [g|].
         - destruct (Qcltb g 0).
           + bind_as H as m Em. destruct m as [[info inj']|]; [bind_as H as g' Eg|]; inversion H; subst; cbn; auto.
           + destruct sp; [discriminate|]. inversion H; subst; cbn; auto.
         - inversion H; subst; cbn; auto. }
       destruct Hd as [-> ->]. rewrite Hall, Hsh. ring. }
  all: bind_as H as d0 Ed; inversion H; subst d0 inj; clear H;
    apply nonsell_all_exact in Ed; rewrite Ed, next_pre_all, next_pre_sh; ring.
Qed.

Theorem set_latest_asserts_hold_exact bef t aft st d inj :
  delta_for_tx exact bef t aft st = Ok (d, inj) -> st_ok st ->
  exists st', set_latest exact st (t_af t) (d_post d) = Ok st'.
Proof.
  intros H Hst.
  pose proof (delta_all_exact _ _ _ _ _ _ H) as Hall.
  pose proof (delta_for_tx_ok exact _ _ _ _ _ _ H Hst) as [Htx (Hok & Hreg & Hnreg)].
  rewrite Htx in Hreg, Hnreg.
  unfold set_latest. fold (last_sh st (t_af t)). rewrite all_after_exact. cbn [bind].
  assert (E1 : Bool.eqb (af_reg (t_af t)) (is_none (s_acb (d_post d))) = true).
  { destruct (af_reg (t_af t)) eqn:Er.
    - destruct (Hreg eq_refl) as [-> _]. reflexivity.
    - specialize (Hnreg eq_refl). destruct (s_acb (d_post d)); [reflexivity | congruence]. }
  rewrite E1. cbn [negb].
  destruct (Qceqb_spec (s_all (d_post d)) (ps_all st + (s_sh (d_post d) - last_sh st (t_af t)))) as [_|Hn];
    [|contradiction Hn; rewrite Hall; ring].
  cbn [negb]. eexists. reflexivity.
Qed.

(* ---- any arithmetic: buyers are recorded consistently ---- *)
Section Any.
  Variable A : arith.

  Definition scan_ok (s : scan) : Prop :=
    (sc_buyers s = [] -> sc_acq s = 0) /\
    (forall a, In a (sc_buyers s) -> amem (af_id a) (sc_active s) = true).

  Lemma amem_aupdate {V} k k' (v : V) l : amem k (aupdate k' v l) = N.eqb k k' || amem k l.
  Proof. unfold amem. rewrite alookup_aupdate. destruct (N.eqb k k'); reflexivity. Qed.

  Lemma in_add_aff a b l : In a (add_aff b l) -> a = b \/ In a l.
  Proof.
    induction l as [|c l IH]; cbn [add_aff]; intros H.
    - destruct H as [<-|[]]; left; reflexivity.
    - destruct (aff_eqb b c); [right; exact H|]. destruct H as [<-|H]; [right; left; reflexivity|].
      destruct (IH H); [left; assumption | right; right; assumption].
  Qed.
  Lemma add_aff_nonempty b l : add_aff b l <> [].
  Proof. destruct l as [|c l]; cbn [add_aff]; [discriminate|]. destruct (aff_eqb b c); discriminate. Qed.

  Lemma fwd_scan_ok last dflt aft adj s s' :
    fwd_scan A last dflt aft adj s = Ok s' -> scan_ok s -> scan_ok s'.
  Proof.
    revert adj s. induction aft as [|x aft IH]; cbn [fwd_scan]; intros adj s H Hs.
    - inversion H; subst; assumption.
    - destruct (Z.ltb last (t_sd x)); [inversion H; subst; assumption|].
      destruct (t_act x).
      + bind_as H as b E1. bind_as H as eop E2. bind_as H as na E3. bind_as H as acq E4.
        eapply IH; eauto. destruct Hs as [H1 H2]. split; cbn [sc_buyers sc_acq sc_active].
        * intros Hn. exfalso. eapply add_aff_nonempty; eauto.
        * intros a Ha. rewrite amem_aupdate. apply in_add_aff in Ha as [->|Ha].
          -- rewrite N.eqb_refl. reflexivity.
          -- rewrite (H2 _ Ha). apply orb_true_r.
      + bind_as H as b E1. bind_as H as eop E2. destruct (Qcltb eop 0); [discriminate|].
        bind_as H as na E3. destruct (Qcltb na 0); [discriminate|]. eapply IH; eauto.
        destruct Hs as [H1 H2]. split; cbn [sc_buyers sc_acq sc_active]; [exact H1|].
        intros a Ha. rewrite amem_aupdate, (H2 _ Ha). apply orb_true_r.
      + eapply IH; eauto.
      + eapply IH; eauto.
      + bind_as H as f E1. bind_as H as nsa E2. eapply IH; eauto.
  Qed.

  Lemma bwd_scan_ok first dflt bef adj s s' :
    bwd_scan A first dflt bef adj s = Ok s' -> scan_ok s -> scan_ok s'.
  Proof.
    revert adj s. induction bef as [|x bef IH]; cbn [bwd_scan]; intros adj s H Hs.
    - inversion H; subst; assumption.
    - destruct (Z.ltb (t_sd x) first); [inversion H; subst; assumption|].
      destruct (t_act x).
      + bind_as H as b E1. bind_as H as acq E2.
        eapply IH; eauto. destruct Hs as [H1 H2]. split; cbn [sc_buyers sc_acq sc_active].
        * intros Hn. exfalso. eapply add_aff_nonempty; eauto.
        * intros a Ha. destruct (amem (af_id (t_af x)) (sc_active s)) eqn:Em.
          -- apply in_add_aff in Ha as [->|Ha]; [exact Em | apply H2; exact Ha].
          -- rewrite amem_aupdate. apply in_add_aff in Ha as [->|Ha].
             ++ rewrite N.eqb_refl. reflexivity.
             ++ rewrite (H2 _ Ha). apply orb_true_r.
      + eapply IH; eauto.
      + eapply IH; eauto.
      + eapply IH; eauto.
      + bind_as H as f E1. bind_as H as nsa E2. eapply IH; eauto.
  Qed.

  Lemma sfl_info_ok bef t sold aft st s :
    sfl_info A bef t sold aft st = Ok (Some s) -> scan_ok s /\ 0 < sc_acq s.
  Proof.
    unfold sfl_info. intros H.
    bind_as H as all0 E0. destruct (Qcltb all0 0); [discriminate|].
    bind_as H as af0 E1. destruct (Qcltb af0 0); [discriminate|].
    bind_as H as s1 E2. destruct (negb _); [discriminate|].
    bind_as H as s2 E3. destruct (Qcltb_spec 0 (sc_acq s2)) as [Hq|]; [|discriminate].
    inversion H; subst s. split; [|exact Hq].
    eapply bwd_scan_ok; eauto. eapply fwd_scan_ok; eauto.
    split; cbn; [reflexivity | intros a []].
  Qed.

  Lemma in_ins_aff a b l : In a (ins_aff b l) -> a = b \/ In a l.
  Proof.
    induction l as [|c l IH]; cbn [ins_aff]; intros H.
    - destruct H as [<-|[]]; left; reflexivity.
    - destruct (N.leb _ _).
      + destruct H as [<-|H]; [left; reflexivity | right; exact H].
      + destruct H as [<-|H]; [right; left; reflexivity|].
        destruct (IH H); [left; assumption | right; right; assumption].
  Qed.
  Lemma in_sort_affs a l : In a (sort_affs l) -> In a l.
  Proof.
    unfold sort_affs. induction l as [|b l IH]; cbn [fold_right]; intros H; [exact H|].
    apply in_ins_aff in H as [->|H]; [left; reflexivity | right; apply IH; exact H].
  Qed.

  Lemma portions_no_missing active total l :
    (forall a, In a l -> amem (af_id a) active = true) ->
    forall p, portions active total l <> Panic p.
  Proof.
    induction l as [|a l IH]; cbn [portions]; intros Hm p; [discriminate|].
    pose proof (Hm a (or_introl eq_refl)) as Ha. unfold amem in Ha.
    destruct (alookup (af_id a) active); [|discriminate].
    specialize (IH (fun b Hb => Hm b (or_intror Hb))).
    destruct (portions active total l) eqn:E; cbn [bind]; try discriminate.
    exfalso. eapply IH; reflexivity.
  Qed.

  (* the arithmetic itself only fails by overflow or division by zero *)
  Definition arith_panic (p : panic) : Prop := p = PanicOverflow \/ p = PanicDivZero.
  Definition arith_sane : Prop :=
    forall a b p, (a_add A a b = Panic p \/ a_sub A a b = Panic p \/ a_mul A a b = Panic p \/ a_div A a b = Panic p)
                  -> arith_panic p.

  Lemma sum_buyers_panic active l acc p :
    arith_sane -> sum_buyers A active l acc = Panic p ->
    arith_panic p \/ exists s, p = PanicConstraint s.
  Proof.
    intros Hs. revert acc. induction l as [|a l IH]; intros acc; cbn [sum_buyers]; [discriminate|].
    unfold gez_add, gez_unwrap. destruct (a_add A acc _) as [r| |] eqn:Ea; cbn [bind]; try discriminate.
    - destruct (Qcleb 0 r); cbn [bind]; [apply IH|]. intros H; inversion H; subst. right. eexists; reflexivity.
    - intros H; inversion H; subst. left. eapply Hs. left. exact Ea.
  Qed.

  Lemma portions_panic active total l p :
    portions active total l = Panic p ->
    p = PanicMissing Site.eop_missing /\ exists a, In a l /\ amem (af_id a) active = false.
  Proof.
    induction l as [|a l IH]; cbn [portions]; [discriminate|].
    destruct (alookup (af_id a) active) eqn:El.
    - destruct (portions active total l) eqn:E; cbn [bind]; try discriminate.
      intros H; inversion H; subst. destruct (IH eq_refl) as [Hp (b & Hb & Hm)].
      split; [exact Hp|]. exists b. split; [right; exact Hb | exact Hm].
    - intros H; inversion H; subst. split; [reflexivity|]. exists a. split; [left; reflexivity|].
      unfold amem. rewrite El. reflexivity.
  Qed.

  (* the two "cannot happen" sites of calc_superficial_loss_ratio *)
  Theorem sfl_ratio_sites_unreachable bef t sold aft st info p :
    arith_sane ->
    sfl_info A bef t sold aft st = Ok info ->
    sfl_ratio A sold info = Panic p ->
    p <> PanicAssert Site.no_buyers /\ p <> PanicMissing Site.eop_missing.
  Proof.
    intros Hsane H Hp. destruct info as [s|]; [|discriminate Hp].
    apply sfl_info_ok in H as [[H1 H2] Hq]. unfold sfl_ratio in Hp.
    destruct (sc_buyers s) as [|b bs] eqn:Eb.
    - exfalso. rewrite (H1 eq_refl) in Hq. revert Hq. apply Qcle_not_lt, Qcle_refl.
    - rewrite <- Eb in *.
      destruct (sum_buyers A (sc_active s) (sort_affs (sc_buyers s)) 0) as [total| |] eqn:Et; cbn [bind] in Hp;
        try discriminate Hp.
      + destruct (Qcltb 0 total).
        * destruct (portions (sc_active s) total (sort_affs (sc_buyers s))) as [ps| |] eqn:Ep; cbn [bind] in Hp;
            try discriminate Hp.
          inversion Hp; subst. apply portions_panic in Ep as [_ (a & Ha & Hm)].
          exfalso. apply in_sort_affs in Ha. rewrite (H2 _ Ha) in Hm. discriminate.
        * cbn [bind] in Hp. discriminate Hp.
      + inversion Hp; subst. apply sum_buyers_panic in Et; [|exact Hsane].
        destruct Et as [[->| ->]|[site ->]]; split; discriminate.
  Qed.
End Any.

Lemma exact_sane : arith_sane exact.
Proof.
  intros a b p [H|[H|[H|H]]]; cbn in H; try discriminate.
  destruct (Qceqb b 0); inversion H; right; reflexivity.
Qed.

Lemma dec_sane : arith_sane dec.
Proof.
  intros a b p [H|[H|[H|H]]]; cbn in H; unfold fit_res in H.
  1-3: destruct (Fit.fit _); inversion H; left; reflexivity.
  destruct (Qceqb b 0); [inversion H; right; reflexivity|].
  destruct (Fit.fit _); inversion H; left; reflexivity.
Qed.
