(* C10, annual mode, ledger-loop level with RE-EMITTED rows: the generated rows
   (base purchases ++ 1-January sales) followed by the re-emitted rows K' and
   the later rows T.  Generalises C10Annual.roundtrip_annual_run (which had no
   re-emitted rows) exactly as C10Roundtrip.roundtrip_run does for the simple
   mode: annual_rebuild, then kept_sim, then later_sim.  The generated sales
   are transparent for every backward scan (the scan skips sales), and the
   base purchases lie before every window. *)
From Coq Require Import List NArith ZArith QArith Qcanon Bool Lia Sorted.
From ACB Require Import Base.Outcome Base.QcExtra Base.Arith Model.Tx Model.Ledger Model.Sfl
     Model.DeltaList Model.App Model.Summary Proofs.Tactics Proofs.C15Full Proofs.C04Sum
     Proofs.RenderProps Proofs.C01Refine Proofs.SummaryProps Proofs.C10Scan Proofs.C10Sim Proofs.C10Cut
     Proofs.C10Roundtrip Proofs.C04Inv Proofs.C10Annual.
Import ListNotations.
Local Open Scope Qc_scope.

Theorem roundtrip_annual_kept regof like d0 (hs : list ahold) (sells : list asell) K T B1 st1 dsK bK stK dsT K' :
  NoDup (map (fun h => af_id (ah_af h)) hs) -> Forall ah_ok hs ->
  (forall h, In h hs -> ah_n h = ah_sh h + qn (cnt (af_id (ah_af h)) sells)) ->
  Forall (sell_ok hs (K' ++ T)) sells ->
  StronglySorted (fun a b => in_gap (as_date a) b) sells -> NoDup (map akey sells) ->
  Forall (fun s => (d0 < as_date s - window_days)%Z) sells ->
  ps_all st1 = tot_sh hs -> lp st1 = ps_all st1 ->
  (forall af, goodaf regof af -> obs st1 af = obs_hs hs af ah_sh (0, if af_reg af then None else Some 0)) ->
  run_part exact B1 st1 K T = (dsK, bK, stK, None) ->
  run_loop exact bK stK T = (dsT, None) ->
  keep_all dsK = Ok K' ->
  Forall spec_nz (K ++ T) -> st_ok st1 -> Forall sell_pos (K ++ T) ->
  Forall (gooddelta regof) (dsK ++ dsT) ->
  Forall (fun d => (d_sfl d <> None -> inert exact (d_sd d - window_days) B1)
                   /\ (d0 < d_sd d - window_days)%Z) (dsK ++ dsT) ->
  exists dsB dsS dsK',
    run exact None (map (abuy_tx like d0) hs ++ map (asell_tx like) sells ++ K' ++ T) = (dsB ++ dsS ++ dsK' ++ dsT, None)
    /\ Forall (fun d => d_gain d = None) dsB
    /\ map d_gain dsS = map (fun s => Some (as_gain s - as_loss s)) sells
    /\ Forall (fun d => d_sfl d = None) dsS
    /\ map d_post dsK' = map d_post dsK /\ map d_gain dsK' = map d_gain dsK
    /\ Forall (fun d => exists g, In g (map (abuy_tx like d0) hs ++ map (asell_tx like) sells ++ K') /\ d_sd d = t_sd g)
              (dsB ++ dsS ++ dsK').
Proof.
  intros Hnd Hok Hn Hso Hsort Hndk Hd0 Htot1 Hlp1 Hobs1 HK HT Hk Hnz Hok1 Hsp0 HG HW.
  apply Forall_app in Hsp0 as [Hsp Hspt]. apply Forall_app in Hnz as [Hnzk Hnzt].
  apply Forall_app in HG as [HGk HGt].
  destruct (annual_rebuild like d0 hs sells (K' ++ T) Hnd Hok Hn Hso Hsort Hndk Hd0)
    as (dsB & dsS & stG & Hrun & Htot & Hlp & Hobs & HgB & Hg & Hsf).
  set (B2 := rev (map (asell_tx like) sells) ++ rev (map (abuy_tx like d0) hs)) in *.
  assert (Hgood : forall af, goodaf regof af -> obs st1 af = obs stG af).
  { intros af Hga. rewrite (Hobs1 af Hga), (Hobs af). reflexivity. }
  assert (HR : srel regof st1 stG).
  { split; [|split; [|split]].
    - rewrite Htot, Htot1. reflexivity.
    - rewrite Hlp1, Hlp, Htot, Htot1. reflexivity.
    - intros af. set (af' := {| af_id := af_id af; af_reg := regof (af_id af); af_dflt := af_dflt af |}).
      assert (Hga : goodaf regof af') by reflexivity.
      rewrite (obs_fst_id st1 af af' eq_refl), (obs_fst_id stG af af' eq_refl), (Hgood af' Hga). reflexivity.
    - intros af Hga. rewrite (Hgood af Hga). reflexivity. }
  assert (HB2 : forall first, (d0 < first)%Z -> inert exact first B2).
  { intros first Hf. unfold B2. apply sells_inert.
    - apply Forall_rev. apply Forall_map. apply Forall_forall. intros s _. reflexivity.
    - apply all_before_inert. apply Forall_rev. apply Forall_map. apply Forall_forall. intros h _. exact Hf. }
  assert (HWc : Forall (wcond B1 B2) (dsK ++ dsT)).
  { eapply Forall_impl; [|exact HW]. intros d [H1 H2]. split.
    - intros Hs. split; [apply H1; exact Hs | apply HB2; exact H2].
    - intros _ _. apply HB2. exact H2. }
  apply Forall_app in HWc as [HWk HWt].
  pose proof (run_part_ok K B1 st1 T dsK bK stK HK Hok1) as HokK.
  destruct (kept_sim B1 B2 T regof K [] [] st1 stG dsK bK stK K' (Forall2_nil _) HR Hnzk Hsp Hok1 HK Hk HWk HGk)
    as (dsK' & D1' & D2' & st2' & Erun & Eb1 & HD2 & HR2 & Epost & Egain).
  cbn [app] in Erun. subst bK.
  pose proof (later_sim B1 B2 regof T D1' D2' stK st2' dsT HD2 HR2 Hnzt HokK Hspt HT HWt HGt) as ET.
  exists dsB, dsS, dsK'. split; [|split; [exact HgB|split; [exact Hg|split; [exact Hsf|split; [exact Epost|split; [exact Egain|]]]]]].
  - rewrite run_None. fold st0. rewrite (app_assoc (map (abuy_tx like d0) hs)), run_loop_app, Hrun.
    rewrite run_loop_app, Erun, ET. rewrite <- !app_assoc. reflexivity.
  - rewrite (app_assoc dsB). apply Forall_app. split.
    + eapply (run_part_sdP exact (fun z => exists g, In g (map (abuy_tx like d0) hs ++ map (asell_tx like) sells ++ K') /\ z = t_sd g));
        [|exact Hrun].
      apply Forall_forall. intros g Hg'. exists g. split; [|reflexivity]. rewrite app_assoc. apply in_or_app. left. exact Hg'.
    + eapply (run_part_sdP exact (fun z => exists g, In g (map (abuy_tx like d0) hs ++ map (asell_tx like) sells ++ K') /\ z = t_sd g));
        [|exact Erun].
      apply Forall_forall. intros g Hg'. exists g. split; [|reflexivity]. apply in_or_app. right. apply in_or_app. right. exact Hg'.
Qed.
