(* C03 under rust_decimal rounding: how far can the conservation equation be
   off at a checkpoint of the ROUNDED ledger?

   Notation of Proofs/C03Conserve.v: the residual of a list of report rows p
   starting from holdings hs is
     phi hs p = gains - proceeds + costs - RoC - (cost base held after - before)
   and phi = sum of the per-row defects [inc_row].  In exact arithmetic every
   row's defect is 0 (C03_conservation).  Under [dec] the defect of a row is
   made of the roundings of THAT ROW ONLY: the row's figures are computed from
   the rounded ledger's own previous cost base, and the identity
     gain - proceeds - (new cost base - old cost base) = 0
   holds exactly for the unrounded figures computed from the same previous
   cost base.  So the accumulated deviation from the exact ledger (which grows
   with the row index, Proofs/DecAccumulate.v) does NOT enter the residual: it
   grows linearly, by at most
     cC k = cR k + 10^k u(k+1) + u(2k+2) = 3.15 * 10^-(26-2k)
   per row (Sell arm: the gain's roundings cR k plus the new cost base's
   10^k u(k+1) + u(2k+2); the other arms are smaller).

   The exact ledger is needed only because the class [in_class k] is stated on
   the pair of runs: "the share balance after the row is not rounded" is
   [s_sh (d_post dd) = s_sh (d_post de)].  The two runs are walked in lockstep
   with [st_close] of DecAccumulate.v (reusing [row_error] for the step). *)
From Coq Require Import List NArith ZArith QArith Qcanon Bool Lia Lqa Qabs.
From ACB Require Import Base.Outcome Base.QcExtra Base.Fit Base.Arith Model.Tx Model.Ledger Model.Sfl
     Model.DeltaList Spec.AvgCost Proofs.Tactics Proofs.FitProps Proofs.C01Refine Proofs.C04Sum
     Proofs.C03Conserve Proofs.DecRowError Proofs.DecSellError Proofs.DecSellRow Proofs.DecAccumulate.
Import ListNotations.
Local Open Scope Qc_scope.

(* the per-row constant of the residual *)
Definition cC (k : nat) : Qc := cR k + (T k * u (k + 1) + u (2 * k + 2)).

Lemma cC_nonneg k : 0 <= cC k.
Proof.
  destruct (cR_parts k) as (H1 & H2 & H3). pose proof (cR_nonneg k) as H0. unfold cC.
  set (a := cR k) in *. set (b := T k * u (k + 1)) in *. set (c := u (2 * k + 2)) in *. clearbody a b c.
  clear - H0 H2 H3. qc_lra.
Qed.

(* the residual of the conservation equation, as C03_conservation writes it *)
Definition c03_residual (hs : holdings) (p : list delta) : Qc :=
  sum_gains p
  - (sum_proceeds p - (sum_costs p + total_acb hs) + sum_roc hs p + total_acb (after hs p)).

Lemma residual_phi hs p : c03_residual hs p = phi hs p.
Proof. unfold c03_residual. rewrite phi_sums. ring. Qed.

(* ---- linear steps, over plain variables ---- *)
Lemma sell_defect_lin (a b c nd gd v x od : Qc) :
  (od - x) - (0 + b + c) <= nd -> nd <= (od - x) + (0 + b + c) ->
  (v - x) - (0 + a + b + (1 + 1 + 1 + 1 + 1) * c) <= gd -> gd <= (v - x) + (0 + a + b + (1 + 1 + 1 + 1 + 1) * c) ->
  - ((a + b + (1 + 1 + 1 + 1 + 1) * c) + (b + c)) <= gd - v - (nd - od) /\
  gd - v - (nd - od) <= (a + b + (1 + 1 + 1 + 1 + 1) * c) + (b + c).
Proof. intros. split; qc_lra. Qed.

Lemma buy_defect_lin (a b c nd cost od : Qc) :
  0 <= a -> 0 <= b -> 0 <= c ->
  (od + cost) - (0 + a + (1 + 1 + 1 + 1) * c) <= nd -> nd <= (od + cost) + (0 + a + (1 + 1 + 1 + 1) * c) ->
  - ((a + b + (1 + 1 + 1 + 1 + 1) * c) + (b + c)) <= 0 - 0 + cost - 0 - (nd - od) /\
  0 - 0 + cost - 0 - (nd - od) <= (a + b + (1 + 1 + 1 + 1 + 1) * c) + (b + c).
Proof. intros. split; qc_lra. Qed.

Lemma roc_defect_lin (a b c nd r od : Qc) :
  0 <= a -> 0 <= b -> 0 <= c ->
  (od - r) - (0 + a + (1 + 1) * c) <= nd -> nd <= (od - r) + (0 + a + (1 + 1) * c) ->
  - ((a + b + (1 + 1 + 1 + 1 + 1) * c) + (b + c)) <= 0 - 0 + 0 - r - (nd - od) /\
  0 - 0 + 0 - r - (nd - od) <= (a + b + (1 + 1 + 1 + 1 + 1) * c) + (b + c).
Proof. intros. split; qc_lra. Qed.

Lemma split_defect_lin (a b c od : Qc) :
  0 <= a -> 0 <= b -> 0 <= c ->
  - ((a + b + (1 + 1 + 1 + 1 + 1) * c) + (b + c)) <= 0 - 0 + 0 - 0 - (od - od) /\
  0 - 0 + 0 - 0 - (od - od) <= (a + b + (1 + 1 + 1 + 1 + 1) * c) + (b + c).
Proof. intros. split; qc_lra. Qed.

Lemma acc_step (c x y m : Qc) :
  - c <= x -> x <= c -> - (m * c) <= y -> y <= m * c ->
  - ((m + 1) * c) <= x + y /\ x + y <= (m + 1) * c.
Proof. intros. split; qc_lra. Qed.

(* ---- the arms under [dec] alone: figures against the unrounded figures
   computed from the SAME previous cost base ---- *)
Lemma sell_core_sh A pre sh aps com rate crate cd :
  sell_core A pre sh aps com rate crate = Ok cd -> a_sub A (s_sh pre) sh = Ok (sc_sh cd).
Proof.
  unfold sell_core. intros H. bind_as H as nsh E1. destruct (Qcltb nsh 0); [discriminate|].
  bind_as H as nall E2. destruct (Qcltb nall 0); [discriminate|].
  bind_as H as maps E3. destruct maps as [acbps|].
  - bind_as H as nacb E4. bind_as H as v E5. bind_as H as c E6. bind_as H as p E7.
    bind_as H as co E8. bind_as H as g E9. inversion H; reflexivity.
  - inversion H; reflexivity.
Qed.

Lemma sell_core_defect (k : nat) pre sh aps com rate crate od cd :
  (2 * k + 2 <= 28)%nat ->
  0 < sh -> 0 <= aps -> 0 <= com -> 0 < rate -> 0 < crate ->
  s_acb pre = Some od ->
  sh <= T k -> aps <= T k -> com <= T k -> rate <= T 1 -> crate <= T 1 -> s_sh pre <= T k ->
  0 <= od -> od <= T (k + 1) * s_sh pre ->
  sell_core dec pre sh aps com rate crate = Ok cd ->
  sc_sh cd = s_sh pre - sh ->
  exists nd gd,
    sc_acb cd = Some nd /\ sc_gain cd = Some gd /\
    - cC k <= gd - (aps * sh * rate - com * crate) - (nd - od) /\
    gd - (aps * sh * rate - com * crate) - (nd - od) <= cC k.
Proof.
  intros Hk Vsh Vaps Vcom Vrate Vcrate Hod Bsh Baps Bcom Brate Bcrate Bh Hod0 HodP Hd Hns.
  pose proof (sell_core_sh dec _ _ _ _ _ _ _ Hd) as Esh. rewrite Hns in Esh.
  set (h := s_sh pre) in *.
  unfold sell_core in Hd. fold h in Hd. bind_as Hd as nshd Ed1.
  inversion Esh as [En]. clear Esh Ed1.
  destruct (Qcltb nshd 0) eqn:Ens; [discriminate|]. apply Qcltb_false in Ens.
  assert (Hh : 0 < h) by (clear - En Ens Vsh; qc_lra).
  bind_as Hd as nalld Ed2. destruct (Qcltb nalld 0); [discriminate|].
  bind_as Hd as mapsd Ed3. unfold per_share_acb in Ed3. rewrite Hod in Ed3. fold h in Ed3.
  destruct (Qcltb_spec 0 h) as [_|Hn]; [|contradiction].
  bind_as Ed3 as pd Ed3a. inversion Ed3; subst mapsd; clear Ed3.
  apply gez_div_dec in Ed3a as [Hh0 Fp].
  bind_as Hd as nacbd Ed4. apply gez_mul_dec in Ed4.
  unfold local_value in Hd. bind_as Hd as vd Ed5. bind_as Ed5 as v1d Ed5a.
  apply gez_mul_dec in Ed5a, Ed5.
  bind_as Hd as c_d Ed6. apply gez_mul_dec in Ed6.
  bind_as Hd as payd Ed7. apply sub_dec in Ed7.
  bind_as Hd as costd Ed8. apply mul_dec in Ed8.
  bind_as Hd as g_d Ed9. apply sub_dec in Ed9.
  inversion Hd; subst cd; clear Hd. cbn [sc_acb sc_gain].
  exists nacbd, g_d. split; [reflexivity|]. split; [reflexivity|].
  pose proof (T_ge_1 k) as Hx.
  assert (Ha : aps * sh <= T (2 * k)).
  { rewrite T_2k. apply (mul_bounds aps sh (T k) (T k)); [exact Vaps | exact Baps | apply Qclt_le_weak; exact Vsh | exact Bsh]. }
  assert (HcC : com * crate <= T k * T 1).
  { apply (mul_bounds com crate (T k) (T 1)); [exact Vcom | exact Bcom | apply Qclt_le_weak; exact Vcrate | exact Bcrate]. }
  assert (Hsize : (T (2 * k) + 1) * T 1 + T k * T 1 + T k * (T (k + 1) + 1) + (1 + 1 + 1) <= T (2 * k + 2)).
  { rewrite T_2k, T_k1, T_2k2, T_ten. set (x := T k) in *. clear - Hx. qc_unfold. nra. }
  assert (He1 : od - 0 <= od) by (clear; qc_lra).
  assert (He2 : od <= od + 0) by (clear; qc_lra).
  pose proof (sell_error_math (2 * k) (k + 1) (2 * k + 2) (T 1) (T k * T 1) (T k) 0 h sh aps com rate crate od od
                nshd pd nacbd v1d vd c_d payd costd g_d
                ltac:(lia) ltac:(lia) ltac:(lia) Vsh Vaps Ha (Qclt_le_weak _ _ Vrate) Brate Vcom
                (Qclt_le_weak _ _ Vcrate) HcC Hh En Ens Bh Hod0 HodP Hsize (Qcle_refl 0) He1 He2
                Fp Ed4 Ed5a Ed5 Ed6 Ed7 Ed8 Ed9) as M.
  cbv zeta in M. destruct M as ([A1 A2] & [G1 G2] & _).
  assert (Ene : nshd * (od / h) = od - od / h * sh) by (rewrite En; field; exact Hh0).
  rewrite Ene in A1, A2.
  unfold cC, cR.
  exact (sell_defect_lin (u (2 * k) * T 1) (T k * u (k + 1)) (u (2 * k + 2)) nacbd g_d
           (aps * sh * rate - com * crate) (od / h * sh) od A1 A2 G1 G2).
Qed.

Lemma buy_defect (k : nat) t pre sh aps com rate crate od dd :
  (2 * k + 2 <= 28)%nat ->
  t_act t = Buy sh aps com rate crate -> valid_tx t = true ->
  s_acb pre = Some od ->
  sh <= T k -> aps <= T k -> com <= T k -> rate <= T 1 -> crate <= T 1 ->
  0 <= od -> od <= T (2 * k + 1) ->
  delta_nonsell dec t pre = Ok dd ->
  exists nd, s_acb (d_post dd) = Some nd /\ d_gain dd = None /\
    (od + (aps * sh * rate + com * crate)) - (0 + u (2 * k) * T 1 + (1 + 1 + 1 + 1) * u (2 * k + 2)) <= nd /\
    nd <= (od + (aps * sh * rate + com * crate)) + (0 + u (2 * k) * T 1 + (1 + 1 + 1 + 1) * u (2 * k + 2)).
Proof.
  intros Hk Hact Hv Hod Bsh Baps Bcom Brate Bcrate Hod0 HodO Hd.
  unfold valid_tx in Hv. rewrite Hact in Hv. cbn [valid_action] in Hv.
  apply andb_prop in Hv as [Hv Vcrate]. apply andb_prop in Hv as [Hv Vrate].
  apply andb_prop in Hv as [Hv Vcom]. apply andb_prop in Hv as [Vsh Vaps].
  apply Qcltb_true in Vsh, Vrate, Vcrate. apply Qcleb_true in Vaps, Vcom.
  unfold delta_nonsell in Hd. rewrite Hact in Hd.
  bind_as Hd as nshd Ed1. bind_as Hd as nall0d Ed0. bind_as Hd as nalld Ed2. rewrite Hod in Hd.
  unfold local_value in Hd. bind_as Hd as vd Ed3. bind_as Ed3 as v1d Ed3a.
  bind_as Hd as cd Ed4. bind_as Hd as pd Ed5. bind_as Hd as nd Ed6.
  inversion Hd; subst dd; clear Hd.
  apply gez_mul_dec in Ed3a, Ed3, Ed4. apply gez_add_dec in Ed5, Ed6.
  exists nd. cbn [d_post mk_delta s_acb d_gain]. split; [reflexivity|]. split; [reflexivity|].
  pose proof (T_ge_1 k) as Hx.
  assert (E2k1 : T (2 * k + 1) = T k * T k * T 1) by (rewrite T_mul, T_2k; reflexivity).
  assert (Ha : aps * sh <= T (2 * k)).
  { rewrite T_2k. apply (mul_bounds aps sh (T k) (T k)); [exact Vaps | exact Baps | apply Qclt_le_weak; exact Vsh | exact Bsh]. }
  assert (HcC : com * crate <= T k * T 1).
  { apply (mul_bounds com crate (T k) (T 1)); [exact Vcom | exact Bcom | apply Qclt_le_weak; exact Vcrate | exact Bcrate]. }
  assert (Hsize : T (2 * k + 1) + (T (2 * k) + 1) * T 1 + T k * T 1 + (1 + 1 + 1) <= T (2 * k + 2)).
  { rewrite T_2k, E2k1, T_2k2, T_ten. set (x := T k) in *. clear - Hx. qc_unfold. nra. }
  assert (He1 : od - 0 <= od) by (clear; qc_lra).
  assert (He2 : od <= od + 0) by (clear; qc_lra).
  exact (buy_error_math (2 * k) (2 * k + 2) (T 1) (T k * T 1) (T (2 * k + 1)) 0 sh aps com rate crate od od
           v1d vd cd pd nd ltac:(lia) ltac:(lia)
           (Qclt_le_weak _ _ Vsh) Vaps Ha (Qclt_le_weak _ _ Vrate) Brate Vcom (Qclt_le_weak _ _ Vcrate) HcC
           Hod0 HodO Hsize He1 He2 Ed3a Ed3 Ed4 Ed5 Ed6).
Qed.

Lemma roc_defect (k : nat) t pre aps rate od dd :
  (2 * k + 2 <= 28)%nat ->
  t_act t = Roc aps rate -> valid_tx t = true ->
  s_acb pre = Some od ->
  0 <= s_sh pre -> s_sh pre <= T k -> aps <= T k -> rate <= T 1 -> 0 <= od -> od <= T (2 * k + 1) ->
  delta_nonsell dec t pre = Ok dd ->
  exists nd, s_acb (d_post dd) = Some nd /\ d_gain dd = None /\
    (od - aps * s_sh pre * rate) - (0 + u (2 * k) * T 1 + (1 + 1) * u (2 * k + 2)) <= nd /\
    nd <= (od - aps * s_sh pre * rate) + (0 + u (2 * k) * T 1 + (1 + 1) * u (2 * k + 2)).
Proof.
  intros Hk Hact Hv Hod Hh Bh Baps Brate Hod0 HodO Hd.
  unfold valid_tx in Hv. rewrite Hact in Hv. cbn [valid_action] in Hv.
  apply andb_prop in Hv as [Vaps Vrate]. apply Qcleb_true in Vaps. apply Qcltb_true in Vrate.
  unfold delta_nonsell in Hd. rewrite Hact in Hd. rewrite Hod in Hd.
  destruct (af_reg (t_af t)); [discriminate|].
  bind_as Hd as v1d Ed1. bind_as Hd as rd Ed2. bind_as Hd as nd Ed3.
  destruct (Qcltb nd 0) eqn:End; [discriminate|]. inversion Hd; subst dd; clear Hd.
  apply gez_mul_dec in Ed1, Ed2. apply sub_dec in Ed3.
  cbn [d_post mk_delta s_acb d_gain]. exists nd. split; [reflexivity|]. split; [reflexivity|].
  pose proof (T_ge_1 k) as Hx.
  assert (E2k1 : T (2 * k + 1) = T k * T k * T 1) by (rewrite T_mul, T_2k; reflexivity).
  assert (Ha : aps * s_sh pre <= T (2 * k)).
  { rewrite T_2k. apply (mul_bounds aps (s_sh pre) (T k) (T k)); assumption. }
  assert (Hsize : (T (2 * k) + 1) * T 1 + T (2 * k + 1) + (1 + 1) <= T (2 * k + 2)).
  { rewrite T_2k, E2k1, T_2k2, T_ten. set (x := T k) in *. clear - Hx. qc_unfold. nra. }
  assert (He1 : od - 0 <= od) by (clear; qc_lra).
  assert (He2 : od <= od + 0) by (clear; qc_lra).
  exact (roc_error_math (2 * k) (2 * k + 2) (T 1) (T (2 * k + 1)) 0 (s_sh pre) aps rate od od v1d rd nd
           ltac:(lia) ltac:(lia) Hh Vaps Ha (Qclt_le_weak _ _ Vrate) Brate Hod0 HodO Hsize He1 He2 Ed1 Ed2 Ed3).
Qed.

(* ---- one row of the class: its defect ---- *)
Lemma delta_for_tx_sanity A bef t aft st d inj :
  delta_for_tx A bef t aft st = Ok (d, inj) ->
  sanity_check (next_pre_status st (t_af t)) (t_af t) = Ok tt.
Proof. unfold delta_for_tx. intros H. bind_as H as x Ex. destruct x. reflexivity. Qed.

Lemma sanity_nonreg pre af c : sanity_check pre af = Ok tt -> s_acb pre = Some c -> af_reg af = false.
Proof.
  unfold sanity_check. intros H Hc. rewrite Hc in H. cbn [is_none negb] in H.
  destruct (Qcltb (s_all pre) (s_sh pre)); [discriminate|].
  destruct (af_reg af); [cbn [andb] in H; discriminate | reflexivity].
Qed.

Lemma row_defect_sell k eps bef t aft std ste dd de injd inje :
  is_sell (t_act t) = true ->
  (2 * k + 2 <= 28)%nat -> 0 <= eps -> st_close eps std ste -> valid_tx t = true ->
  delta_for_tx dec bef t aft std = Ok (dd, injd) ->
  delta_for_tx exact bef t aft ste = Ok (de, inje) ->
  in_class_row k dd de = true ->
  - cC k <= inc_row (abs_map (ps_map std)) dd /\ inc_row (abs_map (ps_map std)) dd <= cC k.
Proof.
  intros Hsell Hk Heps Hst Hv Hd He Hc.
  pose proof (delta_for_tx_sanity _ _ _ _ _ _ _ Hd) as Hsan.
  pose proof (next_pre_close eps std ste (t_af t) Heps Hst) as Hpre.
  set (pre_d := next_pre_status std (t_af t)) in *. set (pre_e := next_pre_status ste (t_af t)) in *.
  destruct Hpre as (Psh & Pall & Pacb).
  unfold in_class_row in Hc.
  apply andb_prop in Hc as [Hc Hcls]. apply andb_prop in Hc as [Hc Call]. apply andb_prop in Hc as [Hc Csh].
  apply andb_prop in Hc as [Nd Ne]. apply Qceqb_true in Csh, Call.
  assert (Sd : d_sfl dd = None) by (destruct (d_sfl dd); [discriminate | reflexivity]).
  assert (Se : d_sfl de = None) by (destruct (d_sfl de); [discriminate | reflexivity]).
  destruct (t_act t) as [| sh aps com rate crate spec | | |] eqn:Hact; try discriminate Hsell.
  destruct (delta_for_tx_sell dec bef t aft std sh aps com rate crate spec dd injd Hact Hd Sd) as (cd & Ecd & -> & ->).
  destruct (delta_for_tx_sell exact bef t aft ste sh aps com rate crate spec de inje Hact He Se) as (ce & Ece & -> & ->).
  fold pre_d in Ecd, Hcls, Csh, Call |- *. fold pre_e in Ece, Csh, Call |- *.
  cbn [mk_delta d_pre d_tx d_post s_sh s_all s_acb d_gain] in *.
  destruct (s_acb pre_d) as [od|] eqn:Hod; [|discriminate Hcls].
  rewrite Hact in Hcls.
  apply andb_prop in Hcls as [Hcls Hact']. apply andb_prop in Hcls as [Bod0 BodO].
  repeat match type of Hact' with (_ && _ = true) => let H := fresh "B" in apply andb_prop in Hact' as [Hact' H] end.
  qc_bool.
  unfold valid_tx in Hv. rewrite Hact in Hv. cbn [valid_action] in Hv.
  repeat match type of Hv with (_ && _ = true) => let H := fresh "V" in apply andb_prop in Hv as [Hv H] end.
  qc_bool.
  pose proof (sanity_nonreg _ _ _ Hsan Hod) as Hreg.
  assert (Hns : sc_sh cd = s_sh pre_d - sh).
  { rewrite Csh. apply sell_core_sh in Ece. apply sub_exact in Ece. rewrite Ece, Psh. reflexivity. }
  destruct (sell_core_defect k pre_d sh aps com rate crate od cd Hk) as (nd & gd & E1 & E3 & L & U); try assumption.
  unfold inc_row. cbn [mk_delta d_tx d_gain d_post s_acb].
  rewrite (acb_of_held _ _ Hreg), held_next_pre. fold pre_d. unfold hold_of. cbn [snd]. rewrite Hod.
  unfold proceeds_of, cost_of, roc_of. rewrite Hact, E1, E3. cbn [acb0].
  replace (gd - (sh * aps * rate - com * crate) + 0 - 0 - (nd - od))
    with (gd - (aps * sh * rate - com * crate) - (nd - od)) by ring.
  split; assumption.
Qed.

Lemma row_defect_nonsell k eps bef t aft std ste dd de injd inje :
  is_sell (t_act t) = false ->
  (2 * k + 2 <= 28)%nat -> 0 <= eps -> st_close eps std ste -> valid_tx t = true ->
  delta_for_tx dec bef t aft std = Ok (dd, injd) ->
  delta_for_tx exact bef t aft ste = Ok (de, inje) ->
  in_class_row k dd de = true ->
  - cC k <= inc_row (abs_map (ps_map std)) dd /\ inc_row (abs_map (ps_map std)) dd <= cC k.
Proof.
  intros Hsell Hk Heps Hst Hv Hd He Hc.
  pose proof (delta_for_tx_sanity _ _ _ _ _ _ _ Hd) as Hsan.
  pose proof (next_pre_close eps std ste (t_af t) Heps Hst) as Hpre.
  set (pre_d := next_pre_status std (t_af t)) in *. set (pre_e := next_pre_status ste (t_af t)) in *.
  destruct Hpre as (Psh & Pall & Pacb).
  destruct (cR_parts k) as (C1 & C2 & C3).
  unfold in_class_row in Hc.
  apply andb_prop in Hc as [Hc Hcls]. apply andb_prop in Hc as [Hc Call]. apply andb_prop in Hc as [Hc Csh].
  apply andb_prop in Hc as [Nd Ne].
  destruct (delta_for_tx_nonsell dec bef t aft std dd injd Hsell Hd) as [Dd ->].
  fold pre_d in Dd.
  destruct (nonsell_shape dec t pre_d dd Dd) as (Pd & Td & Gd & _).
  rewrite Pd, Td in Hcls.
  destruct (s_acb pre_d) as [od|] eqn:Hod; [|discriminate Hcls].
  pose proof (sanity_nonreg _ _ _ Hsan Hod) as Hreg.
  apply andb_prop in Hcls as [Hcls Hact']. apply andb_prop in Hcls as [Bod0 BodO]. qc_bool.
  unfold inc_row. rewrite Td.
  rewrite (acb_of_held _ _ Hreg), !held_next_pre. fold pre_d. unfold hold_of. cbn [snd]. rewrite Hod.
  unfold proceeds_of, cost_of, roc_of. rewrite held_next_pre. fold pre_d. unfold hold_of. cbn [fst].
  destruct (t_act t) as [sh aps com rate crate | | aps rate | | post pre_ io] eqn:Hact; try discriminate.
  + (* Buy *)
    repeat match type of Hact' with (_ && _ = true) => let H := fresh "B" in apply andb_prop in Hact' as [Hact' H] end.
    qc_bool.
    destruct (buy_defect k t pre_d sh aps com rate crate od dd Hk Hact Hv Hod) as (nd & E1 & E2 & A1 & A2); try assumption.
    rewrite E1, E2. cbn [acb0].
    replace (sh * aps * rate + com * crate) with (aps * sh * rate + com * crate) by ring.
    unfold cC, cR. apply buy_defect_lin; assumption.
  + (* RoC *)
    repeat match type of Hact' with (_ && _ = true) => let H := fresh "B" in apply andb_prop in Hact' as [Hact' H] end.
    qc_bool.
    destruct (roc_defect k t pre_d aps rate od dd Hk Hact Hv Hod) as (nd & E1 & E2 & A1 & A2); try assumption.
    rewrite E1, E2. cbn [acb0].
    unfold cC, cR. apply roc_defect_lin; assumption.
  + (* Split *)
    destruct (split_row_cost dec t pre_d post pre_ io dd Hact Dd) as [E1 E2].
    rewrite E1, E2, Hod. cbn [acb0].
    unfold cC, cR. apply split_defect_lin; assumption.
Qed.

Lemma row_defect_bound k eps bef t aft std ste dd de injd inje :
  (2 * k + 2 <= 28)%nat -> 0 <= eps -> st_close eps std ste -> valid_tx t = true ->
  delta_for_tx dec bef t aft std = Ok (dd, injd) ->
  delta_for_tx exact bef t aft ste = Ok (de, inje) ->
  in_class_row k dd de = true ->
  - cC k <= inc_row (abs_map (ps_map std)) dd /\ inc_row (abs_map (ps_map std)) dd <= cC k.
Proof.
  destruct (is_sell (t_act t)) eqn:Hsell; [eapply row_defect_sell | eapply row_defect_nonsell]; exact Hsell.
Qed.

(* ---- the two ledgers in lockstep ---- *)
Lemma QcZ_0 : QcZ 0 = 0.
Proof. apply Qc_is_canon; reflexivity. Qed.

Lemma defect_zero c hs (ds : list delta) :
  - (QcZ (Z.of_nat 0) * c) <= phi hs (firstn 0 ds) /\ phi hs (firstn 0 ds) <= QcZ (Z.of_nat 0) * c.
Proof.
  cbn [firstn phi Z.of_nat]. rewrite QcZ_0.
  replace (0 * c) with 0 by ring. split; qc_lra.
Qed.

Ltac stop0 H Hn n :=
  inversion H; subst; cbn [length] in Hn; assert (n = 0%nat) by (clear - Hn; lia); subst n; apply defect_zero.

Lemma run_loop_defect k : (2 * k + 2 <= 28)%nat ->
  forall aft bef std ste eps dsd od dse oe,
  0 <= eps -> st_close eps std ste ->
  Forall (fun t => valid_tx t = true) aft ->
  run_loop dec bef std aft = (dsd, od) -> run_loop exact bef ste aft = (dse, oe) ->
  in_class k dsd dse = true ->
  forall n, (n <= length dsd)%nat -> (n <= length dse)%nat ->
    - (QcZ (Z.of_nat n) * cC k) <= phi (abs_map (ps_map std)) (firstn n dsd) /\
    phi (abs_map (ps_map std)) (firstn n dsd) <= QcZ (Z.of_nat n) * cC k.
Proof.
  intros Hk. induction aft as [|t rest IH]; intros bef std ste eps dsd od dse oe Heps Hst Hv Hd He Hc n Hn1 Hn2.
  - cbn [run_loop] in Hd. stop0 Hd Hn1 n.
  - cbn [run_loop] in Hd, He. inversion Hv as [|? ? Hvt Hvr]; subst.
    destruct (delta_for_tx dec bef t rest std) as [[dd injd]| |] eqn:Ed; try (stop0 Hd Hn1 n).
    destruct (delta_for_tx exact bef t rest ste) as [[de inje]| |] eqn:Ee; try (stop0 He Hn2 n).
    destruct (set_latest dec std (t_af t) (d_post dd)) as [std1| |] eqn:Sd; try (stop0 Hd Hn1 n).
    destruct (set_latest exact ste (t_af t) (d_post de)) as [ste1| |] eqn:Se; try (stop0 He Hn2 n).
    destruct (run_injected dec (t :: bef) std1 injd rest) as [[[dsid befd] std2] oid] eqn:Rd.
    destruct (run_injected exact (t :: bef) ste1 inje rest) as [[[dsie befe] ste2] oie] eqn:Re.
    assert (Hhead : exists xd xe, dsd = dd :: xd /\ dse = de :: xe).
    { destruct oid; [|destruct (run_loop dec befd std2 rest)]; inversion Hd; subst;
        (destruct oie; [|destruct (run_loop exact befe ste2 rest)]; inversion He; subst; eauto). }
    destruct Hhead as (xd & xe & -> & ->). cbn [in_class] in Hc. apply andb_prop in Hc as [Hc1 Hc2].
    destruct (row_error k eps bef t rest std ste dd de injd inje Hk Heps Hst Hvt Ed Ee Hc1) as (-> & -> & Hfig).
    pose proof (row_defect_bound k eps bef t rest std ste dd de [] [] Hk Heps Hst Hvt Ed Ee Hc1) as [Hlo Hhi].
    cbn [run_injected] in Rd, Re. inversion Rd; subst; clear Rd. inversion Re; subst; clear Re.
    destruct (run_loop dec (t :: bef) std2 rest) as [dsd' od'] eqn:Ld.
    destruct (run_loop exact (t :: bef) ste2 rest) as [dse' oe'] eqn:Le.
    cbn [app] in Hd, He. inversion Hd; subst; clear Hd. inversion He; subst; clear He.
    destruct n as [|m]; [apply defect_zero|].
    cbn [length] in Hn1, Hn2.
    pose proof (cR_nonneg k) as C0.
    assert (Hst2 : st_close (eps + cR k) std2 ste2).
    { apply (set_latest_close (eps + cR k) dec exact std ste (t_af t) (d_post dd) (d_post de)); try assumption.
      * apply (st_close_mono eps); [clear - C0; qc_lra | exact Hst].
      * apply Hfig. }
    assert (Heps' : 0 <= eps + cR k) by (clear - Heps C0; qc_lra).
    destruct (IH (t :: bef) std2 ste2 (eps + cR k) xd od xe oe Heps' Hst2 Hvr Ld Le Hc2 m
                ltac:(clear - Hn1; lia) ltac:(clear - Hn2; lia)) as [Ilo Ihi].
    assert (Hupd : upd (abs_map (ps_map std)) dd = abs_map (ps_map std2)).
    { pose proof (delta_tx_eq _ _ _ _ _ _ _ Ed) as Htx. unfold upd. rewrite Htx, aupdate_abs. apply DecAccumulate.set_latest_ok in Sd. subst std2. reflexivity. }
    cbn [firstn phi]. rewrite Hupd, (QcZ_S m).
    apply acc_step; assumption.
Qed.

(* ---- whole histories ---- *)
Lemma init_state_abs_any A init st : init_state A init = Ok st -> abs_map (ps_map st) = spec_init init.
Proof.
  unfold init_state, spec_init. destruct init as [i|].
  - destruct (negb (Qceqb (s_sh i) (s_all i))); [discriminate|]. intros H.
    apply DecAccumulate.set_latest_ok in H. subst st. reflexivity.
  - intros H; inversion H; reflexivity.
Qed.

Theorem dec_residual_bound (k : nat) init txs dsd od dse oe :
  (2 * k + 2 <= 28)%nat ->
  Forall (fun t => valid_tx t = true) txs ->
  run dec init txs = (dsd, od) -> run exact init txs = (dse, oe) ->
  in_class k dsd dse = true ->
  forall n, (n <= length dsd)%nat -> (n <= length dse)%nat ->
    - (QcZ (Z.of_nat n) * cC k) <= c03_residual (spec_init init) (firstn n dsd) /\
    c03_residual (spec_init init) (firstn n dsd) <= QcZ (Z.of_nat n) * cC k.
Proof.
  intros Hk Hv Hd He Hc n Hn1 Hn2. rewrite residual_phi.
  unfold run in Hd, He. destruct txs as [|t0 r]; [stop0 Hd Hn1 n|].
  destruct (init_state dec init) as [std| |] eqn:Id; try (stop0 Hd Hn1 n).
  destruct (init_state exact init) as [ste| |] eqn:Ie; try (stop0 He Hn2 n).
  rewrite <- (init_state_abs_any dec init std Id).
  apply (run_loop_defect k Hk (t0 :: r) [] std ste 0 dsd od dse oe); try assumption.
  - apply Qcle_refl.
  - unfold init_state in Id, Ie. destruct init as [i0|].
    + destruct (negb (Qceqb (s_sh i0) (s_all i0))); [discriminate|].
      apply (set_latest_close 0 dec exact {| ps_map := []; ps_all := 0; ps_latest := default_aff |}
               {| ps_map := []; ps_all := 0; ps_latest := default_aff |} default_aff i0 i0); try assumption.
      * apply st_close_empty.
      * apply status_close_refl, Qcle_refl.
    + inversion Id; inversion Ie; subst. apply st_close_empty.
Qed.

(* ---- the instance for amounts below a million ---- *)
Lemma cC_6 : cC 6 = Qcfrac 63 2000000000000000.
Proof. apply Qc_is_canon. vm_compute. reflexivity. Qed.

(* cC k = (63/52) cR k for every k the theorem admits (2k+2 <= 28) *)
Lemma cC_cR_ratio : forallb (fun k => Qceqb (cC k * QcZ 52) (cR k * QcZ 63)) (seq 0 14) = true.
Proof. vm_compute. reflexivity. Qed.

Theorem dec_residual_bound_million init txs dsd od dse oe :
  Forall (fun t => valid_tx t = true) txs ->
  run dec init txs = (dsd, od) -> run exact init txs = (dse, oe) ->
  in_class 6 dsd dse = true ->
  forall n, (Z.of_nat n <= 31746)%Z -> (n <= length dsd)%nat -> (n <= length dse)%nat ->
    - Qcfrac 1 1000000000 <= c03_residual (spec_init init) (firstn n dsd) /\
    c03_residual (spec_init init) (firstn n dsd) <= Qcfrac 1 1000000000.
Proof.
  intros Hv Hd He Hc n Hn Hn1 Hn2.
  destruct (dec_residual_bound 6 init txs dsd od dse oe ltac:(lia) Hv Hd He Hc n Hn1 Hn2) as [L U].
  rewrite cC_6 in L, U.
  pose proof (QcZ_le (Z.of_nat n) 31746 Hn) as H.
  assert (E : QcZ 31746 * Qcfrac 63 2000000000000000 <= Qcfrac 1 1000000000) by (vm_compute; discriminate).
  assert (P : 0 <= Qcfrac 63 2000000000000000) by (vm_compute; discriminate).
  set (r := c03_residual (spec_init init) (firstn n dsd)) in *.
  set (x := QcZ (Z.of_nat n)) in *. set (y := QcZ 31746) in *. set (c := Qcfrac 63 2000000000000000) in *.
  set (z := Qcfrac 1 1000000000) in *. clearbody r x y c z.
  assert (M : x * c <= y * c) by (apply Qcmult_le_compat_r; assumption).
  clear - L U M E. split; qc_lra.
Qed.
