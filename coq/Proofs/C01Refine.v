(* C01: the ledger model under exact arithmetic refines the average-cost
   specification, for every history. *)
From Coq Require Import List NArith ZArith QArith Qcanon Bool Lia.
From ACB Require Import Base.Outcome Base.QcExtra Base.Arith Model.Tx Model.Ledger Model.Sfl
     Model.DeltaList Spec.AvgCost Proofs.Tactics Proofs.AllAfter.
Import ListNotations.
Local Open Scope Qc_scope.

Definition hold_of (s : status) : holding := (s_sh s, s_acb s).
Definition abs_map (m : list (N * status)) : holdings := map (fun kv => (fst kv, hold_of (snd kv))) m.

Lemma alookup_abs k m : alookup k (abs_map m) = option_map hold_of (alookup k m).
Proof.
  induction m as [|[k' v] m IH]; cbn [abs_map map alookup fst snd option_map]; [reflexivity|].
  destruct (N.eqb k k'); [reflexivity | exact IH].
Qed.

Lemma aupdate_abs k v m : aupdate k (hold_of v) (abs_map m) = abs_map (aupdate k v m).
Proof.
  induction m as [|[k' v'] m IH]; cbn [abs_map map aupdate fst snd]; [reflexivity|].
  destruct (N.eqb k k'); cbn [abs_map map fst snd]; [reflexivity | f_equal; exact IH].
Qed.

Lemma held_next_pre st af :
  held (abs_map (ps_map st)) af = hold_of (next_pre_status st af).
Proof.
  unfold held, next_pre_status, latest_for. rewrite alookup_abs.
  destruct (alookup (af_id af) (ps_map st)) as [s|]; cbn [option_map].
  - destruct (Qceqb (s_all s) (ps_all st)); reflexivity.
  - unfold default_status, default_holding. cbn [s_all s_sh s_acb].
    destruct (Qceqb 0 (ps_all st)); reflexivity.
Qed.

Lemma set_latest_map st af v st' :
  set_latest exact st af v = Ok st' -> ps_map st' = aupdate (af_id af) v (ps_map st).
Proof.
  unfold set_latest. rewrite all_after_exact. cbn [bind].
  destruct (negb (Bool.eqb _ _)); [discriminate|].
  destruct (negb (Qceqb _ _)); [discriminate|].
  intros H; inversion H; reflexivity.
Qed.

Ltac tuple_eq :=
  repeat match goal with
         | |- (_, _) = (_, _) => apply f_equal2
         | |- Some _ = Some _ => apply f_equal
         end; try reflexivity.

(* ---- one row ---- *)
Definition sell_positive (t : tx) : Prop :=
  match t_act t with Sell n _ _ _ _ _ => 0 < n | _ => True end.

Lemma sale_cost_identity (b s a : Qc) : b <> 0 -> (b - s) * (a / b) = a - a * s / b.
Proof. intros Hb. field. exact Hb. Qed.

Lemma nonsell_refines t pre d :
  delta_nonsell exact t pre = Ok d ->
  is_sell (t_act t) = false ->
  d_tx d = t /\ d_sfl d = None /\
  avg_cost_rule (hold_of pre) (t_act t) 0 = (hold_of (d_post d), d_gain d).
Proof.
  unfold delta_nonsell. intros H Hs.
  destruct (t_act t) as [n price com rate crate | n price com rate crate sp | amount rate
                        | n amount | post pre_ io] eqn:Ea; try discriminate Hs.
  - (* Buy *)
    bind_inv H. apply gez_add_exact in E as [-> _].
    rewrite all_after_exact in H. cbn [bind] in H.
    bind_inv H. apply gez_unwrap_ok in E as [-> _].
    destruct (s_acb pre) as [old|] eqn:Eacb.
    + unfold local_value in H.
      bind_inv H. bind_inv E. apply gez_mul_exact in E0 as [-> _]. apply gez_mul_exact in E as [-> _].
      bind_inv H. apply gez_mul_exact in E as [-> _].
      bind_inv H. apply gez_add_exact in E as [-> _].
      bind_inv H. apply gez_add_exact in E as [-> _].
      inversion H; subst d; cbn. unfold hold_of; cbn. rewrite Eacb. cbn.
      repeat split; tuple_eq; ring.
    + inversion H; subst d; cbn. unfold hold_of; cbn. rewrite Eacb. cbn. repeat split; tuple_eq.
  - (* RoC *)
    destruct (s_acb pre) as [old|] eqn:Eacb.
    + if_inv H.
      bind_inv H. apply gez_mul_exact in E0 as [-> _].
      bind_inv H. apply gez_mul_exact in E0 as [-> _].
      cbn [a_sub exact bind] in H. if_inv H.
      inversion H; subst d; cbn. unfold hold_of; cbn. rewrite Eacb; cbn. repeat split; tuple_eq; try ring.
    + if_inv H.
  - (* SfLA *)
    destruct (s_acb pre) as [old|] eqn:Eacb.
    + if_inv H. cbn [a_mul exact bind] in H.
      bind_inv H. apply pos_unwrap_ok in E0 as [-> _].
      bind_inv H. apply gez_add_exact in E0 as [-> _].
      inversion H; subst d; cbn. unfold hold_of; cbn. rewrite Eacb; cbn. repeat split; tuple_eq; try ring.
    + if_inv H.
  - (* Split *)
    cbn [a_mul a_div exact bind] in H.
    destruct (Qceqb_spec pre_ 0) as [|Hpre]; cbn [bind] in H; [discriminate|].
    bind_as H as nsh En. apply gez_unwrap_ok in En as [-> _].
    rewrite all_after_exact in H. cbn [bind] in H. if_inv H. if_inv H.
    inversion H; subst d; cbn. unfold hold_of; cbn. repeat split; tuple_eq. field. exact Hpre.
Qed.

Lemma sell_core_exact pre n price com rate crate c :
  sell_core exact pre n price com rate crate = Ok c ->
  0 < n ->
  sc_sh c = s_sh pre - n /\
  sc_acb c = option_map (fun a => a - a * n / s_sh pre) (s_acb pre) /\
  sc_gain c = option_map (fun a => n * price * rate - com * crate - a * n / s_sh pre) (s_acb pre).
Proof.
  unfold sell_core. cbn [a_sub exact bind]. intros H Hn.
  destruct (Qcltb_spec (s_sh pre - n) 0) as [|Hge]; [discriminate|].
  rewrite all_after_exact in H. cbn [bind] in H.
  destruct (Qcltb _ 0); [discriminate|].
  assert (Hsh : 0 < s_sh pre) by (apply Qcnot_lt_le in Hge; qc_lra).
  unfold per_share_acb in H.
  destruct (s_acb pre) as [acb|] eqn:Eacb.
  - destruct (Qcltb_spec 0 (s_sh pre)) as [_|Hn0]; [|contradiction].
    bind_as H as maps Em. bind_as Em as aps_ Ed. apply gez_div_exact in Ed as [-> Hb].
    inversion Em; subst maps; clear Em.
    bind_as H as nacb En. apply gez_mul_exact in En as [-> _].
    unfold local_value in H.
    bind_as H as v Ev. bind_as Ev as v0 Ev0.
    apply gez_mul_exact in Ev0 as [-> _]. apply gez_mul_exact in Ev as [-> _].
    bind_as H as cm Ec. apply gez_mul_exact in Ec as [-> _].
    cbn [a_sub a_mul exact bind] in H.
    inversion H; subst c; cbn. repeat split.
    + f_equal. apply sale_cost_identity. exact Hb.
    + f_equal. field. exact Hb.
  - cbn [bind] in H. inversion H; subst c; cbn. repeat split.
Qed.

Lemma delta_for_tx_refines bef t aft st d inj :
  delta_for_tx exact bef t aft st = Ok (d, inj) ->
  sell_positive t ->
  d_tx d = t /\
  avg_cost_rule (hold_of (next_pre_status st (t_af t))) (t_act t) (denied_of d)
  = (hold_of (d_post d), d_gain d).
Proof.
  unfold delta_for_tx. intros H Hpos.
  bind_as H as u Eu. clear Eu u.
  destruct (t_act t) as [n price com rate crate | n price com rate crate sp | amount rate
                        | n amount | post pre_ io] eqn:Ea.
  2: { (* Sell *)
    unfold sell_positive in Hpos. rewrite Ea in Hpos.
    bind_as H as c Ec. apply sell_core_exact in Ec as (Hsh & Hacb & Hg); [|exact Hpos].
    destruct (sc_gain c) as [g|] eqn:Eg.
    - destruct (s_acb (next_pre_status st (t_af t))) as [acb|] eqn:Eacb; [|discriminate Hg].
      cbn [option_map] in Hg, Hacb. inversion Hg; subst g; clear Hg.
      destruct (Qcltb _ 0).
      + bind_as H as m Em. destruct m as [[info inj']|].
        * cbn [a_sub exact bind] in H. inversion H; subst d inj; cbn.
          unfold hold_of, denied_of; cbn. rewrite Eacb, Hsh, Hacb. cbn. split; tuple_eq.
        * inversion H; subst d inj; cbn.
          unfold hold_of, denied_of; cbn. rewrite Eacb, Hsh, Hacb. cbn. split; tuple_eq. ring.
      + destruct sp; [discriminate|]. inversion H; subst d inj; cbn.
        unfold hold_of, denied_of; cbn. rewrite Eacb, Hsh, Hacb. cbn. split; tuple_eq. ring.
    - destruct (s_acb (next_pre_status st (t_af t))) as [acb|] eqn:Eacb; [discriminate Hg|].
      inversion H; subst d inj; cbn.
      unfold hold_of, denied_of; cbn. rewrite Eacb, Hsh, Hacb. cbn. split; tuple_eq. }
  all: bind_as H as d0 Ed; inversion H; subst; clear H;
    apply nonsell_refines in Ed; [|rewrite Ea; reflexivity];
    destruct Ed as (Htx & Hsfl & Hrule); split; [exact Htx|];
    unfold denied_of; rewrite Hsfl; rewrite <- Ea; exact Hrule.
Qed.

(* ---- generated rows are cost-base adjustments ---- *)
Lemma gen_sfla_sfla A t loss ps l :
  gen_sfla A t loss ps = Ok l -> Forall (fun x => is_sfla (t_act x) = true) l.
Proof.
  revert l. induction ps as [|[af [n dn]] ps IH]; cbn [gen_sfla]; intros l H.
  - inversion H; constructor.
  - destruct (negb (Qceqb n 0) && negb (af_reg af)).
    + bind_as H as q Eq. bind_as H as q1 Eq1. bind_as H as q2 Eq2. bind_as H as m Em.
      bind_as H as amt Ea. bind_as H as rest Er.
      inversion H; subst l. constructor; [reflexivity | eauto].
    + eauto.
Qed.

Lemma delta_sfl_inj A bef t sold spec aft st loss info inj :
  delta_sfl A bef t sold spec aft st loss = Ok (Some (info, inj)) ->
  Forall (fun x => is_sfla (t_act x) = true) inj.
Proof.
  unfold delta_sfl. intros H.
  bind_as H as i Ei. bind_as H as m Em. bind_as H as calc Ecalc.
  destruct spec as [[sv force]|].
  - bind_as H as u Eu. destruct (negb (Qcltb sv 0)); [discriminate|].
    bind_as H as q Eq. bind_as H as nn En. inversion H; constructor.
  - destruct m as [r|]; [|discriminate].
    destruct (negb (Qcltb calc 0)); [discriminate|].
    bind_as H as txs Et. inversion H; subst. eapply gen_sfla_sfla; eauto.
Qed.

Lemma delta_for_tx_inj A bef t aft st d inj :
  delta_for_tx A bef t aft st = Ok (d, inj) -> Forall (fun x => is_sfla (t_act x) = true) inj.
Proof.
  unfold delta_for_tx. intros H. bind_as H as u Eu.
  destruct (t_act t) as [n price com rate crate | n price com rate crate sp | amount rate
                        | n amount | post pre_ io];
    try (bind_as H as d0 Ed; inversion H; constructor).
  bind_as H as c Ec. destruct (sc_gain c) as [g|]; [|inversion H; constructor].
  destruct (Qcltb g 0).
  - bind_as H as m Em. destruct m as [[info inj']|]; [|inversion H; constructor].
    bind_as H as g' Eg. inversion H; subst. eapply delta_sfl_inj; eauto.
  - destruct sp; [discriminate|]. inversion H; constructor.
Qed.

Lemma sfla_sell_positive t : is_sfla (t_act t) = true -> sell_positive t.
Proof. unfold sell_positive. destruct (t_act t); try discriminate; intros; exact I. Qed.

(* ---- whole runs ---- *)
Lemma spec_rows_cons hs t dn rest h' g :
  avg_cost_rule (held hs (t_af t)) (t_act t) dn = (h', g) ->
  spec_rows hs ((t, dn) :: rest)
  = (fst h', snd h', g) :: spec_rows (aupdate (af_id (t_af t)) h' hs) rest.
Proof. intros H. cbn [spec_rows]. rewrite H. reflexivity. Qed.

(* one processed row, seen from the specification *)
Lemma row_step bef t aft st d inj st1 rest :
  delta_for_tx exact bef t aft st = Ok (d, inj) ->
  set_latest exact st (t_af t) (d_post d) = Ok st1 ->
  sell_positive t ->
  spec_rows (abs_map (ps_map st)) ((d_tx d, denied_of d) :: rest)
  = obs_of d :: spec_rows (abs_map (ps_map st1)) rest.
Proof.
  intros Ed Es Hpos.
  apply delta_for_tx_refines in Ed as [Htx Hrule]; [|assumption].
  apply set_latest_map in Es.
  rewrite Htx. rewrite <- held_next_pre in Hrule.
  rewrite (spec_rows_cons _ _ _ _ _ _ Hrule).
  rewrite aupdate_abs, <- Es. reflexivity.
Qed.

Lemma run_injected_refines bef st inj aft ds bef' st' o :
  run_injected exact bef st inj aft = (ds, bef', st', o) ->
  Forall sell_positive inj ->
  forall rows, spec_rows (abs_map (ps_map st)) (effective ds ++ rows)
               = map obs_of ds ++ spec_rows (abs_map (ps_map st')) rows.
Proof.
  revert bef st ds bef' st' o. induction inj as [|t inj IH]; intros bef st ds bef' st' o H Hv rows;
    cbn [run_injected] in H.
  - inversion H; subst. reflexivity.
  - destruct (delta_for_tx exact bef t (inj ++ aft) st) as [[d i]| |] eqn:Ed;
      try (inversion H; subst; reflexivity).
    destruct (set_latest exact st (t_af t) (d_post d)) as [st1| |] eqn:Es;
      try (inversion H; subst; reflexivity).
    destruct (run_injected exact (t :: bef) st1 inj aft) as [[[ds1 b1] s1] o1] eqn:Er.
    inversion H; subst; clear H.
    inversion Hv; subst.
    cbn [effective map app]. fold (effective ds1).
    rewrite (row_step _ _ _ _ _ _ _ _ Ed Es) by assumption.
    f_equal. eapply IH; eauto.
Qed.

Lemma run_loop_refines bef st aft ds o :
  run_loop exact bef st aft = (ds, o) ->
  Forall sell_positive aft ->
  spec_rows (abs_map (ps_map st)) (effective ds) = map obs_of ds.
Proof.
  revert bef st ds o. induction aft as [|t aft IH]; intros bef st ds o H Hv; cbn [run_loop] in H.
  - inversion H; reflexivity.
  - destruct (delta_for_tx exact bef t aft st) as [[d inj]| |] eqn:Ed;
      try (inversion H; subst; reflexivity).
    destruct (set_latest exact st (t_af t) (d_post d)) as [st1| |] eqn:Es;
      try (inversion H; subst; reflexivity).
    destruct (run_injected exact (t :: bef) st1 inj aft) as [[[dsi b1] st2] o1] eqn:Er.
    inversion Hv; subst.
    pose proof (delta_for_tx_inj _ _ _ _ _ _ _ Ed) as Hinj.
    assert (Hinj' : Forall sell_positive inj)
      by (eapply Forall_impl; [|exact Hinj]; intros; now apply sfla_sell_positive).
    destruct o1 as [s1|].
    { inversion H; subst; clear H.
      cbn [effective map]. fold (effective dsi).
      rewrite (row_step _ _ _ _ _ _ _ _ Ed Es) by assumption.
      f_equal.
      pose proof (run_injected_refines _ _ _ _ _ _ _ _ Er Hinj' []) as Hi.
      rewrite !app_nil_r in Hi. exact Hi. }
    destruct (run_loop exact b1 st2 aft) as [ds2 o2] eqn:El.
    inversion H; subst; clear H.
    cbn [effective map]. rewrite map_app. fold (effective dsi) (effective ds2).
    rewrite (row_step _ _ _ _ _ _ _ _ Ed Es) by assumption.
    f_equal.
    rewrite (run_injected_refines _ _ _ _ _ _ _ _ Er Hinj').
    rewrite map_app. f_equal. eapply IH; eauto.
Qed.

Lemma init_state_abs init st :
  init_state exact init = Ok st -> abs_map (ps_map st) = spec_init init.
Proof.
  unfold init_state, spec_init. destruct init as [i|].
  - destruct (negb _); [discriminate|]. intros H. apply set_latest_map in H. rewrite H. reflexivity.
  - intros H; inversion H; reflexivity.
Qed.

Theorem run_exact_refines_spec init txs ds o :
  run exact init txs = (ds, o) ->
  Forall sell_positive txs ->
  map obs_of ds = spec_rows (spec_init init) (effective ds).
Proof.
  unfold run. destruct txs as [|t txs].
  - intros H _. inversion H; reflexivity.
  - destruct (init_state exact init) as [st| |] eqn:Ei;
      try (intros H _; inversion H; reflexivity).
    intros H Hv. rewrite <- (init_state_abs _ _ Ei). symmetry. eapply run_loop_refines; eauto.
Qed.

Lemma valid_sell_positive t : valid_tx t = true -> sell_positive t.
Proof.
  unfold valid_tx, sell_positive. destruct (t_act t); try (intros; exact I).
  cbn [valid_action]. intros H. repeat (apply andb_prop in H; destruct H as [H ?]).
  now apply Qcltb_true.
Qed.

Theorem run_exact_refines_spec_valid init txs ds o :
  run exact init txs = (ds, o) ->
  Forall (fun t => valid_tx t = true) txs ->
  map obs_of ds = spec_rows (spec_init init) (effective ds).
Proof.
  intros H Hv. eapply run_exact_refines_spec; eauto.
  eapply Forall_impl; [|exact Hv]. intros; now apply valid_sell_positive.
Qed.
