(* The pairing of two FXT rows of a Questrade export (FxTracker::add_fxt_row)
   after fix b2d4739: in exact arithmetic it never panics - a pair whose
   foreign-currency row has a zero amount is a row error, not a division by
   zero.  (Under rust_decimal the product and the quotient can still overflow:
   class decimal-overflow of C05.) *)
From Coq Require Import List NArith ZArith QArith Qcanon Bool.
From ACB Require Import Base.Outcome Base.QcExtra Base.Arith Model.QText Model.Questrade Model.FxTracker.
Import ListNotations.

Lemma add_fxt_row_total adj fr :
  exists r, add_fxt_row exact adj fr = Ok r.
Proof.
  unfold add_fxt_row. destruct adj as [a |]; [ | eexists; reflexivity ].
  destruct (if text_eqb (fr_cur a) t_CAD then (a, fr) else (fr, a)) as [cad other].
  destruct (negb (text_eqb (fr_cur cad) t_CAD) || text_eqb (fr_cur other) t_CAD); [eexists; reflexivity | ].
  destruct (negb (date_eqb (fr_td other) (fr_td cad))); [eexists; reflexivity | ].
  destruct (negb (Bool.eqb (fr_reg other) (fr_reg cad)) || negb (account_eqb (fr_acct other) (fr_acct cad)));
    [eexists; reflexivity | ].
  cbn [a_mul a_div exact bind].
  destruct (Qcltb 0 (fr_amount cad * fr_amount other)); [eexists; reflexivity | ].
  destruct (Qceqb (fr_amount other) 0); cbn [bind]; [eexists; reflexivity | ].
  destruct (fx_tx _ _ _ _ _ _ _ _); eexists; reflexivity.
Qed.

(* the pair that used to panic: 100 CAD against 0 USD *)
Definition zero_pair_cad : fxt_row :=
  {| fr_row := 2; fr_cur := t_CAD; fr_reg := false; fr_td := (2023, 10, 13)%N; fr_tdt := []; fr_amount := Qcfrac (-100) 1;
     fr_acct := {| ac_type := []; ac_num := [] |} |}.
Definition zero_pair_usd : fxt_row :=
  {| fr_row := 3; fr_cur := t_USD; fr_reg := false; fr_td := (2023, 10, 13)%N; fr_tdt := []; fr_amount := 0%Qc;
     fr_acct := {| ac_type := []; ac_num := [] |} |}.
Lemma zero_pair_is_an_error :
  add_fxt_row exact (Some zero_pair_cad) zero_pair_usd = Ok (None, [], Some QErr.fxt_zero_amount) /\
  add_fxt_row dec (Some zero_pair_cad) zero_pair_usd = Ok (None, [], Some QErr.fxt_zero_amount).
Proof. split; vm_compute; reflexivity. Qed.
