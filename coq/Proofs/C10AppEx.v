(* C10, several securities: a concrete history of two securities (rows of the
   two interleaved, not in date order) that satisfies the hypotheses of
   C10App.roundtrip_simple_app and roundtrip_annual_app. *)
From Coq Require Import List NArith ZArith QArith Qcanon Bool Lia Sorted.
From ACB Require Import Base.Outcome Base.QcExtra Base.Arith Model.Tx Model.Ledger Model.Sfl
     Model.DeltaList Model.App Model.Summary Model.SummaryObs Model.SummaryApp
     Proofs.SummaryProps Proofs.C10Entry Proofs.C10Examples Proofs.C10App.
Import ListNotations.
Local Open Scope Z_scope.

Definition srow (sec : N) (sd : Z) (a : action) (af : aff) : tx :=
  {| t_sec := sec; t_td := sd; t_sd := sd; t_act := a; t_af := af; t_glob := false; t_ri := 0 |}.

(* security 7: both affiliates buy, the spouse sells at a gain; after the date
   the default affiliate sells at a loss and the spouse buys ten days later
   (superficial).  security 3: the same shape at other dates and prices. *)
Definition app2_rows0 : list tx :=
  [srow 7 737000 (wbuy 10 10) default_aff; srow 3 737150 (wsell 3 5) default_aff;
   srow 7 737010 (wbuy 5 10) spouse_aff; srow 3 737005 (wbuy 10 10) default_aff;
   srow 7 737020 (wsell 4 12) spouse_aff; srow 7 737200 (wsell 2 4) default_aff;
   srow 3 737050 (wsell 2 12) spouse_aff; srow 3 737040 (wbuy 6 11) spouse_aff;
   srow 7 737210 (wbuy 1 5) spouse_aff; srow 3 737160 (wbuy 1 6) spouse_aff].
Definition app2_date : Z := 737100.

(* (date, (security, affiliate, kind: 0 = Buy, 1 = Sell)) of the rows of the application's summary *)
Definition app_summary_shape (annual : bool) : list (Z * (N * N * N)) :=
  match run_app exact [] (Summary.number_from 0 app2_rows0) with
  | Ok secs =>
      match all_summaries exact app2_date annual secs with
      | Ok sums => map (fun t => (t_sd t, (t_sec t, af_id (t_af t), act_tag (t_act t)))) sums
      | _ => []
      end
  | _ => []
  end.
(* per security, (date, superficial?) of the rows reported after the date *)
Definition app_later_shape : list (N * list (Z * bool)) :=
  match run_app exact [] (Summary.number_from 0 app2_rows0) with
  | Ok secs => map (fun x => (fst x, map (fun d => (d_sd d, is_sfl_delta d)) (later_deltas app2_date (fst (snd x))))) secs
  | _ => []
  end.

Ltac sec_hyps_by_computation :=
  unfold sec_hyps;
  split; [cbv [txs_of_sec app2_rows0 filter srow t_sec N.eqb Pos.eqb]; repeat constructor|];
  split; [vm_compute; reflexivity|]; split; [vm_compute; reflexivity|]; split; [vm_compute; reflexivity|];
  split; [vm_compute; reflexivity|]; split; [vm_compute; reflexivity|];
  let sums := fresh "sums" in let H := fresh "H" in
  intros sums H; vm_compute in H; inversion H; subst sums; vm_compute; reflexivity.

Lemma app2_hypotheses :
  securities app2_rows0 = [3; 7]%N
  /\ Forall (sec_hyps no_reg false app2_date app2_rows0) (securities app2_rows0)
  /\ Forall (sec_hyps no_reg true app2_date app2_rows0) (securities app2_rows0)
  /\ app_summary_shape false
     = [(737005, (3, 1000, 0)%N); (737050, (3, 1003, 0)%N); (737000, (7, 1000, 0)%N); (737020, (7, 1003, 0)%N)]
  /\ app_summary_shape true
     = [(736330, (3, 1000, 0)%N); (736330, (3, 1003, 0)%N); (736695, (3, 1003, 1)%N);
        (736330, (7, 1000, 0)%N); (736330, (7, 1003, 0)%N); (736695, (7, 1003, 1)%N)]
  /\ app_later_shape = [(3%N, [(737150, true); (737150, false); (737160, false)]);
                        (7%N, [(737200, true); (737200, false); (737210, false)])].
Proof.
  assert (E : securities app2_rows0 = [3; 7]%N) by (vm_compute; reflexivity).
  split; [exact E|]. rewrite E.
  split; [constructor; [sec_hyps_by_computation | constructor; [sec_hyps_by_computation | constructor]]|].
  split; [constructor; [sec_hyps_by_computation | constructor; [sec_hyps_by_computation | constructor]]|].
  split; [vm_compute; reflexivity|]. split; vm_compute; reflexivity.
Qed.
