(* C19, text layer: the ESPP round trip for all well-formed records. *)
From Coq Require Import String Ascii.
From Coq Require Import List NArith ZArith QArith Qcanon Bool Lia.
From ACB Require Import Base.Outcome Base.QcExtra Base.Fit Base.Arith Model.QText Model.Etrade
  Model.EtradeText Spec.EtradeLayoutChunks Spec.EtradeLayout Proofs.EtradeTextFrame Proofs.EtradeTextRT.
Import ListNotations.
Local Open Scope N_scope.

(* tactics (as in the RSU section of EtradeTextRT.v) *)
Ltac fin_sp_dd := idtac; rewrite skip_sp_digits by auto; rewrite dd_hit by (auto; reflexivity); reflexivity.
Ltac fin_dollar_dd :=
  idtac; rewrite skip_sp_dollar, dollar_hit; rewrite dd_hit by (auto; reflexivity); reflexivity.
Ltac fin_paren_dollar_dd :=
  idtac; rewrite skip_sp_paren; unfold paren_dollar_dd; cbn [chr obind N.eqb Pos.eqb];
  rewrite dd_hit by (auto; reflexivity); reflexivity.
Ltac dec_field Hok tr fin :=
  unfold get1_dec, get1; seek_key Hok; tr; hit_key fin; cbn [bind]; apply parse_large_dec; auto.
Ltac trunc1 :=
  idtac; match goal with
  | |- context [flat (?s1 :: ?R)] =>
      change (flat (s1 :: R)) with (seg_text s1 ++ flat R); generalize (flat R); intro
  end.
Ltac const_hit := erewrite find_hit; [|vm_compute; reflexivity].
Ltac const_dec Hg Hok :=
  apply is_ok_ex; unfold get1_dec, get1; seek_with Hg Hok; trunc1; const_hit; vm_compute; reflexivity.
Ltac const_get Hg Hok :=
  apply is_ok_ex; unfold get1; seek_with Hg Hok; trunc1; const_hit; reflexivity.

Definition soldseg (o : option (text * text)) : list seg :=
  match o with Some (a, b) => [SL espp_sold_pre] ++ decseg a b ++ [SL nl] | None => [] end.
Definition saleseg (o : option (text * text)) : list seg :=
  match o with Some (a, b) => [SL espp_sale_pre] ++ decseg a b ++ [SL nl] | None => [] end.
Definition efeeseg (st : bool) (o : option (text * text)) : list seg :=
  match o with Some (a, b) => [SL (sty st espp0_feepre espp1_feepre)] ++ decseg a b ++ [SL espp_fee_post] | None => [] end.
Definition stcseg (o : option (text * text)) : list seg :=
  match o with Some _ => [SL espp_tail_stc] | None => [] end.

(* the text of e8 after its "(Shares Purchased x Purchase Price)" parenthesis *)
Definition e8a : text := Eval vm_compute in txt "
Purchase Price per Share
        (85.000% of $50.00000) $42.500000
Total Price
        "%string.
Definition e8b : text := Eval vm_compute in txt "Shares Purchased x Purchase Price) $2,422.507200
"%string.
Lemma e8_split st : sty st espp0_8 espp1_8 = e8a ++ 40 :: e8b.
Proof. destruct st; reflexivity. Qed.

Lemma g_pp_per_share : guarded m_pp_per_share (glit k_pp_per_share).
Proof. exact (guarded_key_sp0 _ _). Qed.
Lemma g_total_taxes : guarded m_total_taxes (glit k_total_taxes_collected).
Proof. exact (guarded_lit _ _). Qed.
Lemma g_value_sold : guarded m_value_sold (glit k_value_sold).
Proof. exact (guarded_lit _ _). Qed.
Lemma g_excess : guarded m_excess (glit k_excess).
Proof. exact (guarded_lit _ _). Qed.

Section ESPP.
Variables sym m d y pa pb fa fb : text.
Hypothesis Hsym : sym <> [] /\ forallb is_updot sym = true /\ forallb is_symc sym = true.
Hypothesis Hdate : digits m /\ digits d /\ digits y /\ m <> [] /\ d <> [] /\ y <> [].
Hypothesis Hpd : parse_mdy (m, d, y) = Ok (date_ord (m, d, y)).
Hypothesis Hp : decparts pa pb.
Hypothesis Hf : decparts fa fb.

Definition espp_mid (st : bool) (osold : option (text * text)) : list seg :=
  [SF c_updot sym; SL (sty st espp0_2 espp1_2)] ++ dateseg 45 m d y ++ [SL (sty st espp0_3 espp1_3)]
  ++ decseg pa pb ++ [SL (sty st espp0_4 espp1_4)] ++ decseg pa pb ++ [SL (sty st espp0_5 espp1_5)]
  ++ decseg pa pb ++ [SL (sty st espp0_6 espp1_6)] ++ soldseg osold ++ [SL (sty st espp0_7 espp1_7)]
  ++ decseg fa fb.
Definition espp_end (st : bool) (osold osale ofee : option (text * text)) : list seg :=
  saleseg osale ++ [SL (sty st espp0_between espp1_between)] ++ efeeseg st ofee ++ stcseg osold
  ++ [SL (sty st espp0_after espp1_after); SF c_updot sym; SL (sty st espp0_11 espp1_11)].
Definition espp_tail (st : bool) (osold osale ofee : option (text * text)) : list seg :=
  espp_mid st osold ++ [SL (sty st espp0_8 espp1_8)] ++ espp_end st osold osale ofee.
Definition espp_doc (st : bool) (osold osale ofee : option (text * text)) : list seg :=
  [SL (sty st espp0_0 espp1_0); SF c_updot sym; SL (sty st espp0_1 espp1_1)] ++ espp_tail st osold osale ofee.

Section Opts.
Variables osold osale ofee : option (text * text).
Hypothesis Hsold : odec_ok osold.
Hypothesis Hsale : odec_ok osale.
Hypothesis Hfee : odec_ok ofee.

Lemma espp_mid_ok st : Forall seg_ok (espp_mid st osold).
Proof.
  destruct Hsym as (? & ? & ?), Hdate as (? & ? & ? & ? & ? & ?). dsplit Hp. dsplit Hf.
  unfold espp_mid, soldseg, decseg, dateseg.
  destruct osold as [[a b]|]; cbn [odec_ok] in Hsold; try dsplit Hsold; cbn [app]; repeat constructor; auto.
Qed.
Lemma espp_end_ok st : Forall seg_ok (espp_end st osold osale ofee).
Proof.
  destruct Hsym as (? & ? & ?).
  unfold espp_end, saleseg, efeeseg, stcseg, decseg.
  destruct osold as [[a b]|], osale as [[a2 b2]|], ofee as [[a3 b3]|]; cbn [odec_ok] in Hsold, Hsale, Hfee;
    try dsplit Hsold; try dsplit Hsale; try dsplit Hfee; cbn [app]; repeat constructor; auto.
Qed.
Lemma espp_tail_ok st : Forall seg_ok (espp_tail st osold osale ofee).
Proof.
  unfold espp_tail. apply Forall_app. split; [apply espp_mid_ok|].
  apply Forall_app. split; [repeat constructor|apply espp_end_ok].
Qed.
Lemma espp_doc_ok st : Forall seg_ok (espp_doc st osold osale ofee).
Proof.
  unfold espp_doc. apply Forall_app. split; [|apply espp_tail_ok].
  destruct Hsym as (? & ? & ?). repeat constructor; auto.
Qed.
End Opts.

Ltac espp_T :=
  match goal with
  | Hs : odec_ok ?os, Ha : odec_ok ?oa, Hf : odec_ok ?of |- context [espp_doc _ ?os ?oa ?of] =>
      assert (T : forall b, Forall seg_ok (espp_doc b os oa of)) by (intro; apply espp_doc_ok; assumption)
  end.
Ltac on_T tac := match goal with T : forall b, Forall seg_ok (espp_doc b _ _ _) |- context [espp_doc ?b _ _ _] => tac (T b) end.
Ltac dec_field_with Hg Hok tr fin :=
  unfold get1_dec, get1; seek_with Hg Hok; tr; hit_key fin; cbn [bind]; apply parse_large_dec; auto.
Ltac split_opts :=
  repeat match goal with
  | H : odec_ok (Some (_, _)) |- _ => cbn [odec_ok] in H; dsplit H
  | H : odec_ok None |- _ => clear H
  end.

Lemma espp_account st osold osale ofee (Hsold : odec_ok osold) (Hsale : odec_ok osale) (Hfee : odec_ok ofee) :
  exists x, get1 m_account (flat (espp_doc st osold osale ofee)) = Ok x.
Proof. espp_T. destruct st; on_T ltac:(fun H => const_get g_account H). Qed.

Lemma espp_employee st osold osale ofee (Hsold : odec_ok osold) (Hsale : odec_ok osale) (Hfee : odec_ok ofee) :
  exists x, get1 m_employee (flat (espp_doc st osold osale ofee)) = Ok x.
Proof.
  espp_T. destruct st; destruct osold as [[a1 b1]|], osale as [[a2 b2]|], ofee as [[a3 b3]|];
    on_T ltac:(fun H => const_get g_employee H).
Qed.

Lemma espp_date st osold osale ofee (Hsold : odec_ok osold) (Hsale : odec_ok osale) (Hfee : odec_ok ofee) :
  exists rest, get1 m_purchase_date (flat (espp_doc st osold osale ofee)) = Ok ((m, d, y), rest).
Proof.
  espp_T. destruct Hdate as (? & ? & ? & ? & ? & ?). apply get1_of_fst.
  destruct st; on_T ltac:(fun H => seek_key H); trunc7;
    (hit_key ltac:(rewrite skip_sp_digits by auto; rewrite date3_hit by (auto; reflexivity); reflexivity)); reflexivity.
Qed.

Lemma espp_purchased st osold osale ofee (Hsold : odec_ok osold) (Hsale : odec_ok osale) (Hfee : odec_ok ofee) :
  get1_dec m_shares_purchased (flat (espp_doc st osold osale ofee)) = Ok (dval (pa ++ 46 :: pb)).
Proof.
  espp_T. dsplit Hp.
  destruct st; on_T ltac:(fun H => dec_field_with (guarded_key_dd k_shares_purchased) H trunc5 fin_sp_dd).
Qed.

Lemma espp_fmv st osold osale ofee (Hsold : odec_ok osold) (Hsale : odec_ok osale) (Hfee : odec_ok ofee) :
  get1_dec m_pv_per_share (flat (espp_doc st osold osale ofee)) = Ok (dval (fa ++ 46 :: fb)).
Proof.
  espp_T. dsplit Hf.
  destruct st; destruct osold as [[a1 b1]|];
    on_T ltac:(fun H => dec_field H trunc5 fin_dollar_dd).
Qed.

(* constants of the layout *)
Lemma espp_pp st osold osale ofee (Hsold : odec_ok osold) (Hsale : odec_ok osale) (Hfee : odec_ok ofee) :
  exists v, get1_dec m_pp_per_share (flat (espp_doc st osold osale ofee)) = Ok v.
Proof. espp_T. destruct st; destruct osold as [[a1 b1]|]; on_T ltac:(fun H => const_dec g_pp_per_share H). Qed.
Lemma espp_total_price st osold osale ofee (Hsold : odec_ok osold) (Hsale : odec_ok osale) (Hfee : odec_ok ofee) :
  exists v, get1_dec m_total_price (flat (espp_doc st osold osale ofee)) = Ok v.
Proof. espp_T. destruct st; destruct osold as [[a1 b1]|]; on_T ltac:(fun H => const_dec (guarded_key_sp0 k_total_price paren_dollar_cdd_close) H). Qed.
Lemma espp_total_value st osold osale ofee (Hsold : odec_ok osold) (Hsale : odec_ok osale) (Hfee : odec_ok ofee) :
  exists v, get1_dec m_total_value (flat (espp_doc st osold osale ofee)) = Ok v.
Proof. espp_T. destruct st; destruct osold as [[a1 b1]|]; on_T ltac:(fun H => const_dec (guarded_key_dollar_cdd k_total_value) H). Qed.
Lemma espp_taxable_gain st osold osale ofee (Hsold : odec_ok osold) (Hsale : odec_ok osale) (Hfee : odec_ok ofee) :
  exists v, get1_dec m_taxable_gain (flat (espp_doc st osold osale ofee)) = Ok v.
Proof. espp_T. destruct st; destruct osold as [[a1 b1]|]; on_T ltac:(fun H => const_dec (guarded_key_dollar_cdd k_taxable_gain) H). Qed.
Lemma espp_market_value st osold osale ofee (Hsold : odec_ok osold) (Hsale : odec_ok osale) (Hfee : odec_ok ofee) :
  exists v, get1_dec m_market_value (flat (espp_doc st osold osale ofee)) = Ok v.
Proof. espp_T. destruct st; destruct osold as [[a1 b1]|]; on_T ltac:(fun H => const_dec (guarded_key_dollar_cdd k_market_value) H). Qed.

(* optional lines *)
Ltac opt_none Hg :=
  unfold get1_opt_dec;
  on_T ltac:(fun H => match goal with |- context [find ?m (flat ?D)] =>
                        rewrite (find_none m _ Hg eq_refl D H) by (vm_compute; reflexivity) end); reflexivity.
Ltac opt_hit Hg tr fin :=
  unfold get1_opt_dec; on_T ltac:(fun H => seek_with Hg H); tr; hit_key fin; cbn [bind];
  rewrite parse_large_dec by auto; reflexivity.
Ltac opt_const Hg :=
  apply is_ok_ex; unfold get1_opt_dec;
  first [ on_T ltac:(fun H => match goal with |- context [find ?m (flat ?D)] =>
                                rewrite (find_none m _ Hg eq_refl D H) by (vm_compute; reflexivity) end); reflexivity
        | on_T ltac:(fun H => seek_with Hg H); trunc1; const_hit; vm_compute; reflexivity ].
Ltac all_cases :=
  match goal with
  | |- context [espp_doc ?st ?os ?oa ?of] =>
      destruct st; destruct os as [[?a1 ?b1]|], oa as [[?a2 ?b2]|], of as [[?a3 ?b3]|]
  end; split_opts; cbn [odec_text option_map].

Lemma espp_sold st osold osale ofee (Hsold : odec_ok osold) (Hsale : odec_ok osale) (Hfee : odec_ok ofee) :
  get1_opt_dec m_sold_to_cover (flat (espp_doc st osold osale ofee)) = Ok (option_map dval (odec_text osold)).
Proof.
  espp_T. all_cases;
  lazymatch goal with
  | |- _ = Ok (Some _) => opt_hit (guarded_key_dd k_sold_to_cover) trunc5 fin_sp_dd
  | |- _ = Ok None => opt_none (guarded_key_dd k_sold_to_cover)
  end.
Qed.
Lemma espp_sale st osold osale ofee (Hsold : odec_ok osold) (Hsale : odec_ok osale) (Hfee : odec_ok ofee) :
  get1_opt_dec m_sale_price_stc (flat (espp_doc st osold osale ofee)) = Ok (option_map dval (odec_text osale)).
Proof.
  espp_T. all_cases;
  lazymatch goal with
  | |- _ = Ok (Some _) => opt_hit (guarded_key_sp0 k_sale_price_stc (dollar dd)) trunc5 fin_dollar_dd
  | |- _ = Ok None => opt_none (guarded_key_sp0 k_sale_price_stc (dollar dd))
  end.
Qed.
Lemma espp_fees st osold osale ofee (Hsold : odec_ok osold) (Hsale : odec_ok osale) (Hfee : odec_ok ofee) :
  get1_opt_dec m_fees (flat (espp_doc st osold osale ofee)) = Ok (option_map dval (odec_text ofee)).
Proof.
  espp_T. all_cases;
  lazymatch goal with
  | |- _ = Ok (Some _) => opt_hit (guarded_key_sp0 k_fees paren_dollar_dd) trunc5 fin_paren_dollar_dd
  | |- _ = Ok None => opt_none (guarded_key_sp0 k_fees paren_dollar_dd)
  end.
Qed.
Lemma espp_total_taxes st osold osale ofee (Hsold : odec_ok osold) (Hsale : odec_ok osale) (Hfee : odec_ok ofee) :
  exists v, get1_opt_dec m_total_taxes (flat (espp_doc st osold osale ofee)) = Ok v.
Proof. espp_T. all_cases; opt_const g_total_taxes. Qed.
Lemma espp_value_sold st osold osale ofee (Hsold : odec_ok osold) (Hsale : odec_ok osale) (Hfee : odec_ok ofee) :
  exists v, get1_opt_dec m_value_sold (flat (espp_doc st osold osale ofee)) = Ok v.
Proof. espp_T. all_cases; opt_const g_value_sold. Qed.
Lemma espp_excess st osold osale ofee (Hsold : odec_ok osold) (Hsale : odec_ok osale) (Hfee : odec_ok ofee) :
  exists v, get1_opt_dec m_excess (flat (espp_doc st osold osale ofee)) = Ok v.
Proof. espp_T. all_cases; opt_const g_excess. Qed.

(* the symbol: no "(letters)" group after "(SYM)"; "(Shares Purchased x ..." is a false hit of the guard *)
Lemma espp_no_later_group st osold osale ofee (Hsold : odec_ok osold) (Hsale : odec_ok osale) (Hfee : odec_ok ofee) :
  find_last sym_group_at (flat (espp_tail st osold osale ofee)) = None.
Proof.
  replace (flat (espp_tail st osold osale ofee))
    with (flat (espp_mid st osold ++ [SL e8a]) ++ 40 :: flat ([SL e8b] ++ espp_end st osold osale ofee)).
  2:{ unfold espp_tail. rewrite !flat_app. cbn [flat seg_text]. rewrite e8_split, !app_nil_r, <- !app_assoc. reflexivity. }
  apply (find_last_none_open sym_group_at _ guarded_sym_group).
  - apply Forall_app. split; [apply espp_mid_ok; assumption|repeat constructor].
  - destruct st; destruct osold as [[a1 b1]|]; vm_compute; reflexivity.
  - rewrite find_last_cons.
    + change (flat ([SL e8b] ++ espp_end st osold osale ofee)) with (e8b ++ flat (espp_end st osold osale ofee)).
      generalize (flat (espp_end st osold osale ofee)). intro. reflexivity.
    + apply (find_last_none sym_group_at _ guarded_sym_group sym_group_nil).
      * apply Forall_app. split; [repeat constructor|apply espp_end_ok; assumption].
      * destruct st; destruct osold as [[a1 b1]|], osale as [[a2 b2]|], ofee as [[a3 b3]|]; vm_compute; reflexivity.
Qed.

Lemma espp_symbol st osold osale ofee (Hsold : odec_ok osold) (Hsale : odec_ok osale) (Hfee : odec_ok ofee) :
  get1 m_symbol (flat (espp_doc st osold osale ofee)) = Ok sym.
Proof.
  espp_T. destruct Hsym as (Hn & _ & Hsc). unfold get1.
  pose proof (espp_no_later_group st osold osale ofee Hsold Hsale Hfee) as NL.
  destruct st.
  - on_T ltac:(fun H => seek_with g_symbol H). erewrite find_hit; [reflexivity|].
    refine (m_symbol_hit (41 :: 32 :: nil) (removelast espp1_1) sym (flat (espp_tail true osold osale ofee)) Hn Hsc _ NL).
    eexists. reflexivity.
  - on_T ltac:(fun H => seek_with g_symbol H). erewrite find_hit; [reflexivity|].
    refine (m_symbol_hit (41 :: 32 :: nil) (removelast espp0_1) sym (flat (espp_tail false osold osale ofee)) Hn Hsc _ NL).
    eexists. reflexivity.
Qed.

Lemma espp_parse st osold osale ofee (Hsold : odec_ok osold) (Hsale : odec_ok osale) (Hfee : odec_ok ofee) :
  parse_espp (flat (espp_doc st osold osale ofee)) =
  Ok {| tb_sec := sym; tb_date := date_ord (m, d, y); tb_settle := date_ord (m, d, y);
        tb_price := dval (fa ++ 46 :: fb); tb_shares := dval (pa ++ 46 :: pb);
        tb_stc_td := None; tb_stc_sd := None; tb_stc_price := option_map dval (odec_text osale);
        tb_stc_shares := option_map dval (odec_text osold); tb_stc_fee := option_map dval (odec_text ofee);
        tb_note := k_ESPP; tb_sell_note := None |}.
Proof.
  unfold parse_espp, parse_common.
  destruct (espp_employee st osold osale ofee Hsold Hsale Hfee) as [x1 E1]. rewrite E1. cbn [bind].
  destruct (espp_account st osold osale ofee Hsold Hsale Hfee) as [x2 E2]. rewrite E2. cbn [bind].
  rewrite (espp_symbol st osold osale ofee Hsold Hsale Hfee). cbn [bind].
  destruct (espp_date st osold osale ofee Hsold Hsale Hfee) as [x3 E3]. rewrite E3. cbn [bind]. rewrite Hpd. cbn [bind].
  rewrite (espp_purchased st osold osale ofee Hsold Hsale Hfee). cbn [bind].
  rewrite (espp_fmv st osold osale ofee Hsold Hsale Hfee). cbn [bind].
  destruct (espp_pp st osold osale ofee Hsold Hsale Hfee) as [x4 E4]. rewrite E4. cbn [bind].
  destruct (espp_total_price st osold osale ofee Hsold Hsale Hfee) as [x5 E5]. rewrite E5. cbn [bind].
  destruct (espp_total_value st osold osale ofee Hsold Hsale Hfee) as [x6 E6]. rewrite E6. cbn [bind].
  destruct (espp_taxable_gain st osold osale ofee Hsold Hsale Hfee) as [x7 E7]. rewrite E7. cbn [bind].
  destruct (espp_market_value st osold osale ofee Hsold Hsale Hfee) as [x8 E8]. rewrite E8. cbn [bind].
  destruct (espp_total_taxes st osold osale ofee Hsold Hsale Hfee) as [x9 E9]. rewrite E9. cbn [bind].
  rewrite (espp_sold st osold osale ofee Hsold Hsale Hfee). cbn [bind].
  rewrite (espp_sale st osold osale ofee Hsold Hsale Hfee). cbn [bind].
  destruct (espp_value_sold st osold osale ofee Hsold Hsale Hfee) as [x10 E10]. rewrite E10. cbn [bind].
  rewrite (espp_fees st osold osale ofee Hsold Hsale Hfee). cbn [bind].
  destruct (espp_excess st osold osale ofee Hsold Hsale Hfee) as [x11 E11]. rewrite E11. cbn [bind]. reflexivity.
Qed.
End ESPP.

Lemma optdec_parts' o : optdec_ok o = true -> exists o', odec_ok o' /\ o = odec_text o'.
Proof. intros H. destruct (optdec_parts o H) as (o' & H1 & H2 & _). exists o'. split; assumption. Qed.

Theorem espp_text_roundtrip st r : wf_espp r = true -> parse_espp (render_espp st r) = Ok (espp_record r).
Proof.
  destruct r as [sym [[m d] y] pur fmv sold sale fee]. unfold wf_espp.
  cbn [el_sym el_date el_purchased el_fmv el_sold el_sale el_fee]. intros H.
  apply andb_true_iff in H; destruct H as [H Wfee]. apply andb_true_iff in H; destruct H as [H Wsale].
  apply andb_true_iff in H; destruct H as [H Wsold]. apply andb_true_iff in H; destruct H as [H Wfmv].
  apply andb_true_iff in H; destruct H as [H Wpur]. apply andb_true_iff in H; destruct H as [Wsym Wdate].
  destruct (decparts_of _ Wpur) as (pa & pb & -> & Hp). destruct (decparts_of _ Wfmv) as (fa & fb & -> & Hf).
  destruct (optdec_parts' _ Wsold) as (osold & Hsold & ->). destruct (optdec_parts' _ Wsale) as (osale & Hsale & ->).
  destruct (optdec_parts' _ Wfee) as (ofee & Hfee & ->).
  destruct (date_ok_spec _ _ _ Wdate) as (D1 & D2 & D3 & D4 & D5 & D6 & Hpd).
  pose proof (sym_ok_spec _ Wsym) as Hsym.
  pose proof (espp_parse sym m d y pa pb fa fb Hsym (conj D1 (conj D2 (conj D3 (conj D4 (conj D5 D6))))) Hpd Hp Hf
                st osold osale ofee Hsold Hsale Hfee) as P.
  replace (render_espp st _) with (flat (espp_doc sym m d y pa pb fa fb st osold osale ofee)); [exact P|].
  unfold render_espp, espp_doc, espp_tail, espp_mid, espp_end, decseg, dateseg, date_text, opt_line, soldseg, saleseg,
    efeeseg, stcseg, nl.
  cbn [el_sym el_date el_purchased el_fmv el_sold el_sale el_fee].
  destruct osold as [[a1 b1]|], osale as [[a2 b2]|], ofee as [[a3 b3]|]; unfold decseg; cbn [odec_text app flat seg_text];
    norm_apps; rewrite ?app_nil_r; reflexivity.
Qed.
