(* Digit lists, decimal rendering (Display with precision,
   to_string_min_precision) and decimal parsing (from_str / from_str_exact):
   parse (render d) is d up to the display scale, and rendering depends only
   on sign and value. *)
From Coq Require Import List NArith ZArith Bool Arith Lia.
From ACB Require Import Base.Outcome Model.CsvFields.
Import ListNotations.
Local Open Scope N_scope.

(* ---------------------------------------------------------------- lists *)
Lemma beqb_refl s : beqb s s = true.
Proof. induction s as [|x s IH]; cbn; [reflexivity|]. rewrite N.eqb_refl, IH. reflexivity. Qed.
Lemma beqb_eq a b : beqb a b = true -> a = b.
Proof.
  revert b. induction a as [|x a IH]; destruct b as [|y b]; cbn; intros H; try discriminate; [reflexivity|].
  apply andb_prop in H. destruct H as [H1 H2]. apply N.eqb_eq in H1. subst. f_equal. auto.
Qed.
Lemma beqb_neq a b : beqb a b = false -> a <> b.
Proof. intros H E. subst. rewrite beqb_refl in H. discriminate. Qed.

Lemma zeros_length n : length (zeros n) = n.
Proof. apply repeat_length. Qed.
Lemma zeros_app a b : zeros (a + b) = zeros a ++ zeros b.
Proof. unfold zeros. apply repeat_app. Qed.
Lemma zeros_S_snoc n : zeros (S n) = zeros n ++ [0].
Proof. replace (S n) with (n + 1)%nat by lia. rewrite zeros_app. reflexivity. Qed.
Lemma rev_zeros n : rev (zeros n) = zeros n.
Proof.
  induction n as [|n IH]; [reflexivity|]. rewrite zeros_S_snoc at 2.
  change (zeros (S n)) with (0 :: zeros n). cbn [rev]. rewrite IH. reflexivity.
Qed.
Lemma Forall_zeros n : Forall (fun d => d < 10) (zeros n).
Proof. unfold zeros. induction n; cbn; constructor; [lia|assumption]. Qed.

Lemma chars_app a b : chars (a ++ b) = chars a ++ chars b.
Proof. apply map_app. Qed.
Lemma chars_length a : length (chars a) = length a.
Proof. apply map_length. Qed.

(* ---------------------------------------------------------------- val *)
Lemma val_from_app a x y : val_from a (x ++ y) = val_from (val_from a x) y.
Proof. unfold val_from. apply fold_left_app. Qed.
Lemma pow10_S n : pow10 (S n) = 10 * pow10 n.
Proof. unfold pow10. rewrite Nat2N.inj_succ, N.pow_succ_r'. reflexivity. Qed.
Lemma pow10_pos n : 0 < pow10 n.
Proof. unfold pow10. apply N.neq_0_lt_0. apply N.pow_nonzero. lia. Qed.
Lemma pow10_add a b : pow10 (a + b) = pow10 a * pow10 b.
Proof. unfold pow10. rewrite Nat2N.inj_add, N.pow_add_r. reflexivity. Qed.
Lemma pow10_0 : pow10 0 = 1.
Proof. reflexivity. Qed.

Lemma val_from_spec ds : forall a, val_from a ds = a * pow10 (length ds) + val ds.
Proof.
  induction ds as [|d ds IH]; intros a.
  - cbn. unfold val. cbn. lia.
  - unfold val. cbn [val_from fold_left length]. fold (val_from (a * 10 + d) ds).
    fold (val_from (0 * 10 + d) ds). rewrite (IH (a * 10 + d)), (IH (0 * 10 + d)), pow10_S. lia.
Qed.
Lemma val_app x y : val (x ++ y) = val x * pow10 (length y) + val y.
Proof. unfold val at 1. rewrite val_from_app. fold (val x). apply val_from_spec. Qed.
Lemma val_zeros n : val (zeros n) = 0.
Proof.
  induction n as [|n IH]; [reflexivity|]. rewrite zeros_S_snoc, val_app, IH. reflexivity.
Qed.
Lemma val_zeros_app n ds : val (zeros n ++ ds) = val ds.
Proof. rewrite val_app, val_zeros. lia. Qed.
Lemma val_app_zeros ds n : val (ds ++ zeros n) = val ds * pow10 n.
Proof. rewrite val_app, val_zeros, zeros_length. lia. Qed.
Lemma val_bound ds : Forall (fun d => d < 10) ds -> val ds < pow10 (length ds).
Proof.
  induction ds as [|d ds IH] using rev_ind; intros H.
  - cbn. unfold val. cbn. lia.
  - apply Forall_app in H. destruct H as [H1 H2]. inversion H2; subst.
    rewrite val_app, app_length. cbn [length]. rewrite Nat.add_1_r.
    change (pow10 1) with 10. rewrite (pow10_S (length ds)).
    specialize (IH H1). change (val [d]) with (0 * 10 + d). lia.
Qed.
Lemma val_from_ge a ds : a <= val_from a ds.
Proof.
  rewrite val_from_spec. pose proof (pow10_pos (length ds)). nia.
Qed.

(* ---------------------------------------------------------------- digits *)
Lemma digits_fuel_acc f : forall n acc, digits_fuel f n acc = digits_fuel f n [] ++ acc.
Proof.
  induction f as [|f IH]; intros n acc; cbn; [reflexivity|].
  destruct (n =? 0); [reflexivity|].
  rewrite (IH _ (n mod 10 :: acc)), (IH _ [n mod 10]), <- app_assoc. reflexivity.
Qed.

Lemma digits_fuel_irrel f1 : forall f2 n,
  n < 2 ^ N.of_nat f1 -> n < 2 ^ N.of_nat f2 -> digits_fuel f1 n [] = digits_fuel f2 n [].
Proof.
  induction f1 as [|f1 IH]; intros f2 n H1 H2.
  - cbn in H1. assert (n = 0) by lia. subst. destruct f2; reflexivity.
  - destruct f2 as [|f2].
    + cbn in H2. assert (n = 0) by lia. subst. reflexivity.
    + cbn [digits_fuel]. destruct (N.eqb_spec n 0); [reflexivity|].
      rewrite (digits_fuel_acc f1), (digits_fuel_acc f2). f_equal.
      rewrite Nat2N.inj_succ, N.pow_succ_r' in H1, H2.
      apply IH.
      * apply N.div_lt_upper_bound; lia.
      * apply N.div_lt_upper_bound; lia.
Qed.

Lemma size_bound n : n < 2 ^ N.of_nat (N.to_nat (N.size n)).
Proof. rewrite N2Nat.id. apply N.size_gt. Qed.

Lemma digits_0 : digits 0 = [].
Proof. reflexivity. Qed.

Lemma digits_step n d : 0 < n * 10 + d -> d < 10 -> digits (n * 10 + d) = digits n ++ [d].
Proof.
  intros Hpos Hd. unfold digits.
  pose proof (size_bound (n * 10 + d)) as Hb.
  destruct (N.to_nat (N.size (n * 10 + d))) as [|f] eqn:Ef.
  - cbn in Hb. lia.
  - cbn [digits_fuel]. destruct (N.eqb_spec (n * 10 + d) 0); [lia|].
    assert (Hq : (n * 10 + d) / 10 = n).
    { symmetry. apply (N.div_unique _ 10 n d); lia. }
    assert (Hr : (n * 10 + d) mod 10 = d).
    { symmetry. apply (N.mod_unique _ 10 n d); lia. }
    rewrite Hq, Hr, digits_fuel_acc. f_equal.
    apply digits_fuel_irrel; [|apply size_bound].
    rewrite Nat2N.inj_succ, N.pow_succ_r' in Hb. lia.
Qed.

Lemma digits_val n : val (digits n) = n /\ Forall (fun d => d < 10) (digits n).
Proof.
  induction n as [n IH] using (well_founded_induction N.lt_wf_0).
  destruct (N.eqb_spec n 0) as [->|Hn]; [split; [reflexivity|constructor]|].
  pose proof (N.div_mod n 10 ltac:(lia)) as Hdm.
  pose proof (N.mod_lt n 10 ltac:(lia)) as Hm.
  assert (E : n = (n / 10) * 10 + n mod 10) by lia.
  rewrite E at 1 3. rewrite digits_step by lia.
  destruct (IH (n / 10)) as [IH1 IH2]; [apply N.div_lt; lia|].
  split.
  - rewrite val_app, IH1. unfold val at 1. cbn. change (pow10 1) with 10. lia.
  - apply Forall_app. split; [assumption|]. constructor; [assumption|constructor].
Qed.

Lemma digits_times10 n : 0 < n -> digits (n * 10) = digits n ++ [0].
Proof. intros H. replace (n * 10) with (n * 10 + 0) by lia. apply digits_step; lia. Qed.

(* ---------------------------------------------------------------- shape of the rendering *)
Lemma mant_digits_split d :
  mant_digits d = whole_digits d ++ frac_digits d /\ length (frac_digits d) = d_scale d
  /\ val (mant_digits d) = d_mant d /\ Forall (fun x => x < 10) (mant_digits d).
Proof.
  unfold whole_digits, frac_digits.
  assert (HL : (d_scale d <= length (mant_digits d))%nat).
  { unfold mant_digits, pad_left. rewrite app_length, zeros_length. lia. }
  repeat split.
  - symmetry. apply firstn_skipn.
  - rewrite skipn_length. lia.
  - unfold mant_digits, pad_left. rewrite val_zeros_app. apply digits_val.
  - unfold mant_digits, pad_left. apply Forall_app. split; [apply Forall_zeros|apply digits_val].
Qed.

Lemma drop_zeros_spec l : exists j, l = zeros j ++ drop_zeros l.
Proof.
  induction l as [|x l IH]; [exists 0%nat; reflexivity|].
  destruct (N.eqb_spec x 0) as [->|Hx].
  - destruct IH as [j Hj]. exists (S j). cbn. f_equal. exact Hj.
  - exists 0%nat. cbn [drop_zeros zeros repeat app]. destruct (N.eqb_spec x 0); [contradiction|reflexivity].
Qed.

(* the fractional digits are a core without trailing zero followed by zeros *)
Lemma frac_core d :
  exists core j, frac_digits d = core ++ zeros j /\ length core = trimmed_prec d
                 /\ (trimmed_prec d + j = d_scale d)%nat.
Proof.
  destruct (drop_zeros_spec (rev (frac_digits d))) as [j Hj].
  exists (rev (drop_zeros (rev (frac_digits d)))), j.
  assert (E : frac_digits d = rev (drop_zeros (rev (frac_digits d))) ++ zeros j).
  { rewrite <- (rev_involutive (frac_digits d)) at 1. rewrite Hj at 1.
    rewrite rev_app_distr, rev_zeros. reflexivity. }
  split; [exact E|]. split.
  - rewrite rev_length. reflexivity.
  - destruct (mant_digits_split d) as [_ [HL _]]. rewrite E in HL at 1.
    rewrite app_length, rev_length, zeros_length in HL. unfold trimmed_prec. lia.
Qed.

Lemma take_pad_core core j p :
  (length core <= p)%nat -> take_pad p (core ++ zeros j) = core ++ zeros (p - length core).
Proof.
  intros H. unfold take_pad. rewrite <- app_assoc, <- zeros_app.
  rewrite firstn_app. rewrite firstn_all2 by lia. f_equal.
  replace (j + p)%nat with ((p - length core) + (j + length core))%nat by lia.
  rewrite zeros_app, firstn_app, zeros_length.
  replace (p - length core - (p - length core))%nat with 0%nat by lia. cbn [firstn].
  rewrite app_nil_r. apply firstn_all2. rewrite zeros_length. lia.
Qed.

(* ---------------------------------------------------------------- scanning digits *)
Lemma is_digit_char d : d < 10 -> is_digit (d + 48) = true /\ d + 48 - 48 = d.
Proof. intros H. unfold is_digit. split; [|lia]. apply andb_true_intro. split; apply N.leb_le; lia. Qed.

Lemma scan_digits exact ds : forall rest data sc pt has,
  Forall (fun d => d < 10) ds ->
  val_from data ds <= max_mant ->
  (pt = true -> (sc + length ds < 28 \/ (sc + length ds <= 28 /\ rest = []))%nat) ->
  dec_scan exact (chars ds ++ rest) data sc pt has
  = dec_scan exact rest (val_from data ds) (if pt then (sc + length ds)%nat else sc) pt
             (has || negb (is_nil ds)).
Proof.
  induction ds as [|d ds IH]; intros rest data sc pt has HF Hv Hs.
  - cbn [chars map app val_from fold_left length is_nil negb]. rewrite orb_false_r, Nat.add_0_r.
    destruct pt; reflexivity.
  - inversion HF as [|? ? Hd HF']; subst.
    cbn [chars map app]. fold (chars ds). cbn [dec_scan].
    destruct (is_digit_char d Hd) as [E1 E2]. rewrite E1, E2.
    change (val_from data (d :: ds)) with (val_from (data * 10 + d) ds) in *.
    pose proof (val_from_ge (data * 10 + d) ds) as Hge.
    destruct (N.ltb_spec max_mant (data * 10 + d)); [lia|].
    assert (Hc : pt && (28 <=? (if pt then S sc else sc))%nat && negb (is_nil (chars ds ++ rest)) = false).
    { destruct pt; [|reflexivity]. cbn [andb].
      destruct (Nat.leb_spec 28 (S sc)); [|reflexivity]. cbn [andb].
      destruct (Hs eq_refl) as [Hlt|[Hle Hr]]; cbn [length] in *; [lia|].
      assert (ds = []) by (destruct ds; [reflexivity|cbn [length] in Hle; lia]). subst. reflexivity. }
    rewrite Hc. rewrite IH; [|assumption|assumption|].
    + cbn [length is_nil negb]. rewrite orb_true_r.
      destruct pt; [|destruct ds; reflexivity].
      replace (S sc + length ds)%nat with (sc + S (length ds))%nat by lia. destruct ds; reflexivity.
    + intros ->. specialize (Hs eq_refl). cbn [length] in Hs.
      destruct Hs as [Hs|[Hs Hr]]; [left; lia|right; split; [lia|assumption]].
Qed.

Lemma scan_point exact r data sc has :
  dec_scan exact (46 :: r) data sc false has = dec_scan exact r data sc true has.
Proof. reflexivity. Qed.

(* zeros after the point: the parser keeps as many as fit in 96 bits *)
Lemma scan_zeros n : forall data sc,
  data <= max_mant -> (sc + n <= 28)%nat ->
  exists i, (i <= n)%nat /\
    dec_scan false (chars (zeros n)) data sc true true = Ok (data * pow10 i, (sc + i)%nat)
    /\ data * pow10 i <= max_mant.
Proof.
  induction n as [|n IH]; intros data sc Hd Hs.
  - exists 0%nat. cbn. rewrite Nat.add_0_r, N.mul_1_r. auto.
  - change (chars (zeros (S n))) with (48 :: chars (zeros n)). cbn [dec_scan].
    change (is_digit 48) with true. cbv iota. change (48 - 48) with 0. rewrite N.add_0_r.
    destruct (N.ltb_spec max_mant (data * 10)) as [Ho|Ho].
    + exists 0%nat. cbn. rewrite Nat.add_0_r, N.mul_1_r. repeat split; [lia|assumption].
    + cbn [andb].
      assert (Hc : (28 <=? S sc)%nat && negb (is_nil (chars (zeros n))) = false).
      { destruct (Nat.leb_spec 28 (S sc)); [|reflexivity].
        assert (n = 0%nat) by lia. subst. reflexivity. }
      rewrite Hc. destruct (IH (data * 10) (S sc) Ho ltac:(lia)) as [i [Hi [E Hb]]].
      exists (S i). split; [lia|]. rewrite E, pow10_S.
      replace (data * 10 * pow10 i) with (data * (10 * pow10 i)) in * by lia.
      replace (S sc + i)%nat with (sc + S i)%nat by lia. auto.
Qed.

(* ---------------------------------------------------------------- equivalence of decimals *)
Lemma dec_eqv_refl d : dec_eqv d d = true.
Proof. unfold dec_eqv, mag_eqb. rewrite eqb_reflx, N.eqb_refl. reflexivity. Qed.

Definition dec_same (a b : dec) : Prop :=
  d_neg a = d_neg b /\ d_mant a * pow10 (d_scale b) = d_mant b * pow10 (d_scale a).
Lemma dec_eqv_same a b : dec_eqv a b = true <-> dec_same a b.
Proof.
  unfold dec_eqv, dec_same, mag_eqb. rewrite andb_true_iff, eqb_true_iff, N.eqb_eq. tauto.
Qed.

(* sign and value decide the classification of a decimal *)
Lemma dec_same_zero a b : dec_same a b -> dec_is_zero a = dec_is_zero b.
Proof.
  intros [_ H]. unfold dec_is_zero.
  pose proof (pow10_pos (d_scale a)). pose proof (pow10_pos (d_scale b)).
  destruct (N.eqb_spec (d_mant a) 0) as [E|E], (N.eqb_spec (d_mant b) 0) as [E'|E']; try reflexivity; nia.
Qed.
Lemma dec_same_pos a b : dec_same a b -> dec_pos a = dec_pos b.
Proof. intros H. unfold dec_pos. rewrite (dec_same_zero _ _ H). destruct H as [-> _]. reflexivity. Qed.
Lemma dec_same_gez a b : dec_same a b -> dec_gez a = dec_gez b.
Proof. intros H. unfold dec_gez. rewrite (dec_same_zero _ _ H). destruct H as [-> _]. reflexivity. Qed.
Lemma dec_same_lez a b : dec_same a b -> dec_lez a = dec_lez b.
Proof. intros H. unfold dec_lez. rewrite (dec_same_zero _ _ H). destruct H as [-> _]. reflexivity. Qed.

(* ---------------------------------------------------------------- rendering is scale independent *)
Lemma mant_digits_times10 neg m s :
  mant_digits (mk_dec neg (m * 10) (S s)) = mant_digits (mk_dec neg m s) ++ [0].
Proof.
  unfold mant_digits, pad_left. cbn [d_mant d_scale mk_dec].
  destruct (N.eqb_spec m 0) as [->|Hm].
  - change (0 * 10) with 0. rewrite digits_0. cbn [length]. rewrite !app_nil_r, !Nat.sub_0_r. apply zeros_S_snoc.
  - rewrite digits_times10 by lia. rewrite app_length. cbn [length].
    replace (S s - (length (digits m) + 1))%nat with (s - length (digits m))%nat by lia.
    rewrite app_assoc. reflexivity.
Qed.

Lemma whole_times10 neg m s :
  whole_digits (mk_dec neg (m * 10) (S s)) = whole_digits (mk_dec neg m s).
Proof.
  unfold whole_digits. rewrite mant_digits_times10. cbn [d_scale mk_dec]. rewrite app_length. cbn [length].
  replace (length (mant_digits (mk_dec neg m s)) + 1 - S s)%nat
    with (length (mant_digits (mk_dec neg m s)) - s)%nat by lia.
  rewrite firstn_app.
  replace (length (mant_digits (mk_dec neg m s)) - s - length (mant_digits (mk_dec neg m s)))%nat
    with 0%nat by lia.
  cbn [firstn]. apply app_nil_r.
Qed.

Lemma frac_times10 neg m s :
  frac_digits (mk_dec neg (m * 10) (S s)) = frac_digits (mk_dec neg m s) ++ [0].
Proof.
  unfold frac_digits. rewrite mant_digits_times10. cbn [d_scale mk_dec]. rewrite app_length. cbn [length].
  replace (length (mant_digits (mk_dec neg m s)) + 1 - S s)%nat
    with (length (mant_digits (mk_dec neg m s)) - s)%nat by lia.
  rewrite skipn_app.
  replace (length (mant_digits (mk_dec neg m s)) - s - length (mant_digits (mk_dec neg m s)))%nat
    with 0%nat by lia.
  reflexivity.
Qed.

Lemma take_pad_snoc0 p l : take_pad p (l ++ [0]) = take_pad p l.
Proof.
  unfold take_pad. rewrite <- app_assoc. change ([0] ++ zeros p) with (zeros (S p)).
  rewrite zeros_S_snoc, app_assoc.
  destruct (Nat.le_gt_cases p (length (l ++ zeros p))) as [H|H].
  - rewrite firstn_app. replace (p - length (l ++ zeros p))%nat with 0%nat by lia.
    cbn [firstn]. apply app_nil_r.
  - rewrite app_length, zeros_length in H. lia.
Qed.

Lemma fmt_prec_times10 p neg m s :
  fmt_prec p (mk_dec neg (m * 10) (S s)) = fmt_prec p (mk_dec neg m s).
Proof.
  unfold fmt_prec. rewrite whole_times10, frac_times10, take_pad_snoc0. reflexivity.
Qed.

Lemma trimmed_prec_times10 neg m s :
  trimmed_prec (mk_dec neg (m * 10) (S s)) = trimmed_prec (mk_dec neg m s).
Proof.
  unfold trimmed_prec. rewrite frac_times10, rev_app_distr. reflexivity.
Qed.

Lemma tsmp_times10 k neg m s : tsmp k (mk_dec neg (m * 10) (S s)) = tsmp k (mk_dec neg m s).
Proof. unfold tsmp. rewrite trimmed_prec_times10. apply fmt_prec_times10. Qed.

Lemma tsmp_scale k neg m s e :
  tsmp k (mk_dec neg (m * pow10 e) (s + e)) = tsmp k (mk_dec neg m s).
Proof.
  induction e as [|e IH].
  - rewrite pow10_0, N.mul_1_r, Nat.add_0_r. reflexivity.
  - rewrite pow10_S. replace (m * (10 * pow10 e)) with (m * pow10 e * 10) by lia.
    replace (s + S e)%nat with (S (s + e)) by lia. rewrite tsmp_times10. exact IH.
Qed.
Lemma fmt_prec_scale p neg m s e :
  fmt_prec p (mk_dec neg (m * pow10 e) (s + e)) = fmt_prec p (mk_dec neg m s).
Proof.
  induction e as [|e IH].
  - rewrite pow10_0, N.mul_1_r, Nat.add_0_r. reflexivity.
  - rewrite pow10_S. replace (m * (10 * pow10 e)) with (m * pow10 e * 10) by lia.
    replace (s + S e)%nat with (S (s + e)) by lia. rewrite fmt_prec_times10. exact IH.
Qed.

Lemma dec_eta d : d = mk_dec (d_neg d) (d_mant d) (d_scale d).
Proof. destruct d; reflexivity. Qed.

Lemma same_scaled a b :
  dec_same a b -> (d_scale a <= d_scale b)%nat ->
  b = mk_dec (d_neg a) (d_mant a * pow10 (d_scale b - d_scale a)) (d_scale a + (d_scale b - d_scale a)).
Proof.
  intros [Hn Hv] Hle. rewrite (dec_eta b) at 1. unfold mk_dec. f_equal; [auto| |lia].
  replace (d_scale b) with (d_scale a + (d_scale b - d_scale a))%nat in Hv at 1 by lia.
  rewrite pow10_add in Hv. pose proof (pow10_pos (d_scale a)). nia.
Qed.

(* rendering depends only on sign and value *)
Lemma tsmp_same k a b : dec_same a b -> tsmp k a = tsmp k b.
Proof.
  intros H. destruct (Nat.le_ge_cases (d_scale a) (d_scale b)) as [Hle|Hle].
  - rewrite (same_scaled a b H Hle), tsmp_scale, <- dec_eta. reflexivity.
  - assert (H' : dec_same b a) by (destruct H; split; auto).
    rewrite (same_scaled b a H' Hle), tsmp_scale, <- dec_eta. reflexivity.
Qed.
Lemma fmt_prec_same p a b : dec_same a b -> fmt_prec p a = fmt_prec p b.
Proof.
  intros H. destruct (Nat.le_ge_cases (d_scale a) (d_scale b)) as [Hle|Hle].
  - rewrite (same_scaled a b H Hle), fmt_prec_scale, <- dec_eta. reflexivity.
  - assert (H' : dec_same b a) by (destruct H; split; auto).
    rewrite (same_scaled b a H' Hle), fmt_prec_scale, <- dec_eta. reflexivity.
Qed.
