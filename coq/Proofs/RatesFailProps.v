(* Failure paths of the rate loader (Model/RatesFail.v): with ANY script of
   cache read / cache write / remote request outcomes every answer is the
   answer of the stateless reference look-up or -- exactly when a request made
   during the look-up failed -- a remote error; a year is downloaded
   successfully at most once per run; a failed request leaves the loader state
   as it was (the failure is not remembered: the next look-up that needs the
   year asks again).  Damaged cache files (rows replaced by lines the reader
   rejects) only ever lose rows. *)
From Coq Require Import List NArith ZArith QArith Qcanon Bool Lia.
From ACB Require Import Base.Outcome Base.QcExtra Base.Fit Base.Arith
     Model.Rates Model.RatesCache Model.CrashFs Model.RatesFail Spec.RateRule
     Proofs.RatesProps Proofs.CacheProps Proofs.CrashProps.
Import ListNotations.
Local Open Scope Z_scope.

(* ------------------------------------------------------------ year maps have one row per day *)
Lemma zeros_asc_app : forall n cur X,
  asc (cur + Z.of_nat n) X -> asc cur (zeros cur n ++ X) /\
  end_of (zeros cur n ++ X) cur = end_of X (cur + Z.of_nat n).
Proof.
  induction n as [| k IH]; intros cur X H; cbn [zeros app].
  - replace (cur + Z.of_nat 0) with cur in * by lia. split; [exact H | reflexivity].
  - replace (cur + Z.of_nat (S k)) with (cur + 1 + Z.of_nat k) in * by lia.
    destruct (IH (cur + 1) X H) as [A E]. cbn [asc end_of]. split; [split; [lia | exact A] | exact E].
Qed.

Lemma fill_loop_asc : forall rs cur,
  asc cur rs -> asc cur (fst (fill_loop rs cur)) /\ end_of (fst (fill_loop rs cur)) cur = snd (fill_loop rs cur).
Proof.
  induction rs as [| [d r] t IH]; intros cur H; cbn [fill_loop].
  - cbn. auto.
  - cbn [asc] in H. destruct H as [H1 H2].
    replace (cur + Z.of_nat (Z.to_nat (d - cur)) + 1) with (d + 1) by lia.
    specialize (IH (d + 1) H2). destruct (fill_loop t (d + 1)) as [l c]. cbn [fst snd] in *.
    destruct IH as [A E].
    assert (AX : asc (cur + Z.of_nat (Z.to_nat (d - cur))) ((d, r) :: l)).
    { cbn [asc]. split; [lia | exact A]. }
    destruct (zeros_asc_app _ _ _ AX) as [A2 E2]. split; [exact A2 | ].
    rewrite E2. cbn [end_of]. exact E.
Qed.

Lemma asc_app : forall l1 lo l2, asc lo l1 -> asc (end_of l1 lo) l2 -> asc lo (l1 ++ l2).
Proof.
  induction l1 as [| [d r] t IH]; intros lo l2 H1 H2; cbn [app end_of] in *; [exact H2 | ].
  cbn [asc] in *. destruct H1 as [L A]. split; [exact L | apply IH; assumption].
Qed.

Lemma zeros_asc n cur : asc cur (zeros cur n).
Proof.
  pose proof (zeros_asc_app n cur [] I) as [A _]. rewrite app_nil_r in A. exact A.
Qed.

Lemma fill_asc rs y today : asc (jan1 y) rs -> asc (jan1 y) (fill rs y today).
Proof.
  intros H. unfold fill.
  pose proof (fill_loop_asc rs (jan1 y) H) as [A E].
  pose proof (fill_loop_spec rs (jan1 y) H) as S.
  destruct (fill_loop rs (jan1 y)) as [l c]. cbn [fst snd] in *. destruct S as [Hc _].
  pose proof (asc_end_of _ _ H) as Hend. rewrite <- Hc in Hend.
  rewrite (fill_tail_spec today y _ c) by lia.
  apply asc_app; [exact A | ]. rewrite E. apply zeros_asc.
Qed.

Lemma asc_In_mget : forall l lo d v, asc lo l -> In (d, v) l -> mget d l = Some v.
Proof.
  induction l as [| [d0 r0] t IH]; intros lo d v A Hin; [contradiction | ].
  cbn [asc] in A. destruct A as [L A]. cbn [mget]. destruct Hin as [E | Hin].
  - inversion E; subst. rewrite (asc_mget_none _ _ d A) by lia. rewrite Z.eqb_refl. reflexivity.
  - rewrite (IH _ _ _ A Hin). reflexivity.
Qed.

Lemma keep_rows_In : forall mask l x, In x (keep_rows mask l) -> In x l.
Proof.
  induction mask as [| b m IH]; intros l x H.
  - destruct l; exact H.
  - destruct l as [| a t]; [exact H | ]. cbn [keep_rows] in H. destruct b.
    + right. apply IH. exact H.
    + destruct H as [-> | H]; [left; reflexivity | right; apply IH; exact H].
Qed.

Lemma keep_rows_nil l : keep_rows [] l = l.
Proof. destruct l; reflexivity. Qed.

Lemma Forall2_imp {A B} (P Q : A -> B -> Prop) l1 l2 :
  (forall a b, P a b -> Q a b) -> Forall2 P l1 l2 -> Forall2 Q l1 l2.
Proof. intros H F. induction F; constructor; auto. Qed.

(* ------------------------------------------------------------ the invariant *)
Section Fail.
  Variable truth : calendar.

  (* every row of [l] is a row of the year map [w] *)
  Definition rows_ok (l w : list drate) : Prop := forall d v, In (d, v) l -> mget d w = Some v.

  (* rows that some run no later than (today, avail) wrote for year y *)
  Definition from_run (today avail y : Z) (rates : list drate) : Prop :=
    exists t' a', t' <= today /\ a' <= avail /\ t' <= a' <= t' + 1 /\
                  rows_ok rates (written truth y t' a').

  (* cache contents earlier runs and later damage can leave behind: every
     cached year holds only rows that were written for it *)
  Definition CacheRows (today avail : Z) (cache : list (Z * list drate)) : Prop :=
    forall y rates, aget y cache = Some rates -> from_run today avail y rates.

  Record InvF (today avail : Z) (s : fstate) : Prop := {
    if_cache : CacheRows today avail (s_cache (f_s s));
    if_years : forall y m, aget y (s_years (f_s s)) = Some m ->
        (zmem y (s_fresh (f_s s)) = true -> m = written truth y today avail) /\
        (zmem y (s_fresh (f_s s)) = false -> from_run today avail y m);
    if_fresh : forall y, zmem y (s_fresh (f_s s)) = true -> aget y (s_years (f_s s)) <> None;
    if_dl_nodup : NoDup (s_dl (f_s s));
    if_dl : forall y, In y (s_dl (f_s s)) -> zmem y (s_fresh (f_s s)) = true;
    if_log : s_dl (f_s s) = map fst (filter snd (f_log s))
  }.

  Lemma written_rows_ok y t a : rows_ok (written truth y t a) (written truth y t a).
  Proof.
    intros d v Hin. unfold written in *. eapply asc_In_mget; [ | exact Hin ].
    apply fill_asc. apply pubrates_asc.
  Qed.

  Lemma rows_ok_keep mask l w : rows_ok l w -> rows_ok (keep_rows mask l) w.
  Proof. intros H d v Hin. apply H. eapply keep_rows_In. exact Hin. Qed.

  Lemma from_run_keep t a y mask l : from_run t a y l -> from_run t a y (keep_rows mask l).
  Proof.
    intros (t' & a' & H1 & H2 & H3 & H4). exists t', a'. repeat split; try lia. apply rows_ok_keep. exact H4.
  Qed.

  Lemma from_run_mono t a t2 a2 y l : t <= t2 -> a <= a2 -> from_run t a y l -> from_run t2 a2 y l.
  Proof.
    intros Ht Ha (t' & a' & H1 & H2 & H3 & H4). exists t', a'. repeat split; try lia. exact H4.
  Qed.

  Lemma CacheRows_mono t a t2 a2 c : t <= t2 -> a <= a2 -> CacheRows t a c -> CacheRows t2 a2 c.
  Proof. intros Ht Ha H y rates E. eapply from_run_mono; eauto. Qed.

  Lemma CacheOk_CacheRows t a c : CacheOk truth t a c -> CacheRows t a c.
  Proof.
    intros H y rates E. destruct (H y rates E) as (t' & a' & H1 & H2 & H3 & H4).
    exists t', a'. repeat split; try lia. subst rates. apply written_rows_ok.
  Qed.

  Lemma CacheRows_damage t a : forall dm c, CacheRows t a c -> CacheRows t a (damage_cache dm c).
  Proof.
    induction dm as [| [y mask] rest IH]; intros c H; cbn [damage_cache]; [exact H | ].
    specialize (IH c H).
    destruct (aget y (damage_cache rest c)) as [rows |] eqn:E; [ | exact IH ].
    intros y' rates E'. destruct (Z.eq_dec y y') as [-> | NE].
    - rewrite aget_cons_eq in E'. inversion E'; subst. apply from_run_keep. exact (IH y' rows E).
    - rewrite aget_cons_ne in E' by exact NE. exact (IH y' rates E').
  Qed.

  (* a row read from a year some earlier run wrote is the row of today's map *)
  Lemma from_run_agrees today avail d rates v :
    today <= avail <= today + 1 ->
    from_run today avail (year_of d) rates -> mget d rates = Some v ->
    mget d (written truth (year_of d) today avail) = Some v.
  Proof.
    intros Hta (t' & a' & H1 & H2 & H3 & H4) E.
    apply mget_In in E. apply H4 in E.
    eapply cached_agrees; eauto.
  Qed.

  Lemma InvF_ext today avail s s' :
    f_s s' = f_s s -> filter snd (f_log s') = filter snd (f_log s) -> InvF today avail s -> InvF today avail s'.
  Proof.
    intros E L [I1 I2 I3 I4 I5 I6]. constructor; rewrite ?E, ?L; assumption.
  Qed.

  Lemma InvF_new_run t a s : CacheRows t a (s_cache (f_s s)) -> InvF t a (new_runF s).
  Proof.
    intros H. constructor; cbn.
    - exact H.
    - intros y m E. discriminate.
    - intros y E. discriminate.
    - constructor.
    - intros y [].
    - reflexivity.
  Qed.

  Lemma InvF_damage t a dm s :
    s_years (f_s s) = [] -> s_fresh (f_s s) = [] -> InvF t a s -> InvF t a (damage_state dm s).
  Proof.
    intros Ey Ef [I1 I2 I3 I4 I5 I6]. constructor; cbn [damage_state f_s s_cache s_years s_fresh s_dl f_log].
    - apply CacheRows_damage. exact I1.
    - rewrite Ey. intros y m E. discriminate.
    - rewrite Ef. intros y E. discriminate.
    - exact I4.
    - exact I5.
    - exact I6.
  Qed.

  (* ---- one request ---- *)
  Definition runF_ok (today avail : Z) (e : fenv) : Prop := run_ok truth today avail (fe_env e).

  (* a failed request: an event the script really holds, the error it stands
     for, the loader state untouched, the request logged as failed *)
  Definition failed_step (e : fenv) (y : Z) (s s' : fstate) (err : ferr) : Prop :=
    exists n ev, fe_rq e n = ev /\ ev <> RqOk /\ err = rq_err ev /\
                 f_s s' = f_s s /\ f_log s' = (y, false) :: f_log s.

  Definition quiet_or_dl (y : Z) (s s' : fstate) : Prop :=
    f_log s' = f_log s \/ f_log s' = (y, true) :: f_log s.

  (* the load step of get_exact_usd_cad_rate: fetch and insertion *)
  Definition loadF (e : fenv) (s : fstate) (d : Z) : res (fstate * sum ferr (list drate)) :=
    '(s1, r) <- fetchF e s d ;;
    match r with
    | inl err => Ok (s1, inl err)
    | inr rates => Ok (set_years s1 ((year_of d, rates) :: s_years (f_s s1)), inr rates)
    end.

  Lemma zmem_cons_ne y y' l : y <> y' -> zmem y' (y :: l) = zmem y' l.
  Proof.
    intros NE. cbn [zmem]. replace (y =? y') with false by (symmetry; apply Z.eqb_neq; exact NE). reflexivity.
  Qed.
  Lemma zmem_cons_eq y l : zmem y (y :: l) = true.
  Proof. cbn [zmem]. rewrite Z.eqb_refl. reflexivity. Qed.

  (* download + insertion, for a year not yet downloaded by this process *)
  Lemma download_load today avail e s d :
    runF_ok today avail e -> InvF today avail s ->
    zmem (year_of d) (s_fresh (f_s s)) = false ->
    exists s' r,
      ('(s1, r) <- downloadF e s (year_of d) ;;
       match r with
       | inl err => Ok (s1, inl err)
       | inr rates => Ok (set_years s1 ((year_of d, rates) :: s_years (f_s s1)), inr rates)
       end) = Ok (s', r) /\
      InvF today avail s' /\
      ((exists err, r = inl err /\ failed_step e (year_of d) s s' err) \/
       (r = inr (written truth (year_of d) today avail) /\ f_log s' = (year_of d, true) :: f_log s)).
  Proof.
    intros (Ht & Hta & Hrem) I Hnf. set (y := year_of d) in *.
    unfold downloadF. destruct (fe_rq e (f_nrq s)) eqn:Eq.
    - (* the request succeeds *)
      rewrite Hrem. cbn [bind]. rewrite Ht. fold (written truth y today avail).
      eexists. eexists. split; [reflexivity | ]. split; [ | right; split; reflexivity ].
      destruct I as [I1 I2 I3 I4 I5 I6].
      constructor; cbn [set_years f_s s_cache s_years s_fresh s_dl f_log].
      + destruct (fe_wr e (f_nwr s)); [exact I1 | ].
        intros y' rates E. destruct (Z.eq_dec y y') as [<- | NE].
        * rewrite aget_cons_eq in E. injection E as <-.
          exists today, avail. repeat split; try lia. apply written_rows_ok.
        * rewrite aget_cons_ne in E by exact NE. exact (I1 y' rates E).
      + intros y' m E. destruct (Z.eq_dec y y') as [<- | NE].
        * rewrite aget_cons_eq in E. injection E as <-. rewrite zmem_cons_eq.
          split; [reflexivity | discriminate].
        * rewrite aget_cons_ne in E by exact NE. rewrite zmem_cons_ne by exact NE. exact (I2 y' m E).
      + intros y' F. destruct (Z.eq_dec y y') as [<- | NE].
        * rewrite aget_cons_eq. discriminate.
        * rewrite aget_cons_ne by exact NE. rewrite zmem_cons_ne in F by exact NE. exact (I3 y' F).
      + constructor; [ | exact I4 ]. intros Hin. apply I5 in Hin. congruence.
      + intros y' [<- | Hin]; [apply zmem_cons_eq | ].
        cbn [zmem]. rewrite (I5 y' Hin). apply orb_true_r.
      + cbn [filter snd map fst]. rewrite I6. reflexivity.
    - cbn [bind]. eexists. eexists. split; [reflexivity | ].
      split; [eapply InvF_ext; [ | | exact I]; reflexivity | ].
      left. eexists. split; [reflexivity | ].
      exists (f_nrq s), RqHttp. repeat split; try assumption; discriminate.
    - cbn [bind]. eexists. eexists. split; [reflexivity | ].
      split; [eapply InvF_ext; [ | | exact I]; reflexivity | ].
      left. eexists. split; [reflexivity | ].
      exists (f_nrq s), RqDoc. repeat split; try assumption; discriminate.
  Qed.

  Lemma set_years_InvF today avail s y rates :
    InvF today avail s -> zmem y (s_fresh (f_s s)) = false -> from_run today avail y rates ->
    InvF today avail (set_years s ((y, rates) :: s_years (f_s s))).
  Proof.
    intros [I1 I2 I3 I4 I5 I6] Hnf Hfr.
    constructor; cbn [set_years f_s s_cache s_years s_fresh s_dl f_log]; auto.
    - intros y' m E. destruct (Z.eq_dec y y') as [<- | NE].
      + rewrite aget_cons_eq in E. inversion E; subst. split; [congruence | intros _; exact Hfr].
      + rewrite aget_cons_ne in E by exact NE. exact (I2 y' m E).
    - intros y' F. destruct (Z.eq_dec y y') as [<- | NE].
      + rewrite aget_cons_eq. discriminate.
      + rewrite aget_cons_ne by exact NE. exact (I3 y' F).
  Qed.

  Lemma load_step today avail e s d :
    runF_ok today avail e -> InvF today avail s ->
    zmem (year_of d) (s_fresh (f_s s)) = false ->
    exists s' r,
      loadF e s d = Ok (s', r) /\ InvF today avail s' /\
      ((exists err, r = inl err /\ failed_step e (year_of d) s s' err) \/
       (exists rates, r = inr rates /\
                      mget d rates = mget d (written truth (year_of d) today avail) /\
                      quiet_or_dl (year_of d) s s')).
  Proof.
    intros R I Hnf. pose proof R as (_ & Hta & _). set (y := year_of d) in *.
    (* the download branch, from a state that differs from s in the read counter only *)
    assert (Hdl : forall s0, f_s s0 = f_s s -> f_log s0 = f_log s ->
      exists s' r,
        ('(s1, r) <- downloadF e s0 y ;;
         match r with
         | inl err => Ok (s1, inl err)
         | inr rates => Ok (set_years s1 ((y, rates) :: s_years (f_s s1)), inr rates)
         end) = Ok (s', r) /\ InvF today avail s' /\
        ((exists err, r = inl err /\ failed_step e y s s' err) \/
         (exists rates, r = inr rates /\ mget d rates = mget d (written truth y today avail) /\
                        quiet_or_dl y s s'))).
    { intros s0 Es El.
      assert (I0 : InvF today avail s0) by (eapply InvF_ext; [exact Es | rewrite El; reflexivity | exact I]).
      assert (Hnf0 : zmem y (s_fresh (f_s s0)) = false) by (rewrite Es; exact Hnf).
      destruct (download_load today avail e s0 d R I0 Hnf0) as (s' & r & E & I' & [(err & Er & F) | (Er & L)]).
      - exists s', r. split; [exact E | ]. split; [exact I' | ]. left. exists err. split; [exact Er | ].
        destruct F as (n & ev & F1 & F2 & F3 & F4 & F5). exists n, ev. rewrite <- Es, <- El. auto.
      - exists s', r. split; [exact E | ]. split; [exact I' | ]. right.
        exists (written truth y today avail). split; [exact Er | ]. split; [reflexivity | ].
        right. rewrite <- El. exact L. }
    unfold loadF, fetchF. fold y.
    destruct (e_force (fe_env e)); [apply Hdl; reflexivity | ].
    rewrite Hnf.
    destruct (fe_rd e (f_nrd s)) as [ | | mask]; cbn [read_cache_ev].
    - apply Hdl; reflexivity.
    - apply Hdl; reflexivity.
    - destruct (aget y (s_cache (f_s s))) as [rows |] eqn:Ec; cbn [option_map];
        [ | apply Hdl; reflexivity ].
      destruct (mhas d (keep_rows mask rows)) eqn:Eh; [ | apply Hdl; reflexivity ].
      cbn [bind].
      assert (Hfr : from_run today avail y (keep_rows mask rows)).
      { apply from_run_keep. exact (if_cache _ _ _ I y rows Ec). }
      eexists. eexists. split; [reflexivity | ]. split.
      + apply set_years_InvF; [eapply InvF_ext; [ | | exact I]; reflexivity | exact Hnf | exact Hfr].
      + right. exists (keep_rows mask rows). split; [reflexivity | ].
        split; [ | left; reflexivity ].
        destruct (mhas_true _ _ Eh) as [v Ev]. rewrite Ev. symmetry.
        unfold y in *. eapply from_run_agrees; eauto.
  Qed.

  (* the rest of get_exact_usd_cad_rate once the year map is at hand *)
  Lemma finish_tail (e : fenv) today d (m : list drate) (s1 : fstate) :
    e_today (fe_env e) = today ->
    match mget d m with
    | Some r => if Qceqb r 0%Qc then Ok (s1, inr None) else Ok (s1, inr (Some (d, r)))
    | None => if e_today (fe_env e) <=? d then Ok (s1, inl FNotYet) else Ok (s1, inr None)
    end = Ok (s1, @lift_ans (option drate) (finish today d m)).
  Proof.
    intros ->. unfold finish.
    destruct (mget d m) as [r0 |]; [destruct (Qceqb r0 0%Qc); reflexivity | ].
    destruct (today <=? d); reflexivity.
  Qed.

  (* one get_exact_usd_cad_rate under any failure script *)
  Lemma exact_stepF today avail e s d :
    runF_ok today avail e -> InvF today avail s ->
    exists s' r,
      exactF e s d = Ok (s', r) /\ InvF today avail s' /\
      ((exists err, r = inl err /\ failed_step e (year_of d) s s' err) \/
       (r = lift_ans (exact_ref (rem truth avail) today d) /\ quiet_or_dl (year_of d) s s')).
  Proof.
    intros R I. pose proof R as (Ht & Hta & _).
    rewrite exact_ref_finish. set (y := year_of d).
    assert (Hload : zmem y (s_fresh (f_s s)) = false ->
      exists s' r,
        ('(s1, r) <- loadF e s d ;;
         match r with
         | inl err => Ok (s1, inl err)
         | inr m =>
             match mget d m with
             | Some r0 => if Qceqb r0 0%Qc then Ok (s1, inr None) else Ok (s1, inr (Some (d, r0)))
             | None => if e_today (fe_env e) <=? d then Ok (s1, inl FNotYet) else Ok (s1, inr None)
             end
         end) = Ok (s', r) /\ InvF today avail s' /\
        ((exists err, r = inl err /\ failed_step e y s s' err) \/
         (r = lift_ans (finish today d (written truth y today avail)) /\ quiet_or_dl y s s'))).
    { intros Hnf.
      destruct (load_step today avail e s d R I Hnf) as (s1 & r1 & E & I1 & [(err & Er & F) | (rates & Er & Em & Q)]).
      - rewrite E. cbn [bind]. subst r1. exists s1, (inl err). split; [reflexivity | ].
        split; [exact I1 | ]. left. exists err. auto.
      - rewrite E. cbn [bind]. subst r1. rewrite (finish_tail e today d rates s1 Ht).
        eexists. eexists. split; [reflexivity | ]. split; [exact I1 | ]. right.
        split; [ | exact Q ]. f_equal. apply finish_ext. exact Em. }
    unfold exactF. fold y. change (
      '(s1, r) <- fetchF e s d ;;
      match r with
      | inl err => Ok (s1, inl err)
      | inr rates => Ok (set_years s1 ((y, rates) :: s_years (f_s s1)), inr rates)
      end) with (loadF e s d).
    destruct (aget y (s_years (f_s s))) as [m |] eqn:Ey.
    - destruct (zmem y (s_fresh (f_s s))) eqn:Ef; cbn [negb andb].
      + (* downloaded by this process *)
        cbn [bind]. rewrite (finish_tail e today d m s Ht).
        eexists. eexists. split; [reflexivity | ]. split; [exact I | ]. right.
        split; [ | left; reflexivity ].
        destruct (if_years _ _ _ I y m Ey) as [Hm _]. rewrite (Hm Ef). reflexivity.
      + destruct (mhas d m) eqn:Eh; cbn [negb].
        * cbn [bind]. rewrite (finish_tail e today d m s Ht).
          eexists. eexists. split; [reflexivity | ]. split; [exact I | ]. right.
          split; [ | left; reflexivity ]. f_equal. apply finish_ext.
          destruct (if_years _ _ _ I y m Ey) as [_ Hm].
          destruct (mhas_true _ _ Eh) as [v Ev]. rewrite Ev. symmetry.
          unfold y in *. eapply from_run_agrees; eauto.
        * apply Hload. reflexivity.
    - apply Hload. destruct (zmem y (s_fresh (f_s s))) eqn:Ef; [ | reflexivity ].
      exfalso. exact (if_fresh _ _ _ I y Ef Ey).
  Qed.

  (* ---- a whole look-up ---- *)
  Definition all_ok (l : list (Z * bool)) : Prop := Forall (fun x => snd x = true) l.

  (* what a look-up may do: the requests it made are [new]; either they all
     succeeded and the answer is the reference answer, or the LAST one failed
     and the answer is that request's error (wrapped when it happened during
     the look-back) *)
  Definition lookup_ok (e : fenv) (refa : sum lerr drate) (a : sum ferr drate) (new : list (Z * bool)) : Prop :=
    (all_ok new /\ a = lift_ans refa) \/
    (exists y rest n ev, new = (y, false) :: rest /\ all_ok rest /\ fe_rq e n = ev /\ ev <> RqOk /\
                         (a = inl (rq_err ev) \/ a = inl (FLookback (rq_err ev)))).

  Lemma lookback_stepF today avail e : forall n s d,
    runF_ok today avail e -> InvF today avail s ->
    exists s' a new,
      lookbackF n e s d = Ok (s', a) /\ InvF today avail s' /\ f_log s' = new ++ f_log s /\
      ((all_ok new /\ a = lift_ans (lookback_ref (rem truth avail) today n d)) \/
       (exists y rest k ev, new = (y, false) :: rest /\ all_ok rest /\ fe_rq e k = ev /\ ev <> RqOk /\
                            a = inl (FLookback (rq_err ev)))).
  Proof.
    induction n as [| k IH]; intros s d R I; cbn [lookbackF lookback_ref].
    - exists s, (inl FNone7), []. split; [reflexivity | ]. split; [exact I | ]. split; [reflexivity | ].
      left. split; [constructor | reflexivity].
    - destruct (exact_stepF today avail e s (d - 1) R I) as (s1 & r & E & I1 & [(err & Er & F) | (Er & Q)]).
      + rewrite E. cbn [bind]. subst r.
        destruct F as (n & ev & F1 & F2 & F3 & F4 & F5).
        exists s1, (inl (FLookback err)), [(year_of (d - 1), false)].
        split; [reflexivity | ]. split; [exact I1 | ]. split; [exact F5 | ].
        right. exists (year_of (d - 1)), [], n, ev. subst err. repeat split; try assumption. constructor.
      + rewrite E. cbn [bind]. subst r.
        assert (Hnew : exists new1, f_log s1 = new1 ++ f_log s /\ all_ok new1).
        { destruct Q as [Q | Q]; [exists []; split; [exact Q | constructor] | ].
          exists [(year_of (d - 1), true)]. split; [exact Q | ]. constructor; [reflexivity | constructor]. }
        destruct Hnew as (new1 & L1 & A1).
        destruct (exact_ref (rem truth avail) today (d - 1)) as [err | [x |]]; cbn [lift_ans].
        * exists s1, (inl (FLookback (lift_err err))), new1. split; [reflexivity | ].
          split; [exact I1 | ]. split; [exact L1 | ]. left. split; [exact A1 | reflexivity].
        * exists s1, (inr x), new1. split; [reflexivity | ].
          split; [exact I1 | ]. split; [exact L1 | ]. left. split; [exact A1 | reflexivity].
        * destruct (IH s1 (d - 1) R I1) as (s2 & a & new2 & E2 & I2 & L2 & H2).
          exists s2, a, (new2 ++ new1). split; [exact E2 | ]. split; [exact I2 | ].
          split; [rewrite L2, L1, app_assoc; reflexivity | ].
          destruct H2 as [[A2 Ea] | (y & rest & k' & ev & Hn & Ar & Hq & Hne & Ea)].
          -- left. split; [apply Forall_app; split; assumption | exact Ea].
          -- right. exists y, (rest ++ new1), k', ev. subst new2. split; [reflexivity | ].
             split; [apply Forall_app; split; assumption | ]. auto.
  Qed.

  Lemma effective_stepF today avail e s d :
    runF_ok today avail e -> InvF today avail s ->
    exists s' a new,
      effectiveF e s d = Ok (s', a) /\ InvF today avail s' /\ f_log s' = new ++ f_log s /\
      lookup_ok e (effective_ref (rem truth avail) today d) a new.
  Proof.
    intros R I. unfold effectiveF, effective_ref.
    destruct (exact_stepF today avail e s d R I) as (s1 & r & E & I1 & [(err & Er & F) | (Er & Q)]).
    - rewrite E. cbn [bind]. subst r.
      destruct F as (n & ev & F1 & F2 & F3 & F4 & F5).
      exists s1, (inl err), [(year_of d, false)].
      split; [reflexivity | ]. split; [exact I1 | ]. split; [exact F5 | ].
      right. exists (year_of d), [], n, ev. subst err. repeat split; try assumption; [constructor | left; reflexivity].
    - rewrite E. cbn [bind]. subst r.
      assert (Hnew : exists new1, f_log s1 = new1 ++ f_log s /\ all_ok new1).
      { destruct Q as [Q | Q]; [exists []; split; [exact Q | constructor] | ].
        exists [(year_of d, true)]. split; [exact Q | ]. constructor; [reflexivity | constructor]. }
      destruct Hnew as (new1 & L1 & A1).
      destruct (exact_ref (rem truth avail) today d) as [err | [x |]]; cbn [lift_ans].
      + exists s1, (inl (lift_err err)), new1. split; [reflexivity | ].
        split; [exact I1 | ]. split; [exact L1 | ]. left. split; [exact A1 | reflexivity].
      + exists s1, (inr x), new1. split; [reflexivity | ].
        split; [exact I1 | ]. split; [exact L1 | ]. left. split; [exact A1 | reflexivity].
      + destruct (lookback_stepF today avail e 7 s1 d R I1) as (s2 & a & new2 & E2 & I2 & L2 & H2).
        exists s2, a, (new2 ++ new1). split; [exact E2 | ]. split; [exact I2 | ].
        split; [rewrite L2, L1, app_assoc; reflexivity | ].
        destruct H2 as [[A2 Ea] | (y & rest & k' & ev & Hn & Ar & Hq & Hne & Ea)].
        * left. split; [apply Forall_app; split; assumption | exact Ea].
        * right. exists y, (rest ++ new1), k', ev. subst new2. split; [reflexivity | ].
          split; [apply Forall_app; split; assumption | ]. auto.
  Qed.

  Lemma new_log_app (new old : list (Z * bool)) : new_log old (new ++ old) = new.
  Proof.
    unfold new_log. rewrite app_length.
    replace (length new + length old - length old)%nat with (length new) by lia.
    rewrite firstn_app, Nat.sub_diag, firstn_all. cbn [firstn]. apply app_nil_r.
  Qed.

  Lemma lookups_stepF today avail e : forall ds s,
    runF_ok today avail e -> InvF today avail s ->
    exists s' outs,
      lookupsF e s ds = Ok (s', outs) /\ InvF today avail s' /\
      f_log s' = concat (rev (map snd outs)) ++ f_log s /\
      Forall2 (fun refa o => lookup_ok e refa (fst o) (snd o))
              (map (effective_ref (rem truth avail) today) ds) outs.
  Proof.
    induction ds as [| d t IH]; intros s R I; cbn [lookupsF map].
    - exists s, []. split; [reflexivity | ]. split; [exact I | ]. split; [reflexivity | constructor].
    - destruct (effective_stepF today avail e s d R I) as (s1 & a & new & E & I1 & L & H).
      rewrite E. cbn [bind].
      destruct (IH s1 R I1) as (s2 & outs & E2 & I2 & L2 & F2). rewrite E2. cbn [bind].
      eexists. eexists. split; [reflexivity | ]. split; [exact I2 | ].
      rewrite L, new_log_app. split.
      + rewrite L2, L. cbn [map snd rev]. rewrite concat_app. cbn [concat].
        rewrite app_nil_r, app_assoc. reflexivity.
      + constructor; [exact H | exact F2].
  Qed.

  (* ---- histories ---- *)
  Inductive runsF_ok : Z -> Z -> list frun -> list (Z * Z) -> Prop :=
  | rf_nil t a : runsF_ok t a [] []
  | rf_cons t a r rest t' a' ps :
      t <= t' -> a <= a' -> runF_ok t' a' (fr_env r) -> runsF_ok t' a' rest ps ->
      runsF_ok t a (r :: rest) ((t', a') :: ps).

  Definition plain_runs (runs : list frun) : list (env * list Z) :=
    map (fun r => (fe_env (fr_env r), fr_lookups r)) runs.

  (* the judgement on the outputs of a history, run by run *)
  Fixpoint history_ok (runs : list frun) (refs : list (list (sum lerr drate))) (outs : list frun_out) : Prop :=
    match runs, refs, outs with
    | [], [], [] => True
    | r :: runs', ref :: refs', o :: outs' =>
        Forall2 (fun refa x => lookup_ok (fr_env r) refa (fst x) (snd x)) ref (fo_answers o) /\
        fo_log o = concat (rev (map snd (fo_answers o))) /\
        NoDup (map fst (filter snd (fo_log o))) /\
        history_ok runs' refs' outs'
    | _, _, _ => False
    end.

  Lemma history_general : forall runs ps t a s,
    runsF_ok t a runs ps -> CacheRows t a (s_cache (f_s s)) ->
    exists s' outs,
      historyF s runs = Ok (s', outs) /\
      history_ok runs (ref_answers truth (plain_runs runs) ps) outs.
  Proof.
    induction runs as [| r rest IH]; intros ps t a s H C; inversion H; subst; cbn [historyF plain_runs map ref_answers].
    - exists s, []. split; [reflexivity | exact I].
    - match goal with
      | H1 : runF_ok ?t' ?a' (fr_env r), H2 : runsF_ok ?t' ?a' rest ?ps' |- _ =>
          rename H1 into R; rename H2 into Hrest
      end.
      assert (C' : CacheRows t' a' (s_cache (f_s s))) by (eapply CacheRows_mono; [ | | exact C]; lia).
      assert (I0 : InvF t' a' (damage_state (fr_damage r) (new_runF s))).
      { apply InvF_damage; [reflexivity | reflexivity | apply InvF_new_run; exact C']. }
      destruct (lookups_stepF t' a' (fr_env r) (fr_lookups r) _ R I0) as (s1 & outs1 & E1 & I1 & L1 & F1).
      rewrite E1. cbn [bind].
      destruct (IH ps0 t' a' s1 Hrest (if_cache _ _ _ I1)) as (s2 & outs & E2 & Hh).
      rewrite E2. cbn [bind].
      eexists. eexists. split; [reflexivity | ].
      cbn [history_ok fo_answers fo_log]. split; [exact F1 | ].
      split; [rewrite L1; cbn; apply app_nil_r | ]. split; [ | exact Hh ].
      rewrite <- (if_log _ _ _ I1). exact (if_dl_nodup _ _ _ I1).
  Qed.

  (* ---- what lookup_ok says about one answer ---- *)
  Definition remote_err (e : ferr) : Prop :=
    match e with
    | FHttp | FDoc | FLookback FHttp | FLookback FDoc => True
    | _ => False
    end.

  Lemma lift_not_remote (x : lerr) : ~ remote_err (lift_err x).
  Proof. destruct x as [ | | | x]; cbn; try tauto. destruct x; cbn; tauto. Qed.

  Lemma rq_err_remote ev : remote_err (rq_err ev) /\ remote_err (FLookback (rq_err ev)).
  Proof. destruct ev; cbn; tauto. Qed.

  Lemma all_ok_no_failure new y : all_ok new -> ~ In (y, false) new.
  Proof. intros A Hin. unfold all_ok in A. rewrite Forall_forall in A. specialize (A _ Hin). discriminate. Qed.

  Lemma lookup_ok_facts e refa a new :
    lookup_ok e refa a new ->
    (a = lift_ans refa \/ exists err, a = inl err /\ remote_err err) /\
    ((exists err, a = inl err /\ remote_err err) <-> (exists y, In (y, false) new)) /\
    (forall x, a = inr x -> refa = inr x /\ all_ok new).
  Proof.
    intros [[A E] | (y & rest & n & ev & Hn & Ar & Hq & Hne & Ea)].
    - split; [left; exact E | ]. split.
      + split.
        * intros (err & Ee & Re). subst a. destruct refa as [x | x]; cbn in Ee; [ | discriminate ].
          inversion Ee; subst. exfalso. exact (lift_not_remote x Re).
        * intros (y & Hin). exfalso. exact (all_ok_no_failure _ _ A Hin).
      + intros x Ex. subst a. destruct refa as [z | z]; cbn in Ex; [discriminate | ].
        inversion Ex; subst. auto.
    - destruct (rq_err_remote ev) as [R1 R2].
      assert (Hr : exists err, a = inl err /\ remote_err err) by (destruct Ea as [-> | ->]; eauto).
      split; [right; exact Hr | ]. split.
      + split; [intros _; exists y; subst new; left; reflexivity | intros _; exact Hr].
      + intros x Ex. destruct Ea as [-> | ->]; discriminate.
  Qed.

  (* ---- corollary: the remote never fails, cache reads and writes fail at will ---- *)
  Lemma history_ok_no_remote_failure : forall runs refs outs,
    (forall r n, In r runs -> fe_rq (fr_env r) n = RqOk) ->
    history_ok runs refs outs ->
    map (fun o => map fst (fo_answers o)) outs = map (map (@lift_ans drate)) refs /\
    Forall (fun o => NoDup (map fst (fo_log o))) outs.
  Proof.
    induction runs as [| r rest IH]; intros refs outs Hq H;
      destruct refs as [| ref refs']; destruct outs as [| o outs']; cbn [history_ok] in H; try contradiction.
    - split; [reflexivity | constructor].
    - destruct H as (F & L & N & Hrest).
      destruct (IH refs' outs' (fun r' n Hin => Hq r' n (or_intror Hin)) Hrest) as [M Fo].
      assert (Hall : Forall2 (fun refa x => fst x = lift_ans refa /\ all_ok (snd x)) ref (fo_answers o)).
      { eapply Forall2_imp; [ | exact F ]. intros refa x [[A E] | (y & rest' & n & ev & _ & _ & Hev & Hne & _)]; [auto | ].
        exfalso. apply Hne. rewrite <- Hev. apply Hq. left. reflexivity. }
      split.
      + cbn [map]. rewrite M. f_equal.
        clear - Hall. induction Hall as [| refa x l1 l2 [E _] _ IH2]; [reflexivity | ].
        cbn [map]. rewrite E, IH2. reflexivity.
      + constructor; [ | exact Fo ].
        assert (Aok : all_ok (fo_log o)).
        { rewrite L. clear - Hall. unfold all_ok.
          induction Hall as [| refa x l1 l2 [_ A] _ IH2]; [constructor | ].
          cbn [map rev]. rewrite concat_app. cbn [concat]. rewrite app_nil_r.
          apply Forall_app. split; [exact IH2 | exact A]. }
        replace (fo_log o) with (filter snd (fo_log o)); [exact N | ].
        clear - Aok. induction Aok as [| x l Hx _ IH2]; [reflexivity | ].
        cbn [filter]. rewrite Hx, IH2. reflexivity.
  Qed.

  Lemma cache_failures_transparent : forall runs params t0 a0 s0,
    runsF_ok t0 a0 runs params ->
    (forall r n, In r runs -> fe_rq (fr_env r) n = RqOk) ->
    CacheRows t0 a0 (s_cache (f_s s0)) ->
    exists s' outs,
      historyF s0 runs = Ok (s', outs) /\
      map (fun o => map fst (fo_answers o)) outs
        = map (map (@lift_ans drate)) (ref_answers truth (plain_runs runs) params) /\
      Forall (fun o => NoDup (map fst (fo_log o))) outs.
  Proof.
    intros runs params t0 a0 s0 H Hq C.
    destruct (history_general runs params t0 a0 s0 H C) as (s' & outs & E & Hok).
    exists s', outs. split; [exact E | ].
    exact (history_ok_no_remote_failure runs _ outs Hq Hok).
  Qed.
End Fail.

(* ------------------------------------------------------------ damaged cache files *)
(* a cache file in which some rows were replaced by lines the reader rejects
   (rows cut short, garbage, wrong field count, blank lines): what
   get_rates_from_csv returns is the written rows minus some -- never a row
   that was not written, never a changed rate *)
Definition dmg_ok (x : row_t * option bytes) : Prop :=
  wf_row (fst x) /\ match snd x with Some j => junk_line j = true | None => True end.
Definition dline (x : row_t * option bytes) : bytes :=
  match snd x with None => body (fst x) | Some j => j end.

Lemma junk_line_spec j :
  junk_line j = true ->
  ~ In LF j /\ forall n0, parse_record n0 (split_on COMMA j) = [].
Proof.
  unfold junk_line. intros H. apply andb_true_iff in H. destruct H as [H1 H2]. split.
  - intros Hin. apply negb_true_iff in H1.
    assert (X : existsb (N.eqb LF) j = true) by (apply existsb_exists; exists LF; split; [exact Hin | apply N.eqb_refl]).
    congruence.
  - intros n0. destruct (Nat.eqb_spec (length (split_on COMMA j)) n0) as [<- | NE].
    + destruct (parse_record (length (split_on COMMA j)) (split_on COMMA j)); [reflexivity | discriminate].
    + unfold parse_record. replace (length (split_on COMMA j) =? n0)%nat with false; [reflexivity | ].
      symmetry. apply Nat.eqb_neq. exact NE.
Qed.

Lemma dline_no_LF x : dmg_ok x -> ~ In LF (dline x).
Proof.
  intros [W J]. unfold dline. destruct (snd x) as [j |].
  - apply junk_line_spec. exact J.
  - apply body_spec. exact W.
Qed.

Lemma damaged_lines l :
  Forall dmg_ok l -> split_on LF (render_damaged l) = map dline l ++ [[]].
Proof.
  induction l as [| x t IH]; intros H; [reflexivity | ].
  inversion H as [| ? ? Hx Ht]; subst.
  assert (E : render_damaged (x :: t) = dline x ++ LF :: render_damaged t).
  { unfold render_damaged at 1. cbn [flat_map]. fold (render_damaged t). unfold dline.
    destruct x as [r [j |]]; cbn [fst snd]; [exact (eq_sym (app_assoc _ _ _)) | ].
    rewrite render_row_body. exact (eq_sym (app_assoc _ _ _)). }
  rewrite E, split_on_app by (apply dline_no_LF; exact Hx).
  rewrite IH by exact Ht. reflexivity.
Qed.

Lemma filter_app_nil (l : list bytes) : filter nonempty (l ++ [[]]) = filter nonempty l.
Proof. rewrite filter_app. cbn. apply app_nil_r. Qed.

Definition dropped (n0 : nat) (x : row_t * option bytes) : bool :=
  match snd x with Some _ => true | None => negb (n0 =? 2)%nat end.

Lemma damaged_records n0 : forall l,
  Forall dmg_ok l ->
  flat_map (parse_record n0) (map (split_on COMMA) (filter nonempty (map dline l)))
  = keep_rows (map (dropped n0) l) (map row_value (map fst l)).
Proof.
  induction l as [| x t IH]; intros H; [reflexivity | ].
  inversion H as [| ? ? Hx Ht]; subst. specialize (IH Ht).
  destruct Hx as [W J]. destruct x as [r [j |]]; cbn [fst snd] in W, J;
    cbn [map]; unfold dline at 1, dropped at 1; cbn [fst snd filter].
  - (* a junk line: contributes nothing *)
    cbn [keep_rows]. destruct (junk_line_spec j J) as [_ Hj].
    destruct (nonempty j); [ | exact IH ].
    cbn [map flat_map]. rewrite Hj. cbn [app]. exact IH.
  - destruct (body_spec r W) as (_ & NE & Sp & Pd & Pv). cbn [fst snd] in Sp, Pd, Pv.
    destruct (body r) as [| b bs] eqn:Eb; [contradiction | ]. cbn [nonempty map flat_map].
    rewrite <- Eb in *. rewrite Sp, IH. unfold parse_record. cbn [length].
    destruct (Nat.eqb_spec 2 n0) as [<- | NE2].
    + rewrite Pd, Pv. cbn [Nat.eqb negb keep_rows app]. reflexivity.
    + replace (n0 =? 2)%nat with false by (symmetry; apply Nat.eqb_neq; congruence).
      cbn [negb keep_rows app]. reflexivity.
Qed.

Lemma damaged_file_loses_rows_only l :
  Forall dmg_ok l ->
  exists mask, parse_csv (render_damaged l) = keep_rows mask (map row_value (map fst l)).
Proof.
  intros H. unfold parse_csv. rewrite damaged_lines, filter_app_nil by exact H.
  destruct (map (split_on COMMA) (filter nonempty (map dline l))) as [| r0 rest] eqn:E.
  - exists (map (dropped 0) l). rewrite <- (damaged_records 0 l H), E. reflexivity.
  - exists (map (dropped (length r0)) l). rewrite <- (damaged_records (length r0) l H), E. reflexivity.
Qed.

(* ------------------------------------------------------------ examples *)
(* everything about the cache fails in the first run (reads Err, write fails:
   nothing is cached); in the second run the first read works, later reads
   lose rows / find nothing, the write works *)
Definition exF_env1 : fenv :=
  {| fe_env := ex_env 19003; fe_rd := fun _ => RdErr; fe_wr := fun _ => true; fe_rq := fun _ => RqOk |}.
Definition exF_env2 : fenv :=
  {| fe_env := ex_env 19012;
     fe_rd := fun n => match n with O => RdNone | 1%nat => RdKeep [false; true; true] | _ => RdErr end;
     fe_wr := fun _ => false; fe_rq := fun _ => RqOk |}.
Definition exF_runs : list frun :=
  [ {| fr_damage := []; fr_env := exF_env1; fr_lookups := [18997; 19002; 18997] |};
    {| fr_damage := []; fr_env := exF_env1; fr_lookups := [18997] |};
    {| fr_damage := [(2022, [false; true])]; fr_env := exF_env2; fr_lookups := [18997; 19006] |} ].
Definition exF_params : list (Z * Z) := [(19003, 19003); (19003, 19003); (19012, 19012)].

Lemma exF_runs_ok : runsF_ok ex_truth 0 0 exF_runs exF_params.
Proof.
  unfold exF_runs, exF_params.
  apply rf_cons; [lia | lia | apply ex_env_run_ok | ].
  apply rf_cons; [lia | lia | apply ex_env_run_ok | ].
  apply rf_cons; [lia | lia | apply ex_env_run_ok | ].
  apply rf_nil.
Qed.

Lemma exF_no_remote_failure : forall r n, In r exF_runs -> fe_rq (fr_env r) n = RqOk.
Proof. intros r n [<- | [<- | [<- | []]]]; reflexivity. Qed.

Lemma cache_failures_example :
  runsF_ok ex_truth 0 0 exF_runs exF_params /\
  (forall r n, In r exF_runs -> fe_rq (fr_env r) n = RqOk) /\
  CacheRows ex_truth 0 0 (s_cache (f_s (fstate_of empty_st))) /\
  exists s outs,
    historyF (fstate_of empty_st) exF_runs = Ok (s, outs) /\
    map (fun o => map fst (fo_answers o)) outs
      = map (map (@lift_ans drate)) (ref_answers ex_truth (plain_runs exF_runs) exF_params) /\
    map fo_log outs = [[(2022, true)]; [(2022, true)]; [(2022, true)]] /\
    map fo_nwr outs = [1%nat; 1%nat; 1%nat] /\
    s_cache (f_s s) <> [].
Proof.
  split; [exact exF_runs_ok | ]. split; [exact exF_no_remote_failure | ].
  split; [intros y rates E; discriminate | ].
  destruct (historyF (fstate_of empty_st) exF_runs) as [[s outs] | |] eqn:E; [ | vm_compute in E; discriminate.. ].
  exists s, outs. split; [reflexivity | ].
  vm_compute in E. inversion E; subst. clear E.
  split; [vm_compute; reflexivity | ]. split; [vm_compute; reflexivity | ].
  split; [vm_compute; reflexivity | ]. discriminate.
Qed.

(* the remote fails: 5 January is asked three times.  The first request
   fails (the HttpRequester), the second look-up asks AGAIN and gets a body
   that is not a rates document, the third time the download works; then the
   look-back of 1 January 2022 reaches into 2021, whose request fails, and the
   same look-up repeated is served *)
Definition exF_env3 : fenv :=
  {| fe_env := ex_env 19012; fe_rd := fun _ => RdKeep []; fe_wr := fun _ => false;
     fe_rq := fun n => match n with O => RqHttp | 1%nat => RqDoc | 3%nat => RqHttp | _ => RqOk end |}.
Definition exF_runs3 : list frun :=
  [ {| fr_damage := []; fr_env := exF_env3; fr_lookups := [18997; 18997; 18997; 18993; 18993] |} ].

Lemma remote_failure_example :
  runsF_ok ex_truth 0 0 exF_runs3 [(19012, 19012)] /\
  exists s outs,
    historyF (fstate_of empty_st) exF_runs3 = Ok (s, outs) /\
    map fo_answers outs =
      [[(inl FHttp, [(2022, false)]);
        (inl FDoc, [(2022, false)]);
        (inr (18997, Qcfrac 30997 10000), [(2022, true)]);
        (inl (FLookback FHttp), [(2021, false)]);
        (inl FNone7, [(2021, true)])]].
Proof.
  split.
  - apply rf_cons; [lia | lia | apply ex_env_run_ok | apply rf_nil].
  - destruct (historyF (fstate_of empty_st) exF_runs3) as [[s outs] | |] eqn:E; [ | vm_compute in E; discriminate.. ].
    exists s, outs. split; [reflexivity | ].
    vm_compute in E. inversion E; subst. clear E. vm_compute. reflexivity.
Qed.

(* a damaged file: the second of three rows is cut short, a blank line and a
   comment are inserted *)
Definition ex_damaged : list (row_t * option bytes) :=
  [ ((18997, (12345, 4%nat)), None);
    ((18998, (12350, 4%nat)), Some [50; 48; 50; 50; 45; 48; 49; 45; 48; 54; 44]%N);           (* "2022-01-06," *)
    ((18999, (0, 0%nat)), Some []);
    ((19000, (0, 0%nat)), Some [35; 120]%N);                                                  (* "#x" *)
    ((19001, (12377, 4%nat)), None) ].

Lemma damaged_example :
  Forall dmg_ok ex_damaged /\
  parse_csv (render_damaged ex_damaged) = [(18997, Qcfrac 12345 10000); (19001, Qcfrac 12377 10000)].
Proof.
  split.
  - repeat constructor; cbn [fst snd]; try (vm_compute; intuition discriminate).
  - vm_compute. reflexivity.
Qed.

(* ------------------------------------------------------------ nothing fails: the model of RatesCache.v *)
(* With the environment in which no operation fails ([no_fail e]) the
   failure-path machine is the machine of Model/RatesCache.v (code after the
   fix, reval = true): same outcome, same loader state and cache, same
   answers (errors embedded by [lift_err]). *)
Definition sim {A B} (f : A -> B) (x : res (st * A)) (y : res (fstate * B)) : Prop :=
  match x, y with
  | Ok (s, a), Ok (fs, b) => f_s fs = s /\ b = f a
  | Rej r, Rej r' => r = r'
  | Panic p, Panic p' => p = p'
  | _, _ => False
  end.

Lemma sim_bind {A B A' B'} (f : A -> B) (g : A' -> B') x y
      (k : st * A -> res (st * A')) (k' : fstate * B -> res (fstate * B')) :
  sim f x y ->
  (forall s a fs, f_s fs = s -> sim g (k (s, a)) (k' (fs, f a))) ->
  sim g (bind x k) (bind y k').
Proof.
  destruct x as [[s a] | r | p]; destruct y as [[fs b] | r' | p']; cbn [sim bind]; try contradiction.
  - intros [E ->] H. apply H. exact E.
  - intros -> _. reflexivity.
  - intros -> _. reflexivity.
Qed.

Definition lift_sum {A} (r : sum lerr A) : sum ferr A := lift_ans r.

Lemma download_sim e fs y :
  sim (fun rates : list drate => @inr ferr _ rates) (download e (f_s fs) y) (downloadF (no_fail e) fs y).
Proof.
  unfold download, downloadF. cbn [no_fail fe_rq fe_wr fe_env].
  destruct (parse_all (e_remote e y)) as [rs | r | p]; cbn [bind sim]; auto.
Qed.

Lemma fetch_sim e fs d :
  sim lift_sum (fetch e (f_s fs) d) (fetchF (no_fail e) fs d).
Proof.
  assert (Hdl : forall fs0, f_s fs0 = f_s fs ->
            sim lift_sum ('(s1, rates) <- download e (f_s fs) (year_of d) ;; Ok (s1, @inr lerr _ rates))
                (downloadF (no_fail e) fs0 (year_of d))).
  { intros fs0 E. rewrite <- E. pose proof (download_sim e fs0 (year_of d)) as S.
    destruct (download e (f_s fs0) (year_of d)) as [[s1 rates] | r | p];
      destruct (downloadF (no_fail e) fs0 (year_of d)) as [[fs1 b] | r' | p']; cbn [sim bind] in *; try contradiction; auto. }
  unfold fetch, fetchF. cbn [no_fail fe_env fe_rd].
  destruct (e_force e); [apply Hdl; reflexivity | ].
  cbn [read_cache_ev].
  destruct (aget (year_of d) (s_cache (f_s fs))) as [rates |]; cbn [option_map].
  - rewrite keep_rows_nil.
    destruct (zmem (year_of d) (s_fresh (f_s fs))); [cbn [sim]; auto | ].
    destruct (mhas d rates); [cbn [sim]; auto | apply Hdl; reflexivity].
  - destruct (zmem (year_of d) (s_fresh (f_s fs))); [cbn [sim]; auto | apply Hdl; reflexivity].
Qed.

Lemma exact_sim e fs d :
  sim lift_sum (exact true e (f_s fs) d) (exactF (no_fail e) fs d).
Proof.
  unfold exact, exactF. cbn [andb].
  assert (Htail : forall s (m : list drate) fs0, f_s fs0 = s ->
    sim lift_sum
      (match mget d m with
       | Some r => if Qceqb r 0%Qc then Ok (s, inr None) else Ok (s, inr (Some (d, r)))
       | None => if e_today e <=? d then Ok (s, inl LNotYet) else Ok (s, @inr lerr (option drate) None)
       end)
      (match mget d m with
       | Some r => if Qceqb r 0%Qc then Ok (fs0, inr None) else Ok (fs0, inr (Some (d, r)))
       | None => if e_today (fe_env (no_fail e)) <=? d then Ok (fs0, inl FNotYet) else Ok (fs0, @inr ferr (option drate) None)
       end)).
  { intros s m fs0 E. cbn [no_fail fe_env].
    destruct (mget d m) as [r |]; [destruct (Qceqb r 0%Qc) | destruct (e_today e <=? d)]; cbn [sim lift_sum lift_ans lift_err]; auto. }
  assert (Hload : sim lift_sum
    ('(s1, r) <- fetch e (f_s fs) d ;;
     match r with
     | inl err => Ok (s1, inl err)
     | inr rates =>
         Ok ({| s_years := (year_of d, rates) :: s_years s1; s_fresh := s_fresh s1;
                s_cache := s_cache s1; s_dl := s_dl s1 |}, inr rates)
     end)
    ('(s1, r) <- fetchF (no_fail e) fs d ;;
     match r with
     | inl err => Ok (s1, inl err)
     | inr rates => Ok (set_years s1 ((year_of d, rates) :: s_years (f_s s1)), inr rates)
     end)).
  { eapply sim_bind; [apply fetch_sim | ].
    intros s a fs0 E. destruct a as [err | rates]; cbn [lift_sum lift_ans sim]; [auto | ].
    split; [ | reflexivity ]. unfold set_years. cbn [f_s]. rewrite E. reflexivity. }
  assert (Hfin : forall x y, sim lift_sum x y ->
    sim lift_sum
      ('(s1, r) <- x ;;
       match r with
       | inl err => Ok (s1, inl err)
       | inr m =>
           match mget d m with
           | Some r0 => if Qceqb r0 0%Qc then Ok (s1, inr None) else Ok (s1, inr (Some (d, r0)))
           | None => if e_today e <=? d then Ok (s1, inl LNotYet) else Ok (s1, inr None)
           end
       end)
      ('(s1, r) <- y ;;
       match r with
       | inl err => Ok (s1, inl err)
       | inr m =>
           match mget d m with
           | Some r0 => if Qceqb r0 0%Qc then Ok (s1, inr None) else Ok (s1, inr (Some (d, r0)))
           | None => if e_today (fe_env (no_fail e)) <=? d then Ok (s1, inl FNotYet) else Ok (s1, inr None)
           end
       end)).
  { intros x y S. eapply sim_bind; [exact S | ].
    intros s a fs0 E. destruct a as [err | m]; cbn [lift_sum lift_ans]; [cbn [sim]; auto | ].
    apply Htail. exact E. }
  destruct (aget (year_of d) (s_years (f_s fs))) as [m |].
  - destruct (negb (zmem (year_of d) (s_fresh (f_s fs))) && negb (mhas d m)).
    + apply Hfin. exact Hload.
    + apply (Hfin (Ok (f_s fs, inr m)) (Ok (fs, inr m))). cbn [sim lift_sum lift_ans]. auto.
  - apply Hfin. exact Hload.
Qed.

Lemma lookback_sim e : forall n fs d,
  sim lift_sum (lookback true n e (f_s fs) d) (lookbackF n (no_fail e) fs d).
Proof.
  induction n as [| k IH]; intros fs d; cbn [lookback lookbackF].
  - cbn [sim lift_sum lift_ans lift_err]. auto.
  - eapply sim_bind; [apply exact_sim | ].
    intros s a fs0 E. destruct a as [err | [x |]]; cbn [lift_sum lift_ans lift_err sim]; auto.
    rewrite <- E. apply IH.
Qed.

Lemma effective_sim e fs d :
  sim lift_sum (effective true e (f_s fs) d) (effectiveF (no_fail e) fs d).
Proof.
  unfold effective, effectiveF. eapply sim_bind; [apply exact_sim | ].
  intros s a fs0 E. destruct a as [err | [x |]]; cbn [lift_sum lift_ans lift_err sim]; auto.
  rewrite <- E. apply lookback_sim.
Qed.

Lemma lookups_sim e : forall ds fs,
  match lookups true e (f_s fs) ds, lookupsF (no_fail e) fs ds with
  | Ok (s, a), Ok (fs', b) => f_s fs' = s /\ map fst b = map (@lift_ans drate) a
  | Rej r, Rej r' => r = r'
  | Panic p, Panic p' => p = p'
  | _, _ => False
  end.
Proof.
  induction ds as [| d t IH]; intros fs; cbn [lookups lookupsF]; [auto | ].
  pose proof (effective_sim e fs d) as S.
  destruct (effective true e (f_s fs) d) as [[s1 a] | r | p];
    destruct (effectiveF (no_fail e) fs d) as [[fs1 b] | r' | p']; cbn [sim bind] in *; try contradiction; auto.
  destruct S as [E ->]. specialize (IH fs1). rewrite E in IH.
  destruct (lookups true e s1 t) as [[s2 a2] | r | p];
    destruct (lookupsF (no_fail e) fs1 t) as [[fs2 b2] | r' | p']; cbn [bind] in *; try contradiction; auto.
  destruct IH as [E2 M]. split; [exact E2 | ]. cbn [map fst]. rewrite M. reflexivity.
Qed.

Definition no_fail_run (r : env * list Z) : frun :=
  {| fr_damage := []; fr_env := no_fail (fst r); fr_lookups := snd r |}.

Lemma no_fail_history : forall runs fs,
  match history true (f_s fs) runs, historyF fs (map no_fail_run runs) with
  | Ok (s, outs), Ok (fs', fouts) =>
      f_s fs' = s /\
      map (fun o => map fst (fo_answers o)) fouts = map (fun o => map (@lift_ans drate) (fst o)) outs
  | Rej r, Rej r' => r = r'
  | Panic p, Panic p' => p = p'
  | _, _ => False
  end.
Proof.
  induction runs as [| [e ds] rest IH]; intros fs; cbn [history historyF map no_fail_run fst snd fr_env fr_damage fr_lookups]; [auto | ].
  assert (Ed : damage_state [] (new_runF fs) = fstate_of (new_run (f_s fs))).
  { unfold damage_state, new_runF. cbn [damage_cache fstate_of f_s f_nrd f_nwr f_nrq f_log].
    destruct (new_run (f_s fs)); reflexivity. }
  rewrite Ed.
  pose proof (lookups_sim e ds (fstate_of (new_run (f_s fs)))) as S. cbn [fstate_of f_s] in S.
  destruct (lookups true e (new_run (f_s fs)) ds) as [[s1 a] | r | p];
    destruct (lookupsF (no_fail e) (fstate_of (new_run (f_s fs))) ds) as [[fs1 b] | r' | p'];
    cbn [bind] in *; try contradiction; auto.
  destruct S as [E M]. specialize (IH fs1). rewrite E in IH.
  destruct (history true s1 rest) as [[s2 outs] | r | p];
    destruct (historyF fs1 (map no_fail_run rest)) as [[fs2 fouts] | r' | p']; cbn [bind] in *; try contradiction; auto.
  destruct IH as [E2 M2]. split; [exact E2 | ]. cbn [map fo_answers fst]. rewrite M, M2. reflexivity.
Qed.
