(* C04 part B: under exact arithmetic, on rows that parse (valid quantities,
   registered flag determined by the affiliate), the ONLY rejections the
   ledger can raise are the ones the property lists: a sale of more shares
   than the affiliate holds (at the row, or found ahead inside the 30-day
   window of a loss sale), a return of capital above the cost base, a return
   of capital or cost-base adjustment on a registered affiliate, a whole-number
   reverse split leaving a fraction, a declared superficial loss on a non-loss
   or contradicting the computed one.  The internal sanity rejections are
   unreachable. *)
From Coq Require Import List NArith ZArith QArith Qcanon Bool Lia.
From ACB Require Import Base.Outcome Base.QcExtra Base.Fit Base.Arith Model.Tx Model.Ledger Model.Sfl
     Model.DeltaList Spec.AvgCost Proofs.Tactics Proofs.C01Refine Proofs.C04Inv Proofs.C04Sum Proofs.C02Scan Proofs.C05Sites Proofs.AllAfter.
Import ListNotations.
Local Open Scope Qc_scope.

Definition listed (r : rej) : Prop :=
  match r with
  | RejOversale | RejRocExceeds | RejRocRegistered | RejSflaRegistered | RejRevSplitFraction
  | RejSflNoLoss | RejSflMismatch | RejAheadAllNegative | RejAheadAfNegative => True
  | _ => False
  end.

(* ---- computations that never reject ---- *)
Definition norej {T} (m : res T) : Prop := forall r, m <> Rej r.

Lemma norej_bind {T U} (m : res T) (f : T -> res U) :
  norej m -> (forall x, norej (f x)) -> norej (bind m f).
Proof. intros Hm Hf r. destruct m as [x|r0|p]; cbn [bind]; [apply Hf | exfalso; apply (Hm r0); reflexivity | discriminate]. Qed.
Lemma norej_ok {T} (x : T) : norej (Ok x). Proof. intros r; discriminate. Qed.
Lemma norej_panic {T} p : norej (@Panic T p). Proof. intros r; discriminate. Qed.

Lemma norej_unwrap : (forall s q, norej (gez_unwrap s q)) /\ (forall s q, norej (pos_unwrap s q)) /\ (forall s q, norej (neg_unwrap s q)).
Proof.
  repeat split; intros s q r; unfold gez_unwrap, pos_unwrap, neg_unwrap;
    match goal with |- (if ?c then _ else _) <> _ => destruct c; discriminate end.
Qed.
Lemma norej_ops a b : norej (a_add exact a b) /\ norej (a_sub exact a b) /\ norej (a_mul exact a b) /\ norej (a_div exact a b).
Proof. repeat split; intros r; cbn; try discriminate. destruct (Qceqb b 0); discriminate. Qed.

Ltac nr :=
  repeat first
    [ apply norej_ok | apply norej_panic
    | apply norej_bind; [|intros ?]
    | apply (proj1 (norej_ops _ _)) | apply (proj1 (proj2 (norej_ops _ _)))
    | apply (proj1 (proj2 (proj2 (norej_ops _ _)))) | apply (proj2 (proj2 (proj2 (norej_ops _ _))))
    | apply (proj1 norej_unwrap) | apply (proj1 (proj2 norej_unwrap)) | apply (proj2 (proj2 norej_unwrap)) ].

Lemma norej_gez a b : norej (gez_add exact a b) /\ norej (gez_mul exact a b) /\ norej (gez_div exact a b).
Proof. unfold gez_add, gez_mul, gez_div. repeat split; nr. Qed.
Lemma norej_pos a b : norej (pos_mul exact a b) /\ norej (pos_div exact a b) /\ norej (neg_mul exact a b)
                      /\ norej (neg_div exact a b) /\ norej (neg_mul_pos exact a b).
Proof. unfold pos_mul, pos_div, neg_mul, neg_div, neg_mul_pos. repeat split; nr. Qed.

Lemma norej_local_value sh aps rate : norej (local_value exact sh aps rate).
Proof. unfold local_value. apply norej_bind; [apply norej_gez | intros; apply norej_gez]. Qed.
Lemma norej_per_share s : norej (per_share_acb exact s).
Proof.
  unfold per_share_acb. destruct (s_acb s); [|nr]. destruct (Qcltb _ _); [|nr].
  apply norej_bind; [apply norej_gez | intros; nr].
Qed.

Ltac nrx0 E :=
  exfalso;
  first [ eapply (proj1 (norej_gez _ _)); exact E
        | eapply (proj1 (proj2 (norej_gez _ _))); exact E
        | eapply (proj2 (proj2 (norej_gez _ _))); exact E
        | eapply (proj1 (norej_pos _ _)); exact E
        | eapply (proj1 (proj2 (norej_pos _ _))); exact E
        | eapply (proj1 (proj2 (proj2 (norej_pos _ _)))); exact E
        | eapply (proj1 (proj2 (proj2 (proj2 (norej_pos _ _))))); exact E
        | eapply (proj2 (proj2 (proj2 (proj2 (norej_pos _ _))))); exact E
        | eapply (proj1 norej_unwrap); exact E
        | eapply (proj1 (proj2 norej_unwrap)); exact E
        | eapply (proj2 (proj2 norej_unwrap)); exact E
        | eapply norej_local_value; exact E
        | eapply norej_per_share; exact E
        | unfold split_factor in E; eapply (proj1 (proj2 (norej_pos _ _))); exact E ].

Ltac bnr0 H :=
  match type of H with
  | bind ?m _ = Rej _ =>
      let E := fresh "E" in
      destruct m eqn:E; cbn [bind] in H; [ | nrx0 E | discriminate H ]
  end.

Lemma bwd_scan_norej first dflt bef adj s : norej (bwd_scan exact first dflt bef adj s).
Proof.
  revert adj s. induction bef as [|x bef IH]; intros adj s; cbn [bwd_scan]; [nr|].
  destruct (Z.ltb _ _); [nr|]. destruct (t_act x); try apply IH.
  - apply norej_bind; [apply norej_pos|intros]. apply norej_bind; [apply norej_gez|intros]. apply IH.
  - apply norej_bind; [unfold split_factor; apply norej_pos|intros].
    apply norej_bind; [apply norej_pos|intros]. apply IH.
Qed.

Lemma fwd_scan_rej last dflt aft adj s r :
  fwd_scan exact last dflt aft adj s = Rej r -> r = RejAheadAllNegative \/ r = RejAheadAfNegative.
Proof.
  revert adj s. induction aft as [|x aft IH]; intros adj s H; cbn [fwd_scan] in H; [discriminate|].
  destruct (Z.ltb _ _); [discriminate|].
  destruct (t_act x); try (eapply IH; exact H).
  - bnr0 H. bnr0 H. bnr0 H. bnr0 H. eapply IH; exact H.
  - bnr0 H. cbn [a_sub exact bind] in H.
    destruct (Qcltb _ 0); [inversion H; left; reflexivity|].
    destruct (Qcltb _ 0); [inversion H; right; reflexivity|].
    eapply IH; exact H.
  - bnr0 H. bnr0 H. eapply IH; exact H.
Qed.

Lemma sum_buyers_norej active l acc : norej (sum_buyers exact active l acc).
Proof.
  revert acc. induction l as [|a l IH]; intros acc; cbn [sum_buyers]; [nr|].
  apply norej_bind; [apply norej_gez | intros; apply IH].
Qed.
Lemma portions_norej active total l : norej (portions active total l).
Proof.
  induction l as [|a l IH]; cbn [portions]; [nr|]. destruct (alookup _ _); [|nr].
  apply norej_bind; [exact IH | intros; nr].
Qed.
Lemma sfl_ratio_norej sold ms : norej (sfl_ratio exact sold ms).
Proof.
  unfold sfl_ratio. destruct ms as [s|]; [|nr]. destruct (sc_buyers s); [nr|].
  apply norej_bind; [apply sum_buyers_norej|intros total].
  apply norej_bind; [destruct (Qcltb 0 total); [apply portions_norej | nr] | intros; nr].
Qed.
Lemma gen_sfla_norej t loss ps : norej (gen_sfla exact t loss ps).
Proof.
  induction ps as [|[af [n d]] ps IH]; cbn [gen_sfla]; [nr|].
  destruct (_ && _); [|exact IH].
  apply norej_bind; [apply norej_ops|intros]. apply norej_bind; [apply norej_unwrap|intros].
  apply norej_bind; [apply norej_unwrap|intros]. apply norej_bind; [apply norej_pos|intros].
  apply norej_bind; [apply norej_pos|intros]. apply norej_bind; [exact IH|intros]. nr.
Qed.
Lemma eff_cent_norej d : norej (eff_cent exact d).
Proof. unfold eff_cent. cbn [a_sub exact bind]. destruct (Qcltb _ _); nr. Qed.

Ltac nrx E :=
  first [ nrx0 E
        | exfalso; eapply sfl_ratio_norej; exact E
        | exfalso; eapply gen_sfla_norej; exact E
        | exfalso; eapply bwd_scan_norej; exact E ].

Ltac bnr H :=
  match type of H with
  | bind ?m _ = Rej _ =>
      let E := fresh "E" in
      destruct m eqn:E; cbn [bind] in H; [ | nrx E | discriminate H ]
  end.

(* ---- the state invariant ---- *)
Section Inv.
  Variable regof : N -> bool.                 (* registered flag of an affiliate id *)
  Definition af_ok (a : aff) : Prop := af_reg a = regof (af_id a).

  Definition st_inv (st : pstate) : Prop :=
    st_ok st /\ st_sum st /\
    (forall k s, alookup k (ps_map st) = Some s -> is_none (s_acb s) = regof k) /\
    s_all (latest_post_status st) = ps_all st.

  Lemma member_le_total k s m :
    Forall (fun kv => status_ok (snd kv)) m -> alookup k m = Some s ->
    s_sh s <= total_shares (abs_map m).
  Proof.
    induction m as [|[k' s'] m IH]; intros HF H; [discriminate|].
    cbn [alookup] in H.
    change (abs_map ((k', s') :: m)) with ((k', hold_of s') :: abs_map m). cbn [total_shares].
    apply Forall_cons_iff in HF as [[Hs' _] HF]. cbn [snd] in Hs'.
    assert (Ht : 0 <= total_shares (abs_map m)).
    { clear -HF. induction m as [|[a b] m IH]; [apply Qcle_refl|].
      change (abs_map ((a, b) :: m)) with ((a, hold_of b) :: abs_map m). cbn [total_shares].
      apply Forall_cons_iff in HF as [[Hb _] HF]. cbn [snd] in Hb. specialize (IH HF).
      unfold hold_of. cbn [fst]. qc_lra. }
    unfold hold_of. cbn [fst]. destruct (N.eqb k k').
    - inversion H; subst. qc_lra.
    - specialize (IH HF H). qc_lra.
  Qed.

  Lemma last_sh_le_all st af : st_inv st -> last_sh st af <= ps_all st /\ 0 <= last_sh st af.
  Proof.
    intros ((HF & Hall) & Hsum & _ & _). unfold last_sh, latest_for.
    destruct (alookup (af_id af) (ps_map st)) as [s|] eqn:E.
    - split.
      + rewrite Hsum. eapply member_le_total; eauto.
      + eapply (alookup_Forall status_ok) in E; [|exact HF]. destruct E as (E1 & _ & _). exact E1.
    - split; [exact Hall | apply Qcle_refl].
  Qed.

  Lemma next_pre_acb st af : st_inv st -> af_ok af -> is_none (s_acb (next_pre_status st af)) = af_reg af.
  Proof.
    intros (_ & _ & Hreg & _) Haf. unfold next_pre_status, latest_for.
    destruct (alookup (af_id af) (ps_map st)) as [s|] eqn:E.
    - destruct (Qceqb _ _); cbn [s_acb]; rewrite (Hreg _ _ E); symmetry; exact Haf.
    - unfold default_status. destruct (Qceqb _ _); cbn [s_acb]; destruct (af_reg af); reflexivity.
  Qed.

  Lemma sanity_never_rejects st af :
    st_inv st -> af_ok af -> sanity_check (next_pre_status st af) af = Ok tt.
  Proof.
    intros Hinv Haf. unfold sanity_check. rewrite next_pre_all, next_pre_sh.
    destruct (last_sh_le_all st af Hinv) as [Hle _].
    destruct (Qcltb_spec (ps_all st) (last_sh st af)) as [Hlt|_];
      [exfalso; apply (Qcle_not_lt _ _ Hle Hlt)|].
    pose proof (next_pre_acb st af Hinv Haf) as Hn.
    destruct (af_reg af); destruct (s_acb (next_pre_status st af)); cbn in *; try discriminate; reflexivity.
  Qed.

  (* ---- one row ---- *)
  Lemma sfl_info_rej bef t sold aft st r n price com rate crate c :
    st_inv st -> sell_core exact (next_pre_status st (t_af t)) n price com rate crate = Ok c ->
    sold = n ->
    sfl_info exact bef t sold aft st = Rej r -> listed r.
  Proof.
    intros Hinv Hc -> H. unfold sfl_info in H. cbn [a_sub exact bind] in H.
    destruct Hinv as (Hok & Hsum & Hreg & Hlatest).
    (* sell_core succeeded: both differences are non-negative *)
    unfold sell_core in Hc. cbn [a_sub exact bind] in Hc.
    rewrite next_pre_all, next_pre_sh in Hc.
    destruct (Qcltb_spec (last_sh st (t_af t) - n) 0) as [|Hsh]; [discriminate|].
    rewrite (all_after_exact_as _ _ _ (ps_all st - n)) in Hc by ring. cbn [bind] in Hc.
    destruct (Qcltb_spec (ps_all st - n) 0) as [|Hal]; [discriminate|].
    rewrite Hlatest in H.
    destruct (Qcltb_spec (ps_all st - n) 0) as [|_]; [contradiction|].
    fold (last_sh st (t_af t)) in H.
    destruct (Qcltb_spec (last_sh st (t_af t) - n) 0) as [|_]; [contradiction|].
    destruct (fwd_scan exact _ _ aft [] _) as [s1| r1 |] eqn:E1; cbn [bind] in H; try discriminate H.
    - destruct (negb _); [discriminate|].
      destruct (bwd_scan exact _ _ bef [] s1) as [s2| r2 |] eqn:E2; cbn [bind] in H; try discriminate H.
      + destruct (Qcltb _ _); discriminate.
      + nrx E2.
    - inversion H; subst. apply fwd_scan_rej in E1 as [->| ->]; exact I.
  Qed.

  Lemma delta_sfl_rej bef t sold spec aft st loss r n price com rate crate c :
    st_inv st -> sell_core exact (next_pre_status st (t_af t)) n price com rate crate = Ok c -> sold = n ->
    delta_sfl exact bef t sold spec aft st loss = Rej r -> listed r.
  Proof.
    intros Hinv Hc Hs H. unfold delta_sfl in H.
    destruct (sfl_info exact bef t sold aft st) as [i| r0 |] eqn:Ei; cbn [bind] in H; try discriminate H.
    2: { inversion H; subst. eapply sfl_info_rej; eauto. }
    destruct (sfl_ratio exact sold i) as [m| r0 |] eqn:Em; cbn [bind] in H; try discriminate H;
      [|nrx Em].
    match type of H with bind ?c _ = _ => destruct c as [calc| r0 |] eqn:Ec end; cbn [bind] in H; try discriminate H.
    2: { exfalso. destruct m as [rr|]; [|discriminate Ec].
         revert Ec. generalize r0. change (norej (q <- a_div exact (sr_num rr) (sr_den rr);;
                                                   q1 <- pos_unwrap Site.ratio_to_pos q;;
                                                   l <- neg_mul_pos exact loss q1;;
                                                   c0 <- eff_cent exact l;; lez_unwrap Site.eff_cent c0)).
         apply norej_bind; [apply norej_ops|intros]. apply norej_bind; [apply norej_unwrap|intros].
         apply norej_bind; [apply norej_pos|intros]. apply norej_bind; [apply eff_cent_norej|intros].
         unfold lez_unwrap. destruct (Qcltb _ _); nr. }
    destruct spec as [[sv force]|].
    - destruct force; cbn [bind a_sub exact] in H.
      + destruct (negb _); [discriminate|].
        destruct (neg_div exact sv loss) eqn:E1; cbn [bind] in H; try discriminate H;
          [|nrx E1].
        destruct (pos_mul exact _ sold) eqn:E2; cbn [bind] in H; try discriminate H.
        nrx E2.
      + destruct (Qcltb _ _); cbn [bind] in H; [inversion H; exact I|].
        destruct (negb _); [discriminate|].
        destruct (neg_div exact sv loss) eqn:E1; cbn [bind] in H; try discriminate H;
          [|nrx E1].
        destruct (pos_mul exact _ sold) eqn:E2; cbn [bind] in H; try discriminate H.
        nrx E2.
    - destruct m as [rr|]; [|discriminate H].
      destruct (negb (Qcltb calc 0)); [discriminate H|].
      destruct (gen_sfla exact t _ _) eqn:E2; cbn [bind] in H; try discriminate H.
      nrx E2.
  Qed.

  Theorem delta_for_tx_rej_listed bef t aft st r :
    delta_for_tx exact bef t aft st = Rej r -> st_inv st -> af_ok (t_af t) -> listed r.
  Proof.
    intros H Hinv Haf. unfold delta_for_tx in H.
    rewrite (sanity_never_rejects st (t_af t) Hinv Haf) in H. cbn [bind] in H.
    pose proof (next_pre_acb st (t_af t) Hinv Haf) as Hacb.
    destruct (last_sh_le_all st (t_af t) Hinv) as [Hle Hnn].
    destruct (t_act t) as [n price com rate crate | n price com rate crate sp | amount rate
                          | n amount | post pre_ io] eqn:Ea.
    - (* Buy *)
      destruct (delta_nonsell exact t _) as [d0|r0|p0] eqn:Ed; cbn [bind] in H; try discriminate H.
      inversion H; subst r0; clear H. rename Ed into H.
      unfold delta_nonsell in H. rewrite Ea in H.
      bnr H. rewrite all_after_exact in H. cbn [bind] in H.
      bnr H. destruct (s_acb _); cbn [bind] in H; [|discriminate H].
      bnr H. bnr H. bnr H. bnr H. discriminate H.
    - (* Sell *)
      destruct (sell_core exact _ n price com rate crate) as [c| r0 |] eqn:Ec; cbn [bind] in H; try discriminate H.
      + destruct (sc_gain c) as [g|]; [|discriminate H].
        destruct (Qcltb g 0).
        * destruct (delta_sfl exact bef t n sp aft st g) as [m| r0 |] eqn:Es; cbn [bind] in H; try discriminate H.
          -- destruct m as [[info inj]|]; [|discriminate H]. cbn [a_sub exact bind] in H. discriminate H.
          -- inversion H; subst. eapply delta_sfl_rej; eauto.
        * destruct sp; [inversion H; exact I | discriminate H].
      + inversion H; subst. unfold sell_core in Ec. cbn [a_sub exact bind] in Ec.
        rewrite next_pre_all, next_pre_sh in Ec.
        destruct (Qcltb_spec (last_sh st (t_af t) - n) 0) as [|Hsh]; [inversion Ec; exact I|].
        rewrite (all_after_exact_as _ _ _ (ps_all st - n)) in Ec by ring. cbn [bind] in Ec.
        destruct (Qcltb_spec (ps_all st - n) 0) as [Hlt|_].
        { exfalso. apply Qcnot_lt_le in Hsh. qc_lra. }
        bnr Ec. destruct a as [aps_|]; [|discriminate Ec].
        bnr Ec. bnr Ec. bnr Ec. cbn [a_sub a_mul exact bind] in Ec. discriminate Ec.
    - (* RoC *)
      destruct (delta_nonsell exact t _) as [d0|r0|p0] eqn:Ed; cbn [bind] in H; try discriminate H.
      inversion H; subst r0; clear H. rename Ed into H.
      unfold delta_nonsell in H. rewrite Ea in H.
      destruct (s_acb _) as [old|] eqn:Eo; cbn [bind] in H.
      + destruct (af_reg _); cbn [bind] in H; [discriminate H|].
        bnr H. bnr H. cbn [a_sub exact bind] in H. destruct (Qcltb _ _); inversion H; exact I.
      + destruct (negb _); cbn [bind] in H; inversion H; exact I.
    - (* SfLA *)
      destruct (delta_nonsell exact t _) as [d0|r0|p0] eqn:Ed; cbn [bind] in H; try discriminate H.
      inversion H; subst r0; clear H. rename Ed into H.
      unfold delta_nonsell in H. rewrite Ea in H.
      destruct (s_acb _) as [old|] eqn:Eo; cbn [bind] in H.
      + destruct (af_reg _); cbn [bind] in H; [discriminate H|].
        cbn [a_mul exact bind] in H. bnr H. bnr H. discriminate H.
      + destruct (negb _); cbn [bind] in H; inversion H; exact I.
    - (* Split *)
      destruct (delta_nonsell exact t _) as [d0|r0|p0] eqn:Ed; cbn [bind] in H; try discriminate H.
      inversion H; subst r0; clear H. rename Ed into H.
      unfold delta_nonsell in H. rewrite Ea in H.
      cbn [a_mul a_div exact] in H. destruct (Qceqb pre_ 0); cbn [bind] in H; [discriminate H|].
      unfold gez_unwrap in H. rewrite next_pre_sh, next_pre_all in H.
      destruct (Qcleb_spec 0 (last_sh st (t_af t) * post / pre_)) as [Hq|]; cbn [bind] in H; [|discriminate H].
      rewrite all_after_exact in H. cbn [bind] in H.
      destruct (Qcltb_spec (ps_all st + (last_sh st (t_af t) * post / pre_ - last_sh st (t_af t))) 0) as [Hlt|_].
      { exfalso. qc_lra. }
      destruct (_ && _); inversion H; exact I.
  Qed.
End Inv.

(* ---- affiliates of generated rows come from the input rows ---- *)
Section AffPred.
  Variable P : aff -> Prop.

  Lemma add_aff_P a l : P a -> Forall P l -> Forall P (add_aff a l).
  Proof.
    intros Ha. induction l as [|b l IH]; cbn [add_aff]; intros HF.
    - constructor; [assumption | constructor].
    - destruct (aff_eqb a b); [assumption|]. apply Forall_cons_iff in HF as [Hb HF]. constructor; auto.
  Qed.
  Lemma ins_aff_P a l : P a -> Forall P l -> Forall P (ins_aff a l).
  Proof.
    intros Ha. induction l as [|b l IH]; cbn [ins_aff]; intros HF.
    - constructor; [assumption | constructor].
    - destruct (N.leb _ _); [constructor; assumption|]. apply Forall_cons_iff in HF as [Hb HF]. constructor; auto.
  Qed.
  Lemma sort_affs_P l : Forall P l -> Forall P (sort_affs l).
  Proof.
    unfold sort_affs. induction l as [|a l IH]; cbn [fold_right]; intros HF; [constructor|].
    apply Forall_cons_iff in HF as [Ha HF]. apply ins_aff_P; auto.
  Qed.
  Definition txP (t : tx) : Prop := P (t_af t).

  Lemma fwd_scan_P A last dflt aft adj s s' :
    fwd_scan A last dflt aft adj s = Ok s' -> Forall txP aft -> Forall P (sc_buyers s) -> Forall P (sc_buyers s').
  Proof.
    revert adj s. induction aft as [|t aft IH]; cbn [fwd_scan]; intros adj s H HF Hb.
    - inversion H; subst; assumption.
    - apply Forall_cons_iff in HF as [Ht HF].
      destruct (Z.ltb last (t_sd t)); [inversion H; subst; assumption|].
      destruct (t_act t).
      + bind_as H as b E1. bind_as H as eop E2. bind_as H as na E3. bind_as H as acq E4.
        eapply IH; eauto. cbn. apply add_aff_P; assumption.
      + bind_as H as b E1. bind_as H as eop E2. destruct (Qcltb eop 0); [discriminate|].
        bind_as H as na E3. destruct (Qcltb na 0); [discriminate|]. eapply IH; eauto.
      + eapply IH; eauto.
      + eapply IH; eauto.
      + bind_as H as f E1. bind_as H as nsa E2. eapply IH; eauto.
  Qed.
  Lemma bwd_scan_P A first dflt bef adj s s' :
    bwd_scan A first dflt bef adj s = Ok s' -> Forall txP bef -> Forall P (sc_buyers s) -> Forall P (sc_buyers s').
  Proof.
    revert adj s. induction bef as [|t bef IH]; cbn [bwd_scan]; intros adj s H HF Hb.
    - inversion H; subst; auto.
    - apply Forall_cons_iff in HF as [Ht HF].
      destruct (Z.ltb (t_sd t) first); [inversion H; subst; auto|].
      destruct (t_act t).
      + bind_as H as b E1. bind_as H as acq E2. eapply IH in H; eauto. cbn. apply add_aff_P; assumption.
      + eapply IH; eauto.
      + eapply IH; eauto.
      + eapply IH; eauto.
      + bind_as H as f E1. bind_as H as nsa E2. eapply IH; eauto.
  Qed.
  Lemma portions_P active total l ps :
    portions active total l = Ok ps -> Forall P l -> Forall (fun p => P (fst p)) ps.
  Proof.
    revert ps. induction l as [|a l IH]; cbn [portions]; intros ps H HF.
    - inversion H; constructor.
    - apply Forall_cons_iff in HF as [Ha HF]. destruct (alookup _ _); [|discriminate].
      bind_as H as rest Er. inversion H; subst. constructor; [exact Ha | eapply IH; eauto].
  Qed.
  Lemma gen_sfla_P A t loss ps l :
    gen_sfla A t loss ps = Ok l -> Forall (fun p => P (fst p)) ps -> Forall txP l.
  Proof.
    revert l. induction ps as [|[af [n dn]] ps IH]; cbn [gen_sfla]; intros l H HF.
    - inversion H; constructor.
    - apply Forall_cons_iff in HF as [Ha HF]. cbn [fst] in Ha.
      destruct (negb (Qceqb n 0) && negb (af_reg af)).
      + bind_as H as q Eq. bind_as H as q1 Eq1. bind_as H as q2 Eq2. bind_as H as m Em.
        bind_as H as amt Ea. bind_as H as rest Er. inversion H; subst l.
        constructor; [exact Ha | eapply IH; eauto].
      + eauto.
  Qed.

  Lemma delta_for_tx_inj_P A bef t aft st d inj :
    delta_for_tx A bef t aft st = Ok (d, inj) -> Forall txP bef -> Forall txP aft -> Forall txP inj.
  Proof.
    unfold delta_for_tx. intros H Hb Ha. bind_as H as u Eu.
    destruct (t_act t) as [n price com rate crate | n price com rate crate sp | amount rate
                          | n amount | post pre_ io];
      try (bind_as H as d0 Ed; inversion H; constructor).
    bind_as H as c Ec. destruct (sc_gain c) as [g|]; [|inversion H; constructor].
    destruct (Qcltb g 0).
    - bind_as H as m Em. destruct m as [[info inj']|]; [|inversion H; constructor].
      bind_as H as g' Eg. inversion H; subst. clear H.
      unfold delta_sfl in Em. bind_as Em as i Ei. bind_as Em as mm Emm. bind_as Em as calc Ecalc.
      destruct sp as [[sv force]|].
      + bind_as Em as u0 Eu0. destruct (negb (Qcltb sv 0)); [discriminate|].
        bind_as Em as q Eq. bind_as Em as nn En. inversion Em; constructor.
      + destruct mm as [r|]; [|discriminate].
        destruct (negb (Qcltb calc 0)); [discriminate|].
        bind_as Em as txs Et. inversion Em; subst.
        eapply gen_sfla_P; eauto.
        (* portions of r: affiliates are buyers of the scan *)
        unfold sfl_info in Ei.
        bind_as Ei as all0 E0. destruct (Qcltb all0 0); [discriminate|].
        bind_as Ei as af0 E1. destruct (Qcltb af0 0); [discriminate|].
        bind_as Ei as s1 E2. destruct (negb _); [inversion Ei; subst; discriminate Emm|].
        bind_as Ei as s2 E3. destruct (Qcltb 0 (sc_acq s2)); [|inversion Ei; subst; discriminate Emm].
        inversion Ei; subst i. unfold sfl_ratio in Emm.
        destruct (sc_buyers s2) as [|b0 bs] eqn:Eb; [discriminate|]. rewrite <- Eb in *.
        bind_as Emm as total Es. bind_as Emm as ps Ep. inversion Emm; subst r. cbn [sr_portions].
        destruct (Qcltb 0 total); [|inversion Ep; constructor].
        eapply portions_P; eauto. apply sort_affs_P.
        eapply bwd_scan_P; eauto. eapply fwd_scan_P; eauto. constructor.
    - destruct sp; [discriminate|]. inversion H; constructor.
  Qed.
End AffPred.

Lemma In_firstn {T} (x : T) n l : In x (firstn n l) -> In x l.
Proof.
  revert l. induction n as [|n IH]; intros l H; [contradiction|].
  destruct l as [|y l]; [contradiction|]. cbn [firstn] in H. destruct H as [->|H]; [left; reflexivity | right; apply IH; exact H].
Qed.

(* ---- whole runs ---- *)
Section Runs.
  Variable regof : N -> bool.
  Hypothesis regof_default : regof default_id = false.

  Lemma set_latest_inv st af v st' :
    set_latest exact st af v = Ok st' -> st_inv regof st -> status_ok v -> af_ok regof af -> st_inv regof st'.
  Proof.
    intros H (Hok & Hsum & Hreg & Hl) Hv Haf.
    pose proof (set_latest_ok exact _ _ _ _ H Hok Hv) as Hok'.
    pose proof (set_latest_sum _ _ _ _ H Hsum) as (Hm & _ & Hsum').
    unfold set_latest in H. rewrite all_after_exact in H. cbn [bind] in H.
    destruct (Bool.eqb (af_reg af) (is_none (s_acb v))) eqn:Eb; cbn [negb] in H; [|discriminate].
    destruct (negb _); [discriminate|]. inversion H; subst st'; clear H.
    split; [exact Hok'|]. split; [exact Hsum'|]. split.
    - intros k s Hk. cbn [ps_map] in Hk. rewrite alookup_aupdate in Hk.
      destruct (N.eqb k (af_id af)) eqn:E.
      + apply N.eqb_eq in E. subst k. inversion Hk; subst s.
        apply Bool.eqb_prop in Eb. rewrite <- Eb. exact Haf.
      + apply Hreg. exact Hk.
    - unfold latest_post_status, latest_for. cbn [ps_map ps_latest ps_all].
      rewrite alookup_aupdate, N.eqb_refl. reflexivity.
  Qed.

  Definition row_ok' (t : tx) : Prop := af_ok regof (t_af t).

  Lemma run_injected_inv bef st inj aft ds bef' st' o :
    run_injected exact bef st inj aft = (ds, bef', st', o) ->
    st_inv regof st -> Forall row_ok' inj ->
    st_inv regof st' /\ (forall r, o = Some (SRej r) -> listed r) /\ bef' = rev (firstn (length ds) inj) ++ bef.
  Proof.
    revert bef st ds bef' st' o. induction inj as [|t inj IH]; intros bef st ds bef' st' o H Hinv HF;
      cbn [run_injected] in H.
    - inversion H; subst. split; [assumption|]. split; [intros r Hr; discriminate | reflexivity].
    - apply Forall_cons_iff in HF as [Ht HF].
      destruct (delta_for_tx exact bef t (inj ++ aft) st) as [[d i]| r0 |] eqn:Ed.
      + pose proof (delta_for_tx_ok exact _ _ _ _ _ _ Ed (proj1 Hinv)) as [Htx (Hrow & _)].
        destruct (set_latest exact st (t_af t) (d_post d)) as [st1| r1 |] eqn:Es.
        * destruct (run_injected exact (t :: bef) st1 inj aft) as [[[ds1 b1] s1] o1] eqn:Er.
          inversion H; subst; clear H.
          assert (Hinv1 : st_inv regof st1) by (eapply set_latest_inv; eauto).
          destruct (IH _ _ _ _ _ _ Er Hinv1 HF) as (I1 & I2 & I3).
          split; [assumption|]. split; [assumption|]. cbn [length firstn rev]. rewrite I3, <- app_assoc. reflexivity.
        * exfalso. unfold set_latest in Es. rewrite all_after_exact in Es. cbn [bind] in Es.
          destruct (negb _); [discriminate|]. destruct (negb _); discriminate.
        * inversion H; subst. split; [assumption|]. split; [intros r Hr; discriminate | reflexivity].
      + inversion H; subst. split; [assumption|]. split; [|reflexivity].
        intros r Hr. inversion Hr; subst. eapply delta_for_tx_rej_listed; eauto.
      + inversion H; subst. split; [assumption|]. split; [intros r Hr; discriminate | reflexivity].
  Qed.

  Lemma run_loop_rej bef st aft ds r :
    run_loop exact bef st aft = (ds, Some (SRej r)) ->
    st_inv regof st -> Forall row_ok' aft -> Forall row_ok' bef -> listed r.
  Proof.
    revert bef st ds. induction aft as [|t aft IH]; intros bef st ds H Hinv HF Hb; cbn [run_loop] in H.
    - discriminate.
    - apply Forall_cons_iff in HF as [Ht HF].
      destruct (delta_for_tx exact bef t aft st) as [[d inj]| r0 |] eqn:Ed.
      + pose proof (delta_for_tx_ok exact _ _ _ _ _ _ Ed (proj1 Hinv)) as [Htx (Hrow & _)].
        pose proof (delta_for_tx_inj_P (af_ok regof) exact _ _ _ _ _ _ Ed Hb HF) as Hinj.
        destruct (set_latest exact st (t_af t) (d_post d)) as [st1| r1 |] eqn:Es.
        * assert (Hinv1 : st_inv regof st1) by (eapply set_latest_inv; eauto).
          destruct (run_injected exact (t :: bef) st1 inj aft) as [[[dsi b1] st2] o1] eqn:Er.
          destruct (run_injected_inv _ _ _ _ _ _ _ _ Er Hinv1 Hinj) as (I1 & I2 & I3).
          destruct o1 as [s1|].
          -- inversion H; subst. apply I2. reflexivity.
          -- destruct (run_loop exact b1 st2 aft) as [ds2 o2] eqn:El. inversion H; subst.
             eapply IH; eauto. apply Forall_app. split.
             ++ apply Forall_rev. apply Forall_forall. intros x Hx.
                rewrite Forall_forall in Hinj. apply Hinj. eapply In_firstn. exact Hx.
             ++ constructor; assumption.
        * exfalso. unfold set_latest in Es. rewrite all_after_exact in Es. cbn [bind] in Es.
          destruct (negb _); [discriminate|]. destruct (negb _); discriminate.
        * discriminate.
      + inversion H; subst. eapply delta_for_tx_rej_listed; eauto.
      + discriminate.
  Qed.

  Definition init_ok' (init : option status) : Prop :=
    forall i, init = Some i -> status_ok i /\ s_acb i <> None.

  Theorem run_rej_listed init txs ds r :
    run exact init txs = (ds, Some (SRej r)) ->
    init_ok' init -> Forall row_ok' txs -> listed r.
  Proof.
    unfold run. destruct txs as [|t txs]; intros H Hi HF; [discriminate|].
    destruct (init_state exact init) as [st| r0 |] eqn:Ei.
    - assert (Hinv : st_inv regof st).
      { unfold init_state in Ei. destruct init as [i|].
        - destruct (negb _); [discriminate|]. destruct (Hi i eq_refl) as [Hs Ha].
          eapply set_latest_inv; [exact Ei| |exact Hs|].
          + split; [split; cbn; [constructor | apply Qcle_refl]|].
            split; [reflexivity|]. split; [intros k s Hk; discriminate | reflexivity].
          + unfold af_ok. cbn. symmetry. exact regof_default.
        - inversion Ei; subst.
          split; [split; cbn; [constructor | apply Qcle_refl]|].
          split; [reflexivity|]. split; [intros k s Hk; discriminate | reflexivity]. }
      eapply (run_loop_rej [] st (t :: txs) ds r H Hinv HF). constructor.
    - exfalso. unfold init_state in Ei. destruct init as [i|]; [|discriminate].
      destruct (negb _); [discriminate|]. unfold set_latest in Ei. rewrite all_after_exact in Ei. cbn [bind] in Ei.
      destruct (negb _); [discriminate|]. destruct (negb _); discriminate.
    - discriminate.
  Qed.
End Runs.
