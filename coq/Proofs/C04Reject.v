(* C04 part B: under exact arithmetic, on rows that parse (valid quantities,
   registered flag determined by the affiliate), the ONLY rejections the
   ledger can raise are the ones the property lists: a sale of more shares
   than the affiliate holds (at the row, or found ahead inside the 30-day
   window of a loss sale), a return of capital above the cost base, a return
   of capital or cost-base adjustment on a registered affiliate, a whole-number
   reverse split leaving a fraction, a declared superficial loss on a non-loss
   or contradicting the computed one.  The internal sanity rejections are
   unreachable. *)
From Coq Require Import List NArith ZArith QArith Qcanon Bool Lia.
From ACB Require Import Base.Outcome Base.QcExtra Base.Fit Base.Arith Model.Tx Model.Ledger Model.Sfl
     Model.DeltaList Spec.AvgCost Proofs.Tactics Proofs.C01Refine Proofs.C04Inv Proofs.C04Sum Proofs.C05Sites.
Import ListNotations.
Local Open Scope Qc_scope.

Definition listed (r : rej) : Prop :=
  match r with
  | RejOversale | RejRocExceeds | RejRocRegistered | RejSflaRegistered | RejRevSplitFraction
  | RejSflNoLoss | RejSflMismatch | RejAheadAllNegative | RejAheadAfNegative => True
  | _ => False
  end.

(* ---- computations that never reject ---- *)
Definition norej {T} (m : res T) : Prop := forall r, m <> Rej r.

Lemma norej_bind {T U} (m : res T) (f : T -> res U) :
  norej m -> (forall x, norej (f x)) -> norej (bind m f).
Proof. intros Hm Hf r. destruct m; cbn [bind]; [apply Hf | apply Hm | discriminate]. Qed.
Lemma norej_ok {T} (x : T) : norej (Ok x). Proof. intros r; discriminate. Qed.
Lemma norej_panic {T} p : norej (@Panic T p). Proof. intros r; discriminate. Qed.

Lemma norej_unwrap : (forall s q, norej (gez_unwrap s q)) /\ (forall s q, norej (pos_unwrap s q)) /\ (forall s q, norej (neg_unwrap s q)).
Proof.
  repeat split; intros s q r; unfold gez_unwrap, pos_unwrap, neg_unwrap;
    match goal with |- (if ?c then _ else _) <> _ => destruct c; discriminate end.
Qed.
Lemma norej_ops a b : norej (a_add exact a b) /\ norej (a_sub exact a b) /\ norej (a_mul exact a b) /\ norej (a_div exact a b).
Proof. repeat split; intros r; cbn; try discriminate. destruct (Qceqb b 0); discriminate. Qed.

Ltac nr :=
  repeat first
    [ apply norej_ok | apply norej_panic
    | apply norej_bind; [|intros ?]
    | apply (proj1 (norej_ops _ _)) | apply (proj1 (proj2 (norej_ops _ _)))
    | apply (proj1 (proj2 (proj2 (norej_ops _ _)))) | apply (proj2 (proj2 (proj2 (norej_ops _ _))))
    | apply (proj1 norej_unwrap) | apply (proj1 (proj2 norej_unwrap)) | apply (proj2 (proj2 norej_unwrap)) ].

Lemma norej_gez a b : norej (gez_add exact a b) /\ norej (gez_mul exact a b) /\ norej (gez_div exact a b).
Proof. unfold gez_add, gez_mul, gez_div. repeat split; nr. Qed.
Lemma norej_pos a b : norej (pos_mul exact a b) /\ norej (pos_div exact a b) /\ norej (neg_mul exact a b)
                      /\ norej (neg_div exact a b) /\ norej (neg_mul_pos exact a b).
Proof. unfold pos_mul, pos_div, neg_mul, neg_div, neg_mul_pos. repeat split; nr. Qed.

Lemma norej_local_value sh aps rate : norej (local_value exact sh aps rate).
Proof. unfold local_value. apply norej_bind; [apply norej_gez | intros; apply norej_gez]. Qed.
Lemma norej_per_share s : norej (per_share_acb exact s).
Proof.
  unfold per_share_acb. destruct (s_acb s); [|nr]. destruct (Qcltb _ _); [|nr].
  apply norej_bind; [apply norej_gez | intros; nr].
Qed.

Lemma bwd_scan_norej first dflt bef adj s : norej (bwd_scan exact first dflt bef adj s).
Proof.
  revert adj s. induction bef as [|x bef IH]; intros adj s; cbn [bwd_scan]; [nr|].
  destruct (Z.ltb _ _); [nr|]. destruct (t_act x); try apply IH.
  - apply norej_bind; [apply norej_pos|intros]. apply norej_bind; [apply norej_gez|intros]. apply IH.
  - apply norej_bind; [unfold split_factor; apply norej_pos|intros].
    apply norej_bind; [apply norej_pos|intros]. apply IH.
Qed.

Lemma fwd_scan_rej last dflt aft adj s r :
  fwd_scan exact last dflt aft adj s = Rej r -> r = RejAheadAllNegative \/ r = RejAheadAfNegative.
Proof.
  revert adj s. induction aft as [|x aft IH]; intros adj s H; cbn [fwd_scan] in H; [discriminate|].
  destruct (Z.ltb _ _); [discriminate|].
  destruct (t_act x); try (eapply IH; exact H).
  - destruct (gez_mul exact _ _) eqn:E1; cbn [bind] in H; try discriminate H;
      [|exfalso; eapply norej_gez; exact E1].
    destruct (gez_add exact _ _) eqn:E2; cbn [bind] in H; try discriminate H;
      [|exfalso; eapply norej_gez; exact E2].
    destruct (gez_add exact _ a) eqn:E3; cbn [bind] in H; try discriminate H;
      [|exfalso; eapply norej_gez; exact E3].
    destruct (gez_add exact (sc_acq s) a) eqn:E4; cbn [bind] in H; try discriminate H;
      [|exfalso; eapply norej_gez; exact E4].
    eapply IH; exact H.
  - destruct (gez_mul exact _ _) eqn:E1; cbn [bind] in H; try discriminate H;
      [|exfalso; eapply norej_gez; exact E1].
    cbn [a_sub exact bind] in H.
    destruct (Qcltb _ 0); [inversion H; left; reflexivity|].
    destruct (Qcltb _ 0); [inversion H; right; reflexivity|].
    eapply IH; exact H.
  - destruct (split_factor exact _ _) eqn:E1; cbn [bind] in H; try discriminate H;
      [|exfalso; eapply norej_pos; exact E1].
    destruct (pos_div exact _ _) eqn:E2; cbn [bind] in H; try discriminate H;
      [|exfalso; eapply norej_pos; exact E2].
    eapply IH; exact H.
Qed.

Lemma sum_buyers_norej active l acc : norej (sum_buyers exact active l acc).
Proof.
  revert acc. induction l as [|a l IH]; intros acc; cbn [sum_buyers]; [nr|].
  apply norej_bind; [apply norej_gez | intros; apply IH].
Qed.
Lemma portions_norej active total l : norej (portions active total l).
Proof.
  induction l as [|a l IH]; cbn [portions]; [nr|]. destruct (alookup _ _); [|nr].
  apply norej_bind; [exact IH | intros; nr].
Qed.
Lemma sfl_ratio_norej sold ms : norej (sfl_ratio exact sold ms).
Proof.
  unfold sfl_ratio. destruct ms as [s|]; [|nr]. destruct (sc_buyers s); [nr|].
  apply norej_bind; [apply sum_buyers_norej|intros total].
  apply norej_bind; [destruct (Qcltb 0 total); [apply portions_norej | nr] | intros; nr].
Qed.
Lemma gen_sfla_norej t loss ps : norej (gen_sfla exact t loss ps).
Proof.
  induction ps as [|[af [n d]] ps IH]; cbn [gen_sfla]; [nr|].
  destruct (_ && _); [|exact IH].
  apply norej_bind; [apply norej_ops|intros]. apply norej_bind; [apply norej_unwrap|intros].
  apply norej_bind; [apply norej_unwrap|intros]. apply norej_bind; [apply norej_pos|intros].
  apply norej_bind; [apply norej_pos|intros]. apply norej_bind; [exact IH|intros]. nr.
Qed.
Lemma eff_cent_norej d : norej (eff_cent exact d).
Proof. unfold eff_cent. cbn [a_sub exact bind]. destruct (Qcltb _ _); nr. Qed.

(* ---- the state invariant ---- *)
Section Inv.
  Variable regof : N -> bool.                 (* registered flag of an affiliate id *)
  Definition af_ok (a : aff) : Prop := af_reg a = regof (af_id a).

  Definition st_inv (st : pstate) : Prop :=
    st_ok st /\ st_sum st /\
    (forall k s, alookup k (ps_map st) = Some s -> is_none (s_acb s) = regof k) /\
    s_all (latest_post_status st) = ps_all st.

  Lemma member_le_total k s m :
    Forall (fun kv => status_ok (snd kv)) m -> alookup k m = Some s ->
    s_sh s <= total_shares (abs_map m).
  Proof.
    induction m as [|[k' s'] m IH]; cbn [alookup abs_map map total_shares fst snd]; intros HF H; [discriminate|].
    apply Forall_cons_iff in HF as [[Hs' _] HF]. cbn [snd] in Hs'.
    assert (Ht : 0 <= total_shares (abs_map m)).
    { clear -HF. induction m as [|[a b] m IH]; cbn [abs_map map total_shares fst snd]; [apply Qcle_refl|].
      apply Forall_cons_iff in HF as [[Hb _] HF]. cbn [snd hold_of fst] in *. specialize (IH HF).
      unfold abs_map in IH. qc_lra. }
    unfold hold_of. cbn [fst]. destruct (N.eqb k k').
    - inversion H; subst. unfold abs_map in Ht. qc_lra.
    - specialize (IH HF H). unfold abs_map in *. qc_lra.
  Qed.

  Lemma last_sh_le_all st af : st_inv st -> last_sh st af <= ps_all st /\ 0 <= last_sh st af.
  Proof.
    intros ((HF & Hall) & Hsum & _ & _). unfold last_sh, latest_for.
    destruct (alookup (af_id af) (ps_map st)) as [s|] eqn:E.
    - split.
      + rewrite Hsum. eapply member_le_total; eauto.
      + eapply (alookup_Forall status_ok) in E; [|exact HF]. apply E.
    - split; [exact Hall | apply Qcle_refl].
  Qed.

  Lemma next_pre_acb st af : st_inv st -> af_ok af -> is_none (s_acb (next_pre_status st af)) = af_reg af.
  Proof.
    intros (_ & _ & Hreg & _) Haf. unfold next_pre_status, latest_for.
    destruct (alookup (af_id af) (ps_map st)) as [s|] eqn:E.
    - destruct (Qceqb _ _); cbn [s_acb]; rewrite (Hreg _ _ E); symmetry; exact Haf.
    - unfold default_status. destruct (Qceqb _ _); cbn [s_acb]; destruct (af_reg af); reflexivity.
  Qed.

  Lemma sanity_never_rejects st af :
    st_inv st -> af_ok af -> sanity_check (next_pre_status st af) af = Ok tt.
  Proof.
    intros Hinv Haf. unfold sanity_check. rewrite next_pre_all, next_pre_sh.
    destruct (last_sh_le_all st af Hinv) as [Hle _].
    destruct (Qcltb_spec (ps_all st) (last_sh st af)) as [Hlt|_];
      [exfalso; apply (Qcle_not_lt _ _ Hle Hlt)|].
    pose proof (next_pre_acb st af Hinv Haf) as Hn.
    destruct (af_reg af); destruct (s_acb (next_pre_status st af)); cbn in *; try discriminate; reflexivity.
  Qed.

  (* ---- one row ---- *)
  Lemma sfl_info_rej bef t sold aft st r n price com rate crate c :
    st_inv st -> sell_core exact (next_pre_status st (t_af t)) n price com rate crate = Ok c ->
    sold = n ->
    sfl_info exact bef t sold aft st = Rej r -> listed r.
  Proof.
    intros Hinv Hc -> H. unfold sfl_info in H. cbn [a_sub exact bind] in H.
    destruct Hinv as (Hok & Hsum & Hreg & Hlatest).
    (* sell_core succeeded: both differences are non-negative *)
    unfold sell_core in Hc. cbn [a_sub exact bind] in Hc.
    rewrite next_pre_all, next_pre_sh in Hc.
    destruct (Qcltb_spec (last_sh st (t_af t) - n) 0) as [|Hsh]; [discriminate|].
    destruct (Qcltb_spec (ps_all st - n) 0) as [|Hal]; [discriminate|].
    rewrite Hlatest in H.
    destruct (Qcltb_spec (ps_all st - n) 0) as [|_]; [contradiction|].
    fold (last_sh st (t_af t)) in H.
    destruct (Qcltb_spec (last_sh st (t_af t) - n) 0) as [|_]; [contradiction|].
    destruct (fwd_scan exact _ _ aft [] _) as [s1| r1 |] eqn:E1; cbn [bind] in H; try discriminate H.
    - destruct (negb _); [discriminate|].
      destruct (bwd_scan exact _ _ bef [] s1) as [s2| r2 |] eqn:E2; cbn [bind] in H; try discriminate H.
      + destruct (Qcltb _ _); discriminate.
      + exfalso. eapply bwd_scan_norej; exact E2.
    - inversion H; subst. apply fwd_scan_rej in E1 as [->| ->]; exact I.
  Qed.

  Lemma delta_sfl_rej bef t sold spec aft st loss r n price com rate crate c :
    st_inv st -> sell_core exact (next_pre_status st (t_af t)) n price com rate crate = Ok c -> sold = n ->
    delta_sfl exact bef t sold spec aft st loss = Rej r -> listed r.
  Proof.
    intros Hinv Hc Hs H. unfold delta_sfl in H.
    destruct (sfl_info exact bef t sold aft st) as [i| r0 |] eqn:Ei; cbn [bind] in H; try discriminate H.
    2: { inversion H; subst. eapply sfl_info_rej; eauto. }
    destruct (sfl_ratio exact sold i) as [m| r0 |] eqn:Em; cbn [bind] in H; try discriminate H;
      [|exfalso; eapply sfl_ratio_norej; exact Em].
    match type of H with bind ?c _ = _ => destruct c as [calc| r0 |] eqn:Ec end; cbn [bind] in H; try discriminate H.
    2: { exfalso. destruct m as [rr|]; [|discriminate Ec].
         revert Ec. generalize r0. change (norej (q <- a_div exact (sr_num rr) (sr_den rr);;
                                                   q1 <- pos_unwrap Site.ratio_to_pos q;;
                                                   l <- neg_mul_pos exact loss q1;;
                                                   c0 <- eff_cent exact l;; neg_unwrap Site.eff_cent c0)).
         apply norej_bind; [apply norej_ops|intros]. apply norej_bind; [apply norej_unwrap|intros].
         apply norej_bind; [apply norej_pos|intros]. apply norej_bind; [apply eff_cent_norej|intros].
         apply norej_unwrap. }
    destruct spec as [[sv force]|].
    - destruct force; cbn [bind a_sub exact] in H.
      + destruct (negb _); [discriminate|].
        destruct (neg_div exact sv loss) eqn:E1; cbn [bind] in H; try discriminate H;
          [|exfalso; eapply norej_pos; exact E1].
        destruct (pos_mul exact _ sold) eqn:E2; cbn [bind] in H; try discriminate H.
        exfalso; eapply norej_pos; exact E2.
      + destruct (Qcltb _ _); cbn [bind] in H; [inversion H; exact I|].
        destruct (negb _); [discriminate|].
        destruct (neg_div exact sv loss) eqn:E1; cbn [bind] in H; try discriminate H;
          [|exfalso; eapply norej_pos; exact E1].
        destruct (pos_mul exact _ sold) eqn:E2; cbn [bind] in H; try discriminate H.
        exfalso; eapply norej_pos; exact E2.
    - destruct m as [rr|]; [|discriminate H].
      destruct (neg_unwrap _ calc) eqn:E1; cbn [bind] in H; try discriminate H;
        [|exfalso; eapply norej_unwrap; exact E1].
      destruct (gen_sfla exact t _ _) eqn:E2; cbn [bind] in H; try discriminate H.
      exfalso; eapply gen_sfla_norej; exact E2.
  Qed.

  Theorem delta_for_tx_rej_listed bef t aft st r :
    delta_for_tx exact bef t aft st = Rej r -> st_inv st -> af_ok (t_af t) -> listed r.
  Proof.
    intros H Hinv Haf. unfold delta_for_tx in H.
    rewrite (sanity_never_rejects st (t_af t) Hinv Haf) in H. cbn [bind] in H.
    pose proof (next_pre_acb st (t_af t) Hinv Haf) as Hacb.
    destruct (last_sh_le_all st (t_af t) Hinv) as [Hle Hnn].
    destruct (t_act t) as [n price com rate crate | n price com rate crate sp | amount rate
                          | n amount | post pre_ io] eqn:Ea.
    - (* Buy *)
      unfold delta_nonsell in H. rewrite Ea in H.
      destruct (gez_add exact _ n) eqn:E1; cbn [bind] in H; try discriminate H; [|exfalso; eapply norej_gez; exact E1].
      destruct (gez_add exact _ n) eqn:E2 in H; cbn [bind] in H; try discriminate H; [|exfalso; eapply norej_gez; exact E2].
      destruct (s_acb _); cbn [bind] in H; [|discriminate H].
      destruct (local_value exact n price rate) eqn:E3; cbn [bind] in H; try discriminate H; [|exfalso; eapply norej_local_value; exact E3].
      destruct (gez_mul exact com crate) eqn:E4; cbn [bind] in H; try discriminate H; [|exfalso; eapply norej_gez; exact E4].
      destruct (gez_add exact _ _) eqn:E5 in H; cbn [bind] in H; try discriminate H; [|exfalso; eapply norej_gez; exact E5].
      destruct (gez_add exact _ _) eqn:E6 in H; cbn [bind] in H; try discriminate H. exfalso; eapply norej_gez; exact E6.
    - (* Sell *)
      destruct (sell_core exact _ n price com rate crate) as [c| r0 |] eqn:Ec; cbn [bind] in H; try discriminate H.
      + destruct (sc_gain c) as [g|]; [|discriminate H].
        destruct (Qcltb g 0).
        * destruct (delta_sfl exact bef t n sp aft st g) as [m| r0 |] eqn:Es; cbn [bind] in H; try discriminate H.
          -- destruct m as [[info inj]|]; [|discriminate H]. cbn [a_sub exact bind] in H. discriminate H.
          -- inversion H; subst. eapply delta_sfl_rej; eauto.
        * destruct sp; [inversion H; exact I | discriminate H].
      + inversion H; subst. unfold sell_core in Ec. cbn [a_sub exact bind] in Ec.
        rewrite next_pre_all, next_pre_sh in Ec.
        destruct (Qcltb_spec (last_sh st (t_af t) - n) 0) as [|Hsh]; [inversion Ec; exact I|].
        destruct (Qcltb_spec (ps_all st - n) 0) as [Hlt|_].
        { exfalso. apply Qcnot_lt_le in Hsh. qc_lra. }
        destruct (per_share_acb exact _) as [maps| r1 |] eqn:Ep; cbn [bind] in Ec; try discriminate Ec;
          [|exfalso; eapply norej_per_share; exact Ep].
        destruct maps as [aps_|]; [|discriminate Ec].
        destruct (gez_mul exact _ aps_) eqn:E1; cbn [bind] in Ec; try discriminate Ec; [|exfalso; eapply norej_gez; exact E1].
        destruct (local_value exact n price rate) eqn:E2; cbn [bind] in Ec; try discriminate Ec; [|exfalso; eapply norej_local_value; exact E2].
        destruct (gez_mul exact com crate) eqn:E3; cbn [bind] in Ec; try discriminate Ec; [|exfalso; eapply norej_gez; exact E3].
        cbn [a_sub a_mul exact bind] in Ec. discriminate Ec.
    - (* RoC *)
      unfold delta_nonsell in H. rewrite Ea in H.
      destruct (s_acb _) as [old|] eqn:Eo; cbn [bind] in H.
      + destruct (af_reg _); cbn [bind] in H; [discriminate H|].
        destruct (gez_mul exact amount _) eqn:E1; cbn [bind] in H; try discriminate H; [|exfalso; eapply norej_gez; exact E1].
        destruct (gez_mul exact _ rate) eqn:E2; cbn [bind] in H; try discriminate H; [|exfalso; eapply norej_gez; exact E2].
        cbn [a_sub exact bind] in H. destruct (Qcltb _ _); inversion H; exact I.
      + destruct (negb _); cbn [bind] in H; inversion H; exact I.
    - (* SfLA *)
      unfold delta_nonsell in H. rewrite Ea in H.
      destruct (s_acb _) as [old|] eqn:Eo; cbn [bind] in H.
      + destruct (af_reg _); cbn [bind] in H; [discriminate H|].
        cbn [a_mul exact bind] in H.
        destruct (pos_unwrap _ _) eqn:E1; cbn [bind] in H; try discriminate H; [|exfalso; eapply norej_unwrap; exact E1].
        destruct (gez_add exact _ _) eqn:E2; cbn [bind] in H; try discriminate H. exfalso; eapply norej_gez; exact E2.
      + destruct (negb _); cbn [bind] in H; inversion H; exact I.
    - (* Split *)
      unfold delta_nonsell in H. rewrite Ea in H.
      cbn [a_mul a_div exact] in H. destruct (Qceqb pre_ 0); cbn [bind] in H; [discriminate H|].
      unfold gez_unwrap in H. rewrite next_pre_sh, next_pre_all in H.
      destruct (Qcleb_spec 0 (last_sh st (t_af t) * post / pre_)) as [Hq|]; cbn [bind] in H; [|discriminate H].
      cbn [a_sub a_add exact bind] in H.
      destruct (Qcltb_spec (ps_all st + (last_sh st (t_af t) * post / pre_ - last_sh st (t_af t))) 0) as [Hlt|_].
      { exfalso. qc_lra. }
      destruct (_ && _); inversion H; exact I.
  Qed.
End Inv.
