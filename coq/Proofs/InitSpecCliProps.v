(* The text layer of --symbol-base in front of the application model. *)
From Coq Require Import List NArith ZArith QArith Qcanon Bool.
From ACB Require Import Base.Outcome Base.Arith Model.CsvFields Model.Tx Model.DeltaList Model.App Model.Bridge
     Model.InitSpec Model.InitSpecCli Proofs.InitSpecProps Proofs.BridgeProps Proofs.C16Opening.
Import ListNotations.

(* a rejected specification ends the run whatever the files are: nothing of
   them is read (by construction of [cli_run], which follows cmd.rs; the tie
   to the code is the differential check on the real binary) *)
Theorem cli_malformed_before_files A tbl specs e :
  parse_initial_status specs = Rej e -> forall fs, cli_run A tbl specs fs = Rej e.
Proof. intros H fs. unfold cli_run. rewrite H. reflexivity. Qed.

(* an accepted list hands over, per symbol, the opening position the ledger
   theorems of C16 are about, with the non-negativity they assume *)
Theorem cli_accepted_positions A tbl specs m :
  parse_initial_status specs = Ok m ->
  (forall fs, cli_run A tbl specs fs = read_and_run A tbl (spec_inits m) fs)
  /\ Forall (fun x => exists n c, snd x = opening_status (dec_q n) (dec_q c)
                                  /\ (0 <= dec_q n)%Qc /\ (0 <= dec_q c)%Qc
                                  /\ al_find (fst x) m = Some (n, c)) (spec_inits m).
Proof.
  intros H. split; [intros fs; unfold cli_run; rewrite H; reflexivity|].
  destruct (last_spec_wins _ _ H) as [ND [Hf _]].
  unfold spec_inits. rewrite Forall_map, Forall_forall. intros [k [n c]] Hi. cbn [fst snd].
  exists n, c.
  assert (Hk : al_find k m = Some (n, c)).
  { clear - ND Hi. induction m as [|[k0 v0] r IH]; [destruct Hi|]. cbn [al_find map fst] in *.
    inversion ND as [|? ? Hn ND']; subst. destruct Hi as [Hi|Hi].
    - inversion Hi; subst. rewrite Proofs.CsvDigits.beqb_refl. reflexivity.
    - destruct (beqb k0 k) eqn:E; [|apply IH; assumption].
      apply Proofs.CsvDigits.beqb_eq in E. subst k0. exfalso. apply Hn.
      change k with (fst (k, (n, c))). apply in_map. exact Hi. }
  split; [reflexivity|].
  destruct (proj1 (Hf _ _) Hk) as [pre [s [post [_ [W _]]]]].
  destruct W as [a [b [d [_ [_ [_ [_ [_ [_ [An Ac]]]]]]]]]]. destruct An as [_ Gn]. destruct Ac as [_ Gc].
  cbn [fst snd] in *.
  repeat split; [apply dec_q_gez; exact Gn|apply dec_q_gez; exact Gc|exact Hk].
Qed.
