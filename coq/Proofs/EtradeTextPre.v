(* C19, text layer: the pre-2023 trade-confirmation round trip for all
   well-formed records, by induction over the trade-row blocks. *)
From Coq Require Import String Ascii.
From Coq Require Import List NArith ZArith QArith Qcanon Bool Lia.
From ACB Require Import Base.Outcome Base.QcExtra Base.Fit Base.Arith Model.QText Model.Etrade
  Model.EtradeText Spec.EtradeLayoutChunks Spec.EtradeLayout Proofs.EtradeTextFrame Proofs.EtradeTextRT
  Proofs.EtradeTextESO.
Import ListNotations.
Local Open Scope N_scope.

(* ------------------------------------------------------------------ searches inside one line *)
Lemma first_some_none {A B} (f : A -> option B) l : Forall (fun x => f x = None) l -> first_some f l = None.
Proof. induction 1 as [|x l Hx Hl IH]; [reflexivity|]. cbn [first_some]. rewrite Hx. exact IH. Qed.

Definition allsuf (Pr : text -> Prop) (s : text) : Prop := Forall Pr (line_sufs s).

Lemma line_sufs_incl : forall s p, In p (line_sufs s) -> incl (line_sufs p) (line_sufs s).
Proof.
  induction s as [|c s IH]; intros p Hp.
  - cbn in Hp. destruct Hp as [<-|[]]. apply incl_refl.
  - cbn [line_sufs] in *. destruct (c =? 10) eqn:E.
    + destruct Hp as [<-|[]]. cbn [line_sufs]. rewrite E. apply incl_refl.
    + apply in_app_or in Hp. destruct Hp as [Hp|[<-|[]]].
      * intros x Hx. apply in_or_app. left. exact (IH p Hp x Hx).
      * cbn [line_sufs]. rewrite E. apply incl_refl.
Qed.
Lemma allsuf_in Pr s p : allsuf Pr s -> In p (line_sufs s) -> allsuf Pr p.
Proof.
  unfold allsuf. intros H Hp. apply Forall_forall. intros x Hx. rewrite Forall_forall in H.
  apply H. exact (line_sufs_incl s p Hp x Hx).
Qed.
Lemma allsuf_self Pr s : allsuf Pr s -> Pr s.
Proof.
  unfold allsuf. intros H. rewrite Forall_forall in H. apply H.
  destruct s as [|c s]; [left; reflexivity|]. cbn [line_sufs]. destruct (c =? 10); [left; reflexivity|].
  apply in_or_app. right. left. reflexivity.
Qed.

Definition Cm := m_money_line k_COMMISSION.
Definition Fm := m_money_line k_FEE.
Definition none3 (p : text) : Prop := Cm p = None /\ Fm p = None /\ m_net_amount p = None.

Lemma k3_none s : allsuf none3 s -> k3 s = None.
Proof. intros H. unfold k3. apply first_some_none. eapply Forall_impl; [|exact H]. intros p (_ & _ & N). exact N. Qed.
Lemma k2_none s : allsuf none3 s -> k2 s = None.
Proof.
  intros H. unfold k2. apply first_some_none. apply Forall_forall. intros p Hp.
  pose proof (allsuf_in _ _ _ H Hp) as Hs. destruct (allsuf_self _ _ Hs) as (_ & F & _). fold Fm. rewrite F.
  rewrite (k3_none p Hs). reflexivity.
Qed.
Lemma r2_none s : allsuf none3 s -> r2_lines s = None.
Proof.
  intros H. unfold r2_lines. apply first_some_none. apply Forall_forall. intros p Hp.
  pose proof (allsuf_in _ _ _ H Hp) as Hs. destruct (allsuf_self _ _ Hs) as (C & _ & _). fold Cm. rewrite C.
  rewrite (k2_none p Hs). reflexivity.
Qed.

(* a guarded matcher fails at every position of a line made of segments where its guard cannot hold *)
Section LineNone.
Context {A : Type} (m : text -> option A) (g : guard) (Hg : guarded m g).
Lemma allsuf_guard d : Forall seg_ok d -> clear_open g d = true -> forallb (seg_in not_nl) d = true ->
  forall tail, m (10 :: tail) = None -> allsuf (fun p => m p = None) (flat d ++ 10 :: tail).
Proof.
  intros Hd. induction Hd as [|s d Hs Hd IH]; intros Hc Hn tail Ht.
  - unfold allsuf. cbn. constructor; [exact Ht|constructor].
  - cbn [clear_open forallb] in Hc, Hn. destruct s as [t|k v].
    + apply andb_true_iff in Hc. destruct Hc as [C1 C2]. apply andb_true_iff in Hn. destruct Hn as [N1 N2].
      cbn [flat seg_text]. rewrite <- app_assoc. specialize (IH C2 N2 tail Ht).
      cbn [seg_in] in N1. clear Hs. induction t as [|x t IHt]; [exact IH|].
      cbn [clear_lit_o] in C1. apply andb_true_iff in C1. destruct C1 as [C0 C1].
      cbn [forallb] in N1. apply andb_true_iff in N1. destruct N1 as [Nx Nt].
      unfold allsuf. cbn [app line_sufs]. unfold not_nl in Nx. apply negb_true_iff in Nx. rewrite Nx.
      apply Forall_app. split; [exact (IHt C1 Nt)|]. constructor; [|constructor].
      apply (guard_fails m g Hg (AL (x :: t) :: absd d)); [|apply negb_true_iff; exact C0].
      change (x :: t ++ flat d ++ 10 :: tail) with ((x :: t) ++ (flat d ++ 10 :: tail)). constructor. apply conc_flat; auto.
    + apply andb_true_iff in Hc. destruct Hc as [C1 C2]. apply andb_true_iff in Hn. destruct Hn as [N1 N2].
      cbn [flat seg_text]. rewrite <- app_assoc. specialize (IH C2 N2 tail Ht). destruct Hs as [_ Hm].
      cbn [seg_in] in N1. apply negb_true_iff in C1.
      assert (Hnl : forallb not_nl v = true).
      { rewrite forallb_forall in *. intros x Hx. apply N1, reps_ok, Hm, Hx. }
      induction v as [|x v IHv]; [exact IH|].
      cbn [forallb] in Hm, Hnl. apply andb_true_iff in Hm. destruct Hm as [Mx Mv]. apply andb_true_iff in Hnl. destruct Hnl as [Nx Nv].
      unfold allsuf. cbn [app line_sufs]. unfold not_nl in Nx. apply negb_true_iff in Nx. rewrite Nx.
      apply Forall_app. split; [exact (IHv Mv Nv)|]. constructor; [|constructor].
      apply (guard_fails m g Hg (AF k :: absd d)); [|exact C1].
      change (x :: v ++ flat d ++ 10 :: tail) with ((x :: v) ++ (flat d ++ 10 :: tail)).
      constructor; [discriminate|cbn [forallb]; rewrite Mx, Mv; reflexivity|apply conc_flat; auto].
Qed.
End LineNone.

(* ------------------------------------------------------------------ the tail lines of one trade row *)
Definition pend (st : bool) : text := sty st prerow0_end prerow1_end.       (* "\nNET AMOUNT $1,494.78\n" [+ "\n"] *)
Definition prem (st : bool) : text := skipn 11 (pend st).                    (* " $1,494.78\n" [+ "\n"] *)
Lemma k3_net st R : k3 (tl (pend st) ++ R) = Some (prem st ++ R).
Proof. destruct st; reflexivity. Qed.
Lemma k2_net st R : k2 (tl (pend st) ++ R) = Some (None, prem st ++ R).
Proof. destruct st; reflexivity. Qed.

Lemma g_Cm : guarded Cm (glit k_COMMISSION). Proof. exact (guarded_lit _ _). Qed.
Lemma g_Fm : guarded Fm (glit k_FEE). Proof. exact (guarded_lit _ _). Qed.
Lemma g_net : guarded m_net_amount (glit k_NET). Proof. exact (guarded_lit _ _). Qed.

Lemma money_line_hit k a b Y : digits a -> digits b -> a <> [] -> b <> [] ->
  m_money_line k (k ++ 32 :: 36 :: a ++ 46 :: b ++ 10 :: Y) = Some (a ++ 46 :: b, Y).
Proof.
  intros. unfold m_money_line, lit. rewrite strip_prefix_app. cbn [obind]. rewrite sp1_sp. cbn [obind].
  change (skip_spaces (36 :: a ++ 46 :: b ++ 10 :: Y)) with (36 :: a ++ 46 :: b ++ 10 :: Y).
  cbn [chr N.eqb Pos.eqb obind]. rewrite dd_hit by (auto; reflexivity). cbn [obind]. reflexivity.
Qed.

Definition moneyseg (k' : text) (a b : text) : list seg := [SL k'; SF c_digit a; SL [46]; SF c_digit b].

Lemma none3_line k' a b tail :
  digits a -> digits b -> a <> [] -> b <> [] ->
  clear_open (glit k_COMMISSION) (moneyseg k' a b) = true ->
  clear_open (glit k_FEE) (moneyseg k' a b) = true ->
  clear_open (glit k_NET) (moneyseg k' a b) = true ->
  forallb not_nl k' = true ->
  allsuf none3 (flat (moneyseg k' a b) ++ 10 :: tail).
Proof.
  intros Ha Hb Na Nb C1 C2 C3 Hk.
  assert (Hok : Forall seg_ok (moneyseg k' a b)) by (repeat constructor; auto).
  assert (Hnl : forallb (seg_in not_nl) (moneyseg k' a b) = true).
  { cbn [moneyseg forallb seg_in]. rewrite Hk. reflexivity. }
  pose proof (allsuf_guard Cm _ g_Cm _ Hok C1 Hnl tail eq_refl) as A1.
  pose proof (allsuf_guard Fm _ g_Fm _ Hok C2 Hnl tail eq_refl) as A2.
  pose proof (allsuf_guard m_net_amount _ g_net _ Hok C3 Hnl tail eq_refl) as A3.
  unfold allsuf in *. rewrite Forall_forall in *. intros p Hp. repeat split; auto.
Qed.

Definition kC' : text := Eval vm_compute in tl (k_COMMISSION ++ [32; 36]).   (* "OMMISSION $" *)
Definition kF' : text := Eval vm_compute in tl (k_FEE ++ [32; 36]).          (* "EE $" *)

Section RowTail.
Variables ca cb fa fb : text.
Hypothesis Hc : digits ca /\ digits cb /\ ca <> [] /\ cb <> [].
Hypothesis Hf : digits fa /\ digits fb /\ fa <> [] /\ fb <> [].

Lemma k2_fee st R :
  k2 (k_FEE ++ 32 :: 36 :: fa ++ 46 :: fb ++ pend st ++ R) = Some (Some (fa ++ 46 :: fb), prem st ++ R).
Proof.
  destruct Hf as (F1 & F2 & F3 & F4).
  assert (EP : pend st ++ R = 10 :: (tl (pend st) ++ R)) by (destruct st; reflexivity). rewrite EP.
  assert (A : allsuf none3 (flat (moneyseg kF' fa fb) ++ 10 :: (tl (pend st) ++ R))).
  { apply none3_line; auto; vm_compute; reflexivity. }
  unfold k2.
  change (k_FEE ++ 32 :: 36 :: fa ++ 46 :: fb ++ 10 :: tl (pend st) ++ R)
    with (70 :: (kF' ++ fa ++ 46 :: fb ++ 10 :: tl (pend st) ++ R)).
  assert (EQ : kF' ++ fa ++ 46 :: fb ++ 10 :: tl (pend st) ++ R = flat (moneyseg kF' fa fb) ++ 10 :: (tl (pend st) ++ R)).
  { cbn [moneyseg flat seg_text app]. rewrite app_nil_r, <- ?app_assoc. reflexivity. }
  rewrite EQ. rewrite line_sufs_cons; [|reflexivity|exact (k2_none _ A)].
  rewrite <- EQ.
  change (70 :: kF' ++ fa ++ 46 :: fb ++ 10 :: tl (pend st) ++ R)
    with (k_FEE ++ 32 :: 36 :: fa ++ 46 :: fb ++ 10 :: (tl (pend st) ++ R)).
  rewrite (money_line_hit k_FEE fa fb _ F1 F2 F3 F4). rewrite k3_net. reflexivity.
Qed.
End RowTail.

Section RowTail2.
Variables ca cb fa fb : text.
Hypothesis Hc : digits ca /\ digits cb /\ ca <> [] /\ cb <> [].
Hypothesis Hf : digits fa /\ digits fb /\ fa <> [] /\ fb <> [].

(* the rest of the row's second line from the COMMISSION / FEE word on: T starts the following line *)
Lemma r2_at_commission T c f rest :
  k2 T = Some (f, rest) -> c = ca ++ 46 :: cb ->
  r2_lines (k_COMMISSION ++ 32 :: 36 :: ca ++ 46 :: cb ++ 10 :: T) = Some (Some c, f, rest).
Proof.
  intros HK ->. destruct Hc as (C1 & C2 & C3 & C4).
  assert (A : allsuf none3 (flat (moneyseg kC' ca cb) ++ 10 :: T)).
  { apply none3_line; auto; vm_compute; reflexivity. }
  assert (EQ : kC' ++ ca ++ 46 :: cb ++ 10 :: T = flat (moneyseg kC' ca cb) ++ 10 :: T).
  { cbn [moneyseg flat seg_text app]. rewrite app_nil_r, <- ?app_assoc. reflexivity. }
  unfold r2_lines.
  change (k_COMMISSION ++ 32 :: 36 :: ca ++ 46 :: cb ++ 10 :: T) with (67 :: (kC' ++ ca ++ 46 :: cb ++ 10 :: T)).
  rewrite EQ. rewrite line_sufs_cons; [|reflexivity|exact (r2_none _ A)].
  rewrite <- EQ.
  change (67 :: kC' ++ ca ++ 46 :: cb ++ 10 :: T) with (k_COMMISSION ++ 32 :: 36 :: ca ++ 46 :: cb ++ 10 :: T).
  rewrite (money_line_hit k_COMMISSION ca cb T C1 C2 C3 C4). rewrite HK. reflexivity.
Qed.

Lemma r2_at_fee st R :
  r2_lines (k_FEE ++ 32 :: 36 :: fa ++ 46 :: fb ++ pend st ++ R) = Some (None, Some (fa ++ 46 :: fb), prem st ++ R).
Proof.
  destruct Hf as (F1 & F2 & F3 & F4).
  pose proof (k2_fee fa fb Hf st R) as K2.
  assert (EP : pend st ++ R = 10 :: (tl (pend st) ++ R)) by (destruct st; reflexivity). rewrite EP in *.
  assert (A : allsuf none3 (flat (moneyseg kF' fa fb) ++ 10 :: (tl (pend st) ++ R))).
  { apply none3_line; auto; vm_compute; reflexivity. }
  assert (EQ : kF' ++ fa ++ 46 :: fb ++ 10 :: tl (pend st) ++ R = flat (moneyseg kF' fa fb) ++ 10 :: (tl (pend st) ++ R)).
  { cbn [moneyseg flat seg_text app]. rewrite app_nil_r, <- ?app_assoc. reflexivity. }
  unfold r2_lines.
  change (k_FEE ++ 32 :: 36 :: fa ++ 46 :: fb ++ 10 :: tl (pend st) ++ R)
    with (70 :: (kF' ++ fa ++ 46 :: fb ++ 10 :: tl (pend st) ++ R)).
  rewrite EQ. rewrite line_sufs_cons; [|reflexivity|exact (r2_none _ A)].
  rewrite <- EQ.
  change (70 :: kF' ++ fa ++ 46 :: fb ++ 10 :: tl (pend st) ++ R)
    with (k_FEE ++ 32 :: 36 :: fa ++ 46 :: fb ++ 10 :: (tl (pend st) ++ R)).
  change (m_money_line k_COMMISSION (k_FEE ++ 32 :: 36 :: fa ++ 46 :: fb ++ 10 :: tl (pend st) ++ R)) with (@None (text * text)).
  rewrite K2. reflexivity.
Qed.

(* the three supported shapes, after any prefix P of the line (the description) *)
Definition comm_tail (st : bool) (oc of : option (text * text)) (R : text) : text :=
  match oc, of with
  | Some (a, b), Some (a2, b2) => k_COMMISSION_d ++ (a ++ 46 :: b) ++ k_nl_FEE_d ++ (a2 ++ 46 :: b2) ++ pend st ++ R
  | Some (a, b), None => k_COMMISSION_d ++ (a ++ 46 :: b) ++ pend st ++ R
  | None, Some (a2, b2) => k_FEE_d ++ (a2 ++ 46 :: b2) ++ pend st ++ R
  | None, None => []
  end.
End RowTail2.

Lemma r2_shapes st P oc of R :
  forallb not_nl P = true -> odec_ok oc -> odec_ok of -> (oc <> None \/ of <> None) ->
  r2_lines (P ++ comm_tail st oc of R) = Some (odec_text oc, odec_text of, prem st ++ R).
Proof.
  intros HP Hc Hf Hne.
  destruct oc as [[ca cb]|], of as [[fa fb]|]; cbn [odec_ok odec_text comm_tail] in *.
  - dsplit Hc. dsplit Hf.
    replace (P ++ k_COMMISSION_d ++ (ca ++ 46 :: cb) ++ k_nl_FEE_d ++ (fa ++ 46 :: fb) ++ pend st ++ R)
      with ((P ++ [32]) ++ k_COMMISSION ++ 32 :: 36 :: ca ++ 46 :: cb ++ 10 :: (k_FEE ++ 32 :: 36 :: fa ++ 46 :: fb ++ pend st ++ R))
      by (unfold k_COMMISSION_d, k_nl_FEE_d; rewrite <- !app_assoc; cbn [app]; rewrite <- ?app_assoc; reflexivity).
    apply line_sufs_app_some; [rewrite forallb_app, HP; reflexivity|].
    apply (r2_at_commission ca cb); auto. apply k2_fee; auto.
  - dsplit Hc.
    replace (P ++ k_COMMISSION_d ++ (ca ++ 46 :: cb) ++ pend st ++ R)
      with ((P ++ [32]) ++ k_COMMISSION ++ 32 :: 36 :: ca ++ 46 :: cb ++ 10 :: (tl (pend st) ++ R))
      by (unfold k_COMMISSION_d; rewrite <- !app_assoc; cbn [app]; rewrite <- ?app_assoc; destruct st; reflexivity).
    apply line_sufs_app_some; [rewrite forallb_app, HP; reflexivity|].
    apply (r2_at_commission ca cb); auto. apply k2_net.
  - dsplit Hf.
    replace (P ++ k_FEE_d ++ (fa ++ 46 :: fb) ++ pend st ++ R)
      with ((P ++ [32]) ++ k_FEE ++ 32 :: 36 :: fa ++ 46 :: fb ++ pend st ++ R)
      by (unfold k_FEE_d; rewrite <- !app_assoc; cbn [app]; rewrite <- ?app_assoc; reflexivity).
    apply line_sufs_app_some; [rewrite forallb_app, HP; reflexivity|].
    apply r2_at_fee; auto.
  - destruct Hne; congruence.
Qed.

(* ------------------------------------------------------------------ one trade row *)
Lemma to_nl_rest L2 : to_nl (prerow_rest ++ L2) = Some L2.
Proof. reflexivity. Qed.
Lemma upper_nonspace c : is_upper c = true -> nonspace c = true.
Proof.
  intros H. unfold nonspace. apply negb_true_iff. unfold is_upper in H. range_tac. unfold is_space.
  repeat match goal with |- (_ || _) = false => apply orb_false_iff; split end;
  try (apply N.eqb_neq; lia); apply andb_false_iff; first [left; apply N.leb_gt; lia | right; apply N.leb_gt; lia].
Qed.

Lemma pre_rest_eval td sd sym act qty pa pb L2 c f rest :
  sym <> [] -> forallb nonspace sym = true -> act <> [] -> forallb nonspace act = true ->
  digits qty -> qty <> [] -> decparts pa pb ->
  r2_lines L2 = Some (c, f, rest) ->
  pre_rest td sd (sym ++ 32 :: act ++ 32 :: qty ++ 32 :: 36 :: pa ++ 46 :: pb ++ prerow_rest ++ L2)
  = Some ({| cp_td := td; cp_sd := sd; cp_sym := sym; cp_act := act; cp_n := qty; cp_price := pa ++ 46 :: pb;
             cp_comm := c; cp_fee := f |}, rest).
Proof.
  intros S1 S2 A1 A2 Q1 Q2 HP HR. dsplit HP. unfold pre_rest.
  rewrite (run1_all nonspace sym) by (auto; reflexivity). cbn [obind]. rewrite sp1_sp. cbn [obind].
  rewrite (skip_nonspace_fld act) by auto. rewrite (run1_all nonspace act) by (auto; reflexivity). cbn [obind].
  rewrite sp1_sp. cbn [obind]. rewrite skip_digits by auto. rewrite nd_run1 by (auto; reflexivity). cbn [obind].
  rewrite sp1_sp. cbn [obind].
  change (skip_spaces (36 :: pa ++ 46 :: pb ++ prerow_rest ++ L2)) with (36 :: pa ++ 46 :: pb ++ prerow_rest ++ L2).
  cbn [chr N.eqb Pos.eqb obind]. rewrite dd_hit by (auto; reflexivity). cbn [obind].
  rewrite to_nl_rest. cbn [obind]. rewrite HR. reflexivity.
Qed.

Lemma updot_not_digit c : is_updot c = true -> is_digit c = false.
Proof.
  unfold is_updot, is_digit, is_upper, is_dot. intros H. apply orb_true_iff in H. destruct H as [H|H].
  - range_tac. apply andb_false_iff. right. apply N.leb_gt. lia.
  - apply N.eqb_eq in H. subst c. reflexivity.
Qed.

Definition pmkt (st : bool) : text := sty st prerow0_mkt prerow1_mkt.

Lemma m_pre_row_eval st m1 d1 y1 m2 d2 y2 sym act qty pa pb L2 c f rest :
  digits m1 -> digits d1 -> digits y1 -> m1 <> [] -> d1 <> [] -> y1 <> [] ->
  digits m2 -> digits d2 -> digits y2 -> m2 <> [] -> d2 <> [] -> y2 <> [] ->
  sym <> [] -> forallb is_updot sym = true -> act <> [] -> forallb is_upper act = true ->
  digits qty -> qty <> [] -> decparts pa pb ->
  r2_lines L2 = Some (c, f, rest) ->
  m_pre_row (m1 ++ 47 :: d1 ++ 47 :: y1 ++ 32 :: m2 ++ 47 :: d2 ++ 47 :: y2 ++ pmkt st
             ++ sym ++ 32 :: act ++ 32 :: qty ++ 32 :: 36 :: pa ++ 46 :: pb ++ prerow_rest ++ L2)
  = Some ({| cp_td := (m1, d1, y1); cp_sd := (m2, d2, y2); cp_sym := sym; cp_act := act; cp_n := qty;
             cp_price := pa ++ 46 :: pb; cp_comm := c; cp_fee := f |}, rest).
Proof.
  intros M1 D1 Y1 NM1 ND1 NY1 M2 D2 Y2 NM2 ND2 NY2 S1 S2 A1 A2 Q1 Q2 HP HR.
  assert (SN : forallb nonspace sym = true) by (apply (forallb_imp is_updot); [exact updot_nonspace|exact S2]).
  assert (AN : forallb nonspace act = true) by (apply (forallb_imp is_upper); [exact upper_nonspace|exact A2]).
  pose proof (pre_rest_eval (m1, d1, y1) (m2, d2, y2) sym act qty pa pb L2 c f rest S1 SN A1 AN Q1 Q2 HP HR) as PR.
  set (X := sym ++ 32 :: act ++ 32 :: qty ++ 32 :: 36 :: pa ++ 46 :: pb ++ prerow_rest ++ L2) in *.
  assert (HX : skip_spaces X = X) by (apply skip_nonspace_fld; assumption).
  assert (HD : run1 is_digit X = None).
  { apply run1_hd. unfold X. destruct sym as [|s0 sym']; [congruence|]. cbn [app hd_in].
    cbn [forallb] in S2. apply andb_true_iff in S2. apply updot_not_digit. exact (proj1 S2). }
  unfold m_pre_row. rewrite date3_hit by (auto; reflexivity). cbn [obind]. rewrite sp1_sp. cbn [obind].
  rewrite skip_digits by auto.
  replace (m2 ++ 47 :: d2 ++ 47 :: y2 ++ pmkt st ++ X) with (m2 ++ 47 :: d2 ++ 47 :: y2 ++ 32 :: (tl (pmkt st) ++ X))
    by (destruct st; reflexivity).
  rewrite date3_hit by (auto; reflexivity). cbn [obind]. rewrite sp1_sp. cbn [obind].
  destruct st.
  - (* " 6 1 " *)
    change (skip_spaces (tl (pmkt true) ++ X)) with (54 :: 32 :: 49 :: 32 :: X).
    change (run1 is_digit (54 :: 32 :: 49 :: 32 :: X)) with (Some ([54], 32 :: 49 :: 32 :: X)). cbn [obind].
    change (skip_spaces (32 :: 49 :: 32 :: X)) with (49 :: 32 :: X).
    change (run1 is_digit (49 :: 32 :: X)) with (Some ([49], 32 :: X)). cbn [obind].
    rewrite sp1_sp, HX. cbn [obind]. rewrite PR. reflexivity.
  - (* " 61 " *)
    change (skip_spaces (tl (pmkt false) ++ X)) with (54 :: 49 :: 32 :: X).
    change (run1 is_digit (54 :: 49 :: 32 :: X)) with (Some ([54; 49], 32 :: X)). cbn [obind].
    change (skip_spaces (32 :: X)) with (skip_spaces X). rewrite HX, HD. cbn [obind length Nat.leb].
    rewrite sp1_sp, HX. cbn [obind]. exact PR.
Qed.

(* ------------------------------------------------------------------ rows as blocks *)
Record prow : Type := { w_m1 : text; w_d1 : text; w_y1 : text; w_m2 : text; w_d2 : text; w_y2 : text;
                        w_sym : text; w_act : text; w_qty : text; w_pa : text; w_pb : text;
                        w_oc : option (text * text); w_of : option (text * text) }.
Definition prow_ok (w : prow) : Prop :=
  (digits (w_m1 w) /\ digits (w_d1 w) /\ digits (w_y1 w) /\ w_m1 w <> [] /\ w_d1 w <> [] /\ w_y1 w <> [])
  /\ (digits (w_m2 w) /\ digits (w_d2 w) /\ digits (w_y2 w) /\ w_m2 w <> [] /\ w_d2 w <> [] /\ w_y2 w <> [])
  /\ (w_sym w <> [] /\ forallb is_updot (w_sym w) = true) /\ (w_act w <> [] /\ forallb is_upper (w_act w) = true)
  /\ (digits (w_qty w) /\ w_qty w <> []) /\ decparts (w_pa w) (w_pb w)
  /\ odec_ok (w_oc w) /\ odec_ok (w_of w) /\ (w_oc w <> None \/ w_of w <> None).
Definition pdesc (st : bool) : text := sty st prerow0_desc prerow1_desc.
Definition rblk (st : bool) (w : prow) (R : text) : text :=
  w_m1 w ++ 47 :: w_d1 w ++ 47 :: w_y1 w ++ 32 :: w_m2 w ++ 47 :: w_d2 w ++ 47 :: w_y2 w ++ pmkt st
  ++ w_sym w ++ 32 :: w_act w ++ 32 :: w_qty w ++ 32 :: 36 :: w_pa w ++ 46 :: w_pb w ++ prerow_rest
  ++ (w_sym w ++ pdesc st) ++ comm_tail st (w_oc w) (w_of w) R.
Definition caps_of (w : prow) : tc_caps :=
  {| cp_td := (w_m1 w, w_d1 w, w_y1 w); cp_sd := (w_m2 w, w_d2 w, w_y2 w); cp_sym := w_sym w; cp_act := w_act w;
     cp_n := w_qty w; cp_price := w_pa w ++ 46 :: w_pb w; cp_comm := odec_text (w_oc w); cp_fee := odec_text (w_of w) |}.

Lemma comm_tail_app st oc of R : (oc <> None \/ of <> None) -> comm_tail st oc of R = comm_tail st oc of [] ++ R.
Proof.
  intros H. destruct oc as [[a b]|], of as [[a2 b2]|]; cbn [comm_tail]; rewrite <- ?app_assoc, ?app_nil_r; cbn [app];
    rewrite <- ?app_assoc; try reflexivity. destruct H; congruence.
Qed.
Lemma rblk_app st w R : prow_ok w -> rblk st w R = rblk st w [] ++ R.
Proof.
  intros (_ & _ & _ & _ & _ & _ & _ & _ & Hne). unfold rblk. rewrite (comm_tail_app st _ _ R Hne).
  repeat (rewrite <- app_assoc || rewrite <- app_comm_cons). reflexivity.
Qed.

Lemma rblk_hit st w R : prow_ok w -> find m_pre_row (rblk st w R) = Some (caps_of w, prem st ++ R).
Proof.
  intros ((M1 & D1 & Y1 & N1 & N2 & N3) & (M2 & D2 & Y2 & N4 & N5 & N6) & (S1 & S2) & (A1 & A2) & (Q1 & Q2) & HP & Hc & Hf & Hne).
  apply find_hit. unfold rblk, caps_of. apply m_pre_row_eval; auto.
  apply r2_shapes; auto. rewrite forallb_app. rewrite (forallb_imp is_updot not_nl _ updot_not_nl S2). destruct st; reflexivity.
Qed.
Lemma prem_skip st R : find m_pre_row (prem st ++ R) = find m_pre_row R.
Proof. destruct st; reflexivity. Qed.

Definition pblk (st : bool) (_ : nat) (w : prow) : text := rblk st w [].
Lemma pblk_nonnil st i w : prow_ok w -> (1 <= length (pblk st i w))%nat.
Proof.
  intros ((M1 & D1 & Y1 & N1 & _) & _). unfold pblk, rblk. rewrite app_length. destruct (w_m1 w); [congruence|]. cbn [length]. lia.
Qed.
Lemma pblocks_length st ws : Forall prow_ok ws -> forall i, (length ws <= length (blocks (pblk st) i ws))%nat.
Proof.
  induction 1 as [|w ws Hw Hws IH]; intros i; [cbn; lia|]. cbn [blocks length]. rewrite app_length.
  pose proof (pblk_nonnil st i w Hw). specialize (IH (S i)). lia.
Qed.

Lemma rows_all_matches st ws hd tl :
  Forall prow_ok ws -> (forall X, find m_pre_row (hd ++ X) = find m_pre_row X) -> find m_pre_row tl = None ->
  all_matches m_pre_row (hd ++ blocks (pblk st) 1 ws ++ tl) = map caps_of ws.
Proof.
  intros Hws Hhd Htl. unfold all_matches.
  rewrite (amf_find_eq m_pre_row _ (blocks (pblk st) 1 ws ++ tl) _ (Hhd _)).
  rewrite (all_matches_fuel_blocks m_pre_row prow_ok (fun _ => True) (pblk st) (fun _ _ => prem st) (fun _ w => caps_of w)); auto.
  - apply vals_const.
  - intros i w R Hw _. unfold pblk. rewrite <- (rblk_app st w R Hw). apply rblk_hit. exact Hw.
  - intros i w R _. apply prem_skip.
  - rewrite !app_length. pose proof (pblocks_length st ws Hws 1). lia.
Qed.

(* ------------------------------------------------------------------ header, footer, account *)
Lemma lit_skip_0 st X : find m_pre_row (sty st pre0_0 pre1_0 ++ X) = find m_pre_row X.
Proof. destruct st; reflexivity. Qed.
Lemma lit_skip_1 st X : find m_pre_row (sty st pre0_1 pre1_1 ++ X) = find m_pre_row X.
Proof. destruct st; reflexivity. Qed.
Lemma lit_skip_2 st X : find m_pre_row (sty st pre0_2 pre1_2 ++ X) = find m_pre_row X.
Proof. destruct st; reflexivity. Qed.
Lemma foot_none st : find m_pre_row (sty st pre0_foot pre1_foot) = None.
Proof. destruct st; vm_compute; reflexivity. Qed.

Lemma acct_not_slash c : is_acct c = true -> (c =? 47) = false.
Proof. intros H. apply N.eqb_neq. intros ->. discriminate. Qed.
Lemma span_digit_acct c T' : is_digit c = false -> (c =? 47) = false -> forall u, forallb is_acct u = true ->
  exists a x r', span is_digit (u ++ c :: T') = (a, x :: r') /\ (x =? 47) = false.
Proof.
  intros Hc1 Hc2. induction u as [|y u IH]; intros Hu.
  - exists [], c, T'. cbn [app span]. rewrite Hc1. split; [reflexivity|exact Hc2].
  - cbn [forallb] in Hu. apply andb_true_iff in Hu. destruct Hu as [Hy Hu]. cbn [app span].
    destruct (is_digit y) eqn:E.
    + destruct (IH Hu) as (a & x & r' & Es & Hx). rewrite Es. exists (y :: a), x, r'. split; [reflexivity|exact Hx].
    + exists [], y, (u ++ c :: T'). split; [reflexivity|apply acct_not_slash; exact Hy].
Qed.
Lemma pre_row_none_acct c T' u : is_digit c = false -> (c =? 47) = false -> forallb is_acct u = true ->
  m_pre_row (u ++ c :: T') = None.
Proof.
  intros Hc1 Hc2 Hu. unfold m_pre_row, date3, run1.
  destruct (span_digit_acct c T' Hc1 Hc2 u Hu) as (a & x & r' & Es & Hx). rewrite Es.
  destruct a as [|a0 a]; [reflexivity|]. cbn [obind chr]. rewrite Hx. reflexivity.
Qed.
Lemma acct_skip c T' : is_digit c = false -> (c =? 47) = false -> forall u, forallb is_acct u = true ->
  find m_pre_row (u ++ c :: T') = find m_pre_row (c :: T').
Proof.
  intros Hc1 Hc2. induction u as [|y u IH]; intros Hu; [reflexivity|].
  cbn [app]. rewrite find_cons_none.
  - apply IH. cbn [forallb] in Hu. apply andb_true_iff in Hu. exact (proj2 Hu).
  - exact (pre_row_none_acct c T' (y :: u) Hc1 Hc2 Hu).
Qed.

Definition pre_hd (st : bool) (acct : text) : text :=
  sty st pre0_0 pre1_0 ++ acct ++ sty st pre0_1 pre1_1 ++ acct ++ sty st pre0_2 pre1_2.
Lemma hd_skip st acct X : forallb is_acct acct = true ->
  find m_pre_row (pre_hd st acct ++ X) = find m_pre_row X.
Proof.
  intros Ha. unfold pre_hd. rewrite <- !app_assoc. rewrite lit_skip_0.
  assert (E1 : sty st pre0_1 pre1_1 = 10 :: tl (sty st pre0_1 pre1_1)) by (destruct st; reflexivity).
  rewrite E1 at 1. cbn [app]. rewrite (acct_skip 10 _ eq_refl eq_refl acct Ha).
  change (10 :: tl (sty st pre0_1 pre1_1) ++ acct ++ sty st pre0_2 pre1_2 ++ X)
    with ((10 :: tl (sty st pre0_1 pre1_1)) ++ acct ++ sty st pre0_2 pre1_2 ++ X).
  rewrite <- E1. rewrite lit_skip_1.
  destruct st.
  - change (pre1_2) with (10 :: tl pre1_2). cbn [sty app].
    rewrite (acct_skip 10 _ eq_refl eq_refl acct Ha).
    change (10 :: tl pre1_2 ++ X) with (sty true pre0_2 pre1_2 ++ X). apply lit_skip_2.
  - change (pre0_2) with (73 :: tl pre0_2). cbn [sty app].
    rewrite (acct_skip 73 _ eq_refl eq_refl acct Ha).
    change (73 :: tl pre0_2 ++ X) with (sty false pre0_2 pre1_2 ++ X). apply lit_skip_2.
Qed.

(* Account\s+Number: ... : "Account Name:" comes first in the header *)
Lemma g_tc_account3 : guarded m_tc_account
  (glit k_Account ++ [is_space; fun c => is_space c || (c =? 78); fun c => is_space c || (c =? 78) || (c =? 117)]).
Proof.
  intros s H. rewrite prefix_sat_app_lit in H. unfold m_tc_account, lit.
  destruct (strip_prefix k_Account s) as [r|]; [|reflexivity]. cbn [obind].
  destruct r as [|c1 r]; [reflexivity|]. cbn [prefix_sat sp1] in *. destruct (is_space c1); [|reflexivity]. cbn [andb obind] in *.
  destruct r as [|c2 r]; [reflexivity|]. cbn [prefix_sat] in H. cbn [skip_spaces].
  destruct (is_space c2) eqn:E2.
  - cbn [orb andb] in H. destruct r as [|c3 r]; [reflexivity|]. cbn [prefix_sat] in H. rewrite andb_true_r in H.
    apply orb_false_iff in H. destruct H as [H _]. apply orb_false_iff in H. destruct H as [H3 H4].
    cbn [skip_spaces]. rewrite H3. unfold k_Number_c. cbn [strip_prefix]. rewrite N.eqb_sym, H4. reflexivity.
  - cbn [orb] in H. destruct (c2 =? 78) eqn:E78.
    + cbn [andb] in H. destruct r as [|c3 r]; [apply N.eqb_eq in E78; subst c2; reflexivity|].
      cbn [prefix_sat] in H. rewrite andb_true_r in H. apply orb_false_iff in H. destruct H as [_ H5].
      apply N.eqb_eq in E78. subst c2. unfold k_Number_c. cbn [strip_prefix]. rewrite N.eqb_refl, (N.eqb_sym 117 c3), H5. reflexivity.
    + unfold k_Number_c. cbn [strip_prefix]. rewrite N.eqb_sym, E78. reflexivity.
Qed.

Lemma pre_account st acct X : acct <> [] -> forallb is_acct acct = true ->
  exists rest, get1 m_tc_account (pre_hd st acct ++ X) = Ok (acct, rest).
Proof.
  intros Hn Ha. apply get1_of_fst.
  assert (Hns : forallb nonspace acct = true) by (apply (forallb_imp is_acct); [exact acct_nonspace|exact Ha]).
  assert (Hok : forall b, Forall seg_ok [SL (sty b pre0_0 pre1_0); SF c_acct acct; SL (sty b pre0_1 pre1_1)]) by (intro; repeat constructor; auto).
  unfold pre_hd.
  replace ((sty st pre0_0 pre1_0 ++ acct ++ sty st pre0_1 pre1_1 ++ acct ++ sty st pre0_2 pre1_2) ++ X)
    with (flat [SL (sty st pre0_0 pre1_0); SF c_acct acct; SL (sty st pre0_1 pre1_1)] ++ (acct ++ sty st pre0_2 pre1_2 ++ X))
    by (cbn [flat seg_text]; rewrite app_nil_r; rewrite <- !app_assoc; reflexivity).
  rewrite <- (find_seek m_tc_account _ g_tc_account3 _ _ (Hok st)).
  destruct st;
  (match goal with |- context [seek ?g true ?D] => let s' := eval vm_compute in (seek g true D) in change (seek g true D) with s' end;
   cbn [flat seg_text]; rewrite app_nil_r, <- !app_assoc;
   erewrite find_hit; cycle 1;
   [ unfold m_tc_account, k_Account, k_Number_c; cbn [app lit strip_prefix N.eqb Pos.eqb obind];
     rewrite sp1_sp; cbn [obind]; rewrite skip_spaces_nonspace by reflexivity;
     cbn [lit strip_prefix N.eqb Pos.eqb obind];
     rewrite skip_sp_nonspace_fld by auto; rewrite run1_all by (auto; reflexivity);
     cbn [obind one_sp]; reflexivity
   | reflexivity ]).
Qed.

(* ------------------------------------------------------------------ records *)
Definition lay_of (w : prow) : pre_row_lay :=
  {| pl_td := (w_m1 w, w_d1 w, w_y1 w); pl_sd := (w_m2 w, w_d2 w, w_y2 w); pl_sym := w_sym w; pl_act := w_act w;
     pl_qty := w_qty w; pl_price := w_pa w ++ 46 :: w_pb w; pl_comm := odec_text (w_oc w); pl_fee := odec_text (w_of w) |}.
Definition prow_sem (w : prow) : Prop :=
  parse_short_mdy (w_m1 w, w_d1 w, w_y1 w) = Ok (date_ord_short (w_m1 w, w_d1 w, w_y1 w))
  /\ parse_short_mdy (w_m2 w, w_d2 w, w_y2 w) = Ok (date_ord_short (w_m2 w, w_d2 w, w_y2 w))
  /\ is_ok (action_of (w_act w)) = true /\ (length (w_qty w) <= 28)%nat
  /\ is_ok (a_add dec (odec_val (w_oc w)) (odec_val (w_of w))) = true.

Lemma opt_dval_odec o : opt_dval (odec_text o) = odec_val o.
Proof. destruct o as [[a b]|]; reflexivity. Qed.

Lemma trades_ok acct : forall ws row, Forall prow_ok ws -> Forall prow_sem ws ->
  trades_of_caps acct row (map caps_of ws) = Ok (pre_records acct row (map lay_of ws)).
Proof.
  induction ws as [|w ws IH]; intros row Hok Hsem; [reflexivity|].
  inversion Hok as [|? ? Hw Hws]; subst. inversion Hsem as [|? ? Sw Sws]; subst.
  destruct Hw as (_ & _ & _ & _ & (Q1 & Q2) & HP & Hc & Hf & _). destruct Sw as (P1 & P2 & PA & LQ & PV).
  cbn [map trades_of_caps pre_records]. unfold trade_of_caps.
  cbn [caps_of cp_td cp_sd cp_sym cp_act cp_n cp_price cp_comm cp_fee].
  rewrite P1, P2. cbn [bind]. destruct (action_of (w_act w)) as [a| |] eqn:EA; try discriminate PA. cbn [bind].
  pose proof HP as HP'. dsplit HP'. rewrite parse_large_dec by assumption. cbn [bind].
  rewrite parse_large_int by assumption. cbn [bind].
  rewrite (opt_dec_odec _ Hc). cbn [bind]. rewrite (opt_dec_odec _ Hf). cbn [bind].
  assert (EC : or_zero (option_map dval (odec_text (w_oc w))) = odec_val (w_oc w)) by (destruct (w_oc w) as [[? ?]|]; reflexivity).
  assert (EF : or_zero (option_map dval (odec_text (w_of w))) = odec_val (w_of w)) by (destruct (w_of w) as [[? ?]|]; reflexivity).
  rewrite EC, EF. destruct (a_add dec (odec_val (w_oc w)) (odec_val (w_of w))) as [v| |] eqn:EV; try discriminate PV. cbn [bind].
  rewrite (IH (S row) Hws Sws). cbn [bind].
  unfold lay_of. cbn [pl_td pl_sd pl_sym pl_act pl_qty pl_price pl_comm pl_fee].
  unfold sell_or_buy, dec_sum. rewrite EA, !opt_dval_odec, EV. reflexivity.
Qed.

Lemma render_row_rblk st w : prow_ok w -> render_pre_row st (lay_of w) = rblk st w [].
Proof.
  intros (_ & _ & _ & _ & _ & _ & _ & _ & Hne). unfold render_pre_row, rblk, lay_of, date_text, pmkt, pdesc, pend, comm_tail, opt_line.
  cbn [pl_td pl_sd pl_sym pl_act pl_qty pl_price pl_comm pl_fee].
  destruct (w_oc w) as [[a b]|], (w_of w) as [[a2 b2]|]; cbn [odec_text];
    try (destruct Hne; congruence); repeat (rewrite <- app_assoc || rewrite <- app_comm_cons); rewrite ?app_nil_r; reflexivity.
Qed.
Lemma render_rows_blocks st : forall ws i, Forall prow_ok ws ->
  flat_map (render_pre_row st) (map lay_of ws) = blocks (pblk st) i ws.
Proof.
  induction ws as [|w ws IH]; intros i H; [reflexivity|]. inversion H; subst.
  cbn [map flat_map blocks]. rewrite (render_row_rblk st w) by assumption. rewrite (IH (S i)) by assumption. reflexivity.
Qed.

Lemma pre_parse st acct ws :
  acct <> [] -> forallb is_acct acct = true -> Forall prow_ok ws -> Forall prow_sem ws ->
  parse_tc_pre (render_tc_pre st {| pr_acct := acct; pr_rows := map lay_of ws |})
  = Ok (pre_records acct 1 (map lay_of ws)).
Proof.
  intros Na Ha Hok Hsem. unfold render_tc_pre. cbn [pr_acct pr_rows].
  rewrite (render_rows_blocks st ws 1 Hok).
  replace (sty st pre0_0 pre1_0 ++ acct ++ sty st pre0_1 pre1_1 ++ acct ++ sty st pre0_2 pre1_2
           ++ blocks (pblk st) 1 ws ++ sty st pre0_foot pre1_foot)
    with (pre_hd st acct ++ blocks (pblk st) 1 ws ++ sty st pre0_foot pre1_foot)
    by (unfold pre_hd; rewrite <- !app_assoc; reflexivity).
  unfold parse_tc_pre. destruct (pre_account st acct (blocks (pblk st) 1 ws ++ sty st pre0_foot pre1_foot) Na Ha) as [rest E].
  rewrite E. cbn [bind].
  rewrite (rows_all_matches st ws (pre_hd st acct) _ Hok (fun X => hd_skip st acct X Ha) (foot_none st)).
  apply trades_ok; assumption.
Qed.

(* ------------------------------------------------------------------ the theorem *)
Definition dec_split (t : text) : text * text := let '(a, r) := span is_digit t in (a, tl r).
Lemma is_dec_split t : is_dec t = true ->
  t = fst (dec_split t) ++ 46 :: snd (dec_split t) /\ decparts (fst (dec_split t)) (snd (dec_split t)).
Proof.
  intros H. unfold dec_split. unfold is_dec in H. destruct (span is_digit t) as [a r] eqn:E.
  destruct (span_spec _ _ _ _ E) as [H1 H2]. destruct r as [|c b]; [discriminate|]. destruct (c =? 46) eqn:Ec.
  2:{ exfalso. destruct c as [|p]; [discriminate|]. repeat (destruct p as [p|p|]; try discriminate). }
  apply N.eqb_eq in Ec. subst c. cbn [fst snd tl]. split; [exact H1|].
  repeat (apply andb_true_iff in H; destruct H as [H ?]). repeat split; auto.
  - intros ->. discriminate.
  - intros ->. discriminate.
  - apply Nat.leb_le. assumption.
Qed.
Lemma optdec_split o : optdec_ok o = true -> odec_ok (option_map dec_split o) /\ odec_text (option_map dec_split o) = o.
Proof.
  destruct o as [t|]; cbn [optdec_ok option_map odec_ok odec_text]; intros H; [|split; [exact I|reflexivity]].
  destruct (is_dec_split t H) as [E D]. destruct (dec_split t) as [a b]. cbn [fst snd] in *. split; [exact D|]. rewrite <- E. reflexivity.
Qed.

Definition prow_of (t : pre_row_lay) : prow :=
  let '(m1, d1, y1) := pl_td t in let '(m2, d2, y2) := pl_sd t in
  {| w_m1 := m1; w_d1 := d1; w_y1 := y1; w_m2 := m2; w_d2 := d2; w_y2 := y2; w_sym := pl_sym t; w_act := pl_act t;
     w_qty := pl_qty t; w_pa := fst (dec_split (pl_price t)); w_pb := snd (dec_split (pl_price t));
     w_oc := option_map dec_split (pl_comm t); w_of := option_map dec_split (pl_fee t) |}.

Lemma digits_value_20 y : length y = 2%nat -> digits_value (50 :: 48 :: y) = 2000 + digits_value y.
Proof.
  destruct y as [|a [|b [|c y]]]; try discriminate. intros _. unfold digits_value. cbn [fold_left]. unfold digit_val. lia.
Qed.
Lemma date_short_spec m d y : date_ok_short (m, d, y) = true ->
  (digits m /\ digits d /\ digits y /\ m <> [] /\ d <> [] /\ y <> [])
  /\ parse_short_mdy (m, d, y) = Ok (date_ord_short (m, d, y)).
Proof.
  unfold date_ok_short. intros H. apply andb_true_iff in H. destruct H as [HL HD]. apply Nat.eqb_eq in HL.
  destruct (date_ok_spec _ _ _ HD) as (D1 & D2 & D3 & D4 & D5 & _ & P).
  assert (Dy : digits y). { unfold digits in *. cbn [forallb] in D3. apply andb_true_iff in D3. destruct D3 as [_ D3]. apply andb_true_iff in D3. exact (proj2 D3). }
  split; [repeat split; auto; intros ->; discriminate|].
  change (parse_short_mdy (m, d, y)) with (parse_mdy (m, d, 50 :: 48 :: y)). etransitivity; [exact P|].
  unfold date_ord, date_ord_short. rewrite (digits_value_20 y HL). reflexivity.
Qed.

Lemma pre_row_ok_spec t : pre_row_ok t = true -> prow_ok (prow_of t) /\ prow_sem (prow_of t) /\ lay_of (prow_of t) = t.
Proof.
  destruct t as [[[m1 d1] y1] [[m2 d2] y2] sym act qty price oc of]. unfold pre_row_ok.
  cbn [pl_td pl_sd pl_sym pl_act pl_qty pl_price pl_comm pl_fee]. intros H.
  apply andb_true_iff in H; destruct H as [H Wadd]. apply andb_true_iff in H; destruct H as [H Wne].
  apply andb_true_iff in H; destruct H as [H Wof]. apply andb_true_iff in H; destruct H as [H Woc].
  apply andb_true_iff in H; destruct H as [H Wprice]. apply andb_true_iff in H; destruct H as [H Wqty].
  apply andb_true_iff in H; destruct H as [H Wact3]. apply andb_true_iff in H; destruct H as [H Wact2].
  apply andb_true_iff in H; destruct H as [H Wact1]. apply andb_true_iff in H; destruct H as [H Wsym].
  apply andb_true_iff in H; destruct H as [Wtd Wsd].
  destruct (date_short_spec _ _ _ Wtd) as [T1 T2]. destruct (date_short_spec _ _ _ Wsd) as [S1 S2].
  destruct (sym_ok_spec _ Wsym) as (Y1 & Y2 & _).
  destruct (is_dec_split _ Wprice) as [EP DP]. destruct (optdec_split _ Woc) as [OC1 OC2]. destruct (optdec_split _ Wof) as [OF1 OF2].
  unfold int_ok in Wqty. apply andb_true_iff in Wqty. destruct Wqty as [Wq1 Wq2]. apply Nat.leb_le in Wq2.
  destruct (num_ok_spec _ Wq1) as [Q1 Q2].
  assert (Na : act <> []) by (intros ->; discriminate).
  unfold prow_of. cbn [pl_td pl_sd pl_sym pl_act pl_qty pl_price pl_comm pl_fee].
  split; [|split].
  - unfold prow_ok. cbn [w_m1 w_d1 w_y1 w_m2 w_d2 w_y2 w_sym w_act w_qty w_pa w_pb w_oc w_of].
    repeat split; try apply T1; try apply S1; try apply DP; auto.
    destruct oc, of; try discriminate Wne; cbn [option_map]; [left|left|right]; discriminate.
  - unfold prow_sem. cbn [w_m1 w_d1 w_y1 w_m2 w_d2 w_y2 w_sym w_act w_qty w_pa w_pb w_oc w_of].
    repeat split; auto.
    rewrite <- !opt_dval_odec, OC2, OF2. exact Wadd.
  - unfold lay_of. cbn [w_m1 w_d1 w_y1 w_m2 w_d2 w_y2 w_sym w_act w_qty w_pa w_pb w_oc w_of].
    rewrite <- EP, OC2, OF2. reflexivity.
Qed.

Theorem pre_text_roundtrip st r : wf_pre r = true ->
  parse_tc_pre (render_tc_pre st r) = Ok (pre_records (pr_acct r) 1 (pr_rows r)).
Proof.
  destruct r as [acct rows]. unfold wf_pre. cbn [pr_acct pr_rows]. intros H.
  apply andb_true_iff in H; destruct H as [H Wrows]. apply andb_true_iff in H; destruct H as [Wacct _].
  unfold acct_ok in Wacct. apply andb_true_iff in Wacct. destruct Wacct as [Wa1 Wa2].
  assert (Na : acct <> []) by (intros ->; discriminate).
  assert (HR : Forall (fun t => prow_ok (prow_of t) /\ prow_sem (prow_of t) /\ lay_of (prow_of t) = t) rows).
  { apply Forall_forall. intros t Ht. apply pre_row_ok_spec. rewrite forallb_forall in Wrows. exact (Wrows t Ht). }
  assert (EM : map lay_of (map prow_of rows) = rows).
  { rewrite map_map. rewrite <- (map_id rows) at 2. apply map_ext_in. intros t Ht. rewrite Forall_forall in HR. apply (HR t Ht). }
  assert (Hok : Forall prow_ok (map prow_of rows)).
  { apply Forall_forall. intros x Hx. apply in_map_iff in Hx. destruct Hx as (t & <- & Ht). rewrite Forall_forall in HR. apply (HR t Ht). }
  assert (Hsem : Forall prow_sem (map prow_of rows)).
  { apply Forall_forall. intros x Hx. apply in_map_iff in Hx. destruct Hx as (t & <- & Ht). rewrite Forall_forall in HR. apply (HR t Ht). }
  pose proof (pre_parse st acct (map prow_of rows) Na Wa2 Hok Hsem) as P. rewrite EM in P. exact P.
Qed.
