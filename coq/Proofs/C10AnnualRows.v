(* C10, annual mode: WHAT make_summary GENERATES.  per_affiliate in annual mode
   emits, per affiliate (in id order), a base purchase followed by one sale
   per gain year; the stable date sort puts all base purchases first (in
   affiliate order) and then the sales sorted by date.  The lists [hsA]
   (holdings) and [S] (sales) are those C10Annual.annual_rebuild is about. *)
From Coq Require Import List NArith ZArith QArith Qcanon Bool Lia Sorted Permutation.
From ACB Require Import Base.Outcome Base.QcExtra Base.Arith Model.Tx Model.Ledger Model.Sfl
     Model.DeltaList Model.App Model.Gains Model.Summary Proofs.Tactics Proofs.C15Full Proofs.C04Sum
     Proofs.RenderProps Proofs.C01Refine Proofs.EraseRi Proofs.SortLayout Proofs.SummaryProps Proofs.C10Scan Proofs.C10Sim
     Proofs.C10Cut Proofs.C10Roundtrip Proofs.C04Inv Proofs.C10Annual Proofs.C10Calendar.
From ACB Require Proofs.GainsProps Proofs.C16App.
Import ListNotations.
Local Open Scope Qc_scope.

(* ---------------------------------------------------------------- yearly_gains never fails under exact arithmetic *)
Fixpoint yg (af : aff) (ds : list delta) (acc : list (Z * Qc)) : list (Z * Qc) :=
  match ds with
  | [] => acc
  | d :: r =>
      if negb (aff_eqb (t_af (d_tx d)) af) then yg af r acc else
      match d_gain d with
      | Some g =>
          if Qceqb g 0 then yg af r acc else
          yg af r (zupdate (year_of_day (d_sd d))
                     ((match zlookup (year_of_day (d_sd d)) acc with Some v => v | None => 0 end) + g) acc)
      | None => yg af r acc
      end
  end.
Lemma yearly_gains_yg af ds : forall acc, yearly_gains exact af ds acc = Ok (yg af ds acc).
Proof.
  induction ds as [|d r IH]; intros acc; cbn [yearly_gains yg]; [reflexivity|].
  destruct (negb _); [apply IH|]. destruct (d_gain d) as [g|]; [|apply IH].
  destruct (Qceqb g 0); [apply IH|]. cbn [a_add exact bind]. apply IH.
Qed.

Lemma zupdate_in_keys k v l y : In y (map fst (zupdate k v l)) -> y = k \/ In y (map fst l).
Proof.
  induction l as [|[k' v'] l IH]; cbn [zupdate map fst]; intros H.
  - destruct H as [<-|[]]. left. reflexivity.
  - destruct (Z.eqb_spec k k') as [E|E]; cbn [map fst] in H.
    + destruct H as [<-|H]; [left; reflexivity | right; right; exact H].
    + destruct H as [<-|H]; [right; left; reflexivity|]. destruct (IH H) as [->|Hi]; [left; reflexivity | right; right; exact Hi].
Qed.
Lemma yg_keys af ds : forall acc, NoDup (map fst acc) ->
  NoDup (map fst (yg af ds acc))
  /\ (forall y, In y (map fst (yg af ds acc)) -> In y (map fst acc) \/ exists d, In d ds /\ y = year_of_day (d_sd d)).
Proof.
  induction ds as [|d r IH]; intros acc Hnd; cbn [yg].
  - split; [exact Hnd | intros y Hy; left; exact Hy].
  - assert (Hskip : NoDup (map fst (yg af r acc))
             /\ (forall y, In y (map fst (yg af r acc)) -> In y (map fst acc) \/ exists d0, In d0 (d :: r) /\ y = year_of_day (d_sd d0))).
    { destruct (IH acc Hnd) as [I1 I2]. split; [exact I1|]. intros y Hy. destruct (I2 y Hy) as [Ha|(d1 & Hd1 & E)]; [left; exact Ha|].
      right. exists d1. split; [right; exact Hd1 | exact E]. }
    destruct (negb _); [exact Hskip|]. destruct (d_gain d) as [g|]; [|exact Hskip].
    destruct (Qceqb g 0); [exact Hskip|].
    match goal with |- context [yg af r ?a] => destruct (IH a (GainsProps.zupdate_keys _ _ _ Hnd)) as [I1 I2] end.
    split; [exact I1|]. intros y Hy. destruct (I2 y Hy) as [Ha|(d1 & Hd1 & E)].
    + apply zupdate_in_keys in Ha as [->|Ha]; [|left; exact Ha]. right. exists d. split; [left; reflexivity | reflexivity].
    + right. exists d1. split; [right; exact Hd1 | exact E].
Qed.

Lemma insert_year_perm y l : Permutation (insert_year y l) (y :: l).
Proof.
  induction l as [|h l IH]; cbn [insert_year]; [reflexivity|].
  destruct (_ <=? _)%Z; [reflexivity|]. rewrite IH. apply perm_swap.
Qed.
Lemma sort_years_perm l : Permutation (sort_years l) l.
Proof. induction l as [|a l IH]; cbn; [constructor|]. rewrite insert_year_perm. constructor. exact IH. Qed.

(* ---------------------------------------------------------------- the rows generated for one affiliate *)
Definition gen_row : Type := (ahold + asell)%type.
Fixpoint lefts (l : list gen_row) : list ahold :=
  match l with [] => [] | inl h :: r => h :: lefts r | inr _ :: r => lefts r end.
Fixpoint rights (l : list gen_row) : list asell :=
  match l with [] => [] | inl _ :: r => rights r | inr s :: r => s :: rights r end.
Lemma lefts_app a b : lefts (a ++ b) = lefts a ++ lefts b.
Proof. induction a as [|[h|s] a IH]; cbn [app lefts]; [reflexivity | rewrite IH; reflexivity | exact IH]. Qed.
Lemma rights_app a b : rights (a ++ b) = rights a ++ rights b.
Proof. induction a as [|[h|s] a IH]; cbn [app rights]; [reflexivity | exact IH | rewrite IH; reflexivity]. Qed.
Lemma lefts_inr l : lefts (map inr l) = [].
Proof. induction l; cbn; auto. Qed.
Lemma rights_inr l : rights (map inr l) = l.
Proof. induction l as [|s l IH]; cbn [map rights]; [reflexivity | rewrite IH; reflexivity]. Qed.

Section Gen.
  Variable like : tx.
  Variable ds : list delta.
  Variable dflt : delta.
  Variable d0 : Z.
  Hypothesis Hd0 : d0 = jan1 (year_of_day (d_sd (nth 0 ds dflt)) - 1).

  Definition x_d (x : aff * nat) : delta := nth (snd x) ds dflt.
  Definition x_sh (x : aff * nat) : Qc := s_sh (d_post (x_d x)).
  Definition x_ys (x : aff * nat) : list (Z * Qc) :=
    if af_reg (fst x) then [] else sort_years (yg (fst x) (firstn (S (snd x)) ds) []).
  Definition x_apsv (x : aff * nat) : Qc :=
    match s_acb (d_post (x_d x)) with
    | Some c => if Qcltb 0 (x_sh x) then c / x_sh x else 0
    | None => 0
    end.
  Definition x_h (x : aff * nat) : ahold :=
    {| ah_af := fst x; ah_sh := x_sh x;
       ah_aps := match s_acb (d_post (x_d x)) with Some _ => Some (x_apsv x) | None => None end;
       ah_n := x_sh x + qn (length (x_ys x)) |}.
  Definition x_sells (x : aff * nat) : list asell := map (ysell (fst x) (x_apsv x)) (x_ys x).
  Definition x_hl (x : aff * nat) : list ahold := if Qcltb 0 (ah_n (x_h x)) then [x_h x] else [].
  Definition x_gen (x : aff * nat) : list gen_row := map inl (x_hl x) ++ map inr (x_sells x).
  Definition tx_of (g : gen_row) : tx :=
    match g with inl h => abuy_tx like d0 h | inr s => asell_tx like s end.

  Definition x_good (x : aff * nat) : Prop :=
    t_sec (d_tx (x_d x)) = t_sec like /\ 0 <= x_sh x
    /\ (af_reg (fst x) = true -> s_acb (d_post (x_d x)) = None)
    /\ (af_reg (fst x) = false -> exists c, s_acb (d_post (x_d x)) = Some c /\ 0 <= c).

  Lemma annual_summary_x x : x_good x ->
    annual_summary exact (fst x) (year_of_day (d_sd (nth 0 ds dflt))) (firstn (S (snd x)) ds) (x_d x)
    = Ok (map tx_of (x_gen x)).
  Proof.
    intros (Hsec & Hsh & Hr1 & Hr2). unfold x_gen, x_hl. rewrite map_app, !map_map. cbn [tx_of].
    destruct (af_reg (fst x)) eqn:Er.
    - specialize (Hr1 eq_refl). unfold annual_summary. rewrite Er. cbn [bind sort_years fold_right length].
      fold (x_sh x). rewrite Hr1. cbn [bind].
      assert (E0 : QcZ (Z.of_nat 0) = qn 0) by (symmetry; apply qn_QcZ). rewrite E0. cbn [qn].
      assert (Hn : 0 <= x_sh x + 0) by qc_lra.
      rewrite (gez_add_ok _ _ Hn). cbn [bind year_sells].
      unfold x_h, x_sells, x_ys. rewrite Er, Hr1. cbn [length qn map ah_n app].
      destruct (Qcltb 0 (x_sh x + 0)); cbn [map app]; [|reflexivity].
      unfold abuy_tx, mk_tx. cbn [ah_n ah_aps ah_af]. rewrite Hsec, Hd0. reflexivity.
    - destruct (Hr2 eq_refl) as (c & Hc & Hc0).
      pose proof (annual_summary_rows (fst x) (year_of_day (d_sd (nth 0 ds dflt))) (firstn (S (snd x)) ds) (x_d x)
                    (yg (fst x) (firstn (S (snd x)) ds) []) c Er (yearly_gains_yg _ _ _) Hc Hc0 Hsh) as E.
      cbv zeta in E. rewrite E. clear E.
      unfold x_h, x_sells, x_ys, x_apsv. rewrite Er, Hc. fold (x_sh x). cbn [ah_n].
      f_equal. f_equal.
      + destruct (Qcltb 0 (x_sh x + qn (length (sort_years (yg (fst x) (firstn (S (snd x)) ds) []))))); cbn [map]; [|reflexivity].
        unfold abuy_tx, mk_tx. cbn [ah_n ah_aps ah_af]. rewrite Hsec, Hd0. reflexivity.
      + rewrite map_map. apply map_ext. intros a. unfold asell_tx, mk_tx. rewrite Hsec. reflexivity.
  Qed.

  Lemma per_affiliate_annual afs : (forall x, In x afs -> x_good x) ->
    per_affiliate exact true ds dflt afs = Ok (map tx_of (flat_map x_gen afs)).
  Proof.
    induction afs as [|[af i] afs IH]; intros H; cbn [per_affiliate flat_map]; [reflexivity|].
    rewrite IH by (intros x Hx; apply H; right; exact Hx).
    pose proof (annual_summary_x (af, i) (H _ (or_introl eq_refl))) as E. cbn [fst snd] in E. unfold x_d in E. cbn [snd] in E.
    rewrite E. cbn [bind]. rewrite map_app. reflexivity.
  Qed.

  (* ---------------------------------------------------------------- the stable date sort of the generated rows *)
  Fixpoint ins_as (s : asell) (l : list asell) : list asell :=
    match l with
    | [] => [s]
    | h :: r => if (as_date s <=? as_date h)%Z then s :: l else h :: ins_as s r
    end.
  Definition sort_as (l : list asell) : list asell := fold_right ins_as [] l.
  Lemma ins_as_perm s l : Permutation (ins_as s l) (s :: l).
  Proof.
    induction l as [|h l IH]; cbn [ins_as]; [reflexivity|].
    destruct (_ <=? _)%Z; [reflexivity|]. rewrite IH. apply perm_swap.
  Qed.
  Lemma sort_as_perm l : Permutation (sort_as l) l.
  Proof. induction l as [|a l IH]; cbn; [constructor|]. rewrite ins_as_perm. constructor. exact IH. Qed.
  Definition as_sorted (l : list asell) : Prop := StronglySorted (fun a b => (as_date a <= as_date b)%Z) l.
  Lemma ins_as_sorted s l : as_sorted l -> as_sorted (ins_as s l).
  Proof.
    induction 1 as [|h l Hl IH Hh]; cbn [ins_as]; [repeat constructor|].
    destruct (Z.leb_spec (as_date s) (as_date h)) as [Hle|Hgt].
    - constructor; [constructor; assumption|]. constructor; [exact Hle|].
      eapply Forall_impl; [|exact Hh]. intros a Ha. cbv beta in Ha. lia.
    - constructor; [exact IH|]. eapply Permutation_Forall; [symmetry; apply ins_as_perm|].
      constructor; [lia | exact Hh].
  Qed.
  Lemma sort_as_sorted l : as_sorted (sort_as l).
  Proof. induction l as [|a l IH]; cbn; [constructor | apply ins_as_sorted; exact IH]. Qed.

  Lemma insert_sd_asell s l : insert_sd (asell_tx like s) (map (asell_tx like) l) = map (asell_tx like) (ins_as s l).
  Proof.
    induction l as [|h l IH]; cbn [map insert_sd ins_as]; [reflexivity|].
    change (t_sd (asell_tx like s)) with (as_date s). change (t_sd (asell_tx like h)) with (as_date h).
    destruct (_ <=? _)%Z; cbn [map]; [reflexivity|]. rewrite IH. reflexivity.
  Qed.
  Lemma insert_sd_past t A B : Forall (fun y => (t_sd y < t_sd t)%Z) A -> insert_sd t (A ++ B) = A ++ insert_sd t B.
  Proof.
    induction 1 as [|a A Ha HA IH]; cbn [app insert_sd]; [reflexivity|].
    assert (E : (t_sd t <=? t_sd a)%Z = false) by (apply Z.leb_gt; exact Ha). rewrite E, IH. reflexivity.
  Qed.

  Lemma sort_sd_gen l : Forall (fun s => (d0 < as_date s)%Z) (rights l) ->
    sort_sd (map tx_of l) = map (abuy_tx like d0) (lefts l) ++ map (asell_tx like) (sort_as (rights l)).
  Proof.
    induction l as [|[h|s] l IH]; intros HF; cbn [map lefts rights]; [reflexivity| |].
    - unfold sort_sd. cbn [fold_right]. fold (sort_sd (map tx_of l)). rewrite (IH HF). cbn [tx_of app].
      apply C16App.insert_sd_first. apply Forall_app. split.
      + apply Forall_map. apply Forall_forall. intros h' _. cbn. lia.
      + apply Forall_map. apply Forall_forall. intros s' Hs'. change (t_sd (abuy_tx like d0 h)) with d0.
        change (t_sd (asell_tx like s')) with (as_date s').
        apply (Permutation_in _ (sort_as_perm _)) in Hs'. rewrite Forall_forall in HF. specialize (HF _ Hs'). lia.
    - apply Forall_cons_iff in HF as [Hs HF].
      unfold sort_sd. cbn [fold_right]. fold (sort_sd (map tx_of l)). rewrite (IH HF). cbn [tx_of].
      rewrite insert_sd_past.
      + rewrite insert_sd_asell. reflexivity.
      + apply Forall_map. apply Forall_forall. intros h' _. change (t_sd (abuy_tx like d0 h')) with d0.
        change (t_sd (asell_tx like s)) with (as_date s). exact Hs.
  Qed.

  Lemma erase_gen l : map erase (map tx_of l) = map tx_of l.
  Proof. induction l as [|[h|s] l IH]; cbn [map]; [reflexivity | |]; rewrite IH; reflexivity. Qed.

  (* ---------------------------------------------------------------- the lists of holdings and sales *)
  Lemma lefts_gen afs : lefts (flat_map x_gen afs) = flat_map x_hl afs.
  Proof.
    induction afs as [|x afs IH]; cbn [flat_map]; [reflexivity|]. unfold x_gen at 1.
    rewrite !lefts_app, lefts_inr, app_nil_r, IH. f_equal.
    induction (x_hl x) as [|h l IHl]; cbn [map lefts]; [reflexivity | rewrite IHl; reflexivity].
  Qed.
  Lemma rights_gen afs : rights (flat_map x_gen afs) = flat_map x_sells afs.
  Proof.
    induction afs as [|x afs IH]; cbn [flat_map]; [reflexivity|]. unfold x_gen at 1.
    rewrite !rights_app, rights_inr, IH. f_equal.
    induction (x_hl x) as [|h l IHl]; cbn [map rights app]; [reflexivity | exact IHl].
  Qed.
End Gen.

(* ---------------------------------------------------------------- facts about the two lists *)
Lemma nodup_app {T} (a b : list T) : NoDup a -> NoDup b -> (forall x, In x a -> ~ In x b) -> NoDup (a ++ b).
Proof.
  induction 1 as [|x a Hx Ha IH]; intros Hb Hd; cbn [app]; [exact Hb|].
  constructor.
  - intros Hin. apply in_app_or in Hin as [Hin|Hin]; [exact (Hx Hin) | exact (Hd x (or_introl eq_refl) Hin)].
  - apply IH; [exact Hb|]. intros y Hy. apply Hd. right. exact Hy.
Qed.
Lemma cnt_app id a b : cnt id (a ++ b) = (cnt id a + cnt id b)%nat.
Proof. induction a as [|s a IH]; cbn [app cnt]; [reflexivity|]. destruct (N.eqb _ _); rewrite IH; reflexivity. Qed.
Lemma cnt_perm id a b : Permutation a b -> cnt id a = cnt id b.
Proof.
  induction 1 as [|x a b H IH|x y a|a b c H1 IH1 H2 IH2]; cbn [cnt]; try reflexivity.
  - rewrite IH. reflexivity.
  - destruct (N.eqb _ _), (N.eqb _ _); reflexivity.
  - rewrite IH1. exact IH2.
Qed.
Lemma tot_sh_app a b : tot_sh (a ++ b) = tot_sh a + tot_sh b.
Proof. induction a as [|h a IH]; cbn [app tot_sh]; [ring|]. rewrite IH. ring. Qed.

Lemma find_app_local {T} (f : T -> bool) a b :
  find f (a ++ b) = match find f a with Some x => Some x | None => find f b end.
Proof. induction a as [|x a IH]; cbn [app find]; [reflexivity|]. destruct (f x); [reflexivity | exact IH]. Qed.
Definition aid (x : aff * nat) : N := af_id (fst x).
Definition is_jan1 (s : asell) : Prop := exists y, as_date s = jan1 y.

Lemma in_gap_sorted l : as_sorted l -> Forall is_jan1 l -> StronglySorted (fun a b => in_gap (as_date a) b) l.
Proof.
  induction 1 as [|a l Hl IH Ha]; intros HF; [constructor|].
  apply Forall_cons_iff in HF as [(ya & Ea) HF]. constructor; [apply IH; exact HF|].
  apply Forall_forall. intros b Hb. rewrite Forall_forall in Ha, HF. specialize (Ha b Hb). destruct (HF b Hb) as (yb & Eb).
  unfold in_gap, window_days. rewrite Ea, Eb in *.
  destruct (Z.lt_trichotomy ya yb) as [H|[H|H]].
  - right. pose proof (jan1_lt ya yb H). lia.
  - left. rewrite H. reflexivity.
  - exfalso. pose proof (jan1_lt yb ya H). lia.
Qed.

Section Facts.
  Variable ds : list delta.
  Variable dflt : delta.
  Notation x_h := (x_h ds dflt).
  Notation x_hl := (x_hl ds dflt).
  Notation x_ys := (x_ys ds).
  Notation x_sells := (x_sells ds dflt).
  Notation x_sh := (x_sh ds dflt).
  Notation x_d := (x_d ds dflt).
  Notation x_apsv := (x_apsv ds dflt).

  Lemma in_hl afs h : In h (flat_map x_hl afs) -> exists x, In x afs /\ 0 < ah_n (x_h x) /\ h = x_h x.
  Proof.
    intros H. apply in_flat_map in H as (x & Hx & Hh). exists x. split; [exact Hx|]. unfold C10AnnualRows.x_hl in Hh.
    destruct (Qcltb_spec 0 (ah_n (x_h x))) as [Hp|]; [|destruct Hh]. destruct Hh as [<-|[]]. split; [exact Hp | reflexivity].
  Qed.
  Lemma in_sells afs s : In s (flat_map x_sells afs) ->
    exists x yg, In x afs /\ In yg (x_ys x) /\ s = ysell (fst x) (x_apsv x) yg.
  Proof.
    intros H. apply in_flat_map in H as (x & Hx & Hs). unfold C10AnnualRows.x_sells in Hs.
    apply in_map_iff in Hs as (yg0 & <- & Hy). exists x, yg0. auto.
  Qed.

  Lemma nodup_hl afs : NoDup (map aid afs) -> NoDup (map (fun h => af_id (ah_af h)) (flat_map x_hl afs)).
  Proof.
    induction afs as [|x afs IH]; intros Hnd; [constructor|].
    apply NoDup_cons_iff in Hnd as [Hni Hnd]. cbn [flat_map]. rewrite map_app.
    apply nodup_app; [| apply IH; exact Hnd |].
    - unfold C10AnnualRows.x_hl. destruct (Qcltb 0 _); cbn [map]; repeat constructor. intros [].
    - intros k Hk Hk2. unfold C10AnnualRows.x_hl in Hk. destruct (Qcltb 0 _); [|destruct Hk].
      destruct Hk as [<-|[]]. apply in_map_iff in Hk2 as (h & Eh & Hh). apply in_hl in Hh as (y & Hy & _ & ->).
      cbn [x_h ah_af C10AnnualRows.x_h] in Eh. apply Hni. apply in_map_iff. exists y. split; [exact Eh | exact Hy].
  Qed.

  Lemma find_ah_gen afs : NoDup (map aid afs) -> forall af,
    find_ah (flat_map x_hl afs) af
    = match find (fun x => N.eqb (aid x) (af_id af)) afs with
      | Some x => if Qcltb 0 (ah_n (x_h x)) then Some (x_h x) else None
      | None => None
      end.
  Proof.
    induction afs as [|x afs IH]; intros Hnd af; [reflexivity|].
    apply NoDup_cons_iff in Hnd as [Hni Hnd]. cbn [flat_map find]. unfold find_ah in *. rewrite find_app_local.
    unfold aid at 1. destruct (N.eqb (af_id (fst x)) (af_id af)) eqn:E.
    - unfold C10AnnualRows.x_hl at 1. destruct (Qcltb 0 (ah_n (x_h x))).
      + cbn [find x_h ah_af C10AnnualRows.x_h]. rewrite E. reflexivity.
      + cbn [find]. rewrite (IH Hnd af).
        destruct (find (fun x0 => N.eqb (aid x0) (af_id af)) afs) as [y|] eqn:Ef; [|reflexivity].
        exfalso. apply find_some in Ef as [Hy Ey]. apply N.eqb_eq in E. apply N.eqb_eq in Ey.
        apply Hni. apply in_map_iff. exists y. split; [unfold aid in *; congruence | exact Hy].
    - unfold C10AnnualRows.x_hl at 1. destruct (Qcltb 0 (ah_n (x_h x))).
      + cbn [find x_h ah_af C10AnnualRows.x_h]. rewrite E. apply (IH Hnd af).
      + cbn [find]. apply (IH Hnd af).
  Qed.

  Lemma cnt_sells_other id x : aid x <> id -> cnt id (x_sells x) = O.
  Proof.
    intros Hn. unfold C10AnnualRows.x_sells. induction (x_ys x) as [|yg0 l IH]; cbn [map cnt]; [reflexivity|].
    cbn [ysell as_af]. destruct (N.eqb_spec (af_id (fst x)) id) as [E|_]; [contradiction | exact IH].
  Qed.
  Lemma cnt_sells_own x : cnt (aid x) (x_sells x) = length (x_ys x).
  Proof.
    unfold C10AnnualRows.x_sells. induction (x_ys x) as [|yg0 l IH]; cbn [map cnt length]; [reflexivity|].
    cbn [ysell as_af]. unfold aid at 1. rewrite N.eqb_refl, IH. reflexivity.
  Qed.
  Lemma cnt_gen afs : NoDup (map aid afs) -> forall x, In x afs -> cnt (aid x) (flat_map x_sells afs) = length (x_ys x).
  Proof.
    induction afs as [|y afs IH]; intros Hnd x Hx; [destruct Hx|].
    apply NoDup_cons_iff in Hnd as [Hni Hnd]. cbn [flat_map]. rewrite cnt_app. destruct Hx as [->|Hx].
    - rewrite cnt_sells_own. assert (E : cnt (aid x) (flat_map x_sells afs) = O); [|lia].
      clear -Hni. induction afs as [|z afs IH]; cbn [flat_map]; [reflexivity|]. rewrite cnt_app, cnt_sells_other, IH; [reflexivity| |].
      + intros Hc. apply Hni. right. exact Hc.
      + intros Ez. apply Hni. left. exact Ez.
    - rewrite cnt_sells_other, (IH Hnd x Hx); [reflexivity|]. intros E. apply Hni. rewrite E. apply in_map. exact Hx.
  Qed.

  Lemma nodup_akey afs : NoDup (map aid afs) -> (forall x, In x afs -> NoDup (map fst (x_ys x))) ->
    NoDup (map akey (flat_map x_sells afs)).
  Proof.
    induction afs as [|x afs IH]; intros Hnd Hy; [constructor|].
    apply NoDup_cons_iff in Hnd as [Hni Hnd]. cbn [flat_map]. rewrite map_app. apply nodup_app.
    - pose proof (Hy x (or_introl eq_refl)) as Hx. unfold C10AnnualRows.x_sells. clear -Hx.
      induction (x_ys x) as [|yg0 l IH]; cbn [map] in *; [constructor|].
      apply NoDup_cons_iff in Hx as [Hn Hx]. constructor; [|apply IH; exact Hx].
      intros Hc. apply in_map_iff in Hc as (s & Es & Hs). apply in_map_iff in Hs as (yg1 & <- & Hy1).
      unfold akey, ysell in Es. cbn [as_af as_date] in Es. inversion Es as [Ej]. apply jan1_inj in Ej.
      apply Hn. rewrite <- Ej. apply in_map. exact Hy1.
    - apply IH; [exact Hnd|]. intros y Hyin. apply Hy. right. exact Hyin.
    - intros k Hk Hk2. apply in_map_iff in Hk as (s & <- & Hs). apply in_map_iff in Hk2 as (s2 & E2 & Hs2).
      unfold C10AnnualRows.x_sells in Hs. apply in_map_iff in Hs as (yg1 & <- & _).
      apply in_sells in Hs2 as (z & yg2 & Hz & _ & ->). unfold akey, ysell in E2. cbn [as_af as_date] in E2.
      inversion E2 as [[Eid Edate]]. apply Hni. apply in_map_iff. exists z. split; [exact Eid | exact Hz].
  Qed.
End Facts.
