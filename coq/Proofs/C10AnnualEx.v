(* C10, annual mode at the entry points: executable side conditions, the
   relation between the two annual classes, and two concrete histories
   (non-vacuity): the history of C10Annual (wholly summarisable prefix) and one
   with a RE-EMITTED row (a purchase inside the window of a later superficial
   loss) - both with a later superficial loss. *)
From Coq Require Import List NArith ZArith QArith Qcanon Bool Lia Sorted.
From ACB Require Import Base.Outcome Base.QcExtra Base.Arith Model.Tx Model.Ledger Model.Sfl
     Model.DeltaList Model.App Model.Summary Model.SummaryObs Model.SummaryApp Proofs.SummaryProps Proofs.C15Full Proofs.SortLayout
     Proofs.C10Scan Proofs.C10Sim Proofs.C10Roundtrip Proofs.C10Ranges Proofs.C10Cut Proofs.C10Window Proofs.C10Classes
     Proofs.C10Entry Proofs.C10Examples Proofs.C10Annual Proofs.C10AnnualEntry.
Import ListNotations.
Local Open Scope Z_scope.

Theorem roundtrip_annual_single_security_exec regof sec latest rows0 :
  let rows := number_from 0 rows0 in
  Forall (rowQ regof sec) rows0 -> forallb valid_tx rows0 = true -> K_zero_sfl_cell rows0 = false ->
  history_ok exact rows = true ->
  K_annual_row_in_window exact latest true rows = false ->
  K_zero_balance_acb exact latest rows = false ->
  (forall sums, make_summary exact latest (fst (sec_run exact rows)) true = Ok sums -> through_csv sums = sums) ->
  roundtrip_ok exact latest true rows = true /\ roundtrip_obs_ok exact latest true rows = true.
Proof.
  intros rows HQ Hv Hz. apply (roundtrip_annual_single_security regof sec);
    [exact HQ | apply spec_nz_of_cells; assumption | apply sell_pos_of_valid; exact Hv].
Qed.

(* the class of the theorem contains K_annual_sell_in_window *)
Lemma K2s_contains_K2 A latest annual rows :
  K_annual_sell_in_window A latest annual rows = true -> K_annual_row_in_window A latest annual rows = true.
Proof.
  unfold K_annual_sell_in_window, K_annual_row_in_window, K2_of, K2s_of.
  destruct (summary_ranges latest (fst (sec_run A rows))) as [rg|]; [|discriminate].
  destruct (make_summary_parts A latest (fst (sec_run A rows)) annual) as [[gen kept]| |]; try discriminate.
  intros H. apply existsb_exists in H as (s & Hs & H). apply andb_prop in H as [H1 H2].
  apply existsb_exists in H2 as (d & Hd & H2). apply andb_prop in H2 as [_ H2].
  apply existsb_exists. exists s. split; [exact Hs|]. rewrite H1. cbn [andb].
  apply existsb_exists. exists d. split; assumption.
Qed.

(* ---------------------------------------------------------------- non-vacuity *)
Lemma an_entry_hypotheses :
  number_from 0 an_rows = an_rows
  /\ Forall (rowQ no_reg 0) an_rows /\ forallb valid_tx an_rows = true /\ K_zero_sfl_cell an_rows = false
  /\ history_ok exact an_rows = true
  /\ K_annual_row_in_window exact an_date true an_rows = false
  /\ K_zero_balance_acb exact an_date an_rows = false
  /\ (forall sums, make_summary exact an_date (fst (sec_run exact an_rows)) true = Ok sums -> through_csv sums = sums)
  /\ existsb is_sfl_delta (later_deltas an_date (fst (sec_run exact an_rows))) = true.
Proof.
  split; [reflexivity|]. split; [repeat constructor|]. split; [vm_compute; reflexivity|]. split; [vm_compute; reflexivity|].
  split; [vm_compute; reflexivity|]. split; [vm_compute; reflexivity|]. split; [vm_compute; reflexivity|].
  split; [|vm_compute; reflexivity].
  intros sums H. vm_compute in H. inversion H; subst sums. vm_compute. reflexivity.
Qed.

(* the history of C10Annual with a purchase ten days before a later
   superficial loss; the date falls between them: the purchase is re-emitted *)
Definition an2_rows : list tx :=
  an_P ++ [wrow 5 737670 (wbuy 3 19) default_aff; wrow 6 737680 (wsell 5 18) default_aff;
           wrow 7 737700 (wsell 1 30) spouse_aff].
Definition an2_date : Z := 737675.
Lemma an2_entry_hypotheses :
  number_from 0 an2_rows = an2_rows
  /\ Forall (rowQ no_reg 0) an2_rows /\ forallb valid_tx an2_rows = true /\ K_zero_sfl_cell an2_rows = false
  /\ history_ok exact an2_rows = true
  /\ K_annual_row_in_window exact an2_date true an2_rows = false
  /\ K_zero_balance_acb exact an2_date an2_rows = false
  /\ (forall sums, make_summary exact an2_date (fst (sec_run exact an2_rows)) true = Ok sums -> through_csv sums = sums)
  /\ match make_summary_parts exact an2_date (fst (sec_run exact an2_rows)) true with
     | Ok (gen, kept) => (length gen, map (fun t => act_tag (t_act t)) kept)
     | _ => (O, [])
     end = (5%nat, [0%N])
  /\ map (fun d => (d_sd d, is_sfl_delta d)) (later_deltas an2_date (fst (sec_run exact an2_rows)))
     = [(737680, true); (737680, false); (737700, false)].
Proof.
  split; [reflexivity|]. split; [repeat constructor|]. split; [vm_compute; reflexivity|]. split; [vm_compute; reflexivity|].
  split; [vm_compute; reflexivity|]. split; [vm_compute; reflexivity|]. split; [vm_compute; reflexivity|].
  split; [|split; vm_compute; reflexivity].
  intros sums H. vm_compute in H. inversion H; subst sums. vm_compute. reflexivity.
Qed.
