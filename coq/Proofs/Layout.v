(* C07 / C08 at the level of the application: what is computed for a security
   depends only on that security's rows, in input order, stably sorted by
   settlement date (and on its opening position). *)
From Coq Require Import List NArith ZArith QArith Qcanon Bool Lia.
From ACB Require Import Base.Outcome Base.QcExtra Base.Arith Model.Tx Model.Ledger Model.Sfl
     Model.DeltaList Model.App Proofs.EraseRi Proofs.SortLayout.
Import ListNotations.

Definition result : Type := (list delta * option stop)%type.
Definition erase_result (r : result) : result := (map erase_d (fst r), snd r).

(* the report of one security from its (sorted) rows *)
Definition sec_result_of (A : arith) (init : option status) (rows : list tx) : result :=
  match replace_global_splits (match init with Some _ => true | None => false end) rows with
  | Ok l => run A init l
  | Rej e => ([], Some (SRej e))
  | Panic p => ([], Some (SPanic p))
  end.

Lemma run_secs_spec A inits all secs :
  run_secs A inits all secs
  = Ok (map (fun s => (s, sec_result_of A (init_for inits s) (txs_of_sec s all))) secs).
Proof.
  induction secs as [|s secs IH]; cbn [run_secs map]; [reflexivity|].
  rewrite IH. cbn [bind]. unfold sec_result_of.
  destruct (replace_global_splits _ _); reflexivity.
Qed.

(* ---- erasing read indices commutes with the global-split expansion ---- *)
Lemma near_split_scan_erase target back l :
  near_split_scan target back (map erase l) = near_split_scan target back l.
Proof.
  induction l as [|x l IH]; cbn [map near_split_scan]; [reflexivity|].
  cbn [erase t_td t_act t_glob]. rewrite IH. reflexivity.
Qed.

Lemma global_split_check_erase bef l :
  global_split_check (map erase bef) (map erase l) = global_split_check bef l.
Proof.
  revert bef. induction l as [|x l IH]; intros bef; cbn [map global_split_check]; [reflexivity|].
  cbn [erase t_act t_glob t_td]. rewrite !near_split_scan_erase.
  change (erase x :: map erase bef) with (map erase (x :: bef)). rewrite IH. reflexivity.
Qed.

Lemma holders_erase h l : holders h (map erase l) = holders h l.
Proof.
  unfold holders. f_equal. generalize (if h then [default_aff] else []) as acc.
  induction l as [|x l IH]; intros acc; cbn [map fold_left]; [reflexivity|].
  cbn [erase t_glob t_af]. apply IH.
Qed.

Lemma expand_with_erase affs l : expand_with affs (map erase l) = map erase (expand_with affs l).
Proof.
  unfold expand_with. induction l as [|x l IH]; cbn [map flat_map]; [reflexivity|].
  rewrite IH, map_app. f_equal. cbn [erase t_act t_glob].
  destruct (is_split (t_act x) && t_glob x); [|reflexivity].
  rewrite !map_map. reflexivity.
Qed.

Lemma replace_global_splits_erase h l :
  replace_global_splits h (map erase l) = map_res (map erase) (replace_global_splits h l).
Proof.
  unfold replace_global_splits.
  change (@nil tx) with (map erase []) at 1. rewrite global_split_check_erase.
  destruct (negb (global_split_check [] l)); [reflexivity|].
  assert (E : existsb (fun t => is_split (t_act t) && t_glob t) (map erase l)
              = existsb (fun t => is_split (t_act t) && t_glob t) l).
  { induction l as [|x l IH]; cbn [map existsb]; [reflexivity|]. rewrite IH. reflexivity. }
  rewrite E. destruct (negb _); [reflexivity|].
  rewrite holders_erase, expand_with_erase. reflexivity.
Qed.

Lemma sec_result_of_erase A init rows :
  sec_result_of A init (map erase rows) = erase_result (sec_result_of A init rows).
Proof.
  unfold sec_result_of. rewrite replace_global_splits_erase.
  destruct (replace_global_splits _ rows) as [l| |]; cbn [map_res]; try reflexivity.
  rewrite run_erase. destruct (run A init l). reflexivity.
Qed.

(* ---- layout invariance ---- *)
Theorem layout_invariance A init s l l' :
  (forall k, filter (on_day k) (txs_of_sec s (map erase l))
             = filter (on_day k) (txs_of_sec s (map erase l'))) ->
  erase_result (sec_result_of A init (txs_of_sec s (sort_txs (number l))))
  = erase_result (sec_result_of A init (txs_of_sec s (sort_txs (number l')))).
Proof.
  intros H. rewrite <- !sec_result_of_erase, !sec_rows_spec.
  rewrite (sort_sd_layout _ _ H). reflexivity.
Qed.

(* ---- interleavings of two inputs ---- *)
Inductive interleave {T} : list T -> list T -> list T -> Prop :=
| il_nil : interleave [] [] []
| il_left x a b i : interleave a b i -> interleave (x :: a) b (x :: i)
| il_right y a b i : interleave a b i -> interleave a (y :: b) (y :: i).

Lemma interleave_filter {T} (p : T -> bool) a b i :
  interleave a b i -> Forall (fun y => p y = false) b -> filter p i = filter p a.
Proof.
  induction 1 as [|x a b i Hi IH|y a b i Hi IH]; intros HF; cbn [filter].
  - reflexivity.
  - rewrite (IH HF). reflexivity.
  - apply Forall_cons_iff in HF as [Hy HF]. rewrite Hy. apply IH. exact HF.
Qed.

Lemma interleave_map {T U} (f : T -> U) a b i :
  interleave a b i -> interleave (map f a) (map f b) (map f i).
Proof. induction 1; cbn [map]; constructor; assumption. Qed.

Theorem independent_of_other_securities A init s a b i :
  interleave a b i ->
  Forall (fun y => N.eqb (t_sec y) s = false) b ->
  erase_result (sec_result_of A init (txs_of_sec s (sort_txs (number i))))
  = erase_result (sec_result_of A init (txs_of_sec s (sort_txs (number a)))).
Proof.
  intros Hi Hb. apply layout_invariance. intros k. f_equal.
  unfold txs_of_sec. apply (interleave_filter _ (map erase a) (map erase b)).
  - apply interleave_map. exact Hi.
  - apply Forall_map. eapply Forall_impl; [|exact Hb]. intros y Hy. exact Hy.
Qed.

(* the whole application result, as a function of the security *)
Theorem run_app_per_security A inits rows :
  run_app A inits rows
  = Ok (map (fun s => (s, sec_result_of A (init_for inits s) (txs_of_sec s (sort_txs rows))))
            (securities (sort_txs rows))).
Proof. unfold run_app. apply run_secs_spec. Qed.
