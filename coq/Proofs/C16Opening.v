(* C16: an opening position SYM:n:c is the same as an opening purchase of n
   shares for the total cost c by the default affiliate, dated more than 30
   days before the first transaction (exact arithmetic; the purchase is
   written with price 0 and commission c so that no quotient is needed). *)
From Coq Require Import List NArith ZArith QArith Qcanon Bool Lia.
From ACB Require Import Base.Outcome Base.QcExtra Base.Arith Model.Tx Model.Ledger Model.Sfl
     Model.DeltaList Proofs.Tactics Proofs.C01Refine Proofs.AllAfter.
Import ListNotations.
Local Open Scope Qc_scope.

Definition far (old t : tx) : Prop := (t_sd old < t_sd t - window_days)%Z.

Section Far.
  Variable A : arith.
  Variable old : tx.

  Lemma bwd_scan_far first dflt bef adj s :
    (t_sd old < first)%Z ->
    bwd_scan A first dflt (bef ++ [old]) adj s = bwd_scan A first dflt bef adj s.
  Proof.
    intros Hf. revert adj s. induction bef as [|x bef IH]; intros adj s; cbn [app bwd_scan].
    - assert (E : Z.ltb (t_sd old) first = true) by (apply Z.ltb_lt; exact Hf). rewrite E. reflexivity.
    - destruct (Z.ltb (t_sd x) first); [reflexivity|].
      destruct (t_act x);
        repeat (match goal with |- bind ?m _ = bind ?m _ => destruct m; cbn [bind]; try reflexivity end);
        apply IH.
  Qed.

  Lemma sfl_info_far bef t sold aft st :
    far old t -> sfl_info A (bef ++ [old]) t sold aft st = sfl_info A bef t sold aft st.
  Proof.
    intros Hf. unfold sfl_info.
    destruct (a_sub A _ sold); cbn [bind]; try reflexivity.
    destruct (Qcltb _ _); [reflexivity|].
    destruct (a_sub A _ sold); cbn [bind]; try reflexivity.
    destruct (Qcltb _ _); [reflexivity|].
    destruct (fwd_scan A _ _ _ _ _); cbn [bind]; try reflexivity.
    destruct (negb _); [reflexivity|].
    rewrite bwd_scan_far by exact Hf. reflexivity.
  Qed.

  Lemma delta_for_tx_far bef t aft st :
    (is_sell (t_act t) = true -> far old t) ->
    delta_for_tx A (bef ++ [old]) t aft st = delta_for_tx A bef t aft st.
  Proof.
    intros Hf. unfold delta_for_tx.
    destruct (sanity_check _ _); cbn [bind]; try reflexivity.
    destruct (t_act t) eqn:Ea; try reflexivity.
    destruct (sell_core A _ _ _ _ _ _); cbn [bind]; try reflexivity.
    destruct (sc_gain _); [|reflexivity].
    destruct (Qcltb _ _); [|reflexivity].
    unfold delta_sfl. rewrite sfl_info_far by (apply Hf; reflexivity). reflexivity.
  Qed.

  Lemma run_injected_far bef st inj aft :
    Forall (fun x => is_sfla (t_act x) = true) inj ->
    run_injected A (bef ++ [old]) st inj aft
    = let '(ds, bef', st', o) := run_injected A bef st inj aft in (ds, bef' ++ [old], st', o).
  Proof.
    revert bef st. induction inj as [|t inj IH]; intros bef st HF; cbn [run_injected].
    - reflexivity.
    - apply Forall_cons_iff in HF as [Ht HF].
      rewrite delta_for_tx_far by (intros Hs; destruct (t_act t); discriminate).
      destruct (delta_for_tx A bef t (inj ++ aft) st) as [[d i]| |]; try reflexivity.
      destruct (set_latest A st (t_af t) (d_post d)) as [st1| |]; try reflexivity.
      change (t :: bef ++ [old]) with ((t :: bef) ++ [old]). rewrite (IH _ _ HF).
      destruct (run_injected A (t :: bef) st1 inj aft) as [[[ds b] s] o]. reflexivity.
  Qed.

  Lemma run_loop_far bef st aft :
    Forall (fun t => is_sell (t_act t) = true -> far old t) aft ->
    run_loop A (bef ++ [old]) st aft = run_loop A bef st aft.
  Proof.
    revert bef st. induction aft as [|t aft IH]; intros bef st HF; cbn [run_loop]; [reflexivity|].
    apply Forall_cons_iff in HF as [Ht HF].
    rewrite delta_for_tx_far by exact Ht.
    destruct (delta_for_tx A bef t aft st) as [[d inj]| |] eqn:Ed; try reflexivity.
    destruct (set_latest A st (t_af t) (d_post d)) as [st1| |]; try reflexivity.
    change (t :: bef ++ [old]) with ((t :: bef) ++ [old]).
    rewrite run_injected_far by (eapply delta_for_tx_inj; eauto).
    destruct (run_injected A (t :: bef) st1 inj aft) as [[[dsi b1] st2] o1].
    destruct o1; [reflexivity|]. rewrite (IH _ _ HF). reflexivity.
  Qed.
End Far.

(* the opening purchase *)
Definition opening_buy (sec : N) (day : Z) (n c : Qc) : tx :=
  {| t_sec := sec; t_td := day; t_sd := day; t_act := Buy n 0 c 1 1;
     t_af := default_aff; t_glob := false; t_ri := 0 |}.
Definition opening_status (n c : Qc) : status := {| s_sh := n; s_all := n; s_acb := Some c |}.

Lemma gez_add_ok a b : 0 <= a + b -> gez_add exact a b = Ok (a + b).
Proof. intros H. unfold gez_add, gez_unwrap. cbn [a_add exact bind]. apply Qcleb_true in H. rewrite H. reflexivity. Qed.
Lemma gez_mul_ok a b : 0 <= a * b -> gez_mul exact a b = Ok (a * b).
Proof. intros H. unfold gez_mul, gez_unwrap. cbn [a_mul exact bind]. apply Qcleb_true in H. rewrite H. reflexivity. Qed.

Definition st0 : pstate := {| ps_map := []; ps_all := 0; ps_latest := default_aff |}.
Definition zero_status : status := {| s_sh := 0; s_all := 0; s_acb := Some 0 |}.

Lemma next_pre_st0 : next_pre_status st0 default_aff = zero_status.
Proof.
  unfold next_pre_status, latest_for, st0. cbn [ps_map alookup ps_all].
  unfold default_status. cbn [af_reg default_aff s_all].
  destruct (Qceqb_spec 0 0) as [_|Hx]; [reflexivity | exfalso; apply Hx; reflexivity].
Qed.

Lemma sanity_zero : sanity_check zero_status default_aff = Ok tt.
Proof.
  unfold sanity_check, zero_status. cbn [s_all s_sh s_acb af_reg default_aff is_none andb negb].
  destruct (Qcltb_spec 0 0) as [Hlt|_]; [exfalso; revert Hlt; apply Qcle_not_lt, Qcle_refl | reflexivity].
Qed.

Lemma opening_row sec day n c aft :
  0 <= n -> 0 <= c ->
  exists d st1,
    delta_for_tx exact [] (opening_buy sec day n c) aft st0 = Ok (d, []) /\
    d_tx d = opening_buy sec day n c /\
    d_post d = opening_status n c /\
    set_latest exact st0 default_aff (d_post d) = Ok st1 /\
    init_state exact (Some (opening_status n c)) = Ok st1.
Proof.
  intros Hn Hc.
  assert (E1 : 0 + n = n) by ring. assert (E3 : 0 * n = 0) by ring.
  assert (E4 : c * 1 = c) by ring. assert (E5 : 0 + c = c) by ring.
  assert (E6 : 0 * 1 = 0) by ring.
  assert (Hd : delta_for_tx exact [] (opening_buy sec day n c) aft st0
               = Ok (mk_delta (opening_buy sec day n c) zero_status (0 + n) (0 + n)
                              (Some (0 + (0 * n * 1 + c * 1))) None None, [])).
  { unfold delta_for_tx. cbn [t_af opening_buy t_act]. rewrite next_pre_st0, sanity_zero. cbn [bind].
    unfold delta_nonsell. cbn [t_act opening_buy zero_status s_sh s_all s_acb].
    rewrite (gez_add_ok 0 n) by (rewrite E1; exact Hn). cbn [bind].
    rewrite (all_after_exact_as _ _ _ (0 + n)) by ring. cbn [bind].
    unfold gez_unwrap at 1.
    assert (Eb : Qcleb 0 (0 + n) = true) by (apply Qcleb_true; rewrite E1; exact Hn).
    rewrite Eb. cbn [bind].
    unfold local_value.
    rewrite (gez_mul_ok 0 n) by (rewrite E3; apply Qcle_refl). cbn [bind].
    rewrite (gez_mul_ok (0 * n) 1) by (rewrite E3, E6; apply Qcle_refl). cbn [bind].
    rewrite (gez_mul_ok c 1) by (rewrite E4; exact Hc). cbn [bind].
    rewrite (gez_add_ok (0 * n * 1) (c * 1)) by (rewrite E3, E6, E4, E5; exact Hc). cbn [bind].
    rewrite (gez_add_ok 0 (0 * n * 1 + c * 1)) by (rewrite E3, E6, E4, E5, E5; exact Hc). cbn [bind].
    reflexivity. }
  assert (Hp : {| s_sh := 0 + n; s_all := 0 + n; s_acb := Some (0 + (0 * n * 1 + c * 1)) |}
               = opening_status n c).
  { unfold opening_status. rewrite E3, E6, E4, E5, E5, E1. reflexivity. }
  assert (Hi : exists st1, init_state exact (Some (opening_status n c)) = Ok st1 /\
                           set_latest exact st0 default_aff (opening_status n c) = Ok st1).
  { unfold init_state, opening_status. cbn [s_sh s_all].
    destruct (Qceqb_spec n n) as [_|Hx]; [|exfalso; apply Hx; reflexivity]. cbn [negb].
    fold st0. fold (opening_status n c).
    unfold set_latest, latest_for, st0, opening_status.
    cbn [ps_map alookup ps_all s_sh].
    rewrite (all_after_exact_as _ _ _ n) by ring.
    cbn [ps_map alookup ps_all a_add a_sub exact bind s_sh s_all s_acb af_reg default_aff is_none].
    destruct (Qceqb_spec n n) as [_|Hx]; [|exfalso; apply Hx; reflexivity]. cbn [negb Bool.eqb].
    eexists; split; reflexivity. }
  destruct Hi as (st1 & Hi1 & Hi2).
  eexists. exists st1. split; [exact Hd|]. cbn [d_tx d_post mk_delta].
  split; [reflexivity|]. split; [exact Hp|]. rewrite Hp. split; assumption.
Qed.

Lemma run_loop_cons A bef st t rest :
  run_loop A bef st (t :: rest) =
  match delta_for_tx A bef t rest st with
  | Ok (d, inj) =>
      match set_latest A st (t_af t) (d_post d) with
      | Ok st1 =>
          let '(dsi, bef', st2, o) := run_injected A (t :: bef) st1 inj rest in
          match o with
          | None => let '(ds, o') := run_loop A bef' st2 rest in (d :: dsi ++ ds, o')
          | Some s => (d :: dsi, Some s)
          end
      | Rej e => ([], Some (SRej e))
      | Panic p => ([], Some (SPanic p))
      end
  | Rej e => ([], Some (SRej e))
  | Panic p => ([], Some (SPanic p))
  end.
Proof. reflexivity. Qed.

Theorem opening_equals_purchase sec day n c t txs :
  0 <= n -> 0 <= c ->
  Forall (fun x => is_sell (t_act x) = true -> far (opening_buy sec day n c) x) (t :: txs) ->
  exists d,
    d_tx d = opening_buy sec day n c /\ d_post d = opening_status n c /\
    run exact None (opening_buy sec day n c :: t :: txs)
    = (d :: fst (run exact (Some (opening_status n c)) (t :: txs)),
       snd (run exact (Some (opening_status n c)) (t :: txs))).
Proof.
  intros Hn Hc HF.
  destruct (opening_row sec day n c (t :: txs) Hn Hc) as (d & st1 & Hd & Htx & Hpost & Hset & Hinit).
  exists d. split; [exact Htx|]. split; [exact Hpost|].
  unfold run. rewrite Hinit. change (init_state exact None) with (Ok st0).
  cbv iota beta.
  rewrite (run_loop_cons exact [] st0 (opening_buy sec day n c) (t :: txs)).
  rewrite Hd. cbn [t_af opening_buy] in *. rewrite Hset.
  cbn [run_injected].
  change [opening_buy sec day n c] with ([] ++ [opening_buy sec day n c]).
  rewrite (run_loop_far exact _ [] st1 (t :: txs) HF).
  destruct (run_loop exact [] st1 (t :: txs)) as [ds o]. reflexivity.
Qed.

(* opening positions of other securities have no effect *)
From ACB Require Import Model.App.
Lemma run_secs_inits A inits1 inits2 all secs :
  (forall s, In s secs -> init_for inits1 s = init_for inits2 s) ->
  run_secs A inits1 all secs = run_secs A inits2 all secs.
Proof.
  induction secs as [|s secs IH]; intros H; cbn [run_secs]; [reflexivity|].
  rewrite IH by (intros x Hx; apply H; right; exact Hx).
  rewrite (H s) by (left; reflexivity). reflexivity.
Qed.

Theorem other_openings_irrelevant A inits1 inits2 rows :
  (forall s, In s (securities (sort_txs rows)) -> init_for inits1 s = init_for inits2 s) ->
  run_app A inits1 rows = run_app A inits2 rows.
Proof. intros H. unfold run_app. apply run_secs_inits. exact H. Qed.
