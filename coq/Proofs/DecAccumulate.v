(* Accumulation of the rounding error over a history without superficial
   losses: the rounded ledger [run dec] against the exact ledger [run exact].

   The two runs are walked in lockstep with the relation [st_close eps]: the
   same affiliates, the same share balances, cost bases within eps.  A row
   of the class [in_class_row k] (no superficial loss on either side, equal
   share balances after the row, magnitudes bounded by 10^k) widens eps by at
   most [cR k]: the Buy / Sell / RoC / Split row maps are 1-Lipschitz in the
   cost base, and their own roundings add at most cR k
   (Proofs/DecRowError.v, DecSellRow.v).  Hence after i rows the cost bases and
   gains differ by at most i * cR k.

   [delta_sfl] is not unfolded anywhere: a row whose [d_sfl] is [None] went
   through a branch of [delta_for_tx] that does not use its result. *)
From Coq Require Import List NArith ZArith QArith Qcanon Bool Lia Lqa Qabs.
From ACB Require Import Base.Outcome Base.QcExtra Base.Fit Base.Arith Model.Tx Model.Ledger Model.Sfl
     Model.DeltaList Proofs.Tactics Proofs.FitProps Proofs.DecRowError Proofs.DecSellError Proofs.DecSellRow.
Import ListNotations.
Local Open Scope Qc_scope.

(* ---- closeness ---- *)
Definition qclose (eps : Qc) (a b : option Qc) : Prop :=
  match a, b with
  | Some x, Some y => y - eps <= x /\ x <= y + eps
  | None, None => True
  | _, _ => False
  end.
Definition status_close (eps : Qc) (sd se : status) : Prop :=
  s_sh sd = s_sh se /\ s_all sd = s_all se /\ qclose eps (s_acb sd) (s_acb se).
Definition st_close (eps : Qc) (std ste : pstate) : Prop :=
  ps_all std = ps_all ste /\ ps_latest std = ps_latest ste /\
  forall id, match alookup id (ps_map std), alookup id (ps_map ste) with
             | Some a, Some b => status_close eps a b
             | None, None => True
             | _, _ => False
             end.
(* the figures of a reported row: balances equal, cost base and gain close *)
Definition fig_close (eps : Qc) (dd de : delta) : Prop :=
  status_close eps (d_post dd) (d_post de) /\ qclose eps (d_gain dd) (d_gain de).

Lemma qclose_mono e e' a b : e <= e' -> qclose e a b -> qclose e' a b.
Proof. intros He. destruct a, b; cbn [qclose]; auto. intros [H1 H2]. split; qc_lra. Qed.
Lemma qclose_refl e a : 0 <= e -> qclose e a a.
Proof. intros He. destruct a; cbn [qclose]; auto. split; qc_lra. Qed.
Lemma status_close_mono e e' a b : e <= e' -> status_close e a b -> status_close e' a b.
Proof. intros He (H1 & H2 & H3). repeat split; auto. eapply qclose_mono; eauto. Qed.
Lemma st_close_mono e e' a b : e <= e' -> st_close e a b -> st_close e' a b.
Proof.
  intros He (H1 & H2 & H3). repeat split; auto. intros id. specialize (H3 id).
  destruct (alookup id (ps_map a)), (alookup id (ps_map b)); auto. eapply status_close_mono; eauto.
Qed.

Lemma alookup_aupdate' {V} k k' (v : V) l :
  alookup k (aupdate k' v l) = if N.eqb k k' then Some v else alookup k l.
Proof.
  induction l as [|[k0 v0] l IH]; cbn [aupdate alookup].
  - destruct (N.eqb k k'); reflexivity.
  - destruct (N.eqb k' k0) eqn:E0; cbn [alookup].
    + apply N.eqb_eq in E0. subst k0. destruct (N.eqb k k'); reflexivity.
    + destruct (N.eqb k k0) eqn:E1.
      * apply N.eqb_eq in E1. subst k0. rewrite N.eqb_sym, E0. reflexivity.
      * exact IH.
Qed.

Lemma next_pre_close eps std ste af :
  0 <= eps -> st_close eps std ste -> status_close eps (next_pre_status std af) (next_pre_status ste af).
Proof.
  intros He (Hall & Hl & Hm). unfold next_pre_status, latest_for. specialize (Hm (af_id af)).
  destruct (alookup (af_id af) (ps_map std)) as [a|], (alookup (af_id af) (ps_map ste)) as [b|]; try contradiction.
  - destruct Hm as (H1 & H2 & H3). rewrite H2, Hall.
    destruct (Qceqb (s_all b) (ps_all ste)); repeat split; cbn [s_sh s_all s_acb]; auto.
  - rewrite Hall. destruct (Qceqb (s_all (default_status af)) (ps_all ste));
      repeat split; cbn [s_sh s_all s_acb default_status]; auto; apply qclose_refl; exact He.
Qed.

Ltac inv_ok :=
  repeat match goal with
         | H : bind ?m _ = Ok _ |- _ =>
             let x := fresh "x" in let E := fresh "E" in
             destruct m as [x| |] eqn:E; cbn [bind] in H; [|discriminate H|discriminate H]
         | H : (if ?c then _ else _) = Ok _ |- _ => destruct c eqn:?; try discriminate H
         | H : match ?o with Some _ => _ | None => _ end = Ok _ |- _ => destruct o eqn:?; try discriminate H
         | H : Rej _ = Ok _ |- _ => discriminate H
         | H : Panic _ = Ok _ |- _ => discriminate H
         end.

Lemma set_latest_ok A st af v st' :
  set_latest A st af v = Ok st' ->
  st' = {| ps_map := aupdate (af_id af) v (ps_map st); ps_all := s_all v; ps_latest := af |}.
Proof. unfold set_latest. intros H. inv_ok. inversion H. reflexivity. Qed.

Lemma set_latest_close eps A B std ste af vd ve std' ste' :
  st_close eps std ste -> status_close eps vd ve ->
  set_latest A std af vd = Ok std' -> set_latest B ste af ve = Ok ste' -> st_close eps std' ste'.
Proof.
  intros (Hall & Hl & Hm) Hv Hd He. apply set_latest_ok in Hd, He. subst std' ste'.
  split; [|split]; cbn [ps_all ps_latest ps_map].
  - apply Hv.
  - reflexivity.
  - intros id. rewrite !alookup_aupdate'. destruct (N.eqb id (af_id af)); [exact Hv | apply Hm].
Qed.

(* ---- shape of an accepted row without a superficial loss ---- *)
Lemma nonsell_shape A t pre d :
  delta_nonsell A t pre = Ok d -> d_pre d = pre /\ d_tx d = t /\ d_gain d = None /\ d_sfl d = None.
Proof.
  unfold delta_nonsell. intros H.
  destruct (t_act t); inv_ok; inversion H; subst d; cbn [mk_delta d_pre d_tx d_gain d_sfl]; auto.
Qed.

Lemma delta_for_tx_nonsell A bef t aft st d inj :
  is_sell (t_act t) = false -> delta_for_tx A bef t aft st = Ok (d, inj) ->
  delta_nonsell A t (next_pre_status st (t_af t)) = Ok d /\ inj = [].
Proof.
  unfold delta_for_tx. intros Hs H. bind_as H as x Ex.
  destruct (t_act t) eqn:Hact; try discriminate Hs;
    (bind_as H as d0 Ed; inversion H; subst; split; [|reflexivity]; rewrite <- Ed; unfold delta_nonsell; rewrite Hact; reflexivity).
Qed.

Lemma delta_for_tx_sell A bef t aft st sh aps com rate crate spec d inj :
  t_act t = Sell sh aps com rate crate spec -> delta_for_tx A bef t aft st = Ok (d, inj) -> d_sfl d = None ->
  exists c, sell_core A (next_pre_status st (t_af t)) sh aps com rate crate = Ok c /\
            d = mk_delta t (next_pre_status st (t_af t)) (sc_sh c) (sc_all c) (sc_acb c) (sc_gain c) None /\
            inj = [].
Proof.
  unfold delta_for_tx. intros Hact H Hn. bind_as H as x Ex. rewrite Hact in H.
  bind_as H as c Ec. exists c. split; [reflexivity|].
  destruct (sc_gain c) as [g|] eqn:Eg.
  - destruct (Qcltb g 0).
    + bind_as H as m Em. destruct m as [[info inj']|].
      * bind_as H as g' Eg'. inversion H; subst d. cbn [mk_delta d_sfl] in Hn. discriminate Hn.
      * inversion H; subst. split; reflexivity.
    + destruct spec; [discriminate|]. inversion H; subst. split; reflexivity.
  - inversion H; subst. split; reflexivity.
Qed.

(* ---- the class of a pair of rows, and the per-row constant ---- *)
Definition in_class_row (k : nat) (dd de : delta) : bool :=
  is_none (d_sfl dd) && is_none (d_sfl de) &&
  Qceqb (s_sh (d_post dd)) (s_sh (d_post de)) && Qceqb (s_all (d_post dd)) (s_all (d_post de)) &&
  match s_acb (d_pre dd) with
  | None => false
  | Some od =>
      Qcleb 0 od && Qcleb od (T (2 * k + 1)) &&
      match t_act (d_tx dd) with
      | Buy sh aps com rate crate =>
          Qcleb sh (T k) && Qcleb aps (T k) && Qcleb com (T k) && Qcleb rate (T 1) && Qcleb crate (T 1)
      | Sell sh aps com rate crate _ =>
          Qcleb sh (T k) && Qcleb aps (T k) && Qcleb com (T k) && Qcleb rate (T 1) && Qcleb crate (T 1)
          && Qcleb (s_sh (d_pre dd)) (T k) && Qcleb od (T (k + 1) * s_sh (d_pre dd))
      | Roc aps rate =>
          Qcleb aps (T k) && Qcleb rate (T 1) && Qcleb 0 (s_sh (d_pre dd)) && Qcleb (s_sh (d_pre dd)) (T k)
      | Split _ _ _ => true
      | Sfla _ _ => false
      end
  end.

Fixpoint in_class (k : nat) (dsd dse : list delta) : bool :=
  match dsd, dse with
  | dd :: x, de :: y => in_class_row k dd de && in_class k x y
  | _, _ => true
  end.

(* 10 u(2k) + 10^k u(k+1) + 5 u(2k+2) = 2.6 * 10^-(26-2k) *)
Definition cR (k : nat) : Qc := u (2 * k) * T 1 + T k * u (k + 1) + (1 + 1 + 1 + 1 + 1) * u (2 * k + 2).

Lemma cR_parts k :
  0 <= u (2 * k) * T 1 /\ 0 <= T k * u (k + 1) /\ 0 <= u (2 * k + 2).
Proof.
  pose proof (u_pos (2 * k)). pose proof (u_pos (k + 1)). pose proof (u_pos (2 * k + 2)).
  pose proof (T_ge_1 k). pose proof (T_ge_1 1).
  split; [|split].
  - apply Qcmul_nonneg; qc_lra.
  - apply Qcmul_nonneg; qc_lra.
  - qc_lra.
Qed.
Lemma cR_nonneg k : 0 <= cR k.
Proof. destruct (cR_parts k) as (H1 & H2 & H3). unfold cR. qc_lra. Qed.

Lemma qclose_widen e B c x y :
  B <= c -> y - (e + B) <= x -> x <= y + (e + B) -> qclose (e + c) (Some x) (Some y).
Proof. intros Hc H1 H2. cbn [qclose]. split; qc_lra. Qed.

(* widening, with every quantity a variable (nothing for the kernel to unfold) *)
Lemma widen_sell_acb (eps a b c x y : Qc) :
  0 <= a -> 0 <= b -> 0 <= c -> y - (eps + b + c) <= x -> x <= y + (eps + b + c) ->
  qclose (eps + (a + b + (1 + 1 + 1 + 1 + 1) * c)) (Some x) (Some y).
Proof. intros. cbn [qclose]. split; qc_lra. Qed.
Lemma widen_sell_gain (eps a b c x y : Qc) :
  y - (eps + a + b + (1 + 1 + 1 + 1 + 1) * c) <= x -> x <= y + (eps + a + b + (1 + 1 + 1 + 1 + 1) * c) ->
  qclose (eps + (a + b + (1 + 1 + 1 + 1 + 1) * c)) (Some x) (Some y).
Proof. intros. cbn [qclose]. split; qc_lra. Qed.
Lemma widen_buy (eps a b c x y : Qc) :
  0 <= a -> 0 <= b -> 0 <= c -> y - (eps + a + (1 + 1 + 1 + 1) * c) <= x -> x <= y + (eps + a + (1 + 1 + 1 + 1) * c) ->
  qclose (eps + (a + b + (1 + 1 + 1 + 1 + 1) * c)) (Some x) (Some y).
Proof. intros. cbn [qclose]. split; qc_lra. Qed.
Lemma widen_roc (eps a b c x y : Qc) :
  0 <= a -> 0 <= b -> 0 <= c -> y - (eps + a + (1 + 1) * c) <= x -> x <= y + (eps + a + (1 + 1) * c) ->
  qclose (eps + (a + b + (1 + 1 + 1 + 1 + 1) * c)) (Some x) (Some y).
Proof. intros. cbn [qclose]. split; qc_lra. Qed.
Lemma widen_none (eps a b c x y : Qc) :
  0 <= a -> 0 <= b -> 0 <= c -> y - eps <= x -> x <= y + eps ->
  qclose (eps + (a + b + (1 + 1 + 1 + 1 + 1) * c)) (Some x) (Some y).
Proof. intros. cbn [qclose]. split; qc_lra. Qed.

(* ---- one row of the class ---- *)
Lemma row_error_sell k eps bef t aft std ste dd de injd inje :
  is_sell (t_act t) = true ->
  (2 * k + 2 <= 28)%nat -> 0 <= eps -> st_close eps std ste -> valid_tx t = true ->
  delta_for_tx dec bef t aft std = Ok (dd, injd) ->
  delta_for_tx exact bef t aft ste = Ok (de, inje) ->
  in_class_row k dd de = true ->
  injd = [] /\ inje = [] /\ fig_close (eps + cR k) dd de.
Proof.
  intros Hsell Hk Heps Hst Hv Hd He Hc.
  pose proof (next_pre_close eps std ste (t_af t) Heps Hst) as Hpre.
  set (pre_d := next_pre_status std (t_af t)) in *. set (pre_e := next_pre_status ste (t_af t)) in *.
  destruct Hpre as (Psh & Pall & Pacb).
  destruct (cR_parts k) as (C1 & C2 & C3). pose proof (cR_nonneg k) as C0.
  unfold in_class_row in Hc.
  apply andb_prop in Hc as [Hc Hcls]. apply andb_prop in Hc as [Hc Call]. apply andb_prop in Hc as [Hc Csh].
  apply andb_prop in Hc as [Nd Ne]. apply Qceqb_true in Csh, Call.
  assert (Sd : d_sfl dd = None) by (destruct (d_sfl dd); [discriminate | reflexivity]).
  assert (Se : d_sfl de = None) by (destruct (d_sfl de); [discriminate | reflexivity]).
  destruct (t_act t) as [| sh aps com rate crate spec | | |] eqn:Hact; try discriminate Hsell.
  destruct (delta_for_tx_sell dec bef t aft std sh aps com rate crate spec dd injd Hact Hd Sd) as (cd & Ecd & -> & ->).
  destruct (delta_for_tx_sell exact bef t aft ste sh aps com rate crate spec de inje Hact He Se) as (ce & Ece & -> & ->).
  fold pre_d in Ecd, Hcls, Csh, Call |- *. fold pre_e in Ece, Csh, Call |- *.
  cbn [mk_delta d_pre d_tx d_post s_sh s_all s_acb d_gain] in *.
  split; [reflexivity|]. split; [reflexivity|].
  destruct (s_acb pre_d) as [od|] eqn:Hod; [|discriminate Hcls].
  destruct (s_acb pre_e) as [oe|] eqn:Hoe; [|contradiction]. cbn [qclose] in Pacb. destruct Pacb as [He1 He2].
  rewrite Hact in Hcls.
  apply andb_prop in Hcls as [Hcls Hact']. apply andb_prop in Hcls as [Bod0 BodO].
  repeat match type of Hact' with (_ && _ = true) => let H := fresh "B" in apply andb_prop in Hact' as [Hact' H] end.
  qc_bool.
  unfold valid_tx in Hv. rewrite Hact in Hv. cbn [valid_action] in Hv.
  repeat match type of Hv with (_ && _ = true) => let H := fresh "V" in apply andb_prop in Hv as [Hv H] end.
  qc_bool.
  destruct (sell_row_error_pow10 k eps pre_d pre_e sh aps com rate crate od oe cd ce Hk)
    as (nd & ne & gd & ge & E1 & E2 & E3 & E4 & _ & _ & [A1 A2] & [G1 G2] & _); try assumption.
  unfold fig_close, status_close. cbn [mk_delta d_post s_sh s_all s_acb d_gain].
  rewrite E1, E2, E3, E4.
  split; [split; [exact Csh | split; [exact Call|]]|].
  + unfold cR. apply widen_sell_acb; assumption.
  + unfold cR. apply widen_sell_gain; assumption.
Qed.

Lemma row_error_nonsell k eps bef t aft std ste dd de injd inje :
  is_sell (t_act t) = false ->
  (2 * k + 2 <= 28)%nat -> 0 <= eps -> st_close eps std ste -> valid_tx t = true ->
  delta_for_tx dec bef t aft std = Ok (dd, injd) ->
  delta_for_tx exact bef t aft ste = Ok (de, inje) ->
  in_class_row k dd de = true ->
  injd = [] /\ inje = [] /\ fig_close (eps + cR k) dd de.
Proof.
  intros Hsell Hk Heps Hst Hv Hd He Hc.
  pose proof (next_pre_close eps std ste (t_af t) Heps Hst) as Hpre.
  set (pre_d := next_pre_status std (t_af t)) in *. set (pre_e := next_pre_status ste (t_af t)) in *.
  destruct Hpre as (Psh & Pall & Pacb).
  destruct (cR_parts k) as (C1 & C2 & C3). pose proof (cR_nonneg k) as C0.
  unfold in_class_row in Hc.
  apply andb_prop in Hc as [Hc Hcls]. apply andb_prop in Hc as [Hc Call]. apply andb_prop in Hc as [Hc Csh].
  apply andb_prop in Hc as [Nd Ne]. apply Qceqb_true in Csh, Call.
  assert (Sd : d_sfl dd = None) by (destruct (d_sfl dd); [discriminate | reflexivity]).
  assert (Se : d_sfl de = None) by (destruct (d_sfl de); [discriminate | reflexivity]).
  destruct (delta_for_tx_nonsell dec bef t aft std dd injd Hsell Hd) as [Dd ->].
  destruct (delta_for_tx_nonsell exact bef t aft ste de inje Hsell He) as [De ->].
  fold pre_d in Dd. fold pre_e in De.
  split; [reflexivity|]. split; [reflexivity|].
  destruct (nonsell_shape dec t pre_d dd Dd) as (Pd & Td & Gd & _).
  destruct (nonsell_shape exact t pre_e de De) as (Pe & Te & Ge & _).
  rewrite Pd, Td in Hcls.
  destruct (s_acb pre_d) as [od|] eqn:Hod; [|discriminate Hcls].
  destruct (s_acb pre_e) as [oe|] eqn:Hoe; [|contradiction]. cbn [qclose] in Pacb. destruct Pacb as [He1 He2].
  unfold fig_close, status_close. rewrite Gd, Ge. cbn [qclose].
  split; [split; [exact Csh | split; [exact Call|]] | exact I].
  apply andb_prop in Hcls as [Hcls Hact']. apply andb_prop in Hcls as [Bod0 BodO]. qc_bool.
  destruct (t_act t) as [sh aps com rate crate | | aps rate | | post pre_ io] eqn:Hact; try discriminate.
  + (* Buy *)
    repeat match type of Hact' with (_ && _ = true) => let H := fresh "B" in apply andb_prop in Hact' as [Hact' H] end.
    qc_bool.
    destruct (buy_row_error_pow10 k eps t pre_d pre_e sh aps com rate crate od oe dd de Hk Hact Hv Hod Hoe He1 He2)
      as (nd & ne & E1 & E2 & _ & A1 & A2); try assumption.
    rewrite E1, E2.
    unfold cR. apply widen_buy; assumption.
  + (* RoC *)
    repeat match type of Hact' with (_ && _ = true) => let H := fresh "B" in apply andb_prop in Hact' as [Hact' H] end.
    qc_bool.
    destruct (roc_row_error_pow10 k eps t pre_d pre_e aps rate od oe dd de Hk Hact Hv Psh Hod Hoe He1 He2)
      as (nd & ne & E1 & E2 & _ & A1 & A2 & _); try assumption.
    rewrite E1, E2.
    unfold cR. apply widen_roc; assumption.
  + (* Split *)
    destruct (split_row_cost dec t pre_d post pre_ io dd Hact Dd) as [E1 _].
    destruct (split_row_cost exact t pre_e post pre_ io de Hact De) as [E2 _].
    rewrite E1, E2, Hod, Hoe. unfold cR. apply widen_none; assumption.
Qed.

Lemma row_error k eps bef t aft std ste dd de injd inje :
  (2 * k + 2 <= 28)%nat -> 0 <= eps -> st_close eps std ste -> valid_tx t = true ->
  delta_for_tx dec bef t aft std = Ok (dd, injd) ->
  delta_for_tx exact bef t aft ste = Ok (de, inje) ->
  in_class_row k dd de = true ->
  injd = [] /\ inje = [] /\ fig_close (eps + cR k) dd de.
Proof.
  destruct (is_sell (t_act t)) eqn:Hsell; [eapply row_error_sell | eapply row_error_nonsell]; exact Hsell.
Qed.

(* ---- the two ledgers in lockstep ---- *)
Fixpoint rows_close (c eps : Qc) (dsd dse : list delta) : Prop :=
  match dsd, dse with
  | dd :: x, de :: y => fig_close (eps + c) dd de /\ rows_close c (eps + c) x y
  | _, _ => True
  end.

Lemma run_loop_error k : (2 * k + 2 <= 28)%nat ->
  forall aft bef std ste eps dsd od dse oe,
  0 <= eps -> st_close eps std ste ->
  Forall (fun t => valid_tx t = true) aft ->
  run_loop dec bef std aft = (dsd, od) -> run_loop exact bef ste aft = (dse, oe) ->
  in_class k dsd dse = true ->
  rows_close (cR k) eps dsd dse.
Proof.
  intros Hk. induction aft as [|t rest IH]; intros bef std ste eps dsd od dse oe Heps Hst Hv Hd He Hc.
  - cbn [run_loop] in Hd. inversion Hd; subst. exact I.
  - cbn [run_loop] in Hd, He. inversion Hv as [|? ? Hvt Hvr]; subst.
    destruct (delta_for_tx dec bef t rest std) as [[dd injd]| |] eqn:Ed; try (inversion Hd; subst; exact I).
    destruct (delta_for_tx exact bef t rest ste) as [[de inje]| |] eqn:Ee;
      try (inversion He; subst; destruct dsd; exact I).
    destruct (set_latest dec std (t_af t) (d_post dd)) as [std1| |] eqn:Sd; try (inversion Hd; subst; exact I).
    destruct (set_latest exact ste (t_af t) (d_post de)) as [ste1| |] eqn:Se;
      try (inversion He; subst; destruct dsd; exact I).
    destruct (run_injected dec (t :: bef) std1 injd rest) as [[[dsid befd] std2] oid] eqn:Rd.
    destruct (run_injected exact (t :: bef) ste1 inje rest) as [[[dsie befe] ste2] oie] eqn:Re.
    assert (Hhead : exists xd xe, dsd = dd :: xd /\ dse = de :: xe).
    { destruct oid; [|destruct (run_loop dec befd std2 rest)]; inversion Hd; subst;
        (destruct oie; [|destruct (run_loop exact befe ste2 rest)]; inversion He; subst; eauto). }
    destruct Hhead as (xd & xe & -> & ->). cbn [in_class] in Hc. apply andb_prop in Hc as [Hc1 Hc2].
    destruct (row_error k eps bef t rest std ste dd de injd inje Hk Heps Hst Hvt Ed Ee Hc1) as (-> & -> & Hfig).
    cbn [run_injected] in Rd, Re. inversion Rd; subst; clear Rd. inversion Re; subst; clear Re.
    destruct (run_loop dec (t :: bef) std2 rest) as [dsd' od'] eqn:Ld.
    destruct (run_loop exact (t :: bef) ste2 rest) as [dse' oe'] eqn:Le.
    cbn [app] in Hd, He. inversion Hd; subst; clear Hd. inversion He; subst; clear He.
    cbn [rows_close]. split; [exact Hfig|].
    pose proof (cR_nonneg k) as C0.
    apply (IH (t :: bef) std2 ste2 (eps + cR k) xd od xe oe); try assumption.
    + clear - Heps C0. qc_lra.
    + apply (set_latest_close (eps + cR k) dec exact std ste (t_af t) (d_post dd) (d_post de)); try assumption.
      * apply (st_close_mono eps); [clear - C0; qc_lra | exact Hst].
      * apply Hfig.
Qed.

Lemma QcZ_S n : QcZ (Z.of_nat (S n)) = QcZ (Z.of_nat n) + 1.
Proof.
  apply Qc_is_canon. unfold QcZ. qc_unfold. rewrite Nat2Z.inj_succ.
  unfold Qeq, Qplus, inject_Z. cbn [Qnum Qden]. lia.
Qed.

Lemma fig_close_mono e e' a b : e <= e' -> fig_close e a b -> fig_close e' a b.
Proof. intros He [H1 H2]. split; [eapply status_close_mono | eapply qclose_mono]; eauto. Qed.

Lemma rows_close_nth c : 0 <= c -> forall dsd dse eps i dd de,
  rows_close c eps dsd dse -> nth_error dsd i = Some dd -> nth_error dse i = Some de ->
  fig_close (eps + QcZ (Z.of_nat (S i)) * c) dd de.
Proof.
  intros Hc. induction dsd as [|a x IH]; intros dse eps i dd de H Hd He.
  - destruct i; discriminate Hd.
  - destruct dse as [|b y]; [destruct i; discriminate He|]. cbn [rows_close] in H. destruct H as [H1 H2].
    destruct i as [|i].
    + cbn [nth_error] in Hd, He. inversion Hd; inversion He; subst.
      replace (eps + QcZ (Z.of_nat 1) * c) with (eps + c); [exact H1|].
      assert (E : QcZ (Z.of_nat 1) = 1) by (apply Qc_is_canon; reflexivity). rewrite E. ring.
    + cbn [nth_error] in Hd, He. pose proof (IH y (eps + c) i dd de H2 Hd He) as H.
      replace (eps + QcZ (Z.of_nat (S (S i))) * c) with (eps + c + QcZ (Z.of_nat (S i)) * c); [exact H|].
      rewrite (QcZ_S (S i)). ring.
Qed.

(* ---- whole histories ---- *)
Lemma st_close_empty e a :
  st_close e {| ps_map := []; ps_all := 0; ps_latest := a |} {| ps_map := []; ps_all := 0; ps_latest := a |}.
Proof. split; [reflexivity | split; [reflexivity | intros id; exact I]]. Qed.
Lemma status_close_refl e s : 0 <= e -> status_close e s s.
Proof. intros He. split; [reflexivity | split; [reflexivity | apply qclose_refl, He]]. Qed.

Theorem run_error_accumulates (k : nat) init txs dsd od dse oe :
  (2 * k + 2 <= 28)%nat ->
  Forall (fun t => valid_tx t = true) txs ->
  run dec init txs = (dsd, od) -> run exact init txs = (dse, oe) ->
  in_class k dsd dse = true ->
  forall i dd de, nth_error dsd i = Some dd -> nth_error dse i = Some de ->
    fig_close (QcZ (Z.of_nat (S i)) * cR k) dd de.
Proof.
  intros Hk Hv Hd He Hc i dd de Nd Ne.
  assert (H : rows_close (cR k) 0 dsd dse).
  { unfold run in Hd, He. destruct txs as [|t0 r]; [inversion Hd; subst; exact I|].
    destruct (init_state dec init) as [std| |] eqn:Id; try (inversion Hd; subst; exact I).
    destruct (init_state exact init) as [ste| |] eqn:Ie; try (inversion He; subst; destruct dsd; exact I).
    apply (run_loop_error k Hk (t0 :: r) [] std ste 0 dsd od dse oe); try assumption.
    - apply Qcle_refl.
    - unfold init_state in Id, Ie. destruct init as [i0|].
      + destruct (negb (Qceqb (s_sh i0) (s_all i0))); [discriminate|].
        apply (set_latest_close 0 dec exact {| ps_map := []; ps_all := 0; ps_latest := default_aff |}
                 {| ps_map := []; ps_all := 0; ps_latest := default_aff |} default_aff i0 i0); try assumption.
        * apply st_close_empty.
        * apply status_close_refl, Qcle_refl.
      + inversion Id; inversion Ie; subst. apply st_close_empty. }
  pose proof (rows_close_nth (cR k) (cR_nonneg k) dsd dse 0 i dd de H Nd Ne) as F.
  replace (QcZ (Z.of_nat (S i)) * cR k) with (0 + QcZ (Z.of_nat (S i)) * cR k) by ring. exact F.
Qed.

(* ---- the instance for amounts below a million ---- *)
Lemma QcZ_le a b : (a <= b)%Z -> QcZ a <= QcZ b.
Proof. intros H. unfold QcZ. qc_unfold. unfold Qle, inject_Z. cbn [Qnum Qden]. lia. Qed.

Lemma cR_6 : cR 6 = Qcfrac 13 500000000000000.
Proof. apply Qc_is_canon. vm_compute. reflexivity. Qed.
Lemma cR_9 : cR 9 = Qcfrac 13 500000000.
Proof. apply Qc_is_canon. vm_compute. reflexivity. Qed.

Theorem run_error_bound_million init txs dsd od dse oe :
  Forall (fun t => valid_tx t = true) txs ->
  run dec init txs = (dsd, od) -> run exact init txs = (dse, oe) ->
  in_class 6 dsd dse = true ->
  forall i dd de, (Z.of_nat i < 38461)%Z -> nth_error dsd i = Some dd -> nth_error dse i = Some de ->
    fig_close (Qcfrac 1 1000000000) dd de.
Proof.
  intros Hv Hd He Hc i dd de Hi Nd Ne.
  apply (fig_close_mono (QcZ (Z.of_nat (S i)) * cR 6)).
  - rewrite cR_6. assert (Hz : (Z.of_nat (S i) <= 38461)%Z) by (clear - Hi; lia).
    pose proof (QcZ_le (Z.of_nat (S i)) 38461 Hz) as H.
    assert (E : QcZ 38461 * Qcfrac 13 500000000000000 <= Qcfrac 1 1000000000) by (vm_compute; discriminate).
    assert (P : 0 <= Qcfrac 13 500000000000000) by (vm_compute; discriminate).
    set (x := QcZ (Z.of_nat (S i))) in *. set (y := QcZ 38461) in *. set (c := Qcfrac 13 500000000000000) in *.
    set (z := Qcfrac 1 1000000000) in *. clearbody x y c z.
    apply Qcle_trans with (y * c); [apply Qcmult_le_compat_r; assumption | exact E].
  - apply (run_error_accumulates 6 init txs dsd od dse oe); try assumption. lia.
Qed.
