(* C15, whole runs, split inserted at an arbitrary position: a history
   pre ++ post and the history pre ++ S ++ restated(post), where S is one
   f-for-1 split row per affiliate, all settling on the same day between the
   two parts.  Part 1: the two window scans see the same (restated) quantities
   through the inserted rows. *)
From Coq Require Import List NArith ZArith QArith Qcanon Bool Lia Permutation.
From ACB Require Import Base.Outcome Base.QcExtra Base.Fit Base.Arith Model.Tx Model.Ledger Model.Sfl
     Model.DeltaList Spec.AvgCost Proofs.Tactics Proofs.EraseRi Proofs.C15Scale Proofs.C02Scan Proofs.C15Run Proofs.C01Refine Proofs.C04Inv Proofs.C04Sum Proofs.C04Reject Proofs.AllAfter.
Import ListNotations.
Local Open Scope Qc_scope.

Definition ids_of (l : list tx) : list N := map (fun s => af_id (t_af s)) l.

Section Full.
  Variable f : Qc.
  Hypothesis Hf : 0 < f.
  Let Hf0 : f <> 0 := Qclt_not_eq' f Hf.
  Variable dS : Z.

  Definition fsplit (x : tx) : Prop :=
    exists po pr, t_act x = Split po pr false /\ pr <> 0 /\ po / pr = f /\ t_sd x = dS.
  Definition adj_pos (adj : list (N * Qc)) : Prop := forall k v, alookup k adj = Some v -> 0 < v.

  Lemma adj_of_aupdate af k v adj :
    adj_of af (aupdate k v adj) = if N.eqb (af_id af) k then v else adj_of af adj.
  Proof. unfold adj_of. rewrite alookup_aupdate. destruct (N.eqb (af_id af) k); reflexivity. Qed.
  Lemma adj_of_pos af adj : adj_pos adj -> 0 < adj_of af adj.
  Proof.
    intros H. unfold adj_of. destruct (alookup _ adj) eqn:E; [eapply H; exact E | reflexivity].
  Qed.
  Lemma adj_pos_update k v adj : adj_pos adj -> 0 < v -> adj_pos (aupdate k v adj).
  Proof.
    intros H Hv k' v'. rewrite alookup_aupdate.
    destruct (N.eqb k' k); intros E; [inversion E; subst; exact Hv | eapply H; exact E].
  Qed.
  Lemma adj_pos_nil : adj_pos [].
  Proof. intros k v E. discriminate E. Qed.
  Lemma adj_of_id af af' adj : af_id af = af_id af' -> adj_of af adj = adj_of af' adj.
  Proof. unfold adj_of. intros ->. reflexivity. Qed.

  Lemma fsplit_factor po pr : pr <> 0 -> po / pr = f -> split_factor exact po pr = Ok f.
  Proof.
    intros Hp E. unfold split_factor, pos_div. cbn [a_div exact].
    destruct (Qceqb_spec pr 0) as [|_]; [contradiction|]. cbn [bind]. rewrite E. unfold pos_unwrap.
    destruct (Qcltb_spec 0 f) as [_|H]; [reflexivity | contradiction].
  Qed.
  Lemma pos_mul_ok a b : 0 < a -> 0 < b -> pos_mul exact a b = Ok (a * b).
  Proof.
    intros Ha Hb. unfold pos_mul, pos_unwrap. cbn [a_mul exact bind].
    destruct (Qcltb_spec 0 (a * b)) as [_|H]; [reflexivity | exfalso; apply H; apply Qcmul_pos; assumption].
  Qed.
  Lemma pos_div_okf a : 0 < a -> pos_div exact a f = Ok (a / f).
  Proof.
    intros Ha. unfold pos_div, pos_unwrap. cbn [a_div exact].
    destruct (Qceqb_spec f 0) as [|_]; [contradiction|]. cbn [bind].
    destruct (Qcltb_spec 0 (a / f)) as [_|H]; [reflexivity | exfalso; apply H; apply Qcdiv_pos; assumption].
  Qed.
  Lemma ltb0_divf y : Qcltb 0 (y / f) = Qcltb 0 y.
  Proof.
    assert (E : y = y / f * f) by (field; exact Hf0). rewrite E at 2. symmetry. apply (ltb0_sc f Hf).
  Qed.
  Lemma pos_div_sc a b : pos_div exact (a / f) b = map_res (fun x => x / f) (pos_div exact a b).
  Proof.
    unfold pos_div, pos_unwrap. cbn [a_div exact].
    destruct (Qceqb_spec b 0) as [|Hb]; cbn [bind map_res]; [reflexivity|].
    assert (E : a / f / b = a / b / f) by (field; split; assumption). rewrite E, ltb0_divf.
    destruct (Qcltb 0 (a / b)); reflexivity.
  Qed.

  (* ---------- backward scan ---------- *)
  Lemma bwd_P first dflt dflt' P :
    (forall af, dflt' af = dflt af * f) ->
    forall adj1 adj0 s,
    (forall x, In x P -> adj_of (t_af x) adj1 = adj_of (t_af x) adj0 * f) ->
    bwd_scan exact first dflt' P adj1 (sc_scan f s) = map_res (sc_scan f) (bwd_scan exact first dflt P adj0 s).
  Proof.
    intros Hd. induction P as [|x P IH]; intros adj1 adj0 s Hr; cbn [bwd_scan]; [reflexivity|].
    destruct (Z.ltb (t_sd x) first); [reflexivity|].
    assert (Hx := Hr x (or_introl eq_refl)).
    assert (Hr' : forall y, In y P -> adj_of (t_af y) adj1 = adj_of (t_af y) adj0 * f)
      by (intros y Hy; apply Hr; right; exact Hy).
    destruct (t_act x) as [sh aps com rate crate | sh aps com rate crate sp | aps rate | sh aps | post pre io].
    - rewrite Hx, (pos_mul_sc_r f Hf).
      destruct (pos_mul exact sh _) as [b| |]; cbn [bind map_res]; try reflexivity; cbv beta.
      cbn [sc_scan sc_eop sc_acq sc_active sc_buyers]. cbv beta. rewrite (gez_add_sc f Hf).
      destruct (gez_add exact (sc_acq s) b) as [acq| |]; cbn [bind map_res]; try reflexivity; cbv beta.
      rewrite amem_mapv.
      specialize (IH adj1 adj0 {| sc_eop := sc_eop s; sc_acq := acq; sc_buyers := add_aff (t_af x) (sc_buyers s);
                            sc_active := if amem (af_id (t_af x)) (sc_active s) then sc_active s
                                         else aupdate (af_id (t_af x)) (dflt (t_af x)) (sc_active s) |} Hr').
      unfold sc_scan in IH at 1. cbn [sc_eop sc_acq sc_buyers sc_active] in IH.
      destruct (amem (af_id (t_af x)) (sc_active s)); [exact IH|].
      rewrite <- aupdate_mapv in IH. cbv beta in IH. rewrite <- Hd in IH. exact IH.
    - apply IH; exact Hr'.
    - apply IH; exact Hr'.
    - apply IH; exact Hr'.
    - destruct (split_factor exact post pre) as [fa| |]; cbn [bind]; try reflexivity.
      rewrite Hx, (pos_mul_sc_l f Hf).
      destruct (pos_mul exact (adj_of (t_af x) adj0) fa) as [nsa| |]; cbn [bind map_res]; try reflexivity.
      apply IH. intros y Hy. rewrite !adj_of_aupdate.
      destruct (N.eqb _ _); [reflexivity | apply Hr'; exact Hy].
  Qed.

  Lemma bwd_S first dflt dflt' P :
    (forall af, dflt' af = dflt af * f) -> (first <= dS)%Z ->
    forall S adj1 adj0 s, Forall fsplit S -> NoDup (ids_of S) -> adj_pos adj1 ->
    (forall x, In x P ->
       (In (af_id (t_af x)) (ids_of S) /\ adj_of (t_af x) adj1 = adj_of (t_af x) adj0) \/
       (~ In (af_id (t_af x)) (ids_of S) /\ adj_of (t_af x) adj1 = adj_of (t_af x) adj0 * f)) ->
    bwd_scan exact first dflt' (S ++ P) adj1 (sc_scan f s) = map_res (sc_scan f) (bwd_scan exact first dflt P adj0 s).
  Proof.
    intros Hd Hfirst. induction S as [|x0 S IH]; intros adj1 adj0 s HS Hnd Hpos Hr; cbn [app].
    - apply bwd_P; [exact Hd|]. intros x Hx. destruct (Hr x Hx) as [[[] _]|[_ E]]. exact E.
    - apply Forall_cons_iff in HS as [(po & pr & Ea & Hpr & Ef & Esd) HS].
      cbn [ids_of map] in Hnd. apply NoDup_cons_iff in Hnd as [Hni Hnd].
      cbn [bwd_scan]. rewrite Esd.
      assert (El : Z.ltb dS first = false) by (apply Z.ltb_ge; exact Hfirst). rewrite El, Ea.
      rewrite (fsplit_factor _ _ Hpr Ef). cbn [bind].
      rewrite (pos_mul_ok _ _ (adj_of_pos (t_af x0) adj1 Hpos) Hf). cbn [bind].
      apply IH; [exact HS | exact Hnd | |].
      + apply adj_pos_update; [exact Hpos | apply Qcmul_pos; [apply adj_of_pos; exact Hpos | exact Hf]].
      + intros x Hx. rewrite adj_of_aupdate.
        destruct (N.eqb_spec (af_id (t_af x)) (af_id (t_af x0))) as [e|n].
        * right. split; [rewrite e; exact Hni|].
          rewrite (adj_of_id (t_af x0) (t_af x) adj1) by (symmetry; exact e).
          destruct (Hr x Hx) as [[_ E]|[Hn _]]; [rewrite E; reflexivity|].
          exfalso. apply Hn. cbn [ids_of map]. left. symmetry. exact e.
        * destruct (Hr x Hx) as [[Hin E]|[Hn E]].
          -- left. split; [|exact E]. cbn [ids_of map] in Hin. destruct Hin as [e|Hin]; [congruence | exact Hin].
          -- right. split; [|exact E]. intros Hc. apply Hn. cbn [ids_of map]. right. exact Hc.
  Qed.

  Lemma pos_mul_pos a b r : pos_mul exact a b = Ok r -> 0 < r.
  Proof. intros H. apply pos_mul_exact in H as [-> H]. exact H. Qed.
  Lemma pos_div_pos a b r : pos_div exact a b = Ok r -> 0 < r.
  Proof. intros H. apply pos_div_exact in H as (-> & _ & H). exact H. Qed.

  Lemma bwd_DSP first dflt dflt' S P :
    (forall af, dflt' af = dflt af * f) -> Forall fsplit S -> NoDup (ids_of S) ->
    Forall (fun x => In (af_id (t_af x)) (ids_of S)) P -> Forall (fun x => (t_sd x <= dS)%Z) P ->
    forall D adj s, adj_pos adj ->
    bwd_scan exact first dflt' (map (scale_tx f) D ++ S ++ P) adj (sc_scan f s)
    = map_res (sc_scan f) (bwd_scan exact first dflt (D ++ P) adj s).
  Proof.
    intros Hd HS Hnd HP Hsd. induction D as [|x D IH]; intros adj s Hpos; cbn [map app].
    - destruct (Z_le_gt_dec first dS) as [Hle|Hgt].
      + apply bwd_S; try assumption. intros x Hx. left. split; [|reflexivity].
        rewrite Forall_forall in HP. apply HP. exact Hx.
      + destruct S as [|x0 S].
        * destruct P as [|y P]; [reflexivity|]. apply Forall_cons_iff in HP as [[] _].
        * apply Forall_cons_iff in HS as [(po & pr & Ea & Hpr & Ef & Esd) HS].
          cbn [app bwd_scan]. rewrite Esd.
          assert (El : Z.ltb dS first = true) by (apply Z.ltb_lt; lia). rewrite El.
          destruct P as [|y P]; [reflexivity|]. apply Forall_cons_iff in Hsd as [Hy _].
          cbn [bwd_scan]. assert (El2 : Z.ltb (t_sd y) first = true) by (apply Z.ltb_lt; lia). rewrite El2. reflexivity.
    - cbn [bwd_scan scale_tx t_sd t_af t_act]. destruct (Z.ltb (t_sd x) first); [reflexivity|].
      destruct (t_act x) as [sh aps com rate crate | sh aps com rate crate sp | aps rate | sh aps | post pre io];
        cbn [scale_action].
      + rewrite (pos_mul_sc_l f Hf). destruct (pos_mul exact sh _) as [b| |]; cbn [bind map_res]; try reflexivity; cbv beta.
        cbn [sc_scan sc_eop sc_acq sc_active sc_buyers]. cbv beta. rewrite (gez_add_sc f Hf).
        destruct (gez_add exact (sc_acq s) b) as [acq| |]; cbn [bind map_res]; try reflexivity; cbv beta.
        rewrite amem_mapv.
        specialize (IH adj {| sc_eop := sc_eop s; sc_acq := acq; sc_buyers := add_aff (t_af x) (sc_buyers s);
                              sc_active := if amem (af_id (t_af x)) (sc_active s) then sc_active s
                                           else aupdate (af_id (t_af x)) (dflt (t_af x)) (sc_active s) |} Hpos).
        unfold sc_scan in IH at 1. cbn [sc_eop sc_acq sc_buyers sc_active] in IH.
        destruct (amem (af_id (t_af x)) (sc_active s)); [exact IH|].
        rewrite <- aupdate_mapv in IH. cbv beta in IH. rewrite <- Hd in IH. exact IH.
      + apply IH; exact Hpos.
      + apply IH; exact Hpos.
      + apply IH; exact Hpos.
      + destruct (split_factor exact post pre) as [fa| |]; cbn [bind]; try reflexivity.
        destruct (pos_mul exact _ fa) as [nsa| |] eqn:En; cbn [bind]; try reflexivity.
        apply IH. apply adj_pos_update; [exact Hpos | eapply pos_mul_pos; exact En].
  Qed.

  (* ---------- forward scan ---------- *)
  Lemma gez_div_cancel a b : gez_div exact (a * f) (b * f) = gez_div exact a b.
  Proof. unfold gez_div. rewrite (a_div_cancel f Hf). reflexivity. Qed.

  Lemma fwd_A2 last dflt A2 :
    forall adj1 adj0 s,
    (forall x, In x A2 -> adj_of (t_af x) adj1 = adj_of (t_af x) adj0 * f) ->
    fwd_scan exact last dflt (map (scale_tx f) A2) adj1 s = fwd_scan exact last dflt A2 adj0 s.
  Proof.
    induction A2 as [|x A2 IH]; intros adj1 adj0 s Hr; cbn [map fwd_scan]; [reflexivity|].
    cbn [scale_tx t_sd t_af t_act]. destruct (Z.ltb last (t_sd x)); [reflexivity|].
    assert (Hx := Hr x (or_introl eq_refl)).
    assert (Hr' : forall y, In y A2 -> adj_of (t_af y) adj1 = adj_of (t_af y) adj0 * f)
      by (intros y Hy; apply Hr; right; exact Hy).
    destruct (t_act x) as [sh aps com rate crate | sh aps com rate crate sp | aps rate | sh aps | post pre io];
      cbn [scale_action].
    - rewrite Hx, gez_div_cancel.
      destruct (gez_div exact sh _) as [b| |]; cbn [bind]; try reflexivity.
      destruct (gez_add exact (sc_eop s) b) as [eop| |]; cbn [bind]; try reflexivity.
      destruct (gez_add exact _ b) as [na| |]; cbn [bind]; try reflexivity.
      destruct (gez_add exact (sc_acq s) b) as [acq| |]; cbn [bind]; try reflexivity.
      apply IH; exact Hr'.
    - rewrite Hx, gez_div_cancel.
      destruct (gez_div exact sh _) as [b| |]; cbn [bind]; try reflexivity.
      destruct (a_sub exact (sc_eop s) b) as [eop| |]; cbn [bind]; try reflexivity.
      destruct (Qcltb eop 0); [reflexivity|].
      destruct (a_sub exact _ b) as [na| |]; cbn [bind]; try reflexivity.
      destruct (Qcltb na 0); [reflexivity|].
      apply IH; exact Hr'.
    - apply IH; exact Hr'.
    - apply IH; exact Hr'.
    - destruct (split_factor exact post pre) as [fa| |]; cbn [bind]; try reflexivity.
      rewrite Hx, (pos_mul_sc_l f Hf).
      destruct (pos_mul exact (adj_of (t_af x) adj0) fa) as [nsa| |]; cbn [bind map_res]; try reflexivity.
      apply IH. intros y Hy. rewrite !adj_of_aupdate.
      destruct (N.eqb _ _); [reflexivity | apply Hr'; exact Hy].
  Qed.

  Lemma fwd_S last dflt A2 :
    (dS <= last)%Z ->
    forall S adj1 adj0 s, Forall fsplit S -> NoDup (ids_of S) -> adj_pos adj1 ->
    (forall x, In x A2 ->
       (In (af_id (t_af x)) (ids_of S) /\ adj_of (t_af x) adj1 = adj_of (t_af x) adj0) \/
       (~ In (af_id (t_af x)) (ids_of S) /\ adj_of (t_af x) adj1 = adj_of (t_af x) adj0 * f)) ->
    fwd_scan exact last dflt (S ++ map (scale_tx f) A2) adj1 s = fwd_scan exact last dflt A2 adj0 s.
  Proof.
    intros Hlast. induction S as [|x0 S IH]; intros adj1 adj0 s HS Hnd Hpos Hr; cbn [app].
    - apply fwd_A2. intros x Hx. destruct (Hr x Hx) as [[[] _]|[_ E]]. exact E.
    - apply Forall_cons_iff in HS as [(po & pr & Ea & Hpr & Ef & Esd) HS].
      cbn [ids_of map] in Hnd. apply NoDup_cons_iff in Hnd as [Hni Hnd].
      cbn [fwd_scan]. rewrite Esd.
      assert (El : Z.ltb last dS = false) by (apply Z.ltb_ge; exact Hlast). rewrite El, Ea.
      rewrite (fsplit_factor _ _ Hpr Ef). cbn [bind].
      rewrite (pos_mul_ok _ _ (adj_of_pos (t_af x0) adj1 Hpos) Hf). cbn [bind].
      apply IH; [exact HS | exact Hnd | |].
      + apply adj_pos_update; [exact Hpos | apply Qcmul_pos; [apply adj_of_pos; exact Hpos | exact Hf]].
      + intros x Hx. rewrite adj_of_aupdate.
        destruct (N.eqb_spec (af_id (t_af x)) (af_id (t_af x0))) as [e|n].
        * right. split; [rewrite e; exact Hni|].
          rewrite (adj_of_id (t_af x0) (t_af x) adj1) by (symmetry; exact e).
          destruct (Hr x Hx) as [[_ E]|[Hn _]]; [rewrite E; reflexivity|].
          exfalso. apply Hn. cbn [ids_of map]. left. symmetry. exact e.
        * destruct (Hr x Hx) as [[Hin E]|[Hn E]].
          -- left. split; [|exact E]. cbn [ids_of map] in Hin. destruct Hin as [e|Hin]; [congruence | exact Hin].
          -- right. split; [|exact E]. intros Hc. apply Hn. cbn [ids_of map]. right. exact Hc.
  Qed.

  Lemma fwd_ASA last dflt S A2 :
    Forall fsplit S -> NoDup (ids_of S) ->
    Forall (fun x => In (af_id (t_af x)) (ids_of S)) A2 -> Forall (fun x => (dS <= t_sd x)%Z) A2 ->
    forall A1 adj s, adj_pos adj ->
    fwd_scan exact last dflt (A1 ++ S ++ map (scale_tx f) A2) adj s = fwd_scan exact last dflt (A1 ++ A2) adj s.
  Proof.
    intros HS Hnd HA Hsd. induction A1 as [|x A1 IH]; intros adj s Hpos; cbn [app].
    - destruct (Z_le_gt_dec dS last) as [Hle|Hgt].
      + apply fwd_S; try assumption. intros x Hx. left. split; [|reflexivity].
        rewrite Forall_forall in HA. apply HA. exact Hx.
      + destruct S as [|x0 S].
        * destruct A2 as [|y A2]; [reflexivity|]. apply Forall_cons_iff in HA as [[] _].
        * apply Forall_cons_iff in HS as [(po & pr & Ea & Hpr & Ef & Esd) HS].
          cbn [app fwd_scan]. rewrite Esd.
          assert (El : Z.ltb last dS = true) by (apply Z.ltb_lt; lia). rewrite El.
          destruct A2 as [|y A2]; [reflexivity|]. apply Forall_cons_iff in Hsd as [Hy _].
          cbn [fwd_scan]. assert (El2 : Z.ltb last (t_sd y) = true) by (apply Z.ltb_lt; lia). rewrite El2. reflexivity.
    - cbn [fwd_scan]. destruct (Z.ltb last (t_sd x)); [reflexivity|].
      destruct (t_act x) as [sh aps com rate crate | sh aps com rate crate sp | aps rate | sh aps | post pre io].
      + destruct (gez_div exact sh _) as [b| |]; cbn [bind]; try reflexivity.
        destruct (gez_add exact (sc_eop s) b) as [eop| |]; cbn [bind]; try reflexivity.
        destruct (gez_add exact _ b) as [na| |]; cbn [bind]; try reflexivity.
        destruct (gez_add exact (sc_acq s) b) as [acq| |]; cbn [bind]; try reflexivity.
        apply IH; exact Hpos.
      + destruct (gez_div exact sh _) as [b| |]; cbn [bind]; try reflexivity.
        destruct (a_sub exact (sc_eop s) b) as [eop| |]; cbn [bind]; try reflexivity.
        destruct (Qcltb eop 0); [reflexivity|].
        destruct (a_sub exact _ b) as [na| |]; cbn [bind]; try reflexivity.
        destruct (Qcltb na 0); [reflexivity|].
        apply IH; exact Hpos.
      + apply IH; exact Hpos.
      + apply IH; exact Hpos.
      + destruct (split_factor exact post pre) as [fa| |]; cbn [bind]; try reflexivity.
        destruct (pos_mul exact _ fa) as [nsa| |] eqn:En; cbn [bind]; try reflexivity.
        apply IH. apply adj_pos_update; [exact Hpos | eapply pos_mul_pos; exact En].
  Qed.
End Full.

(* ---------- Part 2: simulation up to an observational state relation ---------- *)
Definition res_rel {T} (P : T -> T -> Prop) (r' r : res T) : Prop :=
  match r, r' with
  | Ok a, Ok a' => P a' a
  | Rej e, Rej e' => e = e'
  | Panic p, Panic p' => p = p'
  | _, _ => False
  end.

Definition obs (st : pstate) (af : aff) : Qc * option Qc :=
  match latest_for st af with Some s => (s_sh s, s_acb s) | None => (0, s_acb (default_status af)) end.
Definition lp (st : pstate) : Qc := s_all (latest_post_status st).

Lemma next_pre_obs st af :
  next_pre_status st af = {| s_sh := fst (obs st af); s_all := ps_all st; s_acb := snd (obs st af) |}.
Proof.
  unfold next_pre_status, obs. destruct (latest_for st af) as [s|]; cbn [fst snd].
  - destruct (Qceqb_spec (s_all s) (ps_all st)) as [E|_]; [|reflexivity].
    destruct s as [sh al ac]. cbn [s_sh s_all s_acb] in *. subst al. reflexivity.
  - destruct (Qceqb_spec (s_all (default_status af)) (ps_all st)) as [E|_]; [|reflexivity].
    unfold default_status in *. cbn [s_sh s_all s_acb] in *. rewrite <- E. reflexivity.
Qed.
Lemma obs_fst st af : match latest_for st af with Some s => s_sh s | None => 0 end = fst (obs st af).
Proof. unfold obs. destruct (latest_for st af); reflexivity. Qed.

Section Sim.
  Variable f : Qc.
  Hypothesis Hf : 0 < f.
  Let Hf0 : f <> 0 := Qclt_not_eq' f Hf.
  Notation sc := (scale_tx f).

  (* the registered flag of an affiliate is a function of its id (as in the
     program, where it is read off the id's "(R)" suffix) *)
  Variable regof : N -> bool.
  Definition goodaf (af : aff) : Prop := af_reg af = regof (af_id af).
  Definition goodtx (t : tx) : Prop := goodaf (t_af t).

  Definition R (st' st : pstate) : Prop :=
    ps_all st' = ps_all st * f /\ lp st' = lp st * f /\
    (forall af, fst (obs st' af) = fst (obs st af) * f) /\
    (forall af, goodaf af -> snd (obs st' af) = snd (obs st af)).

  Lemma next_pre_R st' st af : R st' st -> goodaf af -> next_pre_status st' af = sc_status f (next_pre_status st af).
  Proof.
    intros (Ha & _ & Ho1 & Ho2) Hg. rewrite !next_pre_obs, Ho1, (Ho2 _ Hg), Ha. reflexivity.
  Qed.

  Lemma obs_set st af v st1 af2 :
    set_latest exact st af v = Ok st1 ->
    obs st1 af2 = if N.eqb (af_id af2) (af_id af) then (s_sh v, s_acb v) else obs st af2.
  Proof.
    unfold set_latest. rewrite all_after_exact. cbn [bind]. intros H.
    destruct (negb (Bool.eqb _ _)); [discriminate|]. destruct (negb (Qceqb _ _)); [discriminate|].
    inversion H; subst st1; clear H. unfold obs, latest_for. cbn [ps_map]. rewrite alookup_aupdate.
    destruct (N.eqb (af_id af2) (af_id af)); reflexivity.
  Qed.
  Lemma set_latest_all st af v st1 : set_latest exact st af v = Ok st1 -> ps_all st1 = s_all v /\ lp st1 = s_all v.
  Proof.
    unfold set_latest. rewrite all_after_exact. cbn [bind]. intros H.
    destruct (negb (Bool.eqb _ _)); [discriminate|]. destruct (negb (Qceqb _ _)); [discriminate|].
    inversion H; subst st1; clear H. unfold lp, latest_post_status, latest_for. cbn [ps_map ps_all ps_latest].
    rewrite alookup_aupdate, N.eqb_refl. split; reflexivity.
  Qed.

  Lemma set_latest_R st' st af v :
    R st' st -> res_rel R (set_latest exact st' af (sc_status f v)) (set_latest exact st af v).
  Proof.
    intros (Ha & Hl & Ho & Ho2).
    destruct (set_latest exact st af v) as [st1| |] eqn:E1;
      destruct (set_latest exact st' af (sc_status f v)) as [st1'| |] eqn:E2.
    all: cbn [res_rel].
    all: try (exfalso; revert E1 E2; unfold set_latest; rewrite !all_after_exact; cbn [bind sc_status s_sh s_all s_acb];
              rewrite !obs_fst, Ho, Ha; cbn [fst];
              assert (E : ps_all st * f + (s_sh v * f - fst (obs st af) * f) = (ps_all st + (s_sh v - fst (obs st af))) * f) by ring;
              rewrite E, (eqb_sc f Hf);
              destruct (negb (Bool.eqb _ _)); [intros; congruence|];
              destruct (negb (Qceqb _ _)); intros; congruence).
    - destruct (set_latest_all _ _ _ _ E1) as [A1 L1]. destruct (set_latest_all _ _ _ _ E2) as [A2 L2].
      split; [|split; [|split]].
      + rewrite A1, A2. reflexivity.
      + rewrite L1, L2. reflexivity.
      + intros af2. rewrite (obs_set _ _ _ _ af2 E1), (obs_set _ _ _ _ af2 E2).
        destruct (N.eqb (af_id af2) (af_id af)); [reflexivity | apply Ho].
      + intros af2 Hg. rewrite (obs_set _ _ _ _ af2 E1), (obs_set _ _ _ _ af2 E2).
        destruct (N.eqb (af_id af2) (af_id af)); [reflexivity | apply Ho2; exact Hg].
    - revert E1 E2; unfold set_latest; rewrite !all_after_exact; cbn [bind sc_status s_sh s_all s_acb];
        rewrite !obs_fst, Ho, Ha; cbn [fst].
      assert (E : ps_all st * f + (s_sh v * f - fst (obs st af) * f) = (ps_all st + (s_sh v - fst (obs st af))) * f) by ring.
      rewrite E, (eqb_sc f Hf).
      destruct (negb (Bool.eqb _ _)); [intros; congruence|].
      destruct (negb (Qceqb _ _)); intros; congruence.
  Qed.

  (* the scans, abstractly: [bef'] / [aft'] show the restated picture of [bef] / [aft] *)
  Definition BwdOk (bef' bef : list tx) : Prop :=
    forall first dflt dflt' s, (forall af, dflt' af = dflt af * f) ->
      bwd_scan exact first dflt' bef' [] (sc_scan f s) = map_res (sc_scan f) (bwd_scan exact first dflt bef [] s).
  Definition FwdOk (aft' aft : list tx) : Prop :=
    forall last dflt dflt' s, (forall af, dflt' af = dflt af * f) ->
      fwd_scan exact last dflt' aft' [] (sc_scan f s) = map_res (sc_scan f) (fwd_scan exact last dflt aft [] s).

  Lemma FwdOk_map aft : FwdOk (map sc aft) aft.
  Proof. intros last dflt dflt' s Hd. apply (fwd_scan_sc f Hf). exact Hd. Qed.

  Lemma sfl_info_R bef' bef t sold aft' aft st' st :
    R st' st -> BwdOk bef' bef -> FwdOk aft' aft ->
    sfl_info exact bef' (sc t) (sold * f) aft' st'
    = map_res (option_map (sc_scan f)) (sfl_info exact bef t sold aft st).
  Proof.
    intros (Ha & Hl & Ho & _) HB HF.
    unfold sfl_info. cbn [a_sub exact bind scale_tx t_af t_sd]. fold (lp st') (lp st). rewrite Hl.
    assert (E1 : lp st * f - sold * f = (lp st - sold) * f) by ring.
    rewrite E1, (ltb_sc0 f Hf). destruct (Qcltb (lp st - sold) 0); [reflexivity|].
    assert (Hd : forall af, match latest_for st' af with Some s => s_sh s | None => 0 end
                            = match latest_for st af with Some s => s_sh s | None => 0 end * f).
    { intros af. rewrite !obs_fst, Ho. reflexivity. }
    rewrite Hd.
    assert (E2 : forall a, a * f - sold * f = (a - sold) * f) by (intros; ring).
    rewrite E2, (ltb_sc0 f Hf). destruct (Qcltb _ 0); [reflexivity|].
    set (s0 := {| sc_eop := lp st - sold; sc_acq := 0; sc_buyers := [];
                  sc_active := [(af_id (t_af t), match latest_for st (t_af t) with Some s => s_sh s | None => 0 end - sold)] |}).
    assert (Es0 : {| sc_eop := (lp st - sold) * f; sc_acq := 0; sc_buyers := [];
                     sc_active := [(af_id (t_af t), (match latest_for st (t_af t) with Some s => s_sh s | None => 0 end - sold) * f)] |}
                  = sc_scan f s0).
    { unfold sc_scan, s0. cbn [sc_eop sc_acq sc_buyers sc_active mapv map fst snd]. rewrite <- (zero_sc f). reflexivity. }
    rewrite Es0, (HF _ _ _ _ Hd).
    destruct (fwd_scan exact _ _ aft [] s0) as [s1| |]; cbn [bind map_res]; try reflexivity.
    cbn [sc_scan sc_eop]. rewrite (ltb0_sc f Hf). destruct (negb (Qcltb 0 (sc_eop s1))); [reflexivity|].
    fold (sc_scan f s1). rewrite (HB _ _ _ _ Hd).
    destruct (bwd_scan exact _ _ bef [] s1) as [s2| |]; cbn [bind map_res]; try reflexivity.
    cbn [sc_scan sc_acq]. rewrite (ltb0_sc f Hf). destruct (Qcltb 0 (sc_acq s2)); reflexivity.
  Qed.

  Lemma delta_sfl_R bef' bef t sold spec aft' aft st' st loss :
    R st' st -> BwdOk bef' bef -> FwdOk aft' aft ->
    delta_sfl exact bef' (sc t) (sold * f) spec aft' st' loss
    = map_res (option_map (fun p => (sc_info f (fst p), map sc (snd p))))
              (delta_sfl exact bef t sold spec aft st loss).
  Proof.
    intros HR HB HF.
    unfold delta_sfl. rewrite (sfl_info_R _ _ _ _ _ _ _ _ HR HB HF).
    destruct (sfl_info exact bef t sold aft st) as [i| |]; cbn [bind map_res]; try reflexivity.
    rewrite (sfl_ratio_sc f Hf). destruct (sfl_ratio exact sold i) as [m| |]; cbn [bind map_res]; try reflexivity.
    assert (Ecalc : match option_map (sc_ratio f) m with
                    | Some r => q <- a_div exact (sr_num r) (sr_den r);; q1 <- pos_unwrap Site.ratio_to_pos q;;
                                l <- neg_mul_pos exact loss q1;; c <- eff_cent exact l;; lez_unwrap Site.eff_cent c
                    | None => Ok 0 end
                    = match m with
                      | Some r => q <- a_div exact (sr_num r) (sr_den r);; q1 <- pos_unwrap Site.ratio_to_pos q;;
                                  l <- neg_mul_pos exact loss q1;; c <- eff_cent exact l;; lez_unwrap Site.eff_cent c
                      | None => Ok 0 end).
    { destruct m as [r|]; cbn [option_map sc_ratio sr_num sr_den]; [|reflexivity]. rewrite (a_div_cancel f Hf). reflexivity. }
    rewrite Ecalc. clear Ecalc.
    match goal with |- bind ?c _ = _ => destruct c as [calc| |]; cbn [bind map_res]; try reflexivity end.
    destruct spec as [[sv force]|].
    - match goal with |- bind ?c _ = _ => destruct c as [u| |]; cbn [bind map_res]; try reflexivity end.
      destruct (negb (Qcltb sv 0)); [reflexivity|].
      destruct (neg_div exact sv loss) as [q| |]; cbn [bind map_res]; try reflexivity.
      rewrite (pos_mul_sc_r f Hf). destruct (pos_mul exact q sold) as [n| |]; cbn [bind map_res]; reflexivity.
    - destruct m as [r|]; cbn [option_map]; [|reflexivity].
      destruct (negb (Qcltb calc 0)); [reflexivity|]. rename calc into c.
      cbn [sc_ratio sr_portions]. rewrite (gen_sfla_sc f Hf).
      destruct (gen_sfla exact t c (sr_portions r)); cbn [bind map_res]; reflexivity.
  Qed.

  Lemma delta_for_tx_R bef' bef t aft' aft st' st :
    R st' st -> BwdOk bef' bef -> FwdOk aft' aft -> no_int_only t -> goodtx t ->
    delta_for_tx exact bef' (sc t) aft' st'
    = map_res (fun p => (sc_delta f (fst p), map sc (snd p))) (delta_for_tx exact bef t aft st).
  Proof.
    intros HR HB HF Hio Hg. unfold delta_for_tx. cbn [scale_tx t_af t_act].
    rewrite (next_pre_R _ _ _ HR Hg), (sanity_sc f Hf).
    destruct (sanity_check _ _); cbn [bind map_res]; try reflexivity.
    destruct (t_act t) as [n price com rate crate | n price com rate crate sp | amount rate
                          | n amount | post pre_ io] eqn:Ea; cbn [scale_action].
    2: { rewrite (sell_core_sc f Hf).
         destruct (sell_core exact _ n price com rate crate) as [c| |]; cbn [bind map_res]; try reflexivity.
         cbn [sc_core sc_gain sc_sh sc_all sc_acb]. destruct (sc_gain c) as [g|]; [|reflexivity].
         destruct (Qcltb g 0).
         - fold (scale_tx f t). rewrite (delta_sfl_R _ _ _ _ _ _ _ _ _ _ HR HB HF).
           destruct (delta_sfl exact bef t n sp aft st g) as [m| |]; cbn [bind map_res]; try reflexivity.
           destruct m as [[info inj]|]; cbn [option_map fst snd sc_info sf_amount].
           + destruct (a_sub exact g (sf_amount info)); cbn [bind map_res]; reflexivity.
           + reflexivity.
         - destruct sp; reflexivity. }
    all: change (scale_action f (t_act t)) with (t_act (scale_tx f t)) || idtac;
      match goal with
      | |- bind (delta_nonsell exact ?t' _) _ = _ =>
          replace t' with (scale_tx f t) by (unfold scale_tx; rewrite Ea; reflexivity)
      end;
      rewrite (delta_nonsell_sc f Hf) by (unfold no_int_only in *; rewrite Ea in *; exact Hio);
      destruct (delta_nonsell exact t _); cbn [bind map_res]; reflexivity.
  Qed.

  (* ---- the rows after the inserted split ---- *)
  Section Suffix.
    Variables B' B : list tx.
    Hypothesis HB : forall D, BwdOk (map sc D ++ B') (D ++ B).
    Hypothesis HBg : Forall goodtx B.

    Lemma run_injected_R D st' st inj aft :
      R st' st -> Forall no_int_only inj -> Forall goodtx inj -> Forall goodtx D ->
      let '(ds, b1, st1, o) := run_injected exact (D ++ B) st inj aft in
      exists D1 st1', run_injected exact (map sc D ++ B') st' (map sc inj) (map sc aft)
                      = (map (sc_delta f) ds, map sc D1 ++ B', st1', o) /\ b1 = D1 ++ B /\ R st1' st1 /\ Forall goodtx D1.
    Proof.
      revert D st' st. induction inj as [|t inj IH]; intros D st' st HR HFi HGi HGD; cbn [map run_injected].
      - exists D, st'. auto.
      - apply Forall_cons_iff in HFi as [Ht HFi]. apply Forall_cons_iff in HGi as [Hgt HGi].
        rewrite <- map_app. rewrite (delta_for_tx_R _ _ _ _ _ _ _ HR (HB D) (FwdOk_map _) Ht Hgt).
        destruct (delta_for_tx exact (D ++ B) t (inj ++ aft) st) as [[d i]| |]; cbn [map_res fst snd].
        2,3: exists D, st'; auto.
        cbn [scale_tx t_af sc_delta d_post].
        pose proof (set_latest_R _ _ (t_af t) (d_post d) HR) as Hs.
        destruct (set_latest exact st (t_af t) (d_post d)) as [st1| |];
          destruct (set_latest exact st' (t_af t) (sc_status f (d_post d))) as [st1'| |];
          cbn [res_rel] in Hs; try contradiction.
        + assert (HGD' : Forall goodtx (t :: D)) by (constructor; assumption).
          specialize (IH (t :: D) st1' st1 Hs HFi HGi HGD'). cbn [map app] in IH.
          destruct (run_injected exact (t :: D ++ B) st1 inj aft) as [[[ds b] s'] o].
          destruct IH as (D1 & st2' & E & Eb & HR2 & HG1). exists D1, st2'. rewrite E. cbn [map]. auto.
        + subst. exists D, st'. auto.
        + subst. exists D, st'. auto.
    Qed.

    Lemma run_loop_R D st' st aft :
      R st' st -> Forall no_int_only aft -> Forall goodtx aft -> Forall goodtx D ->
      run_loop exact (map sc D ++ B') st' (map sc aft)
      = let '(ds, o) := run_loop exact (D ++ B) st aft in (map (sc_delta f) ds, o).
    Proof.
      revert D st' st. induction aft as [|t aft IH]; intros D st' st HR HFa HGa HGD; cbn [map run_loop]; [reflexivity|].
      apply Forall_cons_iff in HFa as [Ht HFa]. apply Forall_cons_iff in HGa as [Hgt HGa].
      rewrite (delta_for_tx_R _ _ _ _ _ _ _ HR (HB D) (FwdOk_map _) Ht Hgt).
      destruct (delta_for_tx exact (D ++ B) t aft st) as [[d inj]| |] eqn:Ed; cbn [map_res fst snd]; try reflexivity.
      cbn [scale_tx t_af sc_delta d_post].
      pose proof (set_latest_R _ _ (t_af t) (d_post d) HR) as Hs.
      destruct (set_latest exact st (t_af t) (d_post d)) as [st1| |];
        destruct (set_latest exact st' (t_af t) (sc_status f (d_post d))) as [st1'| |];
        cbn [res_rel] in Hs; try contradiction; [| subst; reflexivity | subst; reflexivity].
      assert (HFi : Forall no_int_only inj).
      { eapply Forall_impl; [|eapply C01Refine.delta_for_tx_inj; exact Ed]. intros a Ha. apply sfla_no_int_only. exact Ha. }
      assert (HGi : Forall goodtx inj).
      { eapply (C04Reject.delta_for_tx_inj_P goodaf); [exact Ed | apply Forall_app; split; assumption | exact HGa]. }
      assert (HGD' : Forall goodtx (t :: D)) by (constructor; assumption).
      pose proof (run_injected_R (t :: D) st1' st1 inj aft Hs HFi HGi HGD') as Hi. cbn [map app] in Hi.
      destruct (run_injected exact (t :: D ++ B) st1 inj aft) as [[[dsi b1] st2] o1].
      destruct Hi as (D1 & st2' & E & Eb & HR2 & HG1). rewrite E. subst b1.
      destruct o1; [reflexivity|]. rewrite (IH D1 st2' st2 HR2 HFa HGa HG1).
      destruct (run_loop exact (D1 ++ B) st2 aft) as [ds o]. cbn [map]. rewrite map_app. reflexivity.
    Qed.
  End Suffix.
End Sim.

(* ---------- Part 3: cutting a run in two ---------- *)
Section Part.
  Variable A : arith.
  (* run_loop over [l1] only, with [l2] still ahead; returns the zipper and the state *)
  Fixpoint run_part (bef : list tx) (st : pstate) (l1 l2 : list tx)
    : list delta * list tx * pstate * option stop :=
    match l1 with
    | [] => ([], bef, st, None)
    | t :: rest =>
        match delta_for_tx A bef t (rest ++ l2) st with
        | Ok (d, inj) =>
            match set_latest A st (t_af t) (d_post d) with
            | Ok st1 =>
                let '(dsi, bef', st2, o) := run_injected A (t :: bef) st1 inj (rest ++ l2) in
                match o with
                | None => let '(ds, b2, st3, o') := run_part bef' st2 rest l2 in (d :: dsi ++ ds, b2, st3, o')
                | Some s => (d :: dsi, bef', st2, Some s)
                end
            | Rej e => ([], bef, st, Some (SRej e))
            | Panic p => ([], bef, st, Some (SPanic p))
            end
        | Rej e => ([], bef, st, Some (SRej e))
        | Panic p => ([], bef, st, Some (SPanic p))
        end
    end.

  Lemma run_loop_app bef st l1 l2 :
    run_loop A bef st (l1 ++ l2)
    = let '(ds1, b1, st1, o1) := run_part bef st l1 l2 in
      match o1 with
      | Some e => (ds1, Some e)
      | None => let '(ds2, o2) := run_loop A b1 st1 l2 in (ds1 ++ ds2, o2)
      end.
  Proof.
    revert bef st. induction l1 as [|t l1 IH]; intros bef st; cbn [app run_loop run_part].
    - destruct (run_loop A bef st l2) as [ds2 o2]. reflexivity.
    - destruct (delta_for_tx A bef t (l1 ++ l2) st) as [[d inj]| |]; try reflexivity.
      destruct (set_latest A st (t_af t) (d_post d)) as [st1| |]; try reflexivity.
      destruct (run_injected A (t :: bef) st1 inj (l1 ++ l2)) as [[[dsi b1] st2] o1].
      destruct o1 as [e|]; [reflexivity|]. rewrite IH.
      destruct (run_part b1 st2 l1 l2) as [[[ds b2] st3] o'].
      destruct o' as [e|]; [reflexivity|].
      destruct (run_loop A b2 st3 l2) as [ds2 o2]. cbn [app]. rewrite <- app_assoc. reflexivity.
  Qed.

  Lemma run_part_app bef st l1 l2 l3 :
    run_part bef st (l1 ++ l2) l3
    = let '(ds1, b1, st1, o1) := run_part bef st l1 (l2 ++ l3) in
      match o1 with
      | Some e => (ds1, b1, st1, Some e)
      | None => let '(ds2, b2, st2, o2) := run_part b1 st1 l2 l3 in (ds1 ++ ds2, b2, st2, o2)
      end.
  Proof.
    revert bef st. induction l1 as [|t l1 IH]; intros bef st; cbn [app run_part].
    - destruct (run_part bef st l2 l3) as [[[ds2 b2] st2] o2]. reflexivity.
    - rewrite <- app_assoc.
      destruct (delta_for_tx A bef t (l1 ++ l2 ++ l3) st) as [[d inj]| |]; try reflexivity.
      destruct (set_latest A st (t_af t) (d_post d)) as [st1| |]; try reflexivity.
      destruct (run_injected A (t :: bef) st1 inj (l1 ++ l2 ++ l3)) as [[[dsi b1] st2] o1].
      destruct o1 as [e|]; [reflexivity|]. rewrite IH.
      destruct (run_part b1 st2 l1 (l2 ++ l3)) as [[[ds b2] st3] o'].
      destruct o' as [e|]; [reflexivity|].
      destruct (run_part b2 st3 l2 l3) as [[[ds2 b3] st4] o2]. cbn [app]. rewrite <- app_assoc. reflexivity.
  Qed.
End Part.

(* the rows ahead matter only through the forward scan *)
Definition FwdSame (aft' aft : list tx) : Prop :=
  forall last dflt s, fwd_scan exact last dflt aft' [] s = fwd_scan exact last dflt aft [] s.

Lemma sfl_info_aft bef t sold aft' aft st :
  FwdSame aft' aft -> sfl_info exact bef t sold aft' st = sfl_info exact bef t sold aft st.
Proof.
  intros H. unfold sfl_info. cbn [a_sub exact bind].
  destruct (Qcltb _ 0); [reflexivity|]. destruct (Qcltb _ 0); [reflexivity|]. rewrite H. reflexivity.
Qed.
Lemma delta_for_tx_aft bef t aft' aft st :
  FwdSame aft' aft -> delta_for_tx exact bef t aft' st = delta_for_tx exact bef t aft st.
Proof.
  intros H. unfold delta_for_tx. destruct (sanity_check _ _); cbn [bind]; try reflexivity.
  destruct (t_act t); try reflexivity.
  destruct (sell_core exact _ _ _ _ _ _) as [c| |]; cbn [bind]; try reflexivity.
  destruct (sc_gain c) as [g|]; [|reflexivity]. destruct (Qcltb g 0); [|reflexivity].
  unfold delta_sfl. rewrite (sfl_info_aft _ _ _ _ _ _ H). reflexivity.
Qed.

Section Prefix.
  Variables X' X : list tx.
  Hypothesis HX : forall A1, FwdSame (A1 ++ X') (A1 ++ X).

  Lemma run_injected_aft inj : forall bef st rest,
    run_injected exact bef st inj (rest ++ X') = run_injected exact bef st inj (rest ++ X).
  Proof.
    induction inj as [|t inj IH]; intros bef st rest; cbn [run_injected]; [reflexivity|].
    rewrite !app_assoc, (delta_for_tx_aft _ _ _ _ _ (HX (inj ++ rest))).
    destruct (delta_for_tx exact bef t ((inj ++ rest) ++ X) st) as [[d i]| |]; try reflexivity.
    destruct (set_latest exact st (t_af t) (d_post d)) as [st1| |]; try reflexivity.
    rewrite IH. reflexivity.
  Qed.

  Lemma run_part_aft l1 : forall bef st, run_part exact bef st l1 X' = run_part exact bef st l1 X.
  Proof.
    induction l1 as [|t l1 IH]; intros bef st; cbn [run_part]; [reflexivity|].
    rewrite (delta_for_tx_aft _ _ _ _ _ (HX l1)).
    destruct (delta_for_tx exact bef t (l1 ++ X) st) as [[d inj]| |]; try reflexivity.
    destruct (set_latest exact st (t_af t) (d_post d)) as [st1| |]; try reflexivity.
    rewrite run_injected_aft.
    destruct (run_injected exact (t :: bef) st1 inj (l1 ++ X)) as [[[dsi b1] st2] o1].
    destruct o1; [reflexivity|]. rewrite IH. reflexivity.
  Qed.
End Prefix.

(* ---------- Part 4: state invariants used by the inserted rows ---------- *)
Lemma shares_le_total (hs : holdings) k :
  Forall (fun kv : N * holding => 0 <= fst (snd kv)) hs -> 0 <= shares_of hs k /\ shares_of hs k <= total_shares hs.
Proof.
  unfold shares_of. induction hs as [|[k' h'] hs IH]; cbn [alookup total_shares]; intros HF.
  - split; apply Qcle_refl.
  - apply Forall_cons_iff in HF as [Hh HF]. cbn [snd] in Hh. destruct (IH HF) as [I1 I2].
    assert (HT : 0 <= total_shares hs) by (eapply Qcle_trans; eassumption).
    destruct (N.eqb k k').
    + split; [exact Hh|]. rewrite <- (Qcplus_0_r (fst h')) at 1. apply Qcplus_le_compat; [apply Qcle_refl | exact HT].
    + split; [exact I1|]. eapply Qcle_trans; [exact I2|].
      rewrite <- (Qcplus_0_l (total_shares hs)) at 1. apply Qcplus_le_compat; [exact Hh | apply Qcle_refl].
Qed.

Lemma amem_in {V} k (l : list (N * V)) : amem k l = true <-> In k (map fst l).
Proof.
  unfold amem. induction l as [|[k' v] l IH]; cbn [alookup map fst In].
  - split; [discriminate | contradiction].
  - destruct (N.eqb_spec k k') as [e|n].
    + split; [intros _; left; symmetry; exact e | reflexivity].
    + rewrite IH. split; [intros H; right; exact H | intros [e|H]; [congruence | exact H]].
Qed.
Lemma keys_aupdate {V} k (v : V) l :
  map fst (aupdate k v l) = if amem k l then map fst l else map fst l ++ [k].
Proof.
  unfold amem. induction l as [|[k' v'] l IH]; cbn [aupdate alookup map fst app]; [reflexivity|].
  destruct (N.eqb_spec k k') as [e|n]; cbn [map fst].
  - subst. reflexivity.
  - rewrite IH. destruct (alookup k l); reflexivity.
Qed.
Lemma NoDup_snoc {T} (l : list T) k : NoDup l -> ~ In k l -> NoDup (l ++ [k]).
Proof. intros H Hn. apply (NoDup_Add (Add_app k l [])). rewrite app_nil_r. split; assumption. Qed.
Lemma keys_aupdate_nodup {V} k (v : V) l : NoDup (map fst l) -> NoDup (map fst (aupdate k v l)).
Proof.
  intros H. rewrite keys_aupdate. destruct (amem k l) eqn:E; [exact H|].
  apply NoDup_snoc; [exact H|]. intros Hin. apply amem_in in Hin. congruence.
Qed.
Lemma keys_aupdate_incl {V} k (v : V) l ids : incl (map fst l) ids -> In k ids -> incl (map fst (aupdate k v l)) ids.
Proof.
  intros H Hk. rewrite keys_aupdate. destruct (amem k l); [exact H|].
  intros x Hx. apply in_app_or in Hx as [Hx|[<-|[]]]; [apply H; exact Hx | exact Hk].
Qed.

Fixpoint sum_ids (g : N -> Qc) (ks : list N) : Qc :=
  match ks with [] => 0 | k :: r => g k + sum_ids g r end.
Lemma sum_ids_ext g g' ks : (forall k, In k ks -> g k = g' k) -> sum_ids g ks = sum_ids g' ks.
Proof.
  induction ks as [|k ks IH]; cbn [sum_ids]; intros H; [reflexivity|].
  rewrite (H k (or_introl eq_refl)), IH; [reflexivity|]. intros k' Hk. apply H. right. exact Hk.
Qed.
Lemma sum_ids_override g k0 a ks :
  NoDup ks ->
  sum_ids (fun k => if N.eqb k k0 then a else g k) ks
  = if existsb (N.eqb k0) ks then sum_ids g ks - g k0 + a else sum_ids g ks.
Proof.
  induction ks as [|k ks IH]; cbn [sum_ids existsb]; intros Hnd; [reflexivity|].
  apply NoDup_cons_iff in Hnd as [Hni Hnd]. rewrite (IH Hnd).
  destruct (N.eqb_spec k k0) as [e|n].
  - subst k. rewrite N.eqb_refl. cbn [orb].
    assert (E : existsb (N.eqb k0) ks = false).
    { destruct (existsb (N.eqb k0) ks) eqn:Ex; [|reflexivity]. exfalso. apply existsb_exists in Ex as (x & Hx & Hex).
      apply N.eqb_eq in Hex. subst x. contradiction. }
    rewrite E. ring.
  - assert (E : N.eqb k0 k = false) by (apply N.eqb_neq; congruence). rewrite E. cbn [orb].
    destruct (existsb (N.eqb k0) ks); ring.
Qed.
Lemma shares_of_notin (hs : holdings) k : ~ In k (map fst hs) -> shares_of hs k = 0.
Proof.
  unfold shares_of. induction hs as [|[k' h'] hs IH]; cbn [alookup map fst In]; intros H; [reflexivity|].
  destruct (N.eqb_spec k k') as [e|n]; [exfalso; apply H; left; symmetry; exact e|].
  apply IH. intros Hc. apply H. right. exact Hc.
Qed.
Lemma sum_superset (hs : holdings) :
  NoDup (map fst hs) -> forall ks, NoDup ks -> incl (map fst hs) ks -> sum_ids (shares_of hs) ks = total_shares hs.
Proof.
  induction hs as [|[k0 h0] hs IH]; cbn [map fst total_shares]; intros Hnd ks Hks Hincl.
  - clear. induction ks as [|k ks IH]; cbn [sum_ids]; [reflexivity|]. rewrite IH. unfold shares_of. cbn. ring.
  - apply NoDup_cons_iff in Hnd as [Hni Hnd].
    assert (Hin : In k0 ks) by (apply Hincl; left; reflexivity).
    assert (Hincl' : incl (map fst hs) ks) by (intros x Hx; apply Hincl; right; exact Hx).
    rewrite (sum_ids_ext _ (fun k => if N.eqb k k0 then fst h0 else shares_of hs k)).
    2: { intros k _. unfold shares_of. cbn [alookup]. destruct (N.eqb k k0); reflexivity. }
    rewrite (sum_ids_override _ _ _ _ Hks).
    assert (E : existsb (N.eqb k0) ks = true) by (apply existsb_exists; exists k0; split; [exact Hin | apply N.eqb_refl]).
    rewrite E, (IH Hnd ks Hks Hincl'), (shares_of_notin _ _ Hni). ring.
Qed.

Lemma gen_sfla_sd A t loss ps l : gen_sfla A t loss ps = Ok l -> Forall (fun x => t_sd x = t_sd t) l.
Proof.
  revert l. induction ps as [|[af [n dn]] ps IH]; cbn [gen_sfla]; intros l H.
  - inversion H; constructor.
  - destruct (negb (Qceqb n 0) && negb (af_reg af)).
    + bind_as H as q Eq. bind_as H as q1 Eq1. bind_as H as q2 Eq2. bind_as H as m Em.
      bind_as H as amt Ea. bind_as H as rest Er. inversion H; subst l.
      constructor; [reflexivity | eapply IH; eauto].
    + eauto.
Qed.
Lemma delta_for_tx_inj_sd A bef t aft st d inj :
  delta_for_tx A bef t aft st = Ok (d, inj) -> Forall (fun x => t_sd x = t_sd t) inj.
Proof.
  unfold delta_for_tx. intros H. bind_as H as u Eu.
  destruct (t_act t) as [n price com rate crate | n price com rate crate sp | amount rate
                        | n amount | post pre_ io];
    try (bind_as H as d0 Ed; inversion H; constructor).
  bind_as H as c Ec. destruct (sc_gain c) as [g|]; [|inversion H; constructor].
  destruct (Qcltb g 0).
  - bind_as H as m Em. destruct m as [[info inj']|]; [|inversion H; constructor].
    bind_as H as g' Eg. inversion H; subst. clear H.
    unfold delta_sfl in Em. bind_as Em as i Ei. bind_as Em as mm Emm. bind_as Em as calc Ecalc.
    destruct sp as [[sv force]|].
    + bind_as Em as u0 Eu0. destruct (negb (Qcltb sv 0)); [discriminate|].
      bind_as Em as q Eq. bind_as Em as nn En. inversion Em; constructor.
    + destruct mm as [r|]; [|discriminate].
      destruct (negb (Qcltb calc 0)); [discriminate|].
      bind_as Em as txs Et. inversion Em; subst.
      eapply gen_sfla_sd; eauto.
  - destruct sp; [discriminate|]. inversion H; constructor.
Qed.

Section InvS.
  Variable dS : Z.
  Variable ids : list N.
  Variable regof : N -> bool.
  Notation good := (goodaf regof).

  Definition keys (st : pstate) := map fst (ps_map st).
  Definition reg_cons (st : pstate) : Prop :=
    forall k s, alookup k (ps_map st) = Some s -> is_none (s_acb s) = regof k.
  Definition Inv (st : pstate) : Prop :=
    st_ok st /\ st_sum st /\ NoDup (keys st) /\ incl (keys st) ids /\ reg_cons st /\ lp st = ps_all st.
  Definition rowP (af : aff) : Prop := In (af_id af) ids /\ good af.
  Definition Q (x : tx) : Prop := rowP (t_af x) /\ (t_sd x <= dS)%Z.

  Lemma set_latest_flag st af v st1 : set_latest exact st af v = Ok st1 -> is_none (s_acb v) = af_reg af.
  Proof.
    unfold set_latest; rewrite all_after_exact; cbn [bind].
    destruct (Bool.eqb (af_reg af) (is_none (s_acb v))) eqn:E; cbn [negb]; [|discriminate].
    intros _. symmetry. apply Bool.eqb_prop. exact E.
  Qed.

  Lemma set_latest_inv st af v st1 :
    Inv st -> set_latest exact st af v = Ok st1 -> status_ok v -> rowP af -> Inv st1.
  Proof.
    intros (H1 & H2 & H3 & H4 & H5 & H6) E Hv [Hin Hg].
    pose proof (set_latest_sum _ _ _ _ E H2) as (Hm & _ & Hs).
    split; [eapply set_latest_ok; eauto|]. split; [exact Hs|].
    unfold keys. rewrite Hm. split; [apply keys_aupdate_nodup; exact H3|].
    split; [apply keys_aupdate_incl; assumption|].
    split.
    - intros k s. rewrite Hm, alookup_aupdate. destruct (N.eqb_spec k (af_id af)) as [e|n]; [|apply H5].
      intros Es. inversion Es; subst s. rewrite (set_latest_flag _ _ _ _ E), e. exact Hg.
    - destruct (set_latest_all _ _ _ _ E) as [A L]. rewrite A, L. reflexivity.
  Qed.

  Lemma step_inv bef t aft st d inj st1 :
    Inv st -> delta_for_tx exact bef t aft st = Ok (d, inj) ->
    set_latest exact st (t_af t) (d_post d) = Ok st1 -> rowP (t_af t) -> Inv st1.
  Proof.
    intros HI Ed Es Hp. eapply set_latest_inv; eauto. destruct HI as (H1 & _).
    apply (delta_for_tx_ok exact) in Ed as [_ Hrow]; [|exact H1]. apply Hrow.
  Qed.

  Lemma Q_rowP l : Forall Q l -> Forall (txP rowP) l.
  Proof. apply Forall_impl. intros x [H _]. exact H. Qed.

  Lemma run_injected_inv inj : forall bef st aft ds b1 st1 o,
    run_injected exact bef st inj aft = (ds, b1, st1, o) -> Inv st -> Forall Q inj -> Forall Q bef ->
    Inv st1 /\ Forall Q b1.
  Proof.
    induction inj as [|t inj IH]; intros bef st aft ds b1 st1 o H HI HQi HQb; cbn [run_injected] in H.
    - inversion H; subst. auto.
    - apply Forall_cons_iff in HQi as [Ht HQi].
      destruct (delta_for_tx exact bef t (inj ++ aft) st) as [[d i]| |] eqn:Ed; try (inversion H; subst; auto; fail).
      destruct (set_latest exact st (t_af t) (d_post d)) as [st2| |] eqn:Es; try (inversion H; subst; auto; fail).
      destruct (run_injected exact (t :: bef) st2 inj aft) as [[[ds1 b2] s2] o2] eqn:Er.
      inversion H; subst; clear H.
      eapply IH; [exact Er | eapply step_inv; eauto; apply Ht | exact HQi | constructor; assumption].
  Qed.

  Lemma run_part_inv l1 : forall bef st l2 ds b1 st1 o,
    run_part exact bef st l1 l2 = (ds, b1, st1, o) -> Inv st -> Forall Q l1 -> Forall Q bef ->
    Forall (txP rowP) l2 -> Inv st1 /\ Forall Q b1.
  Proof.
    induction l1 as [|t l1 IH]; intros bef st l2 ds b1 st1 o H HI HQ1 HQb HP2; cbn [run_part] in H.
    - inversion H; subst. auto.
    - apply Forall_cons_iff in HQ1 as [Ht HQ1].
      destruct (delta_for_tx exact bef t (l1 ++ l2) st) as [[d inj]| |] eqn:Ed; try (inversion H; subst; auto; fail).
      destruct (set_latest exact st (t_af t) (d_post d)) as [st2| |] eqn:Es; try (inversion H; subst; auto; fail).
      assert (HI2 : Inv st2) by (eapply step_inv; eauto; apply Ht).
      assert (HQi : Forall Q inj).
      { pose proof (delta_for_tx_inj_P rowP exact _ _ _ _ _ _ Ed (Q_rowP _ HQb)) as HP.
        assert (HPa : Forall (txP rowP) (l1 ++ l2)) by (apply Forall_app; split; [apply Q_rowP; exact HQ1 | exact HP2]).
        specialize (HP HPa). pose proof (delta_for_tx_inj_sd _ _ _ _ _ _ _ Ed) as Hsd.
        rewrite Forall_forall in *. intros x Hx. split; [apply HP; exact Hx|]. rewrite (Hsd x Hx). apply Ht. }
      destruct (run_injected exact (t :: bef) st2 inj (l1 ++ l2)) as [[[dsi b2] s2] o2] eqn:Er.
      apply run_injected_inv in Er as [HI3 HQ3]; [|exact HI2 | exact HQi | constructor; assumption].
      destruct o2 as [e|].
      + inversion H; subst. auto.
      + destruct (run_part exact b2 s2 l1 l2) as [[[ds2 b3] s3] o3] eqn:Ep.
        inversion H; subst. eapply IH; eauto.
  Qed.
End InvS.

(* ---------- Part 5: the inserted split rows themselves ---------- *)
Lemma obs_sh_shares st af : fst (obs st af) = shares_of (abs_map (ps_map st)) (af_id af).
Proof.
  unfold obs, shares_of, latest_for. rewrite alookup_abs.
  destruct (alookup _ (ps_map st)); reflexivity.
Qed.
Lemma obs_id_good st a b : af_id a = af_id b -> af_reg a = af_reg b -> obs st a = obs st b.
Proof.
  unfold obs, latest_for, default_status. intros -> E. cbn [s_acb]. rewrite E. reflexivity.
Qed.

Section SplitPhase.
  Variable f : Qc.
  Hypothesis Hf : 0 < f.
  Variable dS : Z.
  Variable ids : list N.
  Variable regof : N -> bool.
  Notation InvI := (Inv ids regof).
  Notation rowPI := (rowP ids regof).

  Lemma obs_facts st af : InvI st -> rowPI af ->
    0 <= fst (obs st af) /\ fst (obs st af) <= ps_all st /\ is_none (snd (obs st af)) = af_reg af.
  Proof.
    intros (H1 & H2 & H3 & H4 & H5 & H6) [Hin Hg].
    assert (HF : Forall (fun kv : N * holding => 0 <= fst (snd kv)) (abs_map (ps_map st))).
    { destruct H1 as [HF _]. unfold abs_map. rewrite Forall_map. eapply Forall_impl; [|exact HF].
      intros [k s] Hs. cbn [fst snd hold_of] in *. destruct Hs as [Hs _]. exact Hs. }
    destruct (shares_le_total _ (af_id af) HF) as [A B]. rewrite obs_sh_shares. unfold st_sum in H2. rewrite H2.
    split; [exact A|]. split; [exact B|].
    unfold obs, latest_for. destruct (alookup (af_id af) (ps_map st)) eqn:E; cbn [snd].
    - rewrite (H5 _ _ E). symmetry. exact Hg.
    - unfold default_status. cbn [s_acb]. destruct (af_reg af); reflexivity.
  Qed.

  Lemma split_row st x bef aft :
    InvI st -> fsplit f dS x -> rowPI (t_af x) ->
    exists d st1, delta_for_tx exact bef x aft st = Ok (d, []) /\
      set_latest exact st (t_af x) (d_post d) = Ok st1 /\
      d_tx d = x /\ d_gain d = None /\ d_sfl d = None /\ s_acb (d_post d) = s_acb (d_pre d) /\
      ps_all st1 = ps_all st + (f - 1) * fst (obs st (t_af x)) /\
      (forall af2, obs st1 af2 = if N.eqb (af_id af2) (af_id (t_af x))
                                 then (fst (obs st (t_af x)) * f, snd (obs st (t_af x))) else obs st af2).
  Proof.
    intros HI (po & pr & Ea & Hpr & Ef & Esd) HP.
    destruct (obs_facts st (t_af x) HI HP) as (Hsh0 & Hshall & Hflag).
    remember (fst (obs st (t_af x))) as sh eqn:Esh. remember (snd (obs st (t_af x))) as acb eqn:Eacb.
    assert (Hshf : 0 <= sh * f) by (apply Qcmul_nonneg; [exact Hsh0 | apply Qclt_le_weak; exact Hf]).
    set (pre := {| s_sh := sh; s_all := ps_all st; s_acb := acb |}).
    set (d := mk_delta x pre (sh * f) (ps_all st + (sh * f - sh)) acb None None).
    assert (Ed : delta_for_tx exact bef x aft st = Ok (d, [])).
    { unfold delta_for_tx. rewrite next_pre_obs, <- Esh, <- Eacb. fold pre.
      assert (Esan : sanity_check pre (t_af x) = Ok tt).
      { unfold sanity_check, pre. cbn [s_all s_sh s_acb].
        destruct (Qcltb_spec (ps_all st) sh) as [Hlt|_]; [exfalso; apply (Qcle_not_lt _ _ Hshall); exact Hlt|].
        rewrite Hflag. destruct (af_reg (t_af x)); reflexivity. }
      rewrite Esan. cbn [bind]. rewrite Ea. unfold delta_nonsell. rewrite Ea.
      cbn [a_mul a_div a_sub a_add exact bind pre s_sh s_all s_acb].
      destruct (Qceqb_spec pr 0) as [|_]; [contradiction|]. cbn [bind].
      assert (E1 : sh * po / pr = sh * f) by (rewrite <- Ef; field; exact Hpr). rewrite E1.
      unfold gez_unwrap. destruct (Qcleb_spec 0 (sh * f)) as [_|Hn]; [|contradiction].
      cbn [bind]. rewrite all_after_exact. cbn [bind].
      destruct (Qcltb_spec (ps_all st + (sh * f - sh)) 0) as [Hlt|_].
      { exfalso. remember (sh * f) as y. remember (ps_all st) as al. clear - Hlt Hshf Hshall. qc_lra. }
      rewrite andb_false_r. cbn [andb]. reflexivity. }
    assert (Es : exists st1, set_latest exact st (t_af x) (d_post d) = Ok st1).
    { unfold set_latest. rewrite all_after_exact. cbn [a_add a_sub exact bind d d_post mk_delta s_sh s_all s_acb].
      rewrite obs_fst, <- Esh, Hflag, Bool.eqb_reflx. cbn [negb].
      destruct (Qceqb_spec (ps_all st + (sh * f - sh)) (ps_all st + (sh * f - sh))) as [_|Hn]; [|exfalso; apply Hn; ring].
      cbn [negb]. eexists. reflexivity. }
    destruct Es as [st1 Es]. exists d, st1. split; [exact Ed|]. split; [exact Es|].
    split; [reflexivity|]. split; [reflexivity|]. split; [reflexivity|]. split; [reflexivity|].
    split.
    - destruct (set_latest_all _ _ _ _ Es) as [A _]. rewrite A. cbn. ring.
    - intros af2. rewrite (obs_set _ _ _ _ af2 Es). reflexivity.
  Qed.
End SplitPhase.

Section SplitLoop.
  Variable f : Qc.
  Hypothesis Hf : 0 < f.
  Variable dS : Z.
  Variable ids : list N.
  Variable regof : N -> bool.
  Notation InvI := (Inv ids regof).
  Notation rowPI := (rowP ids regof).
  Notation good := (goodaf regof).

  Definition neutral (d : delta) : Prop :=
    d_gain d = None /\ d_sfl d = None /\ s_acb (d_post d) = s_acb (d_pre d).
  Definition dummy (k : N) : aff := {| af_id := k; af_reg := false; af_dflt := false |}.

  Lemma split_phase S : forall bef st X,
    Forall (fsplit f dS) S -> NoDup (ids_of S) -> Forall (txP rowPI) S -> InvI st ->
    exists dss st',
      run_part exact bef st S X = (dss, rev S ++ bef, st', None) /\
      map d_tx dss = S /\ Forall neutral dss /\ InvI st' /\
      ps_all st' = ps_all st + (f - 1) * sum_ids (shares_of (abs_map (ps_map st))) (ids_of S) /\
      (forall af2, fst (obs st' af2) = if existsb (N.eqb (af_id af2)) (ids_of S)
                                       then fst (obs st af2) * f else fst (obs st af2)) /\
      (forall af2, good af2 -> snd (obs st' af2) = snd (obs st af2)).
  Proof.
    induction S as [|x0 S IH]; intros bef st X HS Hnd HP HI.
    - exists [], st. split; [reflexivity|]. split; [reflexivity|]. split; [constructor|]. split; [exact HI|].
      split; [cbn [ids_of map sum_ids]; ring|]. split; intros; reflexivity.
    - apply Forall_cons_iff in HS as [Hx0 HS]. apply Forall_cons_iff in HP as [Hp0 HP].
      cbn [ids_of map] in Hnd. apply NoDup_cons_iff in Hnd as [Hni Hnd]. fold (ids_of S) in Hni, Hnd.
      destruct (split_row f Hf dS ids regof st x0 bef (S ++ X) HI Hx0 Hp0)
        as (d0 & st1 & Ed & Es & Etx & Eg & Esf & Eacb & Eall & Eobs).
      assert (HI1 : InvI st1) by (eapply step_inv; eauto).
      destruct (IH (x0 :: bef) st1 X HS Hnd HP HI1) as (dss & st' & Er & Emap & Hneu & HI' & Eall' & Efst & Esnd).
      exists (d0 :: dss), st'. cbn [run_part]. rewrite Ed, Es. cbn [run_injected]. rewrite Er.
      split; [cbn [app rev]; rewrite <- app_assoc; reflexivity|].
      split; [cbn [map]; rewrite Etx, Emap; reflexivity|].
      split; [constructor; [repeat split; assumption | exact Hneu]|].
      split; [exact HI'|].
      assert (Hsame : forall k, In k (ids_of S) ->
                shares_of (abs_map (ps_map st1)) k = shares_of (abs_map (ps_map st)) k).
      { intros k Hk. pose proof (obs_sh_shares st1 (dummy k)) as E1. pose proof (obs_sh_shares st (dummy k)) as E0.
        cbn [dummy af_id] in E1, E0. rewrite <- E1, <- E0, Eobs.
        cbn [dummy af_id]. destruct (N.eqb_spec k (af_id (t_af x0))) as [e|n]; [|reflexivity].
        exfalso. apply Hni. rewrite <- e. exact Hk. }
      split; [|split].
      + rewrite Eall', Eall. cbn [ids_of map sum_ids]. fold (ids_of S).
        rewrite (sum_ids_ext _ _ _ Hsame), (obs_sh_shares st (t_af x0)). ring.
      + intros af2. rewrite Efst, Eobs. cbn [ids_of map existsb]. fold (ids_of S).
        destruct (N.eqb_spec (af_id af2) (af_id (t_af x0))) as [e|n]; cbn [orb fst].
        * assert (Ex : existsb (N.eqb (af_id af2)) (ids_of S) = false).
          { destruct (existsb (N.eqb (af_id af2)) (ids_of S)) eqn:Ex; [|reflexivity]. exfalso.
            apply existsb_exists in Ex as (k & Hk & Hek). apply N.eqb_eq in Hek. apply Hni. rewrite <- e, Hek. exact Hk. }
          rewrite Ex. rewrite !obs_sh_shares, e. reflexivity.
        * reflexivity.
      + intros af2 Hg2. rewrite (Esnd af2 Hg2), Eobs.
        destruct (N.eqb_spec (af_id af2) (af_id (t_af x0))) as [e|n]; cbn [snd]; [|reflexivity].
        rewrite (obs_id_good st af2 (t_af x0) e); [reflexivity|].
        destruct Hp0 as [_ Hg0]. unfold goodaf in *. rewrite Hg2, Hg0, e. reflexivity.
  Qed.

  (* when the split rows cover every holder, the state after them is the restated state *)
  Lemma split_phase_R S bef st X :
    ids = ids_of S ->
    Forall (fsplit f dS) S -> NoDup (ids_of S) -> Forall (txP rowPI) S -> InvI st ->
    exists dss st',
      run_part exact bef st S X = (dss, rev S ++ bef, st', None) /\
      map d_tx dss = S /\ Forall neutral dss /\ R f regof st' st.
  Proof.
    intros Eids HS Hnd HP HI.
    destruct (split_phase S bef st X HS Hnd HP HI) as (dss & st' & Er & Emap & Hneu & HI' & Eall & Efst & Esnd).
    exists dss, st'. split; [exact Er|]. split; [exact Emap|]. split; [exact Hneu|].
    destruct HI as (H1 & H2 & H3 & H4 & H5 & H6). destruct HI' as (_ & _ & _ & _ & _ & H6').
    assert (Ek : map fst (abs_map (ps_map st)) = keys st).
    { unfold abs_map, keys. rewrite map_map. reflexivity. }
    assert (Ea : ps_all st' = ps_all st * f).
    { rewrite Eall, (sum_superset (abs_map (ps_map st))); [unfold st_sum in H2; rewrite <- H2; ring | | exact Hnd |].
      - rewrite Ek. exact H3.
      - rewrite Ek, <- Eids. exact H4. }
    split; [exact Ea|]. split; [rewrite H6', H6, Ea; reflexivity|]. split; [|exact Esnd].
    intros af2. rewrite Efst. destruct (existsb (N.eqb (af_id af2)) (ids_of S)) eqn:Ex; [reflexivity|].
    rewrite obs_sh_shares, shares_of_notin; [ring|]. rewrite Ek. intros Hin. apply H4 in Hin. rewrite Eids in Hin.
    assert (Ht : existsb (N.eqb (af_id af2)) (ids_of S) = true)
      by (apply existsb_exists; exists (af_id af2); split; [exact Hin | apply N.eqb_refl]).
    congruence.
  Qed.
End SplitLoop.

(* ---------- Part 6: the theorem ---------- *)
Lemma run_None txs : run exact None txs = run_loop exact [] {| ps_map := []; ps_all := 0; ps_latest := default_aff |} txs.
Proof. unfold run. destruct txs; reflexivity. Qed.

Lemma ids_of_rev S : ids_of (rev S) = rev (ids_of S).
Proof. unfold ids_of. apply map_rev. Qed.

Theorem inserted_split f dS regof S pre post :
  0 < f ->
  Forall (fsplit f dS) S -> NoDup (ids_of S) ->
  Forall (fun x => In (af_id (t_af x)) (ids_of S) /\ goodaf regof (t_af x)) (pre ++ S ++ post) ->
  Forall (fun x => (t_sd x <= dS)%Z) pre -> Forall (fun x => (dS <= t_sd x)%Z) post ->
  Forall no_int_only post ->
  exists ds1 ds2 dss o,
    run exact None (pre ++ post) = (ds1 ++ ds2, o) /\
    run exact None (pre ++ S ++ map (scale_tx f) post) = (ds1 ++ dss ++ map (sc_delta f) ds2, o) /\
    Forall neutral dss /\
    (map d_tx dss = S \/ (dss = [] /\ ds2 = [] /\ o <> None)).
Proof.
  intros Hf HS Hnd HP Hpre Hpost Hio.
  apply Forall_app in HP as [HPpre HP]. apply Forall_app in HP as [HPS HPpost].
  set (ids := ids_of S) in *.
  set (s0 := {| ps_map := []; ps_all := 0; ps_latest := default_aff |}).
  assert (HI0 : Inv ids regof s0).
  { unfold Inv, s0, st_ok, st_sum, keys, reg_cons, lp, latest_post_status, latest_for. cbn.
    repeat split; try constructor; try apply Qcle_refl; try (intros ? ? E; discriminate E); try (intros ? []). }
  assert (HQpre : Forall (Q dS ids regof) pre).
  { rewrite Forall_forall in *. intros x Hx. split; [apply HPpre; exact Hx | apply Hpre; exact Hx]. }
  assert (HX : forall A1, FwdSame (A1 ++ S ++ map (scale_tx f) post) (A1 ++ post)).
  { intros A1 last dflt s. apply (fwd_ASA f Hf dS); try assumption.
    - eapply Forall_impl; [|exact HPpost]. intros x [H _]. exact H.
    - apply adj_pos_nil. }
  rewrite !run_None. fold s0. rewrite !run_loop_app, (run_part_aft _ _ HX).
  destruct (run_part exact [] s0 pre post) as [[[ds1 b1] st1] o1] eqn:Ep.
  destruct (run_part_inv dS ids regof pre [] s0 post ds1 b1 st1 o1 Ep HI0 HQpre (Forall_nil _)) as [HI1 HQb].
  { eapply Forall_impl; [|exact HPpost]. intros x H. exact H. }
  destruct o1 as [e|].
  - exists ds1, [], [], (Some e). rewrite !app_nil_r. split; [reflexivity|]. split; [reflexivity|].
    split; [constructor|]. right. repeat split; discriminate.
  - rewrite run_loop_app.
    destruct (split_phase_R f Hf dS ids regof S b1 st1 (map (scale_tx f) post) eq_refl HS Hnd) as (dss & st' & Er & Emap & Hneu & HR); [|exact HI1|].
    { eapply Forall_impl; [|exact HPS]. intros x H. exact H. }
    rewrite Er.
    assert (HB : forall D, BwdOk f (map (scale_tx f) D ++ rev S ++ b1) (D ++ b1)).
    { intros D first dflt dflt' s Hd. apply (bwd_DSP f Hf dS); try assumption.
      - apply Forall_rev. exact HS.
      - rewrite ids_of_rev. apply NoDup_rev. exact Hnd.
      - eapply Forall_impl; [|exact HQb]. intros x [[Hin _] _]. rewrite ids_of_rev, <- in_rev. exact Hin.
      - eapply Forall_impl; [|exact HQb]. intros x [_ Hsd]. exact Hsd.
      - apply adj_pos_nil. }
    assert (HBg : Forall (goodtx regof) b1) by (eapply Forall_impl; [|exact HQb]; intros x [[_ Hg] _]; exact Hg).
    pose proof (run_loop_R f Hf regof (rev S ++ b1) b1 HB HBg [] st' st1 post HR Hio) as HL.
    cbn [map app] in HL. rewrite HL; [| eapply Forall_impl; [|exact HPpost]; intros x [_ Hg]; exact Hg | constructor].
    destruct (run_loop exact b1 st1 post) as [ds2 o2].
    exists ds1, ds2, dss, o2. split; [reflexivity|]. split; [reflexivity|]. split; [exact Hneu|]. left. exact Emap.
Qed.
